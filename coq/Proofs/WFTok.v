(* Proofs/WFTok.v — WF backbone: the texts the printer writes for keys and scalars are tokens of the grammar.
   A stored repr is a token by WF; an absent repr prints through the default writers, whose output is a token by
   their round-trip theorems (C10 strings / keys, C11 integers, C12 date-times) and token soundness (C01 L1).
   Also the bridge used by the decision procedure: a text that a token parser reads completely is a token. *)
From TV Require Import Base.Prelude Base.Utf8 Base.Winnow Gen.Consts Spec.Abnf Spec.Lex Spec.DatetimeSpec Spec.Syntax Spec.WF.
From TV Require Import Model.Trivia Model.Strings Model.Datetime Model.DatetimeStd Model.Numbers Model.Tree Model.Parse Model.Document Model.Write Model.Encode.
From TV Require Import Proofs.LexEquivBase Proofs.LexEquivTrivia Proofs.LexEquivInt Proofs.LexEquivFloat Proofs.LexEquivStrings
                       Proofs.LexEquivString Proofs.LexEquivDatetime.
From TV Require Import Proofs.StringsRTTop Proofs.NumbersRT_Int Proofs.DatetimeEq.
Require Import Lia.

(* what a sound token parser reads completely is a token *)
Lemma splits_whole t t' i' : splits (new_input t) t' i' -> rest i' = [] -> t' = t.
Proof. intros [R _] E. cbn [new_input rest] in R. rewrite E, app_nil_r in R. auto. Qed.

Lemma string_whole t v i' : string_ (new_input t) = Ok v i' -> rest i' = [] -> string_tok t v.
Proof. intros H E. apply string_sound in H as (t' & Ht & S). rewrite <- (splits_whole _ _ _ S E). exact Ht. Qed.
Lemma integer_whole t z i' : integer (new_input t) = Ok z i' -> rest i' = [] -> integer_tok t z /\ in_i64 z = true.
Proof. intros H E. apply integer_sound in H as (t' & Ht & S & R). rewrite <- (splits_whole _ _ _ S E). auto. Qed.
Lemma float_whole t f i' : float (new_input t) = Ok f i' -> rest i' = [] -> float_tok t f.
Proof. intros H E. apply float_sound in H as (t' & Ht & _ & S). rewrite <- (splits_whole _ _ _ S E). exact Ht. Qed.
Lemma boolean_whole t b i' : (true_ <|> false_) (new_input t) = Ok b i' -> rest i' = [] -> boolean_tok t b.
Proof. intros H E. apply boolean_sound in H as (t' & Ht & S). rewrite <- (splits_whole _ _ _ S E). exact Ht. Qed.
Lemma date_time_whole t d i' : date_time (new_input t) = Ok d i' -> rest i' = [] -> date_time_tok t d.
Proof. intros H E. apply date_time_sound in H as (t' & Ht & S). rewrite <- (splits_whole _ _ _ S E). exact Ht. Qed.
Lemma simple_key_whole t rw k i' : simple_key (new_input t) = Ok (rw, k) i' -> rest i' = [] -> simple_key_tok t k.
Proof. intros H E. apply simple_key_sound in H as (t' & Ht & S & _). rewrite <- (splits_whole _ _ _ S E). exact Ht. Qed.

(* ---- default writers ------------------------------------------------------------------------------------------ *)
Lemma default_key_tok k : utf8_valid_b k = true -> exists t, write_key KDefault k = Some t /\ simple_key_tok t k.
Proof.
  intro V. destruct (write_key KDefault k) as [t|] eqn:W; [|exfalso; exact (proj2 (default_total k) W)].
  exists t. split; [reflexivity|]. destruct (key_styles_parse k KDefault t V W) as [P _].
  eapply simple_key_whole; [exact P|reflexivity].
Qed.

Lemma key_text_tok k : key_repr_ok k -> simple_key_tok (key_display_repr k) (k_key k).
Proof.
  unfold key_repr_ok, key_display_repr. destruct (k_repr k) as [[|s|a b]|]; cbn [repr_str]; try contradiction.
  - auto.
  - intro V. destruct (default_key_tok _ V) as (t & -> & Ht). exact Ht.
Qed.

Lemma default_string_tok v : utf8_valid_b v = true -> string_tok (default_string_repr v) v.
Proof.
  intro V. destruct (value_styles_parse v StDefault (default_string_repr v) V eq_refl) as [P _].
  eapply string_whole; [exact P|reflexivity].
Qed.
Lemma default_int_tok z : in_i64 z = true -> integer_tok (write_i64 z) z.
Proof. intro H. eapply (integer_whole _ _ _ (integer_write_i64 z H)). reflexivity. Qed.
Lemma default_bool_tok b : boolean_tok (write_bool b) b.
Proof. destruct b; [left|right]; split; reflexivity. Qed.
Lemma default_datetime_tok d : in_range d = true -> date_time_tok (display_datetime d) d.
Proof.
  intro H. destruct (print_parse d H) as [_ P]. unfold doc_datetime in P.
  destruct (display_datetime d) as [|b r] eqn:E; [discriminate|]. destruct (in_class VALUE_NUMBER_START b); [|discriminate].
  destruct (date_time (new_input (b :: r))) as [d' i'|? ?|? ?|?] eqn:Q; try discriminate.
  destruct (rest i') eqn:R; [|discriminate]. inversion P; subst d'. eapply date_time_whole; [exact Q|exact R].
Qed.
Lemma default_special_float_tok f : match f with FDec _ _ _ => False | _ => True end -> float_tok (float_marker f) f.
Proof.
  destruct f as [[|]|[|]|n m e]; intro H; try contradiction; cbn [float_marker];
    (eapply float_whole; [vm_compute; reflexivity|reflexivity]).
Qed.

Lemma scalar_text_tok x r :
  repr_ok x r -> scalar_lim x ->
  scalar_tok (match repr_str r with Some t => t | None => scalar_default_repr x end) x.
Proof.
  unfold repr_ok. destruct r as [[|s|a b]|]; cbn [repr_str]; try contradiction; [auto|].
  intros Hd Hl. destruct x as [v|z|f|b|d]; cbn [scalar_tok scalar_default_repr default_ok scalar_lim] in *.
  - apply default_string_tok, Hd.
  - apply default_int_tok, Hl.
  - apply default_special_float_tok. destruct f; auto.
  - apply default_bool_tok.
  - apply default_datetime_tok, Hd.
Qed.
