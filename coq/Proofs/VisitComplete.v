(* Proofs/VisitComplete.v — the default walks of Model/Visit.v reach every node of
   Spec/Nodes.v exactly once, in document order; the mutable walk leaves the tree as
   Spec.map_scalars says.  Property C20. *)
From TV Require Import Base.Prelude Model.Datetime Model.Numbers Model.Tree Model.Visit Spec.Nodes.
Require Import Sorted.

(* ========================================================================================== *)
(* Vocabulary of the statements                                                                *)
(* ========================================================================================== *)

(* the hook that matches a value: visit_string .. visit_datetime for the five scalar kinds,
   visit_array, visit_inline_table *)
Definition value_meth (v : value) : meth :=
  match v with
  | VScalar s _ _ => scalar_meth s
  | VArray _ _ _ _ _ => MArray
  | VInline _ _ _ _ _ _ => MInlineTable
  end.

(* the call "the matching visit method on node n" *)
Definition node_hook (n : node) : event :=
  match n with
  | NTable t => (MTable, ATable t)
  | NKv k i => (MTableLikeKv, AKv k i)
  | NAot ts sp => (MArrayOfTables, AAot ts sp)
  | NValue v => (value_meth v, AValue v)
  end.

(* every call a default walk makes on account of node n itself (not of its children):
   the matching hook, and the dispatching hooks around it (visit_value in front of a value's
   own hook, visit_item behind a pair's, visit_table_like behind a table's / inline table's) *)
Definition hooks_of (n : node) : list event :=
  match n with
  | NTable t => [node_hook n; (MTableLike, ALike false (t_items t))]
  | NKv k i => [node_hook n; (MItem, AItem i)]
  | NAot _ _ => [node_hook n]
  | NValue v =>
    (MValue, AValue v) :: node_hook n
    :: match v with
       | VInline items _ _ _ _ _ => [(MTableLike, ALike true items)]
       | _ => []
       end
  end.

(* the dispatching hooks are visit_document, visit_item, visit_table_like, visit_value;
   all others are handed exactly one kind of node *)
Definition is_node_hook (e : event) : bool :=
  match fst e with
  | MDocument | MItem | MTableLike | MValue => false
  | _ => true
  end.

(* the whole log a default walk must produce *)
Definition expected_log (t : tbl) : list event := (MDocument, ADoc t) :: flat_map hooks_of (nodes t).

(* ========================================================================================== *)
(* Induction over value / item / tbl                                                           *)
(* ========================================================================================== *)
Section TreeInd.
  Variables (Pv : value -> Prop) (Pi : item -> Prop) (Pt : tbl -> Prop).
  Hypothesis Hscalar : forall s r d, Pv (VScalar s r d).
  Hypothesis Harray : forall vals tr c d sp, Forall Pi vals -> Pv (VArray vals tr c d sp).
  Hypothesis Hinline : forall items pre im dt d sp,
      Forall (fun kv => Pi (snd kv)) items -> Pv (VInline items pre im dt d sp).
  Hypothesis Hnone : Pi INone.
  Hypothesis Hvalue : forall v, Pv v -> Pi (IValue v).
  Hypothesis Htable : forall t, Pt t -> Pi (ITable t).
  Hypothesis Haot : forall ts sp, Forall Pt ts -> Pi (IAot ts sp).
  Hypothesis Htbl : forall items d im dt p sp,
      Forall (fun kv => Pi (snd kv)) items -> Pt (Tbl items d im dt p sp).

  Fixpoint value_ind3 (v : value) : Pv v :=
    match v with
    | VScalar s r d => Hscalar s r d
    | VArray vals tr c d sp =>
      Harray vals tr c d sp
             ((fix go (l : list item) : Forall Pi l :=
                 match l with
                 | [] => Forall_nil _
                 | x :: tl => Forall_cons x (item_ind3 x) (go tl)
                 end) vals)
    | VInline items pre im dt d sp =>
      Hinline items pre im dt d sp
              ((fix go (l : kvs) : Forall (fun kv => Pi (snd kv)) l :=
                  match l with
                  | [] => Forall_nil _
                  | kv :: tl =>
                    Forall_cons kv (match kv as kv0 return Pi (snd kv0) with (k, i) => item_ind3 i end) (go tl)
                  end) items)
    end
  with item_ind3 (i : item) : Pi i :=
    match i with
    | INone => Hnone
    | IValue v => Hvalue v (value_ind3 v)
    | ITable t => Htable t (tbl_ind3 t)
    | IAot ts sp =>
      Haot ts sp
           ((fix go (l : list tbl) : Forall Pt l :=
               match l with
               | [] => Forall_nil _
               | x :: tl => Forall_cons x (tbl_ind3 x) (go tl)
               end) ts)
    end
  with tbl_ind3 (t : tbl) : Pt t :=
    match t with
    | Tbl items d im dt p sp =>
      Htbl items d im dt p sp
           ((fix go (l : kvs) : Forall (fun kv => Pi (snd kv)) l :=
               match l with
               | [] => Forall_nil _
               | kv :: tl =>
                 Forall_cons kv (match kv as kv0 return Pi (snd kv0) with (k, i) => item_ind3 i end) (go tl)
               end) items)
    end.

  Lemma tree_ind3 : (forall v, Pv v) /\ (forall i, Pi i) /\ (forall t, Pt t).
  Proof. exact (conj value_ind3 (conj item_ind3 tbl_ind3)). Qed.
End TreeInd.

Lemma rose_ind2 (P : rose -> Prop) :
  (forall n cs, Forall P cs -> P (Rose n cs)) -> forall r, P r.
Proof.
  intros H.
  exact (fix rec (r : rose) : P r :=
           match r with
           | Rose n cs =>
             H n cs ((fix go (l : list rose) : Forall P l :=
                        match l with
                        | [] => Forall_nil _
                        | x :: tl => Forall_cons x (rec x) (go tl)
                        end) cs)
           end).
Qed.

(* ========================================================================================== *)
(* List helpers                                                                                *)
(* ========================================================================================== *)

Lemma flat_map_Forall_ext {A B} (f g : A -> list B) (l : list A) :
  Forall (fun x => f x = g x) l -> flat_map f l = flat_map g l.
Proof.
  induction 1 as [|x l Hx _ IH]; [reflexivity|]. cbn [flat_map]. rewrite Hx, IH. reflexivity.
Qed.

Lemma map_Forall_ext {A B} (f g : A -> B) (l : list A) :
  Forall (fun x => f x = g x) l -> map f l = map g l.
Proof.
  induction 1 as [|x l Hx _ IH]; [reflexivity|]. cbn [map]. rewrite Hx, IH. reflexivity.
Qed.

Lemma flat_map_flat_map {A B C} (f : B -> list C) (g : A -> list B) (l : list A) :
  flat_map f (flat_map g l) = flat_map (fun x => flat_map f (g x)) l.
Proof.
  induction l as [|x l IH]; [reflexivity|]. cbn [flat_map]. rewrite flat_map_app, IH. reflexivity.
Qed.

Lemma flat_map_map_l {A B C} (f : B -> list C) (g : A -> B) (l : list A) :
  flat_map f (map g l) = flat_map (fun x => f (g x)) l.
Proof. induction l as [|x l IH]; [reflexivity|]. cbn [map flat_map]. rewrite IH. reflexivity. Qed.

Lemma filter_flat_map {A B} (p : B -> bool) (f : A -> list B) (l : list A) :
  filter p (flat_map f l) = flat_map (fun x => filter p (f x)) l.
Proof.
  induction l as [|x l IH]; [reflexivity|]. cbn [flat_map]. rewrite filter_app, IH. reflexivity.
Qed.

Lemma flat_map_singleton {A B} (f : A -> B) (l : list A) : flat_map (fun x => [f x]) l = map f l.
Proof. induction l as [|x l IH]; [reflexivity|]. cbn [flat_map map app]. rewrite IH. reflexivity. Qed.

(* ========================================================================================== *)
(* The read-only walk                                                                          *)
(* ========================================================================================== *)

(* the calls made for a whole subtree *)
Definition log_of (r : rose) : list event := flat_map hooks_of (preorder r).
Definition logs_of (rs : list rose) : list event := flat_map hooks_of (flat_map preorder rs).

Lemma logs_of_flat {A} (g : A -> list rose) (l : list A) :
  logs_of (flat_map g l) = flat_map (fun x => logs_of (g x)) l.
Proof.
  unfold logs_of. rewrite (flat_map_flat_map preorder g l).
  rewrite (flat_map_flat_map hooks_of). reflexivity.
Qed.

Lemma log_of_Rose n cs : log_of (Rose n cs) = hooks_of n ++ logs_of cs.
Proof. unfold log_of, logs_of. cbn [preorder flat_map]. reflexivity. Qed.

Lemma logs_of_one r : logs_of [r] = log_of r.
Proof. unfold logs_of, log_of. cbn [flat_map]. rewrite app_nil_r. reflexivity. Qed.

(* one entry of a table-like, as the walk and as the listing see it *)
Lemma entry_agree (inline : bool) (k : key) (i : item) :
  visit_item i = (MItem, AItem i) :: logs_of (rose_item i) ->
  (if like_yields inline i then visit_table_like_kv visit_item k i else [])
  = logs_of (match i with INone => [] | _ => [Rose (NKv k i) (rose_item i)] end).
Proof.
  intros IH. unfold visit_table_like_kv, like_yields.
  destruct i as [|v|t|ts sp]; cbn [item_is_none negb].
  - reflexivity.
  - rewrite logs_of_one, log_of_Rose, IH. reflexivity.
  - rewrite logs_of_one, log_of_Rose, IH. reflexivity.
  - rewrite logs_of_one, log_of_Rose, IH. reflexivity.
Qed.

Definition visit_value_ok (v : value) : Prop := visit_value v = log_of (rose_value v).
Definition visit_item_ok (i : item) : Prop := visit_item i = (MItem, AItem i) :: logs_of (rose_item i).
Definition visit_table_ok (t : tbl) : Prop := visit_table t = log_of (rose_tbl t).

Lemma visit_ok : (forall v, visit_value_ok v) /\ (forall i, visit_item_ok i) /\ (forall t, visit_table_ok t).
Proof.
  apply tree_ind3; unfold visit_value_ok, visit_item_ok, visit_table_ok.
  - (* scalar *) intros s r d. reflexivity.
  - (* array *)
    intros vals tr c d sp IH.
    cbn [visit_value rose_value]. unfold visit_array. rewrite log_of_Rose. cbn [hooks_of node_hook value_meth app].
    do 2 f_equal. rewrite logs_of_flat. apply flat_map_Forall_ext.
    eapply Forall_impl; [|exact IH]. intros it Hit.
    destruct it as [|e| |]; try reflexivity.
    rewrite logs_of_one.
    cbn [visit_item rose_item] in Hit. rewrite logs_of_one in Hit. injection Hit as Hit. exact Hit.
  - (* inline table *)
    intros items pre im dt d sp IH.
    cbn [visit_value rose_value]. unfold visit_table_like. rewrite log_of_Rose. cbn [hooks_of node_hook value_meth app].
    do 3 f_equal. rewrite logs_of_flat. apply flat_map_Forall_ext.
    eapply Forall_impl; [|exact IH]. intros [k i] Hit. cbn [snd] in Hit.
    apply entry_agree. exact Hit.
  - (* Item::None *) reflexivity.
  - (* Item::Value *)
    intros v IH. cbn [visit_item rose_item]. rewrite logs_of_one. f_equal. exact IH.
  - (* Item::Table *)
    intros t IH. cbn [visit_item rose_item]. rewrite logs_of_one. f_equal. exact IH.
  - (* Item::ArrayOfTables *)
    intros ts sp IH. cbn [visit_item rose_item]. unfold visit_array_of_tables.
    rewrite logs_of_one, log_of_Rose. cbn [hooks_of node_hook app]. do 2 f_equal.
    unfold logs_of. rewrite flat_map_map_l, flat_map_flat_map.
    apply flat_map_Forall_ext. exact IH.
  - (* table *)
    intros items d im dt p sp IH.
    cbn [visit_table rose_tbl]. unfold visit_table_like. rewrite log_of_Rose. cbn [hooks_of node_hook t_items app].
    do 2 f_equal. rewrite logs_of_flat. apply flat_map_Forall_ext.
    eapply Forall_impl; [|exact IH]. intros [k i] Hit. cbn [snd] in Hit.
    apply entry_agree. exact Hit.
Qed.

(* C20_visit *)
Theorem visit_log : forall t, visit_document t = expected_log t.
Proof.
  intros t. unfold visit_document, expected_log, nodes. f_equal.
  apply (proj2 (proj2 visit_ok)).
Qed.

Lemma filter_hooks_of n : filter is_node_hook (hooks_of n) = [node_hook n].
Proof.
  destruct n as [t|k i|ts sp|v]; try reflexivity.
  destruct v as [s r d| |]; try reflexivity. destruct s; reflexivity.
Qed.

(* the node-level hooks, in call order = the matching hook on each node, in document order *)
Theorem visit_hooks : forall t,
  filter is_node_hook (visit_document t) = map node_hook (nodes t).
Proof.
  intros t. rewrite (visit_log t). unfold expected_log.
  cbn [filter is_node_hook fst]. rewrite filter_flat_map.
  rewrite (flat_map_Forall_ext _ (fun n => [node_hook n])).
  - apply flat_map_singleton.
  - apply Forall_forall. intros n _. apply filter_hooks_of.
Qed.

(* regression for finding F11 (repaired in /repo): `t = {}` after `doc["t"]["x"]` holds an
   Item::None placeholder inside the inline table; before the repair
   `impl TableLike for InlineTable::iter` yielded it and the walk called
   visit_table_like_kv("x", Item::None) and visit_item(Item::None) for it *)
Definition placeholder_witness : tbl :=
  Tbl [(mkKey [x74] None decor_default decor_default,
        IValue (VInline [(mkKey [x78] None decor_default decor_default, INone)] REmpty false false decor_default None))]
      decor_default false false None None.

Lemma placeholder_not_visited :
  ~ In (MItem, AItem INone) (visit_document placeholder_witness)
  /\ map fst (visit_document placeholder_witness)
     = [MDocument; MTable; MTableLike; MTableLikeKv; MItem; MValue; MInlineTable; MTableLike].
Proof.
  split; [|reflexivity].
  cbn. intros H. repeat (destruct H as [H|H]; [discriminate H|]). exact H.
Qed.

(* ========================================================================================== *)
(* The mutable walk                                                                            *)
(* ========================================================================================== *)

Lemma for_each_mut_spec {A} (f : A -> list event * A) (l : list A) :
  for_each_mut f l = (flat_map (fun a => fst (f a)) l, map (fun a => snd (f a)) l).
Proof.
  induction l as [|a l IH]; [reflexivity|].
  cbn [for_each_mut flat_map map]. fold (for_each_mut f). rewrite IH.
  destruct (f a) as [e a']. reflexivity.
Qed.

Section MutProofs.
  Variable hook : scalar -> option scalar.

  Definition mut_value_ok (v : value) : Prop :=
    visit_value_mut hook v = (visit_value v, map_value hook v).
  Definition mut_item_ok (i : item) : Prop :=
    visit_item_mut hook i = (visit_item i, map_item hook i).
  Definition mut_table_ok (t : tbl) : Prop :=
    visit_table_mut hook t = (visit_table t, map_tbl hook t).

  (* unfolding equations (the mutual fixpoint, one step, in folded form) *)
  Lemma visit_value_mut_eq v :
    visit_value_mut hook v =
    match (match v with
           | VScalar s r d => visit_scalar_mut hook s r d
           | VArray vals tr c d sp =>
             match visit_array_mut (visit_value_mut hook) v vals with
             | (e, vals') => (e, VArray vals' tr c d sp)
             end
           | VInline items pre im dt d sp =>
             match visit_table_like_mut (visit_item_mut hook) true items with
             | (e, items') => ((MInlineTable, AValue v) :: e, VInline items' pre im dt d sp)
             end
           end) with
    | (e, v') => ((MValue, AValue v) :: e, v')
    end.
  Proof. destruct v; reflexivity. Qed.

  Lemma visit_item_mut_eq i :
    visit_item_mut hook i =
    match (match i with
           | INone => ([], INone)
           | IValue v => match visit_value_mut hook v with (e, v') => (e, IValue v') end
           | ITable t => match visit_table_mut hook t with (e, t') => (e, ITable t') end
           | IAot ts sp =>
             match visit_array_of_tables_mut (visit_table_mut hook) ts sp with (e, ts') => (e, IAot ts' sp) end
           end) with
    | (e, i') => ((MItem, AItem i) :: e, i')
    end.
  Proof. destruct i; reflexivity. Qed.

  Lemma visit_table_mut_eq t :
    visit_table_mut hook t =
    match t with
    | Tbl items d im dt p sp =>
      match visit_table_like_mut (visit_item_mut hook) false items with
      | (e, items') => ((MTable, ATable t) :: e, Tbl items' d im dt p sp)
      end
    end.
  Proof. destruct t; reflexivity. Qed.

  Lemma mut_item_value_inv e : mut_item_ok (IValue e) -> mut_value_ok e.
  Proof.
    unfold mut_item_ok, mut_value_ok. rewrite visit_item_mut_eq.
    destruct (visit_value_mut hook e) as [ev e']. cbn [visit_item map_item].
    intros H. injection H as H1 H2. subst. reflexivity.
  Qed.

  Lemma like_mut_agree (inline : bool) (items : kvs) :
    Forall (fun kv => mut_item_ok (snd kv)) items ->
    visit_table_like_mut (visit_item_mut hook) inline items
    = (visit_table_like visit_item inline items,
       map (fun kv => match kv with (k, i) => (k, map_item hook i) end) items).
  Proof.
    intros IH. unfold visit_table_like_mut, visit_table_like. rewrite for_each_mut_spec.
    f_equal.
    - f_equal. apply flat_map_Forall_ext. eapply Forall_impl; [|exact IH].
      intros [k i] Hi. cbn [snd] in Hi. unfold mut_item_ok in Hi.
      unfold visit_table_like_kv_mut, visit_table_like_kv. rewrite Hi.
      destruct (like_yields inline i); reflexivity.
    - apply map_Forall_ext. eapply Forall_impl; [|exact IH].
      intros [k i] Hi. cbn [snd] in Hi. unfold mut_item_ok in Hi.
      unfold visit_table_like_kv_mut. rewrite Hi.
      destruct (like_yields inline i) eqn:Hy; [reflexivity|].
      (* not yielded: an Item::None entry, which map_item leaves alone *)
      unfold like_yields in Hy. destruct i; try discriminate Hy. reflexivity.
  Qed.

  Lemma mut_ok : (forall v, mut_value_ok v) /\ (forall i, mut_item_ok i) /\ (forall t, mut_table_ok t).
  Proof.
    apply tree_ind3; unfold mut_value_ok, mut_item_ok, mut_table_ok.
    - (* scalar *)
      intros s r d. rewrite visit_value_mut_eq. cbn [visit_value map_value]. unfold visit_scalar_mut.
      destruct (hook s); reflexivity.
    - (* array *)
      intros vals tr c d sp IH.
      rewrite visit_value_mut_eq. cbn [visit_value map_value]. unfold visit_array_mut, visit_array.
      rewrite for_each_mut_spec.
      rewrite (flat_map_Forall_ext _ (fun it => match it with IValue e => visit_value e | _ => [] end)).
      + rewrite (map_Forall_ext _ (fun it => match it with IValue e => IValue (map_value hook e) | _ => it end)).
        * reflexivity.
        * eapply Forall_impl; [|exact IH]. intros it Hit.
          destruct it as [|e| |]; try reflexivity.
          apply mut_item_value_inv in Hit. unfold mut_value_ok in Hit. rewrite Hit. reflexivity.
      + eapply Forall_impl; [|exact IH]. intros it Hit.
        destruct it as [|e| |]; try reflexivity.
        apply mut_item_value_inv in Hit. unfold mut_value_ok in Hit. rewrite Hit. reflexivity.
    - (* inline table *)
      intros items pre im dt d sp IH.
      rewrite visit_value_mut_eq. cbn [visit_value map_value]. rewrite (like_mut_agree true items IH). reflexivity.
    - (* Item::None *) reflexivity.
    - (* Item::Value *)
      intros v IH. rewrite visit_item_mut_eq. cbn [visit_item map_item]. rewrite IH. reflexivity.
    - (* Item::Table *)
      intros t IH. rewrite visit_item_mut_eq. cbn [visit_item map_item]. rewrite IH. reflexivity.
    - (* Item::ArrayOfTables *)
      intros ts sp IH. rewrite visit_item_mut_eq. cbn [visit_item map_item].
      unfold visit_array_of_tables_mut, visit_array_of_tables. rewrite for_each_mut_spec.
      rewrite (flat_map_Forall_ext _ (fun t => visit_table t)).
      + rewrite (map_Forall_ext _ (fun t => map_tbl hook t)).
        * reflexivity.
        * eapply Forall_impl; [|exact IH]. intros t Ht. rewrite Ht. reflexivity.
      + eapply Forall_impl; [|exact IH]. intros t Ht. rewrite Ht. reflexivity.
    - (* table *)
      intros items d im dt p sp IH.
      rewrite visit_table_mut_eq. cbn [visit_table map_tbl]. rewrite (like_mut_agree false items IH). reflexivity.
  Qed.

  (* whatever the scalar hooks do, the mutable walk makes the same calls as the read-only walk
     and leaves behind the tree in which exactly the scalars were rewritten *)
  Theorem mut_walk : forall t,
    visit_document_mut hook t = (visit_document t, map_scalars hook t).
  Proof.
    intros t. unfold visit_document_mut, visit_document, map_scalars.
    rewrite (proj2 (proj2 mut_ok) t). reflexivity.
  Qed.
End MutProofs.

(* unfolding equations of map_scalars (one step, folded) *)
Lemma map_value_eq g v :
  map_value g v =
  match v with
  | VScalar s r d => match g s with Some s' => VScalar s' None d | None => v end
  | VArray vals tr c d sp =>
    VArray (map (fun it => match it with IValue e => IValue (map_value g e) | _ => it end) vals) tr c d sp
  | VInline items pre im dt d sp =>
    VInline (map (fun kv => match kv with (k, i) => (k, map_item g i) end) items) pre im dt d sp
  end.
Proof. destruct v; reflexivity. Qed.

Lemma map_item_eq g i :
  map_item g i =
  match i with
  | INone => INone
  | IValue v => IValue (map_value g v)
  | ITable t => ITable (map_tbl g t)
  | IAot ts sp => IAot (map (fun t => map_tbl g t) ts) sp
  end.
Proof. destruct i; reflexivity. Qed.

Lemma map_tbl_eq g t :
  map_tbl g t =
  match t with
  | Tbl items d im dt p sp =>
    Tbl (map (fun kv => match kv with (k, i) => (k, map_item g i) end) items) d im dt p sp
  end.
Proof. destruct t; reflexivity. Qed.

Lemma map_id_Forall {A} (f : A -> A) (l : list A) : Forall (fun x => f x = x) l -> map f l = l.
Proof. induction 1 as [|x l Hx _ IH]; [reflexivity|]. cbn [map]. rewrite Hx, IH. reflexivity. Qed.

(* map_scalars with nothing to rewrite is the identity *)
Lemma map_none_id :
  (forall v, map_value hook_default v = v) /\ (forall i, map_item hook_default i = i)
  /\ (forall t, map_tbl hook_default t = t).
Proof.
  apply tree_ind3.
  - reflexivity.
  - intros vals tr c d sp IH. rewrite map_value_eq. f_equal.
    apply map_id_Forall. eapply Forall_impl; [|exact IH]. intros it Hit.
    destruct it as [|e| |]; try reflexivity.
    rewrite map_item_eq in Hit. exact Hit.
  - intros items pre im dt d sp IH. rewrite map_value_eq. f_equal.
    apply map_id_Forall. eapply Forall_impl; [|exact IH].
    intros [k i] Hi. cbn [snd] in Hi. rewrite Hi. reflexivity.
  - reflexivity.
  - intros v IH. rewrite map_item_eq, IH. reflexivity.
  - intros t IH. rewrite map_item_eq, IH. reflexivity.
  - intros ts sp IH. rewrite map_item_eq. f_equal. apply map_id_Forall. exact IH.
  - intros items d im dt p sp IH. rewrite map_tbl_eq. f_equal.
    apply map_id_Forall. eapply Forall_impl; [|exact IH].
    intros [k i] Hi. cbn [snd] in Hi. rewrite Hi. reflexivity.
Qed.

(* C20_visit_mut *)
Theorem visit_mut_default : forall t,
  fst (visit_document_mut hook_default t) = expected_log t
  /\ snd (visit_document_mut hook_default t) = t.
Proof.
  intros t. rewrite mut_walk. cbn [fst snd]. split.
  - apply visit_log.
  - apply (proj2 (proj2 map_none_id)).
Qed.

(* C20_rewrite *)
Theorem rewrite_scalars : forall g t,
  snd (visit_document_mut g t) = map_scalars g t /\ fst (visit_document_mut g t) = visit_document t.
Proof. intros g t. rewrite mut_walk. split; reflexivity. Qed.

Theorem rewrite_integers : forall f t,
  snd (visit_document_mut (hook_integer f) t) = map_scalars (rw_integer f) t.
Proof. intros f t. rewrite mut_walk. reflexivity. Qed.

Theorem rewrite_strings : forall f t,
  snd (visit_document_mut (hook_string f) t) = map_scalars (rw_string f) t.
Proof. intros f t. rewrite mut_walk. reflexivity. Qed.

(* ========================================================================================== *)
(* Exactly once: the listing runs through the positions of the tree, each once, in order        *)
(* ========================================================================================== *)

Fixpoint number (i : nat) (pss : list (list path)) : list path :=
  match pss with
  | [] => []
  | ps :: tl => map (cons i) ps ++ number (S i) tl
  end.

(* all positions of a rose tree, in preorder *)
Fixpoint positions (r : rose) : list path :=
  match r with
  | Rose _ cs => [] :: number 0 (map positions cs)
  end.

Definition label_at (r : rose) (p : path) : option node := optmap label (subtree r p).

Lemma number_labels n : forall cs pre,
  Forall (fun c => map (label_at c) (positions c) = map Some (preorder c)) cs ->
  map (label_at (Rose n (pre ++ cs))) (number (length pre) (map positions cs))
  = map Some (flat_map preorder cs).
Proof.
  induction cs as [|c cs IH]; intros pre HF; [reflexivity|].
  inversion HF as [|c0 cs0 Hc Hcs]; subst.
  cbn [map number flat_map]. rewrite (map_app (label_at _)), (map_app Some), map_map.
  f_equal.
  - rewrite <- Hc. apply map_ext. intros p. unfold label_at. cbn [subtree kids].
    rewrite nth_error_app2 by lia. rewrite Nat.sub_diag. reflexivity.
  - specialize (IH (pre ++ [c]) Hcs). rewrite app_length in IH. cbn [length] in IH.
    rewrite Nat.add_1_r in IH. rewrite <- app_assoc in IH. exact IH.
Qed.

Lemma positions_labels : forall r, map (label_at r) (positions r) = map Some (preorder r).
Proof.
  induction r as [n cs IH] using rose_ind2.
  cbn [positions map preorder]. f_equal. exact (number_labels n cs [] IH).
Qed.

Lemma number_In : forall pss k i ps q,
  nth_error pss i = Some ps -> In q ps -> In ((k + i) :: q) (number k pss).
Proof.
  induction pss as [|ps0 pss IH]; intros k i ps q Hn Hq; [destruct i; discriminate Hn|].
  cbn [number]. apply in_or_app. destruct i as [|i]; cbn [nth_error] in Hn.
  - injection Hn as Hn. subst ps0. left. rewrite Nat.add_0_r. apply in_map. exact Hq.
  - right. replace (k + S i) with (S k + i) by lia. eapply IH; eassumption.
Qed.

Lemma positions_complete : forall r p r', subtree r p = Some r' -> In p (positions r).
Proof.
  induction r as [n cs IH] using rose_ind2. intros p; destruct p as [|i q]; intros r' Hs.
  - cbn [positions]. left. reflexivity.
  - cbn [positions]. right. cbn [subtree kids] in Hs.
    destruct (nth_error cs i) as [c|] eqn:Hn; [|discriminate Hs].
    change (i :: q) with ((0 + i) :: q). apply number_In with (ps := positions c).
    + rewrite nth_error_map, Hn. reflexivity.
    + rewrite Forall_forall in IH. apply (IH c (nth_error_In _ _ Hn) q r'). exact Hs.
Qed.

Lemma positions_sound : forall r p, In p (positions r) -> exists n, label_at r p = Some n.
Proof.
  intros r p Hin. apply (in_map (label_at r)) in Hin. rewrite positions_labels in Hin.
  apply in_map_iff in Hin as [n [Hn _]]. exists n. symmetry. exact Hn.
Qed.

Lemma path_lt_irrefl p : ~ path_lt p p.
Proof.
  induction p as [|i p IH]; cbn [path_lt]; [tauto|].
  intros [H|[_ H]]; [lia|auto].
Qed.

Lemma number_head : forall pss k p, In p (number k pss) -> exists j q, p = j :: q /\ k <= j.
Proof.
  induction pss as [|ps pss IH]; intros k p Hin; [contradiction|].
  cbn [number] in Hin. apply in_app_or in Hin as [Hin|Hin].
  - apply in_map_iff in Hin as [q [Hq _]]. exists k, q. split; [symmetry; exact Hq|lia].
  - apply IH in Hin as [j [q [Hp Hj]]]. exists j, q. split; [exact Hp|lia].
Qed.

Lemma sorted_app {A} (R : A -> A -> Prop) (l1 l2 : list A) :
  StronglySorted R l1 -> StronglySorted R l2 ->
  (forall a b, In a l1 -> In b l2 -> R a b) -> StronglySorted R (l1 ++ l2).
Proof.
  induction 1 as [|a l1 Hs IH Ha]; intros H2 Hc; [exact H2|].
  cbn [app]. constructor.
  - apply IH; [exact H2|]. intros x y Hx Hy. apply Hc; [right; exact Hx|exact Hy].
  - apply Forall_app. split; [exact Ha|].
    apply Forall_forall. intros y Hy. apply Hc; [left; reflexivity|exact Hy].
Qed.

Lemma sorted_map_cons i ps :
  StronglySorted path_lt ps -> StronglySorted path_lt (map (cons i) ps).
Proof.
  induction 1 as [|p ps Hs IH Hp]; cbn [map]; constructor; [exact IH|].
  apply Forall_forall. intros q Hq. apply in_map_iff in Hq as [q' [Hq' Hin]]. subst q.
  cbn [path_lt]. right. split; [reflexivity|].
  rewrite Forall_forall in Hp. apply Hp. exact Hin.
Qed.

Lemma number_sorted : forall pss k,
  Forall (StronglySorted path_lt) pss -> StronglySorted path_lt (number k pss).
Proof.
  induction pss as [|ps pss IH]; intros k HF; [constructor|].
  inversion HF as [|x l Hps Hpss]; subst. cbn [number].
  apply sorted_app.
  - apply sorted_map_cons. exact Hps.
  - apply IH. exact Hpss.
  - intros a b Ha Hb. apply in_map_iff in Ha as [q [Hq _]]. subst a.
    apply number_head in Hb as [j [q' [Hb Hj]]]. subst b.
    cbn [path_lt]. left. lia.
Qed.

Lemma positions_sorted : forall r, StronglySorted path_lt (positions r).
Proof.
  induction r as [n cs IH] using rose_ind2. cbn [positions]. constructor.
  - apply number_sorted. apply Forall_map. exact IH.
  - apply Forall_forall. intros p Hp. apply number_head in Hp as [j [q [Hp _]]]. subst p.
    exact I.
Qed.

Lemma sorted_NoDup (l : list path) : StronglySorted path_lt l -> NoDup l.
Proof.
  induction 1 as [|p l Hs IH Hp]; constructor; [|exact IH].
  intro Hin. rewrite Forall_forall in Hp. apply (path_lt_irrefl p). apply Hp. exact Hin.
Qed.

(* the listing `nodes t` runs through the positions of the document: every position occurs,
   none twice, in document order *)
Lemma nodes_positions : forall t,
  exists ps : list path,
    StronglySorted path_lt ps /\ NoDup ps
    /\ (forall p, In p ps <-> node_at t p <> None)
    /\ map (node_at t) ps = map Some (nodes t).
Proof.
  intros t. exists (positions (rose_tbl t)).
  pose proof (positions_sorted (rose_tbl t)) as Hs.
  split; [exact Hs|]. split; [apply sorted_NoDup; exact Hs|]. split.
  - intros p. unfold node_at. fold (label_at (rose_tbl t) p). split.
    + intros Hin. apply positions_sound in Hin as [n Hn]. rewrite Hn. discriminate.
    + intros Hne. unfold label_at in Hne.
      destruct (subtree (rose_tbl t) p) as [r'|] eqn:Hsub; [|exfalso; apply Hne; reflexivity].
      eapply positions_complete. exact Hsub.
  - unfold nodes. rewrite <- positions_labels. apply map_ext. intros p. reflexivity.
Qed.

(* C20_once *)
Theorem visit_once : forall t,
  exists ps : list path,
    StronglySorted path_lt ps /\ NoDup ps
    /\ (forall p, In p ps <-> node_at t p <> None)
    /\ map Some (filter is_node_hook (visit_document t))
       = map (fun p => optmap node_hook (node_at t p)) ps.
Proof.
  intros t. destruct (nodes_positions t) as [ps [Hs [Hnd [Hall Hmap]]]].
  exists ps. repeat split; try assumption; try (apply Hall).
  rewrite (visit_hooks t).
  rewrite <- (map_map (node_at t) (optmap node_hook)), Hmap, !map_map. reflexivity.
Qed.

(* ========================================================================================== *)
(* Rewriting keeps the shape: same nodes at the same positions, scalars rewritten              *)
(* ========================================================================================== *)

Fixpoint rose_map (f : node -> node) (r : rose) : rose :=
  match r with
  | Rose n cs => Rose (f n) (map (rose_map f) cs)
  end.

Lemma map_flat_map {A B C} (h : B -> C) (f : A -> list B) (l : list A) :
  map h (flat_map f l) = flat_map (fun x => map h (f x)) l.
Proof. induction l as [|x l IH]; [reflexivity|]. cbn [flat_map]. rewrite map_app, IH. reflexivity. Qed.

Lemma preorder_rose_map f : forall r, preorder (rose_map f r) = map f (preorder r).
Proof.
  induction r as [n cs IH] using rose_ind2. cbn [rose_map preorder map]. f_equal.
  rewrite flat_map_map_l, map_flat_map. apply flat_map_Forall_ext. exact IH.
Qed.

Section Shape.
  Variable g : scalar -> option scalar.
  Let h := rose_map (map_node g).

  Lemma entry_shape (k : key) (i : item) :
    rose_item (map_item g i) = map h (rose_item i) ->
    match map_item g i with
    | INone => []
    | _ => [Rose (NKv k (map_item g i)) (rose_item (map_item g i))]
    end
    = map h (match i with INone => [] | _ => [Rose (NKv k i) (rose_item i)] end).
  Proof.
    intros IH. rewrite IH. destruct i; reflexivity.
  Qed.

  Lemma shape_ok :
    (forall v, rose_value (map_value g v) = h (rose_value v))
    /\ (forall i, rose_item (map_item g i) = map h (rose_item i))
    /\ (forall t, rose_tbl (map_tbl g t) = h (rose_tbl t)).
  Proof.
    apply tree_ind3.
    - intros s r d. rewrite map_value_eq. destruct (g s) eqn:E.
      + cbn [rose_value h rose_map map map_node]. rewrite map_value_eq, E. reflexivity.
      + cbn [rose_value h rose_map map map_node]. rewrite map_value_eq, E. reflexivity.
    - intros vals tr c d sp IH.
      rewrite map_value_eq. cbn [rose_value]. unfold h at 1. cbn [rose_map map_node].
      rewrite (map_value_eq g (VArray vals tr c d sp)). f_equal.
      rewrite flat_map_map_l. fold h. rewrite map_flat_map. apply flat_map_Forall_ext.
      eapply Forall_impl; [|exact IH]. intros it Hit.
      destruct it as [|e| |]; try reflexivity. exact Hit.
    - intros items pre im dt d sp IH.
      rewrite map_value_eq. cbn [rose_value]. unfold h at 1. cbn [rose_map map_node].
      rewrite (map_value_eq g (VInline items pre im dt d sp)). f_equal.
      rewrite flat_map_map_l. fold h. rewrite map_flat_map. apply flat_map_Forall_ext.
      eapply Forall_impl; [|exact IH]. intros [k i] Hi. cbn [snd] in Hi.
      apply entry_shape. exact Hi.
    - reflexivity.
    - intros v IH. rewrite map_item_eq. cbn [rose_item map]. rewrite IH. reflexivity.
    - intros t IH. rewrite map_item_eq. cbn [rose_item map]. rewrite IH. reflexivity.
    - intros ts sp IH. rewrite map_item_eq. cbn [rose_item map]. unfold h at 1. cbn [rose_map map_node].
      do 2 f_equal. rewrite !map_map. apply map_Forall_ext. exact IH.
    - intros items d im dt p sp IH.
      rewrite map_tbl_eq. cbn [rose_tbl]. unfold h at 1. cbn [rose_map map_node].
      rewrite (map_tbl_eq g (Tbl items d im dt p sp)). f_equal.
      rewrite flat_map_map_l. fold h. rewrite map_flat_map. apply flat_map_Forall_ext.
      eapply Forall_impl; [|exact IH]. intros [k i] Hi. cbn [snd] in Hi.
      apply entry_shape. exact Hi.
  Qed.

  (* the rewritten document has the same nodes in the same order, each the image of the old one *)
  Theorem rewrite_nodes : forall t, nodes (map_scalars g t) = map (map_node g) (nodes t).
  Proof.
    intros t. unfold nodes, map_scalars. rewrite (proj2 (proj2 shape_ok) t). unfold h.
    apply preorder_rose_map.
  Qed.

  (* all scalars g applies to are replaced, the others stay, none appears or disappears *)
  Theorem rewrite_scalar_list : forall t,
    scalars (map_scalars g t) = map (fun s => match g s with Some s' => s' | None => s end) (scalars t).
  Proof.
    intros t. unfold scalars. rewrite rewrite_nodes, flat_map_map_l, map_flat_map.
    apply flat_map_Forall_ext. apply Forall_forall. intros n _.
    destruct n as [| | |v]; try reflexivity.
    cbn [map_node]. rewrite map_value_eq. destruct v as [s r d| |]; try reflexivity.
    cbn [map]. destruct (g s); reflexivity.
  Qed.
End Shape.
