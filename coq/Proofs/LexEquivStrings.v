(* Proofs/LexEquivStrings.v — L1 for the single-line strings and keys: escapes (with \u / \U),
   basic-string (the parser checks UTF-8 per maximal unescaped chunk; the grammar asks for a
   well-formed token), literal-string, simple-key. *)
From TV Require Import Base.Prelude Base.Utf8 Base.Winnow Gen.Consts Spec.Abnf Spec.Lex.
From TV Require Import Model.Datetime Model.Trivia Model.Strings Model.Numbers Model.Tree Model.Parse.
From TV Require Import Proofs.ConstsOk Proofs.LexEquivBase Proofs.LexEquivTrivia Proofs.LexEquivInt.
Require Import Lia ZifyBool ZifyN ZifyNat.

(* ---- from_utf8 ------------------------------------------------------------------------------------ *)
Lemma from_utf8_ok (p : parser bytes) i b i' :
  p i = Ok b i' -> utf8_valid_b b = true -> from_utf8 p i = Ok b i'.
Proof. intros H V. unfold from_utf8. apply (try_map_ok _ _ _ b); [exact H|]. rewrite V. reflexivity. Qed.

Lemma from_utf8_inv (p : parser bytes) i b i' :
  from_utf8 p i = Ok b i' -> p i = Ok b i' /\ utf8_valid_b b = true.
Proof.
  unfold from_utf8. intro H. apply try_map_inv in H as (a & H & E).
  destruct (utf8_valid_b a) eqn:V; [|discriminate]. injection E as <-. auto.
Qed.

Lemma from_utf8_fails (p : parser bytes) i : fails p i -> fails (from_utf8 p) i.
Proof. apply try_map_fails. Qed.

(* an invalid chunk is a failure without commitment *)
Lemma from_utf8_invalid (p : parser bytes) i b i' :
  p i = Ok b i' -> utf8_valid_b b = false -> fails (from_utf8 p) i.
Proof. intros H V. unfold fails, from_utf8, try_map. rewrite H, V. eauto. Qed.

(* ---- the accumulate-chunks loop -------------------------------------------------------------------------- *)
Lemma chunks_f_runs (p : parser bytes) i l i' : runs p i l i' ->
  forall fuel acc, length (rest i) < fuel -> chunks_f fuel p acc i = Ok (acc ++ concat l) i'.
Proof.
  induction 1 as [i (e & j & F)|i a i1 l i2 E Hlt R IH]; intros fuel acc Hf;
    (destruct fuel as [|fuel]; [lia|]); cbn [chunks_f].
  - rewrite F. cbn [concat]. rewrite app_nil_r. reflexivity.
  - rewrite E. destruct (Nat.eqb (length (rest i1)) (length (rest i))) eqn:Q.
    + apply Nat.eqb_eq in Q. lia.
    + rewrite IH by lia. cbn [concat]. rewrite app_assoc. reflexivity.
Qed.

Lemma chunks_runs (p : parser bytes) i l i' : runs p i l i' -> chunks p i = Ok (concat l) i'.
Proof. intro R. unfold chunks. rewrite (chunks_f_runs p i l i' R) by lia. reflexivity. Qed.

Lemma chunks_f_inv (p : parser bytes) : shrinking p ->
  forall fuel acc i v i', chunks_f fuel p acc i = Ok v i' -> exists l, v = acc ++ concat l /\ runs p i l i'.
Proof.
  intros Hs. induction fuel as [|fuel IH]; intros acc i v i' H; cbn [chunks_f] in H; [discriminate|].
  destruct (p i) as [a i1|e j| |] eqn:E; try discriminate.
  - destruct (Nat.eqb (length (rest i1)) (length (rest i))) eqn:Q; [discriminate|].
    apply Nat.eqb_neq in Q. pose proof (Hs _ _ _ E) as Hle.
    apply IH in H as (l & -> & R). exists (a :: l). split.
    + cbn [concat]. rewrite app_assoc. reflexivity.
    + eapply runs_cons; [exact E|lia|exact R].
  - injection H as <- <-. exists []. split; [cbn [concat]; rewrite app_nil_r; reflexivity|].
    apply runs_nil. exists e, j. exact E.
Qed.

Lemma chunks_inv (p : parser bytes) i v i' : shrinking p ->
  chunks p i = Ok v i' -> exists l, v = concat l /\ runs p i l i'.
Proof. intros Hs H. unfold chunks in H. apply (chunks_f_inv p Hs) in H as (l & -> & R). exists l. auto. Qed.

(* ---- hexadecimal escapes ------------------------------------------------------------------------------------ *)
Lemma take_upto_exact f n : forall h r, length h = n -> forallb f h = true -> take_upto f n (h ++ r) = h.
Proof.
  induction n as [|n IH]; intros [|b h] r Hl Hh; try discriminate; [reflexivity|].
  cbn [forallb] in Hh. apply andb_true_iff in Hh as [Hb Hh]. cbn [app take_upto]. rewrite Hb.
  rewrite IH; [reflexivity|simpl in Hl; lia|exact Hh].
Qed.

Lemma take_upto_facts f n : forall s, exists r,
  s = take_upto f n s ++ r /\ forallb f (take_upto f n s) = true.
Proof.
  induction n as [|n IH]; intros [|b s]; cbn [take_upto]; try (eexists; split; reflexivity).
  destruct (f b) eqn:F; [|eexists; split; reflexivity].
  destruct (IH s) as (r & E & A). exists r. cbn [app forallb]. rewrite F, A. split; [congruence|reflexivity].
Qed.

Lemma hex_val_digit_of b : Abnf.hexdig b = true -> hex_val b = digit_of b.
Proof. destruct b; try discriminate; intros _; reflexivity. Qed.

Lemma hex_value_acc_horner h : forallb Abnf.hexdig h = true -> forall acc,
  hex_value_acc acc h = fold_left (fun a b => (a * 16 + digit_of b)%N) h acc.
Proof.
  induction h as [|d h IH]; intros H acc; [reflexivity|].
  cbn [forallb] in H. apply andb_true_iff in H as [Hd Hh]. cbn [hex_value_acc fold_left].
  rewrite IH by exact Hh. rewrite (hex_val_digit_of d Hd). reflexivity.
Qed.

Lemma hex_value_horner h : forallb Abnf.hexdig h = true -> hex_value h = horner 16 h.
Proof. intro H. unfold hex_value, horner. apply hex_value_acc_horner. exact H. Qed.

Lemma digit_of_hex_lt b : Abnf.hexdig b = true -> (digit_of b < 16)%N.
Proof. destruct b; try discriminate; intros _; reflexivity. Qed.

Lemma horner16_bound h : forallb Abnf.hexdig h = true -> (horner 16 h < 16 ^ N.of_nat (length h))%N.
Proof.
  unfold horner. assert (G : forall h acc k, forallb Abnf.hexdig h = true -> (acc < 16 ^ k)%N ->
    (fold_left (fun a b => (a * 16 + digit_of b)%N) h acc < 16 ^ (k + N.of_nat (length h)))%N).
  { clear h. induction h as [|d h IH]; intros acc k H Hacc.
    - cbn [fold_left length]. rewrite N.add_0_r. exact Hacc.
    - cbn [forallb] in H. apply andb_true_iff in H as [Hd Hh]. cbn [fold_left length].
      replace (k + N.of_nat (S (length h)))%N with ((k + 1) + N.of_nat (length h))%N by lia.
      apply IH; [exact Hh|]. rewrite N.pow_add_r. change (16 ^ 1)%N with 16%N.
      pose proof (digit_of_hex_lt d Hd). lia. }
  intro H. apply (G h 0%N 0%N H). reflexivity.
Qed.

Lemma is_hexdig_ascii_ok b : is_hexdig_ascii b = Abnf.hexdig b.
Proof. reflexivity. Qed.

Lemma hexdig_ascii b : Abnf.hexdig b = true -> ascii b = true.
Proof. intro H. apply (digit_class_hexdig b H). Qed.

Lemma u32_from_hex_ok h : h <> [] -> length h <= 8 -> forallb Abnf.hexdig h = true ->
  u32_from_hex h = Some (horner 16 h).
Proof.
  intros Hne Hl Hh. unfold u32_from_hex. destruct h as [|b t]; [congruence|].
  rewrite (forallb_ext_eq _ _ _ is_hexdig_ascii_ok), Hh. rewrite (hex_value_horner _ Hh).
  pose proof (horner16_bound _ Hh) as B.
  assert (P : (16 ^ N.of_nat (length (b :: t)) <= 2 ^ 32)%N).
  { change (2 ^ 32)%N with (16 ^ 8)%N. apply N.pow_le_mono_r; lia. }
  destruct (horner 16 (b :: t) <? 2 ^ 32)%N eqn:L; [reflexivity|lia].
Qed.

Lemma u32_from_hex_inv h v : u32_from_hex h = Some v -> forallb Abnf.hexdig h = true /\ v = horner 16 h.
Proof.
  unfold u32_from_hex. destruct h as [|b t]; [discriminate|].
  rewrite (forallb_ext_eq _ _ _ is_hexdig_ascii_ok). destruct (forallb Abnf.hexdig (b :: t)) eqn:Hh; [|discriminate].
  rewrite (hex_value_horner _ Hh). destruct (_ <? _)%N; [|discriminate]. intro E. injection E as <-. auto.
Qed.

Lemma hexescape_complete k i h r :
  (k = 4 \/ k = 8) -> length h = k -> all Abnf.hexdig h -> is_scalar (horner 16 h) = true ->
  rest i = h ++ r -> hexescape k i = Ok (utf8_encode (horner 16 h)) (adv h i).
Proof.
  intros Hk Hl Hh Hsc H. unfold hexescape.
  apply (try_map_ok _ _ _ (horner 16 h)); [|rewrite Hsc; reflexivity].
  apply (verify_map_ok _ _ _ h); [|apply u32_from_hex_ok; [destruct h; [simpl in Hl; lia|discriminate]|lia|exact Hh]].
  apply unchecked_ok; [|apply utf8_ascii; apply (forallb_impl Abnf.hexdig); [apply hexdig_ascii|exact Hh]].
  apply verify_ok; [|apply Nat.eqb_eq; exact Hl].
  unfold take_while_mn. rewrite H. rewrite (take_upto_exact _ k h r Hl).
  - cbn [Nat.ltb Nat.leb]. reflexivity.
  - rewrite (forallb_ext_eq _ _ _ HEXDIG_ok). exact Hh.
Qed.

Lemma hexescape_sound k i s i' : hexescape k i = Ok s i' ->
  exists h, length h = k /\ all Abnf.hexdig h /\ is_scalar (horner 16 h) = true
            /\ s = utf8_encode (horner 16 h) /\ splits i h i'.
Proof.
  unfold hexescape. intro H. apply try_map_inv in H as (v & H & Ev).
  destruct (is_scalar v) eqn:Hsc; [|discriminate]. injection Ev as <-.
  apply verify_map_inv in H as (h & H & Eh). apply u32_from_hex_inv in Eh as [Hh ->].
  apply unchecked_inv in H as [H _]. apply verify_inv in H as [H Hl]. apply Nat.eqb_eq in Hl.
  unfold take_while_mn in H. cbn [Nat.ltb Nat.leb] in H. injection H as Eg Ei.
  destruct (take_upto_facts (in_class HEXDIG) k (rest i)) as (r & E & _). rewrite Eg in E, Ei. subst i'.
  exists h. split; [exact Hl|]. split; [exact Hh|]. split; [exact Hsc|]. split; [reflexivity|].
  apply (splits_adv i h r E).
Qed.

(* ---- escaped = escape escape-seq-char -------------------------------------------------------------------------------- *)
Lemma escape_simple_ascii b n : escape_simple b = Some n -> ascii b = true.
Proof. destruct b; try discriminate; intros _; reflexivity. Qed.

Lemma escape_hex_cases b k : escape_hex b = Some k ->
  ascii b = true /\ escape_simple b = None /\ (k = 4 \/ k = 8).
Proof. destruct b; try discriminate; intro H; injection H as <-; auto. Qed.

Lemma escaped_ascii e s : escaped_tok e s -> forallb ascii e = true /\ exists t, e = x5c :: t.
Proof.
  intros [b n Hb | b k h Hb Hl Hh Hsc].
  - cbn [forallb]. rewrite (escape_simple_ascii b n Hb). split; [reflexivity|eauto].
  - destruct (escape_hex_cases b k Hb) as (Ab & _). cbn [forallb]. rewrite Ab.
    rewrite (forallb_impl Abnf.hexdig ascii h hexdig_ascii Hh). split; [reflexivity|eauto].
Qed.

Lemma escaped_complete i e s r : escaped_tok e s -> rest i = e ++ r -> escaped i = Ok s (adv e i).
Proof.
  intros [b n Hb | b k h Hb Hl Hh Hsc] H; unfold escaped, preceded, ESCAPE; cbn [app] in H.
  - rewrite (bind_ok _ _ _ _ _ (byte_ok x5c i _ H)). pose proof (rest_adv [x5c] _ _ H) as R.
    unfold escape_seq_char. rewrite (bind_ok _ _ _ _ _ (any_ok _ b r R)).
    rewrite ESCAPE_SIMPLE_ok, Hb. unfold ret. rewrite adv_adv. reflexivity.
  - rewrite (bind_ok _ _ _ _ _ (byte_ok x5c i _ H)). pose proof (rest_adv [x5c] _ _ H) as R.
    unfold escape_seq_char. rewrite (bind_ok _ _ _ _ _ (any_ok _ b (h ++ r) R)).
    destruct (escape_hex_cases b k Hb) as (_ & Es & Hk).
    rewrite ESCAPE_SIMPLE_ok, Es, ESCAPE_HEX_ok, Hb.
    pose proof (rest_adv [b] _ _ R) as R2.
    rewrite (context_ok _ _ _ _ (cut_err_ok _ _ _ _ (hexescape_complete k _ h r Hk Hl Hh Hsc R2))).
    rewrite !adv_adv. reflexivity.
Qed.

Lemma escaped_sound i s i' : escaped i = Ok s i' -> exists e, escaped_tok e s /\ splits i e i'.
Proof.
  unfold escaped, preceded, ESCAPE. intro H. apply bind_inv in H as (x & i1 & H1 & H).
  apply byte_inv in H1 as [_ S1]. unfold escape_seq_char in H. apply bind_inv in H as (b & i2 & H2 & H).
  apply any_inv in H2. rewrite ESCAPE_SIMPLE_ok, ESCAPE_HEX_ok in H.
  destruct (escape_simple b) as [n|] eqn:Es.
  - apply ret_inv in H as [-> ->]. exists [x5c; b]. split; [apply esc_simple; exact Es|].
    apply (splits_trans _ _ _ _ _ S1 H2).
  - destruct (escape_hex b) as [k|] eqn:Eh.
    + apply context_inv, cut_err_inv, hexescape_sound in H as (h & Hl & Hh & Hsc & -> & S3).
      exists (x5c :: b :: h). split; [apply (esc_hex b k h Eh Hl Hh Hsc)|].
      apply (splits_trans _ _ _ _ _ S1 (splits_trans _ _ _ _ _ H2 S3)).
    + unfold context, cut_err, fail in H. discriminate.
Qed.

Lemma escaped_fails i : stops (byte_eqb x5c) (rest i) -> fails escaped i.
Proof. intro H. unfold escaped, preceded, ESCAPE. apply bind_fails, byte_fails. exact H. Qed.

Lemma escaped_shrinking : shrinking escaped.
Proof. apply splits_shrinking. intros i a i' H. apply escaped_sound in H as (e & _ & S). eauto. Qed.

(* ---- unescaped runs ------------------------------------------------------------------------------------------------------ *)
(* a run of class bytes is a sequence of one-byte items of any language that contains them *)
Lemma star_run (cl : byte -> bool) (L : lang) a :
  (forall b, cl b = true -> L [b] [b]) -> all cl a -> star L a a.
Proof.
  intros HL. induction a as [|b a IH]; intro Ha; [apply star_nil|].
  unfold all in Ha. cbn [forallb] in Ha. apply andb_true_iff in Ha as [Hb Ha].
  change (b :: a) with ([b] ++ a). apply star_cons; [apply HL; exact Hb|apply IH; exact Ha].
Qed.

Lemma star_one_inv cl t v : star (one cl) t v -> v = t /\ all cl t.
Proof.
  induction 1 as [|t1 v1 t2 v2 (b & Hb & -> & ->) _ (-> & IH)]; [split; reflexivity|].
  split; [reflexivity|]. unfold all. cbn [app forallb]. rewrite Hb. exact IH.
Qed.

Lemma basic_unescaped_nonascii b : basic_unescaped b = false -> ascii b = true.
Proof. pose proof (b2n_lt b). unfold ascii. cls. lia. Qed.
Lemma literal_char_nonascii b : literal_char b = false -> ascii b = true.
Proof. pose proof (b2n_lt b). unfold ascii. cls. lia. Qed.

Lemma stops_ascii_head cl r : (forall b, cl b = false -> ascii b = true) -> stops cl r -> ascii_head r.
Proof. intros H. destruct r as [|b r]; [auto|]. cbn [stops ascii_head]. apply H. Qed.

(* ---- basic-string = quotation-mark *basic-char quotation-mark ---------------------------------------------------------------- *)
Definition unesc_chunk : parser bytes := from_utf8 (take_while1 (in_class BASIC_UNESCAPED)).

Lemma unesc_chunk_ok i a r :
  rest i = a ++ r -> a <> [] -> all basic_unescaped a -> stops basic_unescaped r -> utf8_valid_b a = true ->
  unesc_chunk i = Ok a (adv a i).
Proof.
  intros H Hne Ha Hr V. unfold unesc_chunk. apply from_utf8_ok; [|exact V].
  unfold take_while1. rewrite (take_while_ext _ _ _ _ _ BASIC_UNESCAPED_ok).
  apply (take_while_ok 1 _ i a r H Ha Hr). destruct a; [congruence|simpl; lia].
Qed.

Lemma unesc_chunk_inv i a i' : unesc_chunk i = Ok a i' ->
  splits i a i' /\ a <> [] /\ all basic_unescaped a /\ stops basic_unescaped (rest i') /\ utf8_valid_b a = true.
Proof.
  unfold unesc_chunk. intro H. apply from_utf8_inv in H as [H V].
  unfold take_while1 in H. rewrite (take_while_ext _ _ _ _ _ BASIC_UNESCAPED_ok) in H.
  apply take_while_inv in H as (S & Ha & Hs & Hl). split; [exact S|].
  split; [destruct a; [simpl in Hl; lia|discriminate]|auto].
Qed.

Lemma unesc_chunk_fails i : stops basic_unescaped (rest i) -> fails unesc_chunk i.
Proof.
  intro H. unfold unesc_chunk. apply from_utf8_fails, take_while1_fails.
  destruct (rest i); [exact I|]. cbn [stops] in *. rewrite BASIC_UNESCAPED_ok. exact H.
Qed.

Lemma basic_chars_unfold i : basic_chars i = (unesc_chunk <|> escaped) i.
Proof. reflexivity. Qed.

Lemma basic_chars_inv i c i' : basic_chars i = Ok c i' ->
  exists t, star basic_char t c /\ splits i t i' /\ utf8_valid_b t = true /\ t <> [].
Proof.
  rewrite basic_chars_unfold. intro H. apply alt_inv in H as [H | [_ H]].
  - apply unesc_chunk_inv in H as (S & Hne & Ha & _ & V). exists c. split; [|auto].
    apply (star_run basic_unescaped); [|exact Ha]. intros b Hb. left. exists b. auto.
  - apply escaped_sound in H as (e & He & S). destruct (escaped_ascii e c He) as (Ae & t & ->).
    exists (x5c :: t). split; [apply star_one; right; exact He|]. split; [exact S|].
    split; [apply utf8_ascii; exact Ae|discriminate].
Qed.

Lemma basic_chars_shrinking : shrinking basic_chars.
Proof. apply splits_shrinking. intros i a i' H. apply basic_chars_inv in H as (t & _ & S & _). eauto. Qed.

Lemma runs_basic_sound i l i' : runs basic_chars i l i' ->
  exists body, star basic_char body (concat l) /\ splits i body i' /\ utf8_valid_b body = true.
Proof.
  induction 1 as [i F|i a i1 l i2 E _ _ (body & St & S2 & V2)].
  - exists []. split; [apply star_nil|]. split; [apply splits_nil|reflexivity].
  - apply basic_chars_inv in E as (t & St1 & S1 & V1 & _). exists (t ++ body). cbn [concat].
    split; [apply star_app; assumption|]. split; [apply (splits_trans _ _ _ _ _ S1 S2)|].
    apply utf8_join; assumption.
Qed.

(* the parser's view of a body: maximal unescaped chunks and escapes *)
Inductive chunked : bytes -> bytes -> Prop :=
| ch_nil : chunked [] []
| ch_run a t v : a <> [] -> all basic_unescaped a -> stops basic_unescaped t -> chunked t v ->
    chunked (a ++ t) (a ++ v)
| ch_esc e s t v : escaped_tok e s -> chunked t v -> chunked (e ++ t) (s ++ v).

Lemma chunked_cons b t v : basic_unescaped b = true -> chunked t v -> chunked (b :: t) (b :: v).
Proof.
  intros Hb H. destruct H as [|a t v Hne Ha Hs H|e s t v He H].
  - apply (ch_run [b] [] []); [discriminate|unfold all; cbn [forallb]; rewrite Hb; reflexivity|exact I|apply ch_nil].
  - apply (ch_run (b :: a) t v); [discriminate| |exact Hs|exact H].
    unfold all in *. cbn [forallb]. rewrite Hb. exact Ha.
  - apply (ch_run [b] (e ++ t) (s ++ v)); [discriminate|unfold all; cbn [forallb]; rewrite Hb; reflexivity| |].
    + destruct (escaped_ascii e s He) as (_ & t' & ->). reflexivity.
    + apply ch_esc; assumption.
Qed.

Lemma star_chunked body v : star basic_char body v -> chunked body v.
Proof.
  induction 1 as [|t1 v1 t2 v2 [(b & Hb & -> & ->) | He] _ IH]; [apply ch_nil| |].
  - apply chunked_cons; assumption.
  - apply ch_esc; assumption.
Qed.

Lemma quote_stops_basic r : stops basic_unescaped (x22 :: r).
Proof. reflexivity. Qed.

Lemma basic_chars_fails_quote i r : rest i = x22 :: r -> fails basic_chars i.
Proof.
  intro H. unfold fails. rewrite basic_chars_unfold. apply alt_fails.
  - apply unesc_chunk_fails. rewrite H. reflexivity.
  - apply escaped_fails. rewrite H. reflexivity.
Qed.

Lemma stops_app_quote (cl : byte -> bool) t r : cl x22 = false -> stops cl t -> stops cl (t ++ x22 :: r).
Proof. intros Hq. destruct t; [intros _; exact Hq|auto]. Qed.

Lemma runs_basic_complete body v : chunked body v -> forall i r,
  utf8_valid_b body = true -> rest i = body ++ x22 :: r ->
  exists l, runs basic_chars i l (adv body i) /\ concat l = v.
Proof.
  induction 1 as [|a t v Hne Ha Hs _ IH|e s t v He _ IH]; intros i r V H.
  - exists []. rewrite adv_nil. split; [|reflexivity]. apply runs_nil. apply (basic_chars_fails_quote i r H).
  - rewrite <- app_assoc in H.
    destruct (utf8_cut a t (stops_ascii_head _ _ basic_unescaped_nonascii Hs) V) as [Va Vt].
    assert (E : basic_chars i = Ok a (adv a i)).
    { rewrite basic_chars_unfold. apply alt_ok.
      apply (unesc_chunk_ok i a _ H Hne Ha); [|exact Va]. apply stops_app_quote; [reflexivity|exact Hs]. }
    pose proof (rest_adv _ _ _ H) as R. destruct (IH (adv a i) r Vt R) as (l & Rl & El).
    exists (a :: l). rewrite <- adv_adv. split; [|cbn [concat]; rewrite El; reflexivity].
    eapply runs_cons; [exact E| |exact Rl]. rewrite R, H, !app_length. destruct a; [congruence|simpl; lia].
  - rewrite <- app_assoc in H. destruct (escaped_ascii e s He) as (Ae & t' & Ee).
    rewrite (utf8_app_ascii e t Ae) in V.
    assert (E : basic_chars i = Ok s (adv e i)).
    { rewrite basic_chars_unfold. rewrite alt_fails_l; [apply (escaped_complete i e s _ He H)|].
      apply unesc_chunk_fails. rewrite H, Ee. reflexivity. }
    pose proof (rest_adv _ _ _ H) as R. destruct (IH (adv e i) r V R) as (l & Rl & El).
    exists (s :: l). rewrite <- adv_adv. split; [|cbn [concat]; rewrite El; reflexivity].
    eapply runs_cons; [exact E| |exact Rl]. rewrite R, H, !app_length. rewrite Ee. simpl; lia.
Qed.

Theorem basic_string_sound i v i' : basic_string i = Ok v i' ->
  exists t, basic_string_tok t v /\ splits i t i'.
Proof.
  unfold basic_string, QUOTATION_MARK. intro H. apply bind_inv in H as (x & i1 & H1 & H).
  apply byte_inv in H1 as [_ S1]. apply bind_inv in H as (c & i2 & H2 & H).
  apply (chunks_inv _ _ _ _ basic_chars_shrinking) in H2 as (l & -> & R).
  apply runs_basic_sound in R as (body & St & S2 & V).
  apply bind_inv in H as (y & i3 & H3 & H). apply context_inv, cut_err_inv, byte_inv in H3 as [_ S3].
  apply ret_inv in H as [-> ->].
  exists ([x22] ++ body ++ [x22]). split.
  - split; [|exists body; auto]. cbn [app]. rewrite utf8_cons_ascii by reflexivity.
    apply utf8_join; [exact V|reflexivity].
  - apply (splits_trans _ _ _ _ _ S1 (splits_trans _ _ _ _ _ S2 S3)).
Qed.

Theorem basic_string_complete i t v r : basic_string_tok t v -> rest i = t ++ r ->
  basic_string i = Ok v (adv t i).
Proof.
  intros (V & body & -> & St) H. unfold basic_string, QUOTATION_MARK.
  cbn [app] in V. rewrite utf8_cons_ascii in V by reflexivity.
  destruct (utf8_split body x22 [] eq_refl V) as [Vb _].
  rewrite <- !app_assoc in H. cbn [app] in H.
  rewrite (bind_ok _ _ _ _ _ (byte_ok x22 i _ H)). pose proof (rest_adv [x22] _ _ H) as R.
  destruct (runs_basic_complete body v (star_chunked _ _ St) _ r Vb R) as (l & Rl & <-).
  rewrite (bind_ok _ _ _ _ _ (chunks_runs _ _ _ _ Rl)).
  pose proof (rest_adv body _ _ R) as R2.
  rewrite (bind_ok _ _ _ _ _ (context_ok _ _ _ _ (cut_err_ok _ _ _ _ (byte_ok x22 _ r R2)))).
  unfold ret. rewrite !adv_adv. reflexivity.
Qed.

Lemma basic_string_fails i : stops (byte_eqb x22) (rest i) -> fails basic_string i.
Proof. intro H. unfold basic_string, QUOTATION_MARK. apply bind_fails, byte_fails. exact H. Qed.

(* a committed failure inside a basic string: the input has no basic-string prefix *)
Corollary basic_string_cut_only i e j : basic_string i = Cut e j ->
  forall t v r, rest i = t ++ r -> ~ basic_string_tok t v.
Proof. intros H t v r E Ht. rewrite (basic_string_complete i t v r Ht E) in H. discriminate. Qed.

(* ---- literal-string = apostrophe *literal-char apostrophe ---------------------------------------------------------------------- *)
Definition literal_inner : parser bytes :=
  byte_ APOSTROPHE ;;; c <- cut_err (take_while0 (in_class LITERAL_CHAR)) ;; cut_err (byte_ APOSTROPHE) ;;; ret c.

Lemma literal_string_unfold i : literal_string i = context (from_utf8 literal_inner) i.
Proof. reflexivity. Qed.

Theorem literal_string_sound i v i' : literal_string i = Ok v i' ->
  exists t, literal_string_tok t v /\ splits i t i'.
Proof.
  rewrite literal_string_unfold. intro H. apply context_inv, from_utf8_inv in H as [H V].
  unfold literal_inner, APOSTROPHE in H. apply bind_inv in H as (x & i1 & H1 & H). apply byte_inv in H1 as [_ S1].
  apply bind_inv in H as (c & i2 & H2 & H). apply cut_err_inv in H2.
  unfold take_while0 in H2. rewrite (take_while_ext _ _ _ _ _ LITERAL_CHAR_ok) in H2.
  apply take_while_inv in H2 as (S2 & Hc & _ & _).
  apply bind_inv in H as (y & i3 & H3 & H). apply cut_err_inv, byte_inv in H3 as [_ S3].
  apply ret_inv in H as [-> ->].
  exists ([x27] ++ c ++ [x27]). split.
  - split.
    + cbn [app]. rewrite utf8_cons_ascii by reflexivity. apply utf8_join; [exact V|reflexivity].
    + exists c. split; [reflexivity|]. apply (star_run literal_char); [|exact Hc]. intros b Hb. exists b. auto.
  - apply (splits_trans _ _ _ _ _ S1 (splits_trans _ _ _ _ _ S2 S3)).
Qed.

Theorem literal_string_complete i t v r : literal_string_tok t v -> rest i = t ++ r ->
  literal_string i = Ok v (adv t i).
Proof.
  intros (V & body & -> & St) H. apply star_one_inv in St as [-> Hb].
  cbn [app] in V. rewrite utf8_cons_ascii in V by reflexivity.
  destruct (utf8_split body x27 [] eq_refl V) as [Vb _].
  rewrite literal_string_unfold. apply context_ok, from_utf8_ok; [|exact Vb].
  unfold literal_inner, APOSTROPHE. rewrite <- !app_assoc in H. cbn [app] in H.
  rewrite (bind_ok _ _ _ _ _ (byte_ok x27 i _ H)). pose proof (rest_adv [x27] _ _ H) as R.
  rewrite (bind_ok _ _ _ body (adv body (adv [x27] i))).
  - pose proof (rest_adv body _ _ R) as R2.
    rewrite (bind_ok _ _ _ _ _ (cut_err_ok _ _ _ _ (byte_ok x27 _ r R2))). unfold ret. rewrite !adv_adv. reflexivity.
  - apply cut_err_ok. unfold take_while0. rewrite (take_while_ext _ _ _ _ _ LITERAL_CHAR_ok).
    apply (take_while_ok 0 _ _ body _ R Hb); [reflexivity|lia].
Qed.

Lemma literal_string_fails i : stops (byte_eqb x27) (rest i) -> fails literal_string i.
Proof.
  intro H. unfold fails. rewrite literal_string_unfold. apply context_fails, from_utf8_fails.
  unfold literal_inner, APOSTROPHE. apply bind_fails, byte_fails. exact H.
Qed.

(* ---- simple-key = quoted-key / unquoted-key ---------------------------------------------------------------------------------------- *)
Definition key_dispatch : parser bytes :=
  b <- peek any ;;
  if byte_eqb b QUOTATION_MARK then basic_string
  else if byte_eqb b APOSTROPHE then literal_string
  else unquoted_key.

Lemma simple_key_unfold i :
  simple_key i = pmap (fun '(k, sp) => (raw_with_span sp, k)) (with_span (context key_dispatch)) i.
Proof. reflexivity. Qed.

Lemma key_dispatch_sound i k i' : key_dispatch i = Ok k i' -> exists t, simple_key_tok t k /\ splits i t i'.
Proof.
  unfold key_dispatch. intro H. apply bind_inv in H as (b & i1 & H1 & H). apply peek_inv in H1 as [-> _].
  destruct (byte_eqb b QUOTATION_MARK).
  { apply basic_string_sound in H as (t & Ht & S). exists t. split; [left; exact Ht|exact S]. }
  destruct (byte_eqb b APOSTROPHE).
  { apply literal_string_sound in H as (t & Ht & S). exists t. split; [right; left; exact Ht|exact S]. }
  apply unquoted_key_sound in H as (Ht & S & _). exists k. split; [right; right; auto|exact S].
Qed.

Lemma unquoted_not_quote b : unquoted_key_char b = true -> byte_eqb b x22 = false /\ byte_eqb b x27 = false.
Proof. cls. lia. Qed.

Lemma key_dispatch_complete i t k r : simple_key_tok t k -> rest i = t ++ r ->
  (unquoted_key_tok t -> stops unquoted_key_char r) -> key_dispatch i = Ok k (adv t i).
Proof.
  intros Ht H Hr. unfold key_dispatch, QUOTATION_MARK, APOSTROPHE. destruct Ht as [Ht | [Ht | [Ht ->]]].
  - pose proof Ht as (_ & body & E & _).
    assert (H' : rest i = x22 :: (body ++ [x22]) ++ r) by (rewrite H, E; reflexivity).
    rewrite (bind_ok _ _ _ _ _ (peek_ok _ _ _ _ (any_ok i x22 _ H'))). change (byte_eqb x22 x22) with true. cbv iota.
    apply (basic_string_complete i t k r Ht H).
  - pose proof Ht as (_ & body & E & _).
    assert (H' : rest i = x27 :: (body ++ [x27]) ++ r) by (rewrite H, E; reflexivity).
    rewrite (bind_ok _ _ _ _ _ (peek_ok _ _ _ _ (any_ok i x27 _ H'))).
    change (byte_eqb x27 x22) with false. change (byte_eqb x27 x27) with true. cbv iota.
    apply (literal_string_complete i t k r Ht H).
  - pose proof Ht as [Hne Ha]. destruct t as [|b t']; [congruence|].
    rewrite (bind_ok _ _ _ _ _ (peek_ok _ _ _ _ (any_ok i b _ H))).
    unfold all in Ha. cbn [forallb] in Ha. apply andb_true_iff in Ha as [Hb _].
    destruct (unquoted_not_quote b Hb) as [-> ->].
    apply (unquoted_key_complete i (b :: t') r H Ht (Hr Ht)).
Qed.

Theorem simple_key_sound i rw k i' : simple_key i = Ok (rw, k) i' ->
  exists t, simple_key_tok t k /\ splits i t i' /\ rw = raw_with_span (pos i, pos i').
Proof.
  rewrite simple_key_unfold. intro H. apply pmap_inv in H as ([k0 sp] & H & E).
  apply with_span_inv in H as (a & H & E2). injection E2 as <- <-. injection E as -> ->.
  apply context_inv in H. apply key_dispatch_sound in H as (t & Ht & S). eauto.
Qed.

Theorem simple_key_complete i t k r : simple_key_tok t k -> rest i = t ++ r ->
  (unquoted_key_tok t -> stops unquoted_key_char r) ->
  simple_key i = Ok (raw_with_span (pos i, (pos i + N.of_nat (length t))%N), k) (adv t i).
Proof.
  intros Ht H Hr. rewrite simple_key_unfold.
  rewrite (pmap_ok _ _ _ _ _ (with_span_ok _ _ _ _ (context_ok _ _ _ _ (key_dispatch_complete i t k r Ht H Hr)))). reflexivity.
Qed.
