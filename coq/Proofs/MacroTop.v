(* Proofs/MacroTop.v — C19: the whole claim on the model.  For every document written with the spellings
   `macro_supported` describes and valid by the TOML definition rules (`eval l = Some t`), expanding
   `toml!{ tokens_of l }` with the rules of macros.rs returns exactly t — within the model's own fuel. *)
From TV Require Import Base.Prelude Base.Utf8 Model.Datetime Model.DatetimeStd Model.Numbers Model.Macro Spec.Defs Spec.MacroSpec.
From TV Require Import Proofs.MacroSem Proofs.MacroMatch Proofs.MacroRules Proofs.MacroTails Proofs.MacroEval Proofs.MacroAux
  Proofs.MacroCtx Proofs.MacroStmt Proofs.MacroScalar Proofs.MacroDoc Proofs.MacroFuel Proofs.MacroDt Proofs.MacroEq.

Theorem macro_eq_parse : forall l t, macro_supported l = true -> eval l = Some t -> macro_eval (tokens_of l) = EOk t.
Proof.
  intros l t Hs He. destruct (tokens_nonempty l Hs) as [Hne Hok].
  unfold eval in He. destruct (ref_fold sstate0 l) as [[t1 c1]|] eqn:E; [|discriminate]. injection He as <-.
  eapply Ev_macro_eval; [exact Hne| |apply dcost_fuel; exact Hok].
  exact (doc_ev dt_agree l [] [] (t1, c1) Hok E).
Qed.

(* every supported value on its own: what @value (after the sign / date-time rules) yields is its TOML meaning *)
Theorem value_eq_parse : forall v m, val_ok v = true -> val_meaning v = Some m -> val_ev v m (vcost v).
Proof. exact (val_ev_holds dt_agree). Qed.

(* the expansion never runs out of the fuel the model provides, and never fails, on supported valid documents *)
Corollary macro_total : forall l, macro_supported l = true -> valid l -> exists t, macro_eval (tokens_of l) = EOk t.
Proof. intros l Hs [t Ht]. exists t. apply macro_eq_parse; assumption. Qed.

(* against the unmodified claims specification (Spec/Defs.v `spec_run`, what C09 proves the parser's state
   machine equal to): the macro's table has the same content as the specified tree under every key,
   recursively; only the order of keys may differ (a toml::Table is a BTreeMap: not observable) *)
Theorem macro_eq_spec : forall l tr, macro_supported l = true -> spec_eval l = Some tr ->
  exists t, macro_eval (tokens_of l) = EOk (MTab (erase_tree t)) /\ Same mval t tr.
Proof.
  intros l tr Hs H. destruct (eval_same_as_spec l tr H) as [t [He HS]].
  exists t. split; [apply macro_eq_parse; assumption|exact HS].
Qed.
