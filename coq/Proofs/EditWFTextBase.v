(* Proofs/EditWFTextBase.v — property C08, text half: the edit operations preserve Spec/WF.v.
   This file: small facts about trivia slots, `all_P`, the association-list functions, the
   visibility quantities (has_line / shown / prints_header), and the lifting of a node-level
   preservation statement along the path of an operation (`at_path_wf`). *)
From TV Require Import Base.Prelude Base.Utf8 Gen.Consts Spec.Abnf Spec.Lex Spec.Syntax Spec.Ordered.
From TV Require Import Model.Datetime Model.Numbers Model.Tree Model.Parse Model.Write Model.Encode Spec.WF.
From TV Require Import Spec.EditSpec Model.Edit Proofs.EditRefineBase Proofs.EditRefine Proofs.EditVerbatim.
Require Import Lia.

(* ==================================================================================== *)
(** * 1. Trivia written by the API is legal in every slot *)

Lemma ws_nil : ws_tok []. Proof. reflexivity. Qed.
Lemma ws_space : ws_tok [x20]. Proof. reflexivity. Qed.
Lemma wscn_space : wscn_tok [x20]. Proof. apply wscn_ws; [reflexivity|constructor]. Qed.

Lemma slot_ok_nil sl : slot_ok sl [].
Proof.
  destruct sl; simpl.
  - exact ws_nil.
  - exists [], []. split; [reflexivity|split; [exact ws_nil|left; reflexivity]].
  - apply ln_last. exact ws_nil.
  - constructor.
  - apply dt_last. exists [], []. split; [reflexivity|split; [exact ws_nil|left; reflexivity]].
Qed.

Lemma raw_ok_empty sl : raw_ok sl REmpty.
Proof. simpl. apply slot_ok_nil. Qed.
Lemma raw_ok_space_ws : raw_ok SWs (RExplicit [x20]).
Proof. simpl. exact ws_space. Qed.
Lemma raw_ok_space_wscn : raw_ok SWscn (RExplicit [x20]).
Proof. simpl. exact wscn_space. Qed.

Lemma decor_ok_default p s : decor_ok p s decor_default.
Proof. split; exact I. Qed.
Lemma vdecor_ok_default c : vdecor_ok c decor_default.
Proof. destruct c; apply decor_ok_default. Qed.

(* ==================================================================================== *)
(** * 2. all_P and the association lists *)

Lemma all_P_In {A} (P : A -> Prop) l x : all_P P l -> In x l -> P x.
Proof. induction l as [|y l IH]; simpl; [contradiction|]. intros [Hy Hl] [->|H]; auto. Qed.
Lemma all_P_forall {A} (P : A -> Prop) l : (forall x, In x l -> P x) -> all_P P l.
Proof. induction l as [|y l IH]; simpl; intro H; [exact I|]. split; [apply H; left; reflexivity|apply IH; intros; apply H; right; assumption]. Qed.
Lemma all_P_impl {A} (P Q : A -> Prop) l : (forall x, P x -> Q x) -> all_P P l -> all_P Q l.
Proof. intro H. induction l as [|y l IH]; simpl; [auto|]. intros [Hy Hl]. auto. Qed.
Lemma all_P_app {A} (P : A -> Prop) l1 l2 : all_P P (l1 ++ l2) <-> all_P P l1 /\ all_P P l2.
Proof. induction l1 as [|y l IH]; simpl; [tauto|]. rewrite IH. tauto. Qed.
Lemma all_P_map {A B} (g : A -> B) (P : B -> Prop) l : all_P P (map g l) <-> all_P (fun x => P (g x)) l.
Proof. induction l as [|y l IH]; simpl; [tauto|]. rewrite IH. tauto. Qed.

Lemma kv_get_In' m k k' i : kv_get m k = Some (k', i) -> In (k', i) m /\ k_key k' = k.
Proof.
  induction m as [|[k1 i1] m IH]; simpl; [discriminate|].
  destruct (bytes_eqb (k_key k1) k) eqn:E; intro H.
  - injection H as <- <-. apply bytes_eqb_eq in E. auto.
  - destruct (IH H). auto.
Qed.

Lemma kv_get_None_notin m k : kv_get m k = None -> ~ In k (kkeys m).
Proof.
  induction m as [|[k1 i1] m IH]; simpl; [tauto|].
  destruct (bytes_eqb (k_key k1) k) eqn:E; [discriminate|]. intros H [H1|H1].
  - rewrite H1, bytes_eqb_refl in E. discriminate.
  - exact (IH H H1).
Qed.

(* kv_upd: same keys, one item replaced *)
Lemma kv_upd_keys k F m m' : kv_upd k F m = Some m' -> kkeys m' = kkeys m.
Proof.
  revert m'. induction m as [|[k1 i1] m IH]; intros m' H; simpl in H; [discriminate|].
  destruct (bytes_eqb (k_key k1) k).
  - destruct (F i1); simpl in H; [|discriminate]. injection H as <-. reflexivity.
  - destruct (kv_upd k F m) as [m1|]; simpl in H; [|discriminate]. injection H as <-.
    unfold kkeys in *. simpl. rewrite (IH m1 eq_refl). reflexivity.
Qed.

Lemma all_P_kv_upd (Q : key * item -> Prop) k F m m' :
  kv_upd k F m = Some m' -> all_P Q m ->
  (forall k' i i', In (k', i) m -> F i = Some i' -> Q (k', i) -> Q (k', i')) ->
  all_P Q m'.
Proof.
  revert m'. induction m as [|[k1 i1] m IH]; intros m' H Ha Hq; simpl in H; [discriminate|].
  destruct Ha as [H1 Hm]. destruct (bytes_eqb (k_key k1) k).
  - destruct (F i1) as [i1'|] eqn:Fi; simpl in H; [|discriminate]. injection H as <-.
    split; [|exact Hm]. eapply Hq; eauto. left. reflexivity.
  - destruct (kv_upd k F m) as [m1|]; simpl in H; [|discriminate]. injection H as <-.
    split; [exact H1|]. apply (IH m1 eq_refl Hm). intros. eapply Hq; eauto. right. assumption.
Qed.

(* existsb over the entries, one item replaced: monotone up to an escape *)
Lemma existsb_kv_upd (g g' : key * item -> bool) (X : Prop) k F m m' :
  kv_upd k F m = Some m' -> existsb g m = true ->
  (forall kv, g kv = true -> g' kv = true) ->
  (forall k' i i', In (k', i) m -> In (k', i') m' -> F i = Some i' -> g (k', i) = true -> g' (k', i') = true \/ X) ->
  existsb g' m' = true \/ X.
Proof.
  revert m'. induction m as [|[k1 i1] m IH]; intros m' H He Hg Hq; simpl in H, He; [discriminate|].
  destruct (bytes_eqb (k_key k1) k).
  - destruct (F i1) as [i1'|] eqn:Fi; simpl in H; [|discriminate]. injection H as <-. simpl.
    apply orb_true_iff in He as [He|He].
    + destruct (Hq k1 i1 i1' (or_introl eq_refl) (or_introl eq_refl) Fi He) as [Hx|Hx];
        [left; rewrite Hx; reflexivity|right; exact Hx].
    + left. apply orb_true_iff. right. clear -He Hg. induction m as [|y m IHm]; simpl in *; [discriminate|].
      apply orb_true_iff in He as [He|He]; apply orb_true_iff; [left; auto|right; auto].
  - destruct (kv_upd k F m) as [m1|]; simpl in H; [|discriminate]. injection H as <-. simpl.
    apply orb_true_iff in He as [He|He].
    + left. rewrite (Hg _ He). reflexivity.
    + destruct (IH m1 eq_refl He Hg) as [Hx|Hx].
      * intros. eapply Hq; eauto; right; assumption.
      * left. rewrite Hx. apply orb_true_r.
      * right. exact Hx.
Qed.

Lemma existsb_In {A} (g : A -> bool) l x : In x l -> g x = true -> existsb g l = true.
Proof. intros H G. apply existsb_exists. exists x. auto. Qed.

(* nth_upd *)
Lemma all_P_nth_upd {A} (Q : A -> Prop) n F (l l' : list A) :
  nth_upd n F l = Some l' -> all_P Q l ->
  (forall x x', In x l -> F x = Some x' -> Q x -> Q x') -> all_P Q l'.
Proof.
  revert n l'. induction l as [|y l IH]; intros [|n] l' H Ha Hq; simpl in H; try discriminate; destruct Ha as [H1 Hl].
  - destruct (F y) as [y'|] eqn:Fy; simpl in H; [|discriminate]. injection H as <-.
    split; [|exact Hl]. eapply Hq; eauto. left. reflexivity.
  - destruct (nth_upd n F l) as [l1|] eqn:E; simpl in H; [|discriminate]. injection H as <-.
    split; [exact H1|]. apply (IH n l1 E Hl). intros. eapply Hq; eauto. right. assumption.
Qed.
Lemma nth_upd_nonnil {A} n F (l l' : list A) : nth_upd n F l = Some l' -> l' <> [].
Proof.
  destruct l as [|y l]; destruct n; simpl; try discriminate.
  - destruct (F y); simpl; intro H; [injection H as <-|]; discriminate.
  - destruct (nth_upd n F l); simpl; intro H; [injection H as <-|]; discriminate.
Qed.

(* the other list functions *)
Lemma kkeys_set_fmt m k v : kkeys (kv_set_fmt m k v) = kkeys m.
Proof.
  unfold kkeys. induction m as [|[k1 i1] m IH]; simpl; [reflexivity|].
  destruct (bytes_eqb (k_key k1) k); simpl; [reflexivity|]. rewrite IH. reflexivity.
Qed.
Lemma kkeys_set m k v : kkeys (kv_set m k v) = kkeys m.
Proof.
  unfold kkeys. induction m as [|[k1 i1] m IH]; simpl; [reflexivity|].
  destruct (bytes_eqb (k_key k1) k); simpl; [reflexivity|]. rewrite IH. reflexivity.
Qed.
Lemma kkeys_push m k v : kkeys (kv_push m k v) = kkeys m ++ [k_key k].
Proof. unfold kkeys, kv_push. rewrite map_app. reflexivity. Qed.

Lemma kkeys_remove_In x m k : In x (kkeys (kv_remove m k)) -> In x (kkeys m).
Proof.
  unfold kkeys. induction m as [|[k1 i1] m IH]; simpl; [tauto|].
  destruct (bytes_eqb (k_key k1) k); simpl; [tauto|]. intros [H|H]; auto.
Qed.
Lemma NoDup_kkeys_remove m k : NoDup (kkeys m) -> NoDup (kkeys (kv_remove m k)).
Proof.
  induction m as [|[k1 i1] m IH]; simpl; intro H; [constructor|].
  inversion H as [|? ? Hn Hc]; subst.
  destruct (bytes_eqb (k_key k1) k); [exact Hc|]. simpl. constructor; [|apply IH; exact Hc].
  intro Hin. apply Hn. eapply kkeys_remove_In; eauto.
Qed.
Lemma NoDup_snoc {A} (l : list A) x : NoDup l -> ~ In x l -> NoDup (l ++ [x]).
Proof.
  induction l as [|y l IH]; simpl; intros H Hn; [repeat constructor; simpl; tauto|].
  inversion H as [|? ? Hy Hl]; subst. constructor.
  - intro Hin. apply in_app_or in Hin as [Hin|[->|[]]]; [exact (Hy Hin)|apply Hn; left; reflexivity].
  - apply IH; [exact Hl|]. intro. apply Hn. right. assumption.
Qed.
Lemma NoDup_kkeys_push m k v : NoDup (kkeys m) -> kv_get m (k_key k) = None -> NoDup (kkeys (kv_push m k v)).
Proof.
  intros H G. rewrite kkeys_push. apply NoDup_snoc; [exact H|]. exact (kv_get_None_notin _ _ G).
Qed.

Lemma all_P_remove (Q : key * item -> Prop) m k : all_P Q m -> all_P Q (kv_remove m k).
Proof.
  induction m as [|[k1 i1] m IH]; simpl; [auto|]. intros [H1 Hm].
  destruct (bytes_eqb (k_key k1) k); [exact Hm|]. split; auto.
Qed.
Lemma all_P_set_fmt (Q : key * item -> Prop) m k v :
  all_P Q m -> (forall k', k_key k' = k -> Q (key_fmt k', v)) -> all_P Q (kv_set_fmt m k v).
Proof.
  intros Ha Hq. induction m as [|[k1 i1] m IH]; simpl; [exact I|]. destruct Ha as [H1 Hm].
  destruct (bytes_eqb (k_key k1) k) eqn:E; split; auto. apply Hq. apply bytes_eqb_eq. exact E.
Qed.
Lemma all_P_set (Q : key * item -> Prop) m k v :
  all_P Q m -> (forall k', In k' (map fst m) -> k_key k' = k -> Q (k', v)) -> all_P Q (kv_set m k v).
Proof.
  intros Ha Hq. induction m as [|[k1 i1] m IH]; simpl; [exact I|]. destruct Ha as [H1 Hm].
  destruct (bytes_eqb (k_key k1) k) eqn:E; split; auto.
  - apply Hq; [left; reflexivity|apply bytes_eqb_eq; exact E].
  - apply IH; [exact Hm|]. intros. apply Hq; [right; assumption|assumption].
Qed.
Lemma all_P_push (Q : key * item -> Prop) m k v : all_P Q m -> Q (k, v) -> all_P Q (kv_push m k v).
Proof. intros Ha Hq. unfold kv_push. apply all_P_app. split; [exact Ha|split; [exact Hq|exact I]]. Qed.

(* a well-formed table holds no placeholder: remove_placeholder does nothing *)
Lemma kv_purge_noop m k : (forall k' i, In (k', i) m -> i <> INone) -> kv_purge m k = m.
Proof.
  intro H. unfold kv_purge. destruct (kv_get m k) as [[k' i]|] eqn:G; [|reflexivity].
  destruct i; try reflexivity. exfalso. destruct (kv_get_In' _ _ _ _ G) as [Hin _]. exact (H _ _ Hin eq_refl).
Qed.

(* ==================================================================================== *)
(** * 3. Items in their slot, visibility, and the lifting along a path *)

(* where an item sits: the root table, an entry of a table section, an element of an array of tables,
   an entry of an inline table (line = it is flattened into the key/value lines of a section), an array element *)
Inductive ctx : Set := KRoot | KEntry | KElem | KPair (line : bool) | KArr.

(* the condition Spec/WF.v puts on a table that is an entry of another table: it has a key/value line of its own
   (a table made of dotted keys) / its [header] is written (a header table), or some header is written below it *)
Definition vis_cond (sub : tbl) : Prop :=
  if t_dotted sub then has_line sub = true \/ prints_header sub = true else shown sub = true \/ prints_header sub = true.

Definition iwf (c : ctx) (it : item) : Prop :=
  match c with
  | KRoot => match it with ITable t => tbl_wf true t | _ => False end
  | KEntry =>
    match it with
    | INone => False
    | IValue _ => pair_wf true it
    | ITable sub => tbl_wf false sub /\ vis_cond sub
    | IAot ts _ => ts <> [] /\ all_P (fun e => t_dotted e = false /\ tbl_wf false e) ts
    end
  | KElem => match it with ITable e => t_dotted e = false /\ tbl_wf false e | _ => False end
  | KPair line => pair_wf line it
  | KArr => match it with IValue e => value_wf CArr e | _ => False end
  end.

Definition entry_ok (kv : key * item) : Prop := key_wf true (fst kv) /\ iwf KEntry (snd kv).

Lemma tbl_wf_eq top items d im dt p sp :
  tbl_wf top (Tbl items d im dt p sp)
  <-> decor_ok SLines (if top then SLines else SLineTrail) d /\ NoDup (kkeys items) /\ all_P entry_ok items.
Proof. reflexivity. Qed.

(* what a sub-table contributes to its parent's has_line / prints_header *)
Definition hl (sub : tbl) : bool := t_dotted sub && has_line sub.
Definition ph (sub : tbl) : bool := (negb (t_dotted sub) && shown sub) || prints_header sub.
Definition gl (kv : key * item) : bool :=
  match snd kv with IValue _ => true | ITable sub => hl sub | _ => false end.
Definition gp (kv : key * item) : bool :=
  match snd kv with
  | ITable sub => ph sub
  | IAot ts _ => match ts with [] => false | _ => true end
  | _ => false
  end.
Lemma has_line_eq items d im dt p sp : has_line (Tbl items d im dt p sp) = existsb gl items.
Proof. reflexivity. Qed.
Lemma prints_header_eq items d im dt p sp : prints_header (Tbl items d im dt p sp) = existsb gp items.
Proof. reflexivity. Qed.

(* the edited table is at least as visible as before: what it contributes to its parent (a line or a header) it
   still contributes (a table made of dotted keys may trade its last line for a header below it) *)
Definition Rt (a b : tbl) : Prop :=
  t_dotted a = t_dotted b /\ t_implicit a = t_implicit b /\ (hl a || ph a = true -> hl b || ph b = true).
Definition Ri (a b : item) : Prop :=
  match a, b with
  | ITable x, ITable y => Rt x y
  | IAot x _, IAot y _ => x <> [] -> y <> []
  | IValue _, IValue _ => True
  | _, _ => False
  end.

Lemma Rt_refl a : Rt a a.
Proof. repeat split; auto. Qed.

Lemma vis_cond_iff t : vis_cond t <-> hl t || ph t = true.
Proof.
  unfold vis_cond, hl, ph. destruct (t_dotted t); simpl; rewrite orb_true_iff; tauto.
Qed.

Lemma vis_cond_keep a b : vis_cond a -> Rt a b -> vis_cond b.
Proof. intros Hc (_ & _ & H). apply vis_cond_iff. apply H. apply vis_cond_iff. exact Hc. Qed.

Lemma shown_true t : has_line t = true -> shown t = true.
Proof. unfold shown. intros ->. destruct (t_implicit t); reflexivity. Qed.

(* what a table contributes to its parent, from its own flags and entries *)
Lemma vis_items items d im dt p sp :
  hl (Tbl items d im dt p sp) || ph (Tbl items d im dt p sp)
  = (negb dt && negb im) || existsb (fun kv => gl kv || gp kv) items.
Proof.
  assert (E : existsb (fun kv => gl kv || gp kv) items = existsb gl items || existsb gp items).
  { induction items as [|kv l IH]; [reflexivity|]. simpl. rewrite IH.
    destruct (gl kv), (gp kv), (existsb gl l), (existsb gp l); reflexivity. }
  rewrite E. unfold hl, ph, shown. simpl t_dotted. simpl t_implicit. rewrite has_line_eq, prints_header_eq.
  destruct dt, im, (existsb gl items), (existsb gp items); reflexivity.
Qed.

(* one entry of a table replaced by an at-least-as-visible one *)
Lemma Rt_items k F items items' d im dt p sp :
  kv_upd k F items = Some items' ->
  (forall k' i i', In (k', i) items -> F i = Some i' -> Ri i i') ->
  Rt (Tbl items d im dt p sp) (Tbl items' d im dt p sp).
Proof.
  intros E Hr. unfold Rt. split; [reflexivity|]. split; [reflexivity|]. rewrite !vis_items. intro H.
  apply orb_true_iff in H as [H|H]; [rewrite H; reflexivity|]. apply orb_true_iff. right.
  destruct (existsb_kv_upd (fun kv => gl kv || gp kv) (fun kv => gl kv || gp kv) False k F items items' E H (fun _ H => H)) as [G|[]]; [|exact G].
  intros k' i i' Hin _ Fi G. left. specialize (Hr k' i i' Hin Fi). unfold gl, gp in *. simpl in *.
  destruct i as [|v|x|x sx]; destruct i' as [|v'|y|y sy]; simpl in Hr; try contradiction; try discriminate; auto.
  - destruct Hr as (_ & _ & H1). auto.
  - destruct x; [discriminate|]. destruct y; [exfalso; apply Hr; [discriminate|reflexivity]|reflexivity].
Qed.

(* -- inline tables in their context -- *)
Definition inline_line (c : ctx) (dt : bool) : bool :=
  match c with KEntry => dt | KPair l => dt && l | _ => false end.
Definition pair_ok (L : bool) (kv : key * item) : Prop := key_wf L (fst kv) /\ iwf (KPair L) (snd kv).

Lemma iwf_inline_children c items pre im dt d sp :
  iwf c (IValue (VInline items pre im dt d sp)) -> all_P (pair_ok (inline_line c dt)) items.
Proof.
  destruct c as [| | |l|]; destruct dt; try destruct l; simpl; try tauto.
Qed.

Lemma iwf_inline_upd c items items' pre im dt d sp :
  iwf c (IValue (VInline items pre im dt d sp)) -> kkeys items' = kkeys items ->
  all_P (pair_ok (inline_line c dt)) items' ->
  iwf c (IValue (VInline items' pre im dt d sp)).
Proof.
  intros H K Ha.
  assert (Hne : items <> [] -> items' <> []).
  { intros Hn ->. apply Hn. destruct items; [reflexivity|discriminate]. }
  destruct c as [| | |l|]; destruct dt; try destruct l; simpl in *; rewrite ?K; try tauto.
Qed.

(* -- the lifting -- *)
(* what an operation does at its node: the node stays well-formed in its slot and at least as visible *)
Definition node_ok (f : item -> option item) : Prop :=
  forall c i i', f i = Some i' -> iwf c i -> iwf c i' /\ Ri i i'.

Lemma iwf_entry_not_none i : iwf KEntry i -> i <> INone.
Proof. intros H ->. exact H. Qed.

(* a table whose entry k is replaced by a well-formed, at-least-as-visible one *)
Lemma tbl_upd_wf top k F items items' d im dt p sp :
  kv_upd k F items = Some items' ->
  tbl_wf top (Tbl items d im dt p sp) ->
  (forall k' i i', In (k', i) items -> F i = Some i' -> iwf KEntry i -> iwf KEntry i' /\ Ri i i') ->
  tbl_wf top (Tbl items' d im dt p sp) /\ Rt (Tbl items d im dt p sp) (Tbl items' d im dt p sp).
Proof.
  intros E Hw Hf. apply tbl_wf_eq in Hw as (Hd & Hn & Ha). split.
  - apply tbl_wf_eq. split; [exact Hd|]. split; [rewrite (kv_upd_keys _ _ _ _ E); exact Hn|].
    apply (all_P_kv_upd entry_ok k F items items' E Ha).
    intros k' i i' Hin Fi [Hk Hi]. split; [exact Hk|]. exact (proj1 (Hf k' i i' Hin Fi Hi)).
  - apply (Rt_items k F items items' d im dt p sp E).
    intros k' i i' Hin Fi. apply (Hf k' i i' Hin Fi).
    exact (proj2 (all_P_In entry_ok items (k', i) Ha Hin)).
Qed.

Lemma at_path_wf P f : node_ok f -> node_ok (at_path P f).
Proof.
  intro Hf. induction P as [|s P IH]; [exact Hf|].
  intros c it it' H Hw. destruct s as [k|n]; simpl in H.
  - destruct it as [|[sc r d|vals tr cm d sp|items pre im dt d sp]|[items d im dt pos sp]|ts sp]; try discriminate.
    + (* through an inline table *)
      destruct (kv_upd k _ items) as [items'|] eqn:E; simpl in H; [|discriminate]. injection H as <-.
      split; [|exact I].
      apply (iwf_inline_upd c items items' pre im dt d sp Hw (kv_upd_keys _ _ _ _ E)).
      apply (all_P_kv_upd (pair_ok (inline_line c dt)) k _ items items' E (iwf_inline_children _ _ _ _ _ _ _ Hw)).
      intros k' i i' Hin Fi [Hk Hi]. cbv beta in Fi. destruct i as [|v| |]; try discriminate.
      destruct (at_path P f (IValue v)) as [[|v'| |]|] eqn:A; try discriminate. injection Fi as <-.
      split; [exact Hk|]. exact (proj1 (IH _ _ _ A Hi)).
    + (* through a table *)
      destruct (kv_upd k _ items) as [items'|] eqn:E; simpl in H; [|discriminate]. injection H as <-.
      assert (Hstep : forall k' i i', In (k', i) items ->
                        (if item_is_none i then None else at_path P f i) = Some i' ->
                        iwf KEntry i -> iwf KEntry i' /\ Ri i i').
      { intros k' i i' _ Fi Hi. destruct (item_is_none i); [discriminate|]. exact (IH _ _ _ Fi Hi). }
      destruct c as [| | |l|]; simpl in Hw; try contradiction.
      * destruct (tbl_upd_wf true k _ items items' d im dt pos sp E Hw Hstep) as [H1 H2]. split; [exact H1|exact H2].
      * destruct Hw as [Hw Hv].
        destruct (tbl_upd_wf false k _ items items' d im dt pos sp E Hw Hstep) as [H1 H2].
        split; [split; [exact H1|exact (vis_cond_keep _ _ Hv H2)]|exact H2].
      * destruct Hw as [Hd Hw].
        destruct (tbl_upd_wf false k _ items items' d im dt pos sp E Hw Hstep) as [H1 H2].
        split; [split; [exact Hd|exact H1]|exact H2].
  - destruct it as [|[sc r d|vals tr cm d sp|items pre im dt d sp]|[items d im dt pos sp]|ts sp]; try discriminate.
    + (* through an array *)
      destruct (nth_upd n _ vals) as [vals'|] eqn:E; simpl in H; [|discriminate]. injection H as <-.
      split; [|exact I].
      assert (Hv : forall cc, value_wf cc (VArray vals tr cm d sp) -> value_wf cc (VArray vals' tr cm d sp)).
      { intros cc (Hd & Ht & Ha). split; [exact Hd|]. split; [exact Ht|].
        apply (all_P_nth_upd _ n _ vals vals' E Ha).
        intros x x' _ Fx Hx. cbv beta in Fx. destruct x as [|v| |]; try contradiction.
        destruct (at_path P f (IValue v)) as [[|v'| |]|] eqn:A; try discriminate. injection Fx as <-.
        exact (proj1 (IH KArr _ _ A Hx)). }
      destruct c as [| | |l|];
        [exfalso; exact Hw|exact (Hv CLine Hw)|exfalso; exact Hw
         |destruct l; [exact (Hv CLine Hw)|exact (Hv CInl Hw)]|exact (Hv CArr Hw)].
    + (* through an array of tables *)
      destruct (nth_upd n _ ts) as [ts'|] eqn:E; simpl in H; [|discriminate]. injection H as <-.
      destruct c as [| | |l|]; simpl in Hw; try contradiction.
      destruct Hw as [Hn Ha]. split; [|intros _; exact (nth_upd_nonnil _ _ _ _ E)].
      split; [exact (nth_upd_nonnil _ _ _ _ E)|].
      apply (all_P_nth_upd _ n _ ts ts' E Ha).
      intros x x' _ Fx Hx. cbv beta in Fx.
      destruct (at_path P f (ITable x)) as [[| |t'|]|] eqn:A; simpl in Fx; try discriminate. injection Fx as <-.
      exact (proj1 (IH KElem _ _ A Hx)).
Qed.
