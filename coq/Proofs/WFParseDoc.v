(* Proofs/WFParseDoc.v — parsed documents are well-formed, part 4: the document loop (document.rs / table.rs).
   Through every line the parse state keeps `sinv` (Proofs/WFParseState.v): the trivia collected between items
   (`st_trailing`) is complete comment / blank lines followed by blanks, so it is legal in front of a key or a header;
   the values come from `value` (Proofs/WFParseValue.v), the keys from `key` (Proofs/WFParseBase.v). *)
From TV Require Import Base.Prelude Base.Utf8 Base.Winnow Gen.Consts Spec.Abnf Spec.Lex Spec.Defs Spec.DatetimeSpec Spec.Syntax Spec.WF.
From TV Require Import Model.Trivia Model.Strings Model.Datetime Model.Numbers Model.Tree Model.Parse Model.Document Model.Write Model.Encode.
From TV Require Import Proofs.ConstsOk Proofs.NoPanicBase Proofs.NoPanicLex Proofs.NoPanicValue.
From TV Require Import Proofs.LexEquivBase Proofs.LexEquivTrivia Proofs.LexEquivStrings Proofs.LexEquivKey Proofs.GrammarSep
                       Proofs.GrammarValueSound Proofs.GrammarDocLine Proofs.GrammarDoc
                       Proofs.TilingDefs Proofs.PrintBackBase Proofs.PrintBackEnc Proofs.PrintBackKey Proofs.PrintBackDoc Proofs.TilingCmt.
From TV Require Import Proofs.WFTok Proofs.WFPrintKey Proofs.WFPrintFlat Proofs.WFPrintValue Proofs.WFTree
                       Proofs.WFParseBase Proofs.WFParseValue Proofs.WFParseState.
Require Import Lia NArith.

(* ---- the trivia between items ----------------------------------------------------------------------------------------- *)
(* blanks, line ends, comments with their line ends, in any order: *( ws / newline / comment newline ) *)
Inductive trail_tok : bytes -> Prop :=
| tr_nil : trail_tok []
| tr_ws t w : trail_tok t -> ws_tok w -> trail_tok (t ++ w)
| tr_nl t nl : trail_tok t -> newline_tok nl -> trail_tok (t ++ nl)
| tr_cmt t c nl : trail_tok t -> comment_tok c -> newline_tok nl -> trail_tok (t ++ c ++ nl).
(* ... ended by a comment that the end of the text terminates *)
Definition dtrail (t : bytes) : Prop := exists t' c, t = t' ++ c /\ trail_tok t' /\ comment_tok c.

Lemma lines_lf : lines_tok [x0a].
Proof. apply (ln_more [] [] []); [reflexivity|left; reflexivity|apply ln_last; reflexivity]. Qed.
Lemma lines_cmt c : comment_tok c -> lines_tok (c ++ [x0a]).
Proof. intro H. apply (ln_more [] c []); [reflexivity|right; exact H|apply ln_last; reflexivity]. Qed.

Lemma trail_lines t : trail_tok t -> lines_tok (ncr t).
Proof.
  induction 1 as [|t w _ IH Hw|t nl _ IH Hn|t c nl _ IH Hc Hn]; [apply ln_last; reflexivity| | |]; rewrite ?ncr_app.
  - rewrite (ncr_ws w Hw). apply lines_ws; assumption.
  - rewrite (ncr_newline nl Hn). apply lines_app; [exact IH|apply lines_lf].
  - rewrite (ncr_comment c Hc), (ncr_newline nl Hn). apply lines_app; [exact IH|apply lines_cmt, Hc].
Qed.
Lemma lines_doc_trail t : lines_tok t -> doc_trail_tok t.
Proof. induction 1 as [w Hw|w c t Hw Hc _ IH]; [apply dt_last, ws_line_trail, Hw|apply dt_more; assumption]. Qed.
Lemma doc_trail_app a b : lines_tok a -> doc_trail_tok b -> doc_trail_tok (a ++ b).
Proof.
  intros Ha Hb. induction Ha as [w Hw|w c t Hw Hc _ IH].
  - destruct Hb as [b (w' & c' & -> & Hw' & Hc')|w' c' t' Hw' Hc' Ht'].
    + apply dt_last. exists (w ++ w'), c'. rewrite app_assoc. split; [reflexivity|]. split; [apply ws_app; assumption|exact Hc'].
    + rewrite app_assoc. apply dt_more; [apply ws_app; assumption|exact Hc'|exact Ht'].
  - rewrite <- !app_assoc. apply dt_more; [exact Hw|exact Hc|exact IH].
Qed.
Lemma dtrail_doc t : dtrail t -> doc_trail_tok (ncr t).
Proof.
  intros (t' & c & -> & Ht & Hc). rewrite ncr_app, (ncr_comment c Hc). apply doc_trail_app; [apply trail_lines, Ht|].
  apply dt_last. exists [], c. split; [reflexivity|]. split; [reflexivity|right; exact Hc].
Qed.

Section PD.
  Variable s : bytes.
  Local Notation sinv := (sinv s).
  Local Notation kline := (kline s).

  (* the collected trivia: from some earlier cursor i0 to the cursor i *)
  Definition trail_ok (st : pstate) (i : input) : Prop :=
    exists i0 t, isrc s i0 /\ splits i0 t i /\ (trail_tok t \/ (rest i = [] /\ dtrail t))
                 /\ match st_trailing st with Some sp => sp = (pos i0, pos i) | None => t = [] end.
  Definition pinv (st : pstate) (i : input) : Prop := sinv st /\ isrc s i /\ depth i = 0 /\ trail_ok st i.

  Lemma trail_none st i : isrc s i -> st_trailing st = None -> trail_ok st i.
  Proof. intros Hi E. exists i, []. rewrite E. split; [exact Hi|]. split; [apply splits_nil|]. split; [left; constructor|reflexivity]. Qed.

  Lemma splits_at_end i w i' : rest i = [] -> splits i w i' -> w = [] /\ i' = i.
  Proof. intros R [R' E]. rewrite R in R'. destruct w; [|discriminate]. split; [reflexivity|]. rewrite E. apply adv_nil. Qed.

  (* more trivia *)
  Lemma trail_on_ws st i sp w i' :
    trail_ok st i -> splits i w i' -> sp = (pos i, pos i') ->
    (rest i <> [] -> forall t, trail_tok t -> trail_tok (t ++ w) \/ (rest i' = [] /\ dtrail (t ++ w))) ->
    trail_ok (on_ws st sp) i'.
  Proof.
    intros (i0 & t & Hi0 & S0 & Ht & Hsp) S -> Hw. exists i0, (t ++ w). split; [exact Hi0|]. split; [exact (splits_trans _ _ _ _ _ S0 S)|].
    split.
    - destruct Ht as [Ht|[R Ht]].
      + destruct (rest i) eqn:R; [|apply Hw; [discriminate|exact Ht]].
        destruct (splits_at_end i w i' R S) as [-> ->]. rewrite app_nil_r. left. exact Ht.
      + destruct (splits_at_end i w i' R S) as [-> ->]. rewrite app_nil_r. right. auto.
    - unfold on_ws. cbn [st_trailing]. destruct (st_trailing st) as [old|]; [subst old; reflexivity|]. subst t. cbn [fst snd app].
      destruct S0 as [_ E0]. rewrite adv_nil in E0. subst i0. reflexivity.
  Qed.

  (* the trivia in front of a header or a key/value line *)
  Lemma trail_lead st i : trail_ok st i -> rest i <> [] -> raw_ok SLines (traw s (trailing_raw st)).
  Proof.
    intros (i0 & t & Hi0 & S0 & Ht & Hsp) Hne. unfold trailing_raw. destruct (st_trailing st) as [sp|]; [|apply empty_raw_ok].
    subst sp. apply (span_raw_ok s SLines i0 t i Hi0 S0). destruct Ht as [Ht|[R _]]; [apply trail_lines, Ht|contradiction].
  Qed.
  Lemma trail_kv_prefix st i k w0 j1 :
    trail_ok st i -> rest i <> [] -> ws_tok w0 -> splits i w0 j1 -> isrc s i ->
    d_prefix (k_leaf k) = Some (raw_with_span (pos i, pos j1)) ->
    raw_ok SLines (traw s (kv_prefix st k)).
  Proof.
    intros (i0 & t & Hi0 & S0 & Ht & Hsp) Hne Hw0 S1 Hi Hd. unfold kv_prefix. rewrite Hd.
    assert (Htl : lines_tok (ncr t)) by (destruct Ht as [Ht|[R _]]; [apply trail_lines, Ht|contradiction]).
    assert (Ers : raw_span (raw_with_span (pos i, pos j1)) = if (pos i =? pos j1)%N then None else Some (pos i, pos j1))
      by (unfold raw_with_span; cbn [fst snd]; destruct (pos i =? pos j1)%N; reflexivity).
    rewrite Ers. destruct (pos i =? pos j1)%N eqn:E.
    - destruct (st_trailing st) as [sp|]; [|apply empty_raw_ok]. subst sp. apply (span_raw_ok s SLines i0 t i Hi0 S0 Htl).
    - destruct (st_trailing st) as [sp|].
      + subst sp. cbn [fst snd]. apply (span_raw_ok s SLines i0 (t ++ w0) j1 Hi0 (splits_trans _ _ _ _ _ S0 S1)).
        rewrite ncr_app, (ncr_ws w0 Hw0). apply lines_ws; assumption.
      + apply (span_ws_ok s SLines i w0 j1 Hi S1 Hw0).
  Qed.

  (* ---- key paths: where the leaf prefix comes from -------------------------------------------------------------------- *)
  Lemma key_leaf_prefix i kp i' : key_ i = Ok kp i' ->
    exists w0 j1, ws_tok w0 /\ splits i w0 j1
                  /\ forall path k, pop_key kp = Some (path, k) -> d_prefix (k_leaf k) = Some (raw_with_span (pos i, pos j1)).
  Proof.
    unfold key_. intro H. apply bind_inv in H as (path & j & H1 & H).
    apply try_map_inv in H1 as (path0 & H1 & Htm). apply context_inv in H1.
    apply (separated1_inv _ _ _ _ _ key_part_shrinking dot_sep_shrinking) in H1 as (a & i1 & l & -> & Ea & R).
    destruct (check_depth (length (a :: l))); [discriminate|]. injection Htm as <-.
    destruct (fix_key_path (a :: l)) as [p|] eqn:Ef; [|discriminate]. apply ret_inv in H as [-> _].
    unfold key_part in Ea. apply bind_inv in Ea as (pre & j1 & E1 & Ea). pose proof E1 as E1'. apply span_inv in E1' as (w0 & Ew & Epre).
    apply ws_sound in Ew as (Hw0 & S1 & _).
    apply bind_inv in Ea as ([rw k0] & j2 & _ & Ea). apply bind_inv in Ea as (suf & j3 & _ & Ea). apply ret_inv in Ea as [-> _].
    exists w0, j1. split; [exact Hw0|]. split; [exact S1|]. intros pth k Hpop.
    unfold fix_key_path in Ef. cbn [k_dotted decor_new d_prefix] in Ef.
    match type of Ef with context [rev (?F :: l)] => set (first' := F) in * end.
    destruct (rev (first' :: l)) as [|last rinit] eqn:Er; [discriminate|]. injection Ef as <-.
    unfold pop_key in Hpop. cbn [rev] in Hpop. rewrite rev_app_distr, rev_involutive in Hpop. cbn [rev app] in Hpop. injection Hpop as _ <-. cbn [set_leaf k_leaf decor_new d_prefix]. subst pre. reflexivity.
  Qed.

  (* ---- line_trailing ------------------------------------------------------------------------------------------------- *)
  Lemma line_trailing_span i sp i' : line_trailing i = Ok sp i' ->
    exists w c j le, ws_tok w /\ opt_comment c /\ splits i (w ++ c) j /\ sp = (pos i, pos j) /\ splits j le i' /\ lend le (rest i').
  Proof.
    rewrite line_trailing_unfold. intro H. apply bind_inv in H as (a & j1 & H1 & H).
    pose proof H1 as H1'. apply span_inv in H1' as (o & E1 & Esp). apply bind_inv in E1 as (w & k1 & Ew & E1). apply ws_sound in Ew as (Hw & S1 & _).
    apply bind_inv in H as (u & j2 & H2 & H). apply line_ending_sound in H2 as (le & S3 & Hl). apply ret_inv in H as [-> ->].
    assert (G : exists c, opt_comment c /\ splits k1 c j1).
    { apply opt_inv in E1 as [(x & _ & E1) | (_ & -> & _)].
      - apply comment_sound in E1 as (c & Hc & Sc & _). exists c. split; [right; exact Hc|exact Sc].
      - exists []. split; [left; reflexivity|apply splits_nil]. }
    destruct G as (c & Hc & Sc). exists w, c, j1, le. split; [exact Hw|]. split; [exact Hc|]. split; [exact (splits_trans _ _ _ _ _ S1 Sc)|]. auto.
  Qed.
  Lemma line_trail_ncr w c : ws_tok w -> opt_comment c -> line_trail_tok (ncr (w ++ c)).
  Proof. intros Hw Hc. rewrite ncr_app, (ncr_ws w Hw), (ncr_opt_comment c Hc). exists w, c. auto. Qed.

  (* ---- a key/value line ------------------------------------------------------------------------------------------------- *)
  Lemma keyval_pinv st i st1 i1 : keyval st i = Ok st1 i1 -> pinv st i -> rest i <> [] ->
    sinv st1 /\ isrc s i1 /\ depth i1 = 0 /\ st_trailing st1 = None.
  Proof.
    unfold keyval. intros H (Hs & Hi & Hd & Htr) Hne. apply try_map_inv in H as ([path [k it]] & H & Hst).
    rewrite parse_keyval_unfold in H. apply bind_inv in H as (kp & j1 & H1 & H).
    destruct (key_good s i kp j1 Hi H1) as (Hj1 & Hkp & Hkne & Hklen). pose proof (ext_depth _ _ _ (key_mono _ _ _ H1)) as D1.
    destruct (key_leaf_prefix i kp j1 H1) as (w0 & jw & Hw0 & Sw0 & Hleaf).
    apply bind_inv in H as ([[pre v] suf] & j2 & H2 & H).
    apply cut_err_inv in H2. apply bind_inv in H2 as (y & k1 & E1 & H2). apply context_inv, byte_inv in E1 as [_ Se].
    destruct (isrc_splits s j1 _ k1 Hj1 Se) as [Hk1 _].
    apply bind_inv in H2 as (pre' & k2 & E2 & H2). pose proof E2 as E2'. apply span_inv in E2' as (u2 & _ & Epre).
    apply span_ws_inv in E2 as (w2 & Hw2 & S2 & _). destruct (isrc_splits s k1 w2 k2 Hk1 S2) as [Hk2 _].
    apply bind_inv in H2 as (v' & k3 & E3 & H2).
    assert (Dk2 : depth k2 = 0) by (rewrite (splits_depth _ _ _ S2), (splits_depth _ _ _ Se), D1; exact Hd).
    destruct (value_good s k2 v' k3 Hk2 E3) as (Hk3 & Hb & Hl & Hwr). rewrite Dk2 in Hl.
    pose proof (ext_depth _ _ _ (proj1 (value_f_all _) _ _ _ E3)) as D3.
    apply bind_inv in H2 as (suf' & k4 & E4 & H2). apply context_inv in E4.
    destruct (line_trailing_span k3 suf' k4 E4) as (w & c & jt & le & Hw & Hc & St & Esuf & Sle & Hlend).
    destruct (isrc_splits s k3 _ jt Hk3 St) as [Hjt _]. destruct (isrc_splits s jt _ k4 Hjt Sle) as [Hk4 _].
    apply ret_inv in H2 as [E ->]. injection E as -> -> ->.
    destruct (pop_key kp) as [[pth kk]|] eqn:Ep; [|discriminate]. apply ret_inv in H as [E ->]. injection E as <- <- ->.
    destruct (pop_key_good s kp path k Hkp Ep) as (Hpath & Hk & Ekp).
    destruct (on_keyval_sp st path k _) as [st'| |] eqn:Eo; try discriminate. cbn [lift_state] in Hst. injection Hst as <-.
    subst pre' suf'.
    destruct (on_keyval_sp_sinv s st path k _ st' Eo Hs) as (Hs' & _ & Et').
    - eapply Forall_impl; [|exact Hpath]. intros a Ha. apply kgood_kline, Ha.
    - exact Hk.
    - apply (trail_kv_prefix st i k w0 jw Htr Hne Hw0 Sw0 Hi). apply (Hleaf path k eq_refl).
    - apply (decorated_ok s CLine v' k1 w2 k2 k3 (w ++ c) jt Hb Hk1 S2 Hk3 St); cbn [pre_slot suf_slot slot_ok];
        [rewrite (ncr_ws w2 Hw2); exact Hw2|apply line_trail_ncr; assumption].
    - apply written_decorate, Hwr.
    - rewrite tvalue_decorate. apply value_lim_decorate, Hl.
    - rewrite Ekp, app_length in Hklen. cbn [length] in Hklen. lia.
    - split; [exact Hs'|]. split; [exact Hk4|]. split; [|exact Et'].
      rewrite (splits_depth _ _ _ Sle), (splits_depth _ _ _ St), D3. exact Dk2.
  Qed.

  (* ---- a header line ---------------------------------------------------------------------------------------------------- *)
  Lemma header_pinv arr st i st1 i1 : header arr st i = Ok st1 i1 -> pinv st i -> rest i <> [] ->
    sinv st1 /\ isrc s i1 /\ depth i1 = 0 /\ st_trailing st1 = None.
  Proof.
    rewrite header_unfold. intros H (Hs & Hi & Hd & Htr) Hne. apply try_map_inv in H as ([[kp sp] tr] & H & Hst).
    unfold header_text, pair_ in H. apply bind_inv in H as ([kp0 sp0] & j1 & H1 & H).
    apply bind_inv in H as (tr0 & j2 & H2 & H). apply ret_inv in H as [E ->]. injection E as <- <- <-.
    apply with_span_inv in H1 as (kp1 & H1 & E). injection E as <- _.
    unfold delimited in H1. apply bind_inv in H1 as (u & k1 & Eo & H1). apply open_p_inv in Eo.
    destruct (isrc_splits s i _ k1 Hi Eo) as [Hk1 _].
    apply bind_inv in H1 as (kp2 & k2 & Ek & H1). apply cut_err_inv in Ek.
    destruct (key_good s k1 kp2 k2 Hk1 Ek) as (Hk2 & Hkp & Hkne & Hklen). pose proof (ext_depth _ _ _ (key_mono _ _ _ Ek)) as D2.
    apply bind_inv in H1 as (u2 & k3 & Ec & H1). apply context_inv, cut_err_inv, close_p_inv in Ec.
    destruct (isrc_splits s k2 _ k3 Hk2 Ec) as [Hk3 _].
    apply ret_inv in H1 as [<- ->].
    apply context_inv, cut_err_inv in H2.
    destruct (line_trailing_span k3 tr j2 H2) as (w & c & jt & le & Hw & Hc & St & Etr & Sle & Hlend).
    destruct (isrc_splits s k3 _ jt Hk3 St) as [Hjt _]. destruct (isrc_splits s jt _ j2 Hjt Sle) as [Hj2 _].
    destruct (on_header arr st kp tr sp) as [st'| |] eqn:Eh; try discriminate. cbn [lift_state] in Hst. injection Hst as <-.
    destruct (on_header_sinv s arr st kp tr sp st' Eh Hs) as (Hs' & _ & Et').
    - eapply Forall_impl; [|exact Hkp]. intros a Ha. apply kgood_kline, Ha.
    - exact Hklen.
    - apply (trail_lead st i Htr Hne).
    - subst tr. apply (span_raw_ok s SLineTrail k3 (w ++ c) jt Hk3 St). apply line_trail_ncr; assumption.
    - split; [exact Hs'|]. split; [exact Hj2|]. split; [|exact Et'].
      rewrite (splits_depth _ _ _ Sle), (splits_depth _ _ _ St), (splits_depth _ _ _ Ec), D2, (splits_depth _ _ _ Eo). exact Hd.
  Qed.

  (* ---- one iteration ---------------------------------------------------------------------------------------------------- *)
  Lemma pinv_after st1 i1 : sinv st1 -> isrc s i1 -> depth i1 = 0 -> st_trailing st1 = None -> pinv st1 i1.
  Proof. intros H1 H2 H3 H4. split; [exact H1|]. split; [exact H2|]. split; [exact H3|apply trail_none; assumption]. Qed.

  Lemma line_p_pinv st b i st1 i1 : line_p st b i = Ok st1 i1 -> pinv st i -> rest i <> [] -> pinv st1 i1.
  Proof.
    unfold line_p. intros H HP Hne. pose proof HP as (Hs & Hi & Hd & Htr).
    destruct (byte_eqb b COMMENT_START_SYMBOL).
    { apply cut_err_inv in H. unfold parse_comment in H. apply pmap_inv in H as (sp & H & ->).
      pose proof H as H'. apply span_inv in H' as (u & H0 & Esp). apply bind_inv in H0 as (x & j1 & H1 & H2).
      apply comment_sound in H1 as (c & Hc & S1 & _). apply context_inv, line_ending_sound in H2 as (le & S2 & Hl).
      pose proof (splits_trans _ _ _ _ _ S1 S2) as S. destruct (isrc_splits s i _ i1 Hi S) as [Hi1 _].
      split; [apply sinv_on_ws, Hs|]. split; [exact Hi1|]. split; [rewrite (splits_depth _ _ _ S); exact Hd|].
      apply (trail_on_ws st i sp (c ++ le) i1 Htr S Esp). intros _ t Ht. destruct Hl as [Hn|[-> R]].
      - left. apply tr_cmt; assumption.
      - right. split; [exact R|]. rewrite app_nil_r. exists t, c. auto. }
    destruct (byte_eqb b STD_TABLE_OPEN).
    { apply cut_err_inv, table_inv in H as (arr & H). destruct (header_pinv arr st i st1 i1 H HP Hne) as (H1 & H2 & H3 & H4).
      apply pinv_after; assumption. }
    destruct (byte_eqb b LF || byte_eqb b CR).
    { unfold parse_newline in H. apply pmap_inv in H as (sp & H & ->). pose proof H as H'. apply span_inv in H' as (u & H0 & Esp).
      apply newline_sound in H0 as (nl & Hn & S1). destruct (isrc_splits s i _ i1 Hi S1) as [Hi1 _].
      split; [apply sinv_on_ws, Hs|]. split; [exact Hi1|]. split; [rewrite (splits_depth _ _ _ S1); exact Hd|].
      apply (trail_on_ws st i sp nl i1 Htr S1 Esp). intros _ t Ht. left. apply tr_nl; assumption. }
    apply cut_err_inv in H. destruct (keyval_pinv st i st1 i1 H HP Hne) as (H1 & H2 & H3 & H4). apply pinv_after; assumption.
  Qed.

  Lemma doc_line_pinv st i st1 i1 : doc_line st i = Ok st1 i1 -> pinv st i -> pinv st1 i1.
  Proof.
    rewrite doc_line_unfold. intros H HP. apply bind_inv in H as (b & j & H1 & H). apply peek_inv in H1 as [-> (j' & H1)].
    assert (Hne : rest i <> []) by (apply any_inv in H1 as [R _]; rewrite R; discriminate).
    apply bind_inv in H as (st0 & j1 & H2 & H3). pose proof (line_p_pinv st b i st0 j1 H2 HP Hne) as (Hs & Hi & Hd & Htr).
    unfold parse_ws in H3. apply pmap_inv in H3 as (sp & H3 & ->). pose proof H3 as H3'. apply span_inv in H3' as (u & _ & Esp).
    apply span_ws_inv in H3 as (w & Hw & Sw & _). destruct (isrc_splits s j1 _ i1 Hi Sw) as [Hi1 _].
    split; [apply sinv_on_ws, Hs|]. split; [exact Hi1|]. split; [rewrite (splits_depth _ _ _ Sw); exact Hd|].
    apply (trail_on_ws st0 j1 sp w i1 Htr Sw Esp). intros _ t Ht. left. apply tr_ws; assumption.
  Qed.

  Lemma doc_loop_pinv : forall fuel st i st' i', doc_loop fuel st i = Ok st' i' -> pinv st i -> pinv st' i'.
  Proof.
    induction fuel as [|f IH]; intros st i st' i' H HP; [discriminate|]. cbn [doc_loop] in H.
    destruct (doc_line st i) as [st1 i1|e j|e j|x] eqn:E; try discriminate.
    - destruct (Nat.eqb (length (rest i1)) (length (rest i))); [discriminate|]. apply (IH _ _ _ _ H). apply (doc_line_pinv st i st1 i1 E HP).
    - injection H as <- <-. exact HP.
  Qed.

  (* ---- the document ----------------------------------------------------------------------------------------------------- *)
  Theorem parsed_slots d : parse_document s = POk d ->
    twl s true 0 0 (doc_root d) /\ t_dotted (doc_root d) = false /\ raw_ok SDocTrail (traw s (doc_trailing d)).
  Proof.
    unfold parse_document, parse_all. intro H.
    destruct ((a <- document ;; eof ;;; ret a) (new_input s)) as [st i|e j|e j|x] eqn:E; try discriminate.
    destruct (finalize_table st) as [st'| |] eqn:Ef; try discriminate. injection H as <-. cbn [doc_root doc_trailing].
    apply bind_inv in E as (st0 & i0 & E & E'). apply bind_inv in E' as (u0 & i0' & Ee0 & E'). apply ret_inv in E' as [-> _].
    rewrite document_unfold in E.
    apply bind_inv in E as (o & i1 & Eb & E). apply bind_inv in E as (stw & i2 & Ew & E).
    apply bind_inv in E as (stl & i3 & El & E). apply bind_inv in E as (u & i4 & Ee & E).
    apply eof_inv in Ee as [-> Rend]. apply ret_inv in E as [-> ->].
    assert (Hi1 : isrc s i1 /\ depth i1 = 0).
    { apply opt_inv in Eb as [(x & _ & Eb) | (_ & -> & _)]; [|split; [apply isrc_new|reflexivity]].
      apply lit_inv in Eb as [_ Sb]. split; [apply (isrc_splits s _ _ _ (isrc_new s) Sb)|rewrite (splits_depth _ _ _ Sb); reflexivity]. }
    destruct Hi1 as [Hi1 D1].
    assert (HP2 : pinv stw i2).
    { unfold parse_ws in Ew. apply pmap_inv in Ew as (sp & Ew & ->). pose proof Ew as Ew'. apply span_inv in Ew' as (uu & _ & Esp).
      apply span_ws_inv in Ew as (w & Hw & Sw & _). destruct (isrc_splits s i1 _ i2 Hi1 Sw) as [Hi2 _].
      split; [apply sinv_on_ws, sinv_new|]. split; [exact Hi2|]. split; [rewrite (splits_depth _ _ _ Sw); exact D1|].
      apply (trail_on_ws state_new i1 sp w i2 (trail_none state_new i1 Hi1 eq_refl) Sw Esp). intros _ t Ht. left. apply tr_ws; assumption. }
    pose proof (doc_loop_pinv _ _ _ _ _ El HP2) as (Hs & Hi3 & _ & (j0 & t & Hj0 & S0 & Ht & Hsp)).
    destruct (finalize_sinv s stl st' Ef Hs) as (Hr & Hrd & _ & Etr & _). split; [exact Hr|]. split; [exact Hrd|]. rewrite Etr.
    destruct (st_trailing stl) as [sp0|]; [|apply empty_raw_ok]. subst sp0.
    apply (span_raw_ok s SDocTrail j0 t i3 Hj0 S0). destruct Ht as [Ht|[_ Ht]]; [apply lines_doc_trail, trail_lines, Ht|apply dtrail_doc, Ht].
  Qed.
End PD.
