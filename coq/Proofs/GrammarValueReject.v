(* Proofs/GrammarValueReject.v — C01 layer L2, values, the reject half: a `val` of the grammar
   that is ill-defined (an inline table in it breaks the definition rules) or outside the
   implementation limits (i64, binary64, nesting, key length), followed by a continuation that
   can follow a value, makes `value_` fail WITH COMMITMENT (Cut) — so the enclosing ordered
   choices and `separated` loops cannot recover by another reading.  Together with
   Proofs/GrammarValueComplete.v: on the text of a derivation the parser's outcome is determined
   (Ok with the denoted data, or a committed error); in particular the grammar is unambiguous. *)
From TV Require Import Base.Prelude Base.Utf8 Base.Winnow Gen.Consts Spec.Abnf Spec.Lex Spec.Defs Spec.Syntax.
From TV Require Import Model.Trivia Model.Strings Model.Datetime Model.Numbers Model.Tree Model.Parse.
From TV Require Import Proofs.ConstsOk Proofs.NoPanicBase Proofs.NoPanicLex Proofs.NoPanicValue Proofs.NumbersRT_Value.
From TV Require Import Proofs.DepthBase Proofs.DefsEquivBase Proofs.DefsEquivInline.
From TV Require Import Proofs.LexEquivBase Proofs.LexEquivTrivia Proofs.LexEquivInt Proofs.LexEquivFloat
                       Proofs.LexEquivStrings Proofs.LexEquivString Proofs.LexEquivBool Proofs.LexEquivDatetime
                       Proofs.LexEquivKey Proofs.GrammarSep Proofs.GrammarBase Proofs.GrammarValueBase
                       Proofs.GrammarValueTok Proofs.GrammarValueSound Proofs.GrammarValueComplete.
Require Import Lia ZifyBool ZifyN ZifyNat.

(* well-defined and within the limits, at nesting d *)
Definition vgoodb (d : nat) (a : aval) : bool := aval_ok a && within d a.

Definition vreject_at (n : nat) (p : parser value) : Prop :=
  forall t a i r, length t < n -> val_tok t a -> rest i = t ++ r -> vfollow r ->
    vgoodb (depth i) a = false -> cuts p i.

Lemma ltb_true_lt a b : a < b -> Nat.ltb a b = true.
Proof. intro H. apply Nat.ltb_lt, H. Qed.

Lemma vgoodb_true d a : vgoodb d a = true -> aval_ok a = true /\ within d a = true.
Proof. unfold vgoodb. intro H. apply andb_true_iff in H. exact H. Qed.

Lemma vrel_good d v a : vrel d v a -> vgoodb d a = true.
Proof. intros (_ & H1 & H2 & _). unfold vgoodb. rewrite H1, H2. reflexivity. Qed.

Lemma check_recursion_cuts {A} (p : parser A) i : cuts p (set_depth (S (depth i)) i) -> cuts (check_recursion p) i.
Proof.
  intros (e & j & F). unfold cuts, check_recursion. cbv zeta. destruct (Nat.leb LIMIT _); [eauto|]. rewrite F. eauto.
Qed.

Lemma check_recursion_limit {A} (p : parser A) i : LIMIT <= S (depth i) -> cuts (check_recursion p) i.
Proof. intro H. destruct (check_recursion_refuses p i H) as (j & E). unfold cuts. eauto. Qed.

Lemma fdec_tok_start t neg m e : float_tok t (FDec neg m e) -> exists c tl, t = c :: tl /\ num_start c = true.
Proof.
  assert (Hdec : forall sg ng ip ipd tl, sign sg ng -> unsigned_dec_int ip ipd ->
            exists c tl', sg ++ ip ++ tl = c :: tl' /\ num_start c = true).
  { intros sg ng ip ipd tl Hs Hu. destruct (unsigned_facts ip ipd Hu) as (_ & _ & _ & _ & b & u' & -> & Hb).
    destruct (sign_num_start sg ng b (u' ++ tl) _ Hs Hb eq_refl) as (c & tl' & E & Hc).
    exists c, tl'. split; [rewrite <- E; reflexivity|exact Hc]. }
  intro H. inversion H as [sg ng ip ipd ex e0 Hs Hu He|sg ng ip ipd fr frd Hs Hu Hfr|sg ng ip ipd fr frd ex e0 Hs Hu Hfr He| |]; subst.
  - apply (Hdec sg neg ip ipd ex Hs Hu).
  - apply (Hdec sg neg ip ipd fr Hs Hu).
  - apply (Hdec sg neg ip ipd (fr ++ ex) Hs Hu).
Qed.

Section Reject.
  Variable vr : parser value.
  Variable n : nat.
  Hypothesis Hvr : vcomplete_at n vr.
  Hypothesis Hrej : vreject_at n vr.
  Hypothesis Hclose : vclose vr.
  Hypothesis Hmono : mono vr.
  Hypothesis Hg : valP Vg vr.

  (* ---- arrays ---------------------------------------------------------------------------------- *)
  Lemma array_value_reject j w1 t a w2 r :
    wscn_tok w1 -> val_tok t a -> length t < n -> wscn_tok w2 -> rest j = w1 ++ t ++ w2 ++ r -> asep_stop r ->
    vgoodb (depth j) a = false -> cuts (array_value vr) j.
  Proof.
    intros Hw1 Ht Hlen Hw2 H Hr Hb. unfold array_value.
    destruct (val_tok_head t a Ht) as (b & t' & E & Hh).
    assert (S1 : wscn_stop (t ++ w2 ++ r)) by (rewrite E; apply vhead_wscn_stop, Hh).
    eapply cuts_bind_ok; [apply (span_wscn_complete j w1 _ Hw1 H S1)|]. apply cuts_bind.
    apply (Hrej t a (adv w1 j) (w2 ++ r) Hlen Ht (rest_adv w1 _ j H) (vfollow_wscn_stop_after w2 r Hw2 (asep_vstop r Hr)) Hb).
  Qed.

  Definition elem_bad (j : input) : Prop :=
    cuts (array_value vr) j
    \/ exists it j1, array_value vr j = Ok it j1 /\ seps_cut (array_value vr) (byte_ ARRAY_SEP) j1.

  Lemma asep_comma r : asep_stop (x2c :: r).
  Proof. exists x2c, r. auto. Qed.
  Lemma asep_close r : asep_stop (x5d :: r).
  Proof. exists x5d, r. auto. Qed.

  Lemma array_values_reject vs l : array_values_tok vs l -> forall j w r,
    length vs < n -> wscn_tok w -> rest j = vs ++ w ++ [x5d] ++ r ->
    forallb (vgoodb (depth j)) l = false -> elem_bad j.
  Proof.
    induction 1 as [w1 t a w2 c Hw1 Ht Hw2 Hc|w1 t a w2 u l Hw1 Ht Hw2 Hu IH]; intros j w r Hlen Hw H Hb.
    - cbn [forallb] in Hb. rewrite andb_true_r in Hb. left.
      assert (Lt : length t < n) by (rewrite !app_length in Hlen; lia).
      destruct Hc as [-> | ->].
      + apply (array_value_reject j w1 t a (w2 ++ w) (x5d :: r) Hw1 Ht Lt (wscn_app _ _ Hw2 Hw)); [|apply asep_close|exact Hb].
        rewrite H, <- !app_assoc. reflexivity.
      + apply (array_value_reject j w1 t a w2 (x2c :: w ++ [x5d] ++ r) Hw1 Ht Lt Hw2); [|apply asep_comma|exact Hb].
        rewrite H, <- !app_assoc. reflexivity.
    - cbn [forallb] in Hb.
      assert (Lt : length t < n) by (rewrite !app_length in Hlen; lia).
      assert (Lu : length u < n) by (rewrite !app_length in Hlen; lia).
      assert (H' : rest j = w1 ++ t ++ w2 ++ x2c :: u ++ w ++ [x5d] ++ r) by (rewrite H, <- !app_assoc; reflexivity).
      destruct (vgoodb (depth j) a) eqn:Ga.
      + destruct (vgoodb_true _ _ Ga) as [Hok Hwi]. cbn [andb] in Hb.
        destruct (array_value_complete vr n Hvr j w1 t a w2 _ Hw1 Ht Lt Hw2 H' (asep_comma _) Hok Hwi) as (it & Ei & _).
        set (j1 := adv (w1 ++ t ++ w2) j) in *.
        assert (R1 : rest j1 = x2c :: u ++ w ++ [x5d] ++ r) by (apply rest_adv; rewrite H', <- !app_assoc; reflexivity).
        pose proof (byte_ok ARRAY_SEP j1 _ R1) as Esep.
        assert (R2 : rest (adv [ARRAY_SEP] j1) = u ++ w ++ [x5d] ++ r) by (apply (rest_adv [x2c]); exact R1).
        assert (Ll : length (rest (adv [ARRAY_SEP] j1)) < length (rest j1)) by (rewrite R2, R1; cbn [length]; lia).
        right. exists it, j1. split; [exact Ei|].
        destruct (IH (adv [ARRAY_SEP] j1) w r Lu Hw R2 Hb) as [Hc | (it' & k1 & Ei' & Hs)].
        * eapply sc_elem; [exact Esep|exact Ll|exact Hc].
        * eapply sc_next; [exact Esep|exact Ll|exact Ei'| |exact Hs].
          apply (ext_len _ _ _ (array_value_mono vr Hmono _ _ _ Ei')).
      + left. apply (array_value_reject j w1 t a w2 _ Hw1 Ht Lt Hw2 H' (asep_comma _) Ga).
  Qed.

  Lemma array_reject t l : val_tok t (AArr l) -> forall i r,
    length t < S n -> rest i = t ++ r -> forallb (vgoodb (depth i)) l = false -> cuts (array vr) i.
  Proof.
    intros Hv i r Hlen H Hb. unfold array.
    inversion Hv as [| |w Hw E1 E2|vs l0 w Hvs Hw E1 E2| | | | |]; subst; [discriminate Hb|].
    assert (R0 : rest i = x5b :: vs ++ w ++ [x5d] ++ r) by (rewrite H, <- !app_assoc; reflexivity).
    eapply cuts_bind_ok; [apply (byte_ok ARRAY_OPEN i _ R0)|]. apply cuts_bind, cuts_cut_err.
    set (j := adv [ARRAY_OPEN] i). assert (R1 : rest j = vs ++ w ++ [x5d] ++ r) by (apply (rest_adv [x5b]); exact R0).
    assert (Lv : length vs < n) by (rewrite !app_length in Hlen; cbn [length] in Hlen; lia).
    unfold array_values.
    assert (F : fails (byte_ ARRAY_CLOSE) j).
    { apply byte_fails. rewrite R1.
      assert (G : forall w1 t a tl, wscn_tok w1 -> val_tok t a -> exists b tl', w1 ++ t ++ tl = b :: tl' /\ b <> x5d).
      { intros w1 t a tl Hw1 Ht. destruct (val_tok_head t a Ht) as (b & t' & -> & Hb0).
        destruct (wscn_tok_head _ Hw1) as [-> | (b0 & tl0 & -> & Hb1)].
        - exists b, (t' ++ tl). split; [reflexivity|]. apply (vhead_facts b Hb0).
        - exists b0, (tl0 ++ (b :: t') ++ tl). split; [reflexivity|].
          destruct Hb1 as [Hb1 | [-> | [-> | ->]]]; try discriminate. intros ->. discriminate. }
      assert (Hh : exists b tl, vs = b :: tl /\ b <> x5d).
      { inversion Hvs as [w1 t a w2 c Hw1 Ht _ _|w1 t a w2 u l1 Hw1 Ht _ _]; subst; apply (G w1 t a _ Hw1 Ht). }
      destruct Hh as (b & tl & -> & Hb0). cbn [app stops]. apply byte_eqb_neq. intro E. apply Hb0. symmetry. exact E. }
    eapply cuts_bind_ok; [apply (peek_ok _ _ _ _ (opt_fails _ _ F))|]. cbv iota beta. apply cuts_bind.
    destruct (array_values_reject vs l Hvs j w r Lv Hw R1 Hb) as [Hc | (it & j1 & Ei & Hs)].
    - apply separated0_cuts_first, Hc.
    - apply (separated0_cuts_loop _ _ _ _ _ Ei Hs).
  Qed.

  (* ---- inline tables ------------------------------------------------------------------------------ *)
  (* a pair that the element parser reads: short enough key, good value *)
  Definition pgoodb (d : nat) (pa : list bytes * aval) : bool :=
    Nat.ltb (length (fst pa)) LIMIT && vgoodb d (snd pa).

  Lemma pgoodb_prs_ok d l : forallb (pgoodb d) l = true -> prs_ok d l.
  Proof.
    unfold prs_ok. rewrite forallb_forall. intro H. apply Forall_forall. intros pa Hin. specialize (H pa Hin).
    unfold pgoodb in H. apply andb_true_iff in H as [H1 H2]. apply Nat.ltb_lt in H1. destruct (vgoodb_true _ _ H2). auto.
  Qed.

  Lemma isep_comma r : isep_stop (x2c :: r).
  Proof. exists x2c, r. auto. Qed.
  Lemma isep_close r : isep_stop (x7d :: r).
  Proof. exists x7d, r. auto. Qed.

  Lemma inline_keyval_reject j w0 kt p w1 w2 t a w3 r :
    ws_tok w0 -> key_tok kt p -> ws_tok w1 -> ws_tok w2 -> val_tok t a -> length t < n -> ws_tok w3 ->
    rest j = w0 ++ (kt ++ w1 ++ [x3d] ++ w2 ++ t) ++ w3 ++ r -> isep_stop r ->
    pgoodb (depth j) (p, a) = false ->
    cuts (inline_keyval vr) j
    \/ (fails (inline_keyval vr) j /\ exists b tl, rest j = w0 ++ b :: tl /\ wschar b = false /\ b <> x7d).
  Proof.
    intros Hw0 Hkt Hw1 Hw2 Ht Lt Hw3 H Hr Hb. rewrite inline_keyval_eq.
    assert (H1 : rest j = w0 ++ kt ++ w1 ++ (x3d :: w2 ++ t ++ w3 ++ r)) by (rewrite H, <- !app_assoc; reflexivity).
    assert (Hks : key_stop (x3d :: w2 ++ t ++ w3 ++ r)) by (eexists _, _; split; [reflexivity|auto]).
    unfold pgoodb in Hb. cbn [fst snd] in Hb.
    destruct (Nat.ltb (length p) LIMIT) eqn:Lp.
    - apply Nat.ltb_lt in Lp. cbn [andb] in Hb. left.
      destruct (key_complete j w0 kt p w1 _ Hw0 Hkt Hw1 H1 Hks Lp) as (kp & Ek & _).
      eapply cuts_bind_ok; [exact Ek|]. apply cuts_bind. unfold inline_kv_rhs. apply cuts_cut_err.
      set (j1 := adv (w0 ++ kt ++ w1) j).
      assert (R1 : rest j1 = x3d :: w2 ++ t ++ w3 ++ r) by (apply rest_adv; rewrite H1, <- !app_assoc; reflexivity).
      eapply cuts_bind_ok; [apply (context_ok _ _ _ _ (byte_ok KEYVAL_SEP j1 _ R1))|].
      assert (R2 : rest (adv [KEYVAL_SEP] j1) = w2 ++ t ++ w3 ++ r) by (apply (rest_adv [x3d]); exact R1).
      destruct (val_tok_head t a Ht) as (b & t' & E & Hh).
      assert (S2 : stops wschar (t ++ w3 ++ r)) by (rewrite E; apply (vhead_facts b Hh)).
      eapply cuts_bind_ok; [apply (span_ws_complete _ w2 _ R2 Hw2 S2)|]. apply cuts_bind.
      apply (Hrej t a _ (w3 ++ r) Lt Ht (rest_adv w2 _ _ R2) (vfollow_ws w3 r Hw3 (vstop_follow r (isep_vstop r Hr))) Hb).
    - apply Nat.ltb_ge in Lp. right. split.
      + destruct (key_too_long j w0 kt p w1 _ Hw0 Hkt Hw1 H1 Hks Lp) as (k & Ek). apply bind_fails. exists (err_of RecursionLimit), k. exact Ek.
      + destruct (key_tok_head kt p Hkt) as (b & t' & -> & Hbw & _ & _ & Hb5).
        exists b, (t' ++ w1 ++ x3d :: w2 ++ t ++ w3 ++ r). split; [rewrite H1; reflexivity|]. split; [exact Hbw|].
        destruct (key_khead _ _ Hkt) as (b' & t'' & E' & Hk). injection E' as <- _.
        destruct Hk as [-> | [-> | Hu]]; try discriminate. intros ->. discriminate Hu.
  Qed.

  Definition ibad (w0 : bytes) (j : input) : Prop :=
    cuts (inline_keyval vr) j
    \/ (fails (inline_keyval vr) j /\ exists b tl, rest j = w0 ++ b :: tl /\ wschar b = false /\ b <> x7d)
    \/ (exists pr j1, inline_keyval vr j = Ok pr j1
          /\ (seps_cut (inline_keyval vr) (byte_ INLINE_TABLE_SEP) j1
              \/ exists prs j2 tl, seps (inline_keyval vr) (byte_ INLINE_TABLE_SEP) j1 prs j2 /\ rest j2 = x2c :: tl)).

  Lemma inline_keyvals_reject kvs l : inline_keyvals_tok kvs l -> forall j w0 w3 r,
    ws_tok w0 -> ws_tok w3 -> length kvs < n -> rest j = w0 ++ kvs ++ w3 ++ [x7d] ++ r ->
    forallb (pgoodb (depth j)) l = false -> ibad w0 j.
  Proof.
    induction 1 as [kt p w1 w2 t a Hkt Hw1 Hw2 Ht|kt p w1 w2 t a w3' w4 u l Hkt Hw1 Hw2 Ht Hw3' Hw4 Hu IH];
      intros j w0 w3 r Hw0 Hw3 Hlen H Hb.
    - cbn [forallb] in Hb. rewrite andb_true_r in Hb.
      assert (Lt : length t < n) by (rewrite !app_length in Hlen; lia).
      assert (H' : rest j = w0 ++ (kt ++ w1 ++ [x3d] ++ w2 ++ t) ++ w3 ++ x7d :: r) by (rewrite H, <- !app_assoc; reflexivity).
      destruct (inline_keyval_reject j w0 kt p w1 w2 t a w3 _ Hw0 Hkt Hw1 Hw2 Ht Lt Hw3 H' (isep_close r) Hb) as [Hc | Hf];
        [left; exact Hc|right; left; exact Hf].
    - cbn [forallb] in Hb.
      assert (Lt : length t < n) by (rewrite !app_length in Hlen; lia).
      assert (Lu : length u < n) by (rewrite !app_length in Hlen; lia).
      assert (H' : rest j = w0 ++ (kt ++ w1 ++ [x3d] ++ w2 ++ t) ++ w3' ++ x2c :: w4 ++ u ++ w3 ++ [x7d] ++ r)
        by (rewrite H, <- !app_assoc; reflexivity).
      destruct (pgoodb (depth j) (p, a)) eqn:Ga.
      + cbn [andb] in Hb. unfold pgoodb in Ga. cbn [fst snd] in Ga. apply andb_true_iff in Ga as [Lp Ga].
        apply Nat.ltb_lt in Lp. destruct (vgoodb_true _ _ Ga) as [Hok Hwi].
        destruct (inline_keyval_complete vr n Hvr j w0 kt p w1 w2 t a w3' _ Hw0 Hkt Hw1 Hw2 Ht Lt Hw3' H' (isep_comma _) Lp Hok Hwi)
          as (pr & Ep & _).
        set (j1 := adv (w0 ++ (kt ++ w1 ++ [x3d] ++ w2 ++ t) ++ w3') j) in *.
        assert (R1 : rest j1 = x2c :: w4 ++ u ++ w3 ++ [x7d] ++ r) by (apply rest_adv; rewrite H', <- !app_assoc; reflexivity).
        pose proof (byte_ok INLINE_TABLE_SEP j1 _ R1) as Esep.
        assert (R2 : rest (adv [INLINE_TABLE_SEP] j1) = w4 ++ u ++ w3 ++ [x7d] ++ r) by (apply (rest_adv [x2c]); exact R1).
        assert (Ll : length (rest (adv [INLINE_TABLE_SEP] j1)) < length (rest j1)) by (rewrite R2, R1; cbn [length]; lia).
        right. right. exists pr, j1. split; [exact Ep|].
        destruct (IH (adv [INLINE_TABLE_SEP] j1) w4 w3 r Hw4 Hw3 Lu R2 Hb) as [Hc | [[Hf _] | (pr' & k1 & Ep' & Hs)]].
        * left. eapply sc_elem; [exact Esep|exact Ll|exact Hc].
        * right. exists [], j1, (w4 ++ u ++ w3 ++ [x7d] ++ r). split; [|exact R1].
          eapply seps_stop_elem; [exact Esep|exact Ll|exact Hf].
        * pose proof (ext_len _ _ _ (inline_keyval_mono vr Hmono _ _ _ Ep')) as Le.
          destruct Hs as [Hs | (prs & j2 & tl & Hs & R)].
          -- left. eapply sc_next; [exact Esep|exact Ll|exact Ep'|exact Le|exact Hs].
          -- right. exists (pr' :: prs), j2, tl. split; [|exact R].
             eapply seps_cons; [exact Esep|exact Ll|exact Ep'|exact Le|exact Hs].
      + destruct (inline_keyval_reject j w0 kt p w1 w2 t a w3' _ Hw0 Hkt Hw1 Hw2 Ht Lt Hw3' H' (isep_comma _) Ga) as [Hc | Hf];
          [left; exact Hc|right; left; exact Hf].
  Qed.

  (* the pairs loop then either commits to a failure or stops in front of something that is not "}" *)
  Lemma inline_kvs_bad w0 j : ws_tok w0 -> ibad w0 j ->
    cuts (inline_kvs vr) j
    \/ exists prs pre j2 b tl, inline_kvs vr j = Ok (prs, pre) j2 /\ rest j2 = b :: tl /\ b <> x7d.
  Proof.
    intros Hw0 [Hc | [[Hf (b & tl & R & Hbw & Hb)] | (pr & j1 & Ep & Hs)]]; unfold inline_kvs.
    - left. apply cuts_bind, separated0_cuts_first, Hc.
    - right. rewrite (bind_ok _ _ _ _ _ (separated0_nil _ _ _ Hf)).
      rewrite (bind_ok _ _ _ _ _ (span_ws_complete j w0 _ R Hw0 Hbw)). eexists _, _, _, b, tl.
      split; [reflexivity|]. split; [apply (rest_adv w0 _ j R)|exact Hb].
    - destruct Hs as [Hs | (prs & j2 & tl & Hs & R)].
      + left. apply cuts_bind, (separated0_cuts_loop _ _ _ _ _ Ep Hs).
      + right. rewrite (bind_ok _ _ _ _ _ (separated0_cons _ _ _ _ _ _ _ Ep Hs)).
        assert (R' : rest j2 = [] ++ x2c :: tl) by exact R.
        rewrite (bind_ok _ _ _ _ _ (span_ws_complete j2 [] _ R' eq_refl eq_refl)). rewrite adv_nil.
        eexists _, _, _, x2c, tl. split; [reflexivity|]. split; [exact R|discriminate].
  Qed.

  Lemma close_cuts j b tl : rest j = b :: tl -> b <> x7d -> cuts (context (cut_err (byte_ INLINE_TABLE_CLOSE))) j.
  Proof.
    intros R Hb. apply cuts_context, cuts_cut_err_fails, byte_fails. rewrite R. cbn [stops].
    apply byte_eqb_neq. intro E. apply Hb. symmetry. exact E.
  Qed.

  Lemma inline_body_after j pairs pre j2 :
    inline_kvs vr j = Ok (pairs, pre) j2 ->
    (exists v, inline_body vr j = Ok v j2 /\ table_from_pairs pairs pre = TmOk v) \/ fails (inline_body vr) j.
  Proof.
    intro E. pose proof (inline_kvs_val vr Hg _ _ _ E) as Hp. cbn [fst] in Hp.
    pose proof (table_from_pairs_ok pairs pre Hp) as Hno. unfold inline_body.
    destruct (table_from_pairs pairs pre) as [v|c|s] eqn:Et; [|right|contradiction].
    - left. exists v. split; [|reflexivity]. apply (try_map_ok _ _ _ (pairs, pre) v _ E Et).
    - apply (fails_try_map_err _ _ _ (pairs, pre) _ c E Et).
  Qed.

  Lemma inline_table_reject t kvs : val_tok t (AInl kvs) -> forall i r d0,
    length t < S n -> rest i = t ++ r -> depth i = S d0 -> S d0 < LIMIT ->
    vgoodb d0 (AInl kvs) = false -> cuts (inline_table vr) i.
  Proof.
    intros Hv i r d0 Hlen H Hd Hlim Hb. rewrite inline_table_eq.
    inversion Hv as [| | | |w Hw E1 E2|w1 kvt l w2 Hw1 Hkv Hw2 E1 E2| | |]; subst.
    { exfalso. unfold vgoodb in Hb. cbn [aval_ok within forallb map] in Hb. apply ltb_true_lt in Hlim. rewrite Hlim in Hb. discriminate Hb. }
    assert (R0 : rest i = x7b :: w1 ++ kvt ++ w2 ++ [x7d] ++ r) by (rewrite H, <- !app_assoc; reflexivity).
    eapply cuts_bind_ok; [apply (byte_ok INLINE_TABLE_OPEN i _ R0)|].
    set (j := adv [INLINE_TABLE_OPEN] i).
    assert (R1 : rest j = w1 ++ kvt ++ w2 ++ [x7d] ++ r) by (apply (rest_adv [x7b]); exact R0).
    assert (Lk : length kvt < n) by (rewrite !app_length in Hlen; cbn [length] in Hlen; lia).
    assert (Dj : depth j = S d0) by exact Hd.
    (* whatever the pairs loop returns, the rest of inline_table commits to a failure *)
    assert (Hafter : forall pairs pre j2,
              inline_kvs vr j = Ok (pairs, pre) j2 ->
              (forall v, table_from_pairs pairs pre = TmOk v -> cuts (context (cut_err (byte_ INLINE_TABLE_CLOSE))) j2) ->
              cuts (t0 <- cut_err (inline_body vr) ;; context (cut_err (byte_ INLINE_TABLE_CLOSE)) ;;; ret t0) j).
    { intros pairs pre j2 Ek Hclose'. destruct (inline_body_after j pairs pre j2 Ek) as [(v & Eb & Et) | Hf].
      - eapply cuts_bind_ok; [apply (cut_err_ok _ _ _ _ Eb)|]. apply cuts_bind, (Hclose' v Et).
      - apply cuts_bind, cuts_cut_err_fails, Hf. }
    destruct (forallb (pgoodb (S d0)) kvs) eqn:Gp.
    - (* every pair is read; the table they define is ill-defined or too deep *)
      rewrite <- Dj in Gp.
      destruct (inline_keyvals_complete vr n Hvr Hmono kvt kvs Hkv j w1 w2 r Hw1 Hw2 Lk R1 (pgoodb_prs_ok _ _ Gp))
        as (pr & j1 & prs & Ep & R & HF). rewrite Dj in HF.
      assert (Ek : exists pre, inline_kvs vr j = Ok (pr :: prs, pre) (adv (w1 ++ kvt ++ w2) j)).
      { unfold inline_kvs. rewrite (bind_ok _ _ _ _ _ (separated0_cons _ _ _ _ _ _ _ Ep R)).
        assert (R2 : rest (adv (w1 ++ kvt ++ w2) j) = [] ++ x7d :: r) by (apply rest_adv; rewrite R1, <- !app_assoc; reflexivity).
        rewrite (bind_ok _ _ _ _ _ (span_ws_complete _ [] _ R2 eq_refl eq_refl)). rewrite adv_nil. eexists. reflexivity. }
      destruct Ek as (pre & Ek). apply (Hafter _ _ _ Ek). intros v Et. exfalso.
      destruct (prel_ipairs _ _ _ HF) as (l & El & Hl). rewrite El in Et.
      pose proof (inline_bridge_sound (S d0) l kvs Hl d0 pre v eq_refl Hlim Et) as Hr.
      rewrite (vrel_good _ _ _ Hr) in Hb. discriminate.
    - (* some pair is not read *)
      rewrite <- Dj in Gp.
      destruct (inline_kvs_bad w1 j Hw1 (inline_keyvals_reject kvt kvs Hkv j w1 w2 r Hw1 Hw2 Lk R1 Gp))
        as [Hc | (prs & pre & j2 & b & tl & Ek & R & Hb')].
      + apply cuts_bind, cuts_cut_err. unfold inline_body. apply cuts_try_map, Hc.
      + apply (Hafter _ _ _ Ek). intros v _. apply (close_cuts j2 b tl R Hb').
  Qed.

  (* ---- the dispatch ------------------------------------------------------------------------------------ *)
  Lemma number_arm_cut_int i : fails date_time i -> fails float i -> cuts integer i -> cuts number_arm i.
  Proof.
    intros F1 F2 Hc. unfold number_arm. apply cuts_alt_r; [apply pmap_fails, F1|].
    apply cuts_alt_r; [apply pmap_fails, F2|]. apply cuts_pmap, Hc.
  Qed.
  Lemma number_arm_cut_float i : fails date_time i -> cuts float i -> cuts number_arm i.
  Proof.
    intros F1 Hc. unfold number_arm. apply cuts_alt_r; [apply pmap_fails, F1|]. apply cuts_alt_l, cuts_pmap, Hc.
  Qed.

  Lemma good_list_split d l : vgoodb d (AArr l) = false -> S d < LIMIT -> forallb (vgoodb (S d)) l = false.
  Proof.
    intros H Hlim. unfold vgoodb in H. cbn [aval_ok within] in H. apply ltb_true_lt in Hlim. rewrite Hlim in H. cbn [andb] in H.
    destruct (forallb (vgoodb (S d)) l) eqn:E; [|reflexivity]. exfalso.
    rewrite forallb_forall in E.
    assert (E1 : forallb aval_ok l = true) by (apply forallb_forall; intros x Hx; apply (vgoodb_true _ _ (E x Hx))).
    assert (E2 : forallb (within (S d)) l = true) by (apply forallb_forall; intros x Hx; apply (vgoodb_true _ _ (E x Hx))).
    rewrite E1, E2 in H. discriminate.
  Qed.

  Lemma value_body_reject : vreject_at (S n) (value_body vr).
  Proof.
    intros t a i r Hlen Ht H Hr Hb. pose proof Ht as Ht0.
    destruct Ht as [t s Hs|t b Hbo|w Hw|vs l w Hvs Hw|w Hw|w1 kvs l w2 Hw1 Hkv Hw2|t d Hd|t f Hf|t z Hz];
      try discriminate Hb.
    - (* [ ] *) unfold vgoodb in Hb. cbn [aval_ok within forallb andb] in Hb. rewrite andb_true_r in Hb.
      apply Nat.ltb_ge in Hb.
      assert (R0 : rest i = x5b :: (w ++ [x5d]) ++ r) by (rewrite H, <- !app_assoc; reflexivity).
      unfold cuts. rewrite (value_body_arm vr i x5b _ R0). change (value_arm vr x5b) with (check_recursion (array vr)).
      apply check_recursion_limit, Hb.
    - (* [ values ] *)
      assert (R0 : rest i = x5b :: (vs ++ w ++ [x5d]) ++ r) by (rewrite H, <- !app_assoc; reflexivity).
      unfold cuts. rewrite (value_body_arm vr i x5b _ R0). change (value_arm vr x5b) with (check_recursion (array vr)).
      destruct (Nat.ltb (S (depth i)) LIMIT) eqn:Q; [apply Nat.ltb_lt in Q|apply Nat.ltb_ge in Q; apply check_recursion_limit, Q].
      apply check_recursion_cuts. apply (array_reject _ _ Ht0 (set_depth (S (depth i)) i) r Hlen H).
      apply (good_list_split _ _ Hb Q).
    - (* { } *) unfold vgoodb in Hb. cbn [aval_ok within forallb map andb] in Hb. rewrite andb_true_r in Hb.
      apply Nat.ltb_ge in Hb.
      assert (R0 : rest i = x7b :: (w ++ [x7d]) ++ r) by (rewrite H, <- !app_assoc; reflexivity).
      unfold cuts. rewrite (value_body_arm vr i x7b _ R0). change (value_arm vr x7b) with (check_recursion (inline_table vr)).
      apply check_recursion_limit, Hb.
    - (* { pairs } *)
      assert (R0 : rest i = x7b :: (w1 ++ kvs ++ w2 ++ [x7d]) ++ r) by (rewrite H, <- !app_assoc; reflexivity).
      unfold cuts. rewrite (value_body_arm vr i x7b _ R0). change (value_arm vr x7b) with (check_recursion (inline_table vr)).
      destruct (Nat.ltb (S (depth i)) LIMIT) eqn:Q; [apply Nat.ltb_lt in Q|apply Nat.ltb_ge in Q; apply check_recursion_limit, Q].
      apply check_recursion_cuts. apply (inline_table_reject _ _ Ht0 (set_depth (S (depth i)) i) r (depth i) Hlen H eq_refl Q Hb).
    - (* a decimal float at or above the overflow boundary *)
      unfold vgoodb in Hb. cbn [aval_ok andb] in Hb. destruct f as [x|x|neg m e]; try discriminate Hb. cbn [within] in Hb.
      apply negb_false_iff in Hb.
      destruct (float_overflow i t neg m e r Hf Hb H (vfollow_us_digit r Hr) (vfollow_is_e r Hr)) as (er & j & Ec).
      destruct (fdec_tok_start t neg m e Hf) as (c & tl & E & Hn).
      pose proof H as H'. rewrite E in H'. unfold cuts. rewrite (value_body_number vr i c _ H' Hn).
      apply number_arm_cut_float; [apply (date_time_fails_float i t _ r Hf H)|]. exists er, j. exact Ec.
    - (* an integer outside i64 *)
      unfold vgoodb in Hb. cbn [aval_ok within andb] in Hb.
      destruct (integer_tok_start t z Hz) as (c & tl & E & Hc). pose proof H as H'. rewrite E in H'.
      unfold cuts. rewrite (value_body_number vr i c _ H' Hc).
      apply number_arm_cut_int; [apply (date_time_fails_int i t z r Hz H Hr)|apply (float_fails_int i t z r Hz H Hr)|].
      exists (err_of IntError), i. apply (integer_out_of_range i t z r Hz Hb H), vfollow_unquoted, Hr.
  Qed.

  Lemma value_step_reject : vreject_at (S n) (value_step vr).
  Proof.
    intros t a i r Hlen Ht H Hr Hb. unfold value_step. apply cuts_pmap, cuts_with_span.
    apply (value_body_reject t a i r Hlen Ht H Hr Hb).
  Qed.
End Reject.

Lemma value_f_reject n : vreject_at n (value_f n).
Proof.
  induction n as [|n IH]; [intros t a i r Hlen; lia|].
  change (value_f (S n)) with (value_step (value_f n)).
  destruct n as [|m].
  - intros t a i r Hlen Ht. destruct (val_tok_head t a Ht) as (b & t' & -> & _). cbn [length] in Hlen. lia.
  - apply value_step_reject;
      first [ apply value_f_complete | exact IH | apply (proj1 (value_f_all (S m))) | apply (proj2 (proj2 (value_f_all (S m))))
            | (change (value_f (S m)) with (value_step (value_f m)); apply value_step_close) ].
Qed.

Theorem value_reject t a i r :
  val_tok t a -> rest i = t ++ r -> vfollow r -> vgoodb (depth i) a = false -> cuts value_ i.
Proof.
  intros Ht H Hr Hb. unfold value_. apply (value_f_reject _ t a i r); try assumption. rewrite H, app_length. lia.
Qed.
