(* Proofs/WFPrintValue.v — WF backbone, values: what `encode_value` prints for a well-formed value is
       <prefix trivia> t <suffix trivia>
   where t is a `val` of the grammar (Spec/Syntax.v val_tok) denoting an abstract value a with
       den a = absv v   (the value's own data),   aval_ok a,   within d a   (the limits). *)
From TV Require Import Base.Prelude Base.Utf8 Base.Winnow Gen.Consts Spec.Abnf Spec.Lex Spec.Defs Spec.DatetimeSpec Spec.Syntax Spec.WF.
From TV Require Import Model.Datetime Model.Numbers Model.Tree Model.Parse Model.Write Model.Encode.
From TV Require Import Proofs.LexEquivBase Proofs.GrammarBase Proofs.GrammarValueBase.
From TV Require Import Proofs.SpansDefs Proofs.WFSem Proofs.WFTok Proofs.WFPrintKey Proofs.WFPrintFlat.
Require Import Lia.

(* ---- Encode: the nested loops as functions (as in Proofs/PrintBackEnc.v) --------------------------------------------- *)
Fixpoint enc_elems (f : nat) (first : bool) (l : list item) : bytes :=
  match l with
  | [] => []
  | it :: tl =>
    (match it with
     | IValue e => (if first then [] else [x2c])
                   ++ encode_value f e (if first then DEFAULT_LEADING_VALUE_DECOR else DEFAULT_VALUE_DECOR)
     | _ => []
     end) ++ enc_elems f (match it with IValue _ => false | _ => first end) tl
  end.
Fixpoint enc_kvs (f len : nat) (i : nat) (l : list (list key * value)) : bytes :=
  match l with
  | [] => []
  | (kp, e) :: tl =>
    (if Nat.eqb i 0 then [] else [x2c])
    ++ encode_key_path kp DEFAULT_INLINE_KEY_DECOR ++ [x3d]
    ++ encode_value f e (if Nat.eqb i (len - 1) then DEFAULT_TRAILING_VALUE_DECOR else DEFAULT_VALUE_DECOR)
    ++ enc_kvs f len (S i) tl
  end.
Lemma enc_scalar f sc r d dflt :
  encode_value (S f) (VScalar sc r d) dflt =
  decor_prefix d (fst dflt) ++ (match repr_str r with Some t => t | None => scalar_default_repr sc end) ++ decor_suffix d (snd dflt).
Proof. reflexivity. Qed.
Lemma enc_array f vals tr comma d sp dflt :
  encode_value (S f) (VArray vals tr comma d sp) dflt =
  decor_prefix d (fst dflt) ++ [x5b] ++ enc_elems f true vals
  ++ (if comma && negb (match vals with [] => true | _ => false end) then [x2c] else [])
  ++ raw_encode tr [] ++ [x5d] ++ decor_suffix d (snd dflt).
Proof.
  cbn [encode_value]. do 2 f_equal. f_equal.
  generalize true. induction vals as [|it tl IH]; intro first; [reflexivity|]. cbn [enc_elems]. rewrite <- IH. reflexivity.
Qed.
Lemma enc_inline f items pre im dt d sp dflt :
  encode_value (S f) (VInline items pre im dt d sp) dflt =
  let children := inline_values (S (value_size (VInline items pre im dt d sp))) [] items in
  decor_prefix d (fst dflt) ++ [x7b] ++ raw_encode pre []
  ++ enc_kvs f (length children) 0 children ++ [x7d] ++ decor_suffix d (snd dflt).
Proof.
  cbn [encode_value]. cbv zeta.
  set (children := inline_values (S (value_size (VInline items pre im dt d sp))) [] items).
  set (len := length children). clearbody len. clearbody children.
  do 3 f_equal. f_equal.
  enough (H : forall i,
    (fix kvs_ (i0 : nat) (l : list (list key * value)) {struct l} : bytes :=
       match l with
       | [] => []
       | (kp, e) :: tl =>
         (if Nat.eqb i0 0 then [] else [x2c]) ++ encode_key_path kp DEFAULT_INLINE_KEY_DECOR ++ [x3d]
         ++ encode_value f e (if Nat.eqb i0 (len - 1) then DEFAULT_TRAILING_VALUE_DECOR else DEFAULT_VALUE_DECOR)
         ++ kvs_ (S i0) tl
       end) i children = enc_kvs f len i children) by apply H.
  induction children as [|[kp e] tl IH]; intro i; [reflexivity|]. cbn [enc_kvs]. rewrite <- IH. reflexivity.
Qed.

(* ---- slots of a value's decor ------------------------------------------------------------------------------------- *)
Definition pre_slot (c : vctx) : slot := match c with CLine => SWs | CArr => SWscn | CInl => SWs end.
Definition suf_slot (c : vctx) : slot := match c with CLine => SLineTrail | CArr => SWscn | CInl => SWs end.
Lemma vdecor_slots c d : vdecor_ok c d -> decor_ok (pre_slot c) (suf_slot c) d.
Proof. destruct c; auto. Qed.

Definition dflt_ok (dflt : bytes * bytes) : Prop := ws_tok (fst dflt) /\ ws_tok (snd dflt).
Lemma dflt_value : dflt_ok DEFAULT_VALUE_DECOR. Proof. split; reflexivity. Qed.
Lemma dflt_leading : dflt_ok DEFAULT_LEADING_VALUE_DECOR. Proof. split; reflexivity. Qed.
Lemma dflt_trailing : dflt_ok DEFAULT_TRAILING_VALUE_DECOR. Proof. split; reflexivity. Qed.
Lemma dflt_nil : dflt_ok ([], []). Proof. split; reflexivity. Qed.

(* ---- values only ------------------------------------------------------------------------------------------------------ *)
Lemma wf_values_only : forall v,
  (forall c, value_wf c v -> vwf v = true) /\ (forall line, pair_wf line (IValue v) -> vwf v = true).
Proof.
  induction v as [s r d|vals tr c0 d sp IH|items pre im dt d sp IH] using GrammarValueBase.value_ind'.
  - split; reflexivity.
  - assert (H : forall c, value_wf c (VArray vals tr c0 d sp) -> vwf (VArray vals tr c0 d sp) = true).
    { intros c (_ & _ & Hall). rewrite vwf_array. clear -IH Hall. induction vals as [|it tl IHl]; [reflexivity|].
      cbn [all_P forallb] in *. inversion IH as [|? ? H1 H2]; subst. destruct Hall as [Hit Hall].
      destruct it as [|e| |]; try contradiction. cbn [iwf Pit] in *. rewrite (proj1 H1 _ Hit), (IHl H2 Hall). reflexivity. }
    split; [exact H|]. intros line Hp. cbn [pair_wf] in Hp. eapply H, Hp.
  - assert (Hitems : forall line, all_P (fun kv => key_wf line (fst kv) /\ pair_wf line (snd kv)) items -> items_wf items = true).
    { intros line Hall. unfold items_wf. clear -IH Hall. induction items as [|[k it] tl IHl]; [reflexivity|].
      cbn [all_P forallb fst snd] in *. inversion IH as [|? ? H1 H2]; subst. destruct Hall as [[_ Hit] Hall].
      destruct it as [|e| |]; try contradiction. cbn [iwf Pit snd] in *. rewrite (proj2 H1 _ Hit), (IHl H2 Hall). reflexivity. }
    assert (H : forall c, value_wf c (VInline items pre im dt d sp) -> vwf (VInline items pre im dt d sp) = true).
    { intros c (_ & _ & _ & Hall). rewrite vwf_inline. eapply Hitems, Hall. }
    split; [exact H|]. intros line Hp. destruct dt.
    + cbn [pair_wf] in Hp. destruct Hp as (_ & _ & Hall). rewrite vwf_inline. eapply Hitems, Hall.
    + cbn [pair_wf] in Hp. eapply H, Hp.
Qed.
Lemma value_wf_vwf c v : value_wf c v -> vwf v = true.
Proof. apply wf_values_only. Qed.

(* ---- the statement -------------------------------------------------------------------------------------------------------- *)
Definition vden (d : nat) (v : value) (a : aval) : Prop := den a = absv v /\ aval_ok a = true /\ within d a = true.
Definition vtok (f : nat) (c : vctx) (d : nat) (v : value) (dflt : bytes * bytes) : Prop :=
  exists p t s a, encode_value f v dflt = p ++ t ++ s /\ slot_ok (pre_slot c) p /\ slot_ok (suf_slot c) s
                  /\ val_tok t a /\ vden d v a.

Definition IHf (f : nat) : Prop :=
  forall v c d dflt, value_size v < f -> value_wf c v -> value_lim d v -> dflt_ok dflt -> vtok f c d v dflt.

(* scalars *)
Lemma scalar_val_tok t x : scalar_tok t x -> scalar_lim x ->
  exists a, val_tok t a /\ den a = abs_scalar x /\ aval_ok a = true /\ forall d, within d a = true.
Proof.
  intros Ht Hl. destruct x as [v|z|f|b|dt]; cbn [scalar_tok scalar_lim] in *.
  - exists (AStr v). repeat split; auto. apply v_string, Ht.
  - exists (AInt z). repeat split; auto. apply v_integer, Ht.
  - exists (AFloat f). repeat split; auto; [apply v_float, Ht|]. intro d. cbn [within]. destruct f as [n|n|n m e]; auto.
    rewrite Hl. reflexivity.
  - exists (ABool b). repeat split; auto. apply v_boolean, Ht.
  - exists (ADate dt). repeat split; auto. apply v_date_time, Ht.
Qed.

(* ---- arrays ------------------------------------------------------------------------------------------------------------------- *)
Definition elem_ok (f d : nat) (it : item) : Prop :=
  exists e, it = IValue e /\ value_size e < f /\ value_wf CArr e /\ value_lim (S d) e.

Lemma av_chain f d : IHf f -> forall tl e de,
  value_size e < f -> value_wf CArr e -> value_lim (S d) e -> dflt_ok de -> Forall (elem_ok f d) tl ->
  forall c, c = [] \/ c = [x2c] ->
  exists l, array_values_tok (encode_value f e de ++ enc_elems f false tl ++ c) l
            /\ map den l = absv e :: map absi tl /\ forallb aval_ok l = true /\ forallb (within (S d)) l = true.
Proof.
  intros IH. induction tl as [|it tl IHtl]; intros e de Hs Hw Hl Hd Htl c Hc.
  - destruct (IH e CArr (S d) de Hs Hw Hl Hd) as (p & t & s & a & E & Hp & Hsu & Ht & (D1 & D2 & D3)).
    exists [a]. cbn [enc_elems app map forallb]. rewrite E, D1, D2, D3. split; [|auto].
    rewrite <- !app_assoc. apply av_last; auto.
  - inversion Htl as [|? ? (e2 & -> & Hs2 & Hw2 & Hl2) Htl']; subst.
    destruct (IH e CArr (S d) de Hs Hw Hl Hd) as (p & t & s & a & E & Hp & Hsu & Ht & (D1 & D2 & D3)).
    destruct (IHtl e2 DEFAULT_VALUE_DECOR Hs2 Hw2 Hl2 dflt_value Htl' c Hc) as (l & Hav & M1 & M2 & M3).
    exists (a :: l). cbn [enc_elems map forallb absi]. rewrite E, D1, D2, D3, M1, M2, M3. split; [|auto].
    rewrite <- !app_assoc.
    apply av_more; auto.
Qed.

Lemma all_P_Forall {A} (P : A -> Prop) l : all_P P l <-> Forall P l.
Proof.
  induction l as [|x l IH]; cbn [all_P]; split; auto.
  - intros [H1 H2]. constructor; [exact H1|apply IH, H2].
  - intro H. inversion H; subst. split; [assumption|apply IH; assumption].
Qed.

Lemma item_size_in' (l : list item) it : In it l -> item_size it <= fold_right (fun x acc => item_size x + acc) 0 l.
Proof. induction l as [|x l IH]; [contradiction|]. cbn [fold_right]. intros [->|H]; [lia|]. specialize (IH H). lia. Qed.

Lemma array_tok f : IHf f -> forall vals tr comma dd sp c d dflt,
  value_size (VArray vals tr comma dd sp) < S f -> value_wf c (VArray vals tr comma dd sp) ->
  value_lim d (VArray vals tr comma dd sp) -> dflt_ok dflt -> vtok (S f) c d (VArray vals tr comma dd sp) dflt.
Proof.
  intros IH vals tr comma dd sp c d dflt Hs (Hdec & Htr & Hall) (Hlim & Hlall) [Hd1 Hd2].
  apply vdecor_slots in Hdec. destruct Hdec as [Hp Hsu].
  assert (Hel : Forall (elem_ok f d) vals).
  { apply all_P_Forall in Hall. apply all_P_Forall in Hlall. rewrite Forall_forall in Hall, Hlall.
    apply Forall_forall. intros it Hin. cbn [value_size] in Hs. pose proof (item_size_in' vals it Hin) as Hsz.
    specialize (Hall it Hin). specialize (Hlall it Hin). destruct it as [|e| |]; try contradiction.
    exists e. cbn [item_size] in Hsz. repeat split; auto. lia. }
  unfold vtok. rewrite enc_array.
  exists (decor_prefix dd (fst dflt)).
  assert (Ppre : slot_ok (pre_slot c) (decor_prefix dd (fst dflt))) by (apply decor_prefix_ok; [exact Hp|apply ws_slot, Hd1]).
  assert (Psuf : slot_ok (suf_slot c) (decor_suffix dd (snd dflt))) by (apply decor_suffix_ok; [exact Hsu|apply ws_slot, Hd2]).
  assert (Wtr : wscn_tok (raw_encode tr [])) by (apply (raw_ok_enc SWscn), Htr).
  destruct vals as [|it tl].
  - exists ([x5b] ++ raw_encode tr [] ++ [x5d]), (decor_suffix dd (snd dflt)), (AArr []).
    cbn [enc_elems app]. rewrite andb_false_r. cbn [app]. split; [rewrite <- !app_assoc; reflexivity|].
    split; [exact Ppre|]. split; [exact Psuf|]. split; [apply v_array_empty, Wtr|].
    split; [rewrite absv_array; reflexivity|]. split; [reflexivity|].
    cbn [within forallb]. rewrite andb_true_r. apply Nat.ltb_lt, Hlim.
  - inversion Hel as [|? ? (e & -> & Hse & Hwe & Hle) Hel']; subst.
    set (cm := if comma && negb false then [x2c] else []).
    assert (Hcm : cm = [] \/ cm = [x2c]) by (subst cm; destruct comma; cbn; auto).
    destruct (av_chain f d IH tl e DEFAULT_LEADING_VALUE_DECOR Hse Hwe Hle dflt_leading Hel' cm Hcm) as (l & Hav & M1 & M2 & M3).
    exists ([x5b] ++ (encode_value f e DEFAULT_LEADING_VALUE_DECOR ++ enc_elems f false tl ++ cm) ++ raw_encode tr [] ++ [x5d]),
           (decor_suffix dd (snd dflt)), (AArr l).
    split; [cbn [enc_elems app]; fold cm; rewrite <- !app_assoc; reflexivity|].
    split; [exact Ppre|]. split; [exact Psuf|]. split; [apply v_array; assumption|].
    split; [cbn [den]; rewrite absv_array; cbn [map absi]; rewrite M1; reflexivity|]. split; [exact M2|].
    cbn [within]. rewrite M3, andb_true_r. apply Nat.ltb_lt, Hlim.
Qed.

(* ---- inline tables ---------------------------------------------------------------------------------------------------------------- *)
Definition child_ok (f d : nat) (pv : list key * value) : Prop :=
  fst pv <> [] /\ Forall (key_wf false) (fst pv) /\ value_size (snd pv) < f /\ value_wf CInl (snd pv)
  /\ value_lim (S d) (snd pv) /\ length (fst pv) + value_depth (snd pv) < LIMIT.
Definition child_rel (d : nat) (pv : list key * value) (pa : list bytes * aval) : Prop :=
  fst pa = ktexts (fst pv) /\ den (snd pa) = absv (snd pv) /\ aval_ok (snd pa) = true /\ within (S d) (snd pa) = true.

Lemma inline_key_shape kp : kp <> [] -> Forall (key_wf false) kp ->
  exists lp K ls, encode_key_path kp DEFAULT_INLINE_KEY_DECOR = lp ++ K ++ ls /\ ws_tok lp /\ ws_tok ls /\ key_tok K (ktexts kp).
Proof.
  intros Hne Hk.
  assert (Hm : Forall key_mid kp) by (eapply Forall_impl; [|exact Hk]; intros k; apply key_wf_mid).
  destruct (encode_key_path_shape kp DEFAULT_INLINE_KEY_DECOR Hne Hm) as (last & K & Hin & _ & _ & E & T).
  rewrite Forall_forall in Hk. destruct (Hk last Hin) as (_ & _ & [Hlp Hls]).
  exists (decor_prefix (k_leaf last) (fst DEFAULT_INLINE_KEY_DECOR)), K, (decor_suffix (k_leaf last) (snd DEFAULT_INLINE_KEY_DECOR)).
  split; [exact E|]. split; [apply (decor_prefix_ok SWs); [exact Hlp|reflexivity]|].
  split; [apply (decor_suffix_ok SWs); [exact Hls|reflexivity]|exact T].
Qed.

Lemma enc_kvs_S f len i kp e tl :
  enc_kvs f len (S i) ((kp, e) :: tl)
  = [x2c] ++ (encode_key_path kp DEFAULT_INLINE_KEY_DECOR ++ [x3d]
              ++ encode_value f e (if Nat.eqb (S i) (len - 1) then DEFAULT_TRAILING_VALUE_DECOR else DEFAULT_VALUE_DECOR)
              ++ enc_kvs f len (S (S i)) tl).
Proof. reflexivity. Qed.

Lemma enc_kvs_0 f len kp e tl :
  enc_kvs f len 0 ((kp, e) :: tl)
  = encode_key_path kp DEFAULT_INLINE_KEY_DECOR ++ [x3d]
    ++ encode_value f e (if Nat.eqb 0 (len - 1) then DEFAULT_TRAILING_VALUE_DECOR else DEFAULT_VALUE_DECOR)
    ++ enc_kvs f len 1 tl.
Proof. reflexivity. Qed.

Lemma ik_chain f d len : IHf f -> forall tl kp e i,
  child_ok f d (kp, e) -> Forall (child_ok f d) tl ->
  exists LP kt wend l,
    encode_key_path kp DEFAULT_INLINE_KEY_DECOR ++ [x3d]
    ++ encode_value f e (if Nat.eqb i (len - 1) then DEFAULT_TRAILING_VALUE_DECOR else DEFAULT_VALUE_DECOR)
    ++ enc_kvs f len (S i) tl
    = LP ++ kt ++ wend
    /\ ws_tok LP /\ ws_tok wend /\ inline_keyvals_tok kt l /\ Forall2 (child_rel d) ((kp, e) :: tl) l.
Proof.
  intros IH. induction tl as [|[kp2 e2] tl IHtl]; intros kp e i (Hne & Hk & Hs & Hw & Hl & Hlen) Htl; cbn [fst snd] in *.
  - destruct (inline_key_shape kp Hne Hk) as (lp & K & ls & Ek & Wlp & Wls & TK).
    set (dfl := if Nat.eqb i (len - 1) then DEFAULT_TRAILING_VALUE_DECOR else DEFAULT_VALUE_DECOR).
    assert (Hdf : dflt_ok dfl) by (subst dfl; destruct (Nat.eqb _ _); [apply dflt_trailing|apply dflt_value]).
    destruct (IH e CInl (S d) dfl Hs Hw Hl Hdf) as (p & t & s & a & E & Hp & Hsu & Ht & (D1 & D2 & D3)).
    exists lp, (K ++ ls ++ [x3d] ++ p ++ t), s, [(ktexts kp, a)]. cbn [enc_kvs]. rewrite Ek, E, app_nil_r.
    split; [rewrite <- !app_assoc; reflexivity|]. split; [exact Wlp|]. split; [exact Hsu|].
    split; [apply ik_last; assumption|]. constructor; [|constructor]. repeat split; assumption.
  - inversion Htl as [|? ? Hc2 Htl']; subst.
    destruct (inline_key_shape kp Hne Hk) as (lp & K & ls & Ek & Wlp & Wls & TK).
    set (dfl := if Nat.eqb i (len - 1) then DEFAULT_TRAILING_VALUE_DECOR else DEFAULT_VALUE_DECOR).
    assert (Hdf : dflt_ok dfl) by (subst dfl; destruct (Nat.eqb _ _); [apply dflt_trailing|apply dflt_value]).
    destruct (IH e CInl (S d) dfl Hs Hw Hl Hdf) as (p & t & s & a & E & Hp & Hsu & Ht & (D1 & D2 & D3)).
    destruct (IHtl kp2 e2 (S i) Hc2 Htl') as (LP2 & kt2 & wend2 & l2 & E2 & W1 & W2 & T2 & R2).
    exists lp, (K ++ ls ++ [x3d] ++ p ++ t ++ s ++ [x2c] ++ LP2 ++ kt2), wend2, ((ktexts kp, a) :: l2).
    rewrite enc_kvs_S, E2, Ek, E.
    split; [rewrite <- !app_assoc; reflexivity|]. split; [exact Wlp|]. split; [exact W2|].
    split; [apply ik_more; assumption|]. constructor; [|exact R2]. repeat split; assumption.
Qed.

Lemma Forall2_map_eq {A B C} (f : A -> C) (g : B -> C) (R : A -> B -> Prop) l1 l2 :
  (forall a b, R a b -> f a = g b) -> Forall2 R l1 l2 -> map f l1 = map g l2.
Proof. intros H F. induction F; cbn [map]; [reflexivity|]. rewrite (H _ _ H0), IHF. reflexivity. Qed.

Lemma Forall2_in_r {A B} (R : A -> B -> Prop) l1 l2 : Forall2 R l1 l2 -> forall b, In b l2 -> exists a, In a l1 /\ R a b.
Proof.
  induction 1 as [|a b l1 l2 Hab _ IH]; intros x Hin; [contradiction|]. destruct Hin as [<-|Hin].
  - exists a. split; [left; reflexivity|exact Hab].
  - destruct (IH x Hin) as (a' & Ha & Hr). exists a'. split; [right; exact Ha|exact Hr].
Qed.

Lemma inline_tok f : IHf f -> forall items pre im dt dd sp c d dflt,
  value_size (VInline items pre im dt dd sp) < S f -> value_wf c (VInline items pre im dt dd sp) ->
  value_lim d (VInline items pre im dt dd sp) -> dflt_ok dflt -> vtok (S f) c d (VInline items pre im dt dd sp) dflt.
Proof.
  intros IH items pre im dt dd sp c d dflt Hs (Hdec & Hpre & Hnd & Hall) (Hlim & Hlall) [Hd1 Hd2].
  apply vdecor_slots in Hdec. destruct Hdec as [Hp Hsu].
  assert (Ppre : slot_ok (pre_slot c) (decor_prefix dd (fst dflt))) by (apply decor_prefix_ok; [exact Hp|apply ws_slot, Hd1]).
  assert (Psuf : slot_ok (suf_slot c) (decor_suffix dd (snd dflt))) by (apply decor_suffix_ok; [exact Hsu|apply ws_slot, Hd2]).
  assert (Wpre : ws_tok (raw_encode pre [])) by (apply (raw_ok_enc SWs), Hpre).
  rewrite value_size_inline in Hs.
  unfold vtok. rewrite enc_inline. cbv zeta. rewrite value_size_inline, inline_values_eq by lia.
  set (children := iflat [] items).
  (* every flattened entry is fine *)
  assert (Hch : Forall (child_ok f d) children).
  { subst children.
    pose proof (iflat_size [] items) as H2.
    assert (H3 : Forall (fun pv => match snd pv with VInline _ _ _ true _ _ => True
                                   | _ => length (fst pv) + value_depth (snd pv) < LIMIT /\ value_lim (S d) (snd pv) end) (iflat [] items)).
    { unfold iflat. apply Forall_forall. intros pv Hin. apply in_flat_map in Hin as ([k it] & Hin1 & Hin2). cbn [fst snd] in Hin2.
      apply all_P_Forall in Hlall. rewrite Forall_forall in Hlall. specialize (Hlall _ Hin1). cbn [snd] in Hlall.
      pose proof (iflat_item_lim (S d) it [] k Hlall) as X. rewrite Forall_forall in X. exact (X pv Hin2). }
    assert (H1' : Forall (fun pv => fst pv <> [] /\ Forall (key_wf false) (fst pv) /\ value_wf CInl (snd pv)
                                    /\ match snd pv with VInline _ _ _ true _ _ => False | _ => True end) (iflat [] items)).
    { apply (iflat_forall false (fun p v => p <> [] /\ Forall (key_wf false) p /\ value_wf CInl v
                                            /\ match v with VInline _ _ _ true _ _ => False | _ => True end) [] items (Forall_nil _) Hall).
      intros p v Hpne Hpk Hv Hnd'. repeat split; auto. }
    rewrite Forall_forall in *. intros pv Hin. destruct (H1' pv Hin) as (A1 & A2 & A3 & A4).
    specialize (H2 pv Hin). specialize (H3 pv Hin).
    assert (B : length (fst pv) + value_depth (snd pv) < LIMIT /\ value_lim (S d) (snd pv)).
    { revert H3 A4. generalize (snd pv). intros v H3 A4.
      destruct v as [x r d0|vals tr c0 d0 sp0|sub pre0 im0 [|] d0 sp0]; try exact H3. contradiction. }
    destruct B as [B1 B2]. unfold child_ok. repeat split; auto. lia. }
  exists (decor_prefix dd (fst dflt)).
  destruct children as [|[kp e] tl] eqn:Ech.
  - (* no entries: the table is empty *)
    assert (Ei : items = []).
    { destruct items as [|[k it] items']; [reflexivity|]. exfalso. cbn [all_P fst snd] in Hall. destruct Hall as [[_ Hw] _].
      subst children. unfold iflat in Ech. cbn [flat_map fst snd] in Ech. apply app_eq_nil in Ech as [Ech _].
      exact (iflat_nonempty_item false it [] k Hw Ech). }
    subst items. exists ([x7b] ++ raw_encode pre [] ++ [x7d]), (decor_suffix dd (snd dflt)), (AInl []).
    cbn [enc_kvs length app]. split; [rewrite <- !app_assoc; reflexivity|].
    split; [exact Ppre|]. split; [exact Psuf|]. split; [apply v_inline_empty, Wpre|].
    split; [rewrite absv_inline; reflexivity|]. split; [reflexivity|].
    cbn [within forallb]. rewrite andb_true_r. apply Nat.ltb_lt, Hlim.
  - inversion Hch as [|? ? Hc1 Hctl]; subst.
    destruct (ik_chain f d (length ((kp, e) :: tl)) IH tl kp e 0 Hc1 Hctl) as (LP & kt & wend & l & E & W1 & W2 & T & R).
    exists ([x7b] ++ (raw_encode pre [] ++ LP) ++ kt ++ wend ++ [x7d]), (decor_suffix dd (snd dflt)), (AInl l).
    split.
    { rewrite enc_kvs_0, E. rewrite <- !app_assoc. reflexivity. }
    split; [exact Ppre|]. split; [exact Psuf|]. split; [apply v_inline; [apply ws_app; assumption|exact T|exact W2]|].
    (* the data *)
    assert (Epaths : map (fun pa => (fst pa, den (snd pa))) l = dflat dval (dforest items)).
    { rewrite <- iflat_dflat. fold children. rewrite Ech. symmetry.
      apply (Forall2_map_eq pv_abs (fun pa : list bytes * aval => (fst pa, den (snd pa))) (child_rel d)); [|exact R].
      intros pv pa (A1 & A2 & _). unfold pv_abs. rewrite A1, A2. reflexivity. }
    pose proof (dforest_wf false items Hnd Hall) as Hwf.
    split; [|split].
    + cbn [den]. rewrite Epaths, (dfold_run dval _ Hwf). rewrite (dforest_abs false items Hall), absv_inline. reflexivity.
    + cbn [aval_ok]. apply andb_true_iff. split.
      * apply forallb_forall. intros pa Hin. destruct (Forall2_in_r _ _ _ R pa Hin) as (pv & _ & (_ & _ & A3 & _)). exact A3.
      * assert (Eu : map (fun pa : list bytes * aval => (fst pa, tt)) l = dflat unit (dmapf (fun _ : dval => tt) (dforest items))).
        { rewrite (dmapf_flat (fun _ : dval => tt) _ Hwf), <- Epaths, map_map. reflexivity. }
        rewrite Eu, (dfold_run unit _ (dmapf_wf _ _ Hwf)). reflexivity.
    + cbn [within]. apply andb_true_iff. split; [apply Nat.ltb_lt, Hlim|].
      apply forallb_forall. intros pa Hin. destruct (Forall2_in_r _ _ _ R pa Hin) as (pv & Hinv & (A1 & A2 & A3 & A4)).
      rewrite A4, andb_true_r. apply Nat.ltb_lt. rewrite A1, A2. unfold ktexts. rewrite map_length.
      rewrite Forall_forall in Hch. destruct (Hch pv Hinv) as (_ & _ & _ & Hwv & _ & Hlen).
      rewrite <- (value_depth_ddepth _ (value_wf_vwf _ _ Hwv)). exact Hlen.
Qed.

(* ---- all values -------------------------------------------------------------------------------------------------------------------- *)
Theorem value_tok_all : forall f, IHf f.
Proof.
  induction f as [|f IH]; intros v c d dflt Hs Hw Hl Hd; [lia|].
  destruct v as [x r dd|vals tr comma dd sp|items pre im dt dd sp].
  - destruct Hw as (Hr & Hlim & Hdec). apply vdecor_slots in Hdec. destruct Hdec as [Hp Hsu]. destruct Hd as [Hd1 Hd2].
    destruct (scalar_val_tok _ x (scalar_text_tok x r Hr Hlim) Hlim) as (a & Ht & D1 & D2 & D3).
    unfold vtok. rewrite enc_scalar. eexists _, _, _, a. split; [reflexivity|].
    split; [apply decor_prefix_ok; [exact Hp|apply ws_slot, Hd1]|]. split; [apply decor_suffix_ok; [exact Hsu|apply ws_slot, Hd2]|].
    split; [exact Ht|]. split; [exact D1|]. split; [exact D2|apply D3].
  - apply array_tok; assumption.
  - apply inline_tok; assumption.
Qed.

(* Display for Value and the value of a key/value line *)
Theorem value_derivation v c d dflt :
  value_wf c v -> value_lim d v -> dflt_ok dflt ->
  exists p t s a, encode_value (S (value_size v)) v dflt = p ++ t ++ s /\ slot_ok (pre_slot c) p /\ slot_ok (suf_slot c) s
                  /\ val_tok t a /\ den a = absv v /\ aval_ok a = true /\ within d a = true.
Proof. intros Hw Hl Hd. apply (value_tok_all (S (value_size v)) v c d dflt); auto. Qed.
