(* Proofs/LexEquivMlBasic.v — L1 for ml-basic-string: the line-ending backslash (trimming of all
   following whitespace and newlines), mlb-content, the loop over unescaped quote runs, the body
   and the token lemma in both directions (maximal munch: what follows is not a quotation mark). *)
From TV Require Import Base.Prelude Base.Utf8 Base.Winnow Gen.Consts Spec.Abnf Spec.Lex.
From TV Require Import Model.Datetime Model.Trivia Model.Strings Model.Numbers.
From TV Require Import Proofs.ConstsOk Proofs.LexEquivBase Proofs.LexEquivTrivia Proofs.LexEquivInt
  Proofs.LexEquivStrings Proofs.LexEquivMlLit.
Require Import Lia ZifyBool ZifyN ZifyNat.

(* ---- *( wschar / newline ) : the maximal prefix, as a function --------------------------------------------- *)
Fixpoint trim_ws_nl (s : bytes) : bytes :=
  match s with
  | b :: s' =>
    if wschar b then trim_ws_nl s'
    else if byte_eqb b x0a then trim_ws_nl s'
    else if byte_eqb b x0d then
      match s' with
      | c :: s'' => if byte_eqb c x0a then trim_ws_nl s'' else s
      | [] => s
      end
    else s
  | [] => []
  end.

Lemma wschar_not_nl b : wschar b = true -> byte_eqb b x0a = false /\ byte_eqb b x0d = false.
Proof. cls. lia. Qed.

Lemma not_starts_nil : ~ starts_with_ws_or_newline [].
Proof.
  intros [(b & t' & E & _) | (nl & t' & [-> | ->] & E)]; discriminate.
Qed.

Lemma not_starts_cons b s : wschar b = false -> byte_eqb b x0a = false ->
  (byte_eqb b x0d = true -> stops (byte_eqb x0a) s) -> ~ starts_with_ws_or_newline (b :: s).
Proof.
  intros W N1 N2 [(c & t' & E & Hc) | (nl & t' & [-> | ->] & E)].
  - injection E as -> _. congruence.
  - injection E as -> _. discriminate.
  - injection E as -> ->. specialize (N2 eq_refl). cbn [stops] in N2. discriminate.
Qed.

Lemma trim_id r : ~ starts_with_ws_or_newline r -> trim_ws_nl r = r.
Proof.
  intro N. destruct r as [|b s]; [reflexivity|]. cbn [trim_ws_nl].
  destruct (wschar b) eqn:W. { destruct N. left. exists b, s. auto. }
  destruct (byte_eqb b x0a) eqn:E1.
  { apply byte_eqb_eq in E1. subst b. destruct N. right. exists [x0a], s. split; [left; reflexivity|reflexivity]. }
  destruct (byte_eqb b x0d) eqn:E2; [|reflexivity].
  destruct s as [|c s'']; [reflexivity|]. destruct (byte_eqb c x0a) eqn:E3; [|reflexivity].
  apply byte_eqb_eq in E2, E3. subst b c. destruct N. right. exists [x0d; x0a], s''. split; [right; reflexivity|reflexivity].
Qed.

Lemma trim_run tl r : ws_newline_run tl -> ~ starts_with_ws_or_newline r -> trim_ws_nl (tl ++ r) = r.
Proof.
  intros H N. induction H as [|b t W _ IH|nl t [-> | ->] _ IH].
  - apply trim_id. exact N.
  - cbn [app trim_ws_nl]. rewrite W. exact IH.
  - cbn [app trim_ws_nl]. change (wschar x0a) with false. change (byte_eqb x0a x0a) with true. cbv iota. exact IH.
  - cbn [app trim_ws_nl]. change (wschar x0d) with false. change (byte_eqb x0d x0a) with false.
    change (byte_eqb x0d x0d) with true. change (byte_eqb x0a x0a) with true. cbv iota. exact IH.
Qed.

Lemma trim_ws_prefix a r : all wschar a -> trim_ws_nl (a ++ r) = trim_ws_nl r.
Proof.
  induction a as [|b a IH]; intro H; [reflexivity|]. unfold all in H. cbn [forallb] in H.
  apply andb_true_iff in H as [Hb Ha]. cbn [app trim_ws_nl]. rewrite Hb. apply IH. exact Ha.
Qed.

Lemma trim_facts_n n : forall s, length s <= n ->
  (exists tl, s = tl ++ trim_ws_nl s /\ ws_newline_run tl) /\ ~ starts_with_ws_or_newline (trim_ws_nl s).
Proof.
  induction n as [|n IH]; intros s Hn.
  - destruct s; [|simpl in Hn; lia]. split; [exists []; split; [reflexivity|apply wn_nil]|apply not_starts_nil].
  - destruct s as [|b s']; [split; [exists []; split; [reflexivity|apply wn_nil]|apply not_starts_nil]|].
    simpl in Hn. cbn [trim_ws_nl]. destruct (wschar b) eqn:W.
    { destruct (IH s') as [(tl & E & R) N]; [lia|]. split; [|exact N].
      exists (b :: tl). split; [cbn [app]; congruence|apply wn_ws; assumption]. }
    destruct (byte_eqb b x0a) eqn:E1.
    { apply byte_eqb_eq in E1. subst b. destruct (IH s') as [(tl & E & R) N]; [lia|]. split; [|exact N].
      exists ([x0a] ++ tl). split; [cbn [app]; congruence|apply wn_nl; [left; reflexivity|exact R]]. }
    destruct (byte_eqb b x0d) eqn:E2.
    + destruct s' as [|c s''].
      { split; [exists []; split; [reflexivity|apply wn_nil]|]. apply not_starts_cons; auto; intros _; exact I. }
      destruct (byte_eqb c x0a) eqn:E3.
      * apply byte_eqb_eq in E2, E3. subst b c. destruct (IH s'') as [(tl & E & R) N]; [simpl in Hn; lia|].
        split; [|exact N]. exists ([x0d; x0a] ++ tl). split; [cbn [app]; congruence|apply wn_nl; [right; reflexivity|exact R]].
      * split; [exists []; split; [reflexivity|apply wn_nil]|]. apply not_starts_cons; auto;
        try (intros _; cbn [stops]; rewrite byte_eqb_n, N.eqb_sym, <- byte_eqb_n; exact E3).
    + split; [exists []; split; [reflexivity|apply wn_nil]|]. apply not_starts_cons; auto; intros; congruence.
Qed.

Lemma trim_prefix s : exists tl, s = tl ++ trim_ws_nl s /\ ws_newline_run tl.
Proof. apply (trim_facts_n (length s) s). lia. Qed.
Lemma trim_stops s : ~ starts_with_ws_or_newline (trim_ws_nl s).
Proof. apply (trim_facts_n (length s) s). lia. Qed.

(* ---- ws_newline reads exactly that prefix -------------------------------------------------------------------------- *)
Definition wel : parser unit := pvoid newline <|> pvoid (take_while1 (in_class WSCHAR)).

Lemma ws_newline_unfold i : ws_newline i = pvoid (repeat0 wel) i.
Proof. reflexivity. Qed.

Lemma starts_nl_ws_or s : starts_with_newline s -> starts_with_ws_or_newline s.
Proof. intro H. right. exact H. Qed.

Lemma trim_nl nl r : newline_tok nl -> trim_ws_nl (nl ++ r) = trim_ws_nl r.
Proof. intros [-> | ->]; reflexivity. Qed.

Lemma wel_fails i : ~ starts_with_ws_or_newline (rest i) -> fails wel i.
Proof.
  intro N. unfold wel. apply alt_fails.
  - apply pvoid_fails, newline_fails. intro H. apply N. right. exact H.
  - apply pvoid_fails, take_while1_fails. destruct (rest i) as [|b s]; [exact I|]. cbn [stops].
    rewrite WSCHAR_ok. destruct (wschar b) eqn:W; [|reflexivity]. destruct N. left. exists b, s. auto.
Qed.

Lemma ws_newline_runs n : forall i, length (rest i) <= n ->
  exists t l, runs wel i l (adv t i) /\ rest i = t ++ trim_ws_nl (rest i).
Proof.
  induction n as [|n IH]; intros i Hn.
  - destruct (rest i) as [|b s] eqn:E; [|simpl in Hn; lia]. exists [], []. rewrite adv_nil. split; [|reflexivity].
    apply runs_nil, wel_fails. rewrite E. apply not_starts_nil.
  - destruct (newline_cases i) as [(nl & r & Hnl & E & P) | [N F]].
    + (* a newline *)
      pose proof (rest_adv _ _ _ E) as R.
      destruct (IH (adv nl i)) as (t' & l' & Rl & E').
      { rewrite R. rewrite E, app_length in Hn. destruct Hnl as [-> | ->]; simpl in Hn; lia. }
      exists (nl ++ t'), (tt :: l'). rewrite <- adv_adv. split.
      * eapply runs_cons; [unfold wel; apply alt_ok, (pvoid_ok _ _ tt); exact P| |exact Rl].
        rewrite R, E, app_length. destruct Hnl as [-> | ->]; simpl; lia.
      * rewrite R in E'. rewrite E. rewrite <- app_assoc. f_equal. rewrite (trim_nl nl r Hnl). exact E'.
    + destruct (span_while_split wschar (rest i)) as (a & r & E & Ha & Hr & _).
      destruct a as [|b a'].
      * (* neither whitespace nor newline *)
        cbn [app] in E. assert (N2 : ~ starts_with_ws_or_newline (rest i)).
        { intros [(c & t' & Ec & Hc) | H]; [|exact (N H)]. rewrite E in Ec. rewrite Ec in Hr. cbn [stops] in Hr. congruence. }
        exists [], []. rewrite adv_nil. split; [apply runs_nil, wel_fails; exact N2|].
        rewrite (trim_id _ N2). reflexivity.
      * (* a run of whitespace *)
        pose proof (rest_adv _ _ _ E) as R.
        destruct (IH (adv (b :: a') i)) as (t' & l' & Rl & E').
        { rewrite R. rewrite E, app_length in Hn. simpl in Hn. lia. }
        exists ((b :: a') ++ t'), (tt :: l'). rewrite <- adv_adv. split.
        -- eapply runs_cons; [| |exact Rl].
           ++ unfold wel. rewrite (alt_fails_l _ _ _ (pvoid_fails _ _ F)). apply (pvoid_ok _ _ (b :: a')).
              unfold take_while1. rewrite (take_while_ext _ _ _ _ _ WSCHAR_ok).
              apply (take_while_ok 1 wschar i (b :: a') r E Ha Hr). simpl; lia.
           ++ rewrite R, E, app_length. simpl; lia.
        -- rewrite R in E'. rewrite E. rewrite <- app_assoc. f_equal.
           rewrite (trim_ws_prefix (b :: a') r Ha). exact E'.
Qed.

Lemma ws_newline_eval i : exists t,
  ws_newline i = Ok tt (adv t i) /\ rest i = t ++ trim_ws_nl (rest i) /\ ws_newline_run t.
Proof.
  destruct (ws_newline_runs (length (rest i)) i (le_n _)) as (t & l & R & E).
  exists t. split; [rewrite ws_newline_unfold; apply (pvoid_ok _ _ l), repeat0_runs; exact R|].
  split; [exact E|]. destruct (trim_prefix (rest i)) as (tl & E2 & Hr).
  rewrite E2 in E at 1. apply app_inv_tail in E. subst t. exact Hr.
Qed.

Lemma ws_newline_exact i tl r : rest i = tl ++ r -> ws_newline_run tl -> ~ starts_with_ws_or_newline r ->
  ws_newline i = Ok tt (adv tl i).
Proof.
  intros H Hr N. destruct (ws_newline_eval i) as (t & P & E & _).
  rewrite H in E at 2. rewrite (trim_run tl r Hr N) in E. rewrite H in E. apply app_inv_tail in E. subst t. exact P.
Qed.

Lemma ws_newline_inv i u i' : ws_newline i = Ok u i' ->
  exists tl, ws_newline_run tl /\ splits i tl i' /\ ~ starts_with_ws_or_newline (rest i').
Proof.
  intro H. destruct (ws_newline_eval i) as (t & P & E & Hr). rewrite P in H. injection H as _ <-.
  exists t. split; [exact Hr|]. split; [apply (splits_adv i t _ E)|].
  rewrite (rest_adv t _ i E). apply trim_stops.
Qed.

(* ---- one line-ending backslash:  escape ws newline *( wschar / newline ) ------------------------------------------------ *)
Definition mel : parser unit := byte_ ESCAPE ;;; ws ;;; ws_newlines.

Lemma mlb_escaped_nl_unfold i : mlb_escaped_nl i = pvoid (repeat1 mel) i.
Proof. reflexivity. Qed.

Lemma newline_stops_ws nl r : newline_tok nl -> stops wschar (nl ++ r).
Proof. intros [-> | ->]; reflexivity. Qed.

Lemma mel_ok i e r : mlb_escaped_nl_tok e -> rest i = e ++ r -> ~ starts_with_ws_or_newline r ->
  mel i = Ok tt (adv e i).
Proof.
  intros (w & nl & tl & -> & Hw & Hnl & Htl) H N. unfold mel, ESCAPE, ws_newlines.
  rewrite <- !app_assoc in H. cbn [app] in H.
  rewrite (bind_ok _ _ _ _ _ (byte_ok x5c i _ H)). pose proof (rest_adv [x5c] _ _ H) as R1.
  rewrite (bind_ok _ _ _ _ _ (ws_complete _ w _ R1 Hw (newline_stops_ws nl _ Hnl))).
  pose proof (rest_adv w _ _ R1) as R2.
  rewrite (bind_ok _ _ _ _ _ (newline_complete _ nl _ R2 Hnl)). pose proof (rest_adv nl _ _ R2) as R3.
  rewrite (ws_newline_exact _ tl r R3 Htl N). rewrite !adv_adv. reflexivity.
Qed.

Lemma mel_inv i u i' : mel i = Ok u i' ->
  exists e, mlb_escaped_nl_tok e /\ splits i e i' /\ ~ starts_with_ws_or_newline (rest i').
Proof.
  unfold mel, ESCAPE, ws_newlines. intro H. apply bind_inv in H as (x & i1 & H1 & H). apply byte_inv in H1 as [_ S1].
  apply bind_inv in H as (w & i2 & H2 & H). apply ws_sound in H2 as (Hw & S2 & _).
  apply bind_inv in H as (y & i3 & H3 & H). apply newline_sound in H3 as (nl & Hnl & S3).
  apply ws_newline_inv in H as (tl & Htl & S4 & N).
  exists ([x5c] ++ w ++ nl ++ tl). split; [exists w, nl, tl; auto|]. split; [|exact N].
  apply (splits_trans _ _ _ _ _ S1 (splits_trans _ _ _ _ _ S2 (splits_trans _ _ _ _ _ S3 S4))).
Qed.

Lemma mel_shrinking : shrinking mel.
Proof. apply splits_shrinking. intros i a i' H. apply mel_inv in H as (e & _ & S & _). eauto. Qed.

(* the text starts with  escape ws newline *)
Definition starts_escaped_nl (s : bytes) : Prop :=
  exists w nl s', s = [x5c] ++ w ++ nl ++ s' /\ ws_tok w /\ newline_tok nl.

Lemma mel_fails i : ~ starts_escaped_nl (rest i) -> fails mel i.
Proof.
  intro N. unfold mel, ESCAPE, ws_newlines. destruct (rest i) as [|b s] eqn:E.
  { apply bind_fails, byte_fails. rewrite E. exact I. }
  destruct (byte_eqb x5c b) eqn:B; [|apply bind_fails, byte_fails; rewrite E; exact B].
  apply byte_eqb_eq in B. subst b. unfold fails.
  rewrite (bind_ok _ _ _ _ _ (byte_ok x5c i s E)). pose proof (rest_adv [x5c] _ _ E) as R1.
  destruct (ws_spec (adv [x5c] i)) as (w & Pw & Hw & Ew & _). rewrite (bind_ok _ _ _ _ _ Pw). rewrite R1 in Ew.
  apply bind_fails. destruct (newline_cases (adv w (adv [x5c] i))) as [(nl & r & Hnl & Enl & _) | [_ F]]; [|exact F].
  destruct N. exists w, nl, r. split; [|auto]. rewrite Ew, Enl. reflexivity.
Qed.

(* 1*( escape ws newline *( wschar / newline ) ), each one maximal *)
Inductive trims : bytes -> Prop :=
| trims_one e : mlb_escaped_nl_tok e -> trims e
| trims_more e es : mlb_escaped_nl_tok e -> trims es -> trims (e ++ es).

Lemma escaped_nl_head e : mlb_escaped_nl_tok e -> exists e', e = x5c :: e'.
Proof. intros (w & nl & tl & -> & _). cbn [app]. eauto. Qed.

Lemma trims_head es : trims es -> exists es', es = x5c :: es'.
Proof.
  intros [e He|e es' He _]; destruct (escaped_nl_head e He) as (e' & ->); cbn [app]; eauto.
Qed.

Lemma backslash_not_starts s : ~ starts_with_ws_or_newline (x5c :: s).
Proof. apply not_starts_cons; try reflexivity. intro; discriminate. Qed.

Lemma runs_trims es : trims es -> forall i r, rest i = es ++ r ->
  ~ starts_with_ws_or_newline r -> ~ starts_escaped_nl r ->
  exists a l, runs mel i (a :: l) (adv es i).
Proof.
  induction 1 as [e He|e es He Hes IH]; intros i r H N1 N2.
  - exists tt, []. pose proof (rest_adv _ _ _ H) as R.
    eapply runs_cons; [apply (mel_ok i e r He H N1)| |apply runs_nil, mel_fails; rewrite R; exact N2].
    rewrite R, H, !app_length. destruct (escaped_nl_head e He) as (e' & ->). simpl; lia.
  - rewrite <- app_assoc in H. pose proof (rest_adv _ _ _ H) as R.
    destruct (IH _ r R N1 N2) as (a & l & Rl). exists tt, (a :: l). rewrite <- adv_adv.
    eapply runs_cons; [apply (mel_ok i e _ He H)| |exact Rl].
    + destruct (trims_head es Hes) as (es' & E'). rewrite E'. apply backslash_not_starts.
    + rewrite R, H, !app_length. destruct (escaped_nl_head e He) as (e' & ->). simpl; lia.
Qed.

Lemma repeat1_of_runs {A} (p : parser A) i a l i' : runs p i (a :: l) i' -> repeat1 p i = Ok (a :: l) i'.
Proof. intro R. inversion R as [|? ? i1 ? ? E _ R']; subst. apply (repeat1_runs p i a i1 l i' E R'). Qed.

Lemma mlb_escaped_nl_ok i es r : trims es -> rest i = es ++ r ->
  ~ starts_with_ws_or_newline r -> ~ starts_escaped_nl r -> mlb_escaped_nl i = Ok tt (adv es i).
Proof.
  intros Ht H N1 N2. rewrite mlb_escaped_nl_unfold. destruct (runs_trims es Ht i r H N1 N2) as (a & l & R).
  apply (pvoid_ok _ _ (a :: l)), repeat1_of_runs. exact R.
Qed.

Lemma runs_mel_sound i l i' : runs mel i l i' -> l <> [] ->
  exists es, trims es /\ splits i es i' /\ ~ starts_with_ws_or_newline (rest i').
Proof.
  induction 1 as [i F|i a i1 l i2 E _ R IH]; intro Hne; [congruence|].
  apply mel_inv in E as (e & He & S1 & N1). destruct l as [|a' l'].
  - inversion R; subst. exists e. split; [apply trims_one; exact He|auto].
  - destruct IH as (es & Hes & S2 & N2); [discriminate|].
    exists (e ++ es). split; [apply trims_more; assumption|]. split; [apply (splits_trans _ _ _ _ _ S1 S2)|exact N2].
Qed.

Lemma mlb_escaped_nl_inv i u i' : mlb_escaped_nl i = Ok u i' ->
  exists es, trims es /\ splits i es i' /\ ~ starts_with_ws_or_newline (rest i').
Proof.
  rewrite mlb_escaped_nl_unfold. intro H. apply pvoid_inv in H as (l & H).
  apply (repeat1_inv _ _ _ _ mel_shrinking) in H as (a & i1 & l' & -> & E & R).
  apply (runs_mel_sound i (a :: l') i'); [|discriminate].
  eapply runs_cons; [exact E| |exact R]. apply mel_inv in E as (e & He & S & _).
  apply splits_len in S. destruct (escaped_nl_head e He) as (e' & ->). simpl in S. lia.
Qed.

Lemma mlb_escaped_nl_fails i : ~ starts_escaped_nl (rest i) -> fails mlb_escaped_nl i.
Proof.
  intro N. unfold fails. rewrite mlb_escaped_nl_unfold. apply pvoid_fails, repeat1_fails, mel_fails. exact N.
Qed.

(* ---- mlb-content = mlb-char / newline / mlb-escaped-nl ------------------------------------------------------------------- *)
Definition mlb_chunk : parser bytes := from_utf8 (take_while1 (in_class MLB_UNESCAPED)).

Lemma mlb_content_unfold i :
  mlb_content i = (mlb_chunk <|> pvalue [] mlb_escaped_nl <|> escaped <|> pvalue [x0a] newline) i.
Proof. reflexivity. Qed.

Lemma mlb_chunk_ok i a r :
  rest i = a ++ r -> a <> [] -> all mlb_unescaped a -> stops mlb_unescaped r -> utf8_valid_b a = true ->
  mlb_chunk i = Ok a (adv a i).
Proof.
  intros H Hne Ha Hr V. unfold mlb_chunk. apply from_utf8_ok; [|exact V].
  unfold take_while1. rewrite (take_while_ext _ _ _ _ _ MLB_UNESCAPED_ok).
  apply (take_while_ok 1 _ i a r H Ha Hr). destruct a; [congruence|simpl; lia].
Qed.

Lemma mlb_chunk_inv i a i' : mlb_chunk i = Ok a i' ->
  splits i a i' /\ a <> [] /\ all mlb_unescaped a /\ utf8_valid_b a = true.
Proof.
  unfold mlb_chunk. intro H. apply from_utf8_inv in H as [H V].
  unfold take_while1 in H. rewrite (take_while_ext _ _ _ _ _ MLB_UNESCAPED_ok) in H.
  apply take_while_inv in H as (S & Ha & Hs & Hl). split; [exact S|].
  split; [destruct a; [simpl in Hl; lia|discriminate]|auto].
Qed.

Lemma mlb_chunk_fails i : stops mlb_unescaped (rest i) -> fails mlb_chunk i.
Proof.
  intro H. unfold mlb_chunk. apply from_utf8_fails, take_while1_fails.
  destruct (rest i); [exact I|]. cbn [stops] in *. rewrite MLB_UNESCAPED_ok. exact H.
Qed.

(* grammar side: building *mlb-content from the left *)
Lemma mlc_run a t2 w : all mlb_unescaped a -> mlb_contents t2 w -> mlb_contents (a ++ t2) (a ++ w).
Proof.
  induction a as [|b a IH]; intros Ha H; [exact H|]. unfold all in Ha. cbn [forallb] in Ha.
  apply andb_true_iff in Ha as [Hb Ha]. change ((b :: a) ++ t2) with ([b] ++ a ++ t2).
  change ((b :: a) ++ w) with ([b] ++ a ++ w). apply mlc_char; [left; exists b; auto|apply IH; assumption].
Qed.

Lemma mlc_trims es t2 w : trims es -> ~ starts_with_ws_or_newline t2 -> mlb_contents t2 w ->
  mlb_contents (es ++ t2) w.
Proof.
  induction 1 as [e He|e es He Hes IH]; intros N H.
  - apply mlc_escaped_nl; assumption.
  - rewrite <- app_assoc. apply mlc_escaped_nl; [exact He| |apply IH; assumption].
    destruct (trims_head es Hes) as (es' & ->). apply backslash_not_starts.
Qed.

Lemma starts_app t2 r2 : starts_with_ws_or_newline t2 -> starts_with_ws_or_newline (t2 ++ r2).
Proof.
  intros [(b & t' & -> & Hb) | (nl & t' & Hnl & ->)].
  - left. exists b, (t' ++ r2). auto.
  - right. exists nl, (t' ++ r2). split; [exact Hnl|]. rewrite app_assoc. reflexivity.
Qed.

Lemma escaped_nl_ascii e : mlb_escaped_nl_tok e -> forallb ascii e = true.
Proof.
  intros (w & nl & tl & -> & Hw & Hnl & Htl). rewrite !forallb_app.
  rewrite (forallb_impl wschar ascii w wschar_ascii Hw), (newline_tok_ascii nl Hnl). cbn [forallb andb].
  rewrite Bool.andb_true_r. change (ascii x5c) with true. cbn [andb].
  induction Htl as [|b t Hb _ IH|nl' t Hnl' _ IH]; [reflexivity| |].
  - cbn [forallb]. rewrite (wschar_ascii b Hb), IH. reflexivity.
  - rewrite forallb_app, (newline_tok_ascii nl' Hnl'), IH. reflexivity.
Qed.

Lemma trims_ascii es : trims es -> forallb ascii es = true.
Proof.
  induction 1 as [e He|e es He _ IH]; [apply escaped_nl_ascii; exact He|].
  rewrite forallb_app, (escaped_nl_ascii e He), IH. reflexivity.
Qed.

(* what one successful mlb_content call contributes, given what the rest of the group turns out to be *)
Definition prepend_ok (t c : bytes) (i' : input) : Prop :=
  forall t2 w, mlb_contents t2 w -> (exists r2, rest i' = t2 ++ r2) -> mlb_contents (t ++ t2) (c ++ w).

Lemma mlb_content_inv i c i' : mlb_content i = Ok c i' ->
  exists t, splits i t i' /\ utf8_valid_b t = true /\ t <> [] /\ prepend_ok t c i'.
Proof.
  rewrite mlb_content_unfold. intro H. apply alt_inv in H as [H | [_ H]].
  { apply mlb_chunk_inv in H as (S & Hne & Ha & V). exists c. repeat (split; [assumption|]).
    intros t2 w H2 _. apply mlc_run; assumption. }
  apply alt_inv in H as [H | [_ H]].
  { apply pvalue_inv in H as (-> & u & H). apply mlb_escaped_nl_inv in H as (es & Hes & S & N).
    exists es. split; [exact S|]. split; [apply utf8_ascii, trims_ascii; exact Hes|].
    split; [destruct (trims_head es Hes) as (es' & ->); discriminate|].
    intros t2 w H2 (r2 & E). cbn [app]. apply mlc_trims; [exact Hes| |exact H2].
    intro Hs. apply N. rewrite E. apply starts_app. exact Hs. }
  apply alt_inv in H as [H | [_ H]].
  { apply escaped_sound in H as (e & He & S). destruct (escaped_ascii e c He) as (Ae & t & Ee).
    exists e. split; [exact S|]. split; [apply utf8_ascii; exact Ae|]. split; [rewrite Ee; discriminate|].
    intros t2 w H2 _. apply mlc_char; [right; exact He|exact H2]. }
  apply pvalue_inv in H as (-> & u & H). apply newline_sound in H as (nl & Hnl & S).
  exists nl. split; [exact S|]. split; [apply utf8_ascii, newline_tok_ascii; exact Hnl|].
  split; [destruct Hnl as [-> | ->]; discriminate|].
  intros t2 w H2 _. apply mlc_newline; [split; [exact Hnl|reflexivity]|exact H2].
Qed.

Lemma mlb_content_shrinking : shrinking mlb_content.
Proof. apply splits_shrinking. intros i a i' H. apply mlb_content_inv in H as (t & S & _). eauto. Qed.

Lemma runs_mlb_sound i l i' : runs mlb_content i l i' ->
  exists t, splits i t i' /\ utf8_valid_b t = true /\ mlb_contents t (concat l) /\ (l <> [] -> t <> []).
Proof.
  induction 1 as [i F|i a i1 l i2 E _ _ (t2 & S2 & V2 & H2 & _)].
  - exists []. split; [apply splits_nil|]. split; [reflexivity|]. split; [apply mlc_nil|congruence].
  - apply mlb_content_inv in E as (t1 & S1 & V1 & Hne & P). exists (t1 ++ t2).
    split; [apply (splits_trans _ _ _ _ _ S1 S2)|]. split; [apply utf8_join; assumption|].
    split; [cbn [concat]; apply P; [exact H2|exists (rest i2); apply S2]|].
    intros _. destruct t1; [congruence|discriminate].
Qed.

(* ---- completeness for a group of contents: the parser's view -------------------------------------------------------------------- *)
(* the text does not start with a line-ending backslash: empty, or not a backslash, or an escape *)
Definition no_trim_head (t : bytes) : Prop :=
  t = [] \/ (exists b t', t = b :: t' /\ byte_eqb x5c b = false) \/ (exists e s t', escaped_tok e s /\ t = e ++ t').

Inductive mchunked : bytes -> bytes -> Prop :=
| mch_nil : mchunked [] []
| mch_run a t v : a <> [] -> all mlb_unescaped a -> stops mlb_unescaped t -> mchunked t v ->
    mchunked (a ++ t) (a ++ v)
| mch_esc e s t v : escaped_tok e s -> mchunked t v -> mchunked (e ++ t) (s ++ v)
| mch_nl nl t v : newline_tok nl -> mchunked t v -> mchunked (nl ++ t) (x0a :: v)
| mch_trim es t v : trims es -> ~ starts_with_ws_or_newline t -> no_trim_head t -> mchunked t v ->
    mchunked (es ++ t) v.

Lemma mlb_unescaped_not_special b : mlb_unescaped b = true ->
  byte_eqb x5c b = false /\ byte_eqb x22 b = false /\ byte_eqb b x0a = false /\ byte_eqb b x0d = false.
Proof. cls. lia. Qed.

Lemma mchunked_stops t v : mchunked t v -> (forall a t' , t = a ++ t' -> a <> [] -> all mlb_unescaped a -> False) \/ True.
Proof. auto. Qed.

Lemma mchunked_cons b t v : mlb_unescaped b = true -> mchunked t v -> mchunked (b :: t) (b :: v).
Proof.
  intros Hb H. assert (A1 : all mlb_unescaped [b]) by (unfold all; cbn [forallb]; rewrite Hb; reflexivity).
  destruct H as [|a t v Hne Ha Hs H|e s t v He H|nl t v Hnl H|es t v Hes N1 N2 H].
  - apply (mch_run [b] [] []); [discriminate|exact A1|exact I|apply mch_nil].
  - apply (mch_run (b :: a) t v); [discriminate| |exact Hs|exact H].
    unfold all in *. cbn [forallb]. rewrite Hb. exact Ha.
  - apply (mch_run [b] (e ++ t) (s ++ v)); [discriminate|exact A1| |apply mch_esc; assumption].
    destruct (escaped_ascii e s He) as (_ & t' & ->). reflexivity.
  - apply (mch_run [b] (nl ++ t) (x0a :: v)); [discriminate|exact A1| |apply mch_nl; assumption].
    destruct Hnl as [-> | ->]; reflexivity.
  - apply (mch_run [b] (es ++ t) v); [discriminate|exact A1| |apply mch_trim; assumption].
    destruct (trims_head es Hes) as (es' & ->). reflexivity.
Qed.

Lemma contents_mchunked t v : mlb_contents t v -> mchunked t v.
Proof.
  induction 1 as [|c v t w [(b & Hb & -> & ->) | He] _ IH|c v t w [Hnl ->] _ IH|e t w He N _ IH].
  - apply mch_nil.
  - apply mchunked_cons; assumption.
  - apply mch_esc; assumption.
  - apply mch_nl; assumption.
  - destruct IH as [|a t v Hne Ha Hs H|e' s t v He' H|nl t v Hnl H|es t v Hes N1 N2 H].
    + apply (mch_trim e [] []); [apply trims_one; exact He|exact N|left; reflexivity|apply mch_nil].
    + apply (mch_trim e (a ++ t) (a ++ v)); [apply trims_one; exact He|exact N| |apply mch_run; assumption].
      right; left. destruct a as [|b a']; [congruence|]. exists b, (a' ++ t). split; [reflexivity|].
      unfold all in Ha. cbn [forallb] in Ha. apply andb_true_iff in Ha as [Hb _].
      apply (mlb_unescaped_not_special b Hb).
    + apply (mch_trim e (e' ++ t) (s ++ v)); [apply trims_one; exact He|exact N| |apply mch_esc; assumption].
      right; right. eauto.
    + apply (mch_trim e (nl ++ t) (x0a :: v)); [apply trims_one; exact He|exact N| |apply mch_nl; assumption].
      right; left. destruct Hnl as [-> | ->]; cbn [app]; eauto.
    + rewrite app_assoc. apply mch_trim; [apply trims_more; assumption|exact N1|exact N2|exact H].
Qed.

Lemma not_starts_app_quote t s : ~ starts_with_ws_or_newline t -> ~ starts_with_ws_or_newline (t ++ x22 :: s).
Proof.
  intros N. destruct t as [|b t']; [apply not_starts_cons; try reflexivity; intro; discriminate|].
  intros [(c & u & E & Hc) | (nl & u & [-> | ->] & E)]; cbn [app] in E.
  - injection E as <- _. apply N. left. exists b, t'. auto.
  - injection E as -> _. apply N. right. exists [x0a], t'. split; [left; reflexivity|reflexivity].
  - injection E as -> E. destruct t' as [|c t'']; cbn [app] in E; [discriminate|]. injection E as -> _.
    apply N. right. exists [x0d; x0a], t''. split; [right; reflexivity|reflexivity].
Qed.

Lemma escape_char_not_ws b : escape_simple b <> None \/ escape_hex b <> None ->
  wschar b = false /\ byte_eqb b x0a = false /\ byte_eqb b x0d = false.
Proof. destruct b; intros [H | H]; try (exfalso; apply H; reflexivity); auto. Qed.

Lemma escaped_second e s : escaped_tok e s -> exists b t, e = x5c :: b :: t /\
  wschar b = false /\ byte_eqb b x0a = false /\ byte_eqb b x0d = false.
Proof.
  intros [b n Hb | b k h Hb Hl Hh Hsc].
  - exists b, []. split; [reflexivity|]. apply escape_char_not_ws. left. congruence.
  - exists b, h. split; [reflexivity|]. apply escape_char_not_ws. right. congruence.
Qed.

Lemma no_trim_head_quote t s : no_trim_head t -> ~ starts_escaped_nl (t ++ x22 :: s).
Proof.
  intros [-> | [(b & t' & -> & Hb) | (e & s0 & t' & He & ->)]] (w & nl & s' & E & Hw & Hnl); cbn [app] in E.
  - discriminate.
  - injection E as -> _. discriminate.
  - destruct (escaped_second e s0 He) as (b & t & -> & W & N1 & N2). cbn [app] in E. injection E as E.
    destruct w as [|c w']; cbn [app] in E.
    + destruct Hnl as [-> | ->]; cbn [app] in E; injection E as -> _; discriminate.
    + injection E as -> _. unfold ws_tok, all in Hw. cbn [forallb] in Hw. apply andb_true_iff in Hw as [Hc _]. congruence.
Qed.

Lemma mlb_content_fails_quote i s : rest i = x22 :: s -> fails mlb_content i.
Proof.
  intro H. unfold fails. rewrite mlb_content_unfold. apply alt_fails; [apply mlb_chunk_fails; rewrite H; reflexivity|].
  apply alt_fails.
  { apply pvalue_fails, mlb_escaped_nl_fails. rewrite H. intros (w & nl & s' & E & _). discriminate. }
  apply alt_fails; [apply escaped_fails; rewrite H; reflexivity|].
  apply pvalue_fails, newline_fails. rewrite H. intros (nl & t' & [-> | ->] & E); discriminate.
Qed.

Lemma mlb_unescaped_nonascii b : mlb_unescaped b = false -> ascii b = true.
Proof. apply basic_unescaped_nonascii. Qed.

Lemma adv_shorter i t r : rest i = t ++ r -> t <> [] -> length (rest (adv t i)) < length (rest i).
Proof. intros H Hne. rewrite (rest_adv t r i H), H, app_length. destruct t; [congruence|simpl; lia]. Qed.

Lemma runs_mlb_complete t v : mchunked t v -> forall i s,
  utf8_valid_b t = true -> rest i = t ++ x22 :: s ->
  exists l, runs mlb_content i l (adv t i) /\ concat l = v.
Proof.
  induction 1 as [|a t v Hne Ha Hs _ IH|e s0 t v He _ IH|nl t v Hnl _ IH|es t v Hes N1 N2 _ IH]; intros i s V H.
  - exists []. rewrite adv_nil. split; [|reflexivity]. apply runs_nil. apply (mlb_content_fails_quote i s H).
  - rewrite <- app_assoc in H.
    destruct (utf8_cut a t (stops_ascii_head _ _ mlb_unescaped_nonascii Hs) V) as [Va Vt].
    assert (E : mlb_content i = Ok a (adv a i)).
    { rewrite mlb_content_unfold. apply alt_ok.
      apply (mlb_chunk_ok i a _ H Hne Ha); [|exact Va]. apply stops_app_quote; [reflexivity|exact Hs]. }
    pose proof (rest_adv _ _ _ H) as R. destruct (IH (adv a i) s Vt R) as (l & Rl & El).
    exists (a :: l). rewrite <- adv_adv. split; [|cbn [concat]; rewrite El; reflexivity].
    eapply runs_cons; [exact E|apply (adv_shorter i a _ H Hne)|exact Rl].
  - rewrite <- app_assoc in H. destruct (escaped_ascii e s0 He) as (Ae & t' & Ee).
    rewrite (utf8_app_ascii e t Ae) in V.
    assert (E : mlb_content i = Ok s0 (adv e i)).
    { rewrite mlb_content_unfold. rewrite alt_fails_l by (apply mlb_chunk_fails; rewrite H, Ee; reflexivity).
      rewrite alt_fails_l.
      - apply alt_ok. apply (escaped_complete i e s0 _ He H).
      - apply pvalue_fails, mlb_escaped_nl_fails. rewrite H, app_assoc.
        apply (no_trim_head_quote (e ++ t) s). right; right. eauto. }
    pose proof (rest_adv _ _ _ H) as R. destruct (IH (adv e i) s V R) as (l & Rl & El).
    exists (s0 :: l). rewrite <- adv_adv. split; [|cbn [concat]; rewrite El; reflexivity].
    eapply runs_cons; [exact E|apply (adv_shorter i e _ H); rewrite Ee; discriminate|exact Rl].
  - rewrite <- app_assoc in H. rewrite (utf8_app_ascii nl t (newline_tok_ascii nl Hnl)) in V.
    assert (Hh : exists b u, nl = b :: u /\ mlb_unescaped b = false /\ byte_eqb x5c b = false).
    { destruct Hnl as [-> | ->]; eauto. }
    destruct Hh as (b & u & Enl & Hb1 & Hb2).
    assert (E : mlb_content i = Ok [x0a] (adv nl i)).
    { rewrite mlb_content_unfold. rewrite alt_fails_l by (apply mlb_chunk_fails; rewrite H, Enl; exact Hb1).
      rewrite alt_fails_l.
      - rewrite alt_fails_l by (apply escaped_fails; rewrite H, Enl; exact Hb2).
        apply (pvalue_ok _ _ _ tt). apply (newline_complete i nl _ H Hnl).
      - apply pvalue_fails, mlb_escaped_nl_fails. rewrite H, Enl. intros (w & nl' & s' & E & _).
        cbn [app] in E. injection E as -> _. discriminate. }
    pose proof (rest_adv _ _ _ H) as R. destruct (IH (adv nl i) s V R) as (l & Rl & El).
    exists ([x0a] :: l). rewrite <- adv_adv. split; [|cbn [concat app]; rewrite El; reflexivity].
    eapply runs_cons; [exact E|apply (adv_shorter i nl _ H); rewrite Enl; discriminate|exact Rl].
  - rewrite <- app_assoc in H. rewrite (utf8_app_ascii es t (trims_ascii es Hes)) in V.
    destruct (trims_head es Hes) as (es' & Ees).
    assert (E : mlb_content i = Ok [] (adv es i)).
    { rewrite mlb_content_unfold. rewrite alt_fails_l by (apply mlb_chunk_fails; rewrite H, Ees; reflexivity).
      apply alt_ok. apply (pvalue_ok _ _ _ tt).
      apply (mlb_escaped_nl_ok i es _ Hes H); [apply not_starts_app_quote; exact N1|apply no_trim_head_quote; exact N2]. }
    pose proof (rest_adv _ _ _ H) as R. destruct (IH (adv es i) s V R) as (l & Rl & El).
    exists ([] :: l). rewrite <- adv_adv. split; [|cbn [concat app]; exact El].
    eapply runs_cons; [exact E|apply (adv_shorter i es _ H); rewrite Ees; discriminate|exact Rl].
Qed.

(* ---- the loop over unescaped quote runs:  *( mlb-quotes 1*mlb-content ) -------------------------------------------------------- *)
Lemma mlb_quote_loop_S f acc i :
  mlb_quote_loop (S f) acc i =
  match opt (quotes2 x22 (not_q x22)) i with
  | Ok (Some qi) i1 =>
    match opt mlb_content i1 with
    | Ok (Some ci) i2 =>
      match chunks mlb_content i2 with
      | Ok more i3 => mlb_quote_loop f (acc ++ qi ++ ci ++ more) i3
      | Bt e i' => Bt e i'
      | Cut e i' => Cut e i'
      | Panic s => Panic s
      end
    | Ok None i2 => Ok acc i2
    | Bt e i' => Bt e i'
    | Cut e i' => Cut e i'
    | Panic s => Panic s
    end
  | Ok None i1 => Ok acc i1
  | Bt e i' => Bt e i'
  | Cut e i' => Cut e i'
  | Panic s => Panic s
  end.
Proof. reflexivity. Qed.

Lemma mlb_quotes_cases q v : mlb_quotes q v -> (q = [x22] \/ q = [x22; x22]) /\ v = q.
Proof. intros [[-> ->] | [-> ->]]; auto. Qed.

Lemma maybe_mlb_quotes_cases t v : maybe mlb_quotes t v -> (t = [] \/ t = [x22] \/ t = [x22; x22]) /\ v = t.
Proof. intros [[-> ->] | [[-> ->] | [-> ->]]]; auto. Qed.

Lemma mlb_contents_head c vc : mlb_contents c vc -> c = [] \/ exists b c', c = b :: c' /\ byte_eqb x22 b = false.
Proof.
  intros [|c0 v0 t w [(b & Hb & -> & ->) | He] _|c0 v0 t w [[-> | ->] _] _|e t w He _ _]; [auto| | | | |]; right.
  - exists b, t. split; [reflexivity|apply (mlb_unescaped_not_special b Hb)].
  - destruct (escaped_ascii c0 v0 He) as (_ & t' & ->). exists x5c, (t' ++ t). auto.
  - exists x0a, t. auto.
  - exists x0d, (x0a :: t). auto.
  - destruct (escaped_nl_head e He) as (e' & ->). exists x5c, (e' ++ t). auto.
Qed.

Lemma contents1_head c vc : mlb_contents1 c vc -> exists b c', c = b :: c' /\ byte_eqb x22 b = false.
Proof. intros [Hne H]. destruct (mlb_contents_head c vc H) as [-> | E]; [congruence|exact E]. Qed.

Definition qgroup : lang := cat mlb_quotes mlb_contents1.

Lemma star_qgroup_head t w s : star qgroup t w -> exists s', t ++ x22 :: s = x22 :: s'.
Proof.
  intros [|ta va tb vb (q & vq & c & vc & -> & -> & Hq & _) _]; [cbn [app]; eauto|].
  apply mlb_quotes_cases in Hq as [[-> | ->] _]; cbn [app]; eauto.
Qed.

Lemma runs_nil_eq {A} (p : parser A) i i' : runs p i [] i' -> i' = i.
Proof. intro R. inversion R. reflexivity. Qed.

Lemma runs_nil_adv {A} (p : parser A) i c i' : runs p i [] i' -> i' = adv c i -> c = [].
Proof.
  intros R E. apply runs_nil_eq in R. rewrite R in E. apply (f_equal pos) in E. rewrite pos_adv in E.
  destruct c; [reflexivity|simpl in E; lia].
Qed.

Lemma quote_loop_complete t w : star qgroup t w -> forall fuel acc i s,
  utf8_valid_b t = true -> rest i = t ++ x22 :: x22 :: x22 :: s -> length (rest i) < fuel ->
  mlb_quote_loop fuel acc i = Ok (acc ++ w) (adv t i).
Proof.
  induction 1 as [|t1 v1 t2 v2 (q & vq & c & vc & -> & -> & Hq & Hc) St IH]; intros fuel acc i s V H Hf;
    (destruct fuel as [|f]; [lia|]); rewrite mlb_quote_loop_S.
  - rewrite (opt_fails _ _ (quotes2_not_q_fails x22 i s H)). rewrite adv_nil, app_nil_r. reflexivity.
  - apply mlb_quotes_cases in Hq as [Hq ->].
    destruct (contents1_head c vc Hc) as (b & c' & Ec & Nb). destruct Hc as [Hne Hc].
    destruct (star_qgroup_head t2 v2 (x22 :: x22 :: s) St) as (s' & Es').
    rewrite <- !app_assoc in H. rewrite Es' in H.
    (* well-formedness of the pieces *)
    assert (Aq : forallb ascii q = true) by (destruct Hq as [-> | ->]; reflexivity).
    rewrite <- app_assoc in V. rewrite (utf8_app_ascii q _ Aq) in V.
    assert (Ah : ascii_head t2).
    { destruct St as [|ta va tb vb (q' & vq' & c'' & vc'' & -> & -> & Hq' & _) _]; [exact I|].
      apply mlb_quotes_cases in Hq' as [[-> | ->] _]; reflexivity. }
    destruct (utf8_cut c t2 Ah V) as [Vc V2].
    (* the quotes *)
    assert (H' : rest i = q ++ b :: (c' ++ x22 :: s')) by (rewrite H, Ec; reflexivity).
    rewrite (opt_ok _ _ _ _ (quotes2_not_q_ok x22 i q b _ eq_refl Hq H' Nb)).
    (* the contents *)
    pose proof (rest_adv _ _ _ H) as R.
    destruct (runs_mlb_complete c vc (contents_mchunked c vc Hc) _ s' Vc R) as (l & Rl & El).
    destruct l as [|ci l'].
    { exfalso. apply Hne. apply (runs_nil_adv _ _ c _ Rl). reflexivity. }
    inversion Rl as [|? ? i2 ? ? E2 Hlt R2]; subst.
    rewrite (opt_ok _ _ _ _ E2). rewrite (chunks_runs _ _ _ _ R2).
    pose proof (rest_adv _ _ _ R) as R3. rewrite <- Es' in R3.
    rewrite (IH f _ _ s V2 R3).
    + rewrite !adv_adv. cbn [concat]. rewrite <- !app_assoc. reflexivity.
    + rewrite R3, Es'. rewrite H, !app_length in Hf.
      destruct Hq as [-> | ->]; simpl in *; lia.
Qed.

(* outcome of the loop: either it stopped after dropping quotes in front of a byte that is neither a
   quote nor content (then no closing delimiter can follow), or it read a sequence of groups *)
Definition loop_broke (i' : input) : Prop := exists b s, rest i' = b :: s /\ byte_eqb x22 b = false.

Lemma quote_loop_sound : forall fuel acc i v i', mlb_quote_loop fuel acc i = Ok v i' ->
  loop_broke i' \/
  exists t w, star qgroup t w /\ utf8_valid_b t = true /\ v = acc ++ w /\ splits i t i'.
Proof.
  induction fuel as [|f IH]; intros acc i v i' H; [discriminate|]. rewrite mlb_quote_loop_S in H.
  destruct (opt (quotes2 x22 (not_q x22)) i) as [[qi|] i1|e j|e j|st] eqn:Eq; try discriminate.
  - apply opt_inv in Eq as [(q0 & Eq0 & Eq) | (Eq0 & _)]; [injection Eq0 as <-|discriminate].
    apply quotes2_inv in Eq as (Hq & S1 & (x & j & Hn)). apply not_q_inv in Hn as (b & s & Eb & Nb).
    destruct (opt mlb_content i1) as [[ci|] i2|e j'|e j'|st] eqn:Ec; try discriminate.
    + apply opt_inv in Ec as [(c0 & Ec0 & Ec) | (Ec0 & _)]; [injection Ec0 as <-|discriminate].
      destruct (chunks mlb_content i2) as [more i3|e j'|e j'|st] eqn:Em; try discriminate.
      apply (chunks_inv _ _ _ _ mlb_content_shrinking) in Em as (l & -> & R).
      apply IH in H as [Hb | (t & w & St & V & -> & S3)]; [left; exact Hb|right].
      assert (Rc : runs mlb_content i1 (ci :: l) i3).
      { eapply runs_cons; [exact Ec| |exact R]. apply mlb_content_inv in Ec as (t1 & S & _ & Hne & _).
        apply splits_len in S. destruct t1; [congruence|simpl in S; lia]. }
      apply runs_mlb_sound in Rc as (c & S2 & Vc & Hc & Hne).
      exists ((qi ++ c) ++ t), ((qi ++ concat (ci :: l)) ++ w). split; [|split; [|split]].
      * apply star_cons; [|exact St]. exists qi, qi, c, (concat (ci :: l)). repeat split.
        -- destruct Hq as [-> | ->]; [left|right]; split; reflexivity.
        -- apply Hne. discriminate.
        -- exact Hc.
      * rewrite <- app_assoc. rewrite utf8_app_ascii by (destruct Hq as [-> | ->]; reflexivity).
        apply utf8_join; assumption.
      * cbn [concat]. rewrite <- !app_assoc. reflexivity.
      * apply (splits_trans _ _ _ _ _ (splits_trans _ _ _ _ _ S1 S2) S3).
    + apply opt_inv in Ec as [(c0 & Ec0 & _) | (_ & -> & _)]; [discriminate|].
      injection H as _ <-. left. exists b, s. auto.
  - apply opt_inv in Eq as [(q0 & Eq0 & _) | (_ & -> & _)]; [discriminate|].
    injection H as <- <-. right. exists [], []. split; [apply star_nil|]. split; [reflexivity|].
    split; [rewrite app_nil_r; reflexivity|apply splits_nil].
Qed.

(* ---- ml-basic-body ------------------------------------------------------------------------------------------------------------------ *)
Lemma ml_basic_body_unfold i :
  ml_basic_body i =
  (c <- chunks mlb_content ;;
   c2 <- (fun j => mlb_quote_loop (S (length (rest j))) c j) ;;
   q <- opt (quotes2 x22 (delim3 x22)) ;;
   ret (c2 ++ match q with Some qi => qi | None => [] end)) i.
Proof. reflexivity. Qed.

Theorem ml_basic_body_complete i t v s :
  ml_basic_body_tok t v -> utf8_valid_b t = true -> rest i = t ++ [x22; x22; x22] ++ s ->
  stops (byte_eqb x22) s -> ml_basic_body i = Ok v (adv t i).
Proof.
  intros (t1 & v1 & t23 & v23 & -> & -> & A & (t2 & v2 & t3 & v3 & -> & -> & B & C)) V H Hs.
  apply maybe_mlb_quotes_cases in C as [C ->]. rewrite <- !app_assoc in H.
  (* well-formedness of the three parts *)
  assert (A3 : forallb ascii t3 = true) by (destruct C as [-> | [-> | ->]]; reflexivity).
  assert (Ah3 : ascii_head t3) by (destruct C as [-> | [-> | ->]]; exact I || reflexivity).
  assert (Ah2 : ascii_head (t2 ++ t3)).
  { destruct B as [|ta va tb vb (q' & vq' & c'' & vc'' & -> & -> & Hq' & _) _]; [exact Ah3|].
    apply mlb_quotes_cases in Hq' as [[-> | ->] _]; reflexivity. }
  destruct (utf8_cut t1 _ Ah2 V) as [V1 V23]. destruct (utf8_cut t2 _ Ah3 V23) as [V2 _].
  (* what follows each part *)
  assert (Hd2 : exists s2, t3 ++ [x22; x22; x22] ++ s = x22 :: x22 :: x22 :: s2).
  { destruct C as [-> | [-> | ->]]; cbn [app]; eauto. }
  destruct Hd2 as (s2 & Es2).
  destruct (star_qgroup_head t2 v2 (x22 :: x22 :: s2) B) as (s1 & Es1).
  rewrite ml_basic_body_unfold.
  assert (H1 : rest i = t1 ++ x22 :: s1) by (rewrite H, Es2, Es1; reflexivity).
  destruct (runs_mlb_complete t1 v1 (contents_mchunked _ _ A) i s1 V1 H1) as (l1 & R1 & <-).
  rewrite (bind_ok _ _ _ _ _ (chunks_runs _ _ _ _ R1)).
  pose proof (rest_adv _ _ _ H) as R. rewrite Es2 in R.
  rewrite (bind_ok (fun j => mlb_quote_loop (S (length (rest j))) (concat l1) j) _ (adv t1 i) _ (adv t2 (adv t1 i))
             (quote_loop_complete t2 v2 B _ _ _ s2 V2 R (Nat.lt_succ_diag_r _))).
  pose proof (rest_adv _ _ _ R) as R3. rewrite <- Es2 in R3. unfold ret.
  destruct C as [-> | [-> | ->]]; cbn [app] in R3.
  - rewrite (bind_ok _ _ _ _ _ (opt_fails _ _ (quotes2_delim_0 x22 _ s eq_refl R3 Hs))).
    rewrite !adv_adv, !app_nil_r. reflexivity.
  - rewrite (bind_ok _ _ _ _ _ (opt_ok _ _ _ _ (quotes2_delim_1 x22 _ s eq_refl R3 Hs))).
    rewrite !adv_adv, <- !app_assoc. reflexivity.
  - rewrite (bind_ok _ _ _ _ _ (opt_ok _ _ _ _ (quotes2_delim_2 x22 _ s eq_refl R3))).
    rewrite !adv_adv, <- !app_assoc. reflexivity.
Qed.

Theorem ml_basic_body_sound i v i' : ml_basic_body i = Ok v i' ->
  loop_broke i' \/
  exists t, ml_basic_body_tok t v /\ utf8_valid_b t = true /\ splits i t i'.
Proof.
  rewrite ml_basic_body_unfold. intro H. apply bind_inv in H as (c & i1 & H1 & H).
  apply (chunks_inv _ _ _ _ mlb_content_shrinking) in H1 as (l & -> & R1).
  apply runs_mlb_sound in R1 as (t1 & S1 & V1 & A & _).
  apply bind_inv in H as (c2 & i2 & H2 & H). apply quote_loop_sound in H2.
  apply bind_inv in H as (q & i3 & H3 & H). apply ret_inv in H as [-> ->].
  destruct H2 as [(b & s & Eb & Nb) | (t2 & w & B & V2 & -> & S2)].
  - (* the loop broke: the optional closing quotes cannot match either *)
    left. apply opt_inv in H3 as [(q0 & -> & H3) | (_ & -> & _)]; [|exists b, s; auto].
    apply quotes2_inv in H3 as (Hq & [S3 _] & _). rewrite Eb in S3.
    destruct Hq as [-> | ->]; cbn [app] in S3; injection S3 as -> _; discriminate.
  - right.
    assert (C : exists t3, maybe mlb_quotes t3 (match q with Some qi => qi | None => [] end)
                           /\ forallb ascii t3 = true /\ splits i2 t3 i3).
    { apply opt_inv in H3 as [(q0 & -> & H3) | (-> & -> & _)].
      - apply quotes2_inv in H3 as (Hq & S3 & _). exists q0. split; [|split; [|exact S3]].
        + right. destruct Hq as [-> | ->]; [left|right]; split; reflexivity.
        + destruct Hq as [-> | ->]; reflexivity.
      - exists []. split; [left; auto|]. split; [reflexivity|apply splits_nil]. }
    destruct C as (t3 & C & A3 & S3).
    exists (t1 ++ t2 ++ t3). split; [|split].
    + exists t1, (concat l), (t2 ++ t3), (w ++ match q with Some qi => qi | None => [] end).
      split; [reflexivity|]. split; [rewrite app_assoc; reflexivity|]. split; [exact A|].
      exists t2, w, t3, (match q with Some qi => qi | None => [] end). auto.
    + apply utf8_join; [exact V1|]. apply utf8_join; [exact V2|apply utf8_ascii; exact A3].
    + apply (splits_trans _ _ _ _ _ S1 (splits_trans _ _ _ _ _ S2 S3)).
Qed.

(* ---- ml-basic-string ------------------------------------------------------------------------------------------------------------------ *)
Lemma ml_basic_string_unfold i :
  ml_basic_string i =
  (lit ML_BASIC_STRING_DELIM ;;;
   c <- context (opt newline ;;; cut_err ml_basic_body) ;;
   context (cut_err (lit ML_BASIC_STRING_DELIM)) ;;; ret c) i.
Proof. reflexivity. Qed.

Theorem ml_basic_string_sound i v i' : ml_basic_string i = Ok v i' ->
  exists t, ml_basic_string_tok t v /\ splits i t i'.
Proof.
  rewrite ml_basic_string_unfold. unfold ML_BASIC_STRING_DELIM. intro H.
  apply bind_inv in H as (x & i1 & H1 & H). apply lit_inv in H1 as [_ S1].
  apply bind_inv in H as (c & i3 & H3 & H). apply context_inv in H3.
  apply bind_inv in H3 as (o & i2 & H2 & H3). apply cut_err_inv in H3.
  apply bind_inv in H as (y & i4 & H4 & H). apply context_inv, cut_err_inv, lit_inv in H4 as [_ S4].
  apply ret_inv in H as [-> ->].
  apply ml_basic_body_sound in H3 as [(b & s & Eb & Nb) | (body & Hb & V & S3)].
  { exfalso. destruct S4 as [E4 _]. rewrite Eb in E4. cbn [app] in E4. injection E4 as -> _. discriminate. }
  assert (N : exists nl, first_newline nl body /\ splits i1 nl i2).
  { apply opt_inv in H2 as [(u & -> & H2) | (-> & E2 & F)].
    - apply newline_sound in H2 as (nl & Hn & S). exists nl. split; [left; exact Hn|exact S].
    - subst i2. exists []. split; [|apply splits_nil]. right. split; [reflexivity|].
      intros (nl & t' & Hn & E). destruct S3 as [E3 _]. rewrite E, <- app_assoc in E3.
      destruct F as (e & j & F). rewrite (newline_complete i1 nl _ E3 Hn) in F. discriminate. }
  destruct N as (nl & Hnl & S2).
  exists ([x22; x22; x22] ++ nl ++ body ++ [x22; x22; x22]). split.
  - split.
    + rewrite utf8_app_ascii by reflexivity.
      assert (An : forallb ascii nl = true) by (destruct Hnl as [Hn | [-> _]]; [apply newline_tok_ascii; exact Hn|reflexivity]).
      rewrite (utf8_app_ascii nl _ An). apply utf8_join; [exact V|reflexivity].
    + exists nl, body. auto.
  - apply (splits_trans _ _ _ _ _ S1 (splits_trans _ _ _ _ _ S2 (splits_trans _ _ _ _ _ S3 S4))).
Qed.

Lemma mlb_body_head body v s : ml_basic_body_tok body v -> ~ starts_with_newline body ->
  ~ starts_with_newline (body ++ x22 :: s).
Proof.
  intros (t1 & v1 & t23 & v23 & -> & -> & A & (t2 & v2 & t3 & v3 & -> & -> & B & C)) N.
  assert (Hd : exists s', (t2 ++ t3) ++ x22 :: s = x22 :: s').
  { destruct B as [|ta va tb vb (q' & vq' & c' & vc' & -> & -> & Hq' & _) _].
    - apply maybe_mlb_quotes_cases in C as [[-> | [-> | ->]] _]; cbn [app]; eauto.
    - apply mlb_quotes_cases in Hq' as [[-> | ->] _]; cbn [app]; eauto. }
  destruct Hd as (s' & Es'). rewrite <- app_assoc, Es'.
  assert (Hq : ~ starts_with_newline (x22 :: s')) by (intros (nl & t' & [-> | ->] & E); discriminate).
  destruct A as [|c v t w [(b & Hb & -> & ->) | He] _|c v t w [Hnl _] _|e t w He _ _].
  - exact Hq.
  - destruct (mlb_unescaped_not_special b Hb) as (_ & _ & N1 & N2).
    intros (nl & t' & [-> | ->] & E); injection E as -> _; discriminate.
  - destruct (escaped_ascii c v He) as (_ & t' & ->).
    intros (nl & u & [-> | ->] & E); discriminate.
  - destruct N. exists c, (t ++ t2 ++ t3). split; [exact Hnl|]. rewrite <- app_assoc. reflexivity.
  - destruct (escaped_nl_head e He) as (e' & ->).
    intros (nl & u & [-> | ->] & E); discriminate.
Qed.

Theorem ml_basic_string_complete i t v r : ml_basic_string_tok t v -> rest i = t ++ r ->
  stops (byte_eqb x22) r -> ml_basic_string i = Ok v (adv t i).
Proof.
  intros (V & nl & body & -> & Hnl & Hb) H Hr. rewrite ml_basic_string_unfold. unfold ML_BASIC_STRING_DELIM.
  rewrite <- !app_assoc in H.
  rewrite (bind_ok _ _ _ _ _ (lit_ok _ i _ H)). pose proof (rest_adv _ _ _ H) as R1.
  assert (An : forallb ascii nl = true) by (destruct Hnl as [Hn | [-> _]]; [apply newline_tok_ascii; exact Hn|reflexivity]).
  rewrite utf8_app_ascii in V by reflexivity. rewrite (utf8_app_ascii nl _ An) in V.
  destruct (utf8_split body x22 _ eq_refl V) as [Vb _].
  pose proof (rest_adv _ _ _ R1) as R2.
  rewrite (bind_ok _ _ _ v (adv body (adv nl (adv [x22; x22; x22] i)))).
  - pose proof (rest_adv _ _ _ R2) as R3.
    rewrite (bind_ok _ _ _ _ _ (context_ok _ _ _ _ (cut_err_ok _ _ _ _ (lit_ok [x22; x22; x22] _ r R3)))).
    unfold ret. rewrite !adv_adv. reflexivity.
  - apply context_ok.
    rewrite (bind_ok _ _ _ (match nl with [] => None | _ => Some tt end) (adv nl (adv [x22; x22; x22] i))).
    + apply cut_err_ok. apply (ml_basic_body_complete _ body v r Hb Vb R2 Hr).
    + destruct Hnl as [Hn | [-> N]].
      * rewrite (opt_ok _ _ _ _ (newline_complete _ nl _ R1 Hn)). destruct Hn as [-> | ->]; reflexivity.
      * rewrite adv_nil. apply opt_fails, newline_fails. rewrite R1. cbn [app].
        apply (mlb_body_head body v _ Hb N).
Qed.

Lemma ml_basic_string_fails i : (forall s, rest i <> [x22; x22; x22] ++ s) -> fails ml_basic_string i.
Proof.
  intro H. unfold fails. rewrite ml_basic_string_unfold. unfold ML_BASIC_STRING_DELIM.
  apply bind_fails, lit_fails. exact H.
Qed.

Corollary ml_basic_string_cut_only i e j : ml_basic_string i = Cut e j ->
  forall t v r, rest i = t ++ r -> stops (byte_eqb x22) r -> ~ ml_basic_string_tok t v.
Proof. intros H t v r E Hr Ht. rewrite (ml_basic_string_complete i t v r Ht E Hr) in H. discriminate. Qed.
