(* Proofs/SpansDefs.v — C14: definitions used by the span theorems.
     all_spans d        every span stored anywhere in a parsed document (key reprs, key decor, value
                        reprs and decor, array / inline-table trailing, table spans, array-of-tables
                        spans, document trailing), in traversal order;
     *_in lo hi x       boolean: every span stored anywhere in x is a pair (a, b) with
                        lo <= a <= b <= hi;
     vnest / tnest      boolean: the nesting discipline of C14 (children inside their parent's span);
     *_nospan           boolean: no RSpanned raw string and no table / value / array-of-tables span
                        remains (what `despan` must establish);
     a mutual induction principle for value / item / tbl (nested through lists). *)
From TV Require Import Base.Prelude Base.Utf8 Base.Winnow.
From TV Require Import Model.Datetime Model.Numbers Model.Tree Model.Parse Model.Document.
Require Import Lia ZifyBool ZifyN ZifyNat.

(* ---- induction principle ----------------------------------------------------------------------- *)
Section TreeInd.
  Variables (Pv : value -> Prop) (Pi : item -> Prop) (Pt : tbl -> Prop).
  Hypothesis Hscalar : forall s r d, Pv (VScalar s r d).
  Hypothesis Harray : forall vals tr c d sp, Forall Pi vals -> Pv (VArray vals tr c d sp).
  Hypothesis Hinline : forall items pre im dt d sp,
      Forall (fun kv : key * item => Pi (snd kv)) items -> Pv (VInline items pre im dt d sp).
  Hypothesis Hnone : Pi INone.
  Hypothesis Hvalue : forall v, Pv v -> Pi (IValue v).
  Hypothesis Htable : forall t, Pt t -> Pi (ITable t).
  Hypothesis Haot : forall ts sp, Forall Pt ts -> Pi (IAot ts sp).
  Hypothesis Htbl : forall items d im dt p sp,
      Forall (fun kv : key * item => Pi (snd kv)) items -> Pt (Tbl items d im dt p sp).

  Fixpoint value_ind' (v : value) : Pv v :=
    match v with
    | VScalar s r d => Hscalar s r d
    | VArray vals tr c d sp =>
      Harray vals tr c d sp
        ((fix go (l : list item) : Forall Pi l :=
            match l with [] => Forall_nil _ | x :: r => Forall_cons x (item_ind' x) (go r) end) vals)
    | VInline items pre im dt d sp =>
      Hinline items pre im dt d sp
        ((fix go (l : list (key * item)) : Forall (fun kv => Pi (snd kv)) l :=
            match l with [] => Forall_nil _ | kv :: r => Forall_cons kv (item_ind' (snd kv)) (go r) end) items)
    end
  with item_ind' (it : item) : Pi it :=
    match it with
    | INone => Hnone
    | IValue v => Hvalue v (value_ind' v)
    | ITable t => Htable t (tbl_ind' t)
    | IAot ts sp =>
      Haot ts sp
        ((fix go (l : list tbl) : Forall Pt l :=
            match l with [] => Forall_nil _ | x :: r => Forall_cons x (tbl_ind' x) (go r) end) ts)
    end
  with tbl_ind' (t : tbl) : Pt t :=
    match t with
    | Tbl items d im dt p sp =>
      Htbl items d im dt p sp
        ((fix go (l : list (key * item)) : Forall (fun kv => Pi (snd kv)) l :=
            match l with [] => Forall_nil _ | kv :: r => Forall_cons kv (item_ind' (snd kv)) (go r) end) items)
    end.
  Definition tree_ind3 : (forall v, Pv v) /\ (forall it, Pi it) /\ (forall t, Pt t) :=
    conj value_ind' (conj item_ind' tbl_ind').
End TreeInd.

(* ---- the collector ------------------------------------------------------------------------------ *)
Definition ospan_spans (o : ospan) : list (N * N) := match o with Some sp => [sp] | None => [] end.
Definition raw_spans (r : raw) : list (N * N) := ospan_spans (raw_span r).
Definition oraw_spans (o : option raw) : list (N * N) := match o with Some r => raw_spans r | None => [] end.
Definition decor_spans (d : decor) : list (N * N) := oraw_spans (d_prefix d) ++ oraw_spans (d_suffix d).
Definition key_spans (k : key) : list (N * N) :=
  oraw_spans (k_repr k) ++ decor_spans (k_leaf k) ++ decor_spans (k_dotted k).

Fixpoint value_spans (v : value) : list (N * N) :=
  match v with
  | VScalar _ r d => oraw_spans r ++ decor_spans d
  | VArray vals tr _ d sp => ospan_spans sp ++ decor_spans d ++ flat_map item_spans vals ++ raw_spans tr
  | VInline items pre _ _ d sp =>
    ospan_spans sp ++ decor_spans d ++ flat_map (fun kv => key_spans (fst kv) ++ item_spans (snd kv)) items
    ++ raw_spans pre
  end
with item_spans (it : item) : list (N * N) :=
  match it with
  | INone => []
  | IValue v => value_spans v
  | ITable t => tbl_spans t
  | IAot ts sp => ospan_spans sp ++ flat_map tbl_spans ts
  end
with tbl_spans (t : tbl) : list (N * N) :=
  match t with
  | Tbl items d _ _ _ sp =>
    ospan_spans sp ++ decor_spans d ++ flat_map (fun kv => key_spans (fst kv) ++ item_spans (snd kv)) items
  end.

Definition all_spans (d : doc) : list (N * N) := tbl_spans (doc_root d) ++ raw_spans (doc_trailing d).

(* ---- "every span lies in [lo, hi]" ------------------------------------------------------------------ *)
Section In.
  Variables lo hi : N.
  Definition sp_in (sp : N * N) : bool := ((lo <=? fst sp) && (fst sp <=? snd sp) && (snd sp <=? hi))%N.
  Definition osp_in (o : ospan) : bool := match o with Some sp => sp_in sp | None => true end.
  Definition raw_in (r : raw) : bool := osp_in (raw_span r).
  Definition oraw_in (o : option raw) : bool := match o with Some r => raw_in r | None => true end.
  Definition decor_in (d : decor) : bool := oraw_in (d_prefix d) && oraw_in (d_suffix d).
  Definition key_in (k : key) : bool := oraw_in (k_repr k) && decor_in (k_leaf k) && decor_in (k_dotted k).

  Fixpoint value_in (v : value) : bool :=
    match v with
    | VScalar _ r d => oraw_in r && decor_in d
    | VArray vals tr _ d sp => forallb item_in vals && raw_in tr && decor_in d && osp_in sp
    | VInline items pre _ _ d sp =>
      forallb (fun kv => key_in (fst kv) && item_in (snd kv)) items && raw_in pre && decor_in d && osp_in sp
    end
  with item_in (it : item) : bool :=
    match it with
    | INone => true
    | IValue v => value_in v
    | ITable t => tbl_in t
    | IAot ts sp => forallb tbl_in ts && osp_in sp
    end
  with tbl_in (t : tbl) : bool :=
    match t with
    | Tbl items d _ _ _ sp =>
      forallb (fun kv => key_in (fst kv) && item_in (snd kv)) items && decor_in d && osp_in sp
    end.

  Definition kv_in (kv : key * item) : bool := key_in (fst kv) && item_in (snd kv).
  Definition items_in (m : kvs) : bool := forallb kv_in m.
End In.

Definition ospan_none (o : ospan) : bool := match o with None => true | Some _ => false end.

(* ---- nesting ------------------------------------------------------------------------------------ *)
(* the span of a key: its repr *)
Definition kspan_in (lo hi : N) (k : key) : bool := oraw_in lo hi (k_repr k).

(* Values.  An array or a braces-delimited inline table has a span, and EVERYTHING stored inside it
   (elements, their decor, keys, trailing text) lies inside that span.  An inline table made of a
   dotted key (`a.b = 1` inside braces) spans from its first key to the end of its last value; the
   reprs of its keys and the spans of its values lie inside (decor such as the blanks after the last
   value does not).  Recursively.  (An implicit inline table is one made of a dotted key.) *)
Definition dnest (a b : N) (items : list (key * item)) : bool :=
  forallb (fun kv => kspan_in a b (fst kv) && osp_in a b (item_span (snd kv))) items.

Fixpoint vnest (v : value) : bool :=
  match v with
  | VScalar _ _ _ => true
  | VArray vals tr _ _ sp =>
    match sp with
    | Some (a, b) => forallb (item_in a b) vals && raw_in a b tr
    | None => false
    end && forallb inest vals
  | VInline items pre im dt _ sp =>
    match sp with
    | Some (a, b) => if dt then dnest a b items else forallb (kv_in a b) items && raw_in a b pre
    | None => false
    end && (negb im || dt) && forallb (fun kv => inest (snd kv)) items
  end
with inest (it : item) : bool :=
  match it with
  | IValue v => vnest v
  | _ => false
  end.

(* Tables.  Where a table has a span, the repr of every key holding a value and that value's span lie
   inside the table's span ("every key/value of a table section lies inside the table span").  Sub-tables
   are not required to lie inside their tree parent: a table opened by its own header lies elsewhere
   (`[a]` ... `[a.b]`), and so may a table made of a dotted key (see `dotted_inside` below: refuted).
   Implicit super-tables have no span.  A table made of a dotted key always has a span, covering its own
   keys and values (same clause).  The elements of an array of tables (never tables made of dotted keys)
   lie inside the array's span, which starts where its first element starts. *)
Definition aot_nest (spans : list ospan) (asp : ospan) : bool :=
  match asp with
  | Some (a, b) =>
    match spans with
    | Some (x, _) :: _ => (x =? a)%N
    | _ => false
    end && forallb (osp_in a b) spans
  | None => match spans with [] => true | _ => false end
  end.

Definition tn_value (sp : ospan) (k : key) (v : value) : bool :=
  match sp with
  | Some (a, b) => kspan_in a b k && osp_in a b (value_span v)
  | None => true
  end && vnest v.

Fixpoint tnest (t : tbl) : bool :=
  match t with
  | Tbl items _ _ dt _ sp =>
    (negb dt || negb (ospan_none sp))
    && forallb (fun kv =>
               match snd kv with
               | INone => true
               | IValue v => tn_value sp (fst kv) v
               | ITable sub => tnest sub
               | IAot ts asp =>
                 aot_nest (map t_span ts) asp && forallb (fun e => negb (t_dotted e)) ts && forallb tnest ts
               end) items
  end.

(* the stronger reading "a table made of a dotted key lies inside the span of its parent in the tree" is
   false (Props/C14spans.v C14_dotted_table_inside_parent_refuted) *)
Fixpoint dotted_inside (t : tbl) : bool :=
  match t with
  | Tbl items _ _ _ _ sp =>
    forallb (fun kv =>
               match snd kv with
               | ITable sub =>
                 (if t_dotted sub
                  then match sp with Some (a, b) => osp_in a b (t_span sub) | None => true end
                  else true) && dotted_inside sub
               | IAot ts _ => forallb dotted_inside ts
               | _ => true
               end) items
  end.

(* ---- no span left ---------------------------------------------------------------------------------- *)
Definition raw_nospan (r : raw) : bool := match r with RSpanned _ _ => false | _ => true end.
Definition oraw_nospan (o : option raw) : bool := match o with Some r => raw_nospan r | None => true end.
Definition decor_nospan (d : decor) : bool := oraw_nospan (d_prefix d) && oraw_nospan (d_suffix d).
Definition key_nospan (k : key) : bool :=
  oraw_nospan (k_repr k) && decor_nospan (k_leaf k) && decor_nospan (k_dotted k).

Fixpoint value_nospan (v : value) : bool :=
  match v with
  | VScalar _ r d => oraw_nospan r && decor_nospan d
  | VArray vals tr _ d sp => forallb item_nospan vals && raw_nospan tr && decor_nospan d && ospan_none sp
  | VInline items pre _ _ d sp =>
    forallb (fun kv => key_nospan (fst kv) && item_nospan (snd kv)) items
    && raw_nospan pre && decor_nospan d && ospan_none sp
  end
with item_nospan (it : item) : bool :=
  match it with
  | INone => true
  | IValue v => value_nospan v
  | ITable t => tbl_nospan t
  | IAot ts sp => forallb tbl_nospan ts && ospan_none sp
  end
with tbl_nospan (t : tbl) : bool :=
  match t with
  | Tbl items d _ _ _ sp =>
    forallb (fun kv => key_nospan (fst kv) && item_nospan (snd kv)) items && decor_nospan d && ospan_none sp
  end.
