(* Proofs/EditRefine.v — property C08, the decoded-content half: every applicable operation of
   Model/Edit.v does to the content (`abs`) of the document exactly what Spec/EditSpec.v says.
   One lemma per operation (`*_sim`), one for walking a path (`at_path_sim`), then the step and
   history theorems. *)
From TV Require Import Base.Prelude Gen.Consts Spec.Ordered Model.Datetime Model.Numbers Model.Tree.
From TV Require Import Spec.EditSpec Model.Edit Proofs.ContainersOrder Proofs.EditRefineBase.
From Coq Require Import Sorting.Permutation Lia.

(* ==================================================================================== *)
(** * Induction over value / item / tbl, and over payloads *)
Section TreeInd.
  Variables (Pv : value -> Prop) (Pi : item -> Prop) (Pt : tbl -> Prop).
  Hypothesis Hscalar : forall s r d, Pv (VScalar s r d).
  Hypothesis Harray : forall vals tr c d sp, Forall Pi vals -> Pv (VArray vals tr c d sp).
  Hypothesis Hinline : forall items pre im dt d sp,
      Forall (fun kv => Pi (snd kv)) items -> Pv (VInline items pre im dt d sp).
  Hypothesis Hnone : Pi INone.
  Hypothesis Hvalue : forall v, Pv v -> Pi (IValue v).
  Hypothesis Htable : forall t, Pt t -> Pi (ITable t).
  Hypothesis Haot : forall ts sp, Forall Pt ts -> Pi (IAot ts sp).
  Hypothesis Htbl : forall items d im dt p sp,
      Forall (fun kv => Pi (snd kv)) items -> Pt (Tbl items d im dt p sp).

  Fixpoint value_ind4 (v : value) : Pv v :=
    match v with
    | VScalar s r d => Hscalar s r d
    | VArray vals tr c d sp =>
      Harray vals tr c d sp
             ((fix go (l : list item) : Forall Pi l :=
                 match l with
                 | [] => Forall_nil _
                 | x :: tl => Forall_cons x (item_ind4 x) (go tl)
                 end) vals)
    | VInline items pre im dt d sp =>
      Hinline items pre im dt d sp
              ((fix go (l : kvs) : Forall (fun kv => Pi (snd kv)) l :=
                  match l with
                  | [] => Forall_nil _
                  | kv :: tl =>
                    Forall_cons kv (match kv as kv0 return Pi (snd kv0) with (k, i) => item_ind4 i end) (go tl)
                  end) items)
    end
  with item_ind4 (i : item) : Pi i :=
    match i with
    | INone => Hnone
    | IValue v => Hvalue v (value_ind4 v)
    | ITable t => Htable t (tbl_ind4 t)
    | IAot ts sp =>
      Haot ts sp
           ((fix go (l : list tbl) : Forall Pt l :=
               match l with
               | [] => Forall_nil _
               | x :: tl => Forall_cons x (tbl_ind4 x) (go tl)
               end) ts)
    end
  with tbl_ind4 (t : tbl) : Pt t :=
    match t with
    | Tbl items d im dt p sp =>
      Htbl items d im dt p sp
           ((fix go (l : kvs) : Forall (fun kv => Pi (snd kv)) l :=
               match l with
               | [] => Forall_nil _
               | kv :: tl =>
                 Forall_cons kv (match kv as kv0 return Pi (snd kv0) with (k, i) => item_ind4 i end) (go tl)
               end) items)
    end.
End TreeInd.

Lemma pv_ind2 (P : pv -> Prop) :
  (forall z, P (PVInt z)) -> (forall s, P (PVStr s)) -> (forall b, P (PVBool b)) ->
  (forall l, Forall P l -> P (PVArr l)) ->
  (forall l, Forall (fun kv => P (snd kv)) l -> P (PVInl l)) ->
  forall v, P v.
Proof.
  intros Hi Hs Hb Ha Hm.
  exact (fix rec (v : pv) : P v :=
           match v with
           | PVInt z => Hi z
           | PVStr s => Hs s
           | PVBool b => Hb b
           | PVArr l => Ha l ((fix go (l : list pv) : Forall P l :=
                                 match l with
                                 | [] => Forall_nil _
                                 | x :: tl => Forall_cons x (rec x) (go tl)
                                 end) l)
           | PVInl l => Hm l ((fix go (l : list (bytes * pv)) : Forall (fun kv => P (snd kv)) l :=
                                 match l with
                                 | [] => Forall_nil _
                                 | kv :: tl =>
                                   Forall_cons kv (match kv as kv0 return P (snd kv0) with (k, x) => rec x end) (go tl)
                                 end) l)
           end).
Qed.

(* ==================================================================================== *)
(** * Values built through the API *)

Lemma absl_fold_insert (l : list (key * item)) acc :
  absl (fold_left (fun a kv => kv_insert a (fst kv) (snd kv)) l acc)
  = fold_left (fun a kv => e_put (fst kv) (snd kv) a) (map abskv l) (absl acc).
Proof.
  revert acc. induction l as [|[k i] l IH]; intro acc; simpl; [reflexivity|].
  rewrite IH, absl_kv_insert. reflexivity.
Qed.

Lemma build_value_abs v : abs_value (build_value v) = pv_plain v.
Proof.
  induction v as [z|s|b|l IH|l IH] using pv_ind2; try reflexivity.
  - simpl. f_equal. rewrite map_map. apply map_ext_in. intros x Hx.
    rewrite Forall_forall in IH. simpl. apply IH. exact Hx.
  - simpl. f_equal. change (map (fun kv : key * item => let (k, i) := kv in (k_key k, abs_item i))) with absl.
    rewrite absl_fold_insert. unfold e_of_list. simpl. f_equal.
    rewrite map_map. apply map_ext_in. intros [k x] Hx. simpl.
    rewrite Forall_forall in IH. f_equal. apply (IH (k, x) Hx).
Qed.

Lemma build_item_abs x : abs_item (build_item x) = ipay_plain x.
Proof. destruct x; simpl; [apply build_value_abs|reflexivity]. Qed.

Lemma value_decorate_abs v p s : abs_value (value_decorate v p s) = abs_value v.
Proof. destruct v; reflexivity. Qed.
Lemma value_set_decor_abs v d : abs_value (value_set_decor v d) = abs_value v.
Proof. destruct v; reflexivity. Qed.
Lemma value_clear_decor_abs v : abs_value (value_clear_decor v) = abs_value v.
Proof. destruct v; reflexivity. Qed.
Lemma value_op_decorate_abs vals v : abs_value (value_op_decorate vals v) = abs_value v.
Proof. destruct vals; apply value_decorate_abs. Qed.

(* ==================================================================================== *)
(** * One lemma per operation: what it does at its node *)

Definition sim (f : item -> option item) (g : plain -> plain) : Prop :=
  forall i i', f i = Some i' -> abs_item i' = g (abs_item i).

Lemma op_insert_sim k v : sim (op_insert k v) (on_tab (e_put k (pv_plain v))).
Proof.
  intros i i' H. destruct i as [|[| |items pre im dt d sp]|[items d im dt p sp]|]; simpl in H; try discriminate;
    injection H as <-; simpl; change (map (fun kv : key * item => let (k, i) := kv in (k_key k, abs_item i))) with absl;
    rewrite absl_items_insert; simpl; rewrite build_value_abs; reflexivity.
Qed.

Lemma op_insert_item_sim k x : sim (op_insert_item k x) (on_std_tab (e_put k (abs_item x))).
Proof.
  intros i i' H. destruct i as [| |[items d im dt p sp]|]; simpl in H; try discriminate.
  injection H as <-. simpl. change (map (fun kv : key * item => let (k, i) := kv in (k_key k, abs_item i))) with absl.
  rewrite absl_items_insert. reflexivity.
Qed.

Lemma op_remove_sim k : sim (op_remove k) (on_tab (e_del k)).
Proof.
  intros i i' H. destruct i as [|[| |items pre im dt d sp]|[items d im dt p sp]|]; simpl in H; try discriminate;
    injection H as <-; simpl; change (map (fun kv : key * item => let (k, i) := kv in (k_key k, abs_item i))) with absl;
    rewrite absl_remove, e_del_rec; reflexivity.
Qed.

Lemma op_arr_push_sim v : sim (op_arr_push v) (on_arr false (fun l => l ++ [pv_plain v])).
Proof.
  intros i i' H. destruct i as [|[|vals tr c d sp|]| |]; simpl in H; try discriminate.
  injection H as <-. simpl. rewrite map_app. simpl. rewrite value_op_decorate_abs, build_value_abs. reflexivity.
Qed.

Lemma op_arr_insert_sim n v : sim (op_arr_insert n v) (on_arr false (v_ins n (pv_plain v))).
Proof.
  intros i i' H. destruct i as [|[|vals tr c d sp|]| |]; simpl in H; try discriminate.
  destruct (vec_insert n _ vals) as [vals'|] eqn:E; simpl in H; [|discriminate]. injection H as <-.
  simpl. rewrite (map_vec_insert abs_item _ _ _ _ E). simpl.
  rewrite value_op_decorate_abs, build_value_abs. reflexivity.
Qed.

Lemma op_arr_replace_sim n v : sim (op_arr_replace n v) (on_arr false (v_upd n (fun _ => pv_plain v))).
Proof.
  intros i i' H. destruct i as [|[|vals tr c d sp|]| |]; simpl in H; try discriminate.
  destruct (nth_upd n _ vals) as [vals'|] eqn:E; simpl in H; [|discriminate]. injection H as <-.
  simpl. rewrite v_upd_rec. f_equal.
  eapply map_nth_upd; [exact E|].
  intros x x' Hx. destruct x as [|ov| |]; try discriminate. injection Hx as <-.
  simpl. rewrite value_set_decor_abs, build_value_abs. reflexivity.
Qed.

Lemma op_arr_remove_sim n : sim (op_arr_remove n) (on_arr false (v_del n)).
Proof.
  intros i i' H. destruct i as [|[|vals tr c d sp|]| |]; simpl in H; try discriminate.
  destruct (vec_remove n vals) as [[y vals']|] eqn:E; [|discriminate].
  destruct y; try discriminate. injection H as <-.
  simpl. rewrite v_del_rec. f_equal. eapply map_vec_remove. exact E.
Qed.

Lemma op_aot_push_sim : sim op_aot_push (on_arr true (fun l => l ++ [PTab false false []])).
Proof.
  intros i i' H. destruct i as [| | |ts sp]; simpl in H; try discriminate.
  injection H as <-. simpl. rewrite map_app. reflexivity.
Qed.

Lemma op_aot_remove_sim n : sim (op_aot_remove n) (on_arr true (v_del n)).
Proof.
  intros i i' H. destruct i as [| | |ts sp]; simpl in H; try discriminate.
  destruct (vec_remove n ts) as [[y ts']|] eqn:E; simpl in H; [|discriminate]. injection H as <-.
  simpl. rewrite v_del_rec. f_equal. eapply map_vec_remove. exact E.
Qed.

(* -- fmt: no change of content -- *)
Lemma decorate_items_absl m : absl (decorate_items m) = absl m.
Proof.
  unfold decorate_items, absl. rewrite map_map. apply map_ext. intros [k i].
  destruct i as [|v| |]; try reflexivity. simpl. rewrite value_clear_decor_abs. reflexivity.
Qed.
Lemma decorate_elems_abs first l : map abs_item (decorate_elems first l) = map abs_item l.
Proof.
  revert first. induction l as [|x l IH]; intro first; simpl; [reflexivity|].
  destruct x as [|v| |]; simpl; rewrite IH; try reflexivity.
  rewrite value_decorate_abs. reflexivity.
Qed.
Lemma array_fmt_abs v : abs_value (array_fmt v) = abs_value v.
Proof. destruct v; try reflexivity. simpl. rewrite decorate_elems_abs. reflexivity. Qed.

Lemma op_fmt_sim : sim op_fmt (fun x => x).
Proof.
  intros i i' H. destruct i as [|[|vals tr c d sp|items pre im dt d sp]|[items d im dt p sp]|]; simpl in H; try discriminate;
    injection H as <-.
  - simpl. rewrite decorate_elems_abs. reflexivity.
  - simpl. change (map (fun kv : key * item => let (k, i) := kv in (k_key k, abs_item i))) with absl.
    rewrite decorate_items_absl. reflexivity.
  - simpl. change (map (fun kv : key * item => let (k, i) := kv in (k_key k, abs_item i))) with absl.
    rewrite decorate_items_absl. reflexivity.
Qed.

(* -- sort -- *)
Definition sort_child (il : bool) (kv : bytes * plain) : bytes * plain :=
  match kv with
  | (k, c) => (k, match c with
                  | PTab il' true _ => if Bool.eqb il il' then spec_sort c else c
                  | _ => c
                  end)
  end.
Lemma spec_sort_tab il d l : spec_sort (PTab il d l) = PTab il d (e_sort (map (sort_child il) l)).
Proof. reflexivity. Qed.

Lemma sort_values_abs :
  (forall v, abs_value (inline_sort_values v) = spec_sort (abs_value v)) /\
  (forall t, abs_tbl (tbl_sort_values t) = spec_sort (abs_tbl t)).
Proof.
  pose (Pv := fun v => abs_value (inline_sort_values v) = spec_sort (abs_value v)).
  pose (Pt := fun t => abs_tbl (tbl_sort_values t) = spec_sort (abs_tbl t)).
  pose (Pi := fun i => match i with IValue v => Pv v | ITable t => Pt t | _ => True end).
  assert (Hv : forall v, Pv v).
  { apply (value_ind4 Pv Pi Pt); unfold Pv, Pt, Pi; try (intros; exact I); try (intros; assumption); try reflexivity.
    - (* inline *)
      intros items pre im dt d sp IH. simpl inline_sort_values.
      rewrite !abs_inline_eq, spec_sort_tab, absl_sort_keys. f_equal. f_equal.
      unfold absl. rewrite !map_map. apply map_ext_in. intros [k i] Hin.
      rewrite Forall_forall in IH. specialize (IH _ Hin). simpl in IH.
      destruct i as [|[s r d0|vals tr c d0 sp0|items0 pre0 im0 dt0 d0 sp0]|[items0 d0 im0 dt0 p0 sp0]|]; try reflexivity.
      + destruct dt0; [|reflexivity]. simpl. f_equal. exact IH.
      + destruct dt0; reflexivity.
    - (* table *)
      intros items d im dt p sp IH. simpl tbl_sort_values.
      rewrite !abs_tbl_eq, spec_sort_tab, absl_sort_keys. f_equal. f_equal.
      unfold absl. rewrite !map_map. apply map_ext_in. intros [k i] Hin.
      rewrite Forall_forall in IH. specialize (IH _ Hin). simpl in IH.
      destruct i as [|[s r d0|vals tr c d0 sp0|items0 pre0 im0 dt0 d0 sp0]|[items0 d0 im0 dt0 p0 sp0]|]; try reflexivity.
      + destruct dt0; reflexivity.
      + destruct dt0; [|reflexivity]. simpl. f_equal. exact IH. }
  split; [exact Hv|].
  apply (tbl_ind4 Pv Pi Pt); unfold Pv, Pt, Pi; try (intros; exact I); try (intros; assumption); try reflexivity.
  - intros items pre im dt d sp IH. apply (Hv (VInline items pre im dt d sp)).
  - intros items d im dt p sp IH. simpl tbl_sort_values.
    rewrite !abs_tbl_eq, spec_sort_tab, absl_sort_keys. f_equal. f_equal.
    unfold absl. rewrite !map_map. apply map_ext_in. intros [k i] Hin.
    rewrite Forall_forall in IH. specialize (IH _ Hin). simpl in IH.
    destruct i as [|[s r d0|vals tr c d0 sp0|items0 pre0 im0 dt0 d0 sp0]|[items0 d0 im0 dt0 p0 sp0]|]; try reflexivity.
    + destruct dt0; reflexivity.
    + destruct dt0; [|reflexivity]. simpl. f_equal. exact IH.
Qed.

Lemma op_sort_sim : sim op_sort spec_sort.
Proof.
  intros i i' H. destruct i as [|[| |items pre im dt d sp]|t|]; simpl in H; try discriminate; injection H as <-.
  - apply (proj1 sort_values_abs (VInline items pre im dt d sp)).
  - apply (proj2 sort_values_abs t).
Qed.

(* -- sort_by -- *)
Definition sort_by_child (cm : scmp) (il : bool) (kv : bytes * plain) : bytes * plain :=
  match kv with
  | (k, c) => (k, match c with
                  | PTab il' true _ => if Bool.eqb il il' then spec_sort_by cm c else c
                  | _ => c
                  end)
  end.
Lemma spec_sort_by_tab cm il d l :
  spec_sort_by cm (PTab il d l) = PTab il d (stable_sort (scmp_le cm il) (map (sort_by_child cm il) l)).
Proof. reflexivity. Qed.

Lemma sort_by_abs cm :
  (forall v, abs_value (inline_sort_by cm v) = spec_sort_by cm (abs_value v)) /\
  (forall t, abs_tbl (tbl_sort_by cm t) = spec_sort_by cm (abs_tbl t)).
Proof.
  pose (Pv := fun v => abs_value (inline_sort_by cm v) = spec_sort_by cm (abs_value v)).
  pose (Pt := fun t => abs_tbl (tbl_sort_by cm t) = spec_sort_by cm (abs_tbl t)).
  pose (Pi := fun i => match i with IValue v => Pv v | ITable t => Pt t | _ => True end).
  assert (Hinl : forall items pre im dt d sp,
             Forall (fun kv => Pi (snd kv)) items -> Pv (VInline items pre im dt d sp)).
  { intros items pre im dt d sp IH. unfold Pv. simpl inline_sort_by.
    rewrite !abs_inline_eq, spec_sort_by_tab, (absl_sort_by _ _ _ (icmp_le_abs cm)). f_equal. f_equal.
    unfold absl. rewrite !map_map. apply map_ext_in. intros [k i] Hin.
    rewrite Forall_forall in IH. specialize (IH _ Hin). simpl in IH.
    destruct i as [|[s r d0|vals tr c d0 sp0|items0 pre0 im0 dt0 d0 sp0]|[items0 d0 im0 dt0 p0 sp0]|]; try reflexivity.
    + destruct dt0; [|reflexivity]. simpl. f_equal. exact IH.
    + destruct dt0; reflexivity. }
  assert (Htb : forall items d im dt p sp,
             Forall (fun kv => Pi (snd kv)) items -> Pt (Tbl items d im dt p sp)).
  { intros items d im dt p sp IH. unfold Pt. simpl tbl_sort_by.
    rewrite !abs_tbl_eq, spec_sort_by_tab, (absl_sort_by _ _ _ (tcmp_le_abs cm)). f_equal. f_equal.
    unfold absl. rewrite !map_map. apply map_ext_in. intros [k i] Hin.
    rewrite Forall_forall in IH. specialize (IH _ Hin). simpl in IH.
    destruct i as [|[s r d0|vals tr c d0 sp0|items0 pre0 im0 dt0 d0 sp0]|[items0 d0 im0 dt0 p0 sp0]|]; try reflexivity.
    + destruct dt0; reflexivity.
    + destruct dt0; [|reflexivity]. simpl. f_equal. exact IH. }
  split.
  - apply (value_ind4 Pv Pi Pt); unfold Pi; try (intros; exact I); try (intros; assumption); try exact Hinl; try exact Htb;
      unfold Pv; reflexivity.
  - apply (tbl_ind4 Pv Pi Pt); unfold Pi; try (intros; exact I); try (intros; assumption); try exact Hinl; try exact Htb;
      unfold Pv; reflexivity.
Qed.

Lemma op_sort_by_sim cm : sim (op_sort_by cm) (spec_sort_by cm).
Proof.
  intros i i' H. destruct i as [|[| |items pre im dt d sp]|t|]; unfold op_sort_by in H; try discriminate.
  - destruct (inline_is_map (VInline items pre im dt d sp)); [|discriminate]. injection H as <-.
    apply (proj1 (sort_by_abs cm) (VInline items pre im dt d sp)).
  - destruct (tbl_is_map t); [|discriminate]. injection H as <-. apply (proj2 (sort_by_abs cm) t).
Qed.

(* -- conversions -- *)
Lemma make_value_abs :
  (forall i, abs_item (make_value i) = spec_make_value (abs_item i)) /\
  (forall t, abs_value (tbl_into_inline t) = spec_make_value (abs_tbl t)).
Proof.
  pose (Pi := fun i => abs_item (make_value i) = spec_make_value (abs_item i)).
  pose (Pt := fun t => abs_value (tbl_into_inline t) = spec_make_value (abs_tbl t)).
  pose (Pv := fun v : value => spec_make_value (abs_value v) = abs_value v).
  assert (Hv : forall v, Pv v) by (intros [| |]; reflexivity).
  assert (Htb : forall items d im dt p sp,
             Forall (fun kv => Pi (snd kv)) items -> Pt (Tbl items d im dt p sp)).
  { intros items d im dt p sp IH. unfold Pt. simpl tbl_into_inline. unfold inline_with_pairs_fmt.
    rewrite abs_inline_eq, decorate_items_absl, abs_tbl_eq. simpl. f_equal.
    unfold absl. rewrite !map_map. apply map_ext_in. intros [k i] Hin.
    rewrite Forall_forall in IH. specialize (IH _ Hin). simpl in *. rewrite IH. reflexivity. }
  assert (Hi : forall i, Pi i).
  { apply (item_ind4 Pv Pi Pt); unfold Pv, Pi; try reflexivity; try (intros; apply Hv).
    - intros v _. simpl. symmetry. apply Hv.
    - intros t IH. exact IH.
    - intros ts sp IH. cbn [make_value abs_item]. unfold array_with_vec_fmt. rewrite array_fmt_abs. simpl. f_equal.
      rewrite !map_map. apply map_ext_in. intros t Hin. rewrite Forall_forall in IH. apply (IH _ Hin).
    - exact Htb. }
  split; [exact Hi|].
  intros [items d im dt p sp]. apply Htb. rewrite Forall_forall. intros kv _. apply Hi.
Qed.

Lemma into_table_slot_abs i : abs_item (into_table_slot i) = spec_into_table (abs_item i).
Proof.
  destruct i as [|[s r d|vals tr c d sp|items pre im dt d sp]|[items d im dt p sp]|ts sp]; try reflexivity.
  simpl. change (map (fun kv : key * item => let (k, i) := kv in (k_key k, abs_item i))) with absl.
  rewrite decorate_items_absl. reflexivity.
Qed.

Lemma is_inline_item_abs i : is_inline_tab (abs_item i) = is_inline_item i.
Proof. destruct i as [|[| |]|[? ? ? ? ? ?]|]; reflexivity. Qed.

Lemma into_aot_elems vals :
  forallb is_inline_item vals = true ->
  map abs_tbl (flat_map (fun e => match e with
                                  | IValue (VInline items _ _ _ _ _) => [inline_into_table items]
                                  | _ => []
                                  end) vals)
  = map spec_into_table (map abs_item vals).
Proof.
  induction vals as [|x vals IH]; intro H; [reflexivity|].
  simpl in H. apply andb_true_iff in H as [Hx Hr].
  destruct x as [|[| |items pre im dt d sp]| |]; try discriminate.
  simpl. rewrite (IH Hr). f_equal.
  change (map (fun kv : key * item => let (k, i) := kv in (k_key k, abs_item i))) with absl.
  rewrite decorate_items_absl. reflexivity.
Qed.

Lemma forallb_inline_abs l : forallb is_inline_tab (map abs_item l) = forallb is_inline_item l.
Proof. induction l as [|y l IH]; simpl; [reflexivity|]. rewrite is_inline_item_abs, IH. reflexivity. Qed.

Lemma into_aot_slot_abs i : abs_item (into_aot_slot i) = spec_into_aot (abs_item i).
Proof.
  destruct i as [|[s r d|vals tr c d sp|items pre im dt d sp]|[items d im dt p sp]|ts sp]; try reflexivity.
  destruct vals as [|x vals]; [reflexivity|].
  unfold into_aot_slot. cbn [abs_item abs_value]. unfold spec_into_aot.
  remember (x :: vals) as l eqn:El.
  rewrite forallb_inline_abs.
  assert (Hm : map abs_item l = abs_item x :: map abs_item vals) by (rewrite El; reflexivity).
  rewrite Hm at 1.
  destruct (forallb is_inline_item l) eqn:F.
  - cbn [abs_item]. rewrite (into_aot_elems l F). rewrite El. reflexivity.
  - rewrite El. reflexivity.
Qed.

Lemma op_slot_sim k conv g :
  (forall i, abs_item (conv i) = g (abs_item i)) ->
  sim (op_slot k (fun i => Some (conv i))) (on_std_tab (e_upd k g)).
Proof.
  intros Hc i i' H. destruct i as [| |[items d im dt p sp]|]; simpl in H; try discriminate.
  destruct (kv_upd k _ items) as [items'|] eqn:E; simpl in H; [|discriminate]. injection H as <-.
  simpl. change (map (fun kv : key * item => let (k, i) := kv in (k_key k, abs_item i))) with absl.
  rewrite e_upd_rec. f_equal.
  eapply absl_kv_upd; [exact E|].
  intros x x' Hx. cbv beta in Hx. destruct (item_is_none x); [discriminate|]. injection Hx as <-. apply Hc.
Qed.

(* -- IndexMut -- *)
Lemma kv_get_push_self m k v : kv_get m k = None -> kv_set (kv_push m (key_new k) INone) k v = kv_push m (key_new k) v.
Proof.
  unfold kv_push. induction m as [|[k' v'] m IH]; simpl; intro H.
  - rewrite bytes_eqb_refl. reflexivity.
  - destruct (bytes_eqb (k_key k') k); [discriminate|]. rewrite (IH H). reflexivity.
Qed.

Lemma iset_entries items k slot' x ks :
  (forall it it', iset ks x it = Some it' -> abs_item it' = spec_iset ks (abs_item x) (abs_item it)) ->
  iset ks x (snd (entry_or_none items k)) = Some slot' ->
  absl (kv_set (fst (entry_or_none items k)) k slot')
  = e_put k (spec_iset ks (abs_item x)
                       (match e_get k (e_forget k (absl items)) with Some c => c | None => PNone end)) (absl items).
Proof.
  intros IH H. unfold entry_or_none in *. rewrite e_put_rec, e_get_rec, e_forget_rec, <- absl_purge, absl_get.
  destruct (kv_get (kv_purge items k) k) as [[k' i]|] eqn:G; simpl in *.
  - rewrite absl_set. rewrite (IH _ _ H). reflexivity.
  - rewrite (kv_get_push_self _ _ _ G), absl_push. simpl. rewrite (IH _ _ H). reflexivity.
Qed.

Lemma iset_sim ks x : forall it it',
  iset ks x it = Some it' -> abs_item it' = spec_iset ks (abs_item x) (abs_item it).
Proof.
  induction ks as [|k ks IH]; intros it it' H; simpl in H.
  - injection H as <-. reflexivity.
  - destruct it as [|[s r d|vals tr c d sp|items pre im dt d sp]|[items d im dt p sp]|ts sp]; try discriminate.
    + (* Item::None: becomes an inline table holding the placeholder *)
      assert (EO : entry_or_none [(key_new k, INone)] k = ([(key_new k, INone)], INone)).
      { unfold entry_or_none, kv_purge. simpl. rewrite ?bytes_eqb_refl. simpl. rewrite ?bytes_eqb_refl. reflexivity. }
      rewrite EO in H.
      destruct (iset ks x INone) as [slot'|] eqn:E; simpl in H; [|discriminate]. injection H as <-.
      simpl. rewrite bytes_eqb_refl. simpl. rewrite (IH _ _ E). reflexivity.
    + (* inline table *)
      destruct (entry_or_none items k) as [m slot] eqn:EO.
      destruct (iset ks x slot) as [slot'|] eqn:E; simpl in H; [|discriminate]. injection H as <-.
      simpl. change (map (fun kv : key * item => let (k, i) := kv in (k_key k, abs_item i))) with absl.
      f_equal. replace m with (fst (entry_or_none items k)) by (rewrite EO; reflexivity).
      apply iset_entries; [exact IH|]. rewrite EO. exact E.
    + (* table *)
      destruct (entry_or_none items k) as [m slot] eqn:EO.
      destruct (iset ks x slot) as [slot'|] eqn:E; simpl in H; [|discriminate]. injection H as <-.
      simpl. change (map (fun kv : key * item => let (k, i) := kv in (k_key k, abs_item i))) with absl.
      f_equal. replace m with (fst (entry_or_none items k)) by (rewrite EO; reflexivity).
      apply iset_entries; [exact IH|]. rewrite EO. exact E.
Qed.

(* ==================================================================================== *)
(** * Walking the path *)

Lemma at_path_sim p f g : sim f g -> sim (at_path p f) (spec_at p g).
Proof.
  intro Hf. induction p as [|s p IH]; [exact Hf|].
  intros it it' H. destruct s as [k|n]; simpl in H.
  - destruct it as [|[s r d|vals tr c d sp|items pre im dt d sp]|[items d im dt pos sp]|ts sp]; try discriminate.
    + destruct (kv_upd k _ items) as [items'|] eqn:E; simpl in H; [|discriminate]. injection H as <-.
      simpl. change (map (fun kv : key * item => let (k, i) := kv in (k_key k, abs_item i))) with absl.
      rewrite e_upd_rec. f_equal. eapply absl_kv_upd; [exact E|].
      intros x x' Hx. cbv beta in Hx. destruct x as [|v| |]; try discriminate.
      destruct (at_path p f (IValue v)) as [[|v'| |]|] eqn:A; try discriminate.
      injection Hx as <-. apply (IH _ _ A).
    + destruct (kv_upd k _ items) as [items'|] eqn:E; simpl in H; [|discriminate]. injection H as <-.
      simpl. change (map (fun kv : key * item => let (k, i) := kv in (k_key k, abs_item i))) with absl.
      rewrite e_upd_rec. f_equal. eapply absl_kv_upd; [exact E|].
      intros x x' Hx. cbv beta in Hx. destruct (item_is_none x); [discriminate|]. apply (IH _ _ Hx).
  - destruct it as [|[s r d|vals tr c d sp|items pre im dt d sp]|[items d im dt pos sp]|ts sp]; try discriminate.
    + destruct (nth_upd n _ vals) as [vals'|] eqn:E; simpl in H; [|discriminate]. injection H as <-.
      simpl. rewrite v_upd_rec. f_equal. eapply map_nth_upd; [exact E|].
      intros x x' Hx. cbv beta in Hx. destruct x as [|v| |]; try discriminate.
      destruct (at_path p f (IValue v)) as [[|v'| |]|] eqn:A; try discriminate.
      injection Hx as <-. apply (IH _ _ A).
    + destruct (nth_upd n _ ts) as [ts'|] eqn:E; simpl in H; [|discriminate]. injection H as <-.
      simpl. rewrite v_upd_rec. f_equal. eapply map_nth_upd; [exact E|].
      intros x x' Hx. cbv beta in Hx.
      destruct (at_path p f (ITable x)) as [[| |t'|]|] eqn:A; simpl in Hx; try discriminate.
      injection Hx as <-. apply (IH _ _ A).
Qed.

Lemma spec_at_id p t : spec_at p (fun x => x) t = t.
Proof.
  revert t. induction p as [|s p IH]; intro t; [reflexivity|].
  destruct s as [k|n]; simpl.
  - destruct t as [| | |il d l]; try reflexivity. f_equal.
    rewrite e_upd_rec. rewrite (r_upd_ext k _ (fun x => x) l IH). apply r_upd_id.
  - destruct t as [| |a l|]; try reflexivity. f_equal.
    rewrite v_upd_rec.
    assert (E : forall (n : nat) (l : list plain), rv_upd n (spec_at p (fun x => x)) l = rv_upd n (fun x => x) l).
    { clear -IH. intros n l. revert n. induction l as [|x l IHl]; intros [|n]; simpl; try reflexivity.
      - rewrite IH. reflexivity.
      - rewrite IHl. reflexivity. }
    rewrite E. apply rv_upd_id.
Qed.

(* ==================================================================================== *)
(** * The step *)

Lemma as_tbl_abs o r : as_tbl o = Some r -> o = Some (ITable r).
Proof. destruct o as [[| |t|]|]; simpl; intro H; try discriminate. injection H as <-. reflexivity. Qed.

Theorem step_content : forall t o t', apply o t = Some t' -> abs t' = spec_apply o (abs t).
Proof.
  intros t o t' H. unfold apply in H.
  destruct (op_fun o) as [p f] eqn:EO. apply as_tbl_abs in H.
  change (abs t') with (abs_item (ITable t')). change (abs t) with (abs_item (ITable t)).
  destruct o as [q k v|q k|q k|q k|q v|q i v|q i v|q i|q|q i|q|q|q k|q k|q k|ks x|q cm];
    simpl in EO; injection EO as <- <-; simpl spec_apply.
  - exact (at_path_sim _ _ _ (op_insert_sim k v) _ _ H).
  - exact (at_path_sim _ _ _ (op_insert_item_sim k (ITable tbl_new)) _ _ H).
  - exact (at_path_sim _ _ _ (op_insert_item_sim k (IAot [tbl_new] None)) _ _ H).
  - exact (at_path_sim _ _ _ (op_remove_sim k) _ _ H).
  - exact (at_path_sim _ _ _ (op_arr_push_sim v) _ _ H).
  - exact (at_path_sim _ _ _ (op_arr_insert_sim i v) _ _ H).
  - exact (at_path_sim _ _ _ (op_arr_replace_sim i v) _ _ H).
  - exact (at_path_sim _ _ _ (op_arr_remove_sim i) _ _ H).
  - exact (at_path_sim _ _ _ op_aot_push_sim _ _ H).
  - exact (at_path_sim _ _ _ (op_aot_remove_sim i) _ _ H).
  - exact (at_path_sim _ _ _ op_sort_sim _ _ H).
  - rewrite <- (spec_at_id q (abs_tbl t)). exact (at_path_sim _ _ _ op_fmt_sim _ _ H).
  - exact (at_path_sim _ _ _ (op_slot_sim k make_value _ (proj1 make_value_abs)) _ _ H).
  - exact (at_path_sim _ _ _ (op_slot_sim k into_table_slot _ into_table_slot_abs) _ _ H).
  - exact (at_path_sim _ _ _ (op_slot_sim k into_aot_slot _ into_aot_slot_abs) _ _ H).
  - simpl in H. destruct ks as [|k ks]; [discriminate|].
    rewrite <- build_item_abs. exact (iset_sim _ _ _ _ H).
  - exact (at_path_sim _ _ _ (op_sort_by_sim cm) _ _ H).
Qed.

(* ==================================================================================== *)
(** * Histories *)

(* the operations of a history that were applicable when their turn came *)
Fixpoint applied_ops (ops : list op) (t : tbl) : list op :=
  match ops with
  | [] => []
  | o :: tl => match apply o t with
               | Some t' => o :: applied_ops tl t'
               | None => applied_ops tl t
               end
  end.

Definition spec_apply_all (ops : list op) (x : plain) : plain := fold_left (fun x o => spec_apply o x) ops x.

Theorem history_content : forall ops t,
  abs (apply_all ops t) = spec_apply_all (applied_ops ops t) (abs t).
Proof.
  induction ops as [|o ops IH]; intro t; [reflexivity|].
  unfold apply_all in *. simpl. unfold apply_skip at 2.
  destruct (apply o t) as [t'|] eqn:E.
  - rewrite IH. unfold spec_apply_all. simpl. rewrite (step_content _ _ _ E). reflexivity.
  - apply IH.
Qed.

(* all operations applicable: the plain fold *)
Fixpoint apply_seq (ops : list op) (t : tbl) : option tbl :=
  match ops with
  | [] => Some t
  | o :: tl => match apply o t with Some t' => apply_seq tl t' | None => None end
  end.

Theorem history_content_all : forall ops t t',
  apply_seq ops t = Some t' -> abs t' = spec_apply_all ops (abs t).
Proof.
  induction ops as [|o ops IH]; intros t t' H; simpl in H.
  - injection H as <-. reflexivity.
  - destruct (apply o t) as [t1|] eqn:E; [|discriminate].
    unfold spec_apply_all. simpl. rewrite <- (step_content _ _ _ E). apply IH. exact H.
Qed.

(* ==================================================================================== *)
(** * Order: `abs` keeps the order of the tree, and the reference functions put entries
      where the API documents them *)

Definition tab_keys (x : plain) : list bytes := match x with PTab _ _ l => map fst l | _ => [] end.

Lemma abs_keeps_order t : tab_keys (abs t) = map (fun kv => k_key (fst kv)) (t_items t).
Proof.
  destruct t as [items d im dt p sp]. simpl. rewrite map_map. apply map_ext. intros [k i]. reflexivity.
Qed.

(* the keys of a list with the first occurrence of k removed *)
Fixpoint del_first (k : bytes) (l : list bytes) : list bytes :=
  match l with
  | [] => []
  | k' :: tl => if bytes_eqb k' k then tl else k' :: del_first k tl
  end.

Lemma r_upd_keys k g l : map fst (r_upd k g l) = map fst l.
Proof.
  induction l as [|[k' v] l IH]; simpl; [reflexivity|].
  destruct (bytes_eqb k' k); simpl; [reflexivity|]. rewrite IH. reflexivity.
Qed.

(* insert: an existing key keeps its position, a new key goes last; nothing else moves *)
Lemma e_put0_keys k x l :
  map fst (e_put0 k x l) = match e_get k l with Some _ => map fst l | None => map fst l ++ [k] end.
Proof.
  rewrite e_put0_rec, e_get_rec. destruct (r_get k l).
  - apply r_upd_keys.
  - rewrite map_app. reflexivity.
Qed.

Lemma r_get_upd_same k g l : r_get k (r_upd k g l) = optmap g (r_get k l).
Proof.
  induction l as [|[k' v] l IH]; simpl; [reflexivity|].
  destruct (bytes_eqb k' k) eqn:E; simpl; rewrite E; [reflexivity|exact IH].
Qed.
Lemma r_get_upd_other k k2 g l : bytes_eqb k2 k = false -> r_get k2 (r_upd k g l) = r_get k2 l.
Proof.
  intro N. induction l as [|[k' v] l IH]; simpl; [reflexivity|].
  destruct (bytes_eqb k' k) eqn:E; simpl.
  - apply bytes_eqb_eq in E. subst k'. rewrite (bytes_eqb_sym k k2), N. reflexivity.
  - destruct (bytes_eqb k' k2); [reflexivity|exact IH].
Qed.
Lemma r_get_app_other k k2 x l : bytes_eqb k2 k = false -> r_get k2 (l ++ [(k, x)]) = r_get k2 l.
Proof.
  intro N. induction l as [|[k' v] l IH]; simpl.
  - rewrite (bytes_eqb_sym k k2), N. reflexivity.
  - destruct (bytes_eqb k' k2); [reflexivity|exact IH].
Qed.
Lemma r_get_app_same k x l : r_get k l = None -> r_get k (l ++ [(k, x)]) = Some x.
Proof.
  induction l as [|[k' v] l IH]; simpl; intro H.
  - rewrite bytes_eqb_refl. reflexivity.
  - destruct (bytes_eqb k' k); [discriminate|]. apply IH. exact H.
Qed.

Lemma e_put0_get_same k x l : e_get k (e_put0 k x l) = Some x.
Proof.
  rewrite e_get_rec, e_put0_rec. destruct (r_get k l) eqn:G.
  - rewrite r_get_upd_same, G. reflexivity.
  - apply r_get_app_same. exact G.
Qed.
Lemma e_put0_get_other k k2 x l : bytes_eqb k2 k = false -> e_get k2 (e_put0 k x l) = e_get k2 l.
Proof.
  intro N. rewrite !e_get_rec, e_put0_rec. destruct (r_get k l).
  - apply r_get_upd_other. exact N.
  - apply r_get_app_other. exact N.
Qed.

(* a key that only holds a placeholder counts as new; otherwise nothing is forgotten *)
Lemma e_put_placeholder k x l : e_get k l = Some PNone -> e_put k x l = e_put0 k x (e_del k l).
Proof. intro H. unfold e_put, e_forget. rewrite H. reflexivity. Qed.
Lemma e_put_plain k x l : e_get k l <> Some PNone -> e_put k x l = e_put0 k x l.
Proof. intro H. unfold e_put, e_forget. destruct (e_get k l) as [[| | |]|]; congruence. Qed.

Lemma e_put_keys k x l : e_get k l <> Some PNone ->
  map fst (e_put k x l) = match e_get k l with Some _ => map fst l | None => map fst l ++ [k] end.
Proof. intro H. rewrite (e_put_plain k x l H). apply e_put0_keys. Qed.
Lemma e_put_get_same k x l : e_get k (e_put k x l) = Some x.
Proof. unfold e_put. apply e_put0_get_same. Qed.
Lemma e_put_get_other k k2 x l : e_get k l <> Some PNone ->
  bytes_eqb k2 k = false -> e_get k2 (e_put k x l) = e_get k2 l.
Proof. intros H N. rewrite (e_put_plain k x l H). apply e_put0_get_other. exact N. Qed.

(* remove: the other entries keep their order and values *)
Lemma e_del_keys k l : map fst (e_del k l) = del_first k (map fst l).
Proof.
  rewrite e_del_rec. induction l as [|[k' v] l IH]; simpl; [reflexivity|].
  destruct (bytes_eqb k' k); simpl; [reflexivity|]. rewrite IH. reflexivity.
Qed.
Lemma e_del_get_other k k2 l : bytes_eqb k2 k = false -> e_get k2 (e_del k l) = e_get k2 l.
Proof.
  intro N. rewrite !e_get_rec, e_del_rec. induction l as [|[k' v] l IH]; simpl; [reflexivity|].
  destruct (bytes_eqb k' k) eqn:E; simpl.
  - apply bytes_eqb_eq in E. subst k'. rewrite (bytes_eqb_sym k k2), N. reflexivity.
  - destruct (bytes_eqb k' k2); [reflexivity|exact IH].
Qed.

(* sort: a permutation of the entries, in ascending key order *)
Lemma kle_trans a b c : kle a b = true -> kle b c = true -> kle a c = true.
Proof. unfold kle. apply key_leb_trans. Qed.
Lemma kle_total a b : kle a b = false -> kle b a = true.
Proof. unfold kle. apply key_leb_total. Qed.

Lemma e_sort_perm l : Permutation (e_sort l) l.
Proof. apply stable_sort_perm. Qed.
Lemma e_sort_sorted l : sorted_by (fun a b => key_leb (fst a) (fst b) = true) (e_sort l).
Proof. apply (stable_sort_sorted kle kle_trans kle_total). Qed.

(* sort_by: a permutation of the entries, in the comparator's order, entries the comparator ties keep their order *)
Lemma rank_le_trans a b c : rank_le a b = true -> rank_le b c = true -> rank_le a c = true.
Proof.
  unfold rank_le. destruct a as [a1 a2], b as [b1 b2], c as [c1 c2]. cbn [fst snd]. intros H1 H2.
  apply orb_true_iff in H1. apply orb_true_iff in H2. apply orb_true_iff.
  rewrite !andb_true_iff, !Nat.ltb_lt, !Nat.eqb_eq, !Z.leb_le in *. lia.
Qed.
Lemma rank_le_total a b : rank_le a b = false -> rank_le b a = true.
Proof.
  unfold rank_le. destruct a as [a1 a2], b as [b1 b2]. cbn [fst snd]. intro H.
  apply orb_false_iff in H as [H1 H2]. apply Nat.ltb_ge in H1. apply orb_true_iff.
  rewrite andb_true_iff, Nat.ltb_lt, Nat.eqb_eq, Z.leb_le.
  apply andb_false_iff in H2. rewrite Nat.eqb_neq, Z.leb_gt in H2. lia.
Qed.
Lemma scmp_base_trans cm a b c : scmp_base cm a b = true -> scmp_base cm b c = true -> scmp_base cm a c = true.
Proof.
  destruct cm; unfold scmp_base.
  - intros H1 H2. exact (key_leb_trans _ _ _ H2 H1).
  - apply rank_le_trans.
Qed.
Lemma scmp_base_total cm a b : scmp_base cm a b = false -> scmp_base cm b a = true.
Proof. destruct cm; unfold scmp_base; [apply key_leb_total|apply rank_le_total]. Qed.
Lemma scmp_le_trans cm il a b c : scmp_le cm il a b = true -> scmp_le cm il b c = true -> scmp_le cm il a c = true.
Proof.
  unfold scmp_le. destruct il; [|apply scmp_base_trans].
  destruct (is_val (snd a)), (is_val (snd b)), (is_val (snd c)); try discriminate; auto. apply scmp_base_trans.
Qed.
Lemma scmp_le_total cm il a b : scmp_le cm il a b = false -> scmp_le cm il b a = true.
Proof.
  unfold scmp_le. destruct il; [|apply scmp_base_total].
  destruct (is_val (snd a)), (is_val (snd b)); try discriminate; auto. apply scmp_base_total.
Qed.

Lemma sort_by_perm cm il l : Permutation (stable_sort (scmp_le cm il) l) l.
Proof. apply stable_sort_perm. Qed.
Lemma sort_by_sorted cm il l : sorted_by (fun a b => scmp_le cm il a b = true) (stable_sort (scmp_le cm il) l).
Proof. apply (stable_sort_sorted (scmp_le cm il) (scmp_le_trans cm il) (scmp_le_total cm il)). Qed.

(* stability, for any "less or equal" test: a class of entries that are pairwise tied keeps its order *)
Lemma sorted_insert_filter {A} (le : A -> A -> bool) (p : A -> bool) x l :
  (forall y, In y l -> p x = true -> p y = true -> le x y = true) ->
  filter p (sorted_insert le x l) = filter p (x :: l).
Proof.
  induction l as [|y l IH]; intro H; [reflexivity|]. cbn [sorted_insert].
  destruct (le x y) eqn:E; [reflexivity|].
  cbn [filter]. rewrite IH by (intros z Hz; apply H; right; exact Hz). cbn [filter].
  destruct (p x) eqn:Px, (p y) eqn:Py; try reflexivity.
  rewrite (H y (or_introl eq_refl) eq_refl Py) in E. discriminate.
Qed.
Lemma stable_sort_stable {A} (le : A -> A -> bool) (p : A -> bool) l :
  (forall a b, p a = true -> p b = true -> le a b = true) ->
  filter p (stable_sort le l) = filter p l.
Proof.
  intro H. induction l as [|x l IH]; [reflexivity|]. cbn [stable_sort fold_right].
  change (fold_right (sorted_insert le) [] l) with (stable_sort le l).
  rewrite sorted_insert_filter by (intros; apply H; assumption). cbn [filter]. rewrite IH. reflexivity.
Qed.

(* vectors *)
Lemma v_ins_spec {A} i (x : A) l : i <= length l ->
  firstn i (v_ins i x l) = firstn i l /\ nth_error (v_ins i x l) i = Some x /\ skipn (S i) (v_ins i x l) = skipn i l.
Proof.
  intro H. unfold v_ins.
  assert (L : length (firstn i l) = i) by (apply firstn_length_le; exact H).
  repeat split.
  - rewrite firstn_app, L, Nat.sub_diag. simpl. rewrite app_nil_r.
    rewrite firstn_firstn, Nat.min_id. reflexivity.
  - rewrite nth_error_app2; rewrite L; [|apply Nat.le_refl]. rewrite Nat.sub_diag. reflexivity.
  - replace (S i) with (length (firstn i l ++ [x])) by (rewrite app_length, L; simpl; lia).
    change (firstn i l ++ x :: skipn i l) with (firstn i l ++ [x] ++ skipn i l).
    rewrite app_assoc, skipn_app, skipn_all, Nat.sub_diag. reflexivity.
Qed.
