(* Proofs/DeLocSpan.v — with source text (every node and key of the tree has a span): the span of a
   deserialization error (Model/DeLoc.v) is the span of the node — or key — the error was raised at,
   through any nesting of structs, maps, sequences, tuples, options, newtypes and enum variants.
   This includes the Date / Time kind check, which is raised outside the wrappers of its own node: it
   gets the node's span from the access that handed the node out (next_value_seed, next_element_seed,
   newtype_variant_seed, deserialize_option / _newtype_struct); only when the date-time is the very
   node de_loc was called on is there no such access.
   Not claimed for KUnmodelled (paths the model does not follow). *)
From TV Require Import Base.Prelude Base.Utf8 Model.Datetime Model.DatetimeStd Model.SerNum Spec.SerdeData Model.De Model.SerdeSpanned.
From TV Require Import Model.DeLoc Proofs.DeLocBase.

Definition claimed (k : ekind) : Prop := k <> KUnmodelled.
Definition located (s : stree) (e : lerr) : Prop :=
  exists sp, e_span e = Some sp /\ locate s (e_at e) (e_onkey e) = Some (Some sp).
(* located *)
Definition linv (s : stree) (e : lerr) : Prop :=
  (e_onkey e = true -> e_at e <> []) /\ (claimed (e_kind e) -> located s e).
(* inside a node, before its wrapper: located already, or still without span and raised here *)
Definition binv (s : stree) (e : lerr) : Prop := linv s e \/ fresh_nospan e.
(* what T::deserialize(node) returns: located, or the kind check of a Date / Time at this very node *)
Definition ninv (s : stree) (e : lerr) : Prop :=
  linv s e \/ (fresh_nospan e /\ (e_kind e = KDtKind \/ e_kind e = KUnmodelled)).

Lemma B_of_ninv {A} s (r : lres A) : errs (ninv s) r -> errs (binv s) r.
Proof. intro H. eapply errs_impl; [exact H|]. intros e [L|[F _]]; [left; exact L|right; exact F]. Qed.
Lemma N_of_linv {A} s (r : lres A) : errs (linv s) r -> errs (ninv s) r.
Proof. intro H. eapply errs_impl; [exact H|]. intros e L. left. exact L. Qed.

Lemma B_of_fresh {A} s (r : lres A) : errs fresh_nospan r -> errs (binv s) r.
Proof. intro H. eapply errs_impl; [exact H|]. intros e F. right. exact F. Qed.
Lemma B_of_linv {A} s (r : lres A) : errs (linv s) r -> errs (binv s) r.
Proof. intro H. eapply errs_impl; [exact H|]. intros e F. left. exact F. Qed.

Lemma has_span_some o : has_span o = true -> exists sp, o = Some sp.
Proof. destruct o; [eauto|discriminate]. Qed.

Lemma L_wrap {A} s (r : lres A) :
  has_span (span_of s) = true -> errs (binv s) r -> errs (linv s) (wrap (span_of s) r).
Proof.
  intros Hs H. apply has_span_some in Hs as [sp Hs]. unfold wrap. eapply errs_map_err; [exact H|].
  intros e [[O L]|[(K & P & O) N]].
  - destruct (e_span e) eqn:E; [split; assumption|].
    split; [exact O|]. intro C. destruct (L C) as (sp' & E' & _). cbn in E'. congruence.
  - rewrite N. unfold linv, located, set_span. cbn [e_onkey e_at e_kind e_span]. rewrite P, O.
    split; [discriminate|]. intros _. exists sp. cbn [locate]. rewrite Hs. split; reflexivity.
Qed.

Lemma L_raise_at_here {A} s k : has_span (span_of s) = true -> errs (linv s) (@raise_at A k (span_of s)).
Proof.
  intro Hs. apply has_span_some in Hs as [sp Hs]. unfold raise_at. cbn [errs]. unfold linv, located. cbn [e_kind e_span e_at e_onkey locate].
  split; [discriminate|]. intros _. exists sp. rewrite Hs. split; reflexivity.
Qed.

Lemma locate_key sp es i e p o :
  nth_error es i = Some e -> (o = true -> p <> []) ->
  locate (NTab sp es) (SKey i (en_key e) :: p) o = locate (en_val e) p o.
Proof.
  intros Hn Ho. cbn [locate]. rewrite Hn, bytes_eqb_refl. destruct p as [|st p']; [|reflexivity].
  destruct o; [exfalso; apply Ho; reflexivity|reflexivity].
Qed.
Lemma locate_pos sp es i e p o :
  nth_error es i = Some e -> (o = true -> p <> []) ->
  locate (NTab sp es) (SPos i (en_key e) :: p) o = locate (en_val e) p o.
Proof.
  intros Hn Ho. cbn [locate]. rewrite Hn, bytes_eqb_refl. destruct p as [|st p']; [|reflexivity].
  destruct o; [exfalso; apply Ho; reflexivity|reflexivity].
Qed.
Lemma locate_var sp e p o :
  (o = true -> p <> []) -> locate (NTab sp [e]) (SVar (en_key e) :: p) o = locate (en_val e) p o.
Proof.
  intros Ho. cbn [locate]. rewrite bytes_eqb_refl. destruct p as [|st p']; [|reflexivity].
  destruct o; [exfalso; apply Ho; reflexivity|reflexivity].
Qed.

(* next_value_seed on the i-th entry *)
Lemma L_under_key_add {A} sp es i e (r : lres A) :
  nth_error es i = Some e -> errs (linv (en_val e)) r ->
  errs (linv (NTab sp es)) (under (SKey i (en_key e)) (addkey (en_key e) r)).
Proof.
  intros Hn H. destruct r as [a|err]; [exact I|]. destruct H as [O L].
  unfold under, addkey. cbn [map_err errs]. unfold linv, located in *. cbn [e_kind e_span e_at e_onkey].
  split; [discriminate|]. intro C. destruct (L C) as (sp' & E & Loc). exists sp'. split; [exact E|].
  rewrite <- Loc. exact (locate_key sp es i e _ _ Hn O).
Qed.

Lemma L_value_of_entry {A} sp es i e (r : lres A) :
  nth_error es i = Some e -> has_span (span_of (en_val e)) = true ->
  errs (binv (en_val e)) r -> errs (linv (NTab sp es)) (value_of_entry i e r).
Proof.
  intros Hn Hs H. unfold value_of_entry. destruct (has_span_some _ Hs) as [vsp Ev]. rewrite Ev, <- Ev.
  apply L_under_key_add; [exact Hn|]. apply L_wrap; assumption.
Qed.

(* next_key_seed on the i-th entry *)
Lemma L_key_of_entry {A} sp es i e (r : lres A) :
  nth_error es i = Some e -> has_span (en_kspan e) = true ->
  errs fresh_nospan r -> errs (linv (NTab sp es)) (key_of_entry i e r).
Proof.
  intros Hn Hk H. destruct r as [a|err]; [exact I|]. destruct H as [(K & P & O) N].
  apply has_span_some in Hk as [ksp Hk].
  unfold key_of_entry, under, on_key, wrap. cbn [map_err errs]. rewrite N.
  unfold linv, located, set_span. cbn [e_kind e_span e_at e_onkey]. rewrite P, Hk.
  split; [discriminate|]. intros _. exists ksp. split; [reflexivity|].
  cbn [locate]. unfold entry in *. rewrite Hn. rewrite bytes_eqb_refl. rewrite Hk. reflexivity.
Qed.

Lemma L_under_idx {A} sp xs i x (r : lres A) :
  nth_error xs i = Some x -> errs (linv x) r -> errs (linv (NArr sp xs)) (under (SIdx i) r).
Proof.
  intros Hn H. destruct r as [a|err]; [exact I|]. destruct H as [O L]. unfold under. cbn [map_err errs].
  unfold linv, located in *. cbn [e_kind e_span e_at e_onkey].
  split; [discriminate|]. intro C. destruct (L C) as (sp' & E & Loc). exists sp'.
  cbn [locate]. rewrite Hn. split; assumption.
Qed.

Lemma L_under_var {A} sp e (r : lres A) :
  errs (linv (en_val e)) r -> errs (linv (NTab sp [e])) (under (SVar (en_key e)) r).
Proof.
  intro H. destruct r as [a|err]; [exact I|]. destruct H as [O L]. unfold under. cbn [map_err errs].
  unfold linv, located in *. cbn [e_kind e_span e_at e_onkey].
  split; [discriminate|]. intro C. destruct (L C) as (sp' & E & Loc). exists sp'.
  split; [exact E|]. rewrite <- Loc. exact (locate_var sp e _ _ O).
Qed.

Lemma L_under_pos {A} sp es i e (r : lres A) :
  nth_error es i = Some e -> errs (linv (en_val e)) r -> errs (linv (NTab sp es)) (under (SPos i (en_key e)) r).
Proof.
  intros Hn H. destruct r as [a|err]; [exact I|]. destruct H as [O L]. unfold under. cbn [map_err errs].
  unfold linv, located in *. cbn [e_kind e_span e_at e_onkey].
  split; [discriminate|]. intro C. destruct (L C) as (sp' & E & Loc). exists sp'.
  split; [exact E|]. rewrite <- Loc. exact (locate_pos sp es i e _ _ Hn O).
Qed.

(* an error the crate raises at a key, with the key's span *)
Lemma L_at_key {A} (s : stree) (st : step) k ksp :
  locate s [st] true = Some (Some ksp) ->
  errs (linv s) (under st (on_key (@raise_at A k (Some ksp)))).
Proof.
  intro Hl. unfold under, on_key, raise_at. cbn [map_err errs]. unfold linv, located. cbn [e_kind e_span e_at e_onkey].
  split; [discriminate|]. intros _. exists ksp. split; [reflexivity|exact Hl].
Qed.

(* children of a well-spanned node *)
Lemma all_spans_arr sp xs : all_spans (NArr sp xs) = true -> has_span sp = true /\ Forall (fun x => all_spans x = true) xs.
Proof.
  cbn [all_spans span_of]. rewrite andb_true_iff. intros [H1 H2]. split; [exact H1|].
  apply Forall_forall. apply forallb_forall. exact H2.
Qed.
Lemma all_spans_tab sp es :
  all_spans (NTab sp es) = true ->
  has_span sp = true /\ Forall (fun e : entry => has_span (en_kspan e) = true /\ all_spans (en_val e) = true) es.
Proof.
  cbn [all_spans span_of]. rewrite andb_true_iff. intros [H1 H2]. split; [exact H1|].
  apply Forall_forall. intros e Hin. rewrite forallb_forall in H2. specialize (H2 e Hin).
  apply andb_true_iff in H2. exact H2.
Qed.
Lemma all_spans_here s : all_spans s = true -> has_span (span_of s) = true.
Proof. destruct s; cbn [all_spans]; rewrite andb_true_iff; intros [H _]; exact H. Qed.

Definition lok (de : ty -> stree -> lres sval) (t : ty) : Prop :=
  forall x, all_spans x = true -> errs (ninv x) (de t x).

(* an element handed out by ArraySeqAccess / newtype_variant_seed: its errors come back located *)
Lemma L_handed_out de t x : lok de t -> all_spans x = true -> errs (linv x) (wrap (span_of x) (de t x)).
Proof. intros Hde Hx. apply L_wrap; [apply all_spans_here; exact Hx|apply B_of_ninv; apply Hde; exact Hx]. Qed.

Section Visitors.
  Variable de : ty -> stree -> lres sval.

  Lemma L_seq_elems sp t xs : lok de t -> forall pre,
    Forall (fun x => all_spans x = true) xs ->
    errs (linv (NArr sp (pre ++ xs))) (seq_elems de t xs (length pre)).
  Proof.
    intro Hde. induction xs as [|x xs IH]; intros pre F; [exact I|]. inversion F; subst. cbn [seq_elems].
    apply errs_lbind.
    - apply L_under_idx with (x := x); [|apply L_handed_out; assumption].
      rewrite <- (Nat.add_0_r (length pre)). rewrite nth_error_app_skip. reflexivity.
    - intros v _. apply errs_lbind; [|intros vs _; exact I].
      specialize (IH (pre ++ [x])). rewrite <- app_assoc, app_length, Nat.add_1_r in IH. apply IH. assumption.
  Qed.

  (* positional visitors: errors of the children are located; the visitor's own invalid_length is
     still without span *)
  Lemma L_pos_elems {A} (proj : A -> ty) sp l : Forall (fun a => lok de (proj a)) l -> forall xs pre,
    Forall (fun x => all_spans x = true) xs ->
    errs (binv (NArr sp (pre ++ xs))) (pos_elems de proj l xs (length pre)).
  Proof.
    induction l as [|a l IH]; intros Fl xs pre F; [exact I|]. inversion Fl; subst. cbn [pos_elems].
    destruct xs as [|x xs]; [apply B_of_fresh; apply (@fresh_raise (list sval))|]. inversion F; subst.
    apply errs_lbind.
    - apply B_of_linv. apply L_under_idx with (x := x); [|apply L_handed_out; assumption].
      rewrite <- (Nat.add_0_r (length pre)). rewrite nth_error_app_skip. reflexivity.
    - intros v _. apply errs_lbind; [|intros vs _; exact I].
      specialize (IH H2 xs (pre ++ [x])). rewrite <- app_assoc, app_length, Nat.add_1_r in IH. apply IH. assumption.
  Qed.

  (* when the array is long enough the visitor has no error of its own *)
  Lemma L_pos_elems_full {A} (proj : A -> ty) sp l : Forall (fun a => lok de (proj a)) l -> forall xs pre,
    Forall (fun x => all_spans x = true) xs -> length l <= length xs ->
    errs (linv (NArr sp (pre ++ xs))) (pos_elems de proj l xs (length pre)).
  Proof.
    induction l as [|a l IH]; intros Fl xs pre F Len; [exact I|]. inversion Fl; subst. cbn [pos_elems].
    destruct xs as [|x xs]; [cbn in Len; lia|]. inversion F; subst. cbn [length] in Len.
    apply errs_lbind.
    - apply L_under_idx with (x := x); [|apply L_handed_out; assumption].
      rewrite <- (Nat.add_0_r (length pre)). rewrite nth_error_app_skip. reflexivity.
    - intros v _. apply errs_lbind; [|intros vs _; exact I].
      specialize (IH H2 xs (pre ++ [x])). rewrite <- app_assoc, app_length, Nat.add_1_r in IH. apply IH; [assumption|lia].
  Qed.

  Definition entries_ok (es : list entry) : Prop :=
    Forall (fun e : entry => has_span (en_kspan e) = true /\ all_spans (en_val e) = true) es.

  Lemma nth_pre {A} (pre : list A) e es : nth_error (pre ++ e :: es) (length pre) = Some e.
  Proof. rewrite <- (Nat.add_0_r (length pre)). rewrite nth_error_app_skip. reflexivity. Qed.

  Lemma L_map_entries sp kt vt es : lok de vt -> forall pre, entries_ok es ->
    errs (linv (NTab sp (pre ++ es))) (map_entries de kt vt es (length pre)).
  Proof.
    intro Hde. induction es as [|e es IH]; intros pre F; [exact I|]. inversion F as [|? ? [Hk Hv] F']; subst.
    cbn [map_entries]. apply errs_lbind.
    - apply L_key_of_entry; [apply nth_pre|exact Hk|apply fresh_de_key].
    - intros k _. apply errs_lbind.
      + apply L_value_of_entry; [apply nth_pre|apply all_spans_here; exact Hv|apply B_of_ninv; apply Hde; exact Hv].
      + intros v _. apply errs_lbind; [|intros ps _; exact I].
        specialize (IH (pre ++ [e])). rewrite <- app_assoc, app_length, Nat.add_1_r in IH. apply IH. exact F'.
  Qed.

  Lemma L_struct_scan sp fs denied es : Forall (fun ft => lok de (snd ft)) fs -> forall pre seen, entries_ok es ->
    errs (binv (NTab sp (pre ++ es))) (struct_scan de fs denied es (length pre) seen).
  Proof.
    intro Ff. induction es as [|e es IH]; intros pre seen F; [exact I|]. inversion F as [|? ? [Hk Hv] F']; subst.
    cbn [struct_scan].
    assert (IH' : forall seen', errs (binv (NTab sp (pre ++ e :: es))) (struct_scan de fs denied es (S (length pre)) seen')).
    { intro seen'. specialize (IH (pre ++ [e]) seen'). rewrite <- app_assoc, app_length, Nat.add_1_r in IH. apply IH. exact F'. }
    apply find_name_errs.
    - destruct denied; [|apply IH'].
      apply B_of_linv. apply L_key_of_entry; [apply nth_pre|exact Hk|apply (@fresh_raise (list (nat * sval)))].
    - intros j t Hin. rewrite Forall_forall in Ff. specialize (Ff _ Hin). cbn [snd] in Ff.
      destruct (existsb (Nat.eqb j) seen); [apply B_of_fresh; apply (@fresh_raise (list (nat * sval)))|].
      apply errs_lbind.
      + apply B_of_linv. apply L_value_of_entry; [apply nth_pre|apply all_spans_here; exact Hv|apply B_of_ninv; apply Ff; exact Hv].
      + intros v _. apply errs_lbind; [apply IH'|]. intros r _. exact I.
  Qed.

  Lemma B_struct_finish s fs : forall j got, errs (binv s) (struct_finish fs j got).
  Proof.
    induction fs as [|[f t] fs IH]; intros j got; [exact I|]. cbn [struct_finish].
    apply errs_lbind.
    - destruct (assoc_nat j got); [exact I|]. destruct t; try (apply B_of_fresh; apply (@fresh_raise sval)). exact I.
    - intros v _. apply errs_lbind; [apply IH|]. intros vs _. exact I.
  Qed.

  Lemma L_struct_from_table sp fs denied es : Forall (fun ft => lok de (snd ft)) fs -> entries_ok es ->
    errs (binv (NTab sp es)) (struct_from_table de fs denied es).
  Proof.
    intros Ff F. unfold struct_from_table. apply errs_lbind.
    - exact (L_struct_scan sp fs denied es Ff [] [] F).
    - intros got _. apply B_struct_finish.
  Qed.

  (* the components of a tuple variant written as a table *)
  Lemma L_pos_entries sp es ts : Forall (lok de) ts -> forall xs,
    Forall (fun ie : nat * entry => nth_error es (fst ie) = Some (snd ie) /\ all_spans (en_val (snd ie)) = true) xs ->
    length ts <= length xs ->
    errs (linv (NTab sp es)) (pos_entries de ts xs).
  Proof.
    induction ts as [|t ts IH]; intros Ft xs F Len; [exact I|]. inversion Ft; subst. cbn [pos_entries].
    destruct xs as [|[i e] xs]; [cbn in Len; lia|]. inversion F as [|? ? [Hn Hv] F']; subst. cbn [fst snd length] in *.
    apply errs_lbind.
    - apply L_under_pos; [exact Hn|apply L_handed_out; assumption].
    - intros v _. apply errs_lbind; [apply IH; [assumption|assumption|lia]|]. intros vs _. exact I.
  Qed.
End Visitors.

Lemma L_index_entries sp es : forall pre n, entries_ok es ->
  errs (linv (NTab sp (pre ++ es))) (index_entries (length pre) n es) /\
  (forall xs, index_entries (length pre) n es = LOk xs ->
     Forall (fun ie : nat * entry => nth_error (pre ++ es) (fst ie) = Some (snd ie) /\ all_spans (en_val (snd ie)) = true) xs).
Proof.
  induction es as [|e es IH]; intros pre n F.
  - split; [exact I|]. intros xs E. injection E as <-. constructor.
  - inversion F as [|? ? [Hk Hv] F']; subst. cbn [index_entries].
    assert (Hbad : errs (linv (NTab sp (pre ++ e :: es)))
                     (under (SPos (length pre) (en_key e)) (on_key (@raise_at (list (nat * entry)) KOther (en_kspan e))))).
    { destruct (has_span_some _ Hk) as [ksp Eq]. rewrite Eq. apply L_at_key.
      cbn [locate]. rewrite nth_pre, bytes_eqb_refl, Eq. reflexivity. }
    destruct (parse_usize (en_key e)) as [j|]; [|split; [exact Hbad|discriminate]].
    destruct (j =? n)%N; [|split; [exact Hbad|discriminate]].
    specialize (IH (pre ++ [e]) (n + 1)%N F'). rewrite <- app_assoc, app_length, Nat.add_1_r in IH. cbn [app] in IH.
    destruct IH as [H1 H2]. split; [apply errs_lmap; exact H1|].
    intros xs E. destruct (index_entries (S (length pre)) (n + 1) es) as [ys|]; [|discriminate].
    injection E as <-. constructor; [|apply H2; reflexivity]. cbn [fst snd]. split; [apply nth_pre|exact Hv].
Qed.

Lemma L_de_datetime s : all_spans s = true -> errs (linv s) (de_datetime_l s).
Proof.
  intro H. unfold de_datetime_l. destruct s as [sp x|sp xs|sp es].
  - pose proof (all_spans_here _ H) as Hs. cbn [span_of] in Hs.
    destruct x; try (apply (L_wrap (NLeaf sp _)); [exact Hs|apply B_of_fresh; apply (@fresh_raise datetime)]).
    apply (L_wrap (NLeaf sp (VDatetime d))); [exact Hs|apply B_of_fresh; apply fresh_de_dt].
  - apply (L_wrap (NArr sp xs)); [apply (all_spans_here _ H)|apply B_of_fresh; apply (@fresh_raise datetime)].
  - pose proof (all_spans_here _ H) as Hs. apply all_spans_tab in H as [_ F].
    destruct es as [|e es]; [apply (L_wrap (NTab sp [])); [exact Hs|apply B_of_fresh; apply (@fresh_raise datetime)]|].
    inversion F as [|? ? [Hk Hv] _]; subst. apply (L_wrap (NTab sp (e :: es))); [exact Hs|]. apply B_of_linv.
    apply errs_lbind.
    + apply (L_key_of_entry sp (e :: es) 0 e); [reflexivity|exact Hk|].
      destruct (bytes_eqb (en_key e) DT_FIELD); [exact I|apply (@fresh_raise unit)].
    + intros _ _. apply (L_value_of_entry sp (e :: es) 0 e); [reflexivity|apply all_spans_here; exact Hv|].
      apply B_of_linv. apply L_wrap; [apply all_spans_here; exact Hv|]. apply B_of_fresh.
      destruct (en_val e) as [sp' x'|sp' xs'|sp' es']; try apply (@fresh_raise datetime).
      destruct x'; try apply (@fresh_raise datetime). apply fresh_de_dt.
Qed.

(* ---- the deserializer ---- *)
Theorem L_de_loc c t : opt_overwrite c = false -> forall s, all_spans s = true -> errs (ninv s) (de_loc c t s).
Proof.
  intro NoSeed.
  induction t using ty_ind2 with (Q := fun var => forall y, all_spans y = true -> errs (linv y) (de_payload c var y));
    intros s Hs; pose proof (all_spans_here s Hs) as Hh;
    try (cbn [de_loc]; apply N_of_linv; apply L_wrap; [exact Hh|apply B_of_fresh; apply fresh_visit_scalar]).
  - (* datetime *)
    cbn [de_loc]. apply errs_lbind; [apply N_of_linv; apply L_de_datetime; exact Hs|]. intros d _.
    destruct (dt_kind_ok k d); [exact I|]. right. split; [repeat split|left; reflexivity].
  - (* option *)
    cbn [de_loc]. rewrite NoSeed. apply N_of_linv. apply L_wrap; [exact Hh|]. apply B_of_ninv. apply errs_lmap. apply IHt. exact Hs.
  - (* seq *)
    cbn [de_loc]. apply N_of_linv. apply L_wrap; [exact Hh|].
    destruct s as [sp x|sp xs|sp es]; try (apply B_of_fresh; apply (@fresh_raise sval)).
    apply all_spans_arr in Hs as [_ F]. apply B_of_linv. apply errs_lmap. exact (L_seq_elems (de_loc c) sp t xs IHt [] F).
  - (* tuple *)
    cbn [de_loc]. apply N_of_linv. apply L_wrap; [exact Hh|].
    destruct s as [sp x|sp xs|sp es]; try (apply B_of_fresh; apply (@fresh_raise sval)).
    apply all_spans_arr in Hs as [_ F]. apply errs_lmap. exact (L_pos_elems (de_loc c) (fun t' => t') sp ts H xs [] F).
  - (* map *)
    cbn [de_loc]. apply N_of_linv. apply L_wrap; [exact Hh|].
    destruct s as [sp x|sp xs|sp es]; try (apply B_of_fresh; apply (@fresh_raise sval)).
    + destruct x; apply B_of_fresh; apply (@fresh_raise sval).
    + apply all_spans_tab in Hs as [_ F]. apply B_of_linv. apply errs_lmap. exact (L_map_entries (de_loc c) sp t1 t2 es IHt2 [] F).
  - (* struct *)
    cbn [de_loc]. destruct (private_name n).
    + right. split; [repeat split|right; reflexivity].
    + apply N_of_linv. apply L_wrap; [exact Hh|]. destruct s as [sp x|sp xs|sp es].
      * destruct x; apply B_of_fresh; apply (@fresh_raise sval).
      * apply all_spans_arr in Hs as [_ F]. apply errs_lmap. exact (L_pos_elems (de_loc c) (fun ft => snd ft) sp fs H xs [] F).
      * apply all_spans_tab in Hs as [_ F]. apply errs_lmap. apply L_struct_from_table; assumption.
  - (* newtype *)
    cbn [de_loc]. apply N_of_linv. apply L_wrap; [exact Hh|]. apply B_of_ninv. apply errs_lmap. apply IHt. exact Hs.
  - (* tuple struct *)
    cbn [de_loc]. apply N_of_linv. apply L_wrap; [exact Hh|].
    destruct s as [sp x|sp xs|sp es]; try (apply B_of_fresh; apply (@fresh_raise sval)).
    apply all_spans_arr in Hs as [_ F]. apply errs_lmap. exact (L_pos_elems (de_loc c) (fun t' => t') sp ts H xs [] F).
  - (* enum *)
    cbn [de_loc]. apply N_of_linv. apply L_wrap; [exact Hh|]. destruct s as [sp x|sp xs|sp es].
    + destruct x; try (apply B_of_linv; apply (L_raise_at_here (NLeaf sp _)); exact Hh).
      apply find_name_errs; [apply B_of_fresh; apply (@fresh_raise sval)|].
      intros j a _. destruct a; try exact I; apply B_of_fresh; apply (@fresh_raise sval).
    + apply B_of_linv. apply (L_raise_at_here (NArr sp xs)). exact Hh.
    + destruct es as [|e [|e' es]]; try (apply B_of_linv; apply (L_raise_at_here (NTab sp _)); exact Hh).
      apply all_spans_tab in Hs as [_ F]. inversion F as [|? ? [Hk Hv] _]; subst. apply B_of_linv.
      apply find_name_errs.
      * destruct (has_span_some _ Hk) as [ksp Eq]. rewrite Eq. unfold wrap, raise. cbn [map_err e_span set_span].
        apply (L_at_key (NTab sp [e]) (SVar (en_key e)) KUnknownVariant ksp).
        cbn [locate]. rewrite bytes_eqb_refl, Eq. reflexivity.
      * intros j var Hin. rewrite Forall_forall in H. specialize (H (en_key e, var) Hin). cbn [snd] in H.
        apply errs_lmap. apply L_under_var. apply H. exact Hv.
  - (* unit variant *)
    cbn [de_payload]. destruct (sempty_container s); [exact I|]. apply L_raise_at_here. exact Hh.
  - (* newtype variant *)
    cbn [de_payload]. apply L_wrap; [exact Hh|]. apply B_of_ninv. apply IHt. exact Hs.
  - (* tuple variant *)
    cbn [de_payload]. destruct s as [sp x|sp xs|sp es].
    + apply (L_raise_at_here (NLeaf sp x)). exact Hh.
    + destruct (Nat.eqb (length xs) (length ts)) eqn:E; [|apply (L_raise_at_here (NArr sp xs)); exact Hh].
      apply Nat.eqb_eq in E. apply all_spans_arr in Hs as [_ F]. apply errs_lmap.
      apply (L_pos_elems_full (de_loc c) (fun t' => t') sp ts H xs [] F). lia.
    + apply all_spans_tab in Hs as [_ F]. destruct (L_index_entries sp es [] 0%N F) as [H1 H2]. cbn [app length] in *.
      apply errs_lbind; [exact H1|]. intros xs E.
      destruct (Nat.eqb (length xs) (length ts)) eqn:E2; [|apply (L_raise_at_here (NTab sp es)); exact Hh].
      apply Nat.eqb_eq in E2. apply errs_lmap. apply L_pos_entries; [exact H|apply H2; exact E|lia].
  - (* struct variant *)
    cbn [de_payload]. destruct s as [sp x|sp xs|sp es].
    + destruct x; try (apply (L_wrap (NLeaf sp _)); [exact Hh|apply B_of_fresh; apply (@fresh_raise sval)]).
      cbn. split; [discriminate|]. intros C. exfalso. apply C. reflexivity.
    + apply (L_wrap (NArr sp xs)); [exact Hh|]. apply all_spans_arr in Hs as [_ F]. apply errs_lmap.
      exact (L_pos_elems (de_loc c) (fun ft => snd ft) sp fs H xs [] F).
    + apply all_spans_tab in Hs as [_ F]. destruct (first_extra_key (map fst fs) es 0) as [[i e]|] eqn:FE.
      * apply (L_wrap (NTab sp es)); [exact Hh|]. apply B_of_linv.
        assert (G : forall es0 pre, entries_ok es0 -> first_extra_key (map fst fs) es0 (length pre) = Some (i, e) ->
                    nth_error (pre ++ es0) i = Some e /\ has_span (en_kspan e) = true).
        { clear. induction es0 as [|e0 es0 IH]; intros pre F E; [discriminate|]. inversion F as [|? ? [Hk _] F']; subst.
          cbn [first_extra_key] in E. destruct (mem_bytes (en_key e0) (map fst fs)).
          - specialize (IH (pre ++ [e0]) F'). rewrite <- app_assoc, app_length, Nat.add_1_r in IH. exact (IH E).
          - injection E as <- <-. split; [apply nth_pre|exact Hk]. }
        destruct (G es [] F FE) as [Hn Hk]. cbn [app] in Hn. destruct (has_span_some _ Hk) as [ksp Eq]. rewrite Eq.
        apply L_at_key. cbn [locate]. unfold entry in *. rewrite Hn, bytes_eqb_refl, Eq. reflexivity.
      * apply (L_wrap (NTab sp es)); [exact Hh|]. apply errs_lmap. apply L_struct_from_table; assumption.
Qed.

(* the statements *)
Theorem span_with_text c t s e :
  opt_overwrite c = false -> all_spans s = true -> de_loc c t s = LErr e -> e_kind e <> KUnmodelled ->
  (exists sp, e_span e = Some sp /\ locate s (e_at e) (e_onkey e) = Some (Some sp)) \/
  (e_kind e = KDtKind /\ e_at e = [] /\ e_span e = None).
Proof.
  intros NoSeed Hs E C. pose proof (L_de_loc c t NoSeed s Hs) as H. rewrite E in H.
  destruct H as [[_ L]|[[(_ & A & _) N] [K|K]]]; [left; exact (L C)|right; repeat split; assumption|contradiction].
Qed.

(* whoever hands the node out attaches its span: the error a visitor sees for an element of an array, a
   value of a table, the payload of a newtype variant, the inside of an option is always located *)
Theorem span_handed_out c t s e :
  opt_overwrite c = false -> all_spans s = true -> wrap (span_of s) (de_loc c t s) = LErr e -> e_kind e <> KUnmodelled ->
  exists sp, e_span e = Some sp /\ locate s (e_at e) (e_onkey e) = Some (Some sp).
Proof.
  intros NoSeed Hs E C.
  pose proof (L_handed_out (de_loc c) t s (fun x Hx => L_de_loc c t NoSeed x Hx) Hs) as H. rewrite E in H. exact (proj2 H C).
Qed.
