(* Proofs/SpannedRTBase.v — C14, serde half: lock-step relation between results, induction principle
   for types with Spanned wrappers, and the facts relating the span tree to its stripped tree. *)
From TV Require Import Base.Prelude Model.Datetime Model.SerNum Spec.SerdeData Model.Ser Model.De Model.SerdeSpanned
  Proofs.SerdeRTBase.

(* both fail, or both succeed with related values *)
Definition relR {A B} (R : A -> B -> Prop) (r1 : result A) (r2 : result B) : Prop :=
  match r1, r2 with
  | Ok a, Ok b => R a b
  | Err _, Err _ => True
  | _, _ => False
  end.

Lemma relR_rmap {A B A' B'} (R : A -> B -> Prop) (S : A' -> B' -> Prop) f g r1 r2 :
  relR R r1 r2 -> (forall a b, R a b -> S (f a) (g b)) -> relR S (rmap f r1) (rmap g r2).
Proof. destruct r1, r2; simpl; intros H1 H2; try contradiction; auto. Qed.

Lemma relR_rbind {A B A' B'} (R : A -> B -> Prop) (S : A' -> B' -> Prop) k1 k2 r1 r2 :
  relR R r1 r2 -> (forall a b, R a b -> relR S (k1 a) (k2 b)) -> relR S (rbind r1 k1) (rbind r2 k2).
Proof. destruct r1, r2; simpl; intros H1 H2; try contradiction; auto. Qed.

Lemma relR_err {A B} (R : A -> B -> Prop) e1 e2 : relR R (Err e1) (Err e2).
Proof. exact I. Qed.

Lemma relR_mapM {A B A' B'} (R : A' -> B' -> Prop) (f : A -> result A') (g : B -> result B') (h : A -> B) l :
  Forall (fun a => relR R (f a) (g (h a))) l ->
  relR (Forall2 R) (mapM f l) (mapM g (map h l)).
Proof.
  induction 1 as [|a l Ha _ IH]; simpl; [constructor|].
  apply (relR_rbind R); [exact Ha|]. intros a' b' Hab.
  apply (relR_rbind (Forall2 R)); [exact IH|]. intros l1 l2 Hl. simpl. constructor; assumption.
Qed.

Lemma Forall2_map_eq {A B} (f : A -> B) l l' : Forall2 (fun a b => f a = b) l l' -> map f l = l'.
Proof. induction 1; simpl; congruence. Qed.

(* ---- induction principle ---- *)
Section StyInd.
  Variable P : sty -> Prop.
  Variable Q : svariant -> Prop.
  Hypothesis HPlain : forall t, P (YPlain t).
  Hypothesis HSpanned : forall t, P t -> P (YSpanned t).
  Hypothesis HOpt : forall t, P t -> P (YOpt t).
  Hypothesis HSeq : forall t, P t -> P (YSeq t).
  Hypothesis HTuple : forall ts, Forall P ts -> P (YTuple ts).
  Hypothesis HMap : forall k v, P k -> P v -> P (YMap k v).
  Hypothesis HStruct : forall n fs, Forall (fun ft => P (snd ft)) fs -> P (YStruct n fs).
  Hypothesis HNewtype : forall n t, P t -> P (YNewtype n t).
  Hypothesis HTupleStruct : forall n ts, Forall P ts -> P (YTupleStruct n ts).
  Hypothesis HEnum : forall n vs, Forall (fun nv => Q (snd nv)) vs -> P (YEnum n vs).
  Hypothesis HVUnit : Q YVUnit.
  Hypothesis HVNewtype : forall t, P t -> Q (YVNewtype t).
  Hypothesis HVTuple : forall ts, Forall P ts -> Q (YVTuple ts).
  Hypothesis HVStruct : forall fs, Forall (fun ft => P (snd ft)) fs -> Q (YVStruct fs).

  Fixpoint sty_ind2 (t : sty) : P t :=
    match t with
    | YPlain t0 => HPlain t0
    | YSpanned t' => HSpanned t' (sty_ind2 t')
    | YOpt t' => HOpt t' (sty_ind2 t')
    | YSeq t' => HSeq t' (sty_ind2 t')
    | YTuple ts =>
      HTuple ts ((fix go (l : list sty) : Forall P l :=
                    match l with [] => Forall_nil _ | x :: l' => Forall_cons x (sty_ind2 x) (go l') end) ts)
    | YMap k v => HMap k v (sty_ind2 k) (sty_ind2 v)
    | YStruct n fs =>
      HStruct n fs ((fix go (l : list (bytes * sty)) : Forall (fun ft => P (snd ft)) l :=
                       match l with
                       | [] => Forall_nil _
                       | x :: l' => Forall_cons x (match x return P (snd x) with (_, t') => sty_ind2 t' end) (go l')
                       end) fs)
    | YNewtype n t' => HNewtype n t' (sty_ind2 t')
    | YTupleStruct n ts =>
      HTupleStruct n ts ((fix go (l : list sty) : Forall P l :=
                            match l with [] => Forall_nil _ | x :: l' => Forall_cons x (sty_ind2 x) (go l') end) ts)
    | YEnum n vs =>
      HEnum n vs ((fix go (l : list (bytes * svariant)) : Forall (fun nv => Q (snd nv)) l :=
                     match l with
                     | [] => Forall_nil _
                     | x :: l' => Forall_cons x (match x return Q (snd x) with (_, var) => svariant_ind2 var end) (go l')
                     end) vs)
    end
  with svariant_ind2 (var : svariant) : Q var :=
    match var with
    | YVUnit => HVUnit
    | YVNewtype t => HVNewtype t (sty_ind2 t)
    | YVTuple ts =>
      HVTuple ts ((fix go (l : list sty) : Forall P l :=
                     match l with [] => Forall_nil _ | x :: l' => Forall_cons x (sty_ind2 x) (go l') end) ts)
    | YVStruct fs =>
      HVStruct fs ((fix go (l : list (bytes * sty)) : Forall (fun ft => P (snd ft)) l :=
                      match l with
                      | [] => Forall_nil _
                      | x :: l' => Forall_cons x (match x return P (snd x) with (_, t') => sty_ind2 t' end) (go l')
                      end) fs)
    end.
End StyInd.

(* ---- the stripped tree ---- *)
Definition strip_entries (es : list (bytes * ospan * stree)) : list (bytes * tomlval) :=
  map (fun e => (fst (fst e), strip (snd e))) es.

Lemma strip_tab sp es : strip (NTab sp es) = VTab (strip_entries es). Proof. reflexivity. Qed.
Lemma strip_arr sp xs : strip (NArr sp xs) = VArr (map strip xs). Proof. reflexivity. Qed.

Lemma strip_keys es : map fst (strip_entries es) = map (fun e => fst (fst e)) es.
Proof. unfold strip_entries. rewrite map_map. reflexivity. Qed.

Lemma tab_get_strip k es : tab_get k (strip_entries es) = optmap strip (stab_get k es).
Proof.
  induction es as [|[[k' sp] x] es IH]; simpl; [reflexivity|]. destruct (bytes_eqb k' k); [reflexivity|exact IH].
Qed.

Lemma dup_hit_strip names es : dup_field_hit names (strip_entries es) = sdup_field_hit names es.
Proof. unfold dup_field_hit, sdup_field_hit. rewrite strip_keys. reflexivity. Qed.

Lemma keys_ok_strip names es : struct_keys_ok names (strip_entries es) = sstruct_keys_ok names es.
Proof.
  unfold struct_keys_ok, sstruct_keys_ok, strip_entries.
  induction es as [|e es IH]; simpl; [reflexivity|]. rewrite IH. reflexivity.
Qed.

Lemma index_keys_strip es : forall i, index_keys i (strip_entries es) = optmap (map strip) (sindex_keys i es).
Proof.
  induction es as [|[[k sp] x] es IH]; intro i; simpl; [reflexivity|].
  destruct (parse_usize k) as [j|]; [|reflexivity]. destruct (j =? i)%N; [|reflexivity].
  rewrite IH. destruct (sindex_keys (i + 1) es); reflexivity.
Qed.

Lemma all_spans_leaf sp x : all_spans (NLeaf sp x) = true -> is_leaf x = true.
Proof. simpl. intro H. apply andb_true_iff in H as [_ H]. exact H. Qed.

Lemma empty_strip y : all_spans y = true -> empty_container (strip y) = sempty_container y.
Proof.
  destruct y as [sp x|sp [|? ?]|sp [|? ?]]; try reflexivity.
  intro H. apply all_spans_leaf in H. destruct x; try discriminate H; reflexivity.
Qed.

Lemma all_spans_arr sp xs : all_spans (NArr sp xs) = true -> has_span sp = true /\ Forall (fun x => all_spans x = true) xs.
Proof.
  simpl. intro H. apply andb_true_iff in H as [H1 H2]. split; [exact H1|]. apply Forall_forall. rewrite forallb_forall in H2. exact H2.
Qed.

Lemma all_spans_tab sp es : all_spans (NTab sp es) = true ->
  has_span sp = true /\ Forall (fun e => has_span (snd (fst e)) = true /\ all_spans (snd e) = true) es.
Proof.
  simpl. intro H. apply andb_true_iff in H as [H1 H2]. split; [exact H1|]. apply Forall_forall. rewrite forallb_forall in H2.
  intros e He. specialize (H2 e He). apply andb_true_iff in H2. exact H2.
Qed.

Lemma has_span_some o : has_span o = true -> exists a b, o = Some (a, b).
Proof. destruct o as [[a b]|]; [eauto|discriminate]. Qed.
