(* Proofs/RoutesConv.v — C13: facts about to_toml_value / to_toml_table (what toml::from_str::<toml::Value>
   and str::parse::<toml::Table> build from a parsed tree), and the twin SERIALIZERS: on a value whose
   serialized tree has no private key (date-times included), Value::try_from builds exactly the
   toml::Value the serialized text parses to. *)
From TV Require Import Base.Prelude Base.Utf8 Model.Datetime Model.DatetimeStd Model.WriteFloat Model.SerNum
  Spec.DatetimeSpec Spec.SerdeData Model.Ser Model.De Model.SerdeRoutes
  Proofs.DatetimeEq Proofs.NumbersRT_Ser Proofs.SerdeRTBase Proofs.SerdeRTEq Proofs.SerdeRTLeaf Proofs.SerdeRTLists Proofs.SerdeRT
  Proofs.SerdeRTErr Proofs.SerdeRTBTree Proofs.SerdeRTTv.

Definition conv_entries (es : list (bytes * tomlval)) : result (list (bytes * tomlval)) :=
  mapM (fun kx => rmap (fun y' => (fst kx, y')) (to_toml_value (snd kx))) es.

Lemma ttv_arr xs : to_toml_value (VArr xs) = rmap VArr (mapM to_toml_value xs).
Proof. reflexivity. Qed.

Definition first_key_plain (es : list (bytes * tomlval)) : bool :=
  match es with (k, _) :: _ => negb (bytes_eqb k DT_FIELD) | [] => true end.

Lemma ttv_tab_plain es : first_key_plain es = true ->
  to_toml_value (VTab es) =
  rbind (conv_entries es) (fun es' => if nodup_bytes (map fst es') then Ok (VTab (btree_of_pairs es')) else Err EDe).
Proof.
  destruct es as [|[k y] es]; intro H; [reflexivity|]. simpl in H. apply negb_true_iff in H.
  simpl. rewrite H. reflexivity.
Qed.

Lemma ttv_tab_tunnel k y rest : bytes_eqb k DT_FIELD = true ->
  to_toml_value (VTab ((k, y) :: rest)) = match y with VStr s => rmap VDatetime (de_dt_str s) | _ => Err EDe end.
Proof. intro H. simpl. rewrite H. reflexivity. Qed.

Lemma ttt_tab es : to_toml_table (VTab es) = rmap (fun es' => VTab (btree_of_pairs es')) (conv_entries es).
Proof. reflexivity. Qed.

Definition conv_rel (kx ky : bytes * tomlval) : Prop := fst ky = fst kx /\ to_toml_value (snd kx) = Ok (snd ky).

Lemma conv_entries_inv es es' : conv_entries es = Ok es' -> Forall2 conv_rel es es' /\ map fst es' = map fst es.
Proof.
  unfold conv_entries. intro H. apply mapM_ok in H.
  induction H as [|[k x] [k' y] es es' Hxy _ [IH1 IH2]]; [split; [constructor|reflexivity]|].
  simpl in Hxy. apply rmap_ok in Hxy as (y0 & Hy & E). injection E as -> ->.
  split; [constructor; [split; [reflexivity|exact Hy]|exact IH1]|simpl; f_equal; exact IH2].
Qed.

Lemma conv_entries_of es es' : Forall2 conv_rel es es' -> conv_entries es = Ok es'.
Proof.
  unfold conv_entries. intro H. apply mapM_of_Forall2.
  induction H as [|[k x] [k' y] es es' [H1 H2] _ IH]; constructor; [|exact IH].
  simpl in *. subst k'. rewrite H2. reflexivity.
Qed.

(* the table route and the value route read a plain root alike *)
Lemma plain_root_same x : plain_root x = true -> to_toml_table x = to_toml_value x.
Proof.
  destruct x; try (simpl; discriminate). intro H. unfold plain_root in H. apply andb_true_iff in H as [Hnd Hf].
  change (first_key_plain es = true) in Hf.
  rewrite ttt_tab, ttv_tab_plain by exact Hf.
  destruct (conv_entries es) as [es'|e] eqn:E; simpl; [|reflexivity].
  destruct (conv_entries_inv es es' E) as [_ Hk]. rewrite Hk, Hnd. reflexivity.
Qed.

(* ---- tunnel-free trees ---- *)
Lemma tunnel_free_tab es : tunnel_free (VTab es) = true ->
  first_key_plain es = true /\ Forall (fun kx => bytes_eqb (fst kx) DT_FIELD = false /\ tunnel_free (snd kx) = true) es.
Proof.
  simpl. intro H. rewrite forallb_forall in H. split.
  - destruct es as [|[k y] es]; [reflexivity|]. simpl. specialize (H (k, y) (or_introl eq_refl)). simpl in H.
    apply andb_true_iff in H as [H _]. exact H.
  - apply Forall_forall. intros kx Hin. specialize (H kx Hin). apply andb_true_iff in H as [H1 H2].
    apply negb_true_iff in H1. auto.
Qed.

(* ---- the twin serializers ---- *)
Definition TF (t : ty) : Prop :=
  forall v x, has_type_b t v = true -> ser_value t v = Ok x -> tunnel_free x = true ->
              exists y, to_toml_value x = Ok y /\ tv_ser t v = Ok y.
Definition TFV (var : variant) : Prop :=
  forall p x, has_type_variant_b var p = true -> ser_payload var p = Ok x -> tunnel_free x = true ->
              exists y, to_toml_value x = Ok y /\ tv_payload var p = Ok y.

Lemma tf_list t : TF t -> forall vs xs,
  forallb (has_type_b t) vs = true -> mapM (ser_value t) vs = Ok xs -> forallb tunnel_free xs = true ->
  exists ys, mapM to_toml_value xs = Ok ys /\ mapM (tv_ser t) vs = Ok ys.
Proof.
  intros IH. induction vs as [|v vs IHvs]; intros xs Hty H Hf; simpl in *.
  - injection H as <-. exists []. split; reflexivity.
  - apply andb_true_iff in Hty as [Hv Hvs].
    apply rbind_ok in H as (x & Hx & H). apply rbind_ok in H as (xs' & Hxs & H). injection H as <-.
    simpl in Hf. apply andb_true_iff in Hf as [Hf1 Hf2].
    destruct (IH v x Hv Hx Hf1) as (y & C & T). destruct (IHvs xs' Hvs Hxs Hf2) as (ys & Cs & Ts).
    exists (y :: ys). simpl. rewrite C, Cs, T, Ts. split; reflexivity.
Qed.

Lemma tf_tuple ts : Forall TF ts -> forall vs xs,
  all2b has_type_b ts vs = true -> zipM ser_value ts vs = Ok xs -> forallb tunnel_free xs = true ->
  exists ys, mapM to_toml_value xs = Ok ys /\ zipM tv_ser ts vs = Ok ys.
Proof.
  induction 1 as [|t ts IHt _ IH]; intros [|v vs] xs Hty H Hf; simpl in *; try discriminate.
  - injection H as <-. exists []. split; reflexivity.
  - apply andb_true_iff in Hty as [Hv Hvs].
    apply rbind_ok in H as (x & Hx & H). apply rbind_ok in H as (xs' & Hxs & H). injection H as <-.
    simpl in Hf. apply andb_true_iff in Hf as [Hf1 Hf2].
    destruct (IHt v x Hv Hx Hf1) as (y & C & T). destruct (IH vs xs' Hvs Hxs Hf2) as (ys & Cs & Ts).
    exists (y :: ys). simpl. rewrite C, Cs, T, Ts. split; reflexivity.
Qed.

Lemma smv_not_opt ser t v : is_opt t = false -> ser_map_value ser t v = rmap Some (ser t v).
Proof. destruct t; try reflexivity. discriminate. Qed.

(* struct fields: entry by entry the same keys, converted values (both sides leave out exactly the direct Nones) *)
Lemma tf_fields fs : Forall (fun ft => TF (snd ft)) fs -> forall vs ps,
  all2b (fun ft v' => has_type_b (snd ft) v') fs vs = true -> ser_fields fs vs = Ok ps ->
  Forall (fun kx : bytes * tomlval => tunnel_free (snd kx) = true) (somes ps) ->
  exists qs, tv_fields fs vs = Ok qs /\ Forall2 conv_rel (somes ps) (somes qs).
Proof.
  unfold ser_fields, tv_fields.
  induction 1 as [|[f t] fs IHt _ IH]; intros [|v vs] ps Hty H Hf; simpl in *; try discriminate.
  - injection H as <-. exists []. split; [reflexivity|constructor].
  - apply andb_true_iff in Hty as [Hv Hvs].
    apply rbind_ok in H as (p & Hp & H). apply rbind_ok in H as (ps' & Hps & H). injection H as <-.
    apply rmap_ok in Hp as (ox & Hox & ->).
    destruct (ser_map_value_cases ser_value t v) as [(t' & -> & -> & E)|[Hn E]]; rewrite E in Hox.
    + injection Hox as <-. simpl in Hf. destruct (IH vs ps' Hvs Hps Hf) as (qs & Tq & Fq).
      exists (None :: qs). simpl. rewrite Tq. simpl. split; [reflexivity|exact Fq].
    + apply rmap_ok in Hox as (x & Hx & ->). simpl in Hf. inversion Hf as [|? ? Hfx Hf']; subst. simpl in Hfx.
      destruct (IHt v x Hv Hx Hfx) as (y & C & T). destruct (IH vs ps' Hvs Hps Hf') as (qs & Tq & Fq).
      assert (E2 : ser_map_value tv_ser t v = rmap Some (tv_ser t v)).
      { destruct (ser_map_value_cases tv_ser t v) as [(t'' & -> & -> & _)|[_ E2]]; [exfalso; apply (Hn eq_refl); reflexivity|exact E2]. }
      exists (Some (f, y) :: qs). simpl. rewrite E2, T. simpl. rewrite Tq. simpl. split; [reflexivity|].
      constructor; [split; [reflexivity|exact C]|exact Fq].
Qed.

(* a serialized table with distinct, non-private keys: both sides insert the same entries in the same order *)
Lemma tf_table es qs : NoDup (map fst es) -> tunnel_free (VTab es) = true -> Forall2 conv_rel es qs ->
  to_toml_value (VTab es) = Ok (VTab (btree_of_pairs qs)).
Proof.
  intros Hnd Hf F. destruct (tunnel_free_tab es Hf) as [Hfirst _].
  rewrite (ttv_tab_plain es Hfirst), (conv_entries_of es qs F). simpl.
  destruct (conv_entries_inv es qs (conv_entries_of es qs F)) as [_ Hk]. rewrite Hk.
  apply nodup_bytes_NoDup in Hnd. rewrite Hnd. reflexivity.
Qed.

Lemma tf_struct_fields fs : Forall (fun ft => TF (snd ft)) fs -> forall vs ps,
  nodup_bytes (map fst fs) = true ->
  all2b (fun ft v' => has_type_b (snd ft) v') fs vs = true -> ser_fields fs vs = Ok ps ->
  tunnel_free (table_of ps) = true ->
  exists qs, tv_fields fs vs = Ok qs /\ to_toml_value (table_of ps) = Ok (btable_of qs).
Proof.
  intros IH vs ps Hnd Hty H Hf. apply nodup_bytes_NoDup in Hnd.
  (* the keys written are distinct field names *)
  pose proof (rt_fields fs (Forall_impl _ (fun ft _ => roundtrip_value (snd ft)) IH) vs ps Hty H) as Frt.
  pose proof (fields_somes_nodup de_value fs vs ps Frt Hnd) as Hk.
  unfold table_of, somes_pairs in *. rewrite (tab_of_pairs_nodup _ Hk) in *.
  destruct (tunnel_free_tab _ Hf) as [_ Hall].
  destruct (tf_fields fs IH vs ps Hty H) as (qs & Tq & Fq).
  { eapply Forall_impl; [|exact Hall]. intros kx [_ Hx]. exact Hx. }
  exists qs. split; [exact Tq|]. unfold btable_of, somes_pairs. apply tf_table; assumption.
Qed.

Lemma tf_entries kt vt : TF vt -> is_opt vt = false -> forall es xs,
  forallb (fun kv => has_type_b kt (fst kv) && has_type_b vt (snd kv)) es = true ->
  ser_entries kt vt es = Ok (map Some xs) ->
  Forall (fun kx : bytes * tomlval => tunnel_free (snd kx) = true) xs ->
  exists qs, tv_entries kt vt es = Ok (map Some qs) /\ Forall2 conv_rel xs qs.
Proof.
  intros IHv Hno. unfold ser_entries, tv_entries.
  induction es as [|[k v] es IH]; intros xs Hty H Hf; simpl in *.
  - destruct xs; [|discriminate]. exists []. split; [reflexivity|constructor].
  - apply andb_true_iff in Hty as [Hkv Hes]. apply andb_true_iff in Hkv as [Hk Hv].
    apply rbind_ok in H as (p & Hp & H). apply rbind_ok in H as (ps' & Hps & H).
    destruct xs as [|[s x] xs]; [discriminate|]. simpl in H. injection H as -> ->.
    apply rbind_ok in Hp as (s0 & Hs & Hp). apply rmap_ok in Hp as (ox & Hox & E).
    destruct (ser_map_value_cases ser_value vt v) as [(t' & -> & _)|[_ E']]; [discriminate|]. rewrite E' in Hox.
    apply rmap_ok in Hox as (x0 & Hx & ->). simpl in E. injection E as Es Ex. subst s x.
    inversion Hf as [|? ? Hfx Hf']; subst. simpl in Hfx.
    destruct (tv_key_roundtrip kt k _ Hk Hs) as [K1 _].
    destruct (IHv v _ Hv Hx Hfx) as (y & C & T).
    destruct (IH xs Hes Hps Hf') as (qs & Tq & Fq).
    eexists ((_, y) :: qs). rewrite K1. simpl. rewrite (smv_not_opt tv_ser vt v Hno), T. simpl. rewrite Tq. simpl.
    split; [reflexivity|constructor; [split; [reflexivity|exact C]|exact Fq]].
Qed.

Theorem try_from_twin : forall t, TF t.
Proof.
  induction t using ty_ind2 with (Q := TFV); unfold TF, TFV in *.
  - intros v x Hty Hser Hf. destruct v; simpl in Hser; try discriminate Hser. injection Hser as <-. eexists; split; reflexivity.
  - intros v x Hty Hser Hf. destruct v; simpl in Hser; try discriminate Hser. simpl in Hty.
    unfold ser_int_value in Hser. destruct (ser_int w z) as [i|] eqn:E; [|discriminate Hser]. injection Hser as <-.
    destruct (ser_exact w z i Hty E) as [-> _]. exists (VInt z). split; [reflexivity|].
    simpl. unfold ser_int, tv_ser_int in *. destruct (ser_method_of w); try discriminate E; try reflexivity.
    unfold serialize_u64 in E. unfold tv_serialize_u64. destruct (fits_i64 z); [reflexivity|discriminate E].
  - intros v x Hty Hser Hf. destruct w; destruct v; simpl in Hser; try discriminate Hser; injection Hser as <-; eexists; split; reflexivity.
  - intros v x Hty Hser Hf. destruct v; simpl in Hser; try discriminate Hser. injection Hser as <-. eexists; split; reflexivity.
  - intros v x Hty Hser Hf. destruct v; simpl in Hser; try discriminate Hser. injection Hser as <-. eexists; split; reflexivity.
  - (* a date-time: the tunnel on both sides; the text Display printed parses back (C12) *)
    intros v x Hty Hser Hf. destruct v; simpl in Hser; try discriminate Hser. simpl in Hty.
    apply andb_true_iff in Hty as [Hr _]. rewrite (ser_datetime_ok d x Hr Hser).
    exists (VDatetime d). split.
    + simpl. unfold de_dt_str. rewrite (print_parse_std d Hr). reflexivity.
    + simpl. unfold ser_datetime, dt_field_str. rewrite (print_parse_std d Hr). reflexivity.
  - intros v x Hty Hser Hf. destruct v; simpl in Hser; discriminate Hser.
  - intros v x Hty Hser Hf. destruct v; simpl in Hser; discriminate Hser.
  - intros v x Hty Hser Hf. destruct v; try (simpl in Hser; discriminate Hser).
    rewrite sv_opt_some in Hser. rewrite ht_opt_some in Hty. rewrite ts_opt_some. apply IHt; assumption.
  - intros v x Hty Hser Hf. destruct v; try (simpl in Hser; discriminate Hser).
    rewrite sv_seq in Hser. rewrite ht_seq in Hty. apply rmap_ok in Hser as (xs & Hxs & ->). simpl in Hf.
    destruct (tf_list t IHt vs xs Hty Hxs Hf) as (ys & C & T).
    exists (VArr ys). rewrite ttv_arr, C, ts_seq, T. split; reflexivity.
  - intros v x Hty Hser Hf. destruct v; try (simpl in Hser; discriminate Hser).
    rewrite sv_tuple in Hser. rewrite ht_tuple in Hty. apply rmap_ok in Hser as (xs & Hxs & ->). simpl in Hf.
    destruct (tf_tuple ts H vs xs Hty Hxs Hf) as (ys & C & T).
    exists (VArr ys). rewrite ttv_arr, C, ts_tuple, T. split; reflexivity.
  - (* TMap *)
    intros v x Hty Hser Hf. destruct v; try (simpl in Hser; discriminate Hser).
    rewrite ht_map in Hty. apply andb_true_iff in Hty as [Hty Hnd]. apply andb_true_iff in Hty as [Hno Hes].
    apply negb_true_iff in Hno. apply nodup_bytes_NoDup in Hnd.
    rewrite sv_map in Hser. apply rmap_ok in Hser as (ps & Hps & ->).
    destruct (rt_entries t1 t2 (roundtrip_value t2) Hno es ps Hes Hps) as (xs & -> & F).
    assert (Hk : somes (map (fun kv => key_text t1 (fst kv)) es) = map fst xs).
    { apply (entries_keys t1 es xs (fun kv kx => de_key t1 (fst kx) = Ok (fst kv) /\ sval_eq (fst kv) (fst kv) /\
                                      exists v', de_value t2 (snd kx) = Ok v' /\ sval_eq (snd kv) v')). exact F. }
    rewrite Hk in Hnd. unfold table_of, somes_pairs in *. rewrite somes_map_Some in *.
    rewrite (tab_of_pairs_nodup xs Hnd) in *.
    destruct (tunnel_free_tab _ Hf) as [_ Hall].
    destruct (tf_entries t1 t2 IHt2 Hno es xs Hes Hps) as (qs & Tq & Fq).
    { eapply Forall_impl; [|exact Hall]. intros kx [_ Hx]. exact Hx. }
    exists (VTab (btree_of_pairs qs)). split; [apply tf_table; assumption|].
    rewrite ts_map, Tq. unfold btable_of, somes_pairs. simpl. rewrite somes_map_Some. reflexivity.
  - (* TStruct *)
    intros v x Hty Hser Hf. destruct v; try (simpl in Hser; discriminate Hser).
    rewrite ht_struct in Hty. apply andb_true_iff in Hty as [Hty Hvs]. apply andb_true_iff in Hty as [Hpriv Hnd].
    apply negb_true_iff in Hpriv. rewrite sv_struct, (private_not_dt n Hpriv) in Hser.
    apply rmap_ok in Hser as (ps & Hps & ->).
    destruct (tf_struct_fields fs H vs ps Hnd Hvs Hps Hf) as (qs & Tq & C).
    exists (btable_of qs). split; [exact C|]. rewrite (ts_struct n fs vs Hpriv), Tq. reflexivity.
  - intros v x Hty Hser Hf. destruct v; try (simpl in Hser; discriminate Hser).
    rewrite sv_newtype in Hser. rewrite ht_newtype in Hty. rewrite ts_newtype. apply IHt; assumption.
  - intros v x Hty Hser Hf. destruct v; try (simpl in Hser; discriminate Hser).
    rewrite sv_tuple_struct in Hser. rewrite ht_tuple_struct in Hty. apply rmap_ok in Hser as (xs & Hxs & ->). simpl in Hf.
    destruct (tf_tuple ts H vs xs Hty Hxs Hf) as (ys & C & T).
    exists (VArr ys). rewrite ttv_arr, C, ts_tuple_struct, T. split; reflexivity.
  - (* TEnum *)
    intros v x Hty Hser Hf. destruct v as [| | | | | | | | | | | | | |i p]; try (simpl in Hser; discriminate Hser).
    rewrite ht_enum in Hty. apply andb_true_iff in Hty as [_ Hp]. rewrite sv_enum in Hser.
    destruct (pick_cases (ser_variant p) (Err EBadCase) vs i) as [([vn var] & Hn & E)|[_ E]]; rewrite E in Hser; [|discriminate].
    rewrite (pick_nth _ _ _ _ _ Hn) in Hp. simpl in Hp.
    assert (HQ : forall q y, has_type_variant_b var q = true -> ser_payload var q = Ok y -> tunnel_free y = true ->
                             exists z, to_toml_value y = Ok z /\ tv_payload var q = Ok z).
    { rewrite Forall_forall in H. apply (H (vn, var)). eapply nth_error_In; exact Hn. }
    rewrite ts_enum, (pick_nth _ _ _ _ _ Hn). unfold ser_variant in Hser. unfold tv_variant. simpl in *.
    destruct var as [|tv|tsv|fsv].
    + apply htv_unit in Hp. subst p. injection Hser as <-. eexists; split; reflexivity.
    + apply rmap_ok in Hser as (y & Hy & ->).
      destruct (tunnel_free_tab _ Hf) as [Hfirst Hall]. inversion Hall as [|? ? [Hk Hfy] _]; subst. simpl in *.
      destruct (HQ p y Hp Hy Hfy) as (z & C & T). exists (VTab [(vn, z)]). rewrite T. split; [|reflexivity].
      rewrite Hk. rewrite C. reflexivity.
    + apply rmap_ok in Hser as (y & Hy & ->).
      destruct (tunnel_free_tab _ Hf) as [Hfirst Hall]. inversion Hall as [|? ? [Hk Hfy] _]; subst. simpl in *.
      destruct (HQ p y Hp Hy Hfy) as (z & C & T). exists (VTab [(vn, z)]). rewrite T. split; [|reflexivity].
      rewrite Hk. rewrite C. reflexivity.
    + apply rmap_ok in Hser as (y & Hy & ->).
      destruct (tunnel_free_tab _ Hf) as [Hfirst Hall]. inversion Hall as [|? ? [Hk Hfy] _]; subst. simpl in *.
      destruct (HQ p y Hp Hy Hfy) as (z & C & T). exists (VTab [(vn, z)]). rewrite T. split; [|reflexivity].
      rewrite Hk. rewrite C. reflexivity.
  - intros p x Hty Hser Hf. simpl in Hser. discriminate Hser.
  - intros p x Hty Hser Hf. rewrite sp_newtype in Hser. rewrite htv_newtype in Hty. rewrite tp_newtype. apply IHt; assumption.
  - intros p x Hty Hser Hf. destruct p; try (simpl in Hty; discriminate Hty).
    rewrite sp_tuple in Hser. rewrite htv_tuple in Hty. apply rmap_ok in Hser as (xs & Hxs & ->). simpl in Hf.
    destruct (tf_tuple ts H vs xs Hty Hxs Hf) as (ys & C & T).
    exists (VArr ys). rewrite ttv_arr, C, tp_tuple, T. split; reflexivity.
  - intros p x Hty Hser Hf. destruct p; try (simpl in Hty; discriminate Hty).
    rewrite htv_struct in Hty. apply andb_true_iff in Hty as [Hnd Hvs].
    rewrite sp_struct in Hser. apply rmap_ok in Hser as (ps & Hps & ->).
    destruct (tf_struct_fields fs H vs ps Hnd Hvs Hps Hf) as (qs & Tq & C).
    exists (btable_of qs). split; [exact C|]. rewrite tp_struct, Tq. reflexivity.
Qed.
