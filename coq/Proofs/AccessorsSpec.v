(* Proofs/AccessorsSpec.v — what the read API of Model/Accessors.v answers, for EVERY item / value
   (no hypothesis on how the tree was obtained): the kinds are exclusive and exhaustive, every downcast
   answers exactly on its own kind with the stored scalar, the Item-level duplicates are the value's own,
   type names and flags say the same thing, and lookups hand out what iteration hands out. *)
From TV Require Import Base.Prelude Model.Datetime Model.Numbers Model.Tree Extract.Show Model.Accessors.
Require Import String Lia.

Definition count_true (l : list bool) : nat := List.length (filter (fun b => b) l).

Definition value_scalar (v : value) : option scalar := match v with VScalar s _ _ => Some s | _ => None end.

(* ---- kinds: exactly one ---------------------------------------------------------------- *)
Lemma value_kind_exclusive v :
  count_true [value_is_str v; value_is_integer v; value_is_float v; value_is_bool v; value_is_datetime v;
              value_is_array v; value_is_inline_table v] = 1.
Proof. destruct v as [[s|z|f|b|d] r dc|vals tr tc dc sp|items pr im dt dc sp]; reflexivity. Qed.

Lemma item_kind_exclusive it :
  count_true [item_is_none it; item_is_value it; item_is_table it; item_is_aot it] = 1.
Proof. destruct it as [|v|t|ts sp]; reflexivity. Qed.

(* the seven value flags of an ITEM: exactly one on a value, none otherwise *)
Lemma item_value_flags it :
  count_true [item_is_str it; item_is_integer it; item_is_float it; item_is_bool it; item_is_datetime it;
              item_is_array it; item_is_inline_table it] = (if item_is_value it then 1 else 0).
Proof.
  destruct it as [|v|t|ts sp]; try reflexivity.
  destruct v as [[s|z|f|b|d] r dc|vals tr tc dc sp|items pr im dt dc sp]; reflexivity.
Qed.

(* ---- downcasts: the stored scalar, on its own kind only ---------------------------------- *)
Lemma value_as_str_spec v s : value_as_str v = Some s <-> value_scalar v = Some (SString s).
Proof. destruct v as [[x|z|f|b|d] r dc|vals tr tc dc sp|items pr im dt dc sp]; cbn; split; intro H; try discriminate; inversion H; reflexivity. Qed.
Lemma value_as_integer_spec v z : value_as_integer v = Some z <-> value_scalar v = Some (SInt z).
Proof. destruct v as [[x|y|f|b|d] r dc|vals tr tc dc sp|items pr im dt dc sp]; cbn; split; intro H; try discriminate; inversion H; reflexivity. Qed.
Lemma value_as_float_spec v f : value_as_float v = Some f <-> value_scalar v = Some (SFloat f).
Proof. destruct v as [[x|y|g|b|d] r dc|vals tr tc dc sp|items pr im dt dc sp]; cbn; split; intro H; try discriminate; inversion H; reflexivity. Qed.
Lemma value_as_bool_spec v b : value_as_bool v = Some b <-> value_scalar v = Some (SBool b).
Proof. destruct v as [[x|y|g|c|d] r dc|vals tr tc dc sp|items pr im dt dc sp]; cbn; split; intro H; try discriminate; inversion H; reflexivity. Qed.
Lemma value_as_datetime_spec v d : value_as_datetime v = Some d <-> value_scalar v = Some (SDatetime d).
Proof. destruct v as [[x|y|g|c|e] r dc|vals tr tc dc sp|items pr im dt dc sp]; cbn; split; intro H; try discriminate; inversion H; reflexivity. Qed.
Lemma value_as_array_spec v vals :
  value_as_array v = Some vals <-> exists tr tc dc sp, v = VArray vals tr tc dc sp.
Proof.
  destruct v as [x r dc|vs tr tc dc sp|items pr im dt dc sp]; cbn; split; intro H; try discriminate.
  - destruct H as (? & ? & ? & ? & H); discriminate.
  - inversion H; subst; eauto.
  - destruct H as (? & ? & ? & ? & H); inversion H; reflexivity.
  - destruct H as (? & ? & ? & ? & H); discriminate.
Qed.
Lemma value_as_inline_table_spec v items :
  value_as_inline_table v = Some items <-> exists pr im dt dc sp, v = VInline items pr im dt dc sp.
Proof.
  destruct v as [x r dc|vs tr tc dc sp|its pr im dt dc sp]; cbn; split; intro H; try discriminate.
  - destruct H as (? & ? & ? & ? & ? & H); discriminate.
  - destruct H as (? & ? & ? & ? & ? & H); discriminate.
  - inversion H; subst; eauto 6.
  - destruct H as (? & ? & ? & ? & ? & H); inversion H; reflexivity.
Qed.

(* reading a scalar through the five downcasts alone gives the stored scalar (what `doc`'s tree= prints) *)
Definition read_scalar (v : value) : option scalar :=
  match value_as_str v, value_as_integer v, value_as_float v, value_as_bool v, value_as_datetime v with
  | Some s, None, None, None, None => Some (SString s)
  | None, Some z, None, None, None => Some (SInt z)
  | None, None, Some f, None, None => Some (SFloat f)
  | None, None, None, Some b, None => Some (SBool b)
  | None, None, None, None, Some d => Some (SDatetime d)
  | _, _, _, _, _ => None
  end.
Lemma read_scalar_spec v : read_scalar v = value_scalar v.
Proof. destruct v as [[x|y|g|c|e] r dc|vals tr tc dc sp|items pr im dt dc sp]; reflexivity. Qed.

(* ---- the Item-level duplicates ----------------------------------------------------------- *)
Lemma item_downcasts_value v :
  item_as_str (IValue v) = value_as_str v /\ item_as_integer (IValue v) = value_as_integer v
  /\ item_as_float (IValue v) = value_as_float v /\ item_as_bool (IValue v) = value_as_bool v
  /\ item_as_datetime (IValue v) = value_as_datetime v /\ item_as_array (IValue v) = value_as_array v
  /\ item_as_inline_table (IValue v) = value_as_inline_table v /\ item_type_name (IValue v) = value_type_name v.
Proof. repeat split. Qed.
Lemma item_downcasts_other it :
  item_is_value it = false ->
  item_as_str it = None /\ item_as_integer it = None /\ item_as_float it = None /\ item_as_bool it = None
  /\ item_as_datetime it = None /\ item_as_array it = None /\ item_as_inline_table it = None.
Proof. destruct it as [|v|t|ts sp]; cbn; intro H; try discriminate; repeat split. Qed.
Lemma item_table_like_spec it :
  item_is_table_like it = orb (item_is_table it) (item_is_inline_table it).
Proof.
  destruct it as [|v|t|ts sp]; reflexivity.
Qed.

(* ---- type names and flags say the same thing --------------------------------------------- *)
Lemma value_type_name_flags v :
  (value_type_name v = str "string" <-> value_is_str v = true)
  /\ (value_type_name v = str "integer" <-> value_is_integer v = true)
  /\ (value_type_name v = str "float" <-> value_is_float v = true)
  /\ (value_type_name v = str "boolean" <-> value_is_bool v = true)
  /\ (value_type_name v = str "datetime" <-> value_is_datetime v = true)
  /\ (value_type_name v = str "array" <-> value_is_array v = true)
  /\ (value_type_name v = str "inline table" <-> value_is_inline_table v = true).
Proof.
  destruct v as [[x|y|g|c|e] r dc|vals tr tc dc sp|items pr im dt dc sp];
    vm_compute; repeat split; intro H; try reflexivity; try discriminate H.
Qed.
Lemma item_type_name_flags it :
  (item_type_name it = str "none" <-> item_is_none it = true)
  /\ (item_type_name it = str "table" <-> item_is_table it = true)
  /\ (item_type_name it = str "array of tables" <-> item_is_aot it = true).
Proof.
  destruct it as [|v|t|ts sp]; try (vm_compute; repeat split; intro H; try reflexivity; discriminate H).
  destruct v as [[x|y|g|c|e] r dc|vals tr tc dc sp|items pr im dt dc sp];
    vm_compute; repeat split; intro H; try reflexivity; try discriminate H.
Qed.

(* ---- lookups hand out what iteration hands out -------------------------------------------- *)
Definition keys_of (items : list (key * item)) : list bytes := map (fun kv => k_key (fst kv)) items.

Lemma kv_get_first_in items k it :
  NoDup (keys_of items) -> In (k, it) items -> exists k', kv_get items (k_key k) = Some (k', it) /\ k_key k' = k_key k.
Proof.
  induction items as [|[k0 it0] tl IH]; intros Hnd Hin; [destruct Hin|].
  cbn [kv_get]. inversion Hnd as [|? ? Hnotin Hnd']; subst.
  destruct Hin as [Heq|Hin].
  - inversion Heq; subst. cbn [fst]. rewrite bytes_eqb_refl. eauto.
  - destruct (bytes_eqb (k_key k0) (k_key k)) eqn:E.
    + apply bytes_eqb_eq in E. exfalso. apply Hnotin. cbn [fst] in *. rewrite E.
      unfold keys_of. apply (in_map (fun kv : key * item => k_key (fst kv)) tl (k, it)). exact Hin.
    + apply IH; assumption.
Qed.

(* Table::get / Item::get(key) on a table: every entry iteration shows (placeholders are not shown) is found under its key *)
Lemma table_get_iter items k it :
  NoDup (keys_of items) -> In (k, it) items -> item_is_none it = false -> table_get items (k_key k) = Some it.
Proof.
  intros Hnd Hin Hn. unfold table_get. destruct (kv_get_first_in items k it Hnd Hin) as (k' & -> & _). rewrite Hn. reflexivity.
Qed.
Lemma index_str_table t k it :
  NoDup (keys_of (t_items t)) -> In (k, it) (t_items t) -> item_is_none it = false ->
  index_str (k_key k) (ITable t) = Some it.
Proof. intros. cbn [index_str]. apply table_get_iter; assumption. Qed.
(* ... and a placeholder is never handed out *)
Lemma table_get_not_none items k it : table_get items k = Some it -> item_is_none it = false.
Proof.
  unfold table_get. destruct (kv_get items k) as [[k' v]|]; [|discriminate].
  destruct (item_is_none v) eqn:E; [discriminate|]. intro H; inversion H; subst; exact E.
Qed.
Lemma index_str_not_none k it x : index_str k it = Some x -> item_is_none x = false.
Proof.
  destruct it as [|v|t|ts sp]; cbn [index_str]; try discriminate.
  - destruct (value_as_inline_table v) as [items|]; cbn [and_then]; [|discriminate].
    destruct (kv_get items k) as [[k' y]|]; cbn [option_map and_then snd]; [|discriminate].
    destruct (item_is_none y) eqn:E; cbn [negb]; [discriminate|]. intro H; inversion H; subst; exact E.
  - apply table_get_not_none.
Qed.
(* InlineTable::get / Item::get(key) on an inline table *)
Lemma inline_get_iter items k v :
  NoDup (keys_of items) -> In (k, IValue v) items -> inline_get items (k_key k) = Some v.
Proof.
  intros Hnd Hin. unfold inline_get. destruct (kv_get_first_in items k (IValue v) Hnd Hin) as (k' & -> & _). reflexivity.
Qed.
(* Array::get / Item::get(i): the i-th stored element, None one past the end *)
Lemma array_get_nth vals i v : nth_error vals i = Some (IValue v) -> array_get vals i = Some v.
Proof. unfold array_get. intros ->. reflexivity. Qed.
Lemma array_get_end vals : array_get vals (array_len vals) = None.
Proof. unfold array_get, array_len. replace (nth_error vals (List.length vals)) with (@None item); [reflexivity|]. symmetry. apply nth_error_None. lia. Qed.
Lemma index_usize_aot ts sp i : index_usize i (IAot ts sp) = option_map ITable (nth_error ts i).
Proof. reflexivity. Qed.
Lemma index_usize_aot_end ts sp : index_usize (List.length ts) (IAot ts sp) = None.
Proof. cbn [index_usize]. replace (nth_error ts (List.length ts)) with (@None tbl); [reflexivity|]. symmetry. apply nth_error_None. lia. Qed.
Lemma index_usize_array vals tr tc dc sp i : index_usize i (IValue (VArray vals tr tc dc sp)) = nth_error vals i.
Proof. reflexivity. Qed.
Lemma index_usize_other it i : item_is_aot it = false -> item_is_array it = false -> index_usize i it = None.
Proof.
  destruct it as [|v|t|ts sp]; cbn; intros H1 H2; try reflexivity; try discriminate.
  destruct v as [x r dc|vals tr tc dc sp|items pr im dt dc sp]; try reflexivity. discriminate.
Qed.
(* doc["k"] is the root table's lookup *)
Lemma doc_index_root t k : doc_index (ITable t) k = table_get (t_items t) k.
Proof. reflexivity. Qed.

(* ---- len / is_empty: what the table-like view counts is what its iteration shows ------------------------------------ *)
Lemma table_len_no_placeholder items :
  Forall (fun kv => item_is_none (snd kv) = false) items -> table_len items = List.length items.
Proof.
  unfold table_len. induction items as [|kv tl IH]; intro H; [reflexivity|].
  inversion H as [|? ? Hx Htl]; subst. cbn [filter]. rewrite Hx. cbn [negb List.length]. f_equal. apply IH. exact Htl.
Qed.
Lemma tablelike_len_spec it :
  tablelike_len it = match it with
                     | ITable t => Some (table_len (t_items t))
                     | IValue (VInline items _ _ _ _ _) => Some (inline_len items)
                     | _ => None
                     end.
Proof. destruct it as [|v|t|ts sp]; try reflexivity. destruct v; reflexivity. Qed.
Lemma tablelike_len_iff it : is_some (tablelike_len it) = item_is_table_like it.
Proof. destruct it as [|v|t|ts sp]; try reflexivity. destruct v; reflexivity. Qed.
