(* Proofs/BuiltRTDoc.v — C06, documents: the printed text of a constructed document (Proofs/BuiltRTDocEncode.v)
   is a list of lines whose statements are those of its abstract tree (Proofs/BuiltRTSpecFold.v), which
   the parser applies (Proofs/BuiltRTDocParse.v, through the C09 simulation): parse_document (print t)
   yields the tree with, in every table, the values before the sub-tables. *)
From TV Require Import Base.Prelude Base.Utf8 Base.Winnow Gen.Consts.
From TV Require Import Model.Datetime Model.Numbers Model.Tree Model.Parse Model.Document Model.Write Model.Encode Model.Build.
From TV Require Import Proofs.BuiltRTBase Proofs.BuiltRTEncode Proofs.BuiltRTParse Proofs.BuiltRTKey Proofs.BuiltRTValue.
From TV Require Import Proofs.BuiltRTLeaf Proofs.BuiltRTTop Proofs.BuiltRTSpecMap Proofs.BuiltRTDocParse Proofs.BuiltRTSpecFold Proofs.BuiltRTDocEncode.
From TV Require Spec.Defs Proofs.DefsEquivBase.
Require Import Lia ZifyBool ZifyN ZifyNat.

Module D := Spec.Defs.
Module DB := Proofs.DefsEquivBase.

(* ---- the tables of a constructed document, flat ----------------------------------------------------------------- *)
Record ftab : Type := mkF { f_P : list bytes; f_a : bool; f_im : bool; f_l : list (bytes * item); f_pos : option N }.
Definition f_tbl (f : ftab) : tbl * list key * bool := (the_tbl (f_im f) (f_l f) (f_pos f), map key_new (f_P f), f_a f).

Definition hdr_stmt (P : list bytes) (a sh : bool) : list (D.stmt aval) :=
  match P with [] => [] | _ => if sh then [if a then D.SArrHeader P else D.SHeader P] else [] end.
Definition val_stmts (l : list (bytes * item)) : list (D.stmt aval) :=
  flat_map (fun kv => match snd kv with IValue v => [D.SKeyVal [fst kv] (abs_value v)] | _ => [] end) l.
Definition ftab_stmts (f : ftab) : list (D.stmt aval) :=
  hdr_stmt (f_P f) (f_a f) (shown (f_a f) (f_im f) (f_l f)) ++ val_stmts (f_l f).

Definition item_tables (path : list key) (it : item) : list (tbl * list key * bool) :=
  match it with
  | ITable sub => tbl_tables sub path false
  | IAot ts _ => flat_map (fun sub => tbl_tables sub path true) ts
  | _ => []
  end.

Lemma tbl_tables_the im l pos path a :
  tbl_tables (the_tbl im l pos) path a
  = (the_tbl im l pos, path, a) :: flat_map (fun kv => item_tables (path ++ [key_new (fst kv)]) (snd kv)) l.
Proof.
  unfold the_tbl. cbn [tbl_tables app]. f_equal. unfold mk_tbl_items.
  induction l as [|[k it] l IH]; [reflexivity|]. cbn [map flat_map fst snd]. rewrite IH. reflexivity.
Qed.

Lemma abs_tbl_the im l pos :
  abs_tbl (the_tbl im l pos) = flat_map (fun kv => map (fun n => (fst kv, n)) (abs_item (snd kv))) l.
Proof.
  unfold the_tbl. cbn [abs_tbl]. unfold mk_tbl_items.
  induction l as [|[k it] l IH]; [reflexivity|]. cbn [map flat_map fst snd k_key key_new]. rewrite IH. reflexivity.
Qed.

Lemma hdepth_the im l pos : tbl_hdepth (the_tbl im l pos) = fold_right (fun kv acc => Nat.max (item_hdepth (snd kv)) acc) 0 l.
Proof.
  unfold the_tbl. cbn [tbl_hdepth]. unfold mk_tbl_items. induction l as [|[k it] l IH]; [reflexivity|].
  cbn [map fold_right fst snd]. rewrite IH. reflexivity.
Qed.
Lemma vdepth_the im l pos : tbl_vdepth (the_tbl im l pos) = fold_right (fun kv acc => Nat.max (item_vdepth (snd kv)) acc) 0 l.
Proof.
  unfold the_tbl. cbn [tbl_vdepth]. unfold mk_tbl_items. induction l as [|[k it] l IH]; [reflexivity|].
  cbn [map fold_right fst snd]. rewrite IH. reflexivity.
Qed.
Lemma fold_max_in {A} (f : A -> nat) l x : In x l -> f x <= fold_right (fun y acc => Nat.max (f y) acc) 0 l.
Proof. induction l as [|y l IH]; [contradiction|]. cbn [fold_right]. intros [<- | H]; [lia|]. specialize (IH H). lia. Qed.

Section Flat.
  Variable PS : scalar -> Prop.
  Variable PK : bytes -> Prop.

  Definition f_ok (hb vb : nat) (f : ftab) : Prop :=
    entries_flat PS PK (f_l f) /\ (f_pos f = None \/ f_pos f = Some 0%N) /\
    Forall PK (f_P f) /\ Forall PK (map fst (f_l f)) /\ length (f_P f) <= hb /\
    (forall k v, In (k, IValue v) (f_l f) -> value_depth v <= vb).

  Lemma f_ok_mono hb vb hb' vb' f : hb <= hb' -> vb <= vb' -> f_ok hb vb f -> f_ok hb' vb' f.
  Proof.
    intros H1 H2 (A & B & C & D0 & E & F). repeat split; auto; try lia. intros k v Hin. specialize (F k v Hin). lia.
  Qed.

  Definition item_claim (it : item) : Prop :=
    forall P0 k, Forall PK P0 -> PK k ->
    exists Fs n, abs_item it = [forget n] /\ wf_node n /\
      item_tables (map key_new (P0 ++ [k])) it = map f_tbl Fs /\
      Forall (f_ok (length P0 + item_hdepth it) (item_vdepth it)) Fs /\
      flat_map ftab_stmts Fs = node_stmts (P0 ++ [k]) n /\
      (item_prints it = true -> (exists a, n = SVal a) \/ forall P, node_stmts P n <> []).

  Definition entries_claim (l : list (bytes * item)) : Prop :=
    forall P a im pos, (pos = None \/ pos = Some 0%N) -> Forall PK P ->
    exists Fs L, abs_tbl (the_tbl im l pos) = forget_entries L /\ wf_entries L /\
      tbl_tables (the_tbl im l pos) (map key_new P) a = map f_tbl Fs /\
      Forall (f_ok (length P + tbl_hdepth (the_tbl im l pos)) (tbl_vdepth (the_tbl im l pos))) Fs /\
      flat_map ftab_stmts Fs = hdr_stmt P a (shown a im l) ++ body_stmts P L /\
      kv_stmts L = val_stmts l /\
      (existsb (fun kv => item_prints (snd kv)) l = true -> forall P', body_stmts P' L <> []).
End Flat.

Section Claims.
  Variable PS : scalar -> Prop.
  Variable PK : bytes -> Prop.
  Local Notation item_claim := (item_claim PS PK).
  Local Notation entries_claim := (entries_claim PS PK).
  Local Notation f_ok := (f_ok PS PK).

  Lemma claim_value v : BuiltValue PS PK v -> item_claim (IValue v).
  Proof.
    intros _ P0 k _ _. exists [], (SVal (abs_value v)).
    split; [reflexivity|]. split; [constructor|]. split; [reflexivity|]. split; [constructor|]. split; [reflexivity|].
    intros _. left. eexists. reflexivity.
  Qed.

  Lemma hdr_stmt_snoc P0 k a sh :
    hdr_stmt (P0 ++ [k]) a sh = if sh then [if a then D.SArrHeader (P0 ++ [k]) else D.SHeader (P0 ++ [k])] else [].
  Proof. unfold hdr_stmt. destruct (P0 ++ [k]) eqn:E; [destruct P0; discriminate|reflexivity]. Qed.

  Lemma val_stmts_nil l : val_lines l = [] -> val_stmts l = [].
  Proof.
    unfold val_lines, val_stmts. induction l as [|[k it] l IH]; [reflexivity|]. cbn [flat_map fst snd].
    destruct it; cbn [app]; try exact IH. discriminate.
  Qed.

  Lemma tbl_prints_the im l pos : tbl_prints (the_tbl im l pos) = existsb (fun kv => item_prints (snd kv)) l.
  Proof.
    unfold the_tbl. cbn [tbl_prints]. unfold mk_tbl_items. induction l as [|[k it] l IH]; [reflexivity|].
    cbn [map existsb fst snd]. rewrite IH. reflexivity.
  Qed.

  Lemma claim_table im l : entries_claim l -> (im = true -> existsb (fun kv => item_prints (snd kv)) l = true) ->
    item_claim (ITable (Tbl (mk_tbl_items l) decor_default im false None None)).
  Proof.
    intros Hl Hp P0 k HP Hk.
    assert (HP' : Forall PK (P0 ++ [k])) by (apply Forall_app; split; [exact HP|constructor; [exact Hk|constructor]]).
    destruct (Hl (P0 ++ [k]) false im None (or_introl eq_refl) HP') as (Fs & L & Eabs & Hwf & Etab & Hok & Estm & Hkv & Hpr).
    change (Tbl (mk_tbl_items l) decor_default im false None None) with (the_tbl im l None).
    set (hid := im && match val_lines l with [] => true | _ => false end).
    assert (Esh : shown false im l = negb hid) by reflexivity.
    assert (Hhid : hid = true -> kv_stmts L = [] /\ forall P', body_stmts P' L <> []).
    { unfold hid. intro H. apply andb_true_iff in H as [Him Hnv]. split.
      - rewrite Hkv. apply val_stmts_nil. destruct (val_lines l); [reflexivity|discriminate].
      - apply Hpr, Hp, Him. }
    exists Fs, (STbl hid L). split; [cbn [abs_item forget]; rewrite Eabs; reflexivity|].
    split.
    { destruct Hwf as [H1 H2]. constructor; [exact H1|exact H2|]. intro H. destruct (Hhid H) as [A B]. split; [exact A|apply B]. }
    split; [exact Etab|]. split.
    { eapply Forall_impl; [|exact Hok]. intros f Hf. eapply f_ok_mono; [| |exact Hf].
      - rewrite app_length. cbn [length item_hdepth]. lia.
      - cbn [item_vdepth]. lia. }
    split.
    { rewrite Estm, hdr_stmt_snoc, node_stmts_tbl, Esh. destruct hid; reflexivity. }
    intros _. right. intro P. rewrite node_stmts_tbl. destruct hid eqn:Eh; [|discriminate].
    cbn [app]. apply (proj2 (Hhid eq_refl)).
  Qed.

  Lemma claim_aot (ls : list (bool * list (bytes * item))) : Forall (fun x => entries_claim (snd x)) ls ->
    item_claim (IAot (map (fun x => Tbl (mk_tbl_items (snd x)) decor_default (fst x) false None None) ls) None).
  Proof.
    intros Hls P0 k HP Hk.
    assert (HP' : Forall PK (P0 ++ [k])) by (apply Forall_app; split; [exact HP|constructor; [exact Hk|constructor]]).
    set (ts := map (fun x : bool * list (bytes * item) => Tbl (mk_tbl_items (snd x)) decor_default (fst x) false None None) ls).
    assert (G : exists Fs Ls, map abs_tbl ts = map forget_entries Ls /\ Forall wf_entries Ls /\ length Ls = length ls /\
                flat_map (fun sub => tbl_tables sub (map key_new (P0 ++ [k])) true) ts = map f_tbl Fs /\
                Forall (f_ok (length P0 + item_hdepth (IAot ts None)) (item_vdepth (IAot ts None))) Fs /\
                flat_map ftab_stmts Fs = flat_map (fun L => D.SArrHeader (P0 ++ [k]) :: body_stmts (P0 ++ [k]) L) Ls).
    { unfold ts. clear ts. induction Hls as [|[im l] ls Hl _ IH].
      - exists [], []. repeat split; constructor.
      - destruct IH as (Fs2 & Ls2 & E1 & W1 & N1 & T1 & O1 & S1). cbn [snd] in Hl.
        destruct (Hl (P0 ++ [k]) true im None (or_introl eq_refl) HP') as (Fs & L & Eabs & Hwf & Etab & Hok & Estm & _ & _).
        exists (Fs ++ Fs2), (L :: Ls2). cbn [map flat_map fst snd length].
        change (Tbl (mk_tbl_items l) decor_default im false None None) with (the_tbl im l None).
        split; [rewrite Eabs, E1; reflexivity|]. split; [constructor; assumption|]. split; [rewrite N1; reflexivity|].
        split; [rewrite Etab, T1, map_app; reflexivity|]. split.
        + apply Forall_app. split.
          * eapply Forall_impl; [|exact Hok]. intros f Hf. eapply f_ok_mono; [| |exact Hf].
            -- rewrite app_length. cbn [length item_hdepth fold_right]. lia.
            -- cbn [item_vdepth fold_right]. lia.
          * eapply Forall_impl; [|exact O1]. intros f Hf. eapply f_ok_mono; [| |exact Hf].
            -- cbn [item_hdepth fold_right]. lia.
            -- cbn [item_vdepth fold_right]. lia.
        + rewrite flat_map_app, Estm, S1, hdr_stmt_snoc. reflexivity. }
    destruct G as (Fs & Ls & E1 & W1 & N1 & T1 & O1 & S1).
    exists Fs, (SAot Ls). split.
    { cbn [abs_item forget]. rewrite E1. reflexivity. }
    split; [constructor; exact W1|]. split; [exact T1|]. split; [exact O1|].
    split; [rewrite S1, node_stmts_aot; reflexivity|].
    intro Hpr. right. intro P. rewrite node_stmts_aot.
    destruct ls as [|x ls']; [discriminate Hpr|]. destruct Ls as [|L Ls']; [discriminate N1|]. cbn [flat_map]. discriminate.
  Qed.

  Lemma app_nonnil {A} (a b c d : list A) : b ++ d <> [] -> (a ++ b) ++ (c ++ d) <> [].
  Proof.
    intros H E. apply H. apply (f_equal (@length A)) in E. rewrite !app_length in E. cbn [length] in E.
    destruct b, d; try reflexivity; cbn [length] in E; lia.
  Qed.

  Lemma claim_entries l :
    NoDup (map fst l) -> Forall PK (map fst l) -> Forall (BuiltItem PS PK) (map snd l) -> Forall item_claim (map snd l) ->
    entries_claim l.
  Proof.
    intros Hnd Hk Hb Hcl P a im pos Hpos HP.
    set (hb := length P + tbl_hdepth (the_tbl im l pos)). set (vb := tbl_vdepth (the_tbl im l pos)).
    assert (G : forall l', (forall kv, In kv l' -> In kv l) -> Forall PK (map fst l') -> Forall item_claim (map snd l') ->
              exists Fsub Lsub,
                flat_map (fun kv => map (fun n => (fst kv, n)) (abs_item (snd kv))) l' = forget_entries Lsub /\
                map fst Lsub = map fst l' /\ Forall wf_node (map snd Lsub) /\
                flat_map (fun kv => item_tables (map key_new P ++ [key_new (fst kv)]) (snd kv)) l' = map f_tbl Fsub /\
                Forall (f_ok hb vb) Fsub /\
                flat_map ftab_stmts Fsub = flat_map (fun kv => node_stmts (P ++ [fst kv]) (snd kv)) Lsub /\
                kv_stmts Lsub = val_stmts l' /\
                (existsb (fun kv => item_prints (snd kv)) l' = true -> forall P', body_stmts P' Lsub <> [])).
    { induction l' as [|[k it] l' IH]; intros Hsub Hk' Hcl'.
      - exists [], []. repeat split; try constructor. intro H. discriminate H.
      - cbn [map fst snd] in Hk', Hcl'. inversion Hk' as [|? ? Hk0 Hk1]; subst. inversion Hcl' as [|? ? Hc0 Hc1]; subst.
        destruct (IH (fun kv H => Hsub kv (or_intror H)) Hk1 Hc1) as (Fs2 & L2 & E2 & K2 & W2 & T2 & O2 & S2 & V2 & R2).
        destruct (Hc0 P k HP Hk0) as (Fs1 & n & En & Wn & Tn & On & Sn & Rn).
        exists (Fs1 ++ Fs2), ((k, n) :: L2). cbn [flat_map map fst snd].
        split; [rewrite En, E2; reflexivity|]. split; [rewrite K2; reflexivity|]. split; [constructor; assumption|].
        split; [rewrite map_app in Tn; cbn [map] in Tn; rewrite Tn, T2, map_app; reflexivity|]. split.
        + apply Forall_app. split; [|exact O2].
          eapply Forall_impl; [|exact On]. intros f Hf. eapply f_ok_mono; [| |exact Hf].
          * unfold hb. rewrite hdepth_the.
            pose proof (fold_max_in (fun kv : bytes * item => item_hdepth (snd kv)) l (k, it) (Hsub _ (or_introl eq_refl))) as H.
            cbn [snd] in H. lia.
          * unfold vb. rewrite vdepth_the.
            pose proof (fold_max_in (fun kv : bytes * item => item_vdepth (snd kv)) l (k, it) (Hsub _ (or_introl eq_refl))) as H.
            cbn [snd] in H. lia.
        + split; [rewrite flat_map_app, Sn, S2; reflexivity|]. split.
          * unfold kv_stmts, val_stmts in *. cbn [flat_map fst snd]. rewrite V2. f_equal.
            destruct it as [|v|sub|ts sp0]; cbn [abs_item] in En; try discriminate;
              destruct n; cbn [forget] in En; try discriminate; try reflexivity.
            injection En as <-. reflexivity.
          * cbn [existsb snd]. intros Hex P'. unfold body_stmts, kv_stmts. cbn [flat_map fst snd].
            apply orb_true_iff in Hex as [Hit | Hrest].
            -- destruct (Rn Hit) as [(a0 & ->) | Hne].
               ++ cbn [app]. discriminate.
               ++ intro E. apply (f_equal (@length (D.stmt aval))) in E. rewrite !app_length in E.
                  specialize (Hne (P' ++ [k])). destruct (node_stmts (P' ++ [k]) n); [contradiction|cbn [length] in E; lia].
            -- apply app_nonnil. exact (R2 Hrest P'). }
    destruct (G l (fun kv H => H) Hk Hcl) as (Fsub & L & E & K & W & Tt & O & S & V & R).
    exists (mkF P a im l pos :: Fsub), L.
    split; [rewrite abs_tbl_the; exact E|].
    split; [split; [rewrite K; exact Hnd|exact W]|].
    split; [rewrite tbl_tables_the; cbn [map f_tbl f_l f_pos f_P f_a f_im]; rewrite Tt; reflexivity|].
    split.
    - constructor; [|exact O]. unfold f_ok. cbn [f_l f_pos f_P].
      split.
      { intros k it Hin. rewrite Forall_forall in Hb. specialize (Hb it (in_map snd _ _ Hin)).
        destruct Hb as [v Hv | im0 l0 _ _ | ls0 _]; [exact Hv|reflexivity|exact I]. }
      split; [exact Hpos|]. split; [exact HP|]. split; [exact Hk|]. split; [unfold hb; lia|].
      intros k v Hin. unfold vb. rewrite vdepth_the.
      pose proof (fold_max_in (fun kv : bytes * item => item_vdepth (snd kv)) l (k, IValue v) Hin) as H. cbn [snd item_vdepth] in H. exact H.
    - split; [|split; [exact V|exact R]].
      cbn [flat_map]. unfold ftab_stmts at 1. cbn [f_P f_a f_l f_im]. rewrite S. unfold body_stmts. rewrite V, <- app_assoc. reflexivity.
  Qed.

  Theorem flat_claims :
    (forall it, BuiltItem PS PK it -> item_claim it) /\ (forall l, BuiltEntries PS PK l -> entries_claim l).
  Proof.
    apply Built_strong.
    - exact claim_value.
    - intros im l _ Hp Hl. apply claim_table; assumption.
    - intros ls _ Hls. apply claim_aot, Hls.
    - exact claim_entries.
  Qed.
End Claims.

(* ---- from the specification tree back to the abstract tree of Model/Build.v ------------------------------------------ *)
Fixpoint conv_node (n : D.node aval) : anode :=
  match n with
  | D.NVal a => AVal a
  | D.NTab _ c => ATbl (map (fun kn => (fst kn, conv_node (snd kn))) c)
  | D.NAot es => AAot (map (map (fun kn => (fst kn, conv_node (snd kn)))) es)
  end.
Definition conv (t : D.stree aval) : list (bytes * anode) := map (fun kn => (fst kn, conv_node (snd kn))) t.

Lemma conv_app a b : conv (a ++ b) = conv a ++ conv b.
Proof. unfold conv. apply map_app. Qed.

Lemma conv_kv_res l : conv (kv_res l) = val_entries (forget_entries l).
Proof.
  unfold kv_res, val_entries, forget_entries. induction l as [|[k n] l IH]; [reflexivity|]. cbn [flat_map map fst snd].
  rewrite conv_app, IH. destruct n; reflexivity.
Qed.

Lemma snode_strong (P : snode -> Prop) :
  (forall a, P (SVal a)) ->
  (forall hid l, Forall (fun kv => P (snd kv)) l -> P (STbl hid l)) ->
  (forall ls, Forall (Forall (fun kv => P (snd kv))) ls -> P (SAot ls)) ->
  forall n, P n.
Proof.
  intros H1 H2 H3. fix IH 1. intros [a|hid l|ls].
  - apply H1.
  - apply H2. induction l as [|[k n] l IHl]; constructor; [apply IH|exact IHl].
  - apply H3. induction ls as [|l ls IHls]; constructor; [|exact IHls].
    induction l as [|[k n] l IHl]; constructor; [apply IH|exact IHl].
Qed.

Lemma conv_body_res_if l :
  Forall (fun kv => map conv_node (node_res (snd kv)) = printed_node (forget (snd kv))) l ->
  conv (body_res l) = printed_entries (forget_entries l).
Proof.
  intro H. unfold body_res, printed_entries. rewrite conv_app, conv_kv_res. f_equal.
  unfold forget_entries. induction H as [|[k n] l Hn _ IHl]; [reflexivity|]. cbn [flat_map map fst snd] in *.
  rewrite conv_app, IHl. f_equal. unfold conv. rewrite map_map. cbn [fst snd]. rewrite <- Hn, map_map. reflexivity.
Qed.

Lemma conv_node_res : forall n, map conv_node (node_res n) = printed_node (forget n).
Proof.
  apply snode_strong.
  - reflexivity.
  - intros hid l IH. rewrite node_res_tbl. cbn [map conv_node forget printed_node]. f_equal. f_equal.
    exact (conv_body_res_if l IH).
  - intros ls IH. rewrite node_res_aot. destruct ls as [|l0 ls]; [reflexivity|].
    change (forget (SAot (l0 :: ls))) with (AAot (map forget_entries (l0 :: ls))).
    set (LS := l0 :: ls) in *.
    assert (Ep : printed_node (AAot (map forget_entries LS)) = [AAot (map printed_entries (map forget_entries LS))]) by reflexivity.
    rewrite Ep. cbn [map conv_node]. f_equal. f_equal. rewrite !map_map.
    clear Ep. clearbody LS. induction IH as [|l LS' Hl _ IHLS]; [reflexivity|]. cbn [map]. rewrite IHLS. f_equal.
    exact (conv_body_res_if l Hl).
Qed.

Lemma conv_body_res l : conv (body_res l) = printed_entries (forget_entries l).
Proof. apply conv_body_res_if. apply Forall_forall. intros kv _. apply conv_node_res. Qed.

(* the two abstractions of a parsed tree agree (it holds no Item::None) *)
Lemma abs_conv : forall t, DB.mok_tbl t = true -> abs_tbl t = conv (map_tree abs_value (DB.abs_tbl t)).
Proof.
  fix IHt 1. intros [items d im dt p sp] Hm.
  rewrite DB.abs_tbl_eq, DB.mok_tbl_eq in *. cbn [t_items abs_tbl] in *. unfold DB.abs_items, DB.mok_items in *.
  induction items as [|[k it] items IHi]; [reflexivity|].
  cbn [forallb snd] in Hm. apply andb_true_iff in Hm as [Hit Hrest].
  assert (Eit : abs_item it = [conv_node (map_node abs_value (DB.abs_item it))]).
  { destruct it as [|v|sub|ts sp0]; [cbn [DB.mok_item] in Hit; discriminate|reflexivity| |].
    - cbn [DB.mok_item] in Hit. cbn [abs_item DB.abs_item map_node conv_node]. do 2 f_equal. apply (IHt sub Hit).
    - rewrite DB.mok_item_aot in Hit. rewrite DB.abs_item_aot. cbn [abs_item map_node conv_node]. do 2 f_equal.
      rewrite !map_map. induction ts as [|t0 ts IHts]; [reflexivity|]. cbn [forallb map] in *.
      apply andb_true_iff in Hit as [H0 Hts]. unfold DB.mok_elem in H0. apply andb_true_iff in H0 as [_ H0].
      rewrite (IHts Hts). f_equal. apply (IHt t0 H0). }
  cbn [flat_map map]. rewrite (IHi Hrest), Eit. reflexivity.
Qed.

(* ---- Display for DocumentMut on a constructed document, as lines -------------------------------------------------------- *)
Section Doc.
  Variable ftext : fval -> bytes.
  Local Notation PS := (leaf_ok ftext).
  Local Notation PK := key_ok.

  Fixpoint tables_lines (Fs : list ftab) (first : bool) : list dline :=
    match Fs with
    | [] => []
    | f :: tl => table_lines (f_P f) (f_a f) (f_im f) first (f_l f)
                 ++ tables_lines tl (table_first (f_P f) (f_a f) (f_im f) first (f_l f))
    end.

  Lemma visit_tables_flat Fs : Forall (fun f => entries_flat PS PK (f_l f)) Fs -> forall first,
    visit_tables (map (fun x => (0%N, x)) (map (r3 ftext) (map f_tbl Fs))) first = lines_txt ftext (tables_lines Fs first).
  Proof.
    induction 1 as [|f Fs Hf _ IH]; intro first; [reflexivity|].
    cbn [map visit_tables f_tbl r3 fst snd tables_lines].
    rewrite (visit_table_flat ftext PS PK (f_P f) (f_a f) (f_im f) first (f_l f) (f_pos f) Hf).
    rewrite lines_txt_app, IH. reflexivity.
  Qed.

  Lemma lines_stmts_app a b : lines_stmts (a ++ b) = lines_stmts a ++ lines_stmts b.
  Proof. unfold lines_stmts. apply flat_map_app. Qed.

  Lemma val_lines_stmts l : lines_stmts (val_lines l) = val_stmts l.
  Proof.
    unfold val_lines, val_stmts. induction l as [|[k it] l IH]; [reflexivity|]. cbn [flat_map fst snd].
    rewrite lines_stmts_app, IH. destruct it; reflexivity.
  Qed.

  Lemma tables_lines_stmts Fs : forall first, lines_stmts (tables_lines Fs first) = flat_map ftab_stmts Fs.
  Proof.
    induction Fs as [|f Fs IH]; intro first; [reflexivity|]. cbn [tables_lines flat_map].
    rewrite lines_stmts_app, IH. f_equal. unfold table_lines, ftab_stmts, hdr_stmt.
    rewrite lines_stmts_app, val_lines_stmts. f_equal.
    destruct (f_P f) as [|k0 P']; [reflexivity|]. destruct (shown (f_a f) (f_im f) (f_l f)); [|reflexivity].
    destruct first, (f_a f); reflexivity.
  Qed.

  Lemma tables_lines_ok hb vb Fs : hb < LIMIT -> vb < LIMIT -> Forall (f_ok PS PK hb vb) Fs ->
    forall first, Forall (line_ok ftext) (tables_lines Fs first).
  Proof.
    intros Hh Hv. induction 1 as [|f Fs Hf _ IH]; intro first; [constructor|]. cbn [tables_lines].
    apply Forall_app. split; [|apply IH].
    destruct Hf as (Hflat & _ & HP & Hkeys & Hlen & Hdep). unfold table_lines. apply Forall_app. split.
    - destruct (f_P f) as [|k0 P'] eqn:EP; [constructor|]. destruct (shown (f_a f) (f_im f) (f_l f)); [|constructor].
      apply Forall_app. split; [destruct first; repeat constructor|].
      constructor; [|constructor]. cbn [line_ok]. split; [discriminate|]. split; [exact HP|]. lia.
    - unfold val_lines. apply Forall_forall. intros ln Hin. apply in_flat_map in Hin as ([k it] & Hkv & Hln). cbn [fst snd] in Hln.
      destruct it as [|v|sub|ts sp0]; try contradiction. destruct Hln as [<-|[]]. cbn [line_ok].
      split; [rewrite Forall_forall in Hkeys; apply Hkeys; apply (in_map fst) in Hkv; exact Hkv|].
      split; [exact (Hflat k (IValue v) Hkv)|]. specialize (Hdep k v Hkv). lia.
  Qed.

  (* C06_document *)
  Theorem built_document_roundtrip t :
    BuiltTbl PS PK t -> tbl_hdepth t < LIMIT -> tbl_vdepth t < LIMIT ->
    exists d, parse_document (display_document (render_tbl ftext t) REmpty) = POk d
              /\ abs_tbl (doc_root d) = printed_entries (abs_tbl t).
  Proof.
    intros (l & im & pos & Hl & Hpos & ->) Hh Hv. fold (the_tbl im l pos) in *.
    destruct (flat_claims PS PK) as [_ Hent].
    destruct (Hent l Hl [] false im pos Hpos (Forall_nil _)) as (Fs & L & Eabs & Hwf & Etab & Hok & Estm & _ & _).
    cbn [length Nat.add hdr_stmt app map] in *.
    (* the printed text *)
    assert (Etxt : display_document (render_tbl ftext (the_tbl im l pos)) REmpty = lines_txt ftext (tables_lines Fs true)).
    { unfold display_document.
      rewrite nested_tables_eq by lia. rewrite tbl_tables_render, Etab.
      rewrite assign_positions_zero.
      2:{ apply Forall_forall. intros x Hx. apply in_map_iff in Hx as (y & <- & Hy). apply in_map_iff in Hy as (f & <- & Hf).
          rewrite Forall_forall in Hok. destruct (Hok f Hf) as (_ & Hp & _). unfold pos_ok, r3, f_tbl. cbn [fst snd]. exact Hp. }
      rewrite stable_sort_zero by (apply Forall_forall; intros y Hy; apply in_map_iff in Hy as (x & <- & _); reflexivity).
      rewrite visit_tables_flat.
      2:{ eapply Forall_impl; [|exact Hok]. intros f (Hf & _). exact Hf. }
      assert (Ed : t_decor (render_tbl ftext (the_tbl im l pos)) = decor_default) by reflexivity. rewrite Ed.
      unfold decor_prefix, decor_suffix. cbn. rewrite !app_nil_r. reflexivity. }
    rewrite Etxt.
    destruct (doc_fold L Hwf) as (cur' & Efold).
    destruct (parse_lines ftext (tables_lines Fs true) (body_res L) cur') as (d & Ed & Hmok & Habs).
    - apply (tables_lines_ok _ _ Fs Hh Hv Hok).
    - rewrite tables_lines_stmts, Estm. exact Efold.
    - exists d. split; [exact Ed|]. rewrite (abs_conv _ Hmok), Habs, conv_body_res, Eabs. reflexivity.
  Qed.
End Doc.

(* ---- with the leaves discharged -------------------------------------------------------------------------------------- *)
From TV Require Import Proofs.BuiltRTWF.

Lemma Built_mono (PS PS' : scalar -> Prop) (PK PK' : bytes -> Prop) :
  (forall s, PS s -> PS' s) -> (forall k, PK k -> PK' k) ->
  (forall it, BuiltItem PS PK it -> BuiltItem PS' PK' it) /\ (forall l, BuiltEntries PS PK l -> BuiltEntries PS' PK' l).
Proof.
  intros HS HK. apply Built_strong.
  - intros v Hv. constructor. apply (BuiltValue_mono PS PS' PK PK' HS HK v Hv).
  - intros im l _ Hp Hl. constructor; assumption.
  - intros ls _ Hls. constructor. exact Hls.
  - intros l Hnd Hk _ IH. constructor; [exact Hnd| |exact IH]. rewrite Forall_forall in *. auto.
Qed.

Theorem document_roundtrip t :
  BuiltTbl scalar_ok key_ok t -> tbl_hdepth t < LIMIT -> tbl_vdepth t < LIMIT ->
  exists d, parse_document (display_document (render_tbl float_text t) REmpty) = POk d
            /\ abs_tbl (doc_root d) = printed_entries (abs_tbl t).
Proof.
  intros (l & im & pos & Hl & Hpos & ->) Hh Hv. apply built_document_roundtrip; [|exact Hh|exact Hv].
  exists l, im, pos. split; [|auto].
  apply (proj2 (Built_mono scalar_ok (leaf_ok float_text) key_ok key_ok scalar_leaf (fun k H => H))), Hl.
Qed.

Theorem constructed_document_roundtrip from_table l :
  centries_ok scalar_ok key_ok l ->
  tbl_hdepth (eval_doc from_table l) < LIMIT -> tbl_vdepth (eval_doc from_table l) < LIMIT ->
  exists d, parse_document (display_document (render_tbl float_text (eval_doc from_table l)) REmpty) = POk d
            /\ abs_tbl (doc_root d) = printed_entries (abs_tbl (eval_doc from_table l)).
Proof. intros Hl Hh Hv. apply document_roundtrip; [apply eval_doc_built, Hl|exact Hh|exact Hv]. Qed.
