(* Proofs/GrammarValueTok.v — C01/C02 layer L2: the scalar alternatives of `val` inside
   value.rs's dispatch.  First bytes of the tokens, what the follow set of a value (`vfollow`)
   implies for each token's own maximal-munch condition, and the ordered choice
   date_time / float / integer of the number arm: date_time and float fail WITHOUT commitment on
   the texts of the later alternatives. *)
From TV Require Import Base.Prelude Base.Utf8 Base.Winnow Gen.Consts Spec.Abnf Spec.Lex Spec.Defs Spec.Syntax.
From TV Require Import Model.Trivia Model.Strings Model.Datetime Model.Numbers Model.Tree Model.Parse.
From TV Require Import Proofs.ConstsOk Proofs.NumbersRT_Lex Proofs.NumbersRT_Value.
From TV Require Import Proofs.LexEquivBase Proofs.LexEquivTrivia Proofs.LexEquivInt Proofs.LexEquivFloat
                       Proofs.LexEquivStrings Proofs.LexEquivString Proofs.LexEquivBool Proofs.LexEquivDatetime
                       Proofs.LexEquivKey Proofs.GrammarBase Proofs.GrammarValueBase.
Require Import Lia ZifyBool ZifyN ZifyNat.

(* ================================================================================================ *)
(* the follow set of a value                                                                        *)
(* ================================================================================================ *)
Definition term_byte (b : byte) : Prop := b = x23 \/ b = x0a \/ b = x0d \/ b = x2c \/ b = x5d \/ b = x7d.

Lemma vfollow_head r : vfollow r ->
  r = [] \/ exists b r', r = b :: r' /\ (wschar b = true \/ term_byte b).
Proof.
  intros (w & r' & -> & Hw & Hs). destruct w as [|b w].
  - destruct r' as [|b r']; [auto|]. right. exists b, r'. split; [reflexivity|]. right. exact Hs.
  - right. exists b, (w ++ r'). split; [reflexivity|]. left.
    unfold ws_tok, all in Hw. cbn [forallb] in Hw. apply andb_true_iff in Hw as [Hb _]. exact Hb.
Qed.

Lemma vfollow_tail b r : vfollow (b :: r) -> wschar b = true -> vfollow r.
Proof.
  intros (w & r' & E & Hw & Hs) Hb. destruct w as [|c w].
  - cbn [app] in E. subst r'. cbn [vstop] in Hs. exfalso. revert Hb.
    destruct Hs as [-> | [-> | [-> | [-> | [-> | ->]]]]]; discriminate.
  - injection E as -> ->. exists w, r'. split; [reflexivity|]. split; [|exact Hs].
    unfold ws_tok, all in *. cbn [forallb] in Hw. apply andb_true_iff in Hw as [_ Hw]. exact Hw.
Qed.

Lemma vfollow_ws w r : ws_tok w -> vfollow r -> vfollow (w ++ r).
Proof.
  intros Hw (w' & r' & -> & Hw' & Hs). exists (w ++ w'), r'. split; [apply app_assoc|]. split; [|exact Hs].
  unfold ws_tok, all in *. rewrite forallb_app, Hw, Hw'. reflexivity.
Qed.

Lemma vstop_follow r : vstop r -> vfollow r.
Proof. intro H. exists [], r. split; [reflexivity|]. split; [reflexivity|exact H]. Qed.

Ltac follow_bytes H :=
  destruct (vfollow_head _ H) as [-> | (b & r' & -> & [Hb | [-> | [-> | [-> | [-> | [-> | ->]]]]]])];
  [exact I| |reflexivity|reflexivity|reflexivity|reflexivity|reflexivity|reflexivity].

Lemma vfollow_unquoted r : vfollow r -> stops unquoted_key_char r.
Proof. intro H. follow_bytes H. cbn [stops]. revert Hb. cls. lia. Qed.

Lemma vfollow_us_digit r : vfollow r -> stops (us_or Abnf.digit) r.
Proof. intro H. apply unquoted_stops_digit, vfollow_unquoted, H. Qed.

Lemma vfollow_is_e r : vfollow r -> stops LexEquivFloat.is_e r.
Proof. intro H. follow_bytes H. cbn [stops]. unfold LexEquivFloat.is_e. revert Hb. cls. lia. Qed.

Lemma vfollow_dot r : vfollow r -> stops (byte_eqb x2e) r.
Proof. intro H. follow_bytes H. cbn [stops]. revert Hb. cls. lia. Qed.

Lemma vfollow_no_quote r : vfollow r -> no_quote_follows r.
Proof.
  intro H. split; follow_bytes H; cbn [stops]; revert Hb; cls; lia.
Qed.

Lemma wschar_cases b : wschar b = true -> b = x20 \/ b = x09.
Proof.
  intro H. assert (E : b2n b = 32%N \/ b2n b = 9%N) by (revert H; cls; lia).
  destruct E as [E | E]; [left|right]; apply b2n_inj; rewrite E; reflexivity.
Qed.

Lemma vfollow_dt_stop r : vfollow r -> dt_stop r.
Proof.
  intro H. destruct (vfollow_head _ H) as [-> | (b & r' & -> & [Hb | Ht])]; [exact I| |].
  - pose proof (vfollow_tail _ _ H Hb) as H'. cbn [dt_stop].
    destruct (wschar_cases b Hb) as [-> | ->].
    + repeat split; try discriminate. intros _.
      destruct (vfollow_head _ H') as [-> | (c & r'' & -> & [Hc | [-> | [-> | [-> | [-> | [-> | ->]]]]]])];
        try reflexivity. revert Hc. cls. lia.
    + repeat split; discriminate.
  - cbn [dt_stop]. destruct Ht as [-> | [-> | [-> | [-> | [-> | ->]]]]]; repeat split; discriminate.
Qed.

Lemma vfollow_wscn_stop_after w r : wscn_tok w -> vstop r -> vfollow (w ++ r).
Proof.
  intros Hw Hr. destruct (wscn_split w Hw) as (w0 & t' & -> & Hw0 & Ht'). rewrite <- app_assoc.
  apply vfollow_ws; [exact Hw0|]. apply vstop_follow.
  destruct Ht' as [-> | (c & nl & t'' & -> & Hc & Hn & _)]; [exact Hr|].
  destruct Hc as [-> | (u & -> & _)].
  - cbn [app]. destruct (newline_tok_head nl Hn) as (b & tl & -> & [-> | ->]); cbn [app vstop]; auto.
  - cbn [app vstop]. auto.
Qed.

(* ================================================================================================ *)
(* first bytes                                                                                      *)
(* ================================================================================================ *)
Lemma string_tok_head t s : string_tok t s -> exists t', t = x22 :: t' \/ t = x27 :: t'.
Proof.
  intros [(_ & nl & body & -> & _) | [(_ & body & -> & _) | [(_ & nl & body & -> & _) | (_ & body & -> & _)]]];
    eexists; cbn [app]; eauto.
Qed.

Lemma sign_cases sg neg : sign sg neg -> sg = [] \/ sg = [x2b] \/ sg = [x2d].
Proof. intros [[-> _] | [[-> _] | [-> _]]]; auto. Qed.

(* bytes of a digit run with underscores *)
Lemma remove_us_bytes u ds : remove_us u = ds -> forallb Abnf.digit ds = true ->
  forallb (fun c => Abnf.digit c || byte_eqb c x5f) u = true.
Proof.
  intros <-. unfold remove_us, underscore. induction u as [|c u IH]; [reflexivity|]. cbn [filter forallb].
  destruct (byte_eqb c x5f) eqn:E; cbn [negb].
  - intro H. rewrite orb_true_r. apply IH, H.
  - cbn [forallb]. intro H. apply andb_true_iff in H as [H1 H2]. rewrite H1. apply IH, H2.
Qed.

Lemma digit_is_digit b : Abnf.digit b = is_digit b.
Proof. reflexivity. Qed.

(* what stops a digit run without letting date_time commit: no digit, no "-", no ":" *)
Definition nd_stop (r : bytes) : Prop :=
  match r with [] => True | b :: _ => is_digit b = false /\ b <> dash /\ b <> colon end.

Lemma vfollow_nd_stop r : vfollow r -> nd_stop r.
Proof.
  intro H. destruct (vfollow_head _ H) as [-> | (b & r' & -> & [Hb | Ht])]; [exact I| |]; cbn [nd_stop].
  - destruct (wschar_cases b Hb) as [-> | ->]; repeat split; discriminate.
  - destruct Ht as [-> | [-> | [-> | [-> | [-> | ->]]]]]; repeat split; discriminate.
Qed.

Lemma no_dt_run u r : forallb (fun c => Abnf.digit c || byte_eqb c x5f) u = true -> nd_stop r -> no_dt (u ++ r).
Proof.
  intros Hu Hr. induction u as [|c u IH].
  - cbn [app]. destruct r as [|b r]; [exact I|]. cbn [no_dt]. destruct Hr as (E & Hr). rewrite E. exact Hr.
  - cbn [forallb] in Hu. apply andb_true_iff in Hu as [Hc Hu]. cbn [app no_dt].
    destruct (is_digit c) eqn:E; [apply IH, Hu|].
    rewrite digit_is_digit, E in Hc. cbn [orb] in Hc. apply byte_eqb_eq in Hc. subst c. split; discriminate.
Qed.

Lemma unsigned_bytes u ds : unsigned_dec_int u ds -> forallb (fun c => Abnf.digit c || byte_eqb c x5f) u = true.
Proof. intro H. destruct (unsigned_facts u ds H) as (_ & Hd & Hr & _). apply (remove_us_bytes u ds Hr Hd). Qed.

Lemma no_dt0_sign b s : is_digit b = false -> no_dt0 (b :: s).
Proof. intro H. cbn [no_dt0]. rewrite H. exact I. Qed.

Lemma no_dt0_digits b u r : is_digit b = true -> no_dt (u ++ r) -> no_dt0 ((b :: u) ++ r).
Proof. intros H Hn. cbn [app no_dt0]. rewrite H. exact Hn. Qed.

Lemma unsigned_no_dt0 u ds r : unsigned_dec_int u ds -> nd_stop r -> no_dt0 (u ++ r).
Proof.
  intros Hu Hr. pose proof (unsigned_bytes u ds Hu) as Hb.
  destruct (unsigned_facts u ds Hu) as (_ & _ & _ & _ & b & u' & -> & Hd).
  cbn [forallb] in Hb. apply andb_true_iff in Hb as [_ Hb].
  apply no_dt0_digits; [exact Hd|]. apply no_dt_run; assumption.
Qed.

Lemma integer_no_dt0 t z r : integer_tok t z -> nd_stop r -> no_dt0 (t ++ r).
Proof.
  intros [(sg & neg & u & ds & -> & Hs & Hu & _) | Hp] Hr.
  - destruct (sign_cases sg neg Hs) as [-> | [-> | ->]].
    + cbn [app]. apply (unsigned_no_dt0 u ds r Hu Hr).
    + cbn [app]. apply no_dt0_sign. reflexivity.
    + cbn [app]. apply no_dt0_sign. reflexivity.
  - assert (E : exists c u, t = x30 :: c :: u /\ is_digit c = false /\ c <> dash /\ c <> colon).
    { destruct Hp as [(u & ds & -> & _) | [(u & ds & -> & _) | (u & ds & -> & _)]];
        eexists _, u; (split; [reflexivity|]); repeat split; discriminate. }
    destruct E as (c & u & -> & Hc & Hc'). cbn [app no_dt0 no_dt]. change (is_digit x30) with true. cbv iota.
    rewrite Hc. exact Hc'.
Qed.

Definition nd_head (tl : bytes) : Prop :=
  match tl with [] => False | b :: _ => is_digit b = false /\ b <> dash /\ b <> colon end.

Lemma nd_head_stop tl r : nd_head tl -> nd_stop (tl ++ r).
Proof. destruct tl as [|b tl]; [contradiction|]. intro H. exact H. Qed.

Lemma exp_nd_head ex e x : exp_tok ex e -> nd_head (ex ++ x).
Proof.
  intro He. destruct (exp_tok_head ex e He) as (c & t' & -> & Hc & _). cbn [app nd_head].
  apply is_e_cases in Hc as [-> | ->]; repeat split; discriminate.
Qed.

Lemma frac_nd_head fr frd x : frac_tok fr frd -> nd_head (fr ++ x).
Proof. intro Hf. destruct (frac_tok_head fr frd Hf) as (t' & -> & _). cbn [app nd_head]. repeat split; discriminate. Qed.

Lemma float_no_dt0 t f r : float_tok t f -> no_dt0 (t ++ r).
Proof.
  assert (Hnum : forall sg neg ip ipd tl, sign sg neg -> unsigned_dec_int ip ipd ->
            nd_head tl -> no_dt0 ((sg ++ ip ++ tl) ++ r)).
  { intros sg neg ip ipd tl Hs Hu Ht. rewrite <- !app_assoc.
    destruct (sign_cases sg neg Hs) as [-> | [-> | ->]]; cbn [app].
    - apply (unsigned_no_dt0 ip ipd _ Hu). apply nd_head_stop, Ht.
    - apply no_dt0_sign. reflexivity.
    - apply no_dt0_sign. reflexivity. }
  intro H. inversion H as [sg neg ip ipd ex e Hs Hu He|sg neg ip ipd fr frd Hs Hu Hf|sg neg ip ipd fr frd ex e Hs Hu Hf He|sg neg Hs|sg neg Hs]; subst.
  - apply (Hnum sg neg ip ipd ex Hs Hu). rewrite <- (app_nil_r ex). apply (exp_nd_head ex e [] He).
  - apply (Hnum sg neg ip ipd fr Hs Hu). rewrite <- (app_nil_r fr). apply (frac_nd_head fr frd [] Hf).
  - apply (Hnum sg neg ip ipd (fr ++ ex) Hs Hu). apply (frac_nd_head fr frd ex Hf).
  - destruct (sign_cases sg neg Hs) as [-> | [-> | ->]]; cbn [app]; apply no_dt0_sign; reflexivity.
  - destruct (sign_cases sg neg Hs) as [-> | [-> | ->]]; cbn [app]; apply no_dt0_sign; reflexivity.
Qed.

Lemma is_bt_fails {A} (p : parser A) i : is_bt (p i) -> fails p i.
Proof. unfold fails. destruct (p i); try contradiction. eauto. Qed.
Lemma fails_is_bt {A} (p : parser A) i : fails p i -> is_bt (p i).
Proof. intros (e & j & ->). exact I. Qed.

Lemma date_time_fails_int i t z r : integer_tok t z -> rest i = t ++ r -> vfollow r -> fails date_time i.
Proof.
  intros Ht H Hr. apply is_bt_fails, date_time_bt0. rewrite H. apply (integer_no_dt0 t z r Ht), vfollow_nd_stop, Hr.
Qed.

Lemma date_time_fails_float i t f r : float_tok t f -> rest i = t ++ r -> fails date_time i.
Proof. intros Ht H. apply is_bt_fails, date_time_bt0. rewrite H. apply (float_no_dt0 t f r Ht). Qed.

(* ---- float fails without commitment on an integer ------------------------------------------------- *)
Lemma bind_ok_fails {A B} (p : parser A) (f : A -> parser B) i a i' :
  p i = Ok a i' -> fails (f a) i' -> fails (bind p f) i.
Proof. intros E (e & j & F). unfold fails, bind. rewrite E, F. eauto. Qed.

Lemma float_tail_fails i : stops LexEquivFloat.is_e (rest i) -> stops (byte_eqb x2e) (rest i) -> fails float_tail i.
Proof.
  intros He Hd. unfold float_tail. apply alt_fails; [apply pvoid_fails, exp_fails, He|].
  apply bind_fails, frac_fails, Hd.
Qed.

Lemma float__fails_after_int i sg neg u ds r :
  sign sg neg -> unsigned_dec_int u ds -> rest i = (sg ++ u) ++ r ->
  stops (us_or Abnf.digit) r -> stops LexEquivFloat.is_e r -> stops (byte_eqb x2e) r -> fails float_ i.
Proof.
  intros Hs Hu H Hr He Hd. unfold fails. rewrite float__unfold. apply unchecked_fails, taken_fails.
  eapply bind_ok_fails; [apply (dec_int_complete i sg neg u ds r Hs Hu H Hr)|].
  apply float_tail_fails; rewrite (rest_adv _ _ _ H); assumption.
Qed.

Lemma one_digit_unsigned b : Abnf.digit b = true -> unsigned_dec_int [b] [b].
Proof. intro H. left. exists b. auto. Qed.

Lemma float_fails_int i t z r : integer_tok t z -> rest i = t ++ r -> vfollow r -> fails float i.
Proof.
  intros Ht H Hr. apply is_bt_fails. apply float_bt.
  - apply fails_is_bt. destruct Ht as [(sg & neg & u & ds & -> & Hs & Hu & _) | Hp].
    + apply (float__fails_after_int i sg neg u ds r Hs Hu H);
        [apply vfollow_us_digit|apply vfollow_is_e|apply vfollow_dot]; exact Hr.
    + assert (E : exists c u, t = [] ++ [x30] ++ c :: u /\ (c = x78 \/ c = x6f \/ c = x62)).
      { destruct Hp as [(u & ds & -> & _) | [(u & ds & -> & _) | (u & ds & -> & _)]]; eexists _, u; (split; [reflexivity|auto]). }
      destruct E as (c & u & -> & Hc).
      apply (float__fails_after_int i [] false [x30] [x30] ((c :: u) ++ r)
               (or_introl (conj eq_refl eq_refl)) (one_digit_unsigned x30 eq_refl)).
      * rewrite H. reflexivity.
      * destruct Hc as [-> | [-> | ->]]; reflexivity.
      * destruct Hc as [-> | [-> | ->]]; reflexivity.
      * destruct Hc as [-> | [-> | ->]]; reflexivity.
  - apply special_float_bt. rewrite H.
    assert (E : exists sg neg b tl, sign sg neg /\ t ++ r = sg ++ b :: tl /\ is_digit b = true).
    { destruct Ht as [(sg & neg & u & ds & -> & Hs & Hu & _) | Hp].
      - destruct (unsigned_facts u ds Hu) as (_ & _ & _ & _ & b & u' & -> & Hb).
        exists sg, neg, b, (u' ++ r). split; [exact Hs|]. split; [rewrite <- app_assoc; reflexivity|exact Hb].
      - exists [], false, x30. destruct Hp as [(u & ds & -> & _) | [(u & ds & -> & _) | (u & ds & -> & _)]];
          eexists; (split; [left; auto|]); split; reflexivity. }
    destruct E as (sg & neg & b & tl & Hs & -> & Hb).
    assert (Hns : NumbersRT_Lex.is_sign b = false).
    { unfold NumbersRT_Lex.is_sign. destruct (digit_not_sign b Hb) as [-> ->]. reflexivity. }
    assert (Hin : b <> x69 /\ b <> x6e) by (split; intros ->; discriminate Hb).
    destruct (sign_cases sg neg Hs) as [-> | [-> | ->]]; cbn [app].
    + rewrite Hns. exact Hin.
    + change (NumbersRT_Lex.is_sign x2b) with true. cbv iota. exact Hin.
    + change (NumbersRT_Lex.is_sign x2d) with true. cbv iota. exact Hin.
Qed.

(* ================================================================================================ *)
(* value.rs: the dispatch on the first byte                                                         *)
(* ================================================================================================ *)
Definition value_arm (vr : parser value) (b : byte) : parser value :=
  if byte_eqb b QUOTATION_MARK || byte_eqb b APOSTROPHE then pmap (fun s => scalar_value (SString s)) string_
  else if byte_eqb b ARRAY_OPEN then check_recursion (array vr)
  else if byte_eqb b INLINE_TABLE_OPEN then check_recursion (inline_table vr)
  else if in_class VALUE_NUMBER_START b then number_arm
  else if byte_eqb b x5f then context (pmap (fun z => scalar_value (SInt z)) integer)
  else if byte_eqb b x2e then context (pmap (fun f => scalar_value (SFloat f)) float)
  else if byte_eqb b x74 then context (pmap (fun v => scalar_value (SBool v)) true_)
  else if byte_eqb b x66 then context (pmap (fun v => scalar_value (SBool v)) false_)
  else if byte_eqb b x69 then context (pmap (fun f => scalar_value (SFloat f)) inf)
  else if byte_eqb b x6e then context (pmap (fun f => scalar_value (SFloat f)) nan)
  else context fail.

Lemma value_body_arm vr i b tl : rest i = b :: tl -> value_body vr i = value_arm vr b i.
Proof. intro H. unfold value_body, bind, context at 1, peek, any. rewrite H. reflexivity. Qed.

Lemma value_body_empty vr i : rest i = [] -> fails (value_body vr) i.
Proof. intro H. unfold fails, value_body, bind, context at 1, peek, any. rewrite H. eauto. Qed.

(* the value parser fails without commitment in front of "]" "," "}" (what `separated` relies on
   to end a list and to give back a trailing separator) *)
Lemma value_arm_close vr b : b = x5d \/ b = x2c \/ b = x7d -> value_arm vr b = context fail.
Proof. intros [-> | [-> | ->]]; reflexivity. Qed.

Lemma value_body_close vr i b tl : rest i = b :: tl -> b = x5d \/ b = x2c \/ b = x7d -> fails (value_body vr) i.
Proof.
  intros H Hb. unfold fails. rewrite (value_body_arm vr i b tl H), (value_arm_close vr b Hb).
  unfold context, fail. eauto.
Qed.

(* ---- completeness of the scalar arms ------------------------------------------------------------------ *)
Lemma value_body_string vr i t s r : string_tok t s -> rest i = t ++ r -> vfollow r ->
  value_body vr i = Ok (scalar_value (SString s)) (adv t i).
Proof.
  intros Ht H Hr. destruct (string_tok_head t s Ht) as (t' & [E | E]); rewrite E in H.
  - rewrite (value_body_arm vr i x22 _ H). change (value_arm vr x22) with (pmap (fun s => scalar_value (SString s)) string_).
    rewrite <- E in H. apply (pmap_ok (fun x => scalar_value (SString x))). apply (string_complete i t s r Ht H), vfollow_no_quote, Hr.
  - rewrite (value_body_arm vr i x27 _ H). change (value_arm vr x27) with (pmap (fun s => scalar_value (SString s)) string_).
    rewrite <- E in H. apply (pmap_ok (fun x => scalar_value (SString x))). apply (string_complete i t s r Ht H), vfollow_no_quote, Hr.
Qed.

Lemma value_body_boolean vr i t b r : boolean_tok t b -> rest i = t ++ r ->
  value_body vr i = Ok (scalar_value (SBool b)) (adv t i).
Proof.
  intros [[-> ->] | [-> ->]] H.
  - rewrite (value_body_arm vr i x74 _ H).
    change (value_arm vr x74) with (context (pmap (fun v => scalar_value (SBool v)) true_)).
    apply context_ok, (pmap_ok (fun v => scalar_value (SBool v))), (true_complete i r H).
  - rewrite (value_body_arm vr i x66 _ H).
    change (value_arm vr x66) with (context (pmap (fun v => scalar_value (SBool v)) false_)).
    apply context_ok, (pmap_ok (fun v => scalar_value (SBool v))), (false_complete i r H).
Qed.

Lemma digit_num_start b : Abnf.digit b = true -> num_start b = true.
Proof. intro H. unfold num_start. rewrite <- digit_is_digit, H. reflexivity. Qed.

Lemma value_body_date_time vr i t d r : date_time_tok t d -> rest i = t ++ r -> vfollow r ->
  value_body vr i = Ok (scalar_value (SDatetime d)) (adv t i).
Proof.
  intros Ht H Hr. destruct (date_time_tok_head t d Ht) as (b & t' & E & Hb). pose proof H as H'. rewrite E in H'. cbn [app] in H'.
  rewrite (value_body_number vr i b _ H' (digit_num_start b Hb)).
  unfold number_arm. apply alt_ok, (pmap_ok (fun x => scalar_value (SDatetime x))). apply (date_time_complete i t d r Ht H), vfollow_dt_stop, Hr.
Qed.

Lemma sign_num_start sg neg b tl x : sign sg neg -> Abnf.digit b = true -> sg ++ b :: tl = x ->
  exists c tl', x = c :: tl' /\ num_start c = true.
Proof.
  intros Hs Hb <-. destruct (sign_cases sg neg Hs) as [-> | [-> | ->]]; cbn [app]; eexists _, _; split; try reflexivity.
  apply digit_num_start, Hb.
Qed.

Lemma integer_tok_start t z : integer_tok t z -> exists c tl, t = c :: tl /\ num_start c = true.
Proof.
  intros [(sg & neg & u & ds & -> & Hs & Hu & _) | Hp].
  - destruct (unsigned_facts u ds Hu) as (_ & _ & _ & _ & b & u' & -> & Hb). apply (sign_num_start sg neg b u' _ Hs Hb eq_refl).
  - destruct Hp as [(u & ds & -> & _) | [(u & ds & -> & _) | (u & ds & -> & _)]]; eexists _, _; split; reflexivity.
Qed.

Lemma value_body_integer vr i t z r : integer_tok t z -> in_i64 z = true -> rest i = t ++ r -> vfollow r ->
  value_body vr i = Ok (scalar_value (SInt z)) (adv t i).
Proof.
  intros Ht Hz H Hr. destruct (integer_tok_start t z Ht) as (c & tl & E & Hc). pose proof H as H'. rewrite E in H'.
  rewrite (value_body_number vr i c _ H' Hc). apply number_arm_int.
  - apply fails_is_bt, (date_time_fails_int i t z r Ht H Hr).
  - apply fails_is_bt, (float_fails_int i t z r Ht H Hr).
  - apply (integer_complete i t z r Ht Hz H), vfollow_unquoted, Hr.
Qed.

Lemma value_body_float vr i t f r : float_tok t f -> finite f -> rest i = t ++ r -> vfollow r ->
  value_body vr i = Ok (scalar_value (SFloat f)) (adv t i).
Proof.
  intros Ht Hf H Hr.
  assert (Hfl : float i = Ok f (adv t i))
    by (apply (float_complete i t f r Ht Hf H); [apply vfollow_us_digit|apply vfollow_is_e]; exact Hr).
  assert (Hnum : forall c tl, t = c :: tl -> num_start c = true ->
            value_body vr i = Ok (scalar_value (SFloat f)) (adv t i)).
  { intros c tl E Hc. pose proof H as H'. rewrite E in H'. rewrite (value_body_number vr i c _ H' Hc).
    apply number_arm_float; [|exact Hfl]. apply fails_is_bt, (date_time_fails_float i t f r Ht H). }
  assert (Hdec : forall sg neg ip ipd tl, sign sg neg -> unsigned_dec_int ip ipd -> t = sg ++ ip ++ tl ->
            value_body vr i = Ok (scalar_value (SFloat f)) (adv t i)).
  { intros sg neg ip ipd tl Hs Hu E. destruct (unsigned_facts ip ipd Hu) as (_ & _ & _ & _ & b & u' & -> & Hb).
    destruct (sign_num_start sg neg b (u' ++ tl) t Hs Hb) as (c & tl' & E' & Hc); [rewrite E; reflexivity|].
    apply (Hnum c tl' E' Hc). }
  inversion Ht as [sg neg ip ipd ex e Hs Hu He|sg neg ip ipd fr frd Hs Hu Hfr|sg neg ip ipd fr frd ex e Hs Hu Hfr He|sg neg Hs|sg neg Hs];
    subst.
  - apply (Hdec sg neg ip ipd ex Hs Hu eq_refl).
  - apply (Hdec sg neg ip ipd fr Hs Hu eq_refl).
  - apply (Hdec sg neg ip ipd (fr ++ ex) Hs Hu eq_refl).
  - destruct (sign_cases sg neg Hs) as [-> | [-> | ->]].
    + cbn [app] in *. rewrite (value_body_arm vr i x69 _ H).
      change (value_arm vr x69) with (context (pmap (fun f => scalar_value (SFloat f)) inf)).
      destruct Hs as [[_ ->] | [[E _] | [E _]]]; try discriminate E.
      apply context_ok, (pmap_ok (fun x => scalar_value (SFloat x))). unfold inf. apply (pvalue_ok _ _ _ INF), (lit_ok INF i r H).
    + apply (Hnum x2b _ eq_refl eq_refl).
    + apply (Hnum x2d _ eq_refl eq_refl).
  - destruct (sign_cases sg neg Hs) as [-> | [-> | ->]].
    + cbn [app] in *. rewrite (value_body_arm vr i x6e _ H).
      change (value_arm vr x6e) with (context (pmap (fun f => scalar_value (SFloat f)) nan)).
      destruct Hs as [[_ ->] | [[E _] | [E _]]]; try discriminate E.
      apply context_ok, (pmap_ok (fun x => scalar_value (SFloat x))). unfold nan. apply (pvalue_ok _ _ _ NAN), (lit_ok NAN i r H).
    + apply (Hnum x2b _ eq_refl eq_refl).
    + apply (Hnum x2d _ eq_refl eq_refl).
Qed.
