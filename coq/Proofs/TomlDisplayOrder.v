(* Proofs/TomlDisplayOrder.v — C06 for toml::Value Display: what the parsed document holds, as a toml::Value with its
   maps in the order of the text (`root_order`), and that this is the value itself up to the order of map entries
   (and the sign of NaN, which the serializer drops). *)
From TV Require Import Base.Prelude Base.Utf8 Base.Winnow Gen.Consts.
From TV Require Import Model.Datetime Model.Numbers Model.Tree Model.Parse Model.Document Model.Write Model.Encode Model.Build.
From TV Require Import Model.TomlDisplay.
From TV Require Import Proofs.BuiltRTEncode Proofs.BuiltRTValue Proofs.BuiltRTDocEncode Proofs.BuiltRTDoc Proofs.TomlDisplay.
From Coq Require Import Permutation.
Require Import Lia.

(* ---- the serializer's order, on the entries themselves ---------------------------------------------------------- *)
Definition ord_kv (three : bool) (m : list (bytes * tvc)) : list (bytes * tvc) :=
  if three then filter (fun kv => c_pass1 (snd kv)) m ++ filter (fun kv => c_pass2 (snd kv)) m ++ filter (fun kv => c_pass3 (snd kv)) m
  else m.

Lemma filter_map_comm {A B} (g : A -> B) (p : B -> bool) l : filter p (map g l) = map g (filter (fun x => p (g x)) l).
Proof. induction l as [|x l IH]; [reflexivity|]. cbn [map filter]. destruct (p (g x)); cbn [map]; rewrite IH; reflexivity. Qed.

Lemma filter_true {A} (l : list A) : filter (fun _ => true) l = l.
Proof. induction l as [|x l IH]; [reflexivity|]. cbn. rewrite IH. reflexivity. Qed.

Lemma in_order_map {A} three (f : tvc -> A) m :
  in_order three (map (fun kv => (fst kv, snd kv, f (snd kv))) m) = map (fun kv => (fst kv, f (snd kv))) (ord_kv three m).
Proof.
  unfold in_order, ord_kv. destruct three.
  - rewrite !filter_map_comm, !map_map, !map_app. cbn [fst snd]. reflexivity.
  - rewrite filter_true, map_map. reflexivity.
Qed.

Lemma ord_kv_in three m kv : In kv (ord_kv three m) -> In kv m.
Proof.
  unfold ord_kv. destruct three; [|auto]. intro H.
  apply in_app_or in H as [H|H]; [apply filter_In in H; tauto|].
  apply in_app_or in H as [H|H]; apply filter_In in H; tauto.
Qed.

Lemma filter_ord_kv three (q : bytes * tvc -> bool) m : filter q (ord_kv three m) = ord_kv three (filter q m).
Proof.
  unfold ord_kv. destruct three; [|reflexivity]. rewrite !filter_app.
  assert (C : forall p, filter q (filter p m) = filter p (filter q m)).
  { intro p. induction m as [|x l IH]; [reflexivity|]. cbn [filter].
    destruct (p x) eqn:Ep, (q x) eqn:Eq; cbn [filter]; rewrite ?Ep, ?Eq, IH; reflexivity. }
  rewrite !C. reflexivity.
Qed.

(* ---- unfolding the order functions ----------------------------------------------------------------------------------- *)
Lemma val_order_tab m : val_order (TvTab m) = TvTab (map (fun kv => (fst kv, val_order (snd kv))) (ord_kv true m)).
Proof.
  cbn [val_order]. f_equal. rewrite <- in_order_map. f_equal.
  induction m as [|[k x] m IH]; [reflexivity|]. cbn [map fst snd]. rewrite IH. reflexivity.
Qed.

Definition line_kv (kv : bytes * tvc) : bool := c_is_line (snd kv).

Lemma root_order_eq three m :
  root_order three m = map (fun kv => (fst kv, tab_order (snd kv))) (filter line_kv (ord_kv three m))
                       ++ map (fun kv => (fst kv, tab_order (snd kv))) (filter (fun kv => negb (line_kv kv)) (ord_kv three m)).
Proof.
  unfold root_order. rewrite !filter_map_comm. cbn [fst snd]. rewrite !in_order_map, !filter_ord_kv. reflexivity.
Qed.

Lemma tab_order_tab m : tab_order (TvTab m) = TvTab (root_order true m).
Proof.
  cbn [tab_order]. unfold root_order. do 4 f_equal;
    (induction m as [|[k x] m IH]; [reflexivity|]; cbn [map fst snd]; rewrite IH; reflexivity).
Qed.

(* ---- values ------------------------------------------------------------------------------------------------------------ *)
Lemma value_comes_back : forall v, tvc_of_aval (abs_value (tv_value v)) = val_order v.
Proof.
  apply tvc_strong.
  - reflexivity.
  - intros l IH. cbn [tv_value val_order]. unfold array_from_iter. rewrite abs_built_array. cbn [tvc_of_aval]. f_equal.
    rewrite !map_map. apply map_ext_in. intros x Hx. rewrite Forall_forall in IH. apply IH, Hx.
  - intros m IH. rewrite tv_value_tab, val_order_tab. unfold vents. rewrite in_order_map, abs_built_inline. cbn [tvc_of_aval]. f_equal.
    rewrite !map_map. cbn [fst snd]. apply map_ext_in. intros kv Hkv. f_equal.
    rewrite Forall_forall in IH. apply (IH kv). apply (ord_kv_in true m kv Hkv).
Qed.

Lemma tab_order_line v : c_is_line v = true -> tab_order v = val_order v.
Proof. destruct v as [s|l|m]; cbn [c_is_line tab_order val_order]; [reflexivity| |discriminate]. intro H. apply negb_true_iff in H. rewrite H. reflexivity. Qed.

(* ---- tables ------------------------------------------------------------------------------------------------------------ *)
Definition is_aval (n : anode) : bool := match n with AVal _ => true | _ => false end.

(* what one entry contributes to the printed form of its table *)
Definition node_back (x : tvc) : Prop :=
  if c_is_line x
  then True
  else exists n, abs_item (tv_item x) = [n] /\ is_aval n = false /\ map tvc_of_anode (printed_node n) = [tab_order x].

Lemma abs_item_line x : c_is_line x = true -> abs_item (tv_item x) = [AVal (abs_value (tv_value x))].
Proof. intro H. rewrite (tv_item_line x H). reflexivity. Qed.

Lemma entries_back (O : list (bytes * tvc)) :
  Forall (fun kv => node_back (snd kv)) O ->
  tvc_of_entries (printed_entries (flat_map (fun kv => map (fun n => (fst kv, n)) (abs_item (tv_item (snd kv)))) O))
  = map (fun kv => (fst kv, tab_order (snd kv))) (filter line_kv O)
    ++ map (fun kv => (fst kv, tab_order (snd kv))) (filter (fun kv => negb (line_kv kv)) O).
Proof.
  intro H. unfold printed_entries, tvc_of_entries. rewrite map_app. f_equal.
  - unfold val_entries. induction H as [|[k x] O Hx _ IH]; [reflexivity|].
    cbn [flat_map fst snd filter]. unfold line_kv at 1. cbn [snd].
    rewrite flat_map_app, map_app, IH. unfold node_back in Hx. cbn [snd] in Hx. destruct (c_is_line x) eqn:El.
    + rewrite (abs_item_line x El). cbn [map flat_map fst snd app tvc_of_anode]. rewrite value_comes_back, (tab_order_line x El). reflexivity.
    + destruct Hx as (n & En & Hn & _). rewrite En. cbn [map flat_map fst snd app]. destruct n; [discriminate Hn|reflexivity|reflexivity].
  - induction H as [|[k x] O Hx _ IH]; [reflexivity|].
    cbn [flat_map fst snd filter]. unfold line_kv at 1. cbn [snd].
    rewrite flat_map_app, map_app, IH. unfold node_back in Hx. cbn [snd] in Hx. destruct (c_is_line x) eqn:El.
    + rewrite (abs_item_line x El). cbn [map flat_map fst snd app printed_node negb]. reflexivity.
    + destruct Hx as (n & En & _ & Hp). rewrite En. cbn [map flat_map fst snd app negb]. rewrite app_nil_r, map_map. cbn [fst snd].
      f_equal. rewrite <- (map_map tvc_of_anode (fun r => (k, r))), Hp. reflexivity.
Qed.

Lemma table_back three b m :
  Forall (fun kv => node_back (snd kv)) m ->
  tvc_of_entries (printed_entries (abs_tbl (doc_tbl b (in_order three (ients m))))) = root_order three m.
Proof.
  intro H. rewrite doc_tbl_the, abs_tbl_the. unfold ients. rewrite in_order_map.
  rewrite root_order_eq. rewrite <- entries_back.
  - f_equal. f_equal. induction (ord_kv three m) as [|kv O IH]; [reflexivity|]. cbn [map flat_map fst snd]. rewrite IH. reflexivity.
  - apply Forall_forall. intros kv Hkv. rewrite Forall_forall in H. apply H. apply (ord_kv_in three m kv Hkv).
Qed.

Theorem node_back_all : forall v, node_back v.
Proof.
  apply tvc_strong.
  - intro s. exact I.
  - intros l IH. unfold node_back. destruct (c_is_line (TvArr l)) eqn:El; [exact I|].
    cbn [c_is_line] in El. apply negb_false_iff in El. rewrite (tv_item_aot l El).
    set (ts := map (fun x : bool * list (bytes * item) => Tbl (mk_tbl_items (snd x)) decor_default (fst x) false None None) (map tab_of l)).
    exists (AAot (map abs_tbl ts)). split; [reflexivity|]. split; [reflexivity|].
    cbn [tab_order]. rewrite El.
    assert (Hall : forallb tvc_is_table l = true) by (destruct l; [discriminate|exact El]).
    assert (Hne : l <> []) by (destruct l; [discriminate|discriminate]).
    assert (Ep : printed_node (AAot (map abs_tbl ts)) = [AAot (map printed_entries (map abs_tbl ts))]).
    { unfold ts. destruct l; [contradiction|reflexivity]. }
    rewrite Ep. cbn [map tvc_of_anode]. f_equal. f_equal. unfold ts. rewrite !map_map.
    apply map_ext_in. intros x Hx. rewrite forallb_forall in Hall. specialize (Hall x Hx).
    destruct x as [s|l0|m]; try discriminate. cbn [tab_of fst snd]. rewrite tab_order_tab. f_equal.
    rewrite Forall_forall in IH. specialize (IH _ Hx). unfold node_back in IH. cbn [c_is_line] in IH.
    destruct IH as (n & En & _ & Hp). rewrite tv_item_tab in En. cbn [abs_item] in En. injection En as <-.
    cbn [printed_node map tvc_of_anode] in Hp. rewrite tab_order_tab in Hp. injection Hp as Hp. exact Hp.
  - intros m IH. unfold node_back. cbn [c_is_line]. rewrite tv_item_tab. eexists. split; [reflexivity|]. split; [reflexivity|].
    cbn [printed_node map tvc_of_anode]. rewrite tab_order_tab. f_equal. f_equal.
    exact (table_back true (nonempty_b m) m IH).
Qed.

(* the parsed document as a toml::Value *)
Theorem document_comes_back three m :
  tvc_of_entries (printed_entries (abs_tbl (tv_doc three m))) = root_order three m.
Proof.
  unfold tv_doc. fold (ients m). apply table_back. apply Forall_forall. intros kv _. apply node_back_all.
Qed.

(* ---- ... which is the value itself, up to the order of map entries and the sign of NaN --------------------------------- *)
(* the value the serializer sees: ValueSerializer::serialize_f64 drops the sign of NaN *)
Fixpoint norm_leaves (v : tvc) : tvc :=
  match v with
  | TvLeaf s => TvLeaf (ser_scalar s)
  | TvArr l => TvArr (map norm_leaves l)
  | TvTab m => TvTab (map (fun kv => (fst kv, norm_leaves (snd kv))) m)
  end.

(* w is v with the entries of any of its maps, at any depth, permuted (toml::Map is a map: under BTreeMap both are
   the same value; under IndexMap they differ in iteration order only) *)
Inductive perm_tvc : tvc -> tvc -> Prop :=
| PL s : perm_tvc (TvLeaf s) (TvLeaf s)
| PA l l' : Forall2 perm_tvc l l' -> perm_tvc (TvArr l) (TvArr l')
| PT m m1 m' :
    Permutation m m1 ->
    Forall2 (fun a b => fst a = fst b /\ perm_tvc (snd a) (snd b)) m1 m' ->
    perm_tvc (TvTab m) (TvTab m').

Lemma Forall2_map_in {A B C} (R : B -> C -> Prop) (f : A -> B) (g : A -> C) l :
  (forall x, In x l -> R (f x) (g x)) -> Forall2 R (map f l) (map g l).
Proof.
  induction l as [|x l IH]; intro H; [constructor|]. cbn [map]. constructor; [apply H; left; reflexivity|].
  apply IH. intros y Hy. apply H. right. exact Hy.
Qed.

Lemma ord_kv_perm three m : Permutation m (ord_kv three m).
Proof. unfold ord_kv. destruct three; [|apply Permutation_refl]. symmetry. apply (three_pass_perm (fun kv : bytes * tvc => snd kv)). Qed.

Lemma partition_perm {A} (q : A -> bool) l : Permutation l (filter q l ++ filter (fun x => negb (q x)) l).
Proof.
  induction l as [|x l IH]; [constructor|]. cbn [filter]. destruct (q x); cbn [negb app].
  - constructor. exact IH.
  - eapply Permutation_trans; [apply perm_skip, IH|]. apply Permutation_middle.
Qed.

Lemma value_same : forall v, perm_tvc (norm_leaves v) (val_order v).
Proof.
  apply tvc_strong.
  - intro s. constructor.
  - intros l IH. cbn [norm_leaves val_order]. constructor. apply Forall2_map_in. rewrite Forall_forall in IH. exact IH.
  - intros m IH. rewrite val_order_tab. cbn [norm_leaves].
    apply PT with (m1 := map (fun kv => (fst kv, norm_leaves (snd kv))) (ord_kv true m)).
    + apply Permutation_map, ord_kv_perm.
    + apply Forall2_map_in. intros kv Hkv. cbn [fst snd]. split; [reflexivity|].
      rewrite Forall_forall in IH. apply IH. apply (ord_kv_in true m kv Hkv).
Qed.

Lemma root_same three m :
  (forall kv, In kv m -> perm_tvc (norm_leaves (snd kv)) (tab_order (snd kv))) ->
  perm_tvc (norm_leaves (TvTab m)) (TvTab (root_order three m)).
Proof.
  intro H. rewrite root_order_eq, <- map_app. cbn [norm_leaves].
  set (O := ord_kv three m).
  apply PT with (m1 := map (fun kv => (fst kv, norm_leaves (snd kv))) (filter line_kv O ++ filter (fun kv => negb (line_kv kv)) O)).
  - apply Permutation_map. eapply Permutation_trans; [apply (ord_kv_perm three m)|]. apply partition_perm.
  - apply Forall2_map_in. intros kv Hkv. cbn [fst snd]. split; [reflexivity|]. apply H.
    apply (ord_kv_in three m). apply in_app_or in Hkv as [Hkv|Hkv]; apply filter_In in Hkv; tauto.
Qed.

Theorem table_same : forall v, perm_tvc (norm_leaves v) (tab_order v).
Proof.
  apply tvc_strong.
  - intro s. constructor.
  - intros l IH. cbn [tab_order]. destruct (c_aot_able l).
    + cbn [norm_leaves]. constructor. apply Forall2_map_in. rewrite Forall_forall in IH. exact IH.
    + apply value_same.
  - intros m IH. rewrite tab_order_tab. apply root_same. intros kv Hkv. rewrite Forall_forall in IH. apply IH, Hkv.
Qed.

Theorem document_same three m : perm_tvc (norm_leaves (TvTab m)) (TvTab (root_order three m)).
Proof. apply root_same. intros kv _. apply table_same. Qed.

(* no NaN sign to lose: the leaves come back as they are *)
Fixpoint no_neg_nan (v : tvc) : Prop :=
  match v with
  | TvLeaf (SFloat (FNan true)) => False
  | TvLeaf _ => True
  | TvArr l => (fix go (l : list tvc) : Prop := match l with [] => True | x :: r => no_neg_nan x /\ go r end) l
  | TvTab m => (fix go (m : list (bytes * tvc)) : Prop := match m with [] => True | (_, x) :: r => no_neg_nan x /\ go r end) m
  end.

Lemma norm_leaves_id : forall v, no_neg_nan v -> norm_leaves v = v.
Proof.
  apply (tvc_strong (fun v => no_neg_nan v -> norm_leaves v = v)).
  - intros s H. destruct s as [x|z|f|b|d]; try reflexivity. destruct f as [[|]|n|n mm e]; [contradiction|reflexivity|reflexivity|reflexivity].
  - intros l IH H. cbn [norm_leaves]. f_equal. induction IH as [|x l Hx _ IHl]; [reflexivity|].
    cbn [no_neg_nan] in H. destruct H as [H1 H2]. cbn [map]. rewrite (Hx H1), (IHl H2). reflexivity.
  - intros m IH H. cbn [norm_leaves]. f_equal. induction IH as [|[k x] m Hx _ IHm]; [reflexivity|].
    cbn [no_neg_nan] in H. destruct H as [H1 H2]. cbn [map fst snd] in *. rewrite (Hx H1), (IHm H2). reflexivity.
Qed.

(* ---- the round trip ------------------------------------------------------------------------------------------------------ *)
Theorem toml_display_roundtrip three m :
  wf_tvc (TvTab m) -> tvc_depth (TvTab m) <= LIMIT ->
  exists d, parse_document (display_document (render_tbl float_text (tv_doc three m)) REmpty) = POk d
            /\ tvc_of_entries (abs_tbl (doc_root d)) = root_order three m
            /\ perm_tvc (norm_leaves (TvTab m)) (TvTab (root_order three m)).
Proof.
  intros Hwf Hd. destruct (toml_display_parses three m Hwf Hd) as (d & Hp & Ha). exists d. split; [exact Hp|]. split.
  - rewrite Ha. apply document_comes_back.
  - apply document_same.
Qed.

Theorem toml_display_exact_leaves three m :
  wf_tvc (TvTab m) -> tvc_depth (TvTab m) <= LIMIT -> no_neg_nan (TvTab m) ->
  exists d, parse_document (display_document (render_tbl float_text (tv_doc three m)) REmpty) = POk d
            /\ perm_tvc (TvTab m) (TvTab (tvc_of_entries (abs_tbl (doc_root d)))).
Proof.
  intros Hwf Hd Hn. destruct (toml_display_roundtrip three m Hwf Hd) as (d & Hp & Ha & Hs). exists d. split; [exact Hp|].
  rewrite Ha. rewrite <- (norm_leaves_id (TvTab m) Hn) at 1. exact Hs.
Qed.
