(* Proofs/MacroCtx.v — C19: what one key/value (or array element) costs in each of the three states, as a
   small common interface:
     generic   one plain value token: evaluate it with @value, store it, go on
     sign      `- t` / `+ t` is re-submitted as `(-t)` / `(t)`
     dt_k      a date-time skeleton is re-submitted to the @...datetime helper, `T` inserted for a space
     dt        the helper parses the stringified tokens, stores the value, goes on
   Proofs/MacroStmt.v does the case analysis on values once, over this interface. *)
From TV Require Import Base.Prelude Base.Utf8 Model.Datetime Model.DatetimeStd Model.Numbers Model.Macro Spec.MacroSpec.
From TV Require Import Proofs.MacroMatch Proofs.MacroRules Proofs.MacroTails Proofs.MacroEval Proofs.MacroAux.

(* ---- transcription of the templates ---- *)
Lemma tr_var : forall x e t, lookup x e = Some (BTT t) -> transcribe (QVar x) e = [t].
Proof. intros x e t H. cbn [transcribe]. rewrite H. reflexivity. Qed.

Lemma tr_top_next : forall e r pt R,
  lookup Vroot e = Some (BTT (TIdent r)) -> lookup Vpath e = Some (tts_bnd pt) -> lookup Vrest e = Some (tts_bnd R) ->
  transcribe_seq top_next e = top_in r pt R.
Proof.
  intros e r pt R H1 H2 H3. unfold transcribe_seq, top_next, qstate, pathQ. cbn [app flat_map].
  rewrite (tr_var Vroot e _ H1), (transcribe_star Vrest e R H3).
  cbn [transcribe flat_map]. rewrite (transcribe_star Vpath e pt H2). rewrite !app_nil_r. reflexivity.
Qed.

Lemma tr_top_again : forall e r pt segs R vq,
  lookup Vroot e = Some (BTT (TIdent r)) -> lookup Vpath e = Some (tts_bnd pt) -> lookup Vk e = Some (key_bnd segs) ->
  lookup Vrest e = Some (tts_bnd R) ->
  transcribe_seq (top_again vq) e = top_in r pt (dot_join segs ++ TPunct c_eq :: transcribe_seq vq e ++ R).
Proof.
  intros e r pt segs R vq H1 H2 H3 H4. unfold transcribe_seq, top_again, qstate, pathQ. cbn [app flat_map].
  rewrite flat_map_app. cbn [flat_map].
  rewrite (tr_var Vroot e _ H1), (transcribe_star Vrest e R H4), (transcribe_key Vk e segs H3).
  cbn [transcribe flat_map Q]. rewrite (transcribe_star Vpath e pt H2). rewrite !app_nil_r. reflexivity.
Qed.

Definition topdt_in (r : bytes) (pt : list tt) (X : list tt) : list tt :=
  TPunct c_at :: TIdent id_topleveldatetime :: TIdent r :: TGroup DBracket pt :: X.

Lemma tr_top_dt : forall e r pt segs R q,
  lookup Vroot e = Some (BTT (TIdent r)) -> lookup Vpath e = Some (tts_bnd pt) -> lookup Vk e = Some (key_bnd segs) ->
  lookup Vrest e = Some (tts_bnd R) ->
  transcribe_seq (top_dt q) e = topdt_in r pt (dot_join segs ++ TPunct c_eq :: TGroup DParen (transcribe_seq q e) :: R).
Proof.
  intros e r pt segs R q H1 H2 H3 H4. unfold transcribe_seq, top_dt, qstate, pathQ. cbn [app flat_map].
  rewrite (tr_var Vroot e _ H1), (transcribe_star Vrest e R H4), (transcribe_key Vk e segs H3).
  cbn [transcribe flat_map Q]. rewrite (transcribe_star Vpath e pt H2). rewrite !app_nil_r. reflexivity.
Qed.

Lemma tr_tab_next : forall e r R,
  lookup Vroot e = Some (BTT (TIdent r)) -> lookup Vrest e = Some (tts_bnd R) ->
  transcribe_seq tab_next e = st_in id_table r R.
Proof.
  intros e r R H1 H3. unfold transcribe_seq, tab_next, qstate. cbn [app flat_map].
  rewrite (tr_var Vroot e _ H1), (transcribe_star Vrest e R H3). cbn [transcribe]. rewrite !app_nil_r. reflexivity.
Qed.

Lemma tr_tab_again : forall e r segs R vq,
  lookup Vroot e = Some (BTT (TIdent r)) -> lookup Vk e = Some (key_bnd segs) -> lookup Vrest e = Some (tts_bnd R) ->
  transcribe_seq (tab_again vq) e = st_in id_table r (dot_join segs ++ TPunct c_eq :: transcribe_seq vq e ++ TPunct c_comma :: R).
Proof.
  intros e r segs R vq H1 H3 H4. unfold transcribe_seq, tab_again, qstate. cbn [app flat_map].
  rewrite flat_map_app. cbn [flat_map].
  rewrite (tr_var Vroot e _ H1), (transcribe_star Vrest e R H4), (transcribe_key Vk e segs H3).
  cbn [transcribe Q]. rewrite !app_nil_r. reflexivity.
Qed.

Lemma tr_tab_dt : forall e r segs R q,
  lookup Vroot e = Some (BTT (TIdent r)) -> lookup Vk e = Some (key_bnd segs) -> lookup Vrest e = Some (tts_bnd R) ->
  transcribe_seq (tab_dt q) e = st_in id_tabledatetime r (dot_join segs ++ TPunct c_eq :: TGroup DParen (transcribe_seq q e) :: R).
Proof.
  intros e r segs R q H1 H3 H4. unfold transcribe_seq, tab_dt, qstate. cbn [app flat_map].
  rewrite (tr_var Vroot e _ H1), (transcribe_star Vrest e R H4), (transcribe_key Vk e segs H3).
  cbn [transcribe Q]. rewrite !app_nil_r. reflexivity.
Qed.

Lemma tr_arr_next : forall e r R,
  lookup Vroot e = Some (BTT (TIdent r)) -> lookup Vrest e = Some (tts_bnd R) ->
  transcribe_seq arr_next e = st_in id_array r R.
Proof.
  intros e r R H1 H3. unfold transcribe_seq, arr_next, qstate. cbn [app flat_map].
  rewrite (tr_var Vroot e _ H1), (transcribe_star Vrest e R H3). cbn [transcribe]. rewrite !app_nil_r. reflexivity.
Qed.

Lemma tr_arr_again : forall e r R vq,
  lookup Vroot e = Some (BTT (TIdent r)) -> lookup Vrest e = Some (tts_bnd R) ->
  transcribe_seq (arr_again vq) e = st_in id_array r (transcribe_seq vq e ++ TPunct c_comma :: R).
Proof.
  intros e r R vq H1 H4. unfold transcribe_seq, arr_again, qstate. cbn [app flat_map].
  rewrite flat_map_app. cbn [flat_map].
  rewrite (tr_var Vroot e _ H1), (transcribe_star Vrest e R H4).
  cbn [transcribe Q]. rewrite !app_nil_r. reflexivity.
Qed.

Lemma tr_arr_dt : forall e r R q,
  lookup Vroot e = Some (BTT (TIdent r)) -> lookup Vrest e = Some (tts_bnd R) ->
  transcribe_seq (arr_dt q) e = st_in id_arraydatetime r (TGroup DParen (transcribe_seq q e) :: R).
Proof.
  intros e r R q H1 H4. unfold transcribe_seq, arr_dt, qstate. cbn [app flat_map].
  rewrite (tr_var Vroot e _ H1), (transcribe_star Vrest e R H4).
  cbn [transcribe Q]. rewrite !app_nil_r. reflexivity.
Qed.

(* ---- keys_of_env on the three environments ---- *)
Lemma keys_top : forall e cp p, path_ok p = true ->
  lookup Vpath e = Some (tts_bnd (List.map path_tok cp)) -> lookup Vk e = Some (key_bnd (List.map seg_parts p)) ->
  keys_of_env true Vk e = EOk (cp ++ path_strings p).
Proof.
  intros e cp p Hp H2 H3. unfold keys_of_env.
  rewrite (env_tts_lookup Vpath e _ H2), path_strs_toks. cbn [ebind].
  rewrite (env_segs_lookup Vk e _ H3), (key_strs_path p (proj2 (path_segs_ok p Hp))). reflexivity.
Qed.

Lemma keys_tab : forall e p, path_ok p = true ->
  lookup Vk e = Some (key_bnd (List.map seg_parts p)) ->
  keys_of_env false Vk e = EOk (path_strings p).
Proof.
  intros e p Hp H3. unfold keys_of_env. cbn [ebind].
  rewrite (env_segs_lookup Vk e _ H3), (key_strs_path p (proj2 (path_segs_ok p Hp))). reflexivity.
Qed.

(* ---- the date-time token lists handed to the helper states (`T` inserted for a space) ---- *)
Definition sk_dtT (y m dh mi s : lit) : list tt := [TLit y; TPunct c_minus; TLit m; TPunct c_minus] ++ sk_time dh mi s.
Definition sk_dtS (y m d h mi s : lit) : list tt := sk_date y m d ++ sk_time h mi s.
Definition nk_dtS (y m d h mi s : lit) : list tt := sk_date y m d ++ TIdent id_T :: sk_time h mi s.

(* ------------------------------------------------------------------------------------------ *)
(* @toplevel                                                                                  *)
(* ------------------------------------------------------------------------------------------ *)
Notation top_ms := (fun v => BInvoke (top_again v)).
Notation top_md := (fun q => BInvoke (Macro.top_dt q)).
Notation top_g := (BInsert true top_next).

Section Top.
Variables (r : bytes) (cp : list bytes) (p : kpath) (cur : mval).
Hypothesis Hr : ident_frag_ok r = true.
Hypothesis Hp : path_ok p = true.
Let pt := List.map path_tok cp.
Let segs := List.map seg_parts p.

Definition top_inp (Y : list tt) : list tt := top_in r pt (dot_join segs ++ TPunct c_eq :: Y).
Definition top_dtinp (dts R : list tt) : list tt := topdt_in r pt (dot_join segs ++ TPunct c_eq :: TGroup DParen dts :: R).
Definition top_after (v : mval) : option mval := insert_toml cur (cp ++ path_strings p) v.

Let Hsegs : segs_ok segs := proj1 (path_segs_ok p Hp).

Lemma top_generic : forall t R valm cur' res n1 n2, is_plain t = true -> rest_ok R = true ->
  Ev (MTab []) (value_in t) (EOk valm) n1 -> top_after valm = Some cur' -> Ev cur' (top_in r pt R) res n2 ->
  Ev cur (top_inp (t :: R)) res (S (Nat.max n1 n2)).
Proof.
  intros t R valm cur' res n1 n2 Ht HR Hv Ha Hn.
  eapply Ev_insert.
  - eapply (top_first_match_kv r pt segs); [exact Hr|exact Hsegs|]. unfold top_tails. apply (sel_plain_top top_ms top_md top_g); assumption.
  - apply (keys_top _ cp p Hp); reflexivity.
  - reflexivity.
  - exact Hv.
  - exact Ha.
  - rewrite (tr_top_next _ r pt R); [exact Hn|reflexivity|reflexivity|reflexivity].
Qed.

Lemma top_minus : forall t R res n,
  Ev cur (top_inp (TGroup DParen [TPunct c_minus; t] :: R)) res n -> Ev cur (top_inp (TPunct c_minus :: t :: R)) res (S n).
Proof.
  intros t R res n H. eapply Ev_invoke.
  - eapply (top_first_match_kv r pt segs); [exact Hr|exact Hsegs|]. unfold top_tails. apply (sel_minus_top top_ms top_md top_g).
  - rewrite (tr_top_again _ r pt segs R); [exact H|reflexivity|reflexivity|reflexivity|reflexivity].
Qed.

Lemma top_plus : forall t R res n,
  Ev cur (top_inp (TGroup DParen [t] :: R)) res n -> Ev cur (top_inp (TPunct c_plus :: t :: R)) res (S n).
Proof.
  intros t R res n H. eapply Ev_invoke.
  - eapply (top_first_match_kv r pt segs); [exact Hr|exact Hsegs|]. unfold top_tails. apply (sel_plus_top top_ms top_md top_g).
  - rewrite (tr_top_again _ r pt segs R); [exact H|reflexivity|reflexivity|reflexivity|reflexivity].
Qed.

Lemma top_dt : forall dts R valm cur' res n, dts <> [] ->
  datetime_value dts = EOk valm -> top_after valm = Some cur' -> Ev cur' (top_in r pt R) res n ->
  Ev cur (top_dtinp dts R) res (S n).
Proof.
  intros dts R valm cur' res n Hd Hv Ha Hn. eapply Ev_insert_dt.
  - apply (topdt_first_match r pt segs dts R Hr Hsegs Hd).
  - apply (keys_top _ cp p Hp); reflexivity.
  - rewrite (env_tts_lookup Vdatetime _ dts) by reflexivity. exact Hv.
  - exact Ha.
  - rewrite (tr_top_next _ r pt R); [exact Hn|reflexivity|reflexivity|reflexivity].
Qed.

Ltac top_dt_shape sel :=
  let H := fresh "H" in intros; eapply Ev_invoke;
  [ eapply (top_first_match_kv r pt segs); [exact Hr|exact Hsegs|]; unfold top_tails; apply (sel top_ms top_md top_g); assumption
  | erewrite (tr_top_dt _ r pt segs); [ |reflexivity|reflexivity|reflexivity|reflexivity]; eassumption ].

Lemma top_date : forall y m d R res n, rest_ok R = true ->
  Ev cur (top_dtinp (sk_date y m d) R) res n -> Ev cur (top_inp (sk_date y m d ++ R)) res (S n).
Proof. top_dt_shape sel_date_top. Qed.
Lemma top_time : forall h mi s R res n, rest_ok R = true ->
  Ev cur (top_dtinp (sk_time h mi s) R) res n -> Ev cur (top_inp (sk_time h mi s ++ R)) res (S n).
Proof. top_dt_shape sel_time_top. Qed.
Lemma top_dtT : forall y m dh mi s R res n, rest_ok R = true ->
  Ev cur (top_dtinp (sk_dtT y m dh mi s) R) res n -> Ev cur (top_inp (sk_dtT y m dh mi s ++ R)) res (S n).
Proof. top_dt_shape sel_dtT_top. Qed.
Lemma top_dtS : forall y m d h mi s R res n, rest_ok R = true ->
  Ev cur (top_dtinp (nk_dtS y m d h mi s) R) res n -> Ev cur (top_inp (sk_dtS y m d h mi s ++ R)) res (S n).
Proof. unfold sk_dtS. intros until n. rewrite <- app_assoc. revert res n. top_dt_shape sel_dtS_top. Qed.
Lemma top_odtT : forall y m dh mi s oh om R res n, rest_ok R = true ->
  Ev cur (top_dtinp (sk_dtT y m dh mi s ++ sk_off oh om) R) res n ->
  Ev cur (top_inp ((sk_dtT y m dh mi s ++ sk_off oh om) ++ R)) res (S n).
Proof. unfold sk_dtT. intros until n. rewrite <- !app_assoc. revert res n. top_dt_shape sel_odtT_top. Qed.
Lemma top_odtS : forall y m d h mi s oh om R res n, rest_ok R = true ->
  Ev cur (top_dtinp (nk_dtS y m d h mi s ++ sk_off oh om) R) res n ->
  Ev cur (top_inp ((sk_dtS y m d h mi s ++ sk_off oh om) ++ R)) res (S n).
Proof. unfold sk_dtS. intros until n. rewrite <- !app_assoc. revert res n. top_dt_shape sel_odtS_top. Qed.

End Top.

(* ------------------------------------------------------------------------------------------ *)
(* @table                                                                                     *)
(* ------------------------------------------------------------------------------------------ *)
Notation tab_ms := (fun v => BInvoke (tab_again v)).
Notation tab_md := (fun q => BInvoke (Macro.tab_dt q)).
Notation tab_g := (BInsert false tab_next).

Section Tab.
Variables (r : bytes) (p : kpath) (cur : mval).
Hypothesis Hr : ident_frag_ok r = true.
Hypothesis Hp : path_ok p = true.
Let segs := List.map seg_parts p.

Definition tab_inp (Y : list tt) : list tt := st_in id_table r (dot_join segs ++ TPunct c_eq :: Y).
Definition tab_dtinp (dts R : list tt) : list tt :=
  st_in id_tabledatetime r (dot_join segs ++ TPunct c_eq :: TGroup DParen dts :: R).
Definition tab_after (v : mval) : option mval := insert_toml cur (path_strings p) v.

Let Hsegs : segs_ok segs := proj1 (path_segs_ok p Hp).

Lemma tab_generic : forall t R valm cur' res n1 n2, is_plain t = true -> comma_rest_ok R = true ->
  Ev (MTab []) (value_in t) (EOk valm) n1 -> tab_after valm = Some cur' -> Ev cur' (st_in id_table r R) res n2 ->
  Ev cur (tab_inp (t :: TPunct c_comma :: R)) res (S (Nat.max n1 n2)).
Proof.
  intros t R valm cur' res n1 n2 Ht HR Hv Ha Hn.
  eapply Ev_insert.
  - eapply (tab_first_match_kv r segs); [exact Hr|exact Hsegs|]. unfold tab_tails. apply (sel_plain_comma tab_ms tab_md tab_g); assumption.
  - apply (keys_tab _ p Hp); reflexivity.
  - reflexivity.
  - exact Hv.
  - exact Ha.
  - rewrite (tr_tab_next _ r R); [exact Hn|reflexivity|reflexivity].
Qed.

Lemma tab_minus : forall t R res n,
  Ev cur (tab_inp (TGroup DParen [TPunct c_minus; t] :: TPunct c_comma :: R)) res n ->
  Ev cur (tab_inp (TPunct c_minus :: t :: TPunct c_comma :: R)) res (S n).
Proof.
  intros t R res n H. eapply Ev_invoke.
  - eapply (tab_first_match_kv r segs); [exact Hr|exact Hsegs|]. unfold tab_tails. apply (sel_minus_comma tab_ms tab_md tab_g).
  - rewrite (tr_tab_again _ r segs R); [exact H|reflexivity|reflexivity|reflexivity].
Qed.

Lemma tab_plus : forall t R res n,
  Ev cur (tab_inp (TGroup DParen [t] :: TPunct c_comma :: R)) res n ->
  Ev cur (tab_inp (TPunct c_plus :: t :: TPunct c_comma :: R)) res (S n).
Proof.
  intros t R res n H. eapply Ev_invoke.
  - eapply (tab_first_match_kv r segs); [exact Hr|exact Hsegs|]. unfold tab_tails. apply (sel_plus_comma tab_ms tab_md tab_g).
  - rewrite (tr_tab_again _ r segs R); [exact H|reflexivity|reflexivity|reflexivity].
Qed.

Lemma tab_dt : forall dts R valm cur' res n,
  datetime_value dts = EOk valm -> tab_after valm = Some cur' -> Ev cur' (st_in id_table r R) res n ->
  Ev cur (tab_dtinp dts R) res (S n).
Proof.
  intros dts R valm cur' res n Hv Ha Hn. eapply Ev_insert_dt.
  - apply (tabdt_first_match r segs dts R Hr Hsegs).
  - apply (keys_tab _ p Hp); reflexivity.
  - rewrite (env_tts_lookup Vdatetime _ dts) by reflexivity. exact Hv.
  - exact Ha.
  - rewrite (tr_tab_next _ r R); [exact Hn|reflexivity|reflexivity].
Qed.

Ltac tab_dt_shape sel :=
  intros; eapply Ev_invoke;
  [ eapply (tab_first_match_kv r segs); [exact Hr|exact Hsegs|]; unfold tab_tails; apply (sel tab_ms tab_md tab_g); assumption
  | erewrite (tr_tab_dt _ r segs); [ |reflexivity|reflexivity|reflexivity]; eassumption ].

Lemma tab_date : forall y m d R res n, comma_rest_ok R = true ->
  Ev cur (tab_dtinp (sk_date y m d) R) res n -> Ev cur (tab_inp (sk_date y m d ++ TPunct c_comma :: R)) res (S n).
Proof. tab_dt_shape sel_date_comma. Qed.
Lemma tab_time : forall h mi s R res n, comma_rest_ok R = true ->
  Ev cur (tab_dtinp (sk_time h mi s) R) res n -> Ev cur (tab_inp (sk_time h mi s ++ TPunct c_comma :: R)) res (S n).
Proof. tab_dt_shape sel_time_comma. Qed.
Lemma tab_dtT : forall y m dh mi s R res n, comma_rest_ok R = true ->
  Ev cur (tab_dtinp (sk_dtT y m dh mi s) R) res n -> Ev cur (tab_inp (sk_dtT y m dh mi s ++ TPunct c_comma :: R)) res (S n).
Proof. tab_dt_shape sel_dtT_comma. Qed.
Lemma tab_dtS : forall y m d h mi s R res n, comma_rest_ok R = true ->
  Ev cur (tab_dtinp (nk_dtS y m d h mi s) R) res n -> Ev cur (tab_inp (sk_dtS y m d h mi s ++ TPunct c_comma :: R)) res (S n).
Proof. unfold sk_dtS. intros until n. rewrite <- app_assoc. revert res n. tab_dt_shape sel_dtS_comma. Qed.
Lemma tab_odtT : forall y m dh mi s oh om R res n, comma_rest_ok R = true ->
  Ev cur (tab_dtinp (sk_dtT y m dh mi s ++ sk_off oh om) R) res n ->
  Ev cur (tab_inp ((sk_dtT y m dh mi s ++ sk_off oh om) ++ TPunct c_comma :: R)) res (S n).
Proof. unfold sk_dtT. intros until n. rewrite <- !app_assoc. revert res n. tab_dt_shape sel_odtT_comma. Qed.
Lemma tab_odtS : forall y m d h mi s oh om R res n, comma_rest_ok R = true ->
  Ev cur (tab_dtinp (nk_dtS y m d h mi s ++ sk_off oh om) R) res n ->
  Ev cur (tab_inp ((sk_dtS y m d h mi s ++ sk_off oh om) ++ TPunct c_comma :: R)) res (S n).
Proof. unfold sk_dtS. intros until n. rewrite <- !app_assoc. revert res n. tab_dt_shape sel_odtS_comma. Qed.

End Tab.

(* ------------------------------------------------------------------------------------------ *)
(* @array                                                                                     *)
(* ------------------------------------------------------------------------------------------ *)
Notation arr_ms := (fun v => BInvoke (arr_again v)).
Notation arr_md := (fun q => BInvoke (Macro.arr_dt q)).
Notation arr_g := (BArrPush arr_next).

Section Arr.
Variables (r : bytes) (l : list mval).
Hypothesis Hr : ident_frag_ok r = true.

Definition arr_inp (Y : list tt) : list tt := st_in id_array r Y.
Definition arr_dtinp (dts R : list tt) : list tt := st_in id_arraydatetime r (TGroup DParen dts :: R).
Definition arr_after (v : mval) : option mval := Some (MArr (l ++ [v])).

Lemma arr_generic : forall t R valm cur' res n1 n2, is_plain t = true -> comma_rest_ok R = true ->
  Ev (MTab []) (value_in t) (EOk valm) n1 -> arr_after valm = Some cur' -> Ev cur' (st_in id_array r R) res n2 ->
  Ev (MArr l) (arr_inp (t :: TPunct c_comma :: R)) res (S (Nat.max n1 n2)).
Proof.
  intros t R valm cur' res n1 n2 Ht HR Hv Ha Hn. injection Ha as <-.
  eapply Ev_arrpush.
  - eapply (arr_first_match_el r); [exact Hr|]. unfold arr_tails. apply (sel_plain_comma arr_ms arr_md arr_g); assumption.
  - reflexivity.
  - exact Hv.
  - rewrite (tr_arr_next _ r R); [exact Hn|reflexivity|reflexivity].
Qed.

Lemma arr_minus : forall t R res n,
  Ev (MArr l) (arr_inp (TGroup DParen [TPunct c_minus; t] :: TPunct c_comma :: R)) res n ->
  Ev (MArr l) (arr_inp (TPunct c_minus :: t :: TPunct c_comma :: R)) res (S n).
Proof.
  intros t R res n H. eapply Ev_invoke.
  - eapply (arr_first_match_el r); [exact Hr|]. unfold arr_tails. apply (sel_minus_comma arr_ms arr_md arr_g).
  - rewrite (tr_arr_again _ r R); [exact H|reflexivity|reflexivity].
Qed.

Lemma arr_plus : forall t R res n,
  Ev (MArr l) (arr_inp (TGroup DParen [t] :: TPunct c_comma :: R)) res n ->
  Ev (MArr l) (arr_inp (TPunct c_plus :: t :: TPunct c_comma :: R)) res (S n).
Proof.
  intros t R res n H. eapply Ev_invoke.
  - eapply (arr_first_match_el r); [exact Hr|]. unfold arr_tails. apply (sel_plus_comma arr_ms arr_md arr_g).
  - rewrite (tr_arr_again _ r R); [exact H|reflexivity|reflexivity].
Qed.

Lemma arr_dt : forall dts R valm cur' res n,
  datetime_value dts = EOk valm -> arr_after valm = Some cur' -> Ev cur' (st_in id_array r R) res n ->
  Ev (MArr l) (arr_dtinp dts R) res (S n).
Proof.
  intros dts R valm cur' res n Hv Ha Hn. injection Ha as <-. eapply Ev_arrpush_dt.
  - apply (arrdt_first_match r dts R Hr).
  - rewrite (env_tts_lookup Vdatetime _ dts) by reflexivity. exact Hv.
  - rewrite (tr_arr_next _ r R); [exact Hn|reflexivity|reflexivity].
Qed.

Ltac arr_dt_shape sel :=
  intros; eapply Ev_invoke;
  [ eapply (arr_first_match_el r); [exact Hr|]; unfold arr_tails; apply (sel arr_ms arr_md arr_g); assumption
  | erewrite (tr_arr_dt _ r); [ |reflexivity|reflexivity]; eassumption ].

Lemma arr_date : forall y m d R res n, comma_rest_ok R = true ->
  Ev (MArr l) (arr_dtinp (sk_date y m d) R) res n -> Ev (MArr l) (arr_inp (sk_date y m d ++ TPunct c_comma :: R)) res (S n).
Proof. arr_dt_shape sel_date_comma. Qed.
Lemma arr_time : forall h mi s R res n, comma_rest_ok R = true ->
  Ev (MArr l) (arr_dtinp (sk_time h mi s) R) res n -> Ev (MArr l) (arr_inp (sk_time h mi s ++ TPunct c_comma :: R)) res (S n).
Proof. arr_dt_shape sel_time_comma. Qed.
Lemma arr_dtT : forall y m dh mi s R res n, comma_rest_ok R = true ->
  Ev (MArr l) (arr_dtinp (sk_dtT y m dh mi s) R) res n -> Ev (MArr l) (arr_inp (sk_dtT y m dh mi s ++ TPunct c_comma :: R)) res (S n).
Proof. arr_dt_shape sel_dtT_comma. Qed.
Lemma arr_dtS : forall y m d h mi s R res n, comma_rest_ok R = true ->
  Ev (MArr l) (arr_dtinp (nk_dtS y m d h mi s) R) res n -> Ev (MArr l) (arr_inp (sk_dtS y m d h mi s ++ TPunct c_comma :: R)) res (S n).
Proof. unfold sk_dtS. intros until n. rewrite <- app_assoc. revert res n. arr_dt_shape sel_dtS_comma. Qed.
Lemma arr_odtT : forall y m dh mi s oh om R res n, comma_rest_ok R = true ->
  Ev (MArr l) (arr_dtinp (sk_dtT y m dh mi s ++ sk_off oh om) R) res n ->
  Ev (MArr l) (arr_inp ((sk_dtT y m dh mi s ++ sk_off oh om) ++ TPunct c_comma :: R)) res (S n).
Proof. unfold sk_dtT. intros until n. rewrite <- !app_assoc. revert res n. arr_dt_shape sel_odtT_comma. Qed.
Lemma arr_odtS : forall y m d h mi s oh om R res n, comma_rest_ok R = true ->
  Ev (MArr l) (arr_dtinp (nk_dtS y m d h mi s ++ sk_off oh om) R) res n ->
  Ev (MArr l) (arr_inp ((sk_dtS y m d h mi s ++ sk_off oh om) ++ TPunct c_comma :: R)) res (S n).
Proof. unfold sk_dtS. intros until n. rewrite <- !app_assoc. revert res n. arr_dt_shape sel_odtS_comma. Qed.

End Arr.
