(* Proofs/LexEquivBase.v — shared machinery of the token-level (L1) proofs of C01/C02:
   bytes as numbers, span_while, inputs and `advance`, inversion ("the parser returned Ok, so ...")
   and evaluation ("the input starts with ..., so the parser returns ...") lemmas for the
   mini-winnow primitives, the fuel-free description `runs` of the repeat loops, and the UTF-8
   facts (ASCII prefix, cutting at an ASCII byte). *)
From TV Require Import Base.Prelude Base.Utf8 Base.Winnow Spec.Abnf Spec.Lex.
Require Import Lia ZifyBool ZifyN ZifyNat.

(* ---- bytes as numbers --------------------------------------------------------------------- *)
Lemma b2n_lt b : (b2n b < 256)%N.
Proof. unfold b2n. pose proof (Byte.to_N_bounded b). lia. Qed.

Lemma b2n_inj a b : b2n a = b2n b -> a = b.
Proof.
  unfold b2n. intro H. pose proof (Byte.of_to_N a) as Ha. pose proof (Byte.of_to_N b) as Hb.
  rewrite H in Ha. congruence.
Qed.

Lemma byte_eqb_n a b : byte_eqb a b = (b2n a =? b2n b)%N.
Proof.
  destruct (byte_eqb a b) eqn:E.
  - apply byte_eqb_eq in E. subst. symmetry. apply N.eqb_refl.
  - symmetry. apply N.eqb_neq. intro H. apply b2n_inj in H. subst.
    rewrite byte_eqb_refl in E. discriminate.
Qed.

Lemma byte_eqb_neq a b : byte_eqb a b = false <-> a <> b.
Proof.
  split.
  - intros H E. subst. rewrite byte_eqb_refl in H. discriminate.
  - intro H. destruct (byte_eqb a b) eqn:E; [|reflexivity]. apply byte_eqb_eq in E. contradiction.
Qed.

Lemma n2b_b2n b : n2b (b2n b) = b.
Proof. unfold n2b, b2n. rewrite Byte.of_to_N. reflexivity. Qed.

Lemma b2n_n2b n : (n < 256)%N -> b2n (n2b n) = n.
Proof.
  intro H. unfold n2b, b2n. destruct (Byte.of_N n) eqn:E.
  - apply Byte.to_of_N in E. exact E.
  - apply Byte.of_N_None_iff in E. lia.
Qed.

(* turn every byte-class test into comparisons on [b2n b] (then `lia`) *)
Ltac cls :=
  unfold all, non_eol, mlb_unescaped, basic_unescaped, wschar, mll_char, literal_char,
    unquoted_key_char, Abnf.digit, digit1_9, digit0_7, digit0_1, Abnf.hexdig, non_ascii, rng,
    is_cont, inr in *;
  rewrite ?byte_eqb_n in *;
  cbn [b2n Byte.to_N] in *.

(* ---- lists ---------------------------------------------------------------------------------- *)
Lemma skipn_app_len {A} (a r : list A) : skipn (length a) (a ++ r) = r.
Proof. induction a; simpl; auto. Qed.
Lemma firstn_app_len {A} (a r : list A) : firstn (length a) (a ++ r) = a.
Proof. induction a; simpl; congruence. Qed.

Lemma skipn_add {A} (m n : nat) (l : list A) : skipn n (skipn m l) = skipn (m + n) l.
Proof.
  revert l. induction m as [|m IH]; intro l; [reflexivity|].
  destruct l as [|x l]; [destruct n; reflexivity|]. cbn [Nat.add skipn]. apply IH.
Qed.

Lemma forallb_ext_eq {A} (f g : A -> bool) l : (forall x, f x = g x) -> forallb f l = forallb g l.
Proof. intro H. induction l; simpl; [reflexivity|]. rewrite H, IHl. reflexivity. Qed.

(* the head of r is not in class f (or r is empty) *)
Definition stops (f : byte -> bool) (r : bytes) : Prop :=
  match r with [] => True | b :: _ => f b = false end.

Lemma span_while_ext f g s : (forall b, f b = g b) -> span_while f s = span_while g s.
Proof. intro H. induction s as [|b s IH]; simpl; [reflexivity|]. rewrite H, IH. reflexivity. Qed.

Lemma span_while_exact f a r : forallb f a = true -> stops f r -> span_while f (a ++ r) = (a, r).
Proof.
  induction a as [|x a IH]; intros Ha Hr.
  - simpl app. destruct r as [|b r]; [reflexivity|]. simpl in Hr. simpl. rewrite Hr. reflexivity.
  - simpl in Ha. apply andb_true_iff in Ha as [Hx Ha]. simpl. rewrite Hx. rewrite (IH Ha Hr). reflexivity.
Qed.

Lemma span_while_split f s : exists a r, s = a ++ r /\ forallb f a = true /\ stops f r /\ span_while f s = (a, r).
Proof.
  exists (fst (span_while f s)), (snd (span_while f s)).
  split; [symmetry; apply span_while_app|split; [apply span_while_all|split]].
  - pose proof (span_while_stop f s) as H. unfold stops. destruct (snd (span_while f s)); exact H.
  - destruct (span_while f s); reflexivity.
Qed.

(* ---- inputs ----------------------------------------------------------------------------------- *)
(* the input left after reading the text t *)
Definition adv (t : bytes) (i : input) : input := advance (length t) i.

(* the parser went from i to i' reading exactly t *)
Definition splits (i : input) (t : bytes) (i' : input) : Prop :=
  rest i = t ++ rest i' /\ i' = adv t i.

Lemma adv_nil i : adv [] i = i.
Proof. destruct i as [r p d]. unfold adv, advance. cbn. f_equal. lia. Qed.

Lemma rest_adv t r i : rest i = t ++ r -> rest (adv t i) = r.
Proof. intro H. unfold adv, advance. cbn [rest]. rewrite H. apply skipn_app_len. Qed.

Lemma adv_adv t1 t2 i : adv t2 (adv t1 i) = adv (t1 ++ t2) i.
Proof.
  unfold adv, advance. cbn [rest pos depth]. f_equal.
  - rewrite skipn_add. rewrite app_length. reflexivity.
  - rewrite app_length. lia.
Qed.

Lemma adv_mk t r p d : adv t (mkIn (t ++ r) p d) = mkIn r (p + N.of_nat (length t))%N d.
Proof. unfold adv, advance. cbn [rest pos depth]. rewrite skipn_app_len. reflexivity. Qed.

Lemma advance_adv n i t r : rest i = t ++ r -> length t = n -> advance n i = adv t i.
Proof. intros _ H. subst. reflexivity. Qed.

Lemma pos_adv t i : pos (adv t i) = (pos i + N.of_nat (length t))%N.
Proof. reflexivity. Qed.
Lemma depth_adv t i : depth (adv t i) = depth i.
Proof. reflexivity. Qed.

Lemma splits_nil i : splits i [] i.
Proof. split; [reflexivity|symmetry; apply adv_nil]. Qed.

Lemma splits_adv i t r : rest i = t ++ r -> splits i t (adv t i).
Proof. intro H. split; [|reflexivity]. rewrite (rest_adv t r i H). exact H. Qed.

Lemma splits_trans i t1 i1 t2 i2 : splits i t1 i1 -> splits i1 t2 i2 -> splits i (t1 ++ t2) i2.
Proof.
  intros [H1 E1] [H2 E2]. split.
  - rewrite H1, H2. apply app_assoc.
  - subst. apply adv_adv.
Qed.

Lemma splits_len i t i' : splits i t i' -> length (rest i) = length t + length (rest i').
Proof. intros [H _]. rewrite H. apply app_length. Qed.

Lemma splits_mk t r p d : splits (mkIn (t ++ r) p d) t (mkIn r (p + N.of_nat (length t))%N d).
Proof. split; [reflexivity|]. symmetry. apply adv_mk. Qed.

(* the text between two cursors, as `.take()` computes it *)
Lemma splits_taken i t i' : splits i t i' -> firstn (N.to_nat (pos i' - pos i)) (rest i) = t.
Proof.
  intros [H E]. subst i'. rewrite pos_adv. rewrite H.
  replace (N.to_nat (pos i + N.of_nat (length t) - pos i)) with (length t) by lia.
  apply firstn_app_len.
Qed.

(* ---- failure ------------------------------------------------------------------------------------ *)
(* p fails at i without commitment *)
Definition fails {A} (p : parser A) (i : input) : Prop := exists e j, p i = Bt e j.

(* ---- inversion: what an Ok result tells ----------------------------------------------------------- *)
Lemma bind_inv {A B} (p : parser A) (f : A -> parser B) i b i2 :
  bind p f i = Ok b i2 -> exists a i1, p i = Ok a i1 /\ f a i1 = Ok b i2.
Proof. unfold bind. destruct (p i) as [a i1| | |]; try discriminate. intro H. eauto. Qed.

Lemma ret_inv {A} (a b : A) i i' : ret a i = Ok b i' -> b = a /\ i' = i.
Proof. unfold ret. intro H. injection H; auto. Qed.

Lemma pmap_inv {A B} (f : A -> B) (p : parser A) i b i' :
  pmap f p i = Ok b i' -> exists a, p i = Ok a i' /\ b = f a.
Proof. unfold pmap. destruct (p i) as [a i1| | |]; try discriminate. intro H. injection H as <- <-. eauto. Qed.

Lemma pvoid_inv {A} (p : parser A) i u i' : pvoid p i = Ok u i' -> exists a, p i = Ok a i'.
Proof. unfold pvoid. intro H. apply pmap_inv in H as (a & H & _). eauto. Qed.

Lemma pvalue_inv {A B} (b : B) (p : parser A) i x i' : pvalue b p i = Ok x i' -> x = b /\ exists a, p i = Ok a i'.
Proof. unfold pvalue. intro H. apply pmap_inv in H as (a & H & E). eauto. Qed.

Lemma any_inv i b i' : any i = Ok b i' -> splits i [b] i'.
Proof.
  unfold any. destruct (rest i) as [|c r] eqn:E; [discriminate|]. intro H. injection H as <- <-.
  apply (splits_adv i [c] r). exact E.
Qed.

Lemma one_of_inv f i b i' : one_of f i = Ok b i' -> f b = true /\ splits i [b] i'.
Proof.
  unfold one_of. destruct (rest i) as [|c r] eqn:E; [discriminate|].
  destruct (f c) eqn:F; [|discriminate]. intro H. injection H as <- <-.
  split; [exact F|]. apply (splits_adv i [c] r). exact E.
Qed.

Lemma byte_inv x i b i' : byte_ x i = Ok b i' -> b = x /\ splits i [x] i'.
Proof.
  unfold byte_. intro H. apply one_of_inv in H as [F S]. apply byte_eqb_eq in F. subst. auto.
Qed.

Lemma lit_inv l i x i' : lit l i = Ok x i' -> x = l /\ splits i l i'.
Proof.
  unfold lit. destruct (strip_prefix l (rest i)) as [r|] eqn:E; [|discriminate].
  intro H. injection H as <- <-. split; [reflexivity|].
  apply strip_prefix_spec in E. apply (splits_adv i l r). exact E.
Qed.

Lemma take_while_inv m f i got i' :
  take_while_mn m None f i = Ok got i' ->
  splits i got i' /\ forallb f got = true /\ stops f (rest i') /\ m <= length got.
Proof.
  unfold take_while_mn.
  destruct (span_while_split f (rest i)) as (a & r & E & Ha & Hr & Es). rewrite Es. cbn [fst].
  destruct (Nat.ltb (length a) m) eqn:L; [discriminate|]. intro H. injection H as <- <-.
  assert (S : splits i a (advance (length a) i)) by (apply (splits_adv i a r); exact E).
  split; [exact S|]. split; [exact Ha|]. split.
  - change (advance (length a) i) with (adv a i). rewrite (rest_adv a r i E). exact Hr.
  - apply Nat.ltb_ge in L. exact L.
Qed.

Lemma opt_inv {A} (p : parser A) i o i' :
  opt p i = Ok o i' -> (exists a, o = Some a /\ p i = Ok a i') \/ (o = None /\ i' = i /\ fails p i).
Proof.
  unfold opt, fails. destruct (p i) as [a i1|e j| |]; try discriminate; intro H; injection H as <- <-.
  - left. eauto.
  - right. eauto.
Qed.

Lemma alt_inv {A} (p q : parser A) i a i' :
  alt p q i = Ok a i' -> p i = Ok a i' \/ (fails p i /\ q i = Ok a i').
Proof.
  unfold alt, fails. destruct (p i) as [a1 i1|e j| |]; try discriminate; intro H.
  - left. exact H.
  - right. eauto.
Qed.

Lemma cut_err_inv {A} (p : parser A) i a i' : cut_err p i = Ok a i' -> p i = Ok a i'.
Proof. unfold cut_err. destruct (p i); try discriminate; auto. Qed.

Lemma context_inv {A} (p : parser A) i a i' : context p i = Ok a i' -> p i = Ok a i'.
Proof. unfold context. destruct (p i); try discriminate; auto. Qed.

Lemma peek_inv {A} (p : parser A) i a i' : peek p i = Ok a i' -> i' = i /\ exists j, p i = Ok a j.
Proof. unfold peek. destruct (p i) as [a1 i1| | |]; try discriminate. intro H. injection H as <- <-. eauto. Qed.

Lemma verify_inv {A} (f : A -> bool) (p : parser A) i a i' :
  verify f p i = Ok a i' -> p i = Ok a i' /\ f a = true.
Proof.
  unfold verify. destruct (p i) as [a1 i1| | |]; try discriminate.
  destruct (f a1) eqn:F; [|discriminate]. intro H. injection H as <- <-. auto.
Qed.

Lemma verify_map_inv {A B} (f : A -> option B) (p : parser A) i b i' :
  verify_map f p i = Ok b i' -> exists a, p i = Ok a i' /\ f a = Some b.
Proof.
  unfold verify_map. destruct (p i) as [a1 i1| | |]; try discriminate.
  destruct (f a1) eqn:F; [|discriminate]. intro H. injection H as <- <-. eauto.
Qed.

Lemma try_map_inv {A B} (f : A -> tm B) (p : parser A) i b i' :
  try_map f p i = Ok b i' -> exists a, p i = Ok a i' /\ f a = TmOk b.
Proof.
  unfold try_map. destruct (p i) as [a1 i1| | |]; try discriminate.
  destruct (f a1) eqn:F; try discriminate. intro H. injection H as <- <-. eauto.
Qed.

Lemma and_then_inv {A B} (p : parser A) (f : A -> sub B) i b i' :
  and_then p f i = Ok b i' -> exists a, p i = Ok a i' /\ f a = SubOk b.
Proof.
  unfold and_then. destruct (p i) as [a1 i1| | |]; try discriminate.
  destruct (f a1) eqn:F; try discriminate. intro H. injection H as <- <-. eauto.
Qed.

Lemma unchecked_inv w (p : parser bytes) i b i' :
  unchecked_utf8 w p i = Ok b i' -> p i = Ok b i' /\ utf8_valid_b b = true.
Proof.
  unfold unchecked_utf8. destruct (p i) as [a1 i1| | |]; try discriminate.
  destruct (utf8_valid_b a1) eqn:F; [|discriminate]. intro H. injection H as <- <-. auto.
Qed.

Lemma taken_inv {A} (p : parser A) i s i' :
  taken p i = Ok s i' -> exists a, p i = Ok a i' /\ s = firstn (N.to_nat (pos i' - pos i)) (rest i).
Proof.
  unfold taken. destruct (p i) as [a1 i1| | |]; try discriminate. intro H. injection H as <- <-. eauto.
Qed.

Lemma span_inv {A} (p : parser A) i sp i' :
  span_ p i = Ok sp i' -> exists a, p i = Ok a i' /\ sp = (pos i, pos i').
Proof.
  unfold span_. destruct (p i) as [a1 i1| | |]; try discriminate. intro H. injection H as <- <-. eauto.
Qed.

Lemma with_span_inv {A} (p : parser A) i x i' :
  with_span p i = Ok x i' -> exists a, p i = Ok a i' /\ x = (a, (pos i, pos i')).
Proof.
  unfold with_span. destruct (p i) as [a1 i1| | |]; try discriminate. intro H. injection H as <- <-. eauto.
Qed.

Lemma eof_inv i u i' : eof i = Ok u i' -> i' = i /\ rest i = [].
Proof. unfold eof. destruct (rest i); [|discriminate]. intro H. injection H as <- <-. auto. Qed.

(* ---- evaluation: what the parser does on a known prefix -------------------------------------------- *)
Lemma bind_ok {A B} (p : parser A) (f : A -> parser B) i a i' :
  p i = Ok a i' -> bind p f i = f a i'.
Proof. intro H. unfold bind. rewrite H. reflexivity. Qed.
Lemma bind_fails {A B} (p : parser A) (f : A -> parser B) i : fails p i -> fails (bind p f) i.
Proof. intros (e & j & H). exists e, j. unfold bind. rewrite H. reflexivity. Qed.
Lemma pmap_ok {A B} (f : A -> B) (p : parser A) i a i' : p i = Ok a i' -> pmap f p i = Ok (f a) i'.
Proof. intro H. unfold pmap. rewrite H. reflexivity. Qed.
Lemma pmap_fails {A B} (f : A -> B) (p : parser A) i : fails p i -> fails (pmap f p) i.
Proof. intros (e & j & H). exists e, j. unfold pmap. rewrite H. reflexivity. Qed.
Lemma pvoid_ok {A} (p : parser A) i a i' : p i = Ok a i' -> pvoid p i = Ok tt i'.
Proof. intro H. unfold pvoid. rewrite (pmap_ok _ _ _ _ _ H). reflexivity. Qed.
Lemma pvoid_fails {A} (p : parser A) i : fails p i -> fails (pvoid p) i.
Proof. apply pmap_fails. Qed.
Lemma pvalue_ok {A B} (b : B) (p : parser A) i a i' : p i = Ok a i' -> pvalue b p i = Ok b i'.
Proof. intro H. unfold pvalue. rewrite (pmap_ok _ _ _ _ _ H). reflexivity. Qed.
Lemma pvalue_fails {A B} (b : B) (p : parser A) i : fails p i -> fails (pvalue b p) i.
Proof. apply pmap_fails. Qed.
Lemma alt_ok {A} (p q : parser A) i a i' : p i = Ok a i' -> alt p q i = Ok a i'.
Proof. intro H. unfold alt. rewrite H. reflexivity. Qed.
Lemma alt_fails_l {A} (p q : parser A) i : fails p i -> alt p q i = q i.
Proof. intros (e & j & H). unfold alt. rewrite H. reflexivity. Qed.
Lemma alt_fails {A} (p q : parser A) i : fails p i -> fails q i -> fails (alt p q) i.
Proof. intros Hp Hq. unfold fails. rewrite (alt_fails_l _ _ _ Hp). exact Hq. Qed.
Lemma opt_ok {A} (p : parser A) i a i' : p i = Ok a i' -> opt p i = Ok (Some a) i'.
Proof. intro H. unfold opt. rewrite H. reflexivity. Qed.
Lemma opt_fails {A} (p : parser A) i : fails p i -> opt p i = Ok None i.
Proof. intros (e & j & H). unfold opt. rewrite H. reflexivity. Qed.
Lemma cut_err_ok {A} (p : parser A) i a i' : p i = Ok a i' -> cut_err p i = Ok a i'.
Proof. intro H. unfold cut_err. rewrite H. reflexivity. Qed.
Lemma context_ok {A} (p : parser A) i a i' : p i = Ok a i' -> context p i = Ok a i'.
Proof. intro H. unfold context. rewrite H. reflexivity. Qed.
Lemma context_fails {A} (p : parser A) i : fails p i -> fails (context p) i.
Proof. intros (e & j & H). unfold fails, context. rewrite H. eauto. Qed.
Lemma peek_ok {A} (p : parser A) i a i' : p i = Ok a i' -> peek p i = Ok a i.
Proof. intro H. unfold peek. rewrite H. reflexivity. Qed.
Lemma peek_fails {A} (p : parser A) i : fails p i -> fails (peek p) i.
Proof. intros (e & j & H). unfold fails, peek. rewrite H. eauto. Qed.
Lemma verify_ok {A} (f : A -> bool) (p : parser A) i a i' : p i = Ok a i' -> f a = true -> verify f p i = Ok a i'.
Proof. intros H F. unfold verify. rewrite H, F. reflexivity. Qed.
Lemma verify_map_ok {A B} (f : A -> option B) (p : parser A) i a b i' :
  p i = Ok a i' -> f a = Some b -> verify_map f p i = Ok b i'.
Proof. intros H F. unfold verify_map. rewrite H, F. reflexivity. Qed.
Lemma try_map_ok {A B} (f : A -> tm B) (p : parser A) i a b i' :
  p i = Ok a i' -> f a = TmOk b -> try_map f p i = Ok b i'.
Proof. intros H F. unfold try_map. rewrite H, F. reflexivity. Qed.
Lemma try_map_fails {A B} (f : A -> tm B) (p : parser A) i : fails p i -> fails (try_map f p) i.
Proof. intros (e & j & H). unfold fails, try_map. rewrite H. eauto. Qed.
Lemma and_then_ok {A B} (p : parser A) (f : A -> sub B) i a b i' :
  p i = Ok a i' -> f a = SubOk b -> and_then p f i = Ok b i'.
Proof. intros H F. unfold and_then. rewrite H, F. reflexivity. Qed.
Lemma unchecked_ok w (p : parser bytes) i b i' :
  p i = Ok b i' -> utf8_valid_b b = true -> unchecked_utf8 w p i = Ok b i'.
Proof. intros H F. unfold unchecked_utf8. rewrite H, F. reflexivity. Qed.
Lemma unchecked_fails w (p : parser bytes) i : fails p i -> fails (unchecked_utf8 w p) i.
Proof. intros (e & j & H). unfold fails, unchecked_utf8. rewrite H. eauto. Qed.
Lemma taken_ok {A} (p : parser A) i a t i' : p i = Ok a i' -> splits i t i' -> taken p i = Ok t i'.
Proof. intros H S. unfold taken. rewrite H. rewrite (splits_taken _ _ _ S). reflexivity. Qed.
Lemma taken_fails {A} (p : parser A) i : fails p i -> fails (taken p) i.
Proof. intros (e & j & H). unfold fails, taken. rewrite H. eauto. Qed.
Lemma with_span_ok {A} (p : parser A) i a i' : p i = Ok a i' -> with_span p i = Ok (a, (pos i, pos i')) i'.
Proof. intro H. unfold with_span. rewrite H. reflexivity. Qed.
Lemma span_ok {A} (p : parser A) i a i' : p i = Ok a i' -> span_ p i = Ok (pos i, pos i') i'.
Proof. intro H. unfold span_. rewrite H. reflexivity. Qed.

Lemma any_ok i b r : rest i = b :: r -> any i = Ok b (adv [b] i).
Proof. intro H. unfold any. rewrite H. reflexivity. Qed.
Lemma any_fails i : rest i = [] -> fails any i.
Proof. intro H. unfold fails, any. rewrite H. eauto. Qed.

Lemma one_of_ok f i b r : rest i = b :: r -> f b = true -> one_of f i = Ok b (adv [b] i).
Proof. intros H F. unfold one_of. rewrite H, F. reflexivity. Qed.
Lemma one_of_fails f i : stops f (rest i) -> fails (one_of f) i.
Proof.
  unfold stops, fails, one_of. destruct (rest i) as [|b r]; [eauto|]. intro F. rewrite F. eauto.
Qed.
Lemma one_of_ext f g i : (forall b, f b = g b) -> one_of f i = one_of g i.
Proof. intro H. unfold one_of. destruct (rest i); [reflexivity|]. rewrite H. reflexivity. Qed.

Lemma byte_ok x i r : rest i = x :: r -> byte_ x i = Ok x (adv [x] i).
Proof. intro H. unfold byte_. apply (one_of_ok _ _ _ r H). apply byte_eqb_refl. Qed.
Lemma byte_fails x i : stops (byte_eqb x) (rest i) -> fails (byte_ x) i.
Proof. apply one_of_fails. Qed.

Lemma lit_ok l i r : rest i = l ++ r -> lit l i = Ok l (adv l i).
Proof.
  intro H. unfold lit. destruct (strip_prefix l (rest i)) eqn:E; [reflexivity|].
  apply (proj2 (strip_prefix_spec l (rest i) r)) in H. congruence.
Qed.
Lemma lit_fails l i : (forall r, rest i <> l ++ r) -> fails (lit l) i.
Proof.
  intro H. unfold fails, lit. destruct (strip_prefix l (rest i)) eqn:E; [|eauto].
  apply strip_prefix_spec in E. destruct (H _ E).
Qed.

Lemma take_while_ok m f i a r :
  rest i = a ++ r -> forallb f a = true -> stops f r -> m <= length a ->
  take_while_mn m None f i = Ok a (adv a i).
Proof.
  intros H Ha Hr Hm. unfold take_while_mn. rewrite H. rewrite (span_while_exact f a r Ha Hr). cbn [fst].
  apply Nat.ltb_ge in Hm. rewrite Hm. reflexivity.
Qed.
Lemma take_while1_fails f i : stops f (rest i) -> fails (take_while1 f) i.
Proof.
  unfold stops, fails, take_while1, take_while_mn. destruct (rest i) as [|b r]; cbn.
  - eauto.
  - intro F. rewrite F. cbn. eauto.
Qed.
Lemma take_while_ext m n f g i : (forall b, f b = g b) -> take_while_mn m n f i = take_while_mn m n g i.
Proof.
  intro H. unfold take_while_mn. destruct n as [n|].
  - assert (E : forall k s, take_upto f k s = take_upto g k s).
    { induction k as [|k IH]; intros [|b s]; simpl; try reflexivity. rewrite H, IH. reflexivity. }
    rewrite E. reflexivity.
  - rewrite (span_while_ext f g _ H). reflexivity.
Qed.

Lemma eof_ok i : rest i = [] -> eof i = Ok tt i.
Proof. intro H. unfold eof. rewrite H. reflexivity. Qed.

(* ---- the repeat loops without fuel --------------------------------------------------------------------- *)
(* p succeeds on i, i1, ... (consuming each time) and then fails without commitment at i' *)
Inductive runs {A} (p : parser A) : input -> list A -> input -> Prop :=
| runs_nil i : fails p i -> runs p i [] i
| runs_cons i a i1 l i2 : p i = Ok a i1 -> length (rest i1) < length (rest i) ->
    runs p i1 l i2 -> runs p i (a :: l) i2.

(* a parser never lengthens its input *)
Definition shrinking {A} (p : parser A) : Prop :=
  forall i a i', p i = Ok a i' -> length (rest i') <= length (rest i).

Lemma splits_shrinking {A} (p : parser A) :
  (forall i a i', p i = Ok a i' -> exists t, splits i t i') -> shrinking p.
Proof. intros H i a i' E. destruct (H i a i' E) as (t & S). apply splits_len in S. lia. Qed.

Lemma repeat0_f_runs {A} (p : parser A) i l i' : runs p i l i' ->
  forall fuel acc, length (rest i) < fuel -> repeat0_f fuel p acc i = Ok (rev acc ++ l) i'.
Proof.
  induction 1 as [i (e & j & F)|i a i1 l i2 E Hlt R IH]; intros fuel acc Hf;
    (destruct fuel as [|fuel]; [lia|]); cbn [repeat0_f].
  - rewrite F. rewrite app_nil_r. reflexivity.
  - rewrite E. destruct (Nat.eqb (length (rest i1)) (length (rest i))) eqn:Q.
    + apply Nat.eqb_eq in Q. lia.
    + rewrite IH by lia. cbn [rev]. rewrite <- app_assoc. reflexivity.
Qed.

Lemma repeat0_runs {A} (p : parser A) i l i' : runs p i l i' -> repeat0 p i = Ok l i'.
Proof. intro R. unfold repeat0. rewrite (repeat0_f_runs p i l i' R) by lia. reflexivity. Qed.

Lemma repeat0_f_inv {A} (p : parser A) : shrinking p ->
  forall fuel acc i l i', repeat0_f fuel p acc i = Ok l i' -> exists l', l = rev acc ++ l' /\ runs p i l' i'.
Proof.
  intros Hs. induction fuel as [|fuel IH]; intros acc i l i' H; cbn [repeat0_f] in H; [discriminate|].
  destruct (p i) as [a i1|e j| |] eqn:E; try discriminate.
  - destruct (Nat.eqb (length (rest i1)) (length (rest i))) eqn:Q; [discriminate|].
    apply Nat.eqb_neq in Q. pose proof (Hs _ _ _ E) as Hle.
    apply IH in H as (l' & -> & R). exists (a :: l'). split.
    + cbn [rev]. rewrite <- app_assoc. reflexivity.
    + eapply runs_cons; [exact E|lia|exact R].
  - injection H as <- <-. exists []. split; [rewrite app_nil_r; reflexivity|].
    apply runs_nil. exists e, j. exact E.
Qed.

Lemma repeat0_inv {A} (p : parser A) i l i' : shrinking p -> repeat0 p i = Ok l i' -> runs p i l i'.
Proof.
  intros Hs H. unfold repeat0 in H. apply (repeat0_f_inv p Hs) in H as (l' & -> & R). exact R.
Qed.

Lemma repeat1_runs {A} (p : parser A) i a i1 l i' :
  p i = Ok a i1 -> runs p i1 l i' -> repeat1 p i = Ok (a :: l) i'.
Proof.
  intros E R. unfold repeat1. rewrite E. rewrite (repeat0_f_runs p i1 l i' R) by lia. reflexivity.
Qed.
Lemma repeat1_fails {A} (p : parser A) i : fails p i -> fails (repeat1 p) i.
Proof. intros (e & j & H). unfold fails, repeat1. rewrite H. eauto. Qed.
Lemma repeat1_inv {A} (p : parser A) i l i' : shrinking p ->
  repeat1 p i = Ok l i' -> exists a i1 l', l = a :: l' /\ p i = Ok a i1 /\ runs p i1 l' i'.
Proof.
  intros Hs H. unfold repeat1 in H. destruct (p i) as [a i1| | |] eqn:E; try discriminate.
  apply (repeat0_f_inv p Hs) in H as (l' & -> & R). exists a, i1, l'. auto.
Qed.

(* a run reads some text, and ends where p fails *)
Lemma runs_end {A} (p : parser A) i l i' : runs p i l i' -> fails p i'.
Proof. induction 1; auto. Qed.

(* ---- UTF-8 ------------------------------------------------------------------------------------------------ *)
Definition ascii (b : byte) : bool := (b2n b <=? 127)%N.

Lemma utf8_cons_ascii b s : ascii b = true -> utf8_valid_b (b :: s) = utf8_valid_b s.
Proof. unfold ascii. intro H. cbn [utf8_valid_b]. rewrite H. reflexivity. Qed.

Lemma utf8_ascii s : forallb ascii s = true -> utf8_valid_b s = true.
Proof.
  induction s as [|b s IH]; [reflexivity|]. cbn [forallb]. intro H. apply andb_true_iff in H as [Hb Hs].
  rewrite utf8_cons_ascii by exact Hb. auto.
Qed.

Lemma utf8_app_ascii a s : forallb ascii a = true -> utf8_valid_b (a ++ s) = utf8_valid_b s.
Proof.
  induction a as [|b a IH]; [reflexivity|]. cbn [forallb app]. intro H. apply andb_true_iff in H as [Hb Ha].
  rewrite utf8_cons_ascii by exact Hb. auto.
Qed.

(* a well-formed prefix can be dropped *)
Lemma utf8_app_n n : forall a s, length a <= n -> utf8_valid_b a = true -> utf8_valid_b (a ++ s) = utf8_valid_b s.
Proof.
  induction n as [|n IH]; intros a s Hn Ha.
  - destruct a; [reflexivity|simpl in Hn; lia].
  - destruct a as [|a0 a1]; [reflexivity|]. simpl in Hn.
    cbn [app utf8_valid_b] in *.
    destruct (b2n a0 <=? 127)%N; [apply IH; [lia|exact Ha]|].
    destruct (inr 194 223 a0).
    { destruct a1 as [|a2 a3]; [discriminate|]. cbn [app]. apply andb_true_iff in Ha as [H1 H2].
      rewrite H1. cbn [andb]. apply IH; [simpl in Hn; lia|exact H2]. }
    destruct (inr 224 239 a0).
    { destruct a1 as [|a2 [|a3 a4]]; try discriminate. cbn [app]. apply andb_true_iff in Ha as [H1 H2].
      rewrite H1. cbn [andb]. apply IH; [simpl in Hn; lia|exact H2]. }
    destruct (inr 240 244 a0); [|discriminate].
    destruct a1 as [|a2 [|a3 [|a4 a5]]]; try discriminate. cbn [app]. apply andb_true_iff in Ha as [H1 H2].
    rewrite H1. cbn [andb]. apply IH; [simpl in Hn; lia|exact H2].
Qed.

Lemma utf8_app a s : utf8_valid_b a = true -> utf8_valid_b (a ++ s) = utf8_valid_b s.
Proof. apply (utf8_app_n (length a)). lia. Qed.

Lemma ascii_not_cont b : ascii b = true -> is_cont b = false.
Proof. unfold ascii, is_cont. lia. Qed.
Lemma ascii_not_inr lo hi b : ascii b = true -> (128 <= lo)%N -> inr lo hi b = false.
Proof. unfold ascii, inr. lia. Qed.

(* a well-formed text cut before an ASCII byte: both sides are well-formed *)
Lemma utf8_split_n n : forall a b c, length a <= n -> ascii b = true ->
  utf8_valid_b (a ++ b :: c) = true -> utf8_valid_b a = true /\ utf8_valid_b c = true.
Proof.
  induction n as [|n IH]; intros a b c Hn Hb H.
  - destruct a; [|simpl in Hn; lia]. simpl app in H. rewrite utf8_cons_ascii in H by exact Hb. auto.
  - destruct a as [|a0 a1].
    { simpl app in H. rewrite utf8_cons_ascii in H by exact Hb. auto. }
    simpl in Hn. pose proof (ascii_not_cont b Hb) as Hc.
    assert (Hi : forall lo hi, (128 <= lo)%N -> inr lo hi b = false) by (intros; apply ascii_not_inr; assumption).
    cbn [app utf8_valid_b] in H. cbn [utf8_valid_b].
    destruct (b2n a0 <=? 127)%N.
    { apply (IH a1 b c); [lia|exact Hb|exact H]. }
    destruct (inr 194 223 a0).
    { destruct a1 as [|a2 a3]; cbn [app] in H.
      - rewrite Hc in H. discriminate.
      - apply andb_true_iff in H as [H1 H2]. rewrite H1. cbn [andb].
        apply (IH a3 b c); [simpl in Hn; lia|exact Hb|exact H2]. }
    assert (Hfirst : forall x, (if (b2n a0 =? x)%N then inr 160 191 b else if (b2n a0 =? 237)%N then inr 128 159 b else is_cont b) = false).
    { intro x. rewrite !Hi by lia. rewrite Hc. destruct (b2n a0 =? x)%N; [reflexivity|]. destruct (b2n a0 =? 237)%N; reflexivity. }
    assert (Hfirst4 : forall x, (if (b2n a0 =? x)%N then inr 144 191 b else if (b2n a0 =? 244)%N then inr 128 143 b else is_cont b) = false).
    { intro x. rewrite !Hi by lia. rewrite Hc. destruct (b2n a0 =? x)%N; [reflexivity|]. destruct (b2n a0 =? 244)%N; reflexivity. }
    destruct (inr 224 239 a0).
    { destruct a1 as [|a2 [|a3 a4]]; cbn [app] in H.
      - destruct c as [|c0 c1]; [discriminate|]. rewrite Hfirst in H. discriminate.
      - rewrite Hc in H. rewrite andb_false_r in H. discriminate.
      - apply andb_true_iff in H as [H1 H2]. rewrite H1. cbn [andb].
        apply (IH a4 b c); [simpl in Hn; lia|exact Hb|exact H2]. }
    destruct (inr 240 244 a0); [|discriminate].
    destruct a1 as [|a2 [|a3 [|a4 a5]]]; cbn [app] in H.
    + destruct c as [|c0 [|c1 c2]]; try discriminate. rewrite Hfirst4 in H. discriminate.
    + destruct c as [|c0 c1]; [discriminate|]. rewrite Hc in H. rewrite andb_false_r in H. discriminate.
    + rewrite Hc in H. rewrite andb_false_r in H. discriminate.
    + apply andb_true_iff in H as [H1 H2]. rewrite H1. cbn [andb].
      apply (IH a5 b c); [simpl in Hn; lia|exact Hb|exact H2].
Qed.

Lemma utf8_split a b c : ascii b = true -> utf8_valid_b (a ++ b :: c) = true ->
  utf8_valid_b a = true /\ utf8_valid_b c = true.
Proof. apply (utf8_split_n (length a)). lia. Qed.

(* the text after the cut starts with an ASCII byte, or is empty *)
Definition ascii_head (s : bytes) : Prop := match s with [] => True | b :: _ => ascii b = true end.

Lemma utf8_cut a s : ascii_head s -> utf8_valid_b (a ++ s) = true ->
  utf8_valid_b a = true /\ utf8_valid_b s = true.
Proof.
  destruct s as [|b c]; intros Hh H.
  - rewrite app_nil_r in H. auto.
  - simpl in Hh. destruct (utf8_split a b c Hh H) as [Ha Hc]. split; [exact Ha|].
    rewrite utf8_cons_ascii by exact Hh. exact Hc.
Qed.

Lemma utf8_join a s : utf8_valid_b a = true -> utf8_valid_b s = true -> utf8_valid_b (a ++ s) = true.
Proof. intros Ha Hs. rewrite utf8_app by exact Ha. exact Hs. Qed.
