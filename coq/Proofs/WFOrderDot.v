(* Proofs/WFOrderDot.v — sections in Display's order, part 4: key/value lines with dotted keys.
   Display regroups the lines of a section: the lines through one table made of dotted keys come out together.  On the
   specification side this changes nothing (Proofs/WFSem.v dfold: a dotted forest, flattened, folds to itself).  Here:
     PLv st X           the tree of C09's invariant with X put where the open section is (`plug` of Proofs/DefsEquivSpec.v);
     lines_run          key/value statements at the path of the open section act on what is plugged there;
     pure_items L       the entries the lines of a section make: written values, and tables made of dotted keys holding
                        such entries only; `pure_fold`: their lines (Display's order) fold to their abstraction;
     keyval_shape       on_keyval keeps the open table of the form  <sub-tables it had when opened> ++ <pure entries>,
                        unless the dotted key runs through a super-table (class U1), which a decided step excludes
                        (`u1_excluded`); `sds_shape`: so does the span bookkeeping of descend_path;
     nlr / nls          the shape of the tree of a run: a table made by headers only (implicit, not dotted) holds
                        sections only; kept by descend_path for headers, finalize_table, start_table, start_array_table. *)
From TV Require Import Base.Prelude Base.Utf8 Base.Winnow Gen.Consts Spec.Abnf Spec.Lex Spec.Defs Spec.DatetimeSpec Spec.Syntax Spec.WF.
From TV Require Import Model.Trivia Model.Strings Model.Datetime Model.Numbers Model.Tree Model.Parse Model.Document Model.Write Model.Encode.
From TV Require Import Proofs.DefsEquivBase Proofs.DefsEquivSpec Proofs.DefsEquivKv Proofs.DefsEquivWalk Proofs.DefsEquivSim Proofs.DefsEquivMain
                       Proofs.GrammarBase Proofs.GrammarParam Proofs.GrammarDocBase Proofs.PrintBackSecs Proofs.PrintBackDAll.
From TV Require Import Proofs.WFSem Proofs.WFSemDoc Proofs.WFPrintKey Proofs.WFPrintFlat Proofs.WFTree Proofs.WFPrintDoc Proofs.WFParseBase Proofs.WFParseValue
                       Proofs.WFParseState Proofs.WFReplay Proofs.WFOrderBase Proofs.WFOrderState Proofs.WFOrderDoc.
Require Import Lia NArith.

(* ---- the open section inside the tree ------------------------------------------------------------------------------------ *)
Definition PLv (st : pstate) (X : stree value) : res (stree value * unit) :=
  match pop_key (st_path st) with
  | Some (pre, k) => at_path_x (keys pre) (plug (st_is_array st) (k_key k) X) (abs_tbl (st_root st))
  | None => ROk (X, tt)
  end.

Lemma Inv_PLv st T cp : Inv st (T, cp) -> cp = keys (st_path st) /\ PLv st (abs_tbl (st_current st)) = ROk (T, tt).
Proof.
  intros (Hcp & _ & _ & _ & _ & _ & _ & Hplug). split; [exact Hcp|]. unfold PLv. destruct (pop_key (st_path st)) as [[pre k]|]; [exact Hplug|].
  destruct Hplug as [_ ->]. reflexivity.
Qed.

Lemma PLv_any st X X' Y : PLv st X = ROk (Y, tt) -> exists Y', PLv st X' = ROk (Y', tt).
Proof.
  unfold PLv. destruct (pop_key (st_path st)) as [[pre k]|]; [apply plug_any|]. intros _. eauto.
Qed.

(* key/value statements at the path of the open section *)
Lemma lines_run st : forall (ps : list (list bytes * value)) c c' Xc,
  PLv st c = ROk (Xc, tt) -> inline_fold c ps = ROk c' ->
  exists Xc', PLv st c' = ROk (Xc', tt)
              /\ spec_fold true (Xc, keys (st_path st)) (map (fun pv => SKeyVal (fst pv) (snd pv)) ps) = ROk (Xc', keys (st_path st)).
Proof.
  induction ps as [|[p v] ps IH]; intros c c' Xc HP Hf; cbn [inline_fold map spec_fold] in *.
  - injection Hf as <-. exists Xc. auto.
  - destruct (insert_kv true p v c) as [c1| |] eqn:Ei; try discriminate. cbn [rbind] in Hf.
    destruct (PLv_any st c c1 Xc HP) as (Xc1 & HP1). destruct (IH c1 c' Xc1 HP1 Hf) as (Xc' & HP' & Hrun). exists Xc'. split; [exact HP'|].
    cbn [spec_step fst snd]. assert (Es : at_path (keys (st_path st)) (insert_kv true p v) Xc = ROk Xc1).
    { unfold PLv in HP, HP1. destruct (pop_key (st_path st)) as [[pre k]|] eqn:Ep.
      - rewrite (DefsEquivSim.pop_key_some _ _ _ Ep). unfold keys. rewrite map_app. cbn [map]. fold (keys pre).
        rewrite at_path_lift, (plug_then_walk _ _ (lift (insert_kv true p v)) c (keys pre) _ Xc HP). unfold lift at 1. rewrite Ei. cbn [rbind fst snd].
        rewrite HP1. reflexivity.
      - rewrite (DefsEquivSim.pop_key_none _ Ep). cbn [keys map at_path]. injection HP as <-. injection HP1 as <-. exact Ei. }
    rewrite Es. cbn [rbind]. exact Hrun.
Qed.

(* ---- the entries key/value lines make --------------------------------------------------------------------------------------- *)
Fixpoint pure_t (t : tbl) {struct t} : Prop :=
  match t with
  | Tbl items _ _ _ _ _ =>
    items <> []
    /\ all_P (fun kv => match snd kv with
                        | IValue v => written v
                        | ITable sub => t_dotted sub = true /\ t_implicit sub = true /\ t_position sub = None /\ pure_t sub
                        | _ => False
                        end) items
  end.
Definition pure_e (kv : key * item) : Prop :=
  match snd kv with
  | IValue v => written v
  | ITable sub => t_dotted sub = true /\ t_implicit sub = true /\ t_position sub = None /\ pure_t sub
  | _ => False
  end.
Definition pure_items (L : list (key * item)) : Prop := all_P pure_e L.
Lemma pure_t_eq t : pure_t t <-> t_items t <> [] /\ pure_items (t_items t).
Proof. destruct t; reflexivity. Qed.

(* as a forest of values *)
Fixpoint dnv (it : item) {struct it} : dnode value :=
  match it with
  | IValue v => DV v
  | ITable (Tbl items _ _ _ _ _) => DT (map (fun kv => (k_key (fst kv), dnv (snd kv))) items)
  | _ => DT []
  end.
Definition dfv (L : list (key * item)) : list (bytes * dnode value) := map (fun kv => (k_key (fst kv), dnv (snd kv))) L.
Lemma dnv_table sub : dnv (ITable sub) = DT (dfv (t_items sub)).
Proof. destruct sub; reflexivity. Qed.

Lemma pure_ind (P : list (key * item) -> Prop) :
  P [] ->
  (forall k v L, written v -> pure_items L -> P L -> P ((k, IValue v) :: L)) ->
  (forall k sub L, t_dotted sub = true -> t_implicit sub = true -> t_position sub = None -> t_items sub <> [] -> pure_items (t_items sub) ->
                   P (t_items sub) -> pure_items L -> P L -> P ((k, ITable sub) :: L)) ->
  forall L, pure_items L -> P L.
Proof.
  intros H0 Hv Ht. assert (G : forall t : tbl, pure_items (t_items t) -> P (t_items t)).
  { induction t as [items d im dt p sp IH] using tbl_sub_ind. cbn [t_items]. induction items as [|[k it] items IHi]; intro Hp; [exact H0|].
    inversion IH as [|? ? H1 H2]; subst. destruct Hp as [He Hp]. unfold pure_e in He. cbn [snd] in He, H1. destruct it as [|v|sub|ts asp]; try contradiction.
    - apply Hv; [exact He|exact Hp|apply IHi; assumption].
    - destruct He as (Hd & Hi & Hq & Hs). apply pure_t_eq in Hs as [Hne Hs]. apply Ht; auto. }
  intros L HL. exact (G (Tbl L decor_default false false None None) HL).
Qed.

Definition vline (pv : list key * value) : list bytes * value := (ktexts (fst pv), snd pv).

Lemma written_iflat parent k v : written v -> iflat_item parent k (IValue v) = [(parent ++ [k], v)].
Proof. destruct v as [x r d|vals tr c d sp|sub pre im dt d sp]; try reflexivity. intros [_ ->]. reflexivity. Qed.

Lemma tfl_cons p kv L : tfl p (kv :: L) = tflat_item p (fst kv) (snd kv) ++ tfl p L.
Proof. reflexivity. Qed.
Lemma dflat_cons {V} (x : bytes * dnode V) l : dflat V (x :: l) = dflat_node V (fst x) (snd x) ++ dflat V l.
Proof. reflexivity. Qed.

Lemma pure_dflat : forall L, pure_items L -> forall parent,
  map vline (tfl parent L) = map (fun pv => (ktexts parent ++ fst pv, snd pv)) (dflat value (dfv L)).
Proof.
  apply (pure_ind (fun L => forall parent, map vline (tfl parent L) = map (fun pv => (ktexts parent ++ fst pv, snd pv)) (dflat value (dfv L)))).
  - reflexivity.
  - intros k v L Hw _ IH parent. unfold dfv. cbn [map fst snd]. rewrite tfl_cons, dflat_cons, !map_app. fold (dfv L). rewrite (IH parent). f_equal.
    cbn [fst snd tflat_item dnv dflat_node]. rewrite (written_iflat _ _ _ Hw). cbn [map]. unfold vline. cbn [fst snd]. rewrite ktexts_snoc. reflexivity.
  - intros k sub L Hd _ _ _ _ IHs _ IH parent. unfold dfv. cbn [map fst snd]. rewrite tfl_cons, dflat_cons, !map_app. fold (dfv L). rewrite (IH parent). f_equal.
    cbn [fst snd tflat_item]. rewrite Hd, dnv_table, tflat_tfl, (IHs (parent ++ [k])). cbn [dflat_node]. fold (dflat value (dfv (t_items sub))).
    rewrite !map_map. apply map_ext. intros [q x]. cbn [fst snd]. rewrite ktexts_snoc, <- app_assoc. reflexivity.
Qed.

Lemma abs_items_cons kv L : abs_items (kv :: L) = (k_key (fst kv), abs_item (snd kv)) :: abs_items L.
Proof. reflexivity. Qed.
Lemma dres_cons {V} (x : bytes * dnode V) l : dres V (x :: l) = (fst x, dres_node V (snd x)) :: dres V l.
Proof. reflexivity. Qed.

Lemma pure_dres : forall L, pure_items L -> dres value (dfv L) = abs_items L.
Proof.
  apply (pure_ind (fun L => dres value (dfv L) = abs_items L)).
  - reflexivity.
  - intros k v L _ _ IH. unfold dfv. cbn [map]. fold (dfv L). rewrite dres_cons, abs_items_cons, IH. reflexivity.
  - intros k sub L Hd Hi _ _ _ IHs _ IH. unfold dfv. cbn [map]. fold (dfv L). rewrite dres_cons, abs_items_cons, IH. cbn [fst snd]. f_equal. f_equal.
    rewrite dnv_table. change (abs_item (ITable sub)) with (NTab (kind_of sub) (abs_tbl sub)). unfold kind_of. rewrite Hi, Hd.
    cbn [dres_node]. f_equal. fold (dres value (dfv (t_items sub))). rewrite abs_tbl_eq. exact IHs.
Qed.

Lemma dfv_keys L : map fst (dfv L) = map kk L.
Proof. unfold dfv. rewrite map_map. reflexivity. Qed.

(* unique keys, hereditarily through the tables made of dotted keys *)
Lemma pure_dwf : forall L, pure_items L -> uks2 anyk L -> NoDup (map kk L) -> dwf value (dfv L).
Proof.
  apply (pure_ind (fun L => uks2 anyk L -> NoDup (map kk L) -> dwf value (dfv L))).
  - intros _ _. split; constructor.
  - intros k v L _ _ IH Hu Hn. inversion Hu as [|? ? _ Hu']; subst. cbn [map] in Hn. inversion Hn as [|? ? Hk Hn']; subst. destruct (IH Hu' Hn') as [H1 H2].
    split; [unfold dfv; cbn [map fst]; constructor; [rewrite <- dfv_keys in Hk; exact Hk|exact H1]|]. unfold dfv. cbn [map snd dnv]. constructor; [constructor|exact H2].
  - intros k sub L _ _ _ Hne _ IHs _ IH Hu Hn. inversion Hu as [|? ? [_ Hus] Hu']; subst. cbn [snd uki2] in Hus. apply uk2_eq in Hus as [Hns Hss].
    cbn [map] in Hn. inversion Hn as [|? ? Hk Hn']; subst. destruct (IH Hu' Hn') as [H1 H2]. destruct (IHs Hss Hns) as [S1 S2].
    split; [unfold dfv; cbn [map fst]; constructor; [rewrite <- dfv_keys in Hk; exact Hk|exact H1]|]. unfold dfv. cbn [map snd]. constructor; [|exact H2].
    rewrite dnv_table. constructor; [destruct (t_items sub); [congruence|discriminate]|exact S1|exact S2].
Qed.

(* the lines of pure entries, in Display's order, fold to their abstraction *)
Lemma pure_fold L C : pure_items L -> uks2 anyk L -> NoDup (map kk L) -> (forall x, In x (map kk L) -> ~ In x (map fst C)) ->
  inline_fold C (map vline (tfl [] L)) = ROk (C ++ abs_items L).
Proof.
  intros Hp Hu Hn Hd. rewrite (pure_dflat L Hp []). cbn [ktexts map app].
  replace (map (fun pv : list bytes * value => (fst pv, snd pv)) (dflat value (dfv L))) with (dflat value (dfv L))
    by (rewrite <- (map_id (dflat value (dfv L))) at 1; apply map_ext; intros [q x]; reflexivity).
  rewrite (dfold value (dfv L) C (pure_dwf L Hp Hu Hn)); [rewrite (pure_dres L Hp); reflexivity|]. rewrite dfv_keys. exact Hd.
Qed.

(* ---- the open table: the sub-tables it had when opened, then pure entries ----------------------------------------------- *)
Definition is_sec (kv : key * item) : Prop :=
  match snd kv with
  | ITable sub => t_dotted sub = false
  | IAot ts _ => Forall (fun e => t_dotted e = false) ts
  | _ => False
  end.

Lemma tfl_secs p T0 : Forall is_sec T0 -> tfl p T0 = [].
Proof.
  induction 1 as [|[k it] T0 H _ IH]; [reflexivity|]. rewrite tfl_cons, IH, app_nil_r. unfold is_sec in H. cbn [fst snd] in *.
  destruct it as [|v|sub|ts asp]; try contradiction; cbn [tflat_item]; [rewrite H|]; reflexivity.
Qed.

Lemma BbI_pure : forall L, pure_items L -> forall P, BbI L P = [].
Proof.
  apply (pure_ind (fun L => forall P, BbI L P = [])).
  - reflexivity.
  - intros k v L _ _ IH P. cbn [BbI flat_map]. fold (BbI L P). rewrite IH. reflexivity.
  - intros k sub L Hd _ _ _ _ IHs _ IH P. cbn [BbI flat_map]. fold (BbI L P). rewrite IH, app_nil_r. unfold Bit. cbn [fst snd]. rewrite Bb_eq.
    unfold own_e. rewrite Hd. cbn [app]. apply IHs.
Qed.

Lemma pure_hentries : forall L, pure_items L -> all_P hentry L.
Proof.
  apply (pure_ind (fun L => all_P hentry L)).
  - exact I.
  - intros k v L _ _ IH. split; [exact I|exact IH].
  - intros k sub L Hd Hi Hq _ _ IHs _ IH. split; [|exact IH]. unfold hentry. cbn [snd]. split; [apply hp_eq, IHs|]. split; [intros _; exact Hq|]. intro X. congruence.
Qed.

Lemma kv_get_app A B k : kv_get (A ++ B) k = match kv_get A k with Some x => Some x | None => kv_get B k end.
Proof. induction A as [|[k1 v1] A IH]; [reflexivity|]. cbn [app kv_get]. destruct (bytes_eqb (k_key k1) k); [reflexivity|exact IH]. Qed.
Lemma kv_set_app_r A B k it : kv_get A k = None -> kv_set (A ++ B) k it = A ++ kv_set B k it.
Proof.
  induction A as [|[k1 v1] A IH]; [reflexivity|]. cbn [app kv_get kv_set]. destruct (bytes_eqb (k_key k1) k); [discriminate|]. intro H. rewrite (IH H). reflexivity.
Qed.
Lemma kv_set_nonempty m k k0 it it' : kv_get m k = Some (k0, it) -> kv_set m k it' <> [].
Proof. destruct m as [|[k1 v1] m]; cbn [kv_get kv_set]; [discriminate|]. destruct (bytes_eqb (k_key k1) k); discriminate. Qed.

Lemma hframe_flags t t' : hframe t t' -> t_implicit t' = t_implicit t /\ t_dotted t' = t_dotted t /\ t_position t' = t_position t.
Proof. intros (_ & H2 & H3 & H4 & _). auto. Qed.

(* a dotted key below a table of pure entries *)
Lemma dctx_pure p r r' par par' : dctx_rel true p r r' par par' -> pure_items (t_items r) ->
  pure_items (t_items par)
  /\ (pure_items (t_items par') -> t_items par' <> [] -> hframe par par' -> pure_items (t_items r') /\ t_items r' <> [] /\ hframe r r').
Proof.
  induction 1 as [t t'|t k p sub par par' G Hc IH|t k p k0 sub sub' par par' G Hc IH|t k p k0 ts sp last rinit last' par par' G Er Hc IH]; intro Hp.
  - auto.
  - destruct IH as [H1 H2]; [exact I|]. split; [exact H1|]. intros Hp' Hne Hf. destruct (H2 Hp' Hne Hf) as (Hs & Hsn & Hsf).
    rewrite t_items_set. split; [|split; [unfold kv_push; destruct (t_items t); discriminate|apply hframe_set_items]].
    apply all_P_push; [exact Hp|]. unfold pure_e. cbn [snd]. destruct (hframe_flags _ _ Hsf) as (F1 & F2 & F3). cbn [implicitd t_implicit t_dotted t_position] in *.
    repeat (split; [assumption|]). apply pure_t_eq. auto.
  - pose proof (all_P_get _ _ _ _ _ Hp G) as He. unfold pure_e in He. cbn [snd] in He. destruct He as (Hd & Hi & Hq & Hs). apply pure_t_eq in Hs as [_ Hs].
    destruct (IH Hs) as [H1 H2]. split; [exact H1|]. intros Hp' Hne Hf. destruct (H2 Hp' Hne Hf) as (Hs' & Hsn & Hsf).
    rewrite t_items_set. split; [|split; [apply (kv_set_nonempty _ _ _ _ _ G)|apply hframe_set_items]].
    apply (all_P_set _ _ _ k0 _ _ Hp G). unfold pure_e. cbn [snd]. destruct (hframe_flags _ _ Hsf) as (F1 & F2 & F3).
    split; [congruence|]. split; [congruence|]. split; [congruence|]. apply pure_t_eq. auto.
  - pose proof (all_P_get _ _ _ _ _ Hp G) as He. contradiction.
Qed.

Lemma keyval_shape st path k v st' T0 L :
  on_keyval st path k (IValue v) = COk st' -> t_items (st_current st) = T0 ++ L -> Forall is_sec T0 -> pure_items L -> written v ->
  (forall k1 p1 k0 sub, path = k1 :: p1 -> kv_get T0 (k_key k1) = Some (k0, ITable sub) -> t_implicit sub = true -> False) ->
  exists L', (forall k1 p1, path = k1 :: p1 -> kv_get T0 (k_key k1) = None) /\ t_items (st_current st') = T0 ++ L' /\ pure_items L'
             /\ st_root st' = st_root st /\ st_path st' = st_path st /\ st_is_array st' = st_is_array st /\ st_position st' = st_position st
             /\ t_implicit (st_current st') = t_implicit (st_current st) /\ t_dotted (st_current st') = t_dotted (st_current st)
             /\ t_position (st_current st') = t_position (st_current st).
Proof.
  unfold on_keyval. cbv zeta. intros H Hit Hsec Hpure Hw Hu1.
  match type of H with context [kv_push _ ?K (IValue v)] => set (k' := K) in * end.
  match type of H with context [with_table_at ?c path true ?F] => set (cur0 := c) in *; set (f := F) in * end.
  assert (Hc0 : t_items cur0 = t_items (st_current st) /\ t_implicit cur0 = t_implicit (st_current st) /\ t_dotted cur0 = t_dotted (st_current st)
                /\ t_position cur0 = t_position (st_current st)).
  { subst cur0. destruct (t_span (st_current st)); [destruct (item_span (IValue v))|]; destruct (st_current st); auto. }
  destruct Hc0 as (C1 & C2 & C3 & C4).
  destruct (with_table_at cur0 path true f) as [[cur' u]| |] eqn:E; try discriminate. injection H as <-. cbn [st_root st_current st_path st_is_array st_position].
  assert (Hf : forall par par' x, f par = COk (par', x) -> par' = t_set_items par (kv_push (t_items par) k' (IValue v))).
  { intros par par' x Hfp. subst f. cbv beta in Hfp. destruct (Bool.eqb (t_dotted par) _); [discriminate|]. destruct (kv_get (t_items par) (k_key k')); [discriminate|].
    injection Hfp as <- _. reflexivity. }
  assert (Hpush : forall par, pure_items (t_items par) ->
            pure_items (t_items (t_set_items par (kv_push (t_items par) k' (IValue v)))) /\ t_items (t_set_items par (kv_push (t_items par) k' (IValue v))) <> []
            /\ hframe par (t_set_items par (kv_push (t_items par) k' (IValue v)))).
  { intros par Hp. rewrite t_items_set. split; [apply all_P_push; [exact Hp|exact Hw]|]. split; [unfold kv_push; destruct (t_items par); discriminate|apply hframe_set_items]. }
  assert (G : exists L', (forall k1 p1, path = k1 :: p1 -> kv_get T0 (k_key k1) = None) /\ t_items cur' = T0 ++ L' /\ pure_items L' /\ t_implicit cur' = t_implicit cur0 /\ t_dotted cur' = t_dotted cur0 /\ t_position cur' = t_position cur0).
  { destruct path as [|k1 p1].
    - cbn [with_table_at] in E. rewrite (Hf _ _ _ E), t_items_set, C1, Hit. exists (L ++ [(k', IValue v)]). unfold kv_push. rewrite <- app_assoc.
      split; [intros ? ? Eq; discriminate|]. split; [reflexivity|]. split; [apply all_P_app; split; [exact Hpure|split; [exact Hw|exact I]]|]. destruct cur0; auto.
    - cbn [with_table_at] in E. rewrite C1, Hit, kv_get_app in E. destruct (kv_get T0 (k_key k1)) as [[k0 it0]|] eqn:G0.
      + exfalso. pose proof (kv_get_some _ _ _ _ G0) as [Hin _]. rewrite Forall_forall in Hsec. specialize (Hsec _ Hin). unfold is_sec in Hsec. cbn [snd] in Hsec.
        destruct it0 as [|v0|sub|ts asp]; try contradiction.
        * destruct (t_implicit sub) eqn:Ei; [exact (Hu1 k1 p1 k0 sub eq_refl G0 Ei)|]. cbn [andb negb] in E. discriminate.
        * destruct p1 as [|k2 p2]; [|cbn [andb] in E; discriminate]. cbn [andb] in E. destruct (rev ts) as [|last rinit] eqn:Er; [discriminate|].
          cbn [with_table_at] in E. subst f. cbv beta in E.
          assert (Hl : t_dotted last = false). { rewrite Forall_forall in Hsec. apply Hsec. apply in_rev. rewrite Er. left. reflexivity. }
          rewrite Hl in E. cbn [Bool.eqb] in E. discriminate.
      + destruct (kv_get L (k_key k1)) as [[k0 it0]|] eqn:G1.
        * pose proof (all_P_get _ _ _ _ _ Hpure G1) as He. unfold pure_e in He. cbn [snd] in He. destruct it0 as [|v0|sub|ts asp]; try contradiction; [discriminate|].
          destruct He as (Hd & Hi & Hq & Hs). apply pure_t_eq in Hs as [_ Hs]. rewrite Hi in E. cbn [andb negb] in E.
          destruct (with_table_at sub p1 true f) as [[sub' x']| |] eqn:Es; try discriminate. injection E as <- _.
          destruct (wta_dctx true _ _ _ _ _ Es) as (par & par' & Hfp & Hctx). destruct (dctx_pure _ _ _ _ _ Hctx Hs) as [Hpp Hres]. rewrite (Hf _ _ _ Hfp) in *.
          destruct (Hpush par Hpp) as (P1 & P2 & P3). destruct (Hres P1 P2 P3) as (Hs' & Hsn & Hsf). destruct (hframe_flags _ _ Hsf) as (F1 & F2 & F3).
          rewrite t_items_set, (kv_set_app_r _ _ _ _ G0). exists (kv_set L (k_key k1) (ITable sub')). split; [intros ? ? Eq; injection Eq as <- _; exact G0|]. split; [reflexivity|].
          split; [|destruct cur0; auto]. apply (all_P_set _ _ _ k0 _ _ Hpure G1). unfold pure_e. cbn [snd].
          split; [congruence|]. split; [congruence|]. split; [congruence|]. apply pure_t_eq. auto.
        * destruct (with_table_at (Tbl [] decor_default true true None None) p1 true f) as [[sub' x']| |] eqn:Es; try discriminate. injection E as <- _.
          destruct (wta_dctx true _ _ _ _ _ Es) as (par & par' & Hfp & Hctx). destruct (dctx_pure _ _ _ _ _ Hctx I) as [Hpp Hres]. rewrite (Hf _ _ _ Hfp) in *.
          destruct (Hpush par Hpp) as (P1 & P2 & P3). destruct (Hres P1 P2 P3) as (Hs' & Hsn & Hsf). destruct (hframe_flags _ _ Hsf) as (F1 & F2 & F3).
          cbn [t_implicit t_dotted t_position] in *.
          rewrite t_items_set. unfold kv_push. rewrite <- app_assoc. exists (L ++ [(k1, ITable sub')]). split; [intros ? ? Eq; injection Eq as <- _; exact G0|]. split; [reflexivity|].
          split; [|destruct cur0; auto]. apply all_P_app. split; [exact Hpure|]. split; [|exact I]. unfold pure_e. cbn [snd]. repeat (split; [assumption|]). apply pure_t_eq. auto. }
  destruct G as (L' & G0 & G1 & G2 & G3 & G4 & G5). exists L'. split; [exact G0|]. repeat (split; [first [assumption|reflexivity|congruence]|]). congruence.
Qed.

(* class U1 is what a decided step excludes *)
Lemma u1_excluded st T cp path k (v : value) k1 p1 k0 sub :
  Inv st (T, cp) -> spec_step true (T, cp) (SKeyVal (keys path ++ [k_key k]) v) <> RUndecided ->
  path = k1 :: p1 -> kv_get (t_items (st_current st)) (k_key k1) = Some (k0, ITable sub) -> t_implicit sub = true -> t_dotted sub = false -> False.
Proof.
  intros HI Hs -> G Hi Hd. destruct (Inv_PLv st T cp HI) as [-> HP]. apply Hs. cbn [spec_step].
  assert (E : at_path (keys (st_path st)) (insert_kv true (keys (k1 :: p1) ++ [k_key k]) v) T = RUndecided); [|rewrite E; reflexivity].
  assert (Ei : insert_kv true (keys (k1 :: p1) ++ [k_key k]) v (abs_tbl (st_current st)) = RUndecided).
  { change (keys (k1 :: p1) ++ [k_key k]) with (k_key k1 :: (keys p1 ++ [k_key k])). destruct (keys p1 ++ [k_key k]) as [|k2 rest] eqn:Er; [destruct (keys p1); discriminate|].
    rewrite (insert_kv_cons value), abs_tbl_eq, abs_get, G. cbn [abs_item]. unfold kind_of. rewrite Hi, Hd. reflexivity. }
  unfold PLv in HP. destruct (pop_key (st_path st)) as [[pre kl]|] eqn:Ep.
  - rewrite (DefsEquivSim.pop_key_some _ _ _ Ep). unfold keys at 1. rewrite map_app. cbn [map]. fold (keys pre).
    rewrite at_path_lift, (plug_then_walk _ _ (lift (insert_kv true _ v)) _ (keys pre) _ T HP). unfold lift at 1. rewrite Ei. reflexivity.
  - rewrite (DefsEquivSim.pop_key_none _ Ep). cbn [keys map at_path]. injection HP as <-. exact Ei.
Qed.

(* ---- the span bookkeeping of descend_path keeps the shape ------------------------------------------------------------------ *)
Lemma sds_pure : forall path t e, pure_items (t_items t) ->
  pure_items (t_items (set_dotted_spans t path e)) /\ (t_items t <> [] -> t_items (set_dotted_spans t path e) <> [])
  /\ t_implicit (set_dotted_spans t path e) = t_implicit t /\ t_dotted (set_dotted_spans t path e) = t_dotted t
  /\ t_position (set_dotted_spans t path e) = t_position t.
Proof.
  induction path as [|k ptl IH]; intros t e Hp; [cbn [set_dotted_spans]; repeat split; auto|]. cbn [set_dotted_spans].
  destruct (kv_get (t_items t) (k_key k)) as [[k0 it]|] eqn:G; [|repeat split; auto]. destruct it as [|v0|sub|ts asp]; try (repeat split; auto; fail).
  pose proof (all_P_get _ _ _ _ _ Hp G) as He. unfold pure_e in He. cbn [snd] in He. destruct He as (Hd & Hi & Hq & Hs). apply pure_t_eq in Hs as [Hne Hs].
  match goal with |- context [set_dotted_spans ?S1 ptl e] => set (sub1 := S1) end.
  assert (F : t_items sub1 = t_items sub /\ t_implicit sub1 = t_implicit sub /\ t_dotted sub1 = t_dotted sub /\ t_position sub1 = t_position sub).
  { subst sub1. destruct (t_dotted sub) eqn:Ed0; [|repeat split; auto]. destruct (key_span k); [|repeat split; auto]. destruct e; [|repeat split; auto]. destruct sub; cbn in *; repeat split; auto. }
  destruct F as (F0 & F1 & F2 & F3). destruct (IH sub1 e ltac:(rewrite F0; exact Hs)) as (I1 & I2 & I3 & I4 & I5).
  rewrite t_items_set. split; [|split; [intros _; apply (kv_set_nonempty _ _ _ _ _ G)|destruct t; auto]].
  apply (all_P_set _ _ _ k0 _ _ Hp G). unfold pure_e. cbn [snd]. split; [congruence|]. split; [congruence|]. split; [congruence|].
  apply pure_t_eq. split; [apply I2; rewrite F0; exact Hne|exact I1].
Qed.

Lemma sds_shape path t e T0 L : t_items t = T0 ++ L -> pure_items L -> (forall k1 p1, path = k1 :: p1 -> kv_get T0 (k_key k1) = None) ->
  exists L', t_items (set_dotted_spans t path e) = T0 ++ L' /\ pure_items L'
             /\ t_implicit (set_dotted_spans t path e) = t_implicit t /\ t_dotted (set_dotted_spans t path e) = t_dotted t
             /\ t_position (set_dotted_spans t path e) = t_position t.
Proof.
  intros Hit Hp Hfree. destruct path as [|k ptl]; [exists L; cbn [set_dotted_spans]; repeat split; auto|]. cbn [set_dotted_spans].
  pose proof (Hfree k ptl eq_refl) as G0.
  destruct (kv_get (t_items t) (k_key k)) as [[k0 it]|] eqn:G; [|exists L; repeat split; auto]. destruct it as [|v0|sub|ts asp]; try (exists L; repeat split; auto; fail).
  rewrite Hit, kv_get_app, G0 in G.
  pose proof (all_P_get _ _ _ _ _ Hp G) as He. unfold pure_e in He. cbn [snd] in He. destruct He as (Hd & Hi & Hq & Hs). apply pure_t_eq in Hs as [Hne Hs].
  match goal with |- context [set_dotted_spans ?S1 ptl e] => set (sub1 := S1) end.
  assert (F : t_items sub1 = t_items sub /\ t_implicit sub1 = t_implicit sub /\ t_dotted sub1 = t_dotted sub /\ t_position sub1 = t_position sub).
  { subst sub1. destruct (t_dotted sub) eqn:Ed0; [|repeat split; auto]. destruct (key_span k); [|repeat split; auto]. destruct e; [|repeat split; auto]. destruct sub; cbn in *; repeat split; auto. }
  destruct F as (F0 & F1 & F2 & F3). destruct (sds_pure ptl sub1 e ltac:(rewrite F0; exact Hs)) as (I1 & I2 & I3 & I4 & I5).
  exists (kv_set L (k_key k) (ITable (set_dotted_spans sub1 ptl e))). rewrite t_items_set, Hit, (kv_set_app_r _ _ _ _ G0).
  split; [reflexivity|]. split; [|destruct t; auto].
  apply (all_P_set _ _ _ k0 _ _ Hp G). unfold pure_e. cbn [snd]. split; [congruence|]. split; [congruence|]. split; [congruence|].
  apply pure_t_eq. split; [apply I2; rewrite F0; exact Hne|exact I1].
Qed.

(* ---- what the tree of a run looks like: a table made by headers only (implicit, not dotted) holds sections only -------- *)
Fixpoint nlr (t : tbl) {struct t} : Prop :=
  match t with
  | Tbl items _ _ _ _ _ =>
    all_P (fun kv => match snd kv with
                     | ITable sub => nlr sub /\ (t_implicit sub = true -> t_dotted sub = false -> Forall is_sec (t_items sub))
                     | IAot ts _ => all_P (fun e => nlr e /\ (t_implicit e = true -> t_dotted e = false -> Forall is_sec (t_items e))) ts
                     | _ => True
                     end) items
  end.
Definition nls (t : tbl) : Prop := nlr t /\ (t_implicit t = true -> t_dotted t = false -> Forall is_sec (t_items t)).
Definition nentry (kv : key * item) : Prop :=
  match snd kv with
  | ITable sub => nls sub
  | IAot ts _ => all_P nls ts
  | _ => True
  end.
Lemma nlr_eq t : nlr t <-> all_P nentry (t_items t).
Proof. destruct t; reflexivity. Qed.

Lemma pure_nentries : forall L, pure_items L -> all_P nentry L.
Proof.
  apply (pure_ind (fun L => all_P nentry L)).
  - exact I.
  - intros k v L _ _ IH. split; [exact I|exact IH].
  - intros k sub L Hd _ _ _ _ IHs _ IH. split; [|exact IH]. unfold nentry, nls. cbn [snd]. split; [apply nlr_eq, IHs|]. intros _ X. congruence.
Qed.

Lemma is_sec_set m k k0 it it' : Forall is_sec m -> kv_get m k = Some (k0, it) -> is_sec (k0, it') -> Forall is_sec (kv_set m k it').
Proof. intros H G Hi. apply all_P_Forall'. apply all_P_Forall' in H. apply (all_P_set _ _ _ k0 _ _ H G Hi). Qed.
Lemma is_sec_push m k it : Forall is_sec m -> is_sec (k, it) -> Forall is_sec (kv_push m k it).
Proof. intros H Hi. unfold kv_push. apply Forall_app. split; [exact H|constructor; [exact Hi|constructor]]. Qed.
Lemma is_sec_remove m k : Forall is_sec m -> Forall is_sec (kv_remove m k).
Proof. intro H. apply all_P_Forall'. apply all_P_Forall' in H. apply all_P_remove, H. Qed.
Lemma is_sec_get m k k0 it : Forall is_sec m -> kv_get m k = Some (k0, it) -> is_sec (k0, it).
Proof. intros H G. apply all_P_Forall' in H. apply (all_P_get _ _ _ _ _ H G). Qed.

Lemma nls_set_items t m : all_P nentry m -> (t_implicit t = true -> t_dotted t = false -> Forall is_sec m) -> nls (t_set_items t m).
Proof. intros H1 H2. destruct t. split; [exact H1|exact H2]. Qed.

Lemma dctx_nls p r r' par par' : dctx_rel false p r r' par par' -> nls r -> nls par /\ (nls par' -> hframe par par' -> nls r').
Proof.
  induction 1 as [t t'|t k p sub par par' G Hc IH|t k p k0 sub sub' par par' G Hc IH|t k p k0 ts sp last rinit last' par par' G Er Hc IH]; intros [Hn Hs].
  - split; [split; assumption|auto].
  - destruct IH as [H1 H2]; [split; [exact I|intros _ _; constructor]|]. split; [exact H1|]. intros Hp Hf. pose proof (H2 Hp Hf) as Hsub.
    destruct (hframe_flags _ _ (dctx_hframe _ _ _ _ _ _ Hc Hf)) as (_ & Fd & _). cbn [implicitd t_dotted] in Fd.
    apply nls_set_items; [apply all_P_push; [apply nlr_eq, Hn|exact Hsub]|]. intros Hi Hd. apply is_sec_push; [apply Hs; assumption|exact Fd].
  - apply nlr_eq in Hn. pose proof (all_P_get _ _ _ _ _ Hn G) as Hsub. unfold nentry in Hsub. cbn [snd] in Hsub. destruct (IH Hsub) as [H1 H2].
    split; [exact H1|]. intros Hp Hf. pose proof (H2 Hp Hf) as Hsub'. destruct (hframe_flags _ _ (dctx_hframe _ _ _ _ _ _ Hc Hf)) as (_ & Fd & _).
    apply nls_set_items; [apply (all_P_set _ _ _ k0 _ _ Hn G); exact Hsub'|]. intros Hi Hd. specialize (Hs Hi Hd).
    apply (is_sec_set _ _ k0 _ _ Hs G). pose proof (is_sec_get _ _ _ _ Hs G) as H0. unfold is_sec in *. cbn [snd] in *. congruence.
  - apply nlr_eq in Hn. pose proof (all_P_get _ _ _ _ _ Hn G) as Hts. unfold nentry in Hts. cbn [snd] in Hts.
    assert (Ets : ts = rev rinit ++ [last]) by (rewrite <- (rev_involutive ts), Er; reflexivity).
    rewrite Ets in Hts. apply all_P_app in Hts as [Hinit [Hl _]]. destruct (IH Hl) as [H1 H2]. split; [exact H1|]. intros Hp Hf. pose proof (H2 Hp Hf) as Hl'.
    destruct (hframe_flags _ _ (dctx_hframe _ _ _ _ _ _ Hc Hf)) as (_ & Fd & _).
    apply nls_set_items; [apply (all_P_set _ _ _ k0 _ _ Hn G); unfold nentry; cbn [snd rev]; apply all_P_app; split; [exact Hinit|split; [exact Hl'|exact I]]|].
    intros Hi Hd. specialize (Hs Hi Hd). apply (is_sec_set _ _ k0 _ _ Hs G). pose proof (is_sec_get _ _ _ _ Hs G) as H0. unfold is_sec in *. cbn [snd rev] in *.
    rewrite Ets in H0. apply Forall_app in H0 as [H01 H02]. apply Forall_app. split; [exact H01|]. inversion H02; subst. constructor; [congruence|constructor].
Qed.

Lemma finalize_nls st st' ppath k :
  pop_key (st_path st) = Some (ppath, k) -> finalize_table st = COk st' -> nls (st_root st) -> nlr (st_current st) -> t_dotted (st_current st) = false ->
  t_implicit (st_current st) = false ->
  (st_is_array st = false -> exists par, reach (st_root st) ppath = Some par /\ kv_get (t_items par) (k_key k) = None) ->
  nls (st_root st').
Proof.
  intros Ep Hf Hr Hc Hcd Hci Habs. rewrite finalize_table_eq, Ep in Hf.
  destruct (with_table_at (st_root st) ppath false ((if st_is_array st then faf else ftf) k (st_current st))) as [[root' u]| |] eqn:E; try discriminate.
  injection Hf as <-. cbn [finalized st_root]. destruct (wta_dctx false _ _ _ _ _ E) as (par & par' & Hfp & Hctx).
  destruct (dctx_nls _ _ _ _ _ Hctx Hr) as [[Hpn Hps] Hback].
  assert (Hcs : nls (st_current st)) by (split; [exact Hc|intro X; congruence]).
  destruct (st_is_array st) eqn:Ea.
  - unfold faf in Hfp. destruct (kv_get (t_items par) (k_key k)) as [[k0 it]|] eqn:G.
    + destruct it as [|v|sub|ts sp]; try discriminate. injection Hfp as <-. apply Hback; [|apply hframe_set_items]. apply nlr_eq in Hpn.
      pose proof (all_P_get _ _ _ _ _ Hpn G) as Hts. unfold nentry in Hts. cbn [snd] in Hts.
      apply nls_set_items; [apply (all_P_set _ _ _ k0 _ _ Hpn G); unfold nentry; cbn [snd]; apply all_P_app; split; [exact Hts|split; [exact Hcs|exact I]]|].
      intros Hi Hd. specialize (Hps Hi Hd). apply (is_sec_set _ _ k0 _ _ Hps G). pose proof (is_sec_get _ _ _ _ Hps G) as H0. unfold is_sec in *. cbn [snd] in *.
      apply Forall_app. split; [exact H0|constructor; [exact Hcd|constructor]].
    + injection Hfp as <-. apply Hback; [|apply hframe_set_items]. apply nlr_eq in Hpn.
      apply nls_set_items; [apply all_P_push; [exact Hpn|split; [exact Hcs|exact I]]|]. intros Hi Hd. apply is_sec_push; [apply Hps; assumption|].
      unfold is_sec. cbn [snd]. constructor; [exact Hcd|constructor].
  - destruct (Habs eq_refl) as (par0 & Hr0 & Hg). destruct (dctx_reach _ _ _ _ _ _ Hctx) as [_ Hpar]. rewrite (Hpar par0 Hr0) in Hg.
    unfold ftf in Hfp. rewrite Hg in Hfp. injection Hfp as <-. apply Hback; [|apply hframe_set_items]. apply nlr_eq in Hpn.
    apply nls_set_items; [apply all_P_push; [exact Hpn|exact Hcs]|]. intros Hi Hd. apply is_sec_push; [apply Hps; assumption|exact Hcd].
Qed.

Lemma start_table_nls st path dec sp st' :
  start_table st path dec sp = COk st' -> nls (st_root st) -> t_items (st_current st) = [] ->
  nls (st_root st') /\ Forall is_sec (t_items (st_current st')) /\ all_P nentry (t_items (st_current st')).
Proof.
  intros H Hr Hcur. unfold start_table in H. destruct (negb (tbl_is_empty (st_current st))); [discriminate|].
  destruct (st_path st); [|discriminate]. destruct (pop_key path) as [[ppath k]|]; [|discriminate].
  match type of H with match with_table_at _ _ _ ?f with _ => _ end = _ => set (F := f) in * end.
  destruct (with_table_at (st_root st) ppath false F) as [[root' taken_]| |] eqn:E; try discriminate. injection H as <-.
  destruct (wta_dctx false _ _ _ _ _ E) as (par & par' & Hfp & Hctx). destruct (dctx_nls _ _ _ _ _ Hctx Hr) as [[Hpn Hps] Hback]. unfold F in Hfp.
  cbn [open_table st_root st_current t_items].
  destruct (kv_get (t_items par) (k_key k)) as [[k0 it]|] eqn:G.
  - destruct it as [|v|t|ts asp]; try discriminate. destruct (t_implicit t && negb (t_dotted t)) eqn:Et; [|discriminate].
    injection Hfp as <- <-. apply andb_true_iff in Et as [Eim Edt]. apply negb_true_iff in Edt. apply nlr_eq in Hpn.
    pose proof (all_P_get _ _ _ _ _ Hpn G) as [Htn Hts]. cbn [snd] in Htn, Hts. split; [|split; [apply Hts; assumption|apply nlr_eq, Htn]].
    apply Hback; [|apply hframe_set_items]. apply nls_set_items; [apply all_P_remove, Hpn|]. intros Hi Hd. apply is_sec_remove, Hps; assumption.
  - injection Hfp as <- <-. rewrite Hcur. split; [|split; [constructor|exact I]]. apply Hback; [split; assumption|apply hframe_refl].
Qed.

Lemma start_array_nls st path dec sp st' :
  start_array_table st path dec sp = COk st' -> nls (st_root st) -> nls (st_root st').
Proof.
  intros H Hr. unfold start_array_table in H. destruct (negb (tbl_is_empty (st_current st))); [discriminate|].
  destruct (st_path st); [|discriminate]. destruct (pop_key path) as [[ppath k]|]; [|discriminate].
  match type of H with match with_table_at _ _ _ ?f with _ => _ end = _ => set (F := f) in * end.
  destruct (with_table_at (st_root st) ppath false F) as [[root' u]| |] eqn:E; try discriminate. injection H as <-.
  destruct (wta_dctx false _ _ _ _ _ E) as (par & par' & Hfp & Hctx). destruct (dctx_nls _ _ _ _ _ Hctx Hr) as [[Hpn Hps] Hback]. unfold F in Hfp.
  cbn [open_table st_root].
  destruct (kv_get (t_items par) (k_key k)) as [[k0 it]|] eqn:G.
  - destruct it as [|v|t|ts asp]; try discriminate. injection Hfp as <-. apply Hback; [split; assumption|apply hframe_refl].
  - injection Hfp as <-. apply Hback; [|apply hframe_set_items]. apply nlr_eq in Hpn.
    apply nls_set_items; [apply all_P_push; [exact Hpn|exact I]|]. intros Hi Hd. apply is_sec_push; [apply Hps; assumption|]. unfold is_sec. cbn [snd]. constructor.
Qed.
