(* Proofs/DepthLex.v — lemmas behind Props/C05.v, part 2: the lexical parsers (trivia, strings,
   date-times, numbers, keys) return the RecursionCheck counter they were started with. *)
From Coq Require Import List Bool Arith NArith ZArith Lia.
From Coq.Strings Require Import Byte.
From TV Require Import Base.Prelude Base.Utf8 Base.Winnow Gen.Consts.
From TV Require Import Model.Trivia Model.Strings Model.Datetime Model.Numbers Model.Tree Model.Parse.
From TV Require Import Proofs.DepthBase.
Import ListNotations.

(* ---- trivia ---------------------------------------------------------------------------- *)
Lemma dp_ws : dp ws.
Proof. unfold ws. dp_auto. Qed.
#[export] Hint Resolve dp_ws : dp.

Lemma dp_comment : dp comment.
Proof. unfold comment. dp_auto. Qed.
#[export] Hint Resolve dp_comment : dp.

Lemma dp_newline : dp newline.
Proof. unfold newline. dp_auto. Qed.
#[export] Hint Resolve dp_newline : dp.

Lemma dp_ws_newline : dp ws_newline.
Proof. unfold ws_newline. dp_auto. Qed.
#[export] Hint Resolve dp_ws_newline : dp.

Lemma dp_ws_newlines : dp ws_newlines.
Proof. unfold ws_newlines. dp_auto. Qed.
#[export] Hint Resolve dp_ws_newlines : dp.

Lemma dp_ws_comment_newline_f : forall fuel start, dp (ws_comment_newline_f fuel start).
Proof.
  induction fuel as [|f IH]; intros start i a i' H; cbn [ws_comment_newline_f] in H; [discriminate|].
  destruct (ws i) as [x i1|e i1|e i1|s] eqn:E; try discriminate.
  pose proof (dp_ws _ _ _ E) as H1.
  assert (Hstep : forall p : parser unit, dp p ->
            match p i1 with
            | Ok _ i2 => if (pos i2 =? start)%N then Ok tt i2 else ws_comment_newline_f f (pos i2) i2
            | Bt e i' => Bt e i' | Cut e i' => Cut e i' | Panic s => Panic s
            end = Ok a i' -> depth i' = depth i).
  { intros p Hp Hm. destruct (p i1) as [y i2|e i2|e i2|s] eqn:E2; try discriminate.
    pose proof (Hp _ _ _ E2) as H2.
    destruct (pos i2 =? start)%N.
    - inversion Hm; subst. congruence.
    - rewrite (IH _ _ _ _ Hm). congruence. }
  destruct (rest i1) as [|b r].
  - inversion H; subst. exact H1.
  - destruct (byte_eqb b x23).
    + apply (Hstep (comment ;;; context newline)); [dp_auto|exact H].
    + destruct (byte_eqb b x0a); [apply (Hstep newline); [dp_auto|exact H]|].
      destruct (byte_eqb b x0d); [apply (Hstep newline); [dp_auto|exact H]|].
      inversion H; subst. exact H1.
Qed.
Lemma dp_ws_comment_newline : dp ws_comment_newline.
Proof. intros i a i' H. unfold ws_comment_newline in H. exact (dp_ws_comment_newline_f _ _ _ _ _ H). Qed.
#[export] Hint Resolve dp_ws_comment_newline : dp.

Lemma dp_line_ending : dp line_ending.
Proof. unfold line_ending. dp_auto. Qed.
#[export] Hint Resolve dp_line_ending : dp.

Lemma dp_line_trailing : dp line_trailing.
Proof. unfold line_trailing. dp_auto. Qed.
#[export] Hint Resolve dp_line_trailing : dp.

(* ---- strings --------------------------------------------------------------------------- *)
Lemma dp_from_utf8 p : dp p -> dp (from_utf8 p).
Proof. intro Hp. unfold from_utf8. dp_auto. Qed.

Lemma dp_hexescape n : dp (hexescape n).
Proof. unfold hexescape. dp_auto. Qed.
#[export] Hint Resolve dp_hexescape : dp.

Lemma dp_escape_seq_char : dp escape_seq_char.
Proof. unfold escape_seq_char. dp_auto. Qed.
#[export] Hint Resolve dp_escape_seq_char : dp.

Lemma dp_escaped : dp escaped.
Proof. unfold escaped. dp_auto. Qed.
#[export] Hint Resolve dp_escaped : dp.

Lemma dp_basic_chars : dp basic_chars.
Proof. unfold basic_chars. dp_auto. apply dp_from_utf8. dp_auto. Qed.
#[export] Hint Resolve dp_basic_chars : dp.

Lemma dp_chunks_f p : dp p -> forall fuel acc, dp (chunks_f fuel p acc).
Proof.
  intros Hp fuel. induction fuel as [|f IH]; intros acc i a i' H; cbn [chunks_f] in H; [discriminate|].
  destruct (p i) as [x i1|e i1|e i1|s] eqn:E; try discriminate.
  - destruct (Nat.eqb _ _); [discriminate|]. rewrite (IH _ _ _ _ H). exact (Hp _ _ _ E).
  - inversion H; subst. reflexivity.
Qed.
Lemma dp_chunks p : dp p -> dp (chunks p).
Proof. intros Hp i a i' H. unfold chunks in H. exact (dp_chunks_f p Hp _ _ _ _ _ H). Qed.

Lemma dp_basic_string : dp basic_string.
Proof. unfold basic_string. dp_auto. apply dp_chunks. dp_auto. Qed.
#[export] Hint Resolve dp_basic_string : dp.

Lemma dp_mlb_escaped_nl : dp mlb_escaped_nl.
Proof. unfold mlb_escaped_nl. dp_auto. Qed.
#[export] Hint Resolve dp_mlb_escaped_nl : dp.

Lemma dp_mlb_content : dp mlb_content.
Proof. unfold mlb_content. dp_auto. apply dp_from_utf8. dp_auto. Qed.
#[export] Hint Resolve dp_mlb_content : dp.

Lemma dp_quotes2 q term : dp (quotes2 q term).
Proof.
  intros i a i' H. unfold quotes2 in H.
  assert (H2 : forall l, dp (unchecked_utf8 3 (terminated (lit l) (peek term)))) by (intro l; dp_auto).
  destruct (unchecked_utf8 3 (terminated (lit [q; q]) (peek term)) i) as [x i1|e i1|e i1|s] eqn:E; try discriminate.
  - inversion H; subst. exact (H2 _ _ _ _ E).
  - exact (H2 _ _ _ _ H).
Qed.
#[export] Hint Resolve dp_quotes2 : dp.

Lemma dp_mlb_quote_loop : forall fuel acc, dp (mlb_quote_loop fuel acc).
Proof.
  induction fuel as [|f IH]; intros acc i a i' H; cbn [mlb_quote_loop] in H; [discriminate|].
  destruct (opt (quotes2 x22 (pvoid (none_of (byte_eqb x22)))) i) as [x i1|e i1|e i1|s] eqn:E; try discriminate.
  assert (H1 : depth i1 = depth i).
  { revert E. apply (dp_opt (quotes2 x22 (pvoid (none_of (byte_eqb x22))))). apply dp_quotes2. }
  destruct x as [qi|]; [|inversion H; subst; exact H1].
  destruct (opt mlb_content i1) as [y i2|e i2|e i2|s] eqn:E2; try discriminate.
  assert (H2 : depth i2 = depth i1) by (revert E2; apply (dp_opt mlb_content); apply dp_mlb_content).
  destruct y as [ci|]; [|inversion H; subst; congruence].
  destruct (chunks mlb_content i2) as [more i3|e i3|e i3|s] eqn:E3; try discriminate.
  assert (H3 : depth i3 = depth i2) by (revert E3; apply (dp_chunks mlb_content); apply dp_mlb_content).
  rewrite (IH _ _ _ _ H). congruence.
Qed.

Lemma dp_ml_basic_body : dp ml_basic_body.
Proof.
  unfold ml_basic_body. apply dp_eta. dp_auto.
  - apply dp_chunks. dp_auto.
  - intros i b i' H. exact (dp_mlb_quote_loop _ _ _ _ _ H).
Qed.
#[export] Hint Resolve dp_ml_basic_body : dp.

Lemma dp_ml_basic_string : dp ml_basic_string.
Proof. unfold ml_basic_string. dp_auto. Qed.
#[export] Hint Resolve dp_ml_basic_string : dp.

Lemma dp_literal_string : dp literal_string.
Proof. unfold literal_string. dp_auto. apply dp_from_utf8. dp_auto. Qed.
#[export] Hint Resolve dp_literal_string : dp.

Lemma dp_mll_content : dp mll_content.
Proof. unfold mll_content. dp_auto. Qed.
#[export] Hint Resolve dp_mll_content : dp.

Lemma dp_ml_literal_body : dp ml_literal_body.
Proof. unfold ml_literal_body. apply dp_from_utf8. dp_auto. Qed.
#[export] Hint Resolve dp_ml_literal_body : dp.

Lemma dp_ml_literal_string : dp ml_literal_string.
Proof. unfold ml_literal_string. dp_auto. Qed.
#[export] Hint Resolve dp_ml_literal_string : dp.

Lemma dp_string : dp string_.
Proof. unfold string_. dp_auto. Qed.
#[export] Hint Resolve dp_string : dp.

(* ---- date-times ------------------------------------------------------------------------ *)
Lemma dp_unsigned_digits m n : dp (unsigned_digits m n).
Proof. unfold unsigned_digits. dp_auto. Qed.
#[export] Hint Resolve dp_unsigned_digits : dp.

Lemma dp_date_fullyear : dp date_fullyear.
Proof. unfold date_fullyear. dp_auto. Qed.
#[export] Hint Resolve dp_date_fullyear : dp.

Lemma dp_two_digit_field lo hi : dp (two_digit_field lo hi).
Proof. unfold two_digit_field. dp_auto. Qed.
#[export] Hint Resolve dp_two_digit_field : dp.

Lemma dp_date_month : dp date_month. Proof. apply dp_two_digit_field. Qed.
Lemma dp_date_mday : dp date_mday. Proof. apply dp_two_digit_field. Qed.
Lemma dp_time_hour : dp time_hour. Proof. apply dp_two_digit_field. Qed.
Lemma dp_time_minute : dp time_minute. Proof. apply dp_two_digit_field. Qed.
Lemma dp_time_second : dp time_second. Proof. apply dp_two_digit_field. Qed.
#[export] Hint Resolve dp_date_month dp_date_mday dp_time_hour dp_time_minute dp_time_second : dp.

Lemma dp_full_date : dp full_date.
Proof.
  unfold full_date. apply dp_eta. dp_auto.
  intros j x j' H.
  assert (Hd : dp (d <- cut_err date_mday ;;
                   if (max_days DT_MAXDAYS a1 (is_leap_year a) <? d)%N
                   then (fun _ => Cut (err_of OutOfRange) j)
                   else ret (mkDate a a1 d))) by dp_auto.
  exact (Hd _ _ _ H).
Qed.
#[export] Hint Resolve dp_full_date : dp.

Lemma dp_time_secfrac : dp time_secfrac.
Proof. unfold time_secfrac. dp_auto. Qed.
#[export] Hint Resolve dp_time_secfrac : dp.

Lemma dp_partial_time : dp partial_time.
Proof. unfold partial_time. dp_auto. Qed.
#[export] Hint Resolve dp_partial_time : dp.

Lemma dp_time_offset : dp time_offset.
Proof. unfold time_offset. dp_auto. Qed.
#[export] Hint Resolve dp_time_offset : dp.

Lemma dp_time_delim : dp time_delim.
Proof. unfold time_delim. dp_auto. Qed.
#[export] Hint Resolve dp_time_delim : dp.

Lemma dp_date_time : dp date_time.
Proof. unfold date_time. dp_auto. Qed.
#[export] Hint Resolve dp_date_time : dp.

(* ---- numbers --------------------------------------------------------------------------- *)
Lemma dp_bool_lit l v : dp (bool_lit l v).
Proof. unfold bool_lit. destruct l; dp_auto. Qed.
Lemma dp_true : dp true_. Proof. apply dp_bool_lit. Qed.
Lemma dp_false : dp false_. Proof. apply dp_bool_lit. Qed.
#[export] Hint Resolve dp_true dp_false : dp.

Lemma dp_digit : dp digit. Proof. unfold digit. dp_auto. Qed.
Lemma dp_hexdig : dp hexdig. Proof. unfold hexdig. dp_auto. Qed.
#[export] Hint Resolve dp_digit dp_hexdig : dp.

Lemma dp_digits_us first d : dp first -> dp d -> dp (digits_us first d).
Proof. intros H1 H2. unfold digits_us. dp_auto. Qed.

Lemma dp_dec_int : dp dec_int.
Proof. unfold dec_int. dp_auto. apply dp_digits_us; dp_auto. Qed.
#[export] Hint Resolve dp_dec_int : dp.

Lemma dp_prefixed_int w pre d : dp d -> dp (prefixed_int w pre d).
Proof. intro H. unfold prefixed_int. dp_auto. apply dp_digits_us; assumption. Qed.

Lemma dp_hex_int : dp hex_int. Proof. apply dp_prefixed_int. dp_auto. Qed.
Lemma dp_oct_int : dp oct_int. Proof. apply dp_prefixed_int. dp_auto. Qed.
Lemma dp_bin_int : dp bin_int. Proof. apply dp_prefixed_int. dp_auto. Qed.
#[export] Hint Resolve dp_hex_int dp_oct_int dp_bin_int : dp.

Lemma dp_integer : dp integer.
Proof.
  intros i a i' H. unfold integer in H.
  destruct (bytes_eqb _ _); [revert H; apply (dp_cut_err (try_map (int_of 16) hex_int)); dp_auto|].
  destruct (bytes_eqb _ _); [revert H; apply (dp_cut_err (try_map (int_of 8) oct_int)); dp_auto|].
  destruct (bytes_eqb _ _); [revert H; apply (dp_cut_err (try_map (int_of 2) bin_int)); dp_auto|].
  revert H. apply dp_and_then. dp_auto.
Qed.
#[export] Hint Resolve dp_integer : dp.

Lemma dp_zero_prefixable_int : dp zero_prefixable_int.
Proof. unfold zero_prefixable_int. dp_auto. apply dp_digits_us; dp_auto. Qed.
#[export] Hint Resolve dp_zero_prefixable_int : dp.

Lemma dp_frac : dp frac. Proof. unfold frac. dp_auto. Qed.
#[export] Hint Resolve dp_frac : dp.
Lemma dp_exp : dp exp. Proof. unfold exp. dp_auto. Qed.
#[export] Hint Resolve dp_exp : dp.
Lemma dp_float_ : dp float_. Proof. unfold float_. dp_auto. Qed.
#[export] Hint Resolve dp_float_ : dp.

Lemma dp_inf : dp inf. Proof. unfold inf. dp_auto. Qed.
Lemma dp_nan : dp nan. Proof. unfold nan. dp_auto. Qed.
#[export] Hint Resolve dp_inf dp_nan : dp.

Lemma dp_special_float : dp special_float.
Proof. unfold special_float. dp_auto. Qed.
#[export] Hint Resolve dp_special_float : dp.

Lemma dp_float : dp float.
Proof. unfold float. dp_auto. Qed.
#[export] Hint Resolve dp_float : dp.

(* ---- keys ------------------------------------------------------------------------------ *)
Lemma dp_unquoted_key : dp unquoted_key.
Proof. unfold unquoted_key. dp_auto. Qed.
#[export] Hint Resolve dp_unquoted_key : dp.

Lemma dp_simple_key : dp simple_key.
Proof. unfold simple_key. dp_auto. Qed.
#[export] Hint Resolve dp_simple_key : dp.

Lemma dp_key_part : dp key_part.
Proof. unfold key_part. dp_auto. Qed.
#[export] Hint Resolve dp_key_part : dp.

Lemma dp_key : dp key_.
Proof. unfold key_. dp_auto. Qed.
#[export] Hint Resolve dp_key : dp.
