(* Proofs/TilingNormDoc.v — C03, scanner side, part 4: values, items, lines; the theorem
     norm_lines : drop_bom s = w ++ t -> ws_tok w -> lines_text t l o -> normalize s = w ++ o
   (the grammar-directed normal form of Proofs/TilingDefs.v is what the parser-independent
   scanner of Spec/Norm.v computes), and the by-products: the relations of TilingDefs.v refine
   the grammar (`vtext_val`, `item_text_item`), `drop_bom` is `strip_bom`. *)
From TV Require Import Base.Prelude Base.Utf8 Spec.Abnf Spec.Lex Spec.Defs Spec.Syntax Spec.Norm.
From TV Require Import Proofs.LexEquivBase Proofs.LexEquivKey Proofs.GrammarDocLine.
From TV Require Import Proofs.TilingDefs Proofs.TilingNormScan Proofs.TilingNormStr Proofs.TilingNormTok.
Require Import Lia ZifyBool ZifyN ZifyNat.

(* ================================================================================================= *)
(* the relations refine the grammar                                                                  *)
(* ================================================================================================= *)
Lemma vtext_mut_val :
  (forall t a o, vtext t a o -> val_tok t a)
  /\ (forall vs l o, avtext vs l o -> array_values_tok vs l)
  /\ (forall kvs l o, iktext kvs l o -> inline_keyvals_tok kvs l).
Proof.
  apply vtext_mutind.
  - intros t a H. apply scalar_val, H.
  - intros w Hw. apply v_array_empty, Hw.
  - intros vs l o w _ IH Hw. apply v_array; assumption.
  - intros w Hw. apply v_inline_empty, Hw.
  - intros w1 kvs l o w2 H1 _ IH H2. apply v_inline; assumption.
  - intros w1 t a o w2 c H1 _ IH H2 Hc. apply av_last; assumption.
  - intros w1 t a o w2 u l ou H1 _ IH H2 _ IHu. apply av_more; assumption.
  - intros k p w1 w2 t a o Hk H1 H2 _ IH. apply ik_last; assumption.
  - intros k p w1 w2 t a o w3 w4 u l ou Hk H1 H2 _ IH H3 H4 _ IHu. apply ik_more; assumption.
Qed.

Lemma vtext_val t a o : vtext t a o -> val_tok t a.
Proof. apply (proj1 vtext_mut_val). Qed.
Lemma avtext_values vs l o : avtext vs l o -> array_values_tok vs l.
Proof. apply (proj1 (proj2 vtext_mut_val)). Qed.
Lemma iktext_keyvals kvs l o : iktext kvs l o -> inline_keyvals_tok kvs l.
Proof. apply (proj2 (proj2 vtext_mut_val)). Qed.

Lemma item_text_item e l o : item_text e l o -> GrammarDocLine.item_tok e l.
Proof.
  intros [|c Hc|k p w1 w2 t a o0 w c Hk H1 H2 Hv Hw Hc|t p w c Ht Hw Hc|t p w c Ht Hw Hc].
  - apply it_blank.
  - apply it_comment, Hc.
  - apply it_keyval; [|exact Hw|exact Hc]. exists k, w1, w2, t. split; [reflexivity|].
    split; [exact Hk|]. split; [exact H1|]. split; [exact H2|apply (vtext_val t a o0 Hv)].
  - apply it_std; assumption.
  - apply it_arr; assumption.
Qed.

Lemma byte_eqb_sym a b : byte_eqb a b = byte_eqb b a.
Proof. rewrite !byte_eqb_n. apply N.eqb_sym. Qed.

Lemma drop_bom_strip_bom s : drop_bom s = Syntax.strip_bom s.
Proof.
  unfold drop_bom, bom, strip_bom. destruct s as [|b0 [|b1 [|b2 r]]]; cbn [strip_prefix].
  - reflexivity.
  - destruct (byte_eqb xef b0); reflexivity.
  - destruct (byte_eqb xef b0); [|reflexivity]. destruct (byte_eqb xbb b1); reflexivity.
  - rewrite (byte_eqb_sym b0), (byte_eqb_sym b1), (byte_eqb_sym b2).
    destruct (byte_eqb xef b0); [|reflexivity]. destruct (byte_eqb xbb b1); [|reflexivity].
    destruct (byte_eqb xbf b2); reflexivity.
Qed.

(* ================================================================================================= *)
(* values                                                                                            *)
(* ================================================================================================= *)
Lemma til_keyval k p w1 w2 t o :
  key_tok k p -> ws_tok w1 -> ws_tok w2 -> til CS qstop t o ->
  til CS qstop (k ++ w1 ++ [x3d] ++ w2 ++ t) (k ++ w1 ++ [x3d] ++ w2 ++ o).
Proof.
  intros Hk H1 H2 Ht.
  apply (til_app CS CS qstop qstop); [apply (til_key k p Hk)| |intros r Hr; qs].
  apply (til_app_any CB CS); [apply til_ws, H1|].
  apply (til_app_any CS CS); [apply til_byte; reflexivity|].
  apply (til_app_any CB CS); [apply til_ws, H2|exact Ht].
Qed.

Theorem til_values :
  (forall t a o, vtext t a o -> til CS qstop t o)
  /\ (forall vs l o, avtext vs l o -> til CT qstop vs o)
  /\ (forall kvs l o, iktext kvs l o -> til CS qstop kvs o).
Proof.
  apply vtext_mutind.
  - (* scalar *) intros t a H. apply (til_scalar t a H).
  - (* [] *) intros w Hw.
    apply (til_app_any CS CS); [apply til_byte; reflexivity|].
    apply (til_app_any CT CS); [apply til_wscn, Hw|apply til_any, til_byte; reflexivity].
  - (* [ values ] *) intros vs l o w _ IH Hw.
    apply (til_app_any CS CS); [apply til_byte; reflexivity|].
    apply (til_app CT CS qstop qstop); [exact IH| |intros r Hr; qs].
    apply (til_app_any CT CS); [apply til_wscn, Hw|apply til_any, til_byte; reflexivity].
  - (* {} *) intros w Hw.
    apply (til_app_any CS CS); [apply til_byte; reflexivity|].
    apply (til_app_any CB CS); [apply til_ws, Hw|apply til_any, til_byte; reflexivity].
  - (* { keyvals } *) intros w1 kvs l o w2 H1 _ IH H2.
    apply (til_app_any CS CS); [apply til_byte; reflexivity|].
    apply (til_app_any CB CS); [apply til_ws, H1|].
    apply (til_app CS CS qstop qstop); [exact IH| |intros r Hr; qs].
    apply (til_app_any CB CS); [apply til_ws, H2|apply til_any, til_byte; reflexivity].
  - (* last array value *) intros w1 t a o w2 c H1 _ IH H2 Hc.
    apply (til_app_any CT CT); [apply til_wscn, H1|].
    apply (til_app CS CT qstop qstop); [exact IH| |intros r Hr; destruct Hc as [-> | ->]; qs].
    destruct Hc as [-> | ->].
    + apply (til_app_any CT CB); [apply til_wscn, H2|apply til_nil].
    + apply (til_sub CS). apply (til_app_any CT CS); [apply til_wscn, H2|apply til_any, til_byte; reflexivity].
  - (* array value, more *) intros w1 t a o w2 u l ou H1 _ IH H2 _ IHu.
    apply (til_app_any CT CT); [apply til_wscn, H1|].
    apply (til_app CS CT qstop qstop); [exact IH| |intros r Hr; qs].
    apply (til_app_any CT CT); [apply til_wscn, H2|].
    apply (til_app_any CS CT); [apply til_byte; reflexivity|exact IHu].
  - (* last keyval *) intros k p w1 w2 t a o Hk H1 H2 _ IH. apply (til_keyval k p); assumption.
  - (* keyval, more *) intros k p w1 w2 t a o w3 w4 u l ou Hk H1 H2 _ IH H3 H4 _ IHu.
    assert (E : forall x, k ++ w1 ++ [x3d] ++ w2 ++ x ++ w3 ++ [x2c] ++ w4 ++ ou
                          = (k ++ w1 ++ [x3d] ++ w2 ++ x) ++ w3 ++ [x2c] ++ w4 ++ ou)
      by (intro x; rewrite <- !app_assoc; reflexivity).
    replace (k ++ w1 ++ [x3d] ++ w2 ++ t ++ w3 ++ [x2c] ++ w4 ++ u)
      with ((k ++ w1 ++ [x3d] ++ w2 ++ t) ++ w3 ++ [x2c] ++ w4 ++ u) by (rewrite <- !app_assoc; reflexivity).
    rewrite E.
    apply (til_app CS CS qstop qstop); [apply (til_keyval k p); assumption| |intros r Hr; qs].
    apply (til_app_any CB CS); [apply til_ws, H3|].
    apply (til_app_any CS CS); [apply til_byte; reflexivity|].
    apply (til_app_any CB CS); [apply til_ws, H4|exact IHu].
Qed.

Lemma til_vtext t a o : vtext t a o -> til CS qstop t o.
Proof. apply (proj1 til_values). Qed.

(* ================================================================================================= *)
(* items                                                                                             *)
(* ================================================================================================= *)
(* one line without leading whitespace and line end: a piece that a line end follows *)
Definition itemz (e : bytes) (l : list astmt) (o : bytes) : Prop :=
  exists zs, txt zs = e /\ piece lendf zs /\ outz zs = o
             /\ (l = [] -> flag FFresh zs <> FStmt)
             /\ (l <> [] -> flag FFresh zs = FStmt /\ ends_lf o = false).

Lemma item_end t o w c l : til CS qstop t o -> ws_tok w -> opt_comment c -> l <> [] ->
  itemz (t ++ w ++ c) l (o ++ w ++ c).
Proof.
  intros (zt & Tt & Pt & Ot & Ft & Nt & Et) Hw Hc Hl.
  assert (Ew : ends_lf w = false) by (apply plain_ends_lf, ws_plain, Hw).
  assert (Ow : outz (tag LNormal w) = w)
    by (rewrite outz_tag_ncr by reflexivity; apply ncr_nocr, plain_nocr, ws_plain, Hw).
  destruct Hc as [-> | Hc].
  - exists (zt ++ tag LNormal w). rewrite !app_nil_r.
    split; [rewrite txt_app, txt_tag, Tt; reflexivity|]. split; [|split; [|split; [congruence|]]].
    + apply (piece_app qstop lendf); [exact Pt|apply (piece_weaken anyf); [intros; exact I|apply piece_nq, plain_nq, ws_plain, Hw]|].
      intros r Hr. rewrite txt_tag. qs.
    + rewrite outz_app, Ot, Ow. reflexivity.
    + intros _. split; [rewrite flag_app, Ft by discriminate; apply flag_ws, Hw|apply ends_lf_app_false; assumption].
  - exists (zt ++ tag LNormal w ++ tag LComment c).
    split; [rewrite !txt_app, !txt_tag, Tt; reflexivity|]. split; [|split; [|split; [congruence|]]].
    + apply (piece_app qstop lendf); [exact Pt| |].
      * apply (piece_app anyf lendf); [apply piece_nq, plain_nq, ws_plain, Hw|apply piece_comment, Hc|intros; exact I].
      * intros r Hr. rewrite txt_app, !txt_tag. assert (Hc' : opt_comment c) by (right; exact Hc). qs.
    + rewrite !outz_app, Ot, Ow, comment_outz by exact Hc. reflexivity.
    + intros _. split.
      * rewrite !flag_app, Ft by discriminate. rewrite flag_ws by exact Hw. apply flag_stmt_no_nl, comment_no_nl, Hc.
      * apply ends_lf_app_false; [exact Et|]. apply ends_lf_app_false; [exact Ew|apply nocrlf_ends_lf, comment_nocrlf, Hc].
Qed.

Lemma qt_std_table t p : std_table_tok t p -> qt CS qstop t.
Proof.
  intros (w1 & k & w2 & -> & H1 & Hk & H2).
  apply (qt_app_any CS CS); [apply qt_byte; reflexivity|].
  apply (qt_app_any CB CS); [apply qt_ws, H1|].
  apply (qt_app CS CS qstop qstop); [apply (qt_key k p Hk)| |intros r Hr; qs].
  apply (qt_app_any CB CS); [apply qt_ws, H2|apply qt_any, qt_byte; reflexivity].
Qed.

Lemma til_std_table t p : std_table_tok t p -> til CS qstop t t.
Proof. intro H. apply qt_til, (qt_std_table t p H). Qed.

Lemma qt_array_table t p : array_table_tok t p -> qt CS qstop t.
Proof.
  intros (w1 & k & w2 & -> & H1 & Hk & H2).
  apply (qt_app_any CS CS); [apply qt_plain; reflexivity|].
  apply (qt_app_any CB CS); [apply qt_ws, H1|].
  apply (qt_app CS CS qstop qstop); [apply (qt_key k p Hk)| |intros r Hr; qs].
  apply (qt_app_any CB CS); [apply qt_ws, H2|apply qt_any, qt_plain; reflexivity].
Qed.

Lemma til_array_table t p : array_table_tok t p -> til CS qstop t t.
Proof. intro H. apply qt_til, (qt_array_table t p H). Qed.

Theorem item_itemz e l o : item_text e l o -> itemz e l o.
Proof.
  intros [|c Hc|k p w1 w2 t a o0 w c Hk H1 H2 Hv Hw Hc|t p w c Ht Hw Hc|t p w c Ht Hw Hc].
  - exists []. split; [reflexivity|]. split; [apply piece_nil|]. split; [reflexivity|]. split; [discriminate|congruence].
  - exists (tag LComment c). split; [apply txt_tag|]. split; [apply piece_comment, Hc|]. split; [apply comment_outz, Hc|].
    split; [intros _; rewrite comment_flag_fresh by exact Hc; discriminate|congruence].
  - apply item_end; [|exact Hw|exact Hc|discriminate]. apply (til_keyval k p); [assumption..|apply (til_vtext t a o0 Hv)].
  - apply item_end; [apply (til_std_table t p Ht)|exact Hw|exact Hc|discriminate].
  - apply item_end; [apply (til_array_table t p Ht)|exact Hw|exact Hc|discriminate].
Qed.

(* ================================================================================================= *)
(* lines                                                                                             *)
(* ================================================================================================= *)
Lemma tail_lf_prefix zp zs : flag FFresh zp = FFresh -> tail_lf (zp ++ zs) = tail_lf zs.
Proof.
  intro H. unfold tail_lf. rewrite flag_app, H. destruct (is_stmt (flag FFresh zs)) eqn:E; [|reflexivity].
  assert (N : outz zs <> []).
  { apply (stmt_outz_nonempty zs FFresh); [discriminate|]. destruct (flag FFresh zs); try discriminate. reflexivity. }
  rewrite outz_app, ends_lf_app by exact N. reflexivity.
Qed.

Lemma ws_z w : ws_tok w ->
  txt (tag LNormal w) = w /\ (forall r, labels SNormal (w ++ r) = lab (tag LNormal w) ++ labels SNormal r)
  /\ outz (tag LNormal w) = w /\ forall f, flag f (tag LNormal w) = f.
Proof.
  intro Hw. split; [apply txt_tag|]. split; [|split].
  - intro r. rewrite lab_tag. apply labels_nq, plain_nq, ws_plain, Hw.
  - rewrite outz_tag_ncr by reflexivity. apply ncr_nocr, plain_nocr, ws_plain, Hw.
  - intro f. apply flag_ws, Hw.
Qed.

Definition linesz (t o : bytes) : Prop :=
  exists zs, txt zs = t /\ labels SNormal t = lab zs /\ o = outz zs ++ tail_lf zs.

Theorem lines_linesz t l o : lines_text t l o -> linesz t o.
Proof.
  induction 1 as [|w0 e l o Hw0 He|w0 e l o nl w t l' o' Hw0 He Hn Hw _ IH].
  - exists []. split; [reflexivity|]. split; reflexivity.
  - destruct (ws_z w0 Hw0) as (T0 & L0 & O0 & F0). destruct (item_itemz e l o He) as (ze & Te & Pe & Oe & Fn & Fs).
    exists (tag LNormal w0 ++ ze). split; [rewrite txt_app, T0, Te; reflexivity|]. split.
    + rewrite L0, lab_app. f_equal. specialize (Pe [] (or_introl eq_refl)). rewrite Te, app_nil_r in Pe.
      rewrite Pe. cbn [labels]. apply app_nil_r.
    + rewrite tail_lf_prefix by apply F0. rewrite outz_app, O0, Oe, <- app_assoc. f_equal. f_equal.
      unfold tail_lf, stmt_lf. destruct l as [|s l].
      * specialize (Fn eq_refl). destruct (flag FFresh ze); try reflexivity. congruence.
      * destruct Fs as [Fs Es]; [discriminate|]. rewrite Fs, Oe, Es. reflexivity.
  - destruct (ws_z w0 Hw0) as (T0 & L0 & O0 & F0). destruct (ws_z w Hw) as (T1 & L1 & O1 & F1).
    destruct (item_itemz e l o He) as (ze & Te & Pe & Oe & _). destruct IH as (zt & Tt & Lt & Ot).
    exists ((tag LNormal w0 ++ ze ++ tag LNormal nl ++ tag LNormal w) ++ zt).
    split; [rewrite !txt_app, T0, Te, txt_tag, T1, Tt, <- !app_assoc; reflexivity|]. split.
    + rewrite L0, !lab_app, <- !app_assoc. f_equal.
      specialize (Pe (nl ++ w ++ t) (lendf_newline nl (w ++ t) Hn)). rewrite Te in Pe. rewrite Pe. f_equal.
      rewrite (labels_nq nl) by (apply newline_nq, Hn). rewrite lab_tag. f_equal.
      rewrite L1, Lt. reflexivity.
    + rewrite tail_lf_prefix.
      * rewrite !outz_app, O0, Oe, newline_outz, O1, Ot, <- !app_assoc by exact Hn. reflexivity.
      * rewrite !flag_app, F1. apply newline_flag, Hn.
Qed.

(* ================================================================================================= *)
(* the theorem                                                                                       *)
(* ================================================================================================= *)
Theorem norm_lines s w t l o :
  drop_bom s = w ++ t -> ws_tok w -> lines_text t l o -> normalize s = w ++ o.
Proof.
  intros Hs Hw Hl. destruct (lines_linesz t l o Hl) as (zs & Tz & Lz & ->).
  destruct (ws_z w Hw) as (T0 & L0 & O0 & F0).
  rewrite normalize_eq, Hs.
  assert (E : combine (w ++ t) (labels SNormal (w ++ t)) = tag LNormal w ++ zs).
  { rewrite L0, Lz, <- lab_app. rewrite <- T0 at 1. rewrite <- Tz at 1. rewrite <- txt_app. apply combine_txt_lab. }
  rewrite E, tail_lf_prefix by apply F0. rewrite outz_app, O0, <- app_assoc. reflexivity.
Qed.

Print Assumptions norm_lines.

(* the hypotheses are satisfiable: a BOM, a CR LF line end, a last comment line without newline *)
Example norm_lines_example :
  normalize ([xef; xbb; xbf] ++ [x61; x20; x3d; x20; x31; x0d; x0a; x20; x23; x20; x63])
  = [x61; x20; x3d; x20; x31; x0a; x20; x23; x20; x63].
Proof.
  apply (norm_lines _ [] [x61; x20; x3d; x20; x31; x0d; x0a; x20; x23; x20; x63] [SKeyVal [[x61]] (AInt 1)]
           [x61; x20; x3d; x20; x31; x0a; x20; x23; x20; x63]).
  - reflexivity.
  - reflexivity.
  - apply (ltx_cons [] [x61; x20; x3d; x20; x31] [SKeyVal [[x61]] (AInt 1)] [x61; x20; x3d; x20; x31] [x0d; x0a] [x20] [x23; x20; x63] [] [x23; x20; x63]).
    + reflexivity.
    + apply (itx_keyval [x61] [[x61]] [x20] [x20] [x31] (AInt 1) [x31] [] []); try reflexivity.
      * apply key_one. right. right. split; [split; [discriminate|reflexivity]|reflexivity].
      * apply vt_scalar, st_integer. left. exists [], false, [x31], [x31].
        split; [reflexivity|]. split; [left; auto|]. split; [|reflexivity].
        left. exists x31. auto.
      * left. reflexivity.
    + right. reflexivity.
    + reflexivity.
    + apply (ltx_last [] [x23; x20; x63] [] [x23; x20; x63]); [reflexivity|].
      apply itx_comment. exists [x20; x63]. split; reflexivity.
Qed.
