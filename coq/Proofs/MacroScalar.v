(* Proofs/MacroScalar.v — C19: a scalar written in toml!{} (a Rust literal, `true`/`false`, `nan`/`inf`,
   possibly signed) is given by the macro the value the TOML parser reads from the same text. *)
From TV Require Import Base.Prelude Base.Utf8 Model.Datetime Model.DatetimeStd Model.Numbers Model.Macro Spec.Defs Spec.MacroSpec.
From TV Require Import Proofs.MacroMatch Proofs.MacroRules Proofs.MacroTails Proofs.MacroEval Proofs.MacroAux Proofs.MacroCtx Proofs.MacroStmt.
Require Import Lia ZifyBool ZifyN.

(* ---- how @value treats the (possibly parenthesised) literal ---- *)
(* `lit`, `(lit)` go to IntoDeserializer (an integer is an i32); `(-lit)` goes to macros::number (an i64) *)
Definition signed_lit_value (sg : sign) (l : lit) : eres mval :=
  match sg with SgMinus => neg_lit_value l | _ => lit_value false l end.

Lemma value_signed_lit : forall sg l cur,
  Ev cur (value_in (signed_tok sg (TLit l))) (signed_lit_value sg l) 1.
Proof.
  intros [| |] l cur; cbn [signed_tok signed_lit_value].
  - eapply Ev_valother; [apply value_rule_lit|reflexivity|reflexivity].
  - eapply Ev_valother; [apply value_rule_paren_lit|reflexivity|reflexivity].
  - eapply Ev_valneg; [apply value_rule_paren_neg_lit|reflexivity|reflexivity].
Qed.

(* ---- strings, booleans, specials ---- *)
Lemma str_ev : forall s, val_ev (AStr s) (MStr s) 1.
Proof. intro s. cbn [val_ev val_toks]. apply (value_signed_lit SgNone (LStr s)). Qed.

Lemma bool_ev : forall b, val_ev (ABool b) (MBool b) 1.
Proof.
  intros [|]; cbn [val_ev val_toks].
  - eapply Ev_valother; [apply value_rule_true|reflexivity|reflexivity].
  - eapply Ev_valother; [apply value_rule_false|reflexivity|reflexivity].
Qed.

Lemma special_ev : forall sg nan,
  val_ev (ASpecial sg nan) (MFloat (if nan then FNan (is_minus sg) else FInf (is_minus sg))) 1.
Proof.
  intros sg nan. cbn [val_ev].
  destruct sg; cbn [signed_tok is_minus].
  - apply (value_special false false nan (MTab [])). discriminate.
  - apply (value_special false true nan (MTab [])). discriminate.
  - apply (value_special true true nan (MTab [])). reflexivity.
Qed.

(* ---- floats ---- *)
Lemma float_ev : forall sg t f, float_meaning sg t = Some f -> val_ev (AFloat sg t) (MFloat f) 1.
Proof.
  intros sg t f H. cbn [val_ev].
  replace (EOk (MFloat f)) with (signed_lit_value sg (LFloat t)); [apply value_signed_lit|].
  unfold float_meaning in H. destruct (toml_float_syntax t); [|discriminate].
  assert (Hs : signed_lit_value sg (LFloat t) = float_lit_value (is_minus sg) t) by (destruct sg; reflexivity).
  rewrite Hs. unfold float_lit_value.
  destruct (fdec_of_text (remove_us t)) as [n|n|n m e]; try discriminate.
  destruct (overflows m e); [discriminate|]. injection H as <-. reflexivity.
Qed.

(* ---- integers ---- *)
Lemma int_scan_radix : forall base body acc seen v, forallb (radix_char base) body = true ->
  radix_value base acc (remove_us body) = Some v ->
  int_scan base acc seen body
  = (v, seen || existsb (fun b => match radix_digit base b with Some _ => true | None => false end) body, []).
Proof.
  intros base. induction body as [|b body IH]; intros acc seen v Hc Hv.
  - cbn in *. injection Hv as <-. rewrite orb_false_r. reflexivity.
  - cbn [forallb] in Hc. apply andb_true_iff in Hc as [Hb Hc].
    cbn [int_scan existsb]. unfold remove_us in Hv. cbn [filter] in Hv. fold (remove_us body) in Hv.
    change underscore with x5f in Hv.
    destruct (byte_eqb b x5f) eqn:Eu; cbn [negb] in Hv.
    + rewrite (IH acc seen v Hc Hv).
      assert (Hd : radix_digit base b = None).
      { apply byte_eqb_eq in Eu. subst b. unfold radix_digit. reflexivity. }
      rewrite Hd. reflexivity.
    + unfold radix_char in Hb. rewrite Eu in Hb. cbn [orb] in Hb.
      cbn [radix_value] in Hv. destruct (radix_digit base b) as [d|]; [|discriminate Hb].
      rewrite (IH _ true v Hc Hv). cbn [orb]. rewrite orb_true_r. reflexivity.
Qed.

Lemma rust_int_lit_value : forall t v, int_text_ok t = true ->
  (let '(base, body) := int_prefix t in radix_value base 0 (remove_us body)) = Some v ->
  rust_int_lit t = Some (v, []).
Proof.
  intros t v Hok Hv. unfold rust_int_lit. unfold int_text_ok in Hok.
  destruct (int_prefix t) as [base body]. apply andb_true_iff in Hok as [Hc He].
  rewrite (int_scan_radix base body 0%N false v Hc Hv). cbn [orb]. rewrite He. reflexivity.
Qed.

Lemma wrap_i64_small : forall z, (- 9223372036854775808 <= z <= 9223372036854775807)%Z -> wrap_i64 z = z.
Proof. intros z H. unfold wrap_i64. rewrite Z.mod_small by lia. lia. Qed.

Lemma int_ev : forall sg t z, int_ok sg t = true -> int_meaning sg t = Some z -> val_ev (AInt sg t) (MInt z) 1.
Proof.
  intros sg t z Hok Hm. cbn [val_ev].
  replace (EOk (MInt z)) with (signed_lit_value sg (LInt t)); [apply value_signed_lit|].
  unfold int_ok in Hok. apply andb_true_iff in Hok as [Htext Hmag].
  unfold int_meaning in Hm. destruct (toml_int_syntax sg t); [|discriminate].
  unfold int_magnitude in Hmag.
  pose proof (rust_int_lit_value t) as HL.
  destruct (int_prefix t) as [base body].
  destruct (radix_value base 0 (remove_us body)) as [v|] eqn:Ev; [|discriminate].
  specialize (HL v Htext eq_refl).
  destruct (in_i64 (apply_sign sg v)); [|discriminate]. injection Hm as <-.
  destruct sg; cbn [signed_lit_value lit_value neg_lit_value apply_sign] in *; rewrite HL.
  - assert (Hle : (Z.of_N v <=? i32_max)%Z = true) by (unfold i32_max; lia). rewrite Hle. reflexivity.
  - assert (Hle : (Z.of_N v <=? i32_max)%Z = true) by (unfold i32_max; lia). rewrite Hle. reflexivity.
  - rewrite wrap_i64_small by lia. reflexivity.
Qed.

(* every negative integer the TOML grammar accepts (and i64 holds) is a supported spelling *)
Lemma us_digits_chars : forall isd s prev, us_digits isd prev s = true ->
  forallb (fun b => byte_eqb b x5f || isd b) s = true /\ (prev = true \/ existsb isd s = true).
Proof.
  intros isd. induction s as [|b s IH]; intros prev H; cbn [us_digits] in H.
  - split; [reflexivity|left; exact H].
  - cbn [forallb existsb]. destruct (isd b) eqn:Ed.
    + destruct (IH true H) as [Hall _]. rewrite Hall, orb_true_r. split; [reflexivity|right; reflexivity].
    + destruct (byte_eqb b x5f) eqn:Eu; [|discriminate]. apply andb_true_iff in H as [Hp H].
      destruct (IH false H) as [Hall [Hf|Hex]]; [discriminate|]. rewrite Hall. split; [reflexivity|right; exact Hex].
Qed.

Theorem negative_all_supported : forall t z, int_meaning SgMinus t = Some z -> int_ok SgMinus t = true.
Proof.
  intros t z H. unfold int_meaning in H. destruct (toml_int_syntax SgMinus t) eqn:Es; [|discriminate].
  unfold int_ok, int_text_ok, int_magnitude. unfold toml_int_syntax in Es.
  destruct (int_prefix t) as [base body]. apply andb_true_iff in Es as [Hus _].
  destruct (us_digits_chars _ _ _ Hus) as [Hall [Hf|Hex]]; [discriminate|].
  destruct (radix_value base 0 (remove_us body)) as [v|]; [|discriminate].
  destruct (in_i64 (apply_sign SgMinus v)) eqn:Ei; [|discriminate].
  unfold radix_char. unfold is_radix_digit in *. rewrite Hall, Hex. cbn [andb].
  unfold in_i64, apply_sign, i64_min in Ei. lia.
Qed.

Theorem negative_integers : forall t z, int_meaning SgMinus t = Some z ->
  int_ok SgMinus t = true /\ val_ev (AInt SgMinus t) (MInt z) 1.
Proof. intros t z H. split; [exact (negative_all_supported t z H)|exact (int_ev SgMinus t z (negative_all_supported t z H) H)]. Qed.
