(* Proofs/BuiltRTDocParse.v — C06, documents, parser side: a text made of the lines the printer emits
   (`key = value`, blank line, `[a.b]`, `[[a.b]]`) is read by `document` line by line; each line is one
   statement of the definition rules (Spec/Defs.v), applied by the state machine as Proofs/DefsEquiv*
   (C09) shows; the resulting tree is the one the statements define. *)
From TV Require Import Base.Prelude Base.Utf8 Base.Winnow Gen.Consts.
From TV Require Import Model.Trivia Model.Strings Model.Datetime Model.Numbers Model.Tree Model.Parse Model.Document.
From TV Require Import Model.Write Model.Encode Model.Build.
From TV Require Import Proofs.StringsRTDefs Proofs.StringsRTBase Proofs.StringsRTBasic Proofs.StringsRTTop Proofs.StringsRTDoc.
From TV Require Import Proofs.BuiltRTBase Proofs.BuiltRTEncode Proofs.BuiltRTParse Proofs.BuiltRTKey Proofs.BuiltRTValue Proofs.BuiltRTTop.
From TV Require Import Proofs.BuiltRTSpecMap.
From TV Require Spec.Defs Proofs.DefsEquivBase Proofs.DefsEquivSim Proofs.DefsEquivMain.
Require Import Lia ZifyBool ZifyN ZifyNat.

Module D := Spec.Defs.
Module DB := Proofs.DefsEquivBase.
Module DS := Proofs.DefsEquivSim.
Module DM := Proofs.DefsEquivMain.

(* ---- the lines of a printed document ------------------------------------------------------------------------ *)
Inductive dline : Type :=
| LKeyVal (k : bytes) (v : value)
| LBlank
| LHeader (arr : bool) (path : list bytes).

Section Lines.
  Variable ftext : fval -> bytes.

  Definition path_txt (path : list bytes) : bytes :=
    encode_key_path (map key_new path) DEFAULT_KEY_PATH_DECOR.

  Definition line_txt (l : dline) : bytes :=
    match l with
    | LKeyVal k v =>
      encode_key_path [key_new k] DEFAULT_KEY_DECOR ++ [x3d] ++ etxt ftext v DEFAULT_VALUE_DECOR ++ [x0a]
    | LBlank => [x0a]
    | LHeader false path => [x5b] ++ path_txt path ++ [x5d] ++ [x0a]
    | LHeader true path => [x5b; x5b] ++ path_txt path ++ [x5d; x5d] ++ [x0a]
    end.

  Definition line_ok (l : dline) : Prop :=
    match l with
    | LKeyVal k v => key_ok k /\ BuiltValue (leaf_ok ftext) key_ok v /\ value_depth v < LIMIT
    | LBlank => True
    | LHeader _ path => path <> [] /\ Forall key_ok path /\ length path < LIMIT
    end.

  (* the statement a line is *)
  Definition line_stmt (l : dline) : list (D.stmt aval) :=
    match l with
    | LKeyVal k v => [D.SKeyVal [k] (abs_value v)]
    | LBlank => []
    | LHeader false path => [D.SHeader path]
    | LHeader true path => [D.SArrHeader path]
    end.

  (* every line starts with a byte that is not a blank *)
  Definition lstart (b : byte) : Prop :=
    in_class WSCHAR b = false /\ byte_eqb b xef = false.
  Definition lhead (R : bytes) : Prop := match R with [] => True | b :: _ => lstart b end.

  Lemma key_token_lstart k tk R : write_key KDefault k = Some tk -> lhead (tk ++ R).
  Proof.
    intro Hw. destruct (key_token_head k tk Hw) as (b & tk' & -> & Hb).
    destruct (key_head_facts b Hb) as (H1 & H2 & _). split; assumption.
  Qed.

  Lemma line_txt_head l R : line_ok l -> lhead (line_txt l ++ R).
  Proof.
    destruct l as [k v| |[|] path]; cbn [line_ok line_txt]; intro H; try (split; reflexivity).
    destruct H as (Hk & _). destruct (key_display_new k) as (tk & Hw & _).
    rewrite (encode_key_path_one k tk _ Hw). cbn [fst snd DEFAULT_KEY_DECOR app].
    rewrite <- !app_assoc. apply (key_token_lstart k tk _ Hw).
  Qed.

  Lemma lhead_ws R : lhead R -> stops (in_class WSCHAR) R.
  Proof. destruct R as [|b R]; [auto|]. intros [H _]. exact H. Qed.

  (* ---- trivia ------------------------------------------------------------------------------------------------ *)
  Lemma line_trailing_nl R d : pto line_trailing [x0a] R d (fun _ => True).
  Proof. intro p. eexists. eexists. split; [reflexivity|exact I]. Qed.

  Lemma parse_ws_none st R p d : lhead R -> parse_ws st (mkIn R p d) = Ok (on_ws st (p, p)) (mkIn R p d).
  Proof.
    intro H. unfold parse_ws. rewrite (pmap_ok _ _ _ (p, p) (mkIn R p d)); [reflexivity|].
    exact (span_ok ws (mkIn R p d) [] (mkIn R p d) (ws_none R p d (lhead_ws R H))).
  Qed.

  (* ---- `key = value` ------------------------------------------------------------------------------------------ *)
  Lemma pto_value_ v R d :
    BuiltValue (leaf_ok ftext) key_ok v -> vterm R -> d + value_depth v < LIMIT ->
    pto value_ (txt ftext v) R d (fun v' => abs_value v' = abs_value v).
  Proof.
    intros Hb HR Hd p. destruct (value_txt_rt ftext v Hb) as [_ Hrt].
    pose proof (depth_le_txt ftext _ _ v Hb) as Hlen.
    unfold value_. cbn [rest]. apply Hrt; [exact HR| |exact Hd]. rewrite app_length. lia.
  Qed.

  Lemma parse_keyval_pto k v R :
    key_ok k -> BuiltValue (leaf_ok ftext) key_ok v -> value_depth v < LIMIT ->
    pto parse_keyval (line_txt (LKeyVal k v)) R 0
        (fun pr => exists kk vv, pr = ([], (kk, IValue vv)) /\ k_key kk = k /\ abs_value vv = abs_value v).
  Proof.
    intros Hk Hb Hd. destruct (key_display_new k) as (tk & Hw & _).
    destruct (value_txt_rt ftext v Hb) as [Hh _].
    cbn [line_txt]. rewrite (encode_key_path_one k tk _ Hw). cbn [fst snd DEFAULT_KEY_DECOR].
    unfold etxt. set (a := decor_prefix (value_decor v) [x20]).
    assert (Ha : sp a).
    { apply prefix_sp; [apply (built_decor _ _ _ Hb)|right; reflexivity]. }
    assert (Eb : wrap (value_decor v) DEFAULT_VALUE_DECOR (txt ftext v) = a ++ txt ftext v).
    { unfold wrap. cbn [fst snd DEFAULT_VALUE_DECOR]. fold a.
      assert (Es : decor_suffix (value_decor v) [] = []).
      { destruct (built_decor _ _ _ Hb) as [_ [H | H]]; unfold decor_suffix; rewrite H; reflexivity. }
      rewrite Es, app_nil_r. reflexivity. }
    rewrite Eb. unfold parse_keyval.
    replace (([] ++ tk ++ [x20]) ++ [x3d] ++ (a ++ txt ftext v) ++ [x0a])
      with ((tk ++ [x20]) ++ x3d :: a ++ txt ftext v ++ [x0a]) by (cbn [app]; rewrite <- !app_assoc; reflexivity).
    apply pto_bind with (Q1 := fun kp => exists kk, kp = [kk] /\ k_key kk = k).
    { change ((x3d :: a ++ txt ftext v ++ [x0a]) ++ R) with (x3d :: (a ++ txt ftext v ++ [x0a]) ++ R).
      pose proof (key_one_pto 0 k tk [] [x20] ((a ++ txt ftext v ++ [x0a]) ++ R) Hk Hw (or_introl eq_refl) (or_intror eq_refl)) as H.
      cbn [app] in H. exact H. }
    intros kp (kk & -> & Hkk).
    rewrite <- (app_nil_r (x3d :: a ++ txt ftext v ++ [x0a])).
    apply pto_bind with (Q1 := fun x3 => abs_value (snd (fst x3)) = abs_value v).
    { apply pto_cut_err. change (x3d :: a ++ txt ftext v ++ [x0a]) with ([x3d] ++ a ++ txt ftext v ++ [x0a]).
      apply pto_bind with (Q1 := fun _ => True); [apply pto_context, pto_byte|]. intros _ _.
      apply pto_bind with (Q1 := fun _ => True).
      { apply (pto_span _ _ _ _ (fun _ => True)). apply pto_ws; [exact Ha|]. rewrite <- app_assoc. apply vhead_ws, Hh. }
      intros pre _. apply pto_bind with (Q1 := fun v' => abs_value v' = abs_value v).
      { apply pto_value_; [exact Hb| |cbn [Nat.add]; exact Hd]. cbn [app vterm]. right. left. reflexivity. }
      intros v' Hv'. apply pto_bind_ret with (Q1 := fun _ => True).
      { apply pto_context, line_trailing_nl. }
      intros suf _. exact Hv'. }
    intros [[pre v'] suf] Hv'. cbn [fst snd] in Hv'. cbn [pop_key rev app].
    apply pto_ret. exists kk, (value_decorate v' (raw_with_span pre) (raw_with_span suf)).
    split; [reflexivity|]. split; [exact Hkk|]. rewrite abs_decorate. exact Hv'.
  Qed.
End Lines.

(* ---- `[a.b]` / `[[a.b]]` ---------------------------------------------------------------------------------------- *)
Definition tok (k : bytes) : bytes := key_display_repr (key_new k).
Definition part_of (k : bytes) : bytes * bytes * bytes * bytes := (k, [], tok k, []).

Lemma part_of_ok k : key_ok k -> part_ok (part_of k).
Proof.
  intro Hk. destruct (key_display_new k) as (tk & Hw & Etk). unfold part_ok, part_of, tok. cbn [fst snd].
  rewrite Etk. repeat split; auto; left; reflexivity.
Qed.

Lemma ekp_loop_new first ks :
  encode_key_path_loop decor_default DEFAULT_KEY_PATH_DECOR first (map key_new ks)
  = match ks with
    | [] => []
    | k :: tl => (if first then [] else [x2e]) ++ tok k ++ concat (map (fun k' => x2e :: tok k') tl)
    end.
Proof.
  revert first. induction ks as [|k tl IH]; intro first; [reflexivity|].
  cbn [map encode_key_path_loop]. rewrite IH. unfold tok.
  destruct first, tl as [|k2 tl2]; cbn [map concat app]; rewrite ?app_nil_r; reflexivity.
Qed.

Lemma path_txt_segs k0 ks :
  path_txt (k0 :: ks) = seg_txt (part_seg (part_of k0)) ++ segs_txt DOT_SEP (map part_seg (map part_of ks)).
Proof.
  unfold path_txt, encode_key_path.
  assert (El : exists last rinit, rev (map key_new (k0 :: ks)) = key_new last :: rinit).
  { rewrite <- map_rev. destruct (rev (k0 :: ks)) as [|l r] eqn:E.
    - apply (f_equal (@length bytes)) in E. rewrite rev_length in E. discriminate.
    - exists l, (map key_new r). reflexivity. }
  destruct El as (last & rinit & ->). cbn [k_leaf key_new].
  rewrite ekp_loop_new. cbn [part_seg part_of seg_txt fst snd app]. rewrite app_nil_r. f_equal.
  induction ks as [|k tl IH]; [reflexivity|]. cbn [map concat segs_txt part_seg part_of seg_txt fst snd app].
  rewrite app_nil_r, IH. reflexivity.
Qed.

Lemma key_path_header_pto path R :
  path <> [] -> Forall key_ok path -> length path < LIMIT ->
  pto key_ (path_txt path) (x5d :: R) 0 (fun kp => map k_key kp = path).
Proof.
  intros Hne Hk Hlen. destruct path as [|k0 ks]; [contradiction|]. inversion Hk as [|? ? Hk0 Hks]; subst.
  rewrite path_txt_segs.
  eapply pto_weaken.
  - apply key_path_pto.
    + apply part_of_ok, Hk0.
    + clear - Hks. induction Hks; constructor; [apply part_of_ok; assumption|assumption].
    + apply kend_close.
    + reflexivity.
    + rewrite map_length. cbn [length] in Hlen. exact Hlen.
  - intros kp Hkp. rewrite Hkp. cbn [map part_of fst]. f_equal. rewrite map_map. cbn [part_of fst]. apply map_id.
Qed.

Definition hdr_inner (is_array : bool) :=
  pair_ (with_span (delimited (if is_array then pvoid (lit ARRAY_TABLE_OPEN) else pvoid (byte_ STD_TABLE_OPEN))
                              (cut_err key_)
                              (context (cut_err (if is_array then pvoid (lit ARRAY_TABLE_CLOSE) else pvoid (byte_ STD_TABLE_CLOSE))))))
        (context (cut_err line_trailing)).

Lemma header_eq is_array st : header is_array st
  = try_map (fun '((h, sp0), t) => lift_state (on_header is_array st h t sp0)) (hdr_inner is_array).
Proof. unfold header, hdr_inner. destruct is_array; reflexivity. Qed.

Lemma pto_lit l R d : pto (lit l) l R d (fun _ => True).
Proof. intro p. exists l, (p + N.of_nat (length l))%N. split; [apply lit_yes|exact I]. Qed.

Lemma hdr_inner_pto ftext arr path R :
  path <> [] -> Forall key_ok path -> length path < LIMIT ->
  pto (hdr_inner arr) (line_txt ftext (LHeader arr path)) R 0 (fun x => map k_key (fst (fst x)) = path).
Proof.
  intros Hne Hk Hlen. unfold hdr_inner, pair_.
  set (OPEN := if arr then [x5b; x5b] else [x5b]). set (CLOSE := if arr then [x5d; x5d] else [x5d]).
  assert (Et : line_txt ftext (LHeader arr path) = (OPEN ++ path_txt path ++ CLOSE) ++ [x0a]).
  { unfold OPEN, CLOSE. destruct arr; cbn [line_txt]; rewrite <- !app_assoc; reflexivity. }
  rewrite Et.
  apply pto_bind with (Q1 := fun x => map k_key (fst x) = path).
  - eapply pto_weaken; [apply pto_with_span with (Q0 := fun kp => map k_key kp = path)|intros x Hx; exact Hx].
    unfold delimited.
    apply pto_bind with (Q1 := fun _ => True).
    { unfold OPEN. destruct arr; apply pto_pmap; [apply (pto_lit [x5b; x5b])|apply pto_byte]. }
    intros _ _.
    apply pto_bind with (Q1 := fun kp => map k_key kp = path).
    { apply pto_cut_err.
      assert (EC : exists R', (CLOSE ++ [x0a] ++ R) = x5d :: R') by (unfold CLOSE; destruct arr; eexists; reflexivity).
      destruct EC as (R' & EC). rewrite EC. exact (key_path_header_pto path R' Hne Hk Hlen). }
    intros kp Hkp.
    apply pto_bind_ret with (Q1 := fun _ => True); [|intros _ _; exact Hkp].
    apply pto_context, pto_cut_err. unfold CLOSE. destruct arr; apply pto_pmap; [apply (pto_lit [x5d; x5d])|apply pto_byte].
  - intros [h sp0] Hh. cbn [fst] in Hh.
    apply pto_bind_ret with (Q1 := fun _ => True); [|intros t _; exact Hh].
    apply pto_context, pto_cut_err, line_trailing_nl.
Qed.

(* ---- one line of `document`, and the state machine step it performs ------------------------------------------- *)
Section Loop.
  Variable ftext : fval -> bytes.

  Definition absS (S : D.sstate value) : D.sstate aval := map_state abs_value S.

  Lemma doc_line_dispatch st b tl p d :
    doc_line st (mkIn (b :: tl) p d)
    = bind (if byte_eqb b COMMENT_START_SYMBOL then cut_err (parse_comment st)
            else if byte_eqb b STD_TABLE_OPEN then cut_err (table st)
            else if byte_eqb b LF || byte_eqb b CR then parse_newline st
            else cut_err (keyval st)) parse_ws (mkIn (b :: tl) p d).
  Proof. reflexivity. Qed.

  Lemma spec_fold_one {V} (S : D.sstate V) s Sa : D.spec_fold false S [s] = D.ROk Sa -> D.spec_step false S s = D.ROk Sa.
  Proof. cbn [D.spec_fold]. destruct (D.spec_step false S s); cbn [D.rbind]; congruence. Qed.

  (* a model statement whose erasure maps to the abstract statement s steps the state machine as the
     abstract rules step the abstract tree *)
  Lemma mstep_abs st S m Sa' :
    DS.Inv st S -> D.spec_step false (absS S) (map_stmt abs_value (DB.erase m)) = D.ROk Sa' ->
    exists st1 S1, DB.mstep st m = COk st1 /\ DS.Inv st1 S1 /\ absS S1 = Sa'.
  Proof.
    intros HI Hs. unfold absS in Hs. rewrite spec_step_map in Hs.
    pose proof (DM.mstep_sim st S m HI) as Hsim.
    destruct (D.spec_step false S (DB.erase m)) as [S1| |]; cbn [map_res] in Hs; try discriminate.
    injection Hs as Hs. cbn [DM.simstep] in Hsim. destruct Hsim as (st1 & E & HI1).
    exists st1, S1. auto.
  Qed.

  Lemma on_keyval_sp_nil st kk it st1 : on_keyval st [] kk it = COk st1 -> on_keyval_sp st [] kk it = COk st1.
  Proof. intro H. unfold on_keyval_sp. rewrite H. cbn [set_dotted_spans]. destruct st1; reflexivity. Qed.

  Lemma exists_last_key (h : list key) : h <> [] -> exists pre k, h = pre ++ [k].
  Proof. intro H. destruct (exists_last H) as (pre & k & E). eauto. Qed.

  Lemma doc_line_sim l R st S p :
    line_ok ftext l -> lhead R -> DS.Inv st S ->
    forall Sa', D.spec_fold false (absS S) (line_stmt l) = D.ROk Sa' ->
    exists st' S' p', doc_line st (mkIn (line_txt ftext l ++ R) p 0) = Ok st' (mkIn R p' 0)
                      /\ DS.Inv st' S' /\ absS S' = Sa'.
  Proof.
    intros Hok HR HI Sa' Hfold. destruct l as [k v| |arr path].
    - (* key = value *)
      destruct Hok as (Hk & Hb & Hd).
      destruct (parse_keyval_pto ftext k v R Hk Hb Hd p) as (pr & p1 & Epk & kk & vv & -> & Hkk & Hvv).
      apply spec_fold_one in Hfold. cbn [line_stmt] in Hfold.
      assert (Em : map_stmt abs_value (DB.erase (DB.MKeyVal [] kk vv)) = D.SKeyVal [k] (abs_value v)).
      { cbn [DB.erase DB.keys map app map_stmt]. rewrite Hkk, Hvv. reflexivity. }
      rewrite <- Em in Hfold. destruct (mstep_abs st S _ Sa' HI Hfold) as (st1 & S1 & Est & HI1 & Ha).
      cbn [DB.mstep] in Est.
      exists (on_ws st1 (p1, p1)), S1, p1. split; [|split; [apply DM.Inv_on_ws, HI1|exact Ha]].
      destruct (key_display_new k) as (tk & Hw & _).
      destruct (key_token_head k tk Hw) as (b & tk' & Etk & Hb0).
      destruct (key_head_facts b Hb0) as (_ & _ & H1 & H2 & H3 & H4).
      assert (Eh : exists tl, line_txt ftext (LKeyVal k v) ++ R = b :: tl).
      { cbn [line_txt]. rewrite (encode_key_path_one k tk _ Hw), Etk. cbn [fst DEFAULT_KEY_DECOR app]. eauto. }
      destruct Eh as (tl & Eh). rewrite Eh, doc_line_dispatch, <- Eh. rewrite H1, H2, H3, H4. cbn [orb].
      rewrite (bind_ok _ _ _ st1 (mkIn R p1 0)); [apply parse_ws_none, HR|].
      apply cut_err_ok. unfold keyval, try_map. rewrite Epk. rewrite (on_keyval_sp_nil _ _ _ _ Est). reflexivity.
    - (* blank line *)
      cbn [line_stmt D.spec_fold] in Hfold. injection Hfold as <-.
      exists (on_ws (on_ws st (p, (p + 1)%N)) ((p + 1)%N, (p + 1)%N)), S, (p + 1)%N.
      split; [|split; [apply DM.Inv_on_ws, DM.Inv_on_ws, HI|reflexivity]].
      cbn [line_txt app]. rewrite doc_line_dispatch.
      change (byte_eqb x0a COMMENT_START_SYMBOL) with false. change (byte_eqb x0a STD_TABLE_OPEN) with false.
      change (byte_eqb x0a LF || byte_eqb x0a CR) with true. cbv iota.
      rewrite (bind_ok _ _ _ (on_ws st (p, (p + 1)%N)) (mkIn R (p + 1)%N 0)); [apply parse_ws_none, HR|reflexivity].
    - (* headers *)
      destruct Hok as (Hne & Hk & Hlen).
      destruct (hdr_inner_pto ftext arr path R Hne Hk Hlen p) as ([[h sp0] tr] & p1 & Eh & Hh). cbn [fst] in Hh.
      assert (Hhne : h <> []) by (intro E; subst h; destruct path; [contradiction|discriminate]).
      destruct (exists_last_key h Hhne) as (pre & kl & ->).
      assert (Hfold0 : D.spec_step false (absS S) (if arr then D.SArrHeader path else D.SHeader path) = D.ROk Sa')
        by (destruct arr; apply spec_fold_one; exact Hfold).
      assert (Em : map_stmt abs_value (DB.erase (DB.MHeader arr pre kl tr sp0))
                   = if arr then D.SArrHeader path else D.SHeader path).
      { destruct arr; cbn [DB.erase map_stmt]; unfold DB.keys; rewrite <- Hh, map_app; reflexivity. }
      assert (Hfold' : D.spec_step false (absS S) (map_stmt abs_value (DB.erase (DB.MHeader arr pre kl tr sp0))) = D.ROk Sa').
      { rewrite Em. exact Hfold0. }
      destruct (mstep_abs st S _ Sa' HI Hfold') as (st1 & S1 & Est & HI1 & Ha).
      cbn [DB.mstep] in Est.
      exists (on_ws st1 (p1, p1)), S1, p1. split; [|split; [apply DM.Inv_on_ws, HI1|exact Ha]].
      assert (Ehd : header arr st (mkIn (line_txt ftext (LHeader arr path) ++ R) p 0) = Ok st1 (mkIn R p1 0)).
      { rewrite header_eq. unfold try_map. rewrite Eh, Est. reflexivity. }
      assert (Etab : table st (mkIn (line_txt ftext (LHeader arr path) ++ R) p 0) = Ok st1 (mkIn R p1 0)).
      { unfold table. apply context_ok. destruct arr.
        - cbn [line_txt app] in *. rewrite (bind_ok _ _ _ [x5b; x5b] (mkIn (x5b :: x5b :: (path_txt path ++ [x5d; x5d] ++ [x0a]) ++ R) p 0)) by reflexivity.
          exact Ehd.
        - destruct path as [|k0 ks]; [contradiction|]. inversion Hk as [|? ? Hk0 _]; subst.
          destruct (key_display_new k0) as (tk & Hw & Etk).
          destruct (key_token_head k0 tk Hw) as (b & tk' & Eb & Hb0).
          destruct (key_head_facts b Hb0) as (_ & _ & _ & H2 & _).
          assert (Ept : exists tl, path_txt (k0 :: ks) = b :: tl).
          { rewrite path_txt_segs. cbn [part_seg part_of seg_txt fst snd app]. unfold tok. rewrite Etk, Eb. cbn [app]. eauto. }
          destruct Ept as (tl & Ept). cbn [line_txt app] in *. rewrite Ept in *. cbn [app] in *.
          rewrite (bind_ok _ _ _ [x5b; b] (mkIn (x5b :: b :: (tl ++ [x5d] ++ [x0a]) ++ R) p 0)) by reflexivity.
          cbn [bytes_eqb]. rewrite byte_eqb_sym in H2. rewrite byte_eqb_refl. cbn [andb].
          unfold STD_TABLE_OPEN in H2. rewrite byte_eqb_sym, H2. cbn [andb]. exact Ehd. }
      assert (Ehead : exists tl, line_txt ftext (LHeader arr path) ++ R = x5b :: tl) by (destruct arr; cbn [line_txt app]; eauto).
      destruct Ehead as (tl & Ehead). rewrite Ehead, doc_line_dispatch, <- Ehead.
      change (byte_eqb x5b COMMENT_START_SYMBOL) with false. change (byte_eqb x5b STD_TABLE_OPEN) with true. cbv iota.
      rewrite (bind_ok _ _ _ st1 (mkIn R p1 0)); [apply parse_ws_none, HR|]. apply cut_err_ok, Etab.
  Qed.
End Loop.

(* ---- the whole document -------------------------------------------------------------------------------------------- *)
Section Document.
  Variable ftext : fval -> bytes.

  Definition lines_txt (ls : list dline) : bytes := concat (map (line_txt ftext) ls).
  Definition lines_stmts (ls : list dline) : list (D.stmt aval) := flat_map line_stmt ls.

  Lemma spec_fold_app {V} (a b : list (D.stmt V)) S :
    D.spec_fold false S (a ++ b) = D.rbind (D.spec_fold false S a) (fun S1 => D.spec_fold false S1 b).
  Proof.
    revert S. induction a as [|s a IH]; intro S; [reflexivity|]. cbn [app D.spec_fold].
    destruct (D.spec_step false S s); cbn [D.rbind]; [apply IH|reflexivity|reflexivity].
  Qed.

  Lemma lines_txt_head ls : Forall (line_ok ftext) ls -> lhead (lines_txt ls).
  Proof.
    intro H. destruct H as [|l ls Hl _]; [exact I|]. unfold lines_txt. cbn [map concat].
    apply line_txt_head, Hl.
  Qed.

  Lemma line_txt_nonempty l : line_ok ftext l -> 0 < length (line_txt ftext l).
  Proof.
    destruct l as [k v| |[|] path]; cbn [line_txt]; intro H; rewrite ?app_length; cbn [length]; lia.
  Qed.

  Lemma doc_loop_sim ls : Forall (line_ok ftext) ls ->
    forall fuel st S p Sa', DS.Inv st S -> length (lines_txt ls) < fuel ->
      D.spec_fold false (absS S) (lines_stmts ls) = D.ROk Sa' ->
      exists st' S' p', doc_loop fuel st (mkIn (lines_txt ls) p 0) = Ok st' (mkIn [] p' 0)
                        /\ DS.Inv st' S' /\ absS S' = Sa'.
  Proof.
    induction 1 as [|l ls Hl Hls IH]; intros fuel st S p Sa' HI Hf Hfold.
    - destruct fuel as [|f]; [cbn in Hf; lia|]. cbn [lines_stmts flat_map D.spec_fold] in Hfold. injection Hfold as <-.
      exists st, S, p. split; [reflexivity|auto].
    - destruct fuel as [|f]; [lia|].
      unfold lines_stmts in Hfold. cbn [flat_map] in Hfold. rewrite spec_fold_app in Hfold.
      destruct (D.spec_fold false (absS S) (line_stmt l)) as [Sa1| |] eqn:E1; cbn [D.rbind] in Hfold; try discriminate.
      assert (Et : lines_txt (l :: ls) = line_txt ftext l ++ lines_txt ls) by reflexivity.
      rewrite Et in Hf |- *.
      destruct (doc_line_sim ftext l (lines_txt ls) st S p Hl (lines_txt_head ls Hls) HI Sa1 E1) as (st1 & S1 & p1 & Ed & HI1 & Ha1).
      destruct (IH f st1 S1 p1 Sa' HI1) as (st' & S' & p' & El & HI' & Ha').
      { rewrite app_length in Hf. pose proof (line_txt_nonempty l Hl). unfold bytes in *. lia. }
      { rewrite Ha1. exact Hfold. }
      exists st', S', p'. split; [|auto]. cbn [doc_loop]. rewrite Ed. cbn [rest].
      rewrite eqb_lt; [exact El|]. rewrite app_length. pose proof (line_txt_nonempty l Hl). unfold bytes in *. lia.
  Qed.

  Theorem parse_lines ls Tabs cp :
    Forall (line_ok ftext) ls -> D.spec_fold false D.sstate0 (lines_stmts ls) = D.ROk (Tabs, cp) ->
    exists d, parse_document (lines_txt ls) = POk d /\ DB.mok_tbl (doc_root d) = true
              /\ map_tree abs_value (DB.abs_tbl (doc_root d)) = Tabs.
  Proof.
    intros Hls Hfold.
    set (st0 := on_ws state_new (0, 0)%N).
    assert (HI0 : DS.Inv st0 D.sstate0) by (apply DM.Inv_on_ws, DS.Inv_init).
    destruct (doc_loop_sim ls Hls (S (length (lines_txt ls))) st0 D.sstate0 0%N (Tabs, cp) HI0 (Nat.lt_succ_diag_r _) Hfold)
      as (st' & [T' cp'] & p' & El & HI' & Ha').
    destruct (DS.finalize_sim st' T' cp' HI') as (root' & Ef & Habs & Hmok).
    exists (mkDoc root' (match st_trailing st' with Some sp0 => raw_with_span sp0 | None => REmpty end)).
    split; [|split; [exact Hmok|]].
    2:{ cbn [doc_root]. rewrite Habs. unfold absS, map_state in Ha'. cbn [fst snd] in Ha'. congruence. }
    assert (Hdoc : document (mkIn (lines_txt ls) 0%N 0) = Ok st' (mkIn [] p' 0)).
    { unfold document.
      assert (Hbom : opt (lit bom) (mkIn (lines_txt ls) 0%N 0) = Ok None (mkIn (lines_txt ls) 0%N 0)).
      { eapply opt_bt. apply lit_no. pose proof (lines_txt_head ls Hls) as Hh.
        destruct (lines_txt ls) as [|b tl]; [reflexivity|]. destruct Hh as [_ Hb]. unfold bom. cbn [strip_prefix].
        rewrite byte_eqb_sym, Hb. reflexivity. }
      rewrite (bind_ok _ _ _ _ _ Hbom).
      rewrite (bind_ok _ _ _ st0 (mkIn (lines_txt ls) 0%N 0)); [|apply parse_ws_none, lines_txt_head, Hls].
      unfold bind at 1. cbn [rest]. rewrite El.
      rewrite (bind_ok _ _ _ _ _ (eof_nil p' 0)). reflexivity. }
    unfold parse_document, parse_all, new_input. rewrite (bind_ok _ _ _ _ _ Hdoc).
    rewrite (bind_ok _ _ _ _ _ (eof_nil p' 0)). cbn [ret]. rewrite Ef. reflexivity.
  Qed.
End Document.
