(* Proofs/BuiltRTDocParse.v — C06, documents, parser side: a text made of the lines the printer emits
   (`key = value`, blank line, `[a.b]`, `[[a.b]]`) is read by `document` line by line; each line is one
   statement of the definition rules (Spec/Defs.v), applied by the state machine as Proofs/DefsEquiv*
   (C09) shows; the resulting tree is the one the statements define. *)
From TV Require Import Base.Prelude Base.Utf8 Base.Winnow Gen.Consts.
From TV Require Import Model.Trivia Model.Strings Model.Datetime Model.Numbers Model.Tree Model.Parse Model.Document.
From TV Require Import Model.Write Model.Encode Model.Build.
From TV Require Import Proofs.StringsRTDefs Proofs.StringsRTBase Proofs.StringsRTBasic Proofs.StringsRTTop Proofs.StringsRTDoc.
From TV Require Import Proofs.BuiltRTBase Proofs.BuiltRTEncode Proofs.BuiltRTParse Proofs.BuiltRTKey Proofs.BuiltRTValue Proofs.BuiltRTTop.
From TV Require Import Proofs.BuiltRTSpecMap.
From TV Require Spec.Defs Proofs.DefsEquivBase Proofs.DefsEquivSim Proofs.DefsEquivMain.
Require Import Lia ZifyBool ZifyN ZifyNat.

Module D := Spec.Defs.
Module DB := Proofs.DefsEquivBase.
Module DS := Proofs.DefsEquivSim.
Module DM := Proofs.DefsEquivMain.

(* ---- the lines of a printed document ------------------------------------------------------------------------ *)
Inductive dline : Type :=
| LKeyVal (k : bytes) (v : value)
| LBlank
| LHeader (arr : bool) (path : list bytes).

Section Lines.
  Variable ftext : fval -> bytes.

  Definition path_txt (path : list bytes) : bytes :=
    encode_key_path (map key_new path) DEFAULT_KEY_PATH_DECOR.

  Definition line_txt (l : dline) : bytes :=
    match l with
    | LKeyVal k v =>
      encode_key_path [key_new k] DEFAULT_KEY_DECOR ++ [x3d] ++ etxt ftext v DEFAULT_VALUE_DECOR ++ [x0a]
    | LBlank => [x0a]
    | LHeader false path => [x5b] ++ path_txt path ++ [x5d] ++ [x0a]
    | LHeader true path => [x5b; x5b] ++ path_txt path ++ [x5d; x5d] ++ [x0a]
    end.

  Definition line_ok (l : dline) : Prop :=
    match l with
    | LKeyVal k v => key_ok k /\ BuiltValue (leaf_ok ftext) key_ok v /\ value_depth v < LIMIT
    | LBlank => True
    | LHeader _ path => path <> [] /\ Forall key_ok path /\ length path < LIMIT
    end.

  (* the statement a line is *)
  Definition line_stmt (l : dline) : list (D.stmt aval) :=
    match l with
    | LKeyVal k v => [D.SKeyVal [k] (abs_value v)]
    | LBlank => []
    | LHeader false path => [D.SHeader path]
    | LHeader true path => [D.SArrHeader path]
    end.

  (* every line starts with a byte that is not a blank *)
  Definition lstart (b : byte) : Prop :=
    in_class WSCHAR b = false /\ byte_eqb b xef = false.
  Definition lhead (R : bytes) : Prop := match R with [] => True | b :: _ => lstart b end.

  Lemma key_token_lstart k tk R : write_key KDefault k = Some tk -> lhead (tk ++ R).
  Proof.
    intro Hw. destruct (key_token_head k tk Hw) as (b & tk' & -> & Hb).
    destruct (key_head_facts b Hb) as (H1 & H2 & _). split; assumption.
  Qed.

  Lemma line_txt_head l R : line_ok l -> lhead (line_txt l ++ R).
  Proof.
    destruct l as [k v| |[|] path]; cbn [line_ok line_txt]; intro H; try (split; reflexivity).
    destruct H as (Hk & _). destruct (key_display_new k) as (tk & Hw & _).
    rewrite (encode_key_path_one k tk _ Hw). cbn [fst snd DEFAULT_KEY_DECOR app].
    rewrite <- !app_assoc. apply (key_token_lstart k tk _ Hw).
  Qed.

  Lemma lhead_ws R : lhead R -> stops (in_class WSCHAR) R.
  Proof. destruct R as [|b R]; [auto|]. intros [H _]. exact H. Qed.

  (* ---- trivia ------------------------------------------------------------------------------------------------ *)
  Lemma line_trailing_nl R d : pto line_trailing [x0a] R d (fun _ => True).
  Proof. intro p. eexists. eexists. split; [reflexivity|exact I]. Qed.

  Lemma parse_ws_none st R p d : lhead R -> parse_ws st (mkIn R p d) = Ok (on_ws st (p, p)) (mkIn R p d).
  Proof.
    intro H. unfold parse_ws. rewrite (pmap_ok _ _ _ (p, p) (mkIn R p d)); [reflexivity|].
    exact (span_ok ws (mkIn R p d) [] (mkIn R p d) (ws_none R p d (lhead_ws R H))).
  Qed.

  (* ---- `key = value` ------------------------------------------------------------------------------------------ *)
  Lemma pto_value_ v R d :
    BuiltValue (leaf_ok ftext) key_ok v -> vterm R -> d + value_depth v < LIMIT ->
    pto value_ (txt ftext v) R d (fun v' => abs_value v' = abs_value v).
  Proof.
    intros Hb HR Hd p. destruct (value_txt_rt ftext v Hb) as [_ Hrt].
    pose proof (depth_le_txt ftext _ _ v Hb) as Hlen.
    unfold value_. cbn [rest]. apply Hrt; [exact HR| |exact Hd]. rewrite app_length. lia.
  Qed.

  Lemma parse_keyval_pto k v R :
    key_ok k -> BuiltValue (leaf_ok ftext) key_ok v -> value_depth v < LIMIT ->
    pto parse_keyval (line_txt (LKeyVal k v)) R 0
        (fun pr => exists kk vv, pr = ([], (kk, IValue vv)) /\ k_key kk = k /\ abs_value vv = abs_value v).
  Proof.
    intros Hk Hb Hd. destruct (key_display_new k) as (tk & Hw & _).
    destruct (value_txt_rt ftext v Hb) as [Hh _].
    cbn [line_txt]. rewrite (encode_key_path_one k tk _ Hw). cbn [fst snd DEFAULT_KEY_DECOR].
    unfold etxt. set (a := decor_prefix (value_decor v) [x20]).
    assert (Ha : sp a).
    { apply prefix_sp; [apply (built_decor _ _ _ Hb)|right; reflexivity]. }
    assert (Eb : wrap (value_decor v) DEFAULT_VALUE_DECOR (txt ftext v) = a ++ txt ftext v).
    { unfold wrap. cbn [fst snd DEFAULT_VALUE_DECOR]. fold a.
      assert (Es : decor_suffix (value_decor v) [] = []).
      { destruct (built_decor _ _ _ Hb) as [_ [H | H]]; unfold decor_suffix; rewrite H; reflexivity. }
      rewrite Es, app_nil_r. reflexivity. }
    rewrite Eb. unfold parse_keyval.
    replace (([] ++ tk ++ [x20]) ++ [x3d] ++ (a ++ txt ftext v) ++ [x0a])
      with ((tk ++ [x20]) ++ x3d :: a ++ txt ftext v ++ [x0a]) by (cbn [app]; rewrite <- !app_assoc; reflexivity).
    apply pto_bind with (Q1 := fun kp => exists kk, kp = [kk] /\ k_key kk = k).
    { change ((x3d :: a ++ txt ftext v ++ [x0a]) ++ R) with (x3d :: (a ++ txt ftext v ++ [x0a]) ++ R).
      pose proof (key_one_pto 0 k tk [] [x20] ((a ++ txt ftext v ++ [x0a]) ++ R) Hk Hw (or_introl eq_refl) (or_intror eq_refl)) as H.
      cbn [app] in H. exact H. }
    intros kp (kk & -> & Hkk).
    rewrite <- (app_nil_r (x3d :: a ++ txt ftext v ++ [x0a])).
    apply pto_bind with (Q1 := fun x3 => abs_value (snd (fst x3)) = abs_value v).
    { apply pto_cut_err. change (x3d :: a ++ txt ftext v ++ [x0a]) with ([x3d] ++ a ++ txt ftext v ++ [x0a]).
      apply pto_bind with (Q1 := fun _ => True); [apply pto_context, pto_byte|]. intros _ _.
      apply pto_bind with (Q1 := fun _ => True).
      { apply (pto_span _ _ _ _ (fun _ => True)). apply pto_ws; [exact Ha|]. rewrite <- app_assoc. apply vhead_ws, Hh. }
      intros pre _. apply pto_bind with (Q1 := fun v' => abs_value v' = abs_value v).
      { apply pto_value_; [exact Hb| |cbn [Nat.add]; exact Hd]. cbn [app vterm]. right. left. reflexivity. }
      intros v' Hv'. apply pto_bind_ret with (Q1 := fun _ => True).
      { apply pto_context, line_trailing_nl. }
      intros suf _. exact Hv'. }
    intros [[pre v'] suf] Hv'. cbn [fst snd] in Hv'. cbn [pop_key rev app].
    apply pto_ret. exists kk, (value_decorate v' (raw_with_span pre) (raw_with_span suf)).
    split; [reflexivity|]. split; [exact Hkk|]. rewrite abs_decorate. exact Hv'.
  Qed.
End Lines.

(* ---- `[a.b]` / `[[a.b]]` ---------------------------------------------------------------------------------------- *)
Definition tok (k : bytes) : bytes := key_display_repr (key_new k).
Definition part_of (k : bytes) : bytes * bytes * bytes * bytes := (k, [], tok k, []).

Lemma part_of_ok k : key_ok k -> part_ok (part_of k).
Proof.
  intro Hk. destruct (key_display_new k) as (tk & Hw & Etk). unfold part_ok, part_of, tok. cbn [fst snd].
  rewrite Etk. repeat split; auto; left; reflexivity.
Qed.

Lemma ekp_loop_new first ks :
  encode_key_path_loop decor_default DEFAULT_KEY_PATH_DECOR first (map key_new ks)
  = match ks with
    | [] => []
    | k :: tl => (if first then [] else [x2e]) ++ tok k ++ concat (map (fun k' => x2e :: tok k') tl)
    end.
Proof.
  revert first. induction ks as [|k tl IH]; intro first; [reflexivity|].
  cbn [map encode_key_path_loop]. rewrite IH. unfold tok.
  destruct first, tl as [|k2 tl2]; cbn [map concat app]; rewrite ?app_nil_r; reflexivity.
Qed.

Lemma path_txt_segs k0 ks :
  path_txt (k0 :: ks) = seg_txt (part_seg (part_of k0)) ++ segs_txt DOT_SEP (map part_seg (map part_of ks)).
Proof.
  unfold path_txt, encode_key_path.
  assert (El : exists last rinit, rev (map key_new (k0 :: ks)) = key_new last :: rinit).
  { rewrite <- map_rev. destruct (rev (k0 :: ks)) as [|l r] eqn:E.
    - apply (f_equal (@length bytes)) in E. rewrite rev_length in E. discriminate.
    - exists l, (map key_new r). reflexivity. }
  destruct El as (last & rinit & ->). cbn [k_leaf key_new].
  rewrite ekp_loop_new. cbn [part_seg part_of seg_txt fst snd app]. rewrite app_nil_r. f_equal.
  induction ks as [|k tl IH]; [reflexivity|]. cbn [map concat segs_txt part_seg part_of seg_txt fst snd app].
  rewrite app_nil_r, IH. reflexivity.
Qed.

Lemma key_path_header_pto path R :
  path <> [] -> Forall key_ok path -> length path < LIMIT ->
  pto key_ (path_txt path) (x5d :: R) 0 (fun kp => map k_key kp = path).
Proof.
  intros Hne Hk Hlen. destruct path as [|k0 ks]; [contradiction|]. inversion Hk as [|? ? Hk0 Hks]; subst.
  rewrite path_txt_segs.
  eapply pto_weaken.
  - apply key_path_pto.
    + apply part_of_ok, Hk0.
    + clear - Hks. induction Hks; constructor; [apply part_of_ok; assumption|assumption].
    + apply kend_close.
    + reflexivity.
    + rewrite map_length. cbn [length] in Hlen. exact Hlen.
  - intros kp Hkp. rewrite Hkp. cbn [map part_of fst]. f_equal. rewrite map_map. cbn [part_of fst]. apply map_id.
Qed.

Definition hdr_inner (is_array : bool) :=
  pair_ (with_span (delimited (if is_array then pvoid (lit ARRAY_TABLE_OPEN) else pvoid (byte_ STD_TABLE_OPEN))
                              (cut_err key_)
                              (context (cut_err (if is_array then pvoid (lit ARRAY_TABLE_CLOSE) else pvoid (byte_ STD_TABLE_CLOSE))))))
        (context (cut_err line_trailing)).

Lemma header_eq is_array st : header is_array st
  = try_map (fun '((h, sp0), t) => lift_state (on_header is_array st h t sp0)) (hdr_inner is_array).
Proof. unfold header, hdr_inner. destruct is_array; reflexivity. Qed.

Lemma pto_lit l R d : pto (lit l) l R d (fun _ => True).
Proof. intro p. exists l, (p + N.of_nat (length l))%N. split; [apply lit_yes|exact I]. Qed.

Lemma hdr_inner_pto ftext arr path R :
  path <> [] -> Forall key_ok path -> length path < LIMIT ->
  pto (hdr_inner arr) (line_txt ftext (LHeader arr path)) R 0 (fun x => map k_key (fst (fst x)) = path).
Proof.
  intros Hne Hk Hlen. unfold hdr_inner, pair_.
  set (OPEN := if arr then [x5b; x5b] else [x5b]). set (CLOSE := if arr then [x5d; x5d] else [x5d]).
  assert (Et : line_txt ftext (LHeader arr path) = (OPEN ++ path_txt path ++ CLOSE) ++ [x0a]).
  { unfold OPEN, CLOSE. destruct arr; cbn [line_txt]; rewrite <- !app_assoc; reflexivity. }
  rewrite Et.
  apply pto_bind with (Q1 := fun x => map k_key (fst x) = path).
  - eapply pto_weaken; [apply pto_with_span with (Q0 := fun kp => map k_key kp = path)|intros x Hx; exact Hx].
    unfold delimited.
    apply pto_bind with (Q1 := fun _ => True).
    { unfold OPEN. destruct arr; apply pto_pmap; [apply (pto_lit [x5b; x5b])|apply pto_byte]. }
    intros _ _.
    apply pto_bind with (Q1 := fun kp => map k_key kp = path).
    { apply pto_cut_err.
      assert (EC : exists R', (CLOSE ++ [x0a] ++ R) = x5d :: R') by (unfold CLOSE; destruct arr; eexists; reflexivity).
      destruct EC as (R' & EC). rewrite EC. exact (key_path_header_pto path R' Hne Hk Hlen). }
    intros kp Hkp.
    apply pto_bind_ret with (Q1 := fun _ => True); [|intros _ _; exact Hkp].
    apply pto_context, pto_cut_err. unfold CLOSE. destruct arr; apply pto_pmap; [apply (pto_lit [x5d; x5d])|apply pto_byte].
  - intros [h sp0] Hh. cbn [fst] in Hh.
    apply pto_bind_ret with (Q1 := fun _ => True); [|intros t _; exact Hh].
    apply pto_context, pto_cut_err, line_trailing_nl.
Qed.
