(* Proofs/PrintBackDDisplay.v — C03, class (d): Display of a tree whose sections may hold tables made by
   dotted keys: the concatenation of the texts of its visible tables in the order of their positions. *)
From TV Require Import Base.Prelude Base.Utf8 Base.Winnow Gen.Consts.
From TV Require Import Model.Datetime Model.Numbers Model.Tree Model.Parse Model.Document Model.Write Model.Encode.
From TV Require Import Proofs.SpansDefs Proofs.PrintBackBase Proofs.PrintBackValue Proofs.PrintBackDoc Proofs.PrintBackSort Proofs.PrintBackEnts
                       Proofs.PrintBackDisplay Proofs.PrintBackDVals.
Require Import Lia ZifyBool ZifyN ZifyNat Sorting.Sorted Sorting.Permutation.

Definition drvis (e : entry) : bool := match epath e with [] => true | _ => dvis e end.

Lemma assign_filter_d : forall l last, Forall (fun e => dvis e = true -> t_position (etbl e) <> None) l ->
  filter (fun x => dvis (snd x)) (assign_positions last l) = map (fun e => (epos e, e)) (filter dvis l).
Proof.
  induction l as [|[[t p] a] l IH]; intros last H; [reflexivity|]. inversion H as [|? ? He Hl]; subst.
  cbn [assign_positions filter snd]. destruct (dvis (t, p, a)) eqn:V.
  - cbn [map]. rewrite (IH _ Hl). f_equal. specialize (He eq_refl). unfold epos, etbl in *. cbn [fst] in *.
    destruct (t_position t); [reflexivity|congruence].
  - apply IH, Hl.
Qed.

Theorem display_dsections Pv s r tr :
  dsh_tbl Pv r = true -> t_dotted r = false -> t_decor r = decor_default -> t_position r = None ->
  Forall (fun e => dvis e = true -> t_position (etbl e) <> None /\ decor_some (t_decor (etbl e))) (sub_ents (t_items r) []) ->
  display_document (ttbl s r) tr
  = concat (map snd (stable_sort (map (fun e => (epos e, detxt s e)) ((r, [], false) :: filter dvis (sub_ents (t_items r) [])))))
    ++ raw_encode tr [].
Proof.
  intros Hs Hnd Hd Hp Hw. set (rest := sub_ents (t_items r) []) in *. pose proof (sub_ents_dsh Pv r Hs) as Hrest. fold rest in Hrest.
  unfold display_document. rewrite (nested_tables_ents _ _ _ _ (Nat.lt_succ_diag_r _)), ents_ttbl_root, ents_eq, Hnd. fold rest. cbn [app].
  rewrite assign_positions_map. cbn [assign_positions]. rewrite Hp.
  set (root := (r, @nil key, false)). set (L0 := (0%N, root) :: assign_positions 0 rest).
  rewrite <- stable_sort_map.
  assert (Hdec : decor_prefix (t_decor (ttbl s r)) (fst DEFAULT_ROOT_DECOR) = [] /\ decor_suffix (t_decor (ttbl s r)) (snd DEFAULT_ROOT_DECOR) = []).
  { rewrite ttbl_fields. cbn [t_decor]. rewrite Hd. split; reflexivity. }
  destruct Hdec as [-> ->]. cbn [app]. f_equal.
  assert (HL0 : forall q e, In (q, e) (stable_sort L0) -> e = root \/ In e rest).
  { intros q e H. apply (Permutation_in _ (stable_sort_perm L0)) in H. destruct H as [H | H]; [injection H as _ <-; left; reflexivity|].
    right. eapply assign_In, H. }
  rewrite (visit_tables_filter (tent s) (fun x => drvis (snd x))).
  2:{ intros q e b0 Hin Hv. cbn [snd] in Hv. destruct (HL0 q e Hin) as [-> | He]; [discriminate Hv|].
      rewrite Forall_forall in Hrest. destruct (Hrest e He) as [H1 H2]. destruct e as [[t p] a]. unfold edsh, epath in *. cbn [fst snd] in *.
      cbn [tent]. apply (dvisit_invisible Pv); [exact H1|exact H2|]. unfold drvis, epath in Hv. cbn [fst snd] in Hv. destruct p; [congruence|exact Hv]. }
  rewrite stable_sort_filter.
  assert (EL1 : filter (fun x : N * entry => drvis (snd x)) L0 = (0%N, root) :: map (fun e => (epos e, e)) (filter dvis rest)).
  { unfold L0. cbn [filter snd]. change (drvis root) with true. cbv iota. f_equal.
    rewrite <- (assign_filter_d rest 0%N).
    - apply filter_ext_in. intros [q e] Hin. cbn [snd]. apply assign_In in Hin. rewrite Forall_forall in Hrest. destruct (Hrest e Hin) as [_ H2].
      unfold drvis. destruct (epath e); [congruence|reflexivity].
    - eapply Forall_impl; [|exact Hw]. intros e He Hv. apply (He Hv). }
  rewrite EL1. set (L1 := (0%N, root) :: map (fun e => (epos e, e)) (filter dvis rest)).
  assert (HL1 : forall q e, In (q, e) (stable_sort L1) -> e = root \/ (In e rest /\ dvis e = true)).
  { intros q e H. apply (Permutation_in _ (stable_sort_perm L1)) in H. destruct H as [H | H]; [injection H as _ <-; left; reflexivity|].
    right. apply in_map_iff in H as (e0 & E0 & H). injection E0 as _ ->. apply filter_In in H. exact H. }
  rewrite (visit_tables_concat (tent s) (detxt s)).
  2:{ intros q e b0 Hin. destruct (HL1 q e Hin) as [-> | [He Hv]].
      - cbn [root tent]. apply (dvisit_visible Pv s r [] false b0 Hs). left. reflexivity.
      - rewrite Forall_forall in Hrest, Hw. destruct (Hrest e He) as [H1 H2]. destruct (Hw e He Hv) as [_ H4]. destruct e as [[t p] a].
        unfold edsh, epath, etbl in *. cbn [fst snd] in *. cbn [tent]. apply (dvisit_visible Pv); [exact H1|]. right. split; assumption. }
  transitivity (concat (map snd (map (on_snd (detxt s)) (stable_sort L1)))); [rewrite map_map; reflexivity|].
  rewrite stable_sort_map. do 3 f_equal. unfold L1. cbn [map]. f_equal.
  - unfold on_snd, epos, etbl, root. cbn [fst snd]. rewrite Hp. reflexivity.
  - rewrite map_map. reflexivity.
Qed.
