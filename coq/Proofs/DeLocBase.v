(* Proofs/DeLocBase.v — small facts about the error plumbing of Model/DeLoc.v and a generic way to
   push a property of errors through the whole deserializer (`EP`-closure). *)
From TV Require Import Base.Prelude Base.Utf8 Model.Datetime Model.DatetimeStd Model.SerNum Spec.SerdeData Model.De Model.SerdeSpanned.
From TV Require Import Model.DeLoc.

(* r fails only with errors satisfying P *)
Definition errs {A} (P : lerr -> Prop) (r : lres A) : Prop :=
  match r with LOk _ => True | LErr e => P e end.

Lemma errs_ok {A} P (a : A) : errs P (LOk a).
Proof. exact I. Qed.

Lemma errs_lbind {A B} P (r : lres A) (f : A -> lres B) :
  errs P r -> (forall a, r = LOk a -> errs P (f a)) -> errs P (lbind r f).
Proof. destruct r as [a|e]; cbn; intros H1 H2; [apply H2; reflexivity|exact H1]. Qed.

Lemma errs_lmap {A B} P (r : lres A) (f : A -> B) : errs P r -> errs P (lmap f r).
Proof. destruct r; cbn; auto. Qed.

Lemma errs_map_err {A} (P Q : lerr -> Prop) (g : lerr -> lerr) (r : lres A) :
  errs P r -> (forall e, P e -> Q (g e)) -> errs Q (map_err g r).
Proof. destruct r as [a|e]; cbn; auto. Qed.

Lemma errs_impl {A} (P Q : lerr -> Prop) (r : lres A) : errs P r -> (forall e, P e -> Q e) -> errs Q r.
Proof. destruct r; cbn; auto. Qed.

(* an error as a visitor / the crate creates it: nothing added yet *)
Definition fresh (e : lerr) : Prop := e_keys e = [] /\ e_at e = [] /\ e_onkey e = false.
Definition fresh_nospan (e : lerr) : Prop := fresh e /\ e_span e = None.

Lemma fresh_raise {A} k : errs fresh_nospan (@raise A k).
Proof. repeat split. Qed.
Lemma fresh_raise_at {A} k sp : errs fresh (@raise_at A k sp).
Proof. repeat split. Qed.

Lemma fresh_de_char s : errs fresh_nospan (de_char_l s).
Proof. unfold de_char_l. destruct (de_char s); [exact I|apply (@fresh_raise sval)]. Qed.

Lemma fresh_de_dt s : errs fresh_nospan (de_dt_str_l s).
Proof. unfold de_dt_str_l. destruct (std_from_str s); [exact I|apply (@fresh_raise datetime)]. Qed.

(* find_name: either the continuation on the first entry of that name, or the default *)
Lemma find_name_cases {A R} (f : nat -> A -> R) (d : R) k (l : list (bytes * A)) : forall i,
  (exists j a, nth_error l j = Some (k, a) /\ find_name f d k l i = f (i + j) a) \/ find_name f d k l i = d.
Proof.
  induction l as [|[n a] l IH]; intro i; [right; reflexivity|]. cbn [find_name].
  destruct (bytes_eqb n k) eqn:E.
  - apply bytes_eqb_eq in E. subst. left. exists 0, a. rewrite Nat.add_0_r. split; reflexivity.
  - change ((fix go (l0 : list (bytes * A)) (i0 : nat) {struct l0} : R :=
               match l0 with [] => d | (n0, a0) :: l' => if bytes_eqb n0 k then f i0 a0 else go l' (S i0) end) l (S i))
      with (find_name f d k l (S i)).
    destruct (IH (S i)) as [(j & a' & Hn & Hf)|Hd].
    + left. exists (S j), a'. split; [exact Hn|]. rewrite Hf. f_equal. lia.
    + right. exact Hd.
Qed.

Lemma find_name_errs {A B} (P : lerr -> Prop) (f : nat -> A -> lres B) d k l i :
  errs P d -> (forall j a, In (k, a) l -> errs P (f j a)) -> errs P (find_name f d k l i).
Proof.
  intros Hd Hf. destruct (find_name_cases f d k l i) as [(j & a & Hn & E)|E]; rewrite E; [|exact Hd].
  apply Hf. eapply nth_error_In. exact Hn.
Qed.

Lemma fresh_visit_scalar t s : errs fresh_nospan (visit_scalar t s).
Proof.
  unfold visit_scalar. destruct s as [sp x|sp xs|sp es]; try apply (@fresh_raise sval).
  destruct t; destruct x; try destruct w;
    try exact I; try apply (@fresh_raise sval); try apply fresh_de_char;
    match goal with |- context [de_int ?w ?z] => destruct (de_int w z) end;
    try exact I; apply (@fresh_raise sval).
Qed.

Lemma fresh_de_key t k : errs fresh_nospan (de_key_l t k).
Proof.
  induction t; cbn [de_key_l]; try apply (@fresh_raise sval); try exact I.
  - apply fresh_de_char.
  - destruct (private_name name); apply (@fresh_raise sval).
  - apply errs_lmap. exact IHt.
  - apply find_name_errs; [apply (@fresh_raise sval)|]. intros j a _. destruct a; try exact I; apply (@fresh_raise sval).
Qed.

(* children of a table / an array, by position *)
Lemma nth_error_app_skip {A} (pre l : list A) j : nth_error (pre ++ l) (length pre + j) = nth_error l j.
Proof. induction pre; cbn; auto. Qed.
