(* Proofs/BuiltRTTop.v — C06: the value-level theorem (Display for Value / Array / InlineTable, then
   Value::from_str), with the leaves discharged, and the closure of the constructors (`eval_value`)
   inside `BuiltValue`. *)
From TV Require Import Base.Prelude Base.Utf8 Base.Winnow Gen.Consts.
From TV Require Import Model.Trivia Model.Strings Model.Datetime Model.DatetimeStd Spec.DatetimeSpec Model.Numbers Model.Tree Model.Parse Model.Document.
From TV Require Import Model.Write Model.Encode Model.Build.
From TV Require Import Proofs.Eoi Proofs.StringsRTDefs Proofs.StringsRTBase Proofs.StringsRTTop.
From TV Require Import Proofs.BuiltRTBase Proofs.BuiltRTEncode Proofs.BuiltRTParse Proofs.BuiltRTKey Proofs.BuiltRTValue Proofs.BuiltRTLeaf Proofs.BuiltRTDatetime Proofs.BuiltRTWF.
Require Import Lia ZifyBool ZifyN ZifyNat.

(* ---- the admissible leaves -------------------------------------------------------------------------------- *)
Definition scalar_ok (s : scalar) : Prop :=
  match s with
  | SString x => utf8_valid_b x = true          (* a Rust &str / String *)
  | SInt z => in_i64 z = true                   (* an i64 *)
  | SFloat f => float_leaf f                    (* nan / inf of either sign, or the decimal m * 10^e (e < 0) its text denotes, below the overflow threshold *)
  | SBool _ => True
  | SDatetime d => in_range d = true            (* one of the four TOML shapes with RFC 3339 field ranges *)
  end.

Lemma scalar_leaf s : scalar_ok s -> leaf_ok float_text s.
Proof.
  destruct s as [x|z|f|b|d]; cbn [scalar_ok]; intro H.
  - apply leaf_string, H.
  - apply leaf_int, H.
  - apply leaf_float, H.
  - apply leaf_bool.
  - apply leaf_datetime, H.
Qed.

Lemma BuiltValue_mono (PS PS' : scalar -> Prop) (PK PK' : bytes -> Prop) :
  (forall s, PS s -> PS' s) -> (forall k, PK k -> PK' k) ->
  forall v, BuiltValue PS PK v -> BuiltValue PS' PK' v.
Proof.
  intros HS HK. apply BuiltValue_sind.
  - intros s d Hs Hd. constructor; auto.
  - intros es d Hd _ IH. constructor; assumption.
  - intros es d Hd _ IH. constructor; assumption.
  - intros l d Hd Hnd Hk _ IH. constructor; try assumption.
    rewrite Forall_forall in *. auto.
Qed.

(* ---- the text is longer than the value is deep (fuel of `value`) ---------------------------------------------- *)
Lemma wrap_len d dflt t : length t <= length (wrap d dflt t).
Proof. unfold wrap. rewrite !app_length. lia. Qed.

Lemma arr_txt_len l x : In x l -> length (snd x) <= length (arr_txt l).
Proof.
  destruct l as [|[d0 t0] tl]; [contradiction|]. cbn [arr_txt]. rewrite app_length. intros [<- | Hin].
  - cbn [snd]. pose proof (wrap_len d0 DEFAULT_LEADING_VALUE_DECOR t0). lia.
  - assert (G : length (snd x) <= length (concat (map (fun dt => x2c :: wrap (fst dt) DEFAULT_VALUE_DECOR (snd dt)) tl))).
    { clear - Hin. induction tl as [|y tl IH]; [contradiction|]. cbn [map concat]. rewrite app_length. cbn [length].
      destruct Hin as [E | Hin].
      { subst. match goal with |- context [wrap (fst ?z) _ _] => pose proof (wrap_len (fst z) DEFAULT_VALUE_DECOR (snd z)) end. unfold bytes in *. lia. }
      specialize (IH Hin). lia. }
    lia.
Qed.

Lemma inl_txt_len l x : In x l -> length (snd (snd x)) <= length (inl_txt l).
Proof.
  induction l as [|[k [d t]] l IH]; [contradiction|]. intro Hin. destruct l as [|y l'].
  - destruct Hin as [<- | []]. rewrite inl_txt_one. cbn [snd]. rewrite app_length. cbn [length].
    pose proof (wrap_len d DEFAULT_TRAILING_VALUE_DECOR t). (unfold bytes in *; lia).
  - rewrite inl_txt_cons. rewrite app_length. cbn [length]. rewrite app_length. cbn [length].
    destruct Hin as [<- | Hin].
    + cbn [snd]. pose proof (wrap_len d DEFAULT_VALUE_DECOR t). (unfold bytes in *; lia).
    + specialize (IH Hin). (unfold bytes in *; lia).
Qed.


Lemma fold_max_le n es : (forall e, In e es -> value_depth e <= n) ->
  fold_right (fun it acc => match it with IValue e => Nat.max (value_depth e) acc | _ => acc end) 0 (map IValue es) <= n.
Proof.
  induction es as [|e es IH]; intro H; [cbn; lia|]. cbn [map fold_right].
  pose proof (H e (or_introl eq_refl)). specialize (IH (fun e' He' => H e' (or_intror He'))). lia.
Qed.
Lemma fold_max_le_inl n l : (forall kv, In kv l -> value_depth (snd kv) <= n) ->
  fold_right (fun kv acc => match kv with (_, IValue e) => Nat.max (value_depth e) acc | _ => acc end) 0 (mk_inline_items l) <= n.
Proof.
  unfold mk_inline_items. induction l as [|kv l IH]; intro H; [cbn; lia|]. cbn [map fold_right fst snd].
  pose proof (H kv (or_introl eq_refl)). specialize (IH (fun kv' He' => H kv' (or_intror He'))). lia.
Qed.

Section Len.
  Variable ftext : fval -> bytes.
  Variable PS : scalar -> Prop.
  Variable PK : bytes -> Prop.

  Lemma depth_le_txt : forall v, BuiltValue PS PK v -> value_depth v <= length (txt ftext v).
  Proof.
    apply BuiltValue_sind.
    - intros. cbn. lia.
    - intros es d _ _ IH. rewrite txt_array. cbn [value_depth length]. rewrite app_length. cbn [length].
      set (L := map (fun e => (value_decor e, txt ftext e)) es).
      pose proof (fold_max_le (length (arr_txt L)) es) as G.
      assert (Hall : forall e, In e es -> value_depth e <= length (arr_txt L)).
      { intros e He. rewrite Forall_forall in IH. specialize (IH e He).
        pose proof (arr_txt_len L (value_decor e, txt ftext e) (in_map _ _ _ He)) as H. cbn [snd] in H. unfold bytes in *. lia. }
      specialize (G Hall). unfold bytes in *. lia.
    - intros es d _ _ IH. rewrite txt_array_ml. cbn [value_depth length]. rewrite !app_length. cbn [length].
      set (L := map (fun e => (ml_decor e, txt ftext e)) es).
      assert (Hall : forall e, In e es -> value_depth e <= length (arr_txt L)).
      { intros e He. rewrite Forall_forall in IH. specialize (IH e He).
        pose proof (arr_txt_len L (ml_decor e, txt ftext e) (in_map _ _ _ He)) as H. cbn [snd] in H. unfold bytes in *. lia. }
      assert (G : forall B, (forall e, In e es -> value_depth e <= B) ->
                            fold_right (fun it acc => match it with IValue e => Nat.max (value_depth e) acc | _ => acc end) 0
                                       (map (fun e => IValue (ml_elem e)) es) <= B).
      { clear. intros B HB. induction es as [|e es IHe]; [cbn; lia|]. cbn [map fold_right]. rewrite value_depth_ml_elem.
        pose proof (HB e (or_introl eq_refl)). specialize (IHe (fun e' He' => HB e' (or_intror He'))). lia. }
      specialize (G _ Hall). unfold bytes in *. lia.
    - intros l d _ _ _ _ IH. rewrite txt_inline. cbn [value_depth length]. rewrite app_length. cbn [length].
      set (L := map (fun kv => (key_new (fst kv), (value_decor (snd kv), txt ftext (snd kv)))) l).
      pose proof (fold_max_le_inl (length (inl_txt L)) l) as G.
      assert (Hall : forall kv, In kv l -> value_depth (snd kv) <= length (inl_txt L)).
      { intros kv Hkv. rewrite Forall_forall in IH. specialize (IH (snd kv) (in_map _ _ _ Hkv)).
        pose proof (inl_txt_len L _ (in_map (fun kv => (key_new (fst kv), (value_decor (snd kv), txt ftext (snd kv)))) _ _ Hkv)) as H.
        cbn [snd] in H. unfold bytes in *. lia. }
      specialize (G Hall). unfold bytes in *. lia.
  Qed.
End Len.

(* ---- C06_value ---------------------------------------------------------------------------------------------- *)
(* the decor a lone value is printed with is its own; a value that was pushed into an array carries
   the blank the array gave it (Array::push: " " before every element but the first), and
   Value::from_str does not accept a leading blank: the lone-value statement is about values whose own
   prefix prints as nothing (every value fresh from a constructor) *)
Definition top_plain (v : value) : Prop := decor_prefix (value_decor v) [] = [].

Theorem built_value_roundtrip v :
  BuiltValue scalar_ok key_ok v -> value_depth v < LIMIT -> top_plain v ->
  exists v', parse_value_raw (display_value (render_value float_text v)) = POk v' /\ abs_value v' = abs_value v.
Proof.
  intros Hb Hd Hp.
  pose proof (BuiltValue_mono _ (leaf_ok float_text) _ key_ok scalar_leaf (fun k H => H) v Hb) as Hb'.
  rewrite (display_value_txt float_text _ _ v Hb).
  unfold etxt, wrap. cbn [fst snd]. unfold top_plain in Hp. rewrite Hp.
  assert (Hs : decor_suffix (value_decor v) [] = []).
  { destruct (built_decor _ _ _ Hb) as [_ [H | H]]; unfold decor_suffix; rewrite H; reflexivity. }
  rewrite Hs, app_nil_r. cbn [app].
  destruct (value_txt_rt float_text v Hb') as [_ Hrt].
  pose proof (depth_le_txt float_text _ _ v Hb) as Hlen.
  destruct (Hrt (S (length (txt float_text v ++ []))) [] 0 I) with (p := 0%N) as (v' & p' & E & Ha).
  { rewrite app_nil_r. lia. }
  { cbn [Nat.add]. exact Hd. }
  exists v'. split; [|exact Ha].
  unfold parse_value_raw.
  assert (Ev : value_ (new_input (txt float_text v)) = Ok v' (mkIn [] p' 0)).
  { unfold value_, new_input. cbn [rest]. rewrite app_nil_r in E. exact E. }
  rewrite (parse_all_eoi_ok _ _ _ _ Ev eq_refl). reflexivity.
Qed.

(* ... in particular for everything the value constructors assemble *)
Theorem constructed_value_roundtrip c :
  cval_ok scalar_ok key_ok c -> value_depth (eval_value c) < LIMIT ->
  exists v', parse_value_raw (display_value (render_value float_text (eval_value c))) = POk v'
             /\ abs_value v' = abs_value (eval_value c).
Proof.
  intros Hc Hd. destruct (eval_value_built scalar_ok key_ok c Hc) as [Hb Hdec].
  apply built_value_roundtrip; [exact Hb|exact Hd|]. unfold top_plain. rewrite Hdec. reflexivity.
Qed.
