(* Proofs/SpansDespan.v — C14: after `despan` (ImDocument::into_mut, Model/Encode.v) no spanned raw
   string and no value / table / array-of-tables span remains anywhere in the tree. *)
From TV Require Import Base.Prelude Base.Utf8 Base.Winnow.
From TV Require Import Model.Datetime Model.DatetimeStd Model.Numbers Model.Tree Model.Parse Model.Document Model.Write Model.Encode.
From TV Require Import Proofs.SpansDefs Proofs.SpansBase.

Section Despan.
  Variable src : bytes.

  Lemma raw_despan_nospan r r' : raw_despan src r = Some r' -> raw_nospan r' = true.
  Proof.
    destruct r as [|t|a b]; cbn [raw_despan]; intro H.
    - inversion H; reflexivity.
    - inversion H; reflexivity.
    - destruct (str_get src a b) as [t|]; [|discriminate]. inversion H. unfold raw_of_bytes. destruct t; reflexivity.
  Qed.
  Lemma oraw_despan_nospan o o' : oraw_despan src o = Some o' -> oraw_nospan o' = true.
  Proof.
    destruct o as [r|]; cbn [oraw_despan]; intro H; [|inversion H; reflexivity].
    destruct (raw_despan src r) as [r'|] eqn:R; [|discriminate]. inversion H; subst. cbn [oraw_nospan].
    eapply raw_despan_nospan, R.
  Qed.
  Lemma decor_despan_nospan d d' : decor_despan src d = Some d' -> decor_nospan d' = true.
  Proof.
    unfold decor_despan. destruct (oraw_despan src (d_prefix d)) as [p|] eqn:P; [|discriminate].
    destruct (oraw_despan src (d_suffix d)) as [s|] eqn:S; [|discriminate]. intro H; inversion H; subst.
    unfold decor_nospan; cbn [d_prefix d_suffix]. rewrite (oraw_despan_nospan _ _ P), (oraw_despan_nospan _ _ S). reflexivity.
  Qed.
  Lemma key_despan_nospan k k' : key_despan src k = Some k' -> key_nospan k' = true.
  Proof.
    unfold key_despan. destruct (decor_despan src (k_leaf k)) as [l|] eqn:L; [|discriminate].
    destruct (decor_despan src (k_dotted k)) as [d|] eqn:D; [|discriminate].
    destruct (oraw_despan src (k_repr k)) as [r|] eqn:R; [|discriminate]. intro H; inversion H; subst.
    unfold key_nospan; cbn [k_repr k_leaf k_dotted].
    rewrite (oraw_despan_nospan _ _ R), (decor_despan_nospan _ _ L), (decor_despan_nospan _ _ D). reflexivity.
  Qed.

  Lemma omap_list_forallb {A B} (f : A -> option B) (g : B -> bool) : forall l l',
    Forall (fun a => forall b, f a = Some b -> g b = true) l ->
    omap_list f l = Some l' -> forallb g l' = true.
  Proof.
    induction l as [|a l IH]; intros l' Hf H; cbn [omap_list] in H.
    - inversion H; reflexivity.
    - inversion Hf as [|? ? Ha Hl]; subst. destruct (f a) as [b|] eqn:Fa; [|discriminate].
      change ((fix go (l : list A) : option (list B) :=
                 match l with [] => Some [] | a :: tl => match f a, go tl with Some b, Some r => Some (b :: r) | _, _ => None end end) l)
        with (omap_list f l) in H.
      destruct (omap_list f l) as [r|] eqn:R; [|discriminate]. inversion H; subst. cbn [forallb].
      rewrite (Ha _ eq_refl), (IH _ Hl eq_refl). reflexivity.
  Qed.

  Definition kv_despan (kv : key * item) : option (key * item) :=
    match kv with (k0, i0) =>
      match key_despan src k0, item_despan src i0 with Some k, Some i => Some (k, i) | _, _ => None end end.

  Lemma kvs_despan_nospan (items : list (key * item)) items' :
    Forall (fun kv => forall i', item_despan src (snd kv) = Some i' -> item_nospan i' = true) items ->
    omap_list kv_despan items = Some items' ->
    forallb (fun kv => key_nospan (fst kv) && item_nospan (snd kv)) items' = true.
  Proof.
    intros IH H. eapply omap_list_forallb; [|exact H]. eapply Forall_impl; [|exact IH].
    intros [k0 i0] Hi [k i] E. cbn [kv_despan snd] in *.
    destruct (key_despan src k0) as [k1|] eqn:K; [|discriminate]. destruct (item_despan src i0) as [i1|] eqn:I0; [|discriminate].
    inversion E; subst. cbn [fst snd]. rewrite (key_despan_nospan _ _ K), (Hi _ eq_refl). reflexivity.
  Qed.

  Lemma value_despan_array vals tr c d sp :
    value_despan src (VArray vals tr c d sp) =
    match omap_list (item_despan src) vals, raw_despan src tr, decor_despan src d with
    | Some vals', Some tr', Some d' => Some (VArray vals' tr' c d' None) | _, _, _ => None end.
  Proof. reflexivity. Qed.
  Lemma value_despan_inline items pre im dt d sp :
    value_despan src (VInline items pre im dt d sp) =
    match omap_list kv_despan items, raw_despan src pre, decor_despan src d with
    | Some items', Some pre', Some d' => Some (VInline items' pre' im dt d' None) | _, _, _ => None end.
  Proof. reflexivity. Qed.
  Lemma item_despan_aot ts sp :
    item_despan src (IAot ts sp) = optmap (fun ts' => IAot ts' None) (omap_list (tbl_despan src) ts).
  Proof. reflexivity. Qed.
  Lemma tbl_despan_eq items d im dt p sp :
    tbl_despan src (Tbl items d im dt p sp) =
    match omap_list kv_despan items, decor_despan src d with
    | Some items', Some d' => Some (Tbl items' d' im dt p None) | _, _ => None end.
  Proof. reflexivity. Qed.

  Lemma tree_despan_nospan :
    (forall v v', value_despan src v = Some v' -> value_nospan v' = true)
    /\ (forall it it', item_despan src it = Some it' -> item_nospan it' = true)
    /\ (forall t t', tbl_despan src t = Some t' -> tbl_nospan t' = true).
  Proof.
    apply tree_ind3.
    - intros s r d v' H. cbn [value_despan] in H. destruct (oraw_despan src r) as [r'|] eqn:R; [|discriminate].
      destruct (decor_despan src d) as [d'|] eqn:D; [|discriminate]. inversion H; subst. cbn [value_nospan].
      rewrite (oraw_despan_nospan _ _ R), (decor_despan_nospan _ _ D). reflexivity.
    - intros vals tr c d sp IH v' H. rewrite value_despan_array in H.
      destruct (omap_list (item_despan src) vals) as [vals'|] eqn:V; [|discriminate].
      destruct (raw_despan src tr) as [tr'|] eqn:T; [|discriminate].
      destruct (decor_despan src d) as [d'|] eqn:D; [|discriminate]. inversion H; subst. cbn [value_nospan].
      rewrite (omap_list_forallb _ _ _ _ IH V), (raw_despan_nospan _ _ T), (decor_despan_nospan _ _ D). reflexivity.
    - intros items pre im dt d sp IH v' H. rewrite value_despan_inline in H.
      destruct (omap_list kv_despan items) as [items'|] eqn:V; [|discriminate].
      destruct (raw_despan src pre) as [pre'|] eqn:T; [|discriminate].
      destruct (decor_despan src d) as [d'|] eqn:D; [|discriminate]. inversion H; subst. cbn [value_nospan].
      rewrite (kvs_despan_nospan _ _ IH V), (raw_despan_nospan _ _ T), (decor_despan_nospan _ _ D). reflexivity.
    - intros it' H. inversion H; reflexivity.
    - intros v IH it' H. change (optmap IValue (value_despan src v) = Some it') in H.
      destruct (value_despan src v) as [v'|] eqn:V; [|discriminate].
      inversion H; subst. change (value_nospan v' = true). apply IH. reflexivity.
    - intros t IH it' H. change (optmap ITable (tbl_despan src t) = Some it') in H.
      destruct (tbl_despan src t) as [t'|] eqn:V; [|discriminate].
      inversion H; subst. change (tbl_nospan t' = true). apply IH. reflexivity.
    - intros ts sp IH it' H. rewrite item_despan_aot in H. destruct (omap_list (tbl_despan src) ts) as [ts'|] eqn:V; [|discriminate].
      inversion H; subst. cbn [item_nospan]. rewrite (omap_list_forallb _ _ _ _ IH V). reflexivity.
    - intros items d im dt p sp IH t' H. rewrite tbl_despan_eq in H.
      destruct (omap_list kv_despan items) as [items'|] eqn:V; [|discriminate].
      destruct (decor_despan src d) as [d'|] eqn:D; [|discriminate]. inversion H; subst. cbn [tbl_nospan].
      rewrite (kvs_despan_nospan _ _ IH V), (decor_despan_nospan _ _ D). reflexivity.
  Qed.
End Despan.

(* ---- a tree without spans has an empty span list ---------------------------------------------------------- *)
Lemma raw_nospan_spans r : raw_nospan r = true -> raw_spans r = [].
Proof. destruct r; [reflexivity|reflexivity|discriminate]. Qed.
Lemma oraw_nospan_spans o : oraw_nospan o = true -> oraw_spans o = [].
Proof. destruct o; [apply raw_nospan_spans|reflexivity]. Qed.
Lemma decor_nospan_spans d : decor_nospan d = true -> decor_spans d = [].
Proof.
  unfold decor_nospan, decor_spans. intro H. apply andb_true_iff in H as [H1 H2].
  rewrite (oraw_nospan_spans _ H1), (oraw_nospan_spans _ H2). reflexivity.
Qed.
Lemma key_nospan_spans k : key_nospan k = true -> key_spans k = [].
Proof.
  unfold key_nospan, key_spans. intro H. apply andb3 in H as (H1 & H2 & H3).
  rewrite (oraw_nospan_spans _ H1), (decor_nospan_spans _ H2), (decor_nospan_spans _ H3). reflexivity.
Qed.
Lemma ospan_none_spans o : ospan_none o = true -> ospan_spans o = [].
Proof. destruct o; [discriminate|reflexivity]. Qed.

Lemma flat_map_nil {A B} (g : A -> list B) (f : A -> bool) l :
  Forall (fun a => f a = true -> g a = []) l -> forallb f l = true -> flat_map g l = [].
Proof.
  induction 1 as [|a l Ha Hl IH]; [reflexivity|]. cbn [forallb flat_map]. intro H. apply andb_true_iff in H as [H1 H2].
  rewrite (Ha H1), (IH H2). reflexivity.
Qed.
Lemma kvs_nospan_spans (l : list (key * item)) :
  Forall (fun kv => item_nospan (snd kv) = true -> item_spans (snd kv) = []) l ->
  forallb (fun kv => key_nospan (fst kv) && item_nospan (snd kv)) l = true ->
  flat_map (fun kv => key_spans (fst kv) ++ item_spans (snd kv)) l = [].
Proof.
  intro IH. apply flat_map_nil. eapply Forall_impl; [|exact IH]. intros kv Hkv E.
  apply andb_true_iff in E as [E1 E2]. rewrite (key_nospan_spans _ E1), (Hkv E2). reflexivity.
Qed.

Lemma tree_nospan_spans :
  (forall v, value_nospan v = true -> value_spans v = [])
  /\ (forall it, item_nospan it = true -> item_spans it = [])
  /\ (forall t, tbl_nospan t = true -> tbl_spans t = []).
Proof.
  apply tree_ind3.
  - intros s r d H. cbn [value_nospan value_spans] in *. apply andb_true_iff in H as [H1 H2].
    rewrite (oraw_nospan_spans _ H1), (decor_nospan_spans _ H2). reflexivity.
  - intros vals tr c d sp IH H.
    change (forallb item_nospan vals && raw_nospan tr && decor_nospan d && ospan_none sp = true) in H.
    apply andb4 in H as (H1 & H2 & H3 & H4). cbn [value_spans].
    rewrite (ospan_none_spans _ H4), (decor_nospan_spans _ H3), (raw_nospan_spans _ H2), (flat_map_nil _ _ _ IH H1). reflexivity.
  - intros items pre im dt d sp IH H.
    change (forallb (fun kv => key_nospan (fst kv) && item_nospan (snd kv)) items && raw_nospan pre
            && decor_nospan d && ospan_none sp = true) in H.
    apply andb4 in H as (H1 & H2 & H3 & H4). cbn [value_spans].
    rewrite (ospan_none_spans _ H4), (decor_nospan_spans _ H3), (raw_nospan_spans _ H2), (kvs_nospan_spans _ IH H1). reflexivity.
  - reflexivity.
  - intros v IH H. exact (IH H).
  - intros t IH H. exact (IH H).
  - intros ts sp IH H. change (forallb tbl_nospan ts && ospan_none sp = true) in H. apply andb_true_iff in H as [H1 H2].
    cbn [item_spans]. rewrite (ospan_none_spans _ H2), (flat_map_nil _ _ _ IH H1). reflexivity.
  - intros items d im dt p sp IH H.
    change (forallb (fun kv => key_nospan (fst kv) && item_nospan (snd kv)) items && decor_nospan d && ospan_none sp = true) in H.
    apply andb3 in H as (H1 & H2 & H3). cbn [tbl_spans].
    rewrite (ospan_none_spans _ H3), (decor_nospan_spans _ H2), (kvs_nospan_spans _ IH H1). reflexivity.
Qed.

(* C14, despan: ImDocument::into_mut = despan of the root table and of the trailing text *)
Theorem despan_all s d r t :
  tbl_despan s (doc_root d) = Some r -> raw_despan s (doc_trailing d) = Some t ->
  tbl_nospan r = true /\ raw_nospan t = true /\ all_spans (mkDoc r t) = [].
Proof.
  intros Hr Ht. pose proof (proj2 (proj2 (tree_despan_nospan s)) _ _ Hr) as N1.
  pose proof (raw_despan_nospan s _ _ Ht) as N2. repeat split; auto.
  unfold all_spans; cbn [doc_root doc_trailing]. rewrite (proj2 (proj2 tree_nospan_spans) _ N1), (raw_nospan_spans _ N2). reflexivity.
Qed.
(* the same for a single value (Value::from_str despans the value it returns) *)
Theorem despan_value s v v' : value_despan s v = Some v' -> value_nospan v' = true /\ value_spans v' = [].
Proof.
  intro H. pose proof (proj1 (tree_despan_nospan s) _ _ H) as N. split; [exact N|]. apply (proj1 tree_nospan_spans), N.
Qed.
