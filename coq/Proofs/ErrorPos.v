(* Proofs/ErrorPos.v — lemmas behind Props/C15.v, part 1: UTF-8 character structure,
   winnow's char_span, translate_position against Spec/Position.v, totality of rendering. *)
From Coq Require Import List Bool Arith NArith ZArith Lia ZifyBool ZifyN.
From Coq.Strings Require Import Byte.
From TV Require Import Base.Prelude Base.Utf8 Base.Winnow Model.Error Spec.Position.
Import ListNotations.

(* ---------------------------------------------------------------------------------- *)
(* UTF-8: one character at a time                                                      *)
(* ---------------------------------------------------------------------------------- *)
Definition cont_bytes (t : bytes) : Prop := forallb (fun b => negb (is_boundary_byte b)) t = true.

Lemma utf8_valid_cons b0 s1 :
  utf8_valid_b (b0 :: s1) =
    let n := b2n b0 in
    if (n <=? 127)%N then utf8_valid_b s1
    else if inr 194 223 b0 then
      match s1 with b1 :: s2 => is_cont b1 && utf8_valid_b s2 | _ => false end
    else if inr 224 239 b0 then
      match s1 with
      | b1 :: b2 :: s3 =>
        (if (n =? 224)%N then inr 160 191 b1 else if (n =? 237)%N then inr 128 159 b1 else is_cont b1)
        && is_cont b2 && utf8_valid_b s3
      | _ => false end
    else if inr 240 244 b0 then
      match s1 with
      | b1 :: b2 :: b3 :: s4 =>
        (if (n =? 240)%N then inr 144 191 b1 else if (n =? 244)%N then inr 128 143 b1 else is_cont b1)
        && is_cont b2 && is_cont b3 && utf8_valid_b s4
      | _ => false end
    else false.
Proof. reflexivity. Qed.

Lemma ascii_boundary b : (b2n b <=? 127)%N = true -> is_boundary_byte b = true.
Proof. unfold is_boundary_byte. lia. Qed.
Lemma lead_boundary lo hi b : (192 <= lo)%N -> inr lo hi b = true -> is_boundary_byte b = true.
Proof. unfold is_boundary_byte, inr. lia. Qed.
Lemma cont_not_boundary b : is_cont b = true -> is_boundary_byte b = false.
Proof. unfold is_boundary_byte, is_cont. lia. Qed.
Lemma inr_not_boundary lo hi b : (128 <= lo)%N -> (hi <= 191)%N -> inr lo hi b = true -> is_boundary_byte b = false.
Proof. unfold is_boundary_byte, inr. lia. Qed.

Lemma second3_not_boundary n b1 :
  (if (n =? 224)%N then inr 160 191 b1 else if (n =? 237)%N then inr 128 159 b1 else is_cont b1) = true ->
  is_boundary_byte b1 = false.
Proof.
  destruct (n =? 224)%N; [apply inr_not_boundary; lia|].
  destruct (n =? 237)%N; [apply inr_not_boundary; lia|]. apply cont_not_boundary.
Qed.
Lemma second4_not_boundary n b1 :
  (if (n =? 240)%N then inr 144 191 b1 else if (n =? 244)%N then inr 128 143 b1 else is_cont b1) = true ->
  is_boundary_byte b1 = false.
Proof.
  destruct (n =? 240)%N; [apply inr_not_boundary; lia|].
  destruct (n =? 244)%N; [apply inr_not_boundary; lia|]. apply cont_not_boundary.
Qed.

(* a valid non-empty text starts with one whole character: a boundary byte followed by
   continuation bytes, and the rest is valid again; an ASCII byte is a character by itself *)
Lemma valid_step s :
  utf8_valid_b s = true -> s <> [] ->
  exists h t r, s = h :: t ++ r /\ is_boundary_byte h = true /\ cont_bytes t /\ utf8_valid_b r = true
    /\ ((b2n h <=? 127)%N = true -> t = [])
    /\ (forall r', utf8_valid_b r' = true -> utf8_valid_b (h :: t ++ r') = true).
Proof.
  destruct s as [|b0 s1]; [congruence|]. intros H _. rewrite utf8_valid_cons in H. cbv zeta in H.
  destruct (b2n b0 <=? 127)%N eqn:E0.
  { exists b0, [], s1. repeat split; auto using ascii_boundary.
    intros r' Hr. cbn [app]. rewrite utf8_valid_cons. cbv zeta. rewrite E0. exact Hr. }
  destruct (inr 194 223 b0) eqn:E1.
  { destruct s1 as [|b1 s2]; [discriminate|]. apply andb_true_iff in H as [Hc Hv].
    exists b0, [b1], s2. repeat split; auto.
    - eapply lead_boundary; [|exact E1]; lia.
    - unfold cont_bytes. cbn [forallb]. rewrite (cont_not_boundary _ Hc). reflexivity.
    - congruence.
    - intros r' Hr. cbn [app]. rewrite utf8_valid_cons. cbv zeta. rewrite E0, E1, Hc. exact Hr. }
  destruct (inr 224 239 b0) eqn:E2.
  { destruct s1 as [|b1 [|b2 s3]]; try discriminate.
    apply andb_true_iff in H as [H Hv]. apply andb_true_iff in H as [Hc1 Hc2].
    exists b0, [b1; b2], s3. repeat split; auto.
    - eapply lead_boundary; [|exact E2]; lia.
    - unfold cont_bytes. cbn [forallb].
      rewrite (second3_not_boundary _ _ Hc1), (cont_not_boundary _ Hc2). reflexivity.
    - congruence.
    - intros r' Hr. cbn [app]. rewrite utf8_valid_cons. cbv zeta. rewrite E0, E1, E2, Hc1, Hc2. exact Hr. }
  destruct (inr 240 244 b0) eqn:E3; [|discriminate].
  destruct s1 as [|b1 [|b2 [|b3 s4]]]; try discriminate.
  apply andb_true_iff in H as [H Hv]. apply andb_true_iff in H as [H Hc3]. apply andb_true_iff in H as [Hc1 Hc2].
  exists b0, [b1; b2; b3], s4. repeat split; auto.
  - eapply lead_boundary; [|exact E3]; lia.
  - unfold cont_bytes. cbn [forallb].
    rewrite (second4_not_boundary _ _ Hc1), (cont_not_boundary _ Hc2), (cont_not_boundary _ Hc3). reflexivity.
  - congruence.
  - intros r' Hr. cbn [app]. rewrite utf8_valid_cons. cbv zeta. rewrite E0, E1, E2, E3, Hc1, Hc2, Hc3. exact Hr.
Qed.

Lemma valid_head_boundary b s : utf8_valid_b (b :: s) = true -> is_boundary_byte b = true.
Proof.
  intro H. destruct (valid_step _ H) as (h & t & r & E & Hb & _); [discriminate|].
  injection E as -> _. exact Hb.
Qed.

(* "offset i is a character boundary of s" on nat offsets *)
Definition bnd (s : bytes) (i : nat) : Prop :=
  i = length s \/ exists b, nth_error s i = Some b /\ is_boundary_byte b = true.

Lemma bnd_of_b s i : char_boundary_b s (N.of_nat i) = true -> bnd s i.
Proof.
  unfold char_boundary_b, bnd. rewrite Nat2N.id.
  destruct (nth_error s i) as [b|] eqn:E; intro H.
  - right. eauto.
  - left. apply N.eqb_eq in H. lia.
Qed.

Lemma bnd_to_b s i : bnd s i -> char_boundary_b s (N.of_nat i) = true.
Proof.
  unfold char_boundary_b, bnd. rewrite Nat2N.id. intros [->|(b & E & Hb)].
  - assert (E : nth_error s (length s) = None) by (apply nth_error_None; lia).
    rewrite E. apply N.eqb_refl.
  - rewrite E. exact Hb.
Qed.

Lemma nth_S {A} (x : A) l n : nth_error (x :: l) (S n) = nth_error l n.
Proof. reflexivity. Qed.

Lemma cont_nth t k b : cont_bytes t -> nth_error t k = Some b -> is_boundary_byte b = false.
Proof.
  unfold cont_bytes. intros H E. apply nth_error_In in E.
  rewrite forallb_forall in H. apply H in E. destruct (is_boundary_byte b); [discriminate|reflexivity].
Qed.

(* cutting a valid text at a character boundary leaves two valid texts *)
Lemma valid_split_len n : forall s i, length s <= n ->
  utf8_valid_b s = true -> bnd s i -> i <= length s ->
  utf8_valid_b (firstn i s) = true /\ utf8_valid_b (skipn i s) = true.
Proof.
  induction n as [|n IH]; intros s i Hn Hv Hb Hi.
  - destruct s; [|cbn in Hn; lia]. destruct i; cbn; auto.
  - destruct i as [|i']; [cbn; auto|].
    destruct s as [|b0 s1] eqn:Es; [cbn in Hi; lia|]. rewrite <- Es in *.
    destruct (valid_step s Hv) as (h & t & r & E & Hh & Ht & Hr & _ & Hclo); [subst; discriminate|].
    assert (Hlen : length s = S (length t + length r)) by (rewrite E; cbn; rewrite app_length; lia).
    (* the cut cannot fall inside the first character *)
    assert (Hge : S (length t) <= S i').
    { destruct (le_lt_dec (S (length t)) (S i')) as [|Hlt]; [assumption|exfalso].
      destruct Hb as [Hb|(b & Hb & Hbb)]; [lia|].
      rewrite E in Hb. cbn [nth_error] in Hb.
      rewrite nth_error_app1 in Hb by lia.
      rewrite (cont_nth _ _ _ Ht Hb) in Hbb. discriminate. }
    set (j := S i' - S (length t)).
    assert (Ej : S i' = S (length t) + j) by (unfold j; lia).
    assert (Hbj : bnd r j).
    { destruct Hb as [Hb|(b & Hb & Hbb)]; [left; lia|right].
      exists b. split; [|exact Hbb]. rewrite E, Ej in Hb. cbn [nth_error plus] in Hb.
      rewrite nth_error_app2 in Hb by lia. replace (length t + j - length t) with j in Hb by lia. exact Hb. }
    destruct (IH r j) as [H1 H2]; try assumption; try lia.
    assert (F : firstn (S i') s = h :: t ++ firstn j r).
    { rewrite E, Ej. cbn [plus firstn]. f_equal. rewrite firstn_app.
      rewrite firstn_all2 by lia. replace (length t + j - length t) with j by lia. reflexivity. }
    assert (K : skipn (S i') s = skipn j r).
    { rewrite E, Ej. cbn [plus skipn]. rewrite skipn_app.
      rewrite skipn_all2 by lia. replace (length t + j - length t) with j by lia. reflexivity. }
    rewrite F, K. split; [apply Hclo; exact H1|exact H2].
Qed.

Lemma valid_split s i :
  utf8_valid_b s = true -> bnd s i -> i <= length s ->
  utf8_valid_b (firstn i s) = true /\ utf8_valid_b (skipn i s) = true.
Proof. apply (valid_split_len (length s)); lia. Qed.

(* the offset right after an ASCII byte of a valid text is a character boundary *)
Lemma after_ascii_bnd_len n : forall s j b, length s <= n ->
  utf8_valid_b s = true -> nth_error s j = Some b -> (b2n b <=? 127)%N = true -> bnd s (S j).
Proof.
  induction n as [|n IH]; intros s j b Hn Hv Hj Hb.
  - destruct s; [destruct j; discriminate|cbn in Hn; lia].
  - assert (Hne : s <> []) by (intro; subst; destruct j; discriminate).
    destruct (valid_step s Hv Hne) as (h & t & r & E & Hh & Ht & Hr & Hasc & _).
    assert (Hlen : length s = S (length t + length r)) by (rewrite E; cbn; rewrite app_length; lia).
    destruct j as [|j'].
    + rewrite E in Hj. injection Hj as ->. rewrite (Hasc Hb) in *. cbn [app] in *.
      destruct r as [|b1 r'].
      * left. rewrite E. reflexivity.
      * right. exists b1. rewrite E. split; [reflexivity|]. eapply valid_head_boundary; exact Hr.
    + rewrite E in Hj. cbn [nth_error] in Hj.
      destruct (le_lt_dec (length t) j') as [Hge|Hlt].
      * rewrite nth_error_app2 in Hj by lia.
        assert (Hr' : bnd r (S (j' - length t))) by (eapply IH; eauto; lia).
        destruct Hr' as [Hr'|(b1 & Hr' & Hbb)]; [left; lia|right].
        exists b1. split; [|exact Hbb]. rewrite E, nth_S.
        rewrite nth_error_app2 by lia. replace (S j' - length t) with (S (j' - length t)) by lia. exact Hr'.
      * rewrite nth_error_app1 in Hj by lia.
        pose proof (cont_nth _ _ _ Ht Hj) as Hc.
        rewrite (ascii_boundary _ Hb) in Hc. discriminate.
Qed.

Lemma after_ascii_bnd s j b :
  utf8_valid_b s = true -> nth_error s j = Some b -> (b2n b <=? 127)%N = true -> bnd s (S j).
Proof. apply (after_ascii_bnd_len (length s)); lia. Qed.

Lemma valid_chars_pos s : utf8_valid_b s = true -> s <> [] -> 1 <= chars_count s.
Proof.
  intros Hv Hne. destruct s as [|b s]; [congruence|].
  unfold chars_count. cbn [filter]. rewrite (valid_head_boundary _ _ Hv). cbn. lia.
Qed.

(* ---------------------------------------------------------------------------------- *)
(* winnow's char_span                                                                  *)
(* ---------------------------------------------------------------------------------- *)
Lemma rfind_below_some p n i : rfind_below p n = Some i -> i < n /\ p i = true.
Proof.
  induction n as [|n IH]; cbn; [discriminate|].
  destruct (p n) eqn:E; intro H.
  - injection H as <-. split; [lia|exact E].
  - apply IH in H. split; [lia|tauto].
Qed.

Lemma rfind_below_none p n : rfind_below p n = None -> forall i, i < n -> p i = false.
Proof.
  induction n as [|n IH]; cbn; intros H i Hi; [lia|].
  destruct (p n) eqn:E; [discriminate|].
  destruct (Nat.eq_dec i n); [subst; exact E|apply IH; [exact H|lia]].
Qed.

Lemma find_from_some p a k i : find_from p a k = Some i -> a <= i < a + k /\ p i = true.
Proof.
  revert a; induction k as [|k IH]; cbn; intros a H; [discriminate|].
  destruct (p a) eqn:E.
  - injection H as <-. split; [lia|exact E].
  - apply IH in H. split; [lia|tauto].
Qed.

Lemma boundary_at_bnd s i : boundary_at s i = true -> bnd s i.
Proof.
  unfold boundary_at, bnd. destruct (nth_error s i) as [b|] eqn:E; [|discriminate].
  intro H. right. eauto.
Qed.

Lemma span_ok s off :
  utf8_valid_b s = true -> off <= length s ->
  let (a, b) := char_span s off in
  a <= b /\ b <= length s /\ char_boundary_b s (N.of_nat a) = true /\ char_boundary_b s (N.of_nat b) = true
  /\ a <= off.
Proof.
  intros Hv Hoff. unfold char_span, char_boundary.
  destruct (Nat.eqb off (length s)) eqn:Eq.
  - apply Nat.eqb_eq in Eq. subst off.
    assert (B : char_boundary_b s (N.of_nat (length s)) = true) by (apply bnd_to_b; left; reflexivity).
    repeat split; auto.
  - apply Nat.eqb_neq in Eq. assert (Hlt : off < length s) by lia.
    replace (Nat.min (off + 1) (length s)) with (S off) by lia.
    destruct (rfind_below (boundary_at s) (S off)) as [a|] eqn:Ea.
    + apply rfind_below_some in Ea as [Ha Hab].
      destruct (find_from (boundary_at s) (off + 1) (length s - (off + 1))) as [b|] eqn:Eb.
      * apply find_from_some in Eb as [Hb Hbb].
        repeat split; try lia; apply bnd_to_b, boundary_at_bnd; assumption.
      * repeat split; try lia; apply bnd_to_b; [apply boundary_at_bnd; assumption|left; reflexivity].
    + exfalso. pose proof (rfind_below_none _ _ Ea 0 ltac:(lia)) as H0.
      destruct s as [|b0 s']; [cbn in Hlt; lia|].
      unfold boundary_at in H0. cbn [nth_error] in H0.
      rewrite (valid_head_boundary _ _ Hv) in H0. discriminate.
Qed.

(* the span covers the offset: a <= off < b unless off is the end of input *)
Lemma span_covers s off :
  off < length s -> let (a, b) := char_span s off in a <= off < b.
Proof.
  intro Hlt. unfold char_span, char_boundary.
  assert (Eq : Nat.eqb off (length s) = false) by (apply Nat.eqb_neq; lia). rewrite Eq.
  replace (Nat.min (off + 1) (length s)) with (S off) by lia.
  destruct (rfind_below (boundary_at s) (S off)) as [a|] eqn:Ea;
    [apply rfind_below_some in Ea as [Ha _]|];
    (destruct (find_from (boundary_at s) (off + 1) (length s - (off + 1))) as [b|] eqn:Eb;
     [apply find_from_some in Eb as [Hb _]|]); lia.
Qed.

(* ---------------------------------------------------------------------------------- *)
(* the line of a prefix                                                                *)
(* ---------------------------------------------------------------------------------- *)
Lemma is_lf_iff b : is_lf b = true <-> b = x0a.
Proof. unfold is_lf. apply byte_eqb_eq. Qed.

Lemma lf_is_lf : lf = is_lf.
Proof. reflexivity. Qed.

Definition no_lf (s : bytes) : Prop := forallb (fun b => negb (is_lf b)) s = true.

Lemma no_lf_count s : no_lf s -> count_lf s = 0.
Proof.
  unfold no_lf, count_lf. rewrite lf_is_lf. induction s as [|b s IH]; [reflexivity|].
  cbn [forallb filter]. intro H. apply andb_true_iff in H as [H1 H2].
  destruct (is_lf b); [discriminate|]. apply IH; exact H2.
Qed.

Lemma find_index_lt f l k : find_index f l = Some k -> k < length l.
Proof.
  revert k; induction l as [|b l IH]; cbn; intros k H; [discriminate|].
  destruct (f b); [injection H as <-; lia|].
  destruct (find_index f l) as [k'|]; [|discriminate]. injection H as <-.
  specialize (IH k' eq_refl). lia.
Qed.

(* find_index on the reversed prefix = distance of the last LF from the end *)
Lemma find_index_spec f l :
  match find_index f l with
  | None => forallb (fun b => negb (f b)) l = true
  | Some k => exists l1 b l2, l = l1 ++ b :: l2 /\ length l1 = k /\ f b = true
                              /\ forallb (fun b => negb (f b)) l1 = true
  end.
Proof.
  induction l as [|b l IH]; cbn; [reflexivity|].
  destruct (f b) eqn:E.
  - exists [], b, l. auto.
  - destruct (find_index f l) as [k|]; cbn.
    + destruct IH as (l1 & c & l2 & -> & <- & Hc & Hl1).
      exists (b :: l1), c, l2. cbn. rewrite E. auto.
    + exact IH.
Qed.

Lemma current_line_fold acc s :
  fold_left (fun acc b => if is_lf b then [] else acc ++ [b]) s acc
  = match find_index is_lf (rev s) with
    | None => acc ++ s
    | Some k => skipn (length s - k) s
    end.
Proof.
  revert acc. induction s as [|b s IH] using rev_ind; intro acc.
  - cbn. rewrite app_nil_r. reflexivity.
  - rewrite fold_left_app. cbn [fold_left]. rewrite rev_app_distr. cbn [rev app find_index].
    destruct (is_lf b) eqn:E.
    + rewrite app_length. cbn [length]. rewrite Nat.sub_0_r.
      rewrite skipn_all2 by (rewrite app_length; cbn; lia). reflexivity.
    + rewrite IH. destruct (find_index is_lf (rev s)) as [k|] eqn:Ek; cbn [option_map].
      * pose proof (find_index_lt _ _ _ Ek) as Hk. rewrite rev_length in Hk.
        rewrite app_length. cbn [length].
        replace (length s + 1 - S k) with (length s - k) by lia.
        rewrite skipn_app. replace (length s - k - length s) with 0 by lia. reflexivity.
      * rewrite app_assoc. reflexivity.
Qed.

(* the prefix splits into the text before the current line and the current line *)
Lemma line_split (p : bytes) :
  let ls := match option_map (fun nl => length p - nl - 1) (find_index is_lf (rev p)) with
            | Some nl => nl + 1 | None => 0 end in
  exists q, p = q ++ current_line p /\ length q = ls /\ no_lf (current_line p)
            /\ count_lf q = count_lf p
            /\ (q = [] \/ exists q', q = q' ++ [x0a]).
Proof.
  cbv zeta.
  change (current_line p) with (fold_left (fun acc b => if is_lf b then [] else acc ++ [b]) p []).
  rewrite current_line_fold.
  pose proof (find_index_spec is_lf (rev p)) as S.
  destruct (find_index is_lf (rev p)) as [k|] eqn:Ek; cbn [option_map].
  - destruct S as (l1 & b & l2 & El & Hl1 & Hb & Hno).
    apply is_lf_iff in Hb. subst b.
    assert (Ep : p = rev l2 ++ x0a :: rev l1).
    { rewrite <- (rev_involutive p), El, rev_app_distr. cbn [rev]. rewrite <- app_assoc. reflexivity. }
    assert (Hlen : length p = length l2 + 1 + k).
    { rewrite Ep, app_length. cbn [length]. rewrite !rev_length. lia. }
    assert (Esk : skipn (length p - k) p = rev l1).
    { rewrite Ep at 2. replace (length p - k) with (length (rev l2 ++ [x0a]) + 0)
        by (rewrite app_length, rev_length; cbn; lia).
      replace (rev l2 ++ x0a :: rev l1) with ((rev l2 ++ [x0a]) ++ rev l1) by (rewrite <- app_assoc; reflexivity).
      rewrite skipn_app. rewrite skipn_all2 by lia.
      replace (length (rev l2 ++ [x0a]) + 0 - length (rev l2 ++ [x0a])) with 0 by lia. reflexivity. }
    rewrite Esk. exists (rev l2 ++ [x0a]). repeat split.
    + rewrite <- app_assoc. exact Ep.
    + rewrite app_length, rev_length. cbn. lia.
    + unfold no_lf. rewrite forallb_forall in *. intros x Hx. apply Hno. apply in_rev. exact Hx.
    + rewrite Ep. unfold count_lf.
      replace (rev l2 ++ x0a :: rev l1) with ((rev l2 ++ [x0a]) ++ rev l1) by (rewrite <- app_assoc; reflexivity).
      rewrite (filter_app lf (rev l2 ++ [x0a]) (rev l1)), app_length.
      assert (Z : length (filter lf (rev l1)) = 0).
      { apply (no_lf_count (rev l1)). unfold no_lf. rewrite forallb_forall in *.
        intros x Hx. apply Hno. apply in_rev. exact Hx. }
      rewrite Z. lia.
    + right. eauto.
  - exists []. cbn [app length]. repeat split; auto.
    + unfold no_lf. rewrite forallb_forall in *. intros x Hx. apply S. apply in_rev in Hx. exact Hx.
    + symmetry. apply no_lf_count. unfold no_lf. rewrite forallb_forall in *.
      intros x Hx. apply S. apply in_rev in Hx. exact Hx.
Qed.

(* ---------------------------------------------------------------------------------- *)
(* translate_position                                                                  *)
(* ---------------------------------------------------------------------------------- *)
Lemma slice_0 s n : slice s 0 n = firstn n s.
Proof. unfold slice. rewrite Nat.sub_0_r. reflexivity. Qed.

(* the shape of the input around the clamped index *)
Lemma around_index (s : bytes) idx :
  idx < length s -> exists b rest', s = firstn idx s ++ b :: rest' /\ nth_error s idx = Some b.
Proof.
  intro H. destruct (nth_error s idx) as [b|] eqn:E; [|apply nth_error_None in E; lia].
  apply nth_error_split in E as (l1 & l2 & Es & Hl). exists b, l2. subst idx. subst s. split.
  - rewrite firstn_app, firstn_all, Nat.sub_diag. cbn. rewrite app_nil_r. reflexivity.
  - reflexivity.
Qed.

Lemma slices_of_split q cl b rest' :
  let s := (q ++ cl) ++ b :: rest' in
  slice s 0 (length q) = q
  /\ slice s (length q) (length q + length cl) = cl
  /\ slice s (length q) (S (length q + length cl)) = cl ++ [b].
Proof.
  cbv zeta. unfold slice. rewrite <- !app_assoc. repeat split.
  - rewrite Nat.sub_0_r. cbn [skipn]. rewrite firstn_app, firstn_all, Nat.sub_diag. cbn. apply app_nil_r.
  - rewrite skipn_app, skipn_all, Nat.sub_diag. cbn [skipn app].
    replace (length q + length cl - length q) with (length cl) by lia.
    rewrite firstn_app, firstn_all, Nat.sub_diag. cbn. apply app_nil_r.
  - rewrite skipn_app, skipn_all, Nat.sub_diag. cbn [skipn app].
    replace (S (length q + length cl) - length q) with (length cl + 1) by lia.
    rewrite firstn_app. rewrite firstn_all2 by lia.
    replace (length cl + 1 - length cl) with 1 by lia. reflexivity.
Qed.

Lemma chars_count_app a b : chars_count (a ++ b) = chars_count a + chars_count b.
Proof. unfold chars_count. rewrite filter_app, app_length. reflexivity. Qed.

Lemma count_chars_is s : count_chars s = chars_count s.
Proof. reflexivity. Qed.

Definition tp_body (input : bytes) (index : nat) : nat * nat :=
    let safe_index := Nat.min index (length input - 1) in
    let column_offset := index - safe_index in
    let index := safe_index in
    let nl := option_map (fun nl => index - nl - 1)
                (find_index is_lf (rev (slice input 0 index))) in
    let line_start := match nl with Some nl => nl + 1 | None => 0 end in
    let line := length (filter is_lf (slice input 0 line_start)) in
    let column :=
      if utf8_valid_b (slice input line_start (S index))
      then chars_count (slice input line_start (S index)) - 1
      else if utf8_valid_b (slice input line_start index)
      then chars_count (slice input line_start index)
      else index - line_start in
    (line, column + column_offset).

Lemma translate_position_ne s i : s <> [] -> translate_position s i = tp_body s i.
Proof. destruct s; [congruence|reflexivity]. Qed.

(* what translate_position computes, in terms of the split of the prefix before the anchor *)
Lemma translate_position_shape s i :
  s <> [] ->
  let idx := Nat.min i (length s - 1) in
  exists q cl b rest',
    s = (q ++ cl) ++ b :: rest' /\ firstn idx s = q ++ cl /\ cl = current_line (firstn idx s)
    /\ no_lf cl /\ count_lf q = count_lf (firstn idx s) /\ (q = [] \/ exists q', q = q' ++ [x0a])
    /\ translate_position s i =
       (count_lf q,
        (if utf8_valid_b (cl ++ [b]) then chars_count (cl ++ [b]) - 1
         else if utf8_valid_b cl then chars_count cl else length cl) + (i - idx)).
Proof.
  intros Hne. cbv zeta.
  set (idx := Nat.min i (length s - 1)).
  assert (Hlen : 0 < length s) by (destruct s; [congruence|cbn; lia]).
  assert (Hidx : idx < length s) by (unfold idx; lia).
  destruct (around_index s idx Hidx) as (b & rest' & Es & Hb).
  destruct (line_split (firstn idx s)) as (q & Ep & Hq & Hno & Hcnt & Hqs). cbv zeta in Hq.
  set (cl := current_line (firstn idx s)) in *.
  assert (Hpl : length (firstn idx s) = idx) by (rewrite firstn_length; lia).
  rewrite Hpl in Hq.
  exists q, cl, b, rest'. repeat split; auto.
  - rewrite <- Ep. exact Es.
  - rewrite translate_position_ne by exact Hne. unfold tp_body. cbv zeta.
    fold idx. rewrite !slice_0.
    assert (Hidxq : idx = length q + length cl).
    { rewrite <- Hpl. rewrite Ep at 1. apply app_length. }
    rewrite <- Hq.
    assert (Ess : s = (q ++ cl) ++ b :: rest') by (rewrite <- Ep; exact Es).
    destruct (slices_of_split q cl b rest') as (S1 & S2 & S3). cbv zeta in S1, S2, S3.
    rewrite <- Ess in S1, S2, S3. rewrite slice_0 in S1. rewrite Hidxq. rewrite S1, S2, S3.
    f_equal. f_equal.
    destruct (utf8_valid_b (cl ++ [b])); [reflexivity|].
    destruct (utf8_valid_b cl); [reflexivity|]. lia.
Qed.

Lemma position_correct s i :
  utf8_valid_b s = true -> char_boundary_b s (N.of_nat i) = true -> i <= length s ->
  translate_position s i = (lines_before s i, chars_since_line_start s i).
Proof.
  intros Hv Hb Hi.
  destruct s as [|b0 s0] eqn:Es0.
  { cbn in Hi. assert (i = 0) by lia. subst i. reflexivity. }
  rewrite <- Es0 in *. assert (Hne : s <> []) by (subst; discriminate).
  destruct (translate_position_shape s i Hne) as (q & cl & b & rest' & Es & Ep & Ecl & Hno & Hcnt & Hqs & Htp).
  cbv zeta in *. set (idx := Nat.min i (length s - 1)) in *.
  assert (Hlen : 0 < length s) by (destruct s; [congruence|cbn; lia]).
  assert (Hidx : idx < length s) by (unfold idx; lia).
  assert (Hpl : length (firstn idx s) = idx) by (rewrite firstn_length; lia).
  assert (Hidxq : idx = length q + length cl) by (rewrite <- Hpl, Ep; apply app_length).
  rewrite Htp. unfold lines_before, chars_since_line_start, anchor. fold idx.
  rewrite <- Ecl, Hcnt. f_equal.
  (* the line start is a character boundary, so the rest of the text from there is valid *)
  assert (Hbq : bnd s (length q)).
  { destruct Hqs as [->|(q' & ->)].
    - cbn. right. destruct s as [|c s']; [congruence|]. exists c. split; [reflexivity|].
      eapply valid_head_boundary; exact Hv.
    - rewrite app_length. cbn [length]. replace (length q' + 1) with (S (length q')) by lia.
      apply (after_ascii_bnd s (length q') x0a Hv); [|reflexivity].
      rewrite Es, <- !app_assoc. rewrite nth_error_app2 by lia. rewrite Nat.sub_diag. reflexivity. }
  assert (Hskip : skipn (length q) s = cl ++ b :: rest').
  { rewrite Es, <- app_assoc, skipn_app, skipn_all, Nat.sub_diag. reflexivity. }
  destruct (valid_split s (length q) Hv Hbq ltac:(lia)) as [_ Hvs]. rewrite Hskip in Hvs.
  change count_chars with chars_count. rewrite (chars_count_app cl (skipn idx (firstn i s))).
  destruct (Nat.eq_dec i (length s)) as [Hend|Hin].
  - (* end of input: the anchor is the last byte *)
    assert (Eidx : idx = length s - 1) by (unfold idx; lia).
    assert (Hrest : rest' = []).
    { assert (L : length s = length q + length cl + S (length rest')).
      { rewrite Es at 1. rewrite !app_length. cbn [length]. lia. }
      destruct rest'; [reflexivity|cbn in L; lia]. }
    subst rest'.
    assert (Etail : skipn idx (firstn i s) = [b]).
    { rewrite Hend, firstn_all. rewrite Es at 1. rewrite Hidxq, <- app_length, skipn_app, skipn_all, Nat.sub_diag. reflexivity. }
    rewrite Etail, Hvs. rewrite chars_count_app.
    assert (P : 1 <= chars_count (cl ++ [b])) by (apply valid_chars_pos; [exact Hvs|destruct cl; discriminate]).
    rewrite chars_count_app in P. lia.
  - (* inside the text: the anchor is i itself and byte i starts a character *)
    assert (Eidx : idx = i) by (unfold idx; lia).
    assert (Etail : skipn idx (firstn i s) = []).
    { apply length_zero_iff_nil. rewrite skipn_length, firstn_length. lia. }
    rewrite Etail. change (chars_count []) with 0.
    assert (Hbb : is_boundary_byte b = true).
    { apply bnd_of_b in Hb. destruct Hb as [Hb|(c & Hc & Hcb)]; [lia|].
      rewrite Es, <- Eidx, Hidxq, <- app_length in Hc. rewrite nth_error_app2 in Hc by lia.
      rewrite Nat.sub_diag in Hc. injection Hc as <-. exact Hcb. }
    assert (Hvcl : utf8_valid_b cl = true).
    { assert (B : bnd (cl ++ b :: rest') (length cl)).
      { right. exists b. split; [|exact Hbb]. rewrite nth_error_app2 by lia. rewrite Nat.sub_diag. reflexivity. }
      destruct (valid_split _ (length cl) Hvs B) as [H1 _]; [rewrite app_length; lia|].
      rewrite firstn_app, firstn_all, Nat.sub_diag in H1. cbn in H1. rewrite app_nil_r in H1. exact H1. }
    rewrite Hvcl. rewrite chars_count_app.
    replace (chars_count [b]) with 1 by (unfold chars_count; cbn [filter]; rewrite Hbb; reflexivity).
    destruct (utf8_valid_b (cl ++ [b])); lia.
Qed.

(* ---------------------------------------------------------------------------------- *)
(* rendering reaches no panic site                                                     *)
(* ---------------------------------------------------------------------------------- *)
Lemma sub_chk_ok a b : b <= a -> sub_chk a b = Some (a - b).
Proof. intro H. unfold sub_chk. apply Nat.leb_le in H. rewrite H. reflexivity. Qed.

Lemma slice_chk_ok s a b : a <= b -> b <= length s -> slice_chk s a b = Some (slice s a b).
Proof.
  intros H1 H2. unfold slice_chk. apply Nat.leb_le in H1. apply Nat.leb_le in H2.
  rewrite H1, H2. reflexivity.
Qed.

Lemma slice_length s a b : a <= b -> b <= length s -> length (slice s a b) = b - a.
Proof. intros H1 H2. unfold slice. rewrite firstn_length, skipn_length. lia. Qed.

Definition tp_chk_body (input : bytes) (index : nat) : option (nat * nat) :=
    obind (sub_chk (length input) 1) (fun last =>
    let safe_index := Nat.min index last in
    obind (sub_chk index safe_index) (fun column_offset =>
    let index := safe_index in
    obind (slice_chk input 0 index) (fun pre =>
    obind (match find_index is_lf (rev pre) with
           | Some nl => obind (sub_chk index nl) (fun x => obind (sub_chk x 1) (fun y => Some (Some y)))
           | None => Some None
           end) (fun nl =>
    let line_start := match nl with Some nl => nl + 1 | None => 0 end in
    obind (slice_chk input 0 line_start) (fun before =>
    let line := length (filter is_lf before) in
    obind (slice_chk input line_start (S index)) (fun incl =>
    obind (if utf8_valid_b incl then sub_chk (chars_count incl) 1
           else obind (slice_chk input line_start index) (fun excl =>
                if utf8_valid_b excl then Some (chars_count excl)
                else sub_chk index line_start)) (fun column =>
    Some (line, column + column_offset)))))))).

Lemma translate_position_chk_ne s i : s <> [] -> translate_position_chk s i = tp_chk_body s i.
Proof. destruct s; [congruence|reflexivity]. Qed.

(* every slice bound and every subtraction inside translate_position is in range, for every
   input and every index (no hypothesis on UTF-8 validity or on the index is needed) *)
Lemma translate_position_total s i : translate_position_chk s i = Some (translate_position s i).
Proof.
  destruct (list_eq_dec Byte.byte_eq_dec s []) as [->|Hne]; [reflexivity|].
  rewrite translate_position_chk_ne, translate_position_ne by exact Hne.
  assert (Hlen : 0 < length s) by (destruct s; [congruence|cbn; lia]).
  unfold tp_chk_body, tp_body. cbv zeta.
  rewrite (sub_chk_ok (length s) 1) by lia. cbn [obind].
  set (idx := Nat.min i (length s - 1)).
  assert (Hidx : idx < length s) by (unfold idx; lia).
  rewrite (sub_chk_ok i idx) by (unfold idx; lia). cbn [obind].
  rewrite (slice_chk_ok s 0 idx) by lia. cbn [obind].
  assert (Hpre : length (slice s 0 idx) = idx) by (rewrite slice_length; lia).
  set (fi := find_index is_lf (rev (slice s 0 idx))).
  assert (Hfi : match fi with Some k => k < idx | None => True end).
  { unfold fi. destruct (find_index is_lf (rev (slice s 0 idx))) as [k|] eqn:Ek; [|exact I].
    apply find_index_lt in Ek. rewrite rev_length, Hpre in Ek. exact Ek. }
  assert (Enl : match fi with
                | Some nl => obind (sub_chk idx nl) (fun x => obind (sub_chk x 1) (fun y => Some (Some y)))
                | None => Some None
                end = Some (option_map (fun nl => idx - nl - 1) fi)).
  { destruct fi as [k|]; [|reflexivity]. cbn [option_map].
    rewrite (sub_chk_ok idx k) by lia. cbn [obind]. rewrite (sub_chk_ok (idx - k) 1) by lia. reflexivity. }
  rewrite Enl. cbn [obind].
  set (ls := match option_map (fun nl => idx - nl - 1) fi with Some nl => nl + 1 | None => 0 end).
  assert (Hls : ls <= idx).
  { unfold ls. destruct fi as [k|]; cbn [option_map]; lia. }
  rewrite (slice_chk_ok s 0 ls) by lia. cbn [obind].
  rewrite (slice_chk_ok s ls (S idx)) by lia. cbn [obind].
  destruct (utf8_valid_b (slice s ls (S idx))) eqn:Ev.
  - assert (P : 1 <= chars_count (slice s ls (S idx))).
    { apply valid_chars_pos; [exact Ev|]. intro Z. apply (f_equal (@length byte)) in Z.
      rewrite slice_length in Z by lia. change (length (@nil byte)) with 0 in Z. lia. }
    rewrite sub_chk_ok by exact P. reflexivity.
  - rewrite (slice_chk_ok s ls idx) by lia. cbn [obind].
    destruct (utf8_valid_b (slice s ls idx)); [reflexivity|].
    rewrite sub_chk_ok by exact Hls. reflexivity.
Qed.

(* `raw.split('\n')` yields one more piece than there are LF bytes *)
Lemma split_lf_acc_length cur s : length (split_lf_acc cur s) = S (count_lf s).
Proof.
  revert cur. unfold count_lf. rewrite lf_is_lf.
  induction s as [|b s IH]; intro cur; [reflexivity|]. cbn [split_lf_acc filter].
  destruct (is_lf b); cbn [length]; rewrite IH; reflexivity.
Qed.

Lemma split_lf_length s : length (split_lf s) = S (count_lf s).
Proof. apply split_lf_acc_length. Qed.

Lemma count_lf_firstn n s : count_lf (firstn n s) <= count_lf s.
Proof.
  rewrite <- (firstn_skipn n s) at 2. unfold count_lf. rewrite filter_app, app_length. lia.
Qed.

(* the line translate_position reports always exists in the text *)
Lemma translate_position_line s i : fst (translate_position s i) <= count_lf s.
Proof.
  destruct (list_eq_dec Byte.byte_eq_dec s []) as [->|Hne]; [cbn; lia|].
  destruct (translate_position_shape s i Hne) as (q & cl & b & rest' & Es & Ep & _ & _ & Hcnt & _ & Htp).
  cbv zeta in *. rewrite Htp. cbn [fst]. rewrite Hcnt. apply count_lf_firstn.
Qed.

Lemma render_total_span s a b : a <= b -> exists r, render s (a, b) = ROk r.
Proof.
  intro Hab. unfold render. rewrite translate_position_total.
  pose proof (translate_position_line s a) as Hl.
  destruct (translate_position s a) as [line column]. cbn [fst] in Hl.
  destruct (nth_error (split_lf s) line) as [content|] eqn:En.
  - rewrite sub_chk_ok by exact Hab. eauto.
  - apply nth_error_None in En. rewrite split_lf_length in En. lia.
Qed.

Lemma render_total s off :
  utf8_valid_b s = true -> off <= length s -> exists r, render s (char_span s off) = ROk r.
Proof.
  intros Hv Hoff. pose proof (span_ok s off Hv Hoff) as H.
  destruct (char_span s off) as [a b]. apply render_total_span. tauto.
Qed.

(* what is rendered: the 1-based line and column of the span start as the specification counts them *)
Lemma render_position s off r :
  utf8_valid_b s = true -> off <= length s -> render s (char_span s off) = ROk r ->
  r_line_num r = lines_before s (fst (char_span s off)) + 1
  /\ r_col_num r = chars_since_line_start s (fst (char_span s off)) + 1.
Proof.
  intros Hv Hoff. pose proof (span_ok s off Hv Hoff) as H.
  destruct (char_span s off) as [a b]. destruct H as (Hab & Hb & Ba & Bb & Hao). cbn [fst].
  unfold render. rewrite translate_position_total.
  rewrite (position_correct s a Hv Ba) by lia.
  destruct (nth_error (split_lf s) (lines_before s a)); [|discriminate].
  rewrite sub_chk_ok by exact Hab. intro E. injection E as <-. cbn. auto.
Qed.
