(* Proofs/PrintBackDAll.v — C03, class (d): everything a tree prints, as a multiset without paths: one item
   per header (tables defined by a header, elements of arrays of tables) and one per key/value pair,
   wherever it sits among the tables that dotted keys made.  How descend_path changes it. *)
From TV Require Import Base.Prelude Base.Utf8 Base.Winnow Gen.Consts.
From TV Require Import Model.Datetime Model.Numbers Model.Tree Model.Parse Model.Document Model.Write Model.Encode.
From TV Require Import Proofs.SpansDefs Proofs.PrintBackBase Proofs.PrintBackValue Proofs.PrintBackDoc Proofs.PrintBackSort Proofs.PrintBackEnts
                       Proofs.PrintBackDisplay Proofs.PrintBackSecs Proofs.PrintBackDVals.
Require Import Lia ZifyBool ZifyN ZifyNat Sorting.Sorted Sorting.Permutation.

Inductive pitem : Type :=
| PH (start : option N) (q : option N) (a : bool) (d : decor)
| PL (k : key) (v : value).

Definition span_start (t : tbl) : option N := match t_span t with Some sp => Some (fst sp) | None => None end.
Definition hdr (t : tbl) (a : bool) : list pitem :=
  if t_dotted t || (t_implicit t && negb a) then [] else [PH (span_start t) (t_position t) a (t_decor t)].

Fixpoint ALL (t : tbl) (a : bool) {struct t} : list pitem :=
  match t with
  | Tbl items _ _ _ _ _ =>
    hdr t a ++ (fix go (l : list (key * item)) : list pitem := match l with [] => [] | (k, it) :: tl => ALLit k it ++ go tl end) items
  end
with ALLit (k : key) (it : item) {struct it} : list pitem :=
  match it with
  | INone => []
  | IValue v => [PL k v]
  | ITable sub => ALL sub false
  | IAot ts _ => (fix goa (l : list tbl) : list pitem := match l with [] => [] | sub :: tl => ALL sub true ++ goa tl end) ts
  end.
Definition ALLI (items : list (key * item)) : list pitem := flat_map (fun kv => ALLit (fst kv) (snd kv)) items.

Lemma ALL_eq t a : ALL t a = hdr t a ++ ALLI (t_items t).
Proof.
  destruct t as [items d im dt pos sp]. cbn [ALL t_items]. f_equal. unfold ALLI.
  induction items as [|[k it] tl IH]; [reflexivity|]. cbn [flat_map fst snd]. rewrite <- IH. reflexivity.
Qed.
Lemma ALLit_aot k ts sp : ALLit k (IAot ts sp) = flat_map (fun sub => ALL sub true) ts.
Proof. cbn [ALLit]. induction ts as [|t tl IH]; [reflexivity|]. cbn [flat_map]. rewrite <- IH. reflexivity. Qed.
Lemma ALLI_app a b : ALLI (a ++ b) = ALLI a ++ ALLI b.
Proof. apply flat_map_app. Qed.

Lemma ALLI_set m k k0 it it' D1 D2 : kv_get m k = Some (k0, it) ->
  Permutation (ALLit k0 it' ++ D1) (ALLit k0 it ++ D2) -> Permutation (ALLI (kv_set m k it') ++ D1) (ALLI m ++ D2).
Proof.
  intros Hg Hp. destruct (kv_get_split m k k0 it Hg) as (A & B & -> & _ & Hs & _). rewrite Hs, !ALLI_app.
  change (ALLI ((k0, it') :: B)) with (ALLit k0 it' ++ ALLI B). change (ALLI ((k0, it) :: B)) with (ALLit k0 it ++ ALLI B).
  rewrite <- !app_assoc. apply Permutation_app_head.
  transitivity (ALLI B ++ ALLit k0 it' ++ D1); [rewrite !app_assoc; apply Permutation_app_tail, Permutation_app_comm|].
  transitivity (ALLI B ++ ALLit k0 it ++ D2); [apply Permutation_app_head, Hp|].
  rewrite !app_assoc. apply Permutation_app_tail, Permutation_app_comm.
Qed.

(* the fields a header item is made of *)
Definition hframe (t t' : tbl) : Prop :=
  t_decor t' = t_decor t /\ t_implicit t' = t_implicit t /\ t_dotted t' = t_dotted t /\ t_position t' = t_position t /\ span_start t' = span_start t.
Lemma hframe_refl t : hframe t t.
Proof. repeat split. Qed.
Lemma hframe_set_items t m : hframe t (t_set_items t m).
Proof. destruct t. repeat split. Qed.
Lemma hframe_hdr t t' a : hframe t t' -> hdr t' a = hdr t a.
Proof. intros (H1 & H2 & H3 & H4 & H5). unfold hdr. rewrite H1, H2, H3, H4, H5. reflexivity. Qed.

(* ---- descend_path, for headers (dotted = false) and for dotted keys (dotted = true) ----------------------------- *)
Definition implicitd (d : bool) : tbl := Tbl [] decor_default true d None None.

Inductive dctx_rel (d : bool) : list key -> tbl -> tbl -> tbl -> tbl -> Prop :=
| dcr_here t t' : dctx_rel d [] t t' t t'
| dcr_new t k p sub par par' :
    kv_get (t_items t) (k_key k) = None -> dctx_rel d p (implicitd d) sub par par' ->
    dctx_rel d (k :: p) t (t_set_items t (kv_push (t_items t) k (ITable sub))) par par'
| dcr_tab t k p k0 sub sub' par par' :
    kv_get (t_items t) (k_key k) = Some (k0, ITable sub) -> dctx_rel d p sub sub' par par' ->
    dctx_rel d (k :: p) t (t_set_items t (kv_set (t_items t) (k_key k) (ITable sub'))) par par'
| dcr_aot t k p k0 ts sp last rinit last' par par' :
    kv_get (t_items t) (k_key k) = Some (k0, IAot ts sp) -> rev ts = last :: rinit -> dctx_rel d p last last' par par' ->
    dctx_rel d (k :: p) t (t_set_items t (kv_set (t_items t) (k_key k) (IAot (rev (last' :: rinit)) sp))) par par'.

Lemma wta_dctx {X} (d : bool) (f : tbl -> cres (tbl * X)) : forall p r r' x,
  with_table_at r p d f = COk (r', x) -> exists par par', f par = COk (par', x) /\ dctx_rel d p r r' par par'.
Proof.
  induction p as [|k p IH]; intros r r' x H; cbn [with_table_at] in H.
  - exists r, r'. split; [exact H|constructor].
  - destruct (kv_get (t_items r) (k_key k)) as [[k0 it]|] eqn:G.
    + destruct it as [|v|sub|ts sp]; try discriminate.
      * destruct (d && negb (t_implicit sub)); [discriminate|].
        destruct (with_table_at sub p d f) as [[sub' x']| |] eqn:E; try discriminate. injection H as <- <-.
        destruct (IH _ _ _ E) as (par & par' & Hf & Hc). exists par, par'. split; [exact Hf|]. eapply dcr_tab; eassumption.
      * destruct (d && match p with [] => false | _ => true end); [discriminate|]. destruct (rev ts) as [|last rinit] eqn:Er; [discriminate|].
        destruct (with_table_at last p d f) as [[last' x']| |] eqn:E; try discriminate. injection H as <- <-.
        destruct (IH _ _ _ E) as (par & par' & Hf & Hc). exists par, par'. split; [exact Hf|]. eapply dcr_aot; eassumption.
    + destruct (with_table_at (Tbl [] decor_default true d None None) p d f) as [[sub x']| |] eqn:E; try discriminate. injection H as <- <-.
      destruct (IH _ _ _ E) as (par & par' & Hf & Hc). exists par, par'. split; [exact Hf|]. apply dcr_new; assumption.
Qed.

Lemma dctx_hframe d p r r' par par' : dctx_rel d p r r' par par' -> hframe par par' -> hframe r r'.
Proof. induction 1; intro Hf; [exact Hf|apply hframe_set_items..]. Qed.

Lemma hdr_implicitd d sub : hframe (implicitd d) sub -> hdr sub false = [].
Proof. intro H. rewrite (hframe_hdr _ _ false H). unfold hdr, implicitd. cbn [t_dotted t_implicit negb andb]. rewrite orb_true_r. reflexivity. Qed.

Lemma dctx_perm d p r r' par par' D1 D2 : dctx_rel d p r r' par par' -> hframe par par' ->
  Permutation (ALLI (t_items par') ++ D1) (ALLI (t_items par) ++ D2) -> Permutation (ALLI (t_items r') ++ D1) (ALLI (t_items r) ++ D2).
Proof.
  induction 1 as [t t'|t k p sub par par' G Hc IH|t k p k0 sub sub' par par' G Hc IH|t k p k0 ts sp last rinit last' par par' G Er Hc IH]; intros Hf Hp.
  - exact Hp.
  - rewrite t_items_set. unfold kv_push. rewrite ALLI_app. change (ALLI [(k, ITable sub)]) with (ALL sub false ++ []). rewrite app_nil_r, ALL_eq.
    rewrite (hdr_implicitd d sub (dctx_hframe _ _ _ _ _ _ Hc Hf)). cbn [app]. rewrite <- app_assoc.
    apply Permutation_app_head. specialize (IH Hf Hp). cbn [implicitd t_items ALLI flat_map app] in IH. exact IH.
  - rewrite t_items_set. apply (ALLI_set _ _ _ _ _ _ _ G). cbn [ALLit]. rewrite !ALL_eq, (hframe_hdr _ _ false (dctx_hframe _ _ _ _ _ _ Hc Hf)).
    rewrite <- !app_assoc. apply Permutation_app_head, IH; assumption.
  - rewrite t_items_set. apply (ALLI_set _ _ _ _ _ _ _ G). rewrite !ALLit_aot.
    assert (Ets : ts = rev rinit ++ [last]) by (rewrite <- (rev_involutive ts), Er; reflexivity).
    rewrite Ets. cbn [rev]. rewrite !flat_map_app. cbn [flat_map]. rewrite !app_nil_r, !ALL_eq, (hframe_hdr _ _ true (dctx_hframe _ _ _ _ _ _ Hc Hf)).
    rewrite <- !app_assoc. apply Permutation_app_head, Permutation_app_head, IH; assumption.
Qed.

(* ---- unique keys; the keys of tables satisfy K ------------------------------------------------------------------ *)
Section UK2.
  Variable K : key -> Prop.
  Fixpoint uk2 (t : tbl) {struct t} : Prop :=
    match t with
    | Tbl items _ _ _ _ _ =>
      NoDup (map kk items) /\
      (fix go (l : list (key * item)) : Prop := match l with [] => True | (k, it) :: tl => (is_tab it = true -> K k) /\ uki2 it /\ go tl end) items
    end
  with uki2 (it : item) {struct it} : Prop :=
    match it with
    | ITable sub => uk2 sub
    | IAot ts _ => (fix goa (l : list tbl) : Prop := match l with [] => True | sub :: tl => uk2 sub /\ goa tl end) ts
    | _ => True
    end.
  Definition uks2 (items : list (key * item)) : Prop := Forall (fun kv => (is_tab (snd kv) = true -> K (fst kv)) /\ uki2 (snd kv)) items.

  Lemma uk2_eq t : uk2 t <-> NoDup (map kk (t_items t)) /\ uks2 (t_items t).
  Proof.
    destruct t as [items d im dt pos sp]. cbn [uk2 t_items]. unfold uks2.
    assert (H : (fix go (l : list (key * item)) : Prop := match l with [] => True | (k, it) :: tl => (is_tab it = true -> K k) /\ uki2 it /\ go tl end) items
                <-> Forall (fun kv => (is_tab (snd kv) = true -> K (fst kv)) /\ uki2 (snd kv)) items).
    { induction items as [|[k it] tl IH]; [split; [constructor|auto]|]. rewrite Forall_cons_iff, <- IH. cbn [fst snd]. tauto. }
    rewrite H. reflexivity.
  Qed.
  Lemma uki2_aot ts sp : uki2 (IAot ts sp) <-> Forall uk2 ts.
  Proof. cbn [uki2]. induction ts as [|t tl IH]; [split; [constructor|auto]|]. rewrite Forall_cons_iff, <- IH. reflexivity. Qed.

  Lemma uks2_get m k k0 it : uks2 m -> kv_get m k = Some (k0, it) -> (is_tab it = true -> K k0) /\ uki2 it.
  Proof.
    intros Hu Hg. destruct (kv_get_split m k k0 it Hg) as (A & B & -> & _). unfold uks2 in Hu. apply Forall_app in Hu as [_ Hu].
    inversion Hu; subst. assumption.
  Qed.
  Lemma uks2_set m k k0 it0 it : uks2 m -> kv_get m k = Some (k0, it0) -> (is_tab it = true -> K k0) -> uki2 it -> uks2 (kv_set m k it).
  Proof.
    intros Hu Hg Hk Hi. destruct (kv_get_split m k k0 it0 Hg) as (A & B & -> & _ & Hs & _). rewrite Hs. unfold uks2 in *.
    apply Forall_app in Hu as [HA HB]. inversion HB; subst. apply Forall_app. split; [exact HA|]. constructor; [split; assumption|assumption].
  Qed.
  Lemma uks2_push m k it : uks2 m -> (is_tab it = true -> K k) -> uki2 it -> uks2 (kv_push m k it).
  Proof. intros Hu Hk Hi. apply Forall_app. split; [exact Hu|constructor; [split; assumption|constructor]]. Qed.
  Lemma uks2_remove m k : uks2 m -> uks2 (kv_remove m k).
  Proof.
    unfold uks2. induction m as [|[k1 v1] m IH]; intro Hu; [constructor|]. cbn [kv_remove]. inversion Hu; subst.
    destruct (bytes_eqb (k_key k1) k); [assumption|constructor; auto].
  Qed.

  Lemma uk2_implicitd d : uk2 (implicitd d).
  Proof. apply uk2_eq. split; constructor. Qed.
  Lemma uk2_set_items t m : NoDup (map kk m) -> uks2 m -> uk2 (t_set_items t m).
  Proof. intros H1 H2. apply uk2_eq. rewrite t_items_set. auto. Qed.

  Lemma dctx_uk2 d p r r' par par' : dctx_rel d p r r' par par' -> Forall K p -> uk2 r -> uk2 par /\ (uk2 par' -> uk2 r').
  Proof.
    induction 1 as [t t'|t k p sub par par' G Hc IH|t k p k0 sub sub' par par' G Hc IH|t k p k0 ts sp last rinit last' par par' G Er Hc IH]; intros HK Hu.
    - auto.
    - inversion HK as [|? ? Hk HK']; subst. destruct (IH HK' (uk2_implicitd d)) as [H1 H2]. split; [exact H1|]. intro Hp.
      apply uk2_eq in Hu as (Hn & Hs). apply uk2_set_items; [apply nodup_push; assumption|].
      apply uks2_push; [exact Hs|intros _; exact Hk|apply H2, Hp].
    - inversion HK as [|? ? Hk HK']; subst. apply uk2_eq in Hu as (Hn & Hs).
      destruct (uks2_get _ _ _ _ Hs G) as [Hk0 Hsub]. destruct (IH HK' Hsub) as [H1 H2]. split; [exact H1|]. intro Hp.
      apply uk2_set_items; [rewrite keys_set; exact Hn|]. apply (uks2_set _ _ _ _ _ Hs G); [intros _; apply Hk0; reflexivity|apply H2, Hp].
    - inversion HK as [|? ? Hk HK']; subst. apply uk2_eq in Hu as (Hn & Hs).
      destruct (uks2_get _ _ _ _ Hs G) as [Hk0 Hsub]. apply uki2_aot in Hsub.
      assert (Ets : ts = rev rinit ++ [last]) by (rewrite <- (rev_involutive ts), Er; reflexivity).
      rewrite Ets in Hsub. apply Forall_app in Hsub as [Hinit Hlast]. inversion Hlast as [|? ? Hl0 _]; subst.
      destruct (IH HK' Hl0) as [H1 H2]. split; [exact H1|]. intro Hp.
      apply uk2_set_items; [rewrite keys_set; exact Hn|]. apply (uks2_set _ _ _ _ _ Hs G); [intros _; apply Hk0; reflexivity|].
      apply uki2_aot. cbn [rev]. apply Forall_app. split; [exact Hinit|]. constructor; [apply H2, Hp|constructor].
  Qed.
End UK2.

Lemma dctx_reach d p r r' par par' : dctx_rel d p r r' par par' ->
  reach r' p = Some par' /\ (forall par0, reach r p = Some par0 -> par0 = par).
Proof.
  induction 1 as [t t'|t k p sub par par' G Hc IH|t k p k0 sub sub' par par' G Hc IH|t k p k0 ts sp last rinit last' par par' G Er Hc IH].
  - split; [reflexivity|]. intros par0 H. injection H as <-. reflexivity.
  - destruct IH as [H1 _]. cbn [reach]. rewrite t_items_set, (kv_get_push_new _ _ _ G), G. split; [exact H1|discriminate].
  - destruct IH as [H1 H2]. cbn [reach]. rewrite t_items_set, (kv_get_set_same _ _ _ _ _ G), G. auto.
  - destruct IH as [H1 H2]. cbn [reach]. rewrite t_items_set, (kv_get_set_same _ _ _ _ _ G), G, Er, rev_involutive. auto.
Qed.
