(* Proofs/CanonicalRead.v — reading the canonical document back (Spec/Canonical.v read_back):
   for a value with distinct keys the document is accepted, and the tree it builds is `expect`:
   every table holds its plain values, its mixed arrays, its arrays of tables and its sub-tables,
   in this order, each group in map order. *)
From TV Require Import Base.Prelude Spec.Ordered Model.TomlValue Spec.Canonical.
From TV Require Import Proofs.CanonicalBase Proofs.CanonicalEmit.

(* ------------------------------------------------------------------------------------------ *)
(** * keys *)

Lemma key_in_spec {A} k (m : list (bytes * A)) : key_in k m = true <-> In k (map fst m).
Proof.
  unfold key_in. rewrite existsb_exists. split.
  - intros (kv & Hin & E). apply bytes_eqb_eq in E. subst. apply in_map. exact Hin.
  - intro H. apply in_map_iff in H as (kv & E & Hin). exists kv. split; [exact Hin|]. apply bytes_eqb_eq. exact E.
Qed.

Lemma key_in_false {A} k (m : list (bytes * A)) : key_in k m = false <-> ~ In k (map fst m).
Proof. rewrite <- key_in_spec. destruct (key_in k m); split; congruence. Qed.

Lemma keys_distinct_spec {A} (m : list (bytes * A)) : keys_distinct m = true <-> NoDup (map fst m).
Proof.
  induction m as [|[k x] r IH]; cbn [keys_distinct map fst].
  - split; [constructor|reflexivity].
  - rewrite andb_true_iff, negb_true_iff, key_in_false, IH. split.
    + intros [A1 A2]. constructor; assumption.
    + intro H. inversion H; subst. split; assumption.
Qed.

Lemma find_key_none k (m : list (bytes * rnode)) :
  ~ In k (map fst m) -> find (fun kv => bytes_eqb (fst kv) k) m = None.
Proof.
  induction m as [|[k' x] r IH]; [reflexivity|]. cbn [map fst In find]. intro H.
  destruct (bytes_eqb k' k) eqn:E.
  - apply bytes_eqb_eq in E. subst. exfalso. apply H. left. reflexivity.
  - apply IH. intro. apply H. right. assumption.
Qed.

Lemma rlookup_none k m : ~ In k (map fst m) -> rlookup k m = None.
Proof. intro H. unfold rlookup. rewrite (find_key_none k m H). reflexivity. Qed.

Lemma rset_new k n m : ~ In k (map fst m) -> rset k n m = m ++ [(k, n)].
Proof. intro H. unfold rset. apply key_in_false in H. rewrite H. reflexivity. Qed.

Lemma rlookup_app_new k n m : ~ In k (map fst m) -> rlookup k (m ++ [(k, n)]) = Some n.
Proof.
  intro H. unfold rlookup. induction m as [|[k' x] r IH]; cbn [app find fst].
  - rewrite bytes_eqb_refl. reflexivity.
  - cbn [map fst In] in H. destruct (bytes_eqb k' k) eqn:E.
    + apply bytes_eqb_eq in E. subst. exfalso. apply H. left. reflexivity.
    + apply IH. intro. apply H. right. assumption.
Qed.

Lemma rlookup_rset k n m : rlookup k (rset k n m) = Some n.
Proof.
  unfold rset. destruct (key_in k m) eqn:E.
  - unfold rlookup. induction m as [|[k' x] r IH]; [discriminate|].
    cbn [key_in existsb fst] in E. cbn [map fst]. destruct (bytes_eqb k' k) eqn:F.
    + cbn [find fst]. rewrite F. reflexivity.
    + cbn [find fst]. rewrite F. apply IH. exact E.
  - apply rlookup_app_new. apply key_in_false. exact E.
Qed.

Lemma key_in_rset k n m : key_in k (rset k n m) = true.
Proof.
  unfold rset. destruct (key_in k m) eqn:E.
  - unfold key_in in *. induction m as [|[k' x] r IH]; [discriminate|].
    cbn [existsb fst map] in *. destruct (bytes_eqb k' k) eqn:F; cbn [fst]; rewrite F; [reflexivity|].
    apply IH. exact E.
  - unfold key_in. rewrite existsb_app. cbn [existsb fst]. rewrite bytes_eqb_refl. apply orb_true_r.
Qed.

Lemma rset_rset k n n' m : rset k n' (rset k n m) = rset k n' m.
Proof.
  unfold rset at 1. rewrite key_in_rset. unfold rset. destruct (key_in k m) eqn:E.
  - rewrite map_map. apply map_ext. intros [k' x]. cbn [fst].
    destruct (bytes_eqb k' k) eqn:F; cbn [fst]; rewrite F; reflexivity.
  - rewrite map_app. cbn [map fst]. rewrite bytes_eqb_refl. f_equal.
    apply key_in_false in E. induction m as [|[k' x] r IH]; [reflexivity|].
    cbn [map fst In] in *. destruct (bytes_eqb k' k) eqn:F.
    + apply bytes_eqb_eq in F. subst. exfalso. apply E. left. reflexivity.
    + f_equal. apply IH. intro. apply E. right. assumption.
Qed.

(* ------------------------------------------------------------------------------------------ *)
(** * key/value lines *)

Definition line_rnode (kv : bytes * iv) : bytes * rnode := (fst kv, RVal (value_of (snd kv))).

Lemma add_lines_ok lines : forall m,
  NoDup (map fst lines) -> (forall k, In k (map fst lines) -> ~ In k (map fst m)) ->
  Forall (fun kv => iv_ok (snd kv) = true) lines ->
  add_lines lines m = Some (m ++ map line_rnode lines).
Proof.
  induction lines as [|[k v] r IH]; intros m ND Dis Ok; cbn [add_lines map].
  - rewrite app_nil_r. reflexivity.
  - cbn [map fst] in ND, Dis. inversion ND as [|? ? Hk ND']; subst. inversion Ok as [|? ? Hv Ok']; subst.
    cbn [snd] in Hv. rewrite Hv.
    assert (E : key_in k m = false) by (apply key_in_false; apply Dis; left; reflexivity).
    rewrite E. cbn [orb negb].
    rewrite (IH (m ++ [(k, RVal (value_of v))]) ND').
    + rewrite <- app_assoc. reflexivity.
    + intros k' Hin. rewrite map_app, in_app_iff. cbn [map fst In]. intros [H|[H|[]]].
      * apply (Dis k'); [right; exact Hin|exact H].
      * subst. contradiction.
    + exact Ok'.
Qed.

(* ------------------------------------------------------------------------------------------ *)
(** * folding sections into a node / into the entries of a table *)

Definition place_sec (n : option rnode) (s : section) : option rnode :=
  place n (s_path s) (s_kind s) (s_lines s).

(* outer None = the document is refused *)
Fixpoint fold_place (n : option rnode) (d : list section) : option (option rnode) :=
  match d with
  | [] => Some n
  | s :: d' => match place_sec n s with Some n' => fold_place (Some n') d' | None => None end
  end.

Definition place_in (m : list (bytes * rnode)) (s : section) : option (list (bytes * rnode)) :=
  match s_path s with
  | k :: p' => optmap (fun n' => rset k n' m) (place (rlookup k m) p' (s_kind s) (s_lines s))
  | [] => None
  end.

Fixpoint fold_in (m : list (bytes * rnode)) (d : list section) : option (list (bytes * rnode)) :=
  match d with
  | [] => Some m
  | s :: d' => match place_in m s with Some m' => fold_in m' d' | None => None end
  end.

Definition shift (q : path) (s : section) : section := mkSec (q ++ s_path s) (s_kind s) (s_lines s).

Lemma fold_place_app n d d' :
  fold_place n (d ++ d') = match fold_place n d with Some n' => fold_place n' d' | None => None end.
Proof.
  revert n. induction d as [|s r IH]; intro n; [reflexivity|]. cbn [app fold_place].
  destruct (place_sec n s); [apply IH|reflexivity].
Qed.

Lemma fold_in_app m d d' :
  fold_in m (d ++ d') = match fold_in m d with Some m' => fold_in m' d' | None => None end.
Proof.
  revert m. induction d as [|s r IH]; intro m; [reflexivity|]. cbn [app fold_in].
  destruct (place_in m s); [apply IH|reflexivity].
Qed.

(* a run of sections below the key k is the business of the node at k *)
Lemma fold_in_group k G : forall m, G <> [] ->
  fold_in m (map (shift [k]) G) =
  match fold_place (rlookup k m) G with Some (Some n') => Some (rset k n' m) | _ => None end.
Proof.
  induction G as [|s r IH]; intros m NE; [congruence|]. cbn [map fold_in fold_place].
  unfold place_in at 1. cbn [shift s_path s_kind s_lines app]. unfold place_sec at 1.
  destruct (place (rlookup k m) (s_path s) (s_kind s) (s_lines s)) as [n1|]; [|reflexivity].
  cbn [optmap]. destruct r as [|s' r'].
  - reflexivity.
  - rewrite IH by discriminate. rewrite rlookup_rset.
    destruct (fold_place (Some n1) (s' :: r')) as [[n'|]|]; try reflexivity.
    rewrite rset_rset. reflexivity.
Qed.

Definition nonroot (s : section) : Prop := s_path s <> [].

Lemma fold_place_tab e m d : Forall nonroot d ->
  fold_place (Some (RTab e m)) d = optmap (fun m' => Some (RTab e m')) (fold_in m d).
Proof.
  revert m. induction d as [|s r IH]; intros m H; [reflexivity|]. inversion H as [|? ? Hs Hr]; subst.
  cbn [fold_place fold_in]. unfold place_sec, place_in. unfold nonroot in Hs.
  destruct (s_path s) as [|k p']; [congruence|]. cbn [place].
  destruct (place (rlookup k m) p' (s_kind s) (s_lines s)); [|reflexivity]. cbn [optmap]. apply IH. exact Hr.
Qed.

Lemma fold_place_aot done m d : Forall nonroot d ->
  fold_place (Some (RAot done m)) d = optmap (fun m' => Some (RAot done m')) (fold_in m d).
Proof.
  revert m. induction d as [|s r IH]; intros m H; [reflexivity|]. inversion H as [|? ? Hs Hr]; subst.
  cbn [fold_place fold_in]. unfold place_sec, place_in. unfold nonroot in Hs.
  destruct (s_path s) as [|k p']; [congruence|]. cbn [place].
  destruct (place (rlookup k m) p' (s_kind s) (s_lines s)); [|reflexivity]. cbn [optmap]. apply IH. exact Hr.
Qed.

(* a table that has no section of its own comes into being with its first sub-section *)
Lemma fold_place_none d : Forall nonroot d -> d <> [] ->
  fold_place None d = optmap (fun m' => Some (RTab false m')) (fold_in [] d).
Proof.
  intros H NE. destruct d as [|s r]; [congruence|]. inversion H as [|? ? Hs Hr]; subst.
  cbn [fold_place fold_in]. unfold place_sec, place_in. unfold nonroot in Hs.
  destruct (s_path s) as [|k p']; [congruence|]. cbn [place].
  destruct (place (rlookup k []) p' (s_kind s) (s_lines s)); [|reflexivity]. cbn [optmap].
  apply fold_place_tab. exact Hr.
Qed.

(* ------------------------------------------------------------------------------------------ *)
(** * the sections of a table at a longer path are the same sections, shifted *)

Lemma sections_shift ml tn v : forall three q p kind,
  sections_at ml three tn v (q ++ p) kind = map (shift q) (sections_at ml three tn v p kind).
Proof.
  induction v as [t|l IH|m IH] using tv_ind2; intros three q p kind; try reflexivity.
  rewrite !sections_at_tab, map_app. f_equal.
  - unfold own_section. destruct (own_visible kind m (own_lines ml three tn m)); reflexivity.
  - assert (Et : forall kv, In kv m -> tab_secs ml tn (q ++ p) kv = map (shift q) (tab_secs ml tn p kv)).
    { intros [k x] Hin. rewrite Forall_forall in IH. destruct (IH _ Hin) as [Hx _].
      unfold tab_secs. cbn [fst snd] in *. destruct x as [t|l|m']; try reflexivity.
      rewrite <- app_assoc. apply Hx. }
    assert (Ee : forall kv l, In kv m -> snd kv = TArr l ->
                 elem_secs ml tn (q ++ p) (fst kv) l = map (shift q) (elem_secs ml tn p (fst kv) l)).
    { intros [k x] l Hin E. rewrite Forall_forall in IH. destruct (IH _ Hin) as [_ Hl].
      cbn [fst snd] in *. specialize (Hl l E). unfold elem_secs. rewrite map_flat_map.
      apply flat_map_ext_Forall. eapply Forall_impl; [|exact Hl]. intros e He.
      rewrite <- app_assoc. apply He. }
    unfold rest_secs. destruct three.
    + rewrite map_app, !map_flat_map. f_equal; apply flat_map_ext_Forall; apply Forall_forall; intros kv Hin.
      * unfold aot_secs. destruct (is_aot (snd kv)); [|reflexivity].
        destruct (snd kv) as [t|l|m'] eqn:E; try reflexivity. apply (Ee kv l Hin E).
      * apply Et. exact Hin.
    + rewrite map_flat_map. apply flat_map_ext_Forall. apply Forall_forall. intros kv Hin.
      unfold sub_secs. destruct (snd kv) as [t|l|m'] eqn:E; try reflexivity.
      * destruct (is_aot (TArr l)); [|reflexivity]. apply (Ee kv l Hin E).
      * specialize (Et kv Hin). unfold tab_secs in Et. rewrite E in Et. exact Et.
Qed.

(* ------------------------------------------------------------------------------------------ *)
(** * the four kinds of entries; distinct keys *)
From Coq Require Import Permutation.

Lemma class_cases x :
  (is_plain x = true /\ is_mixed x = false /\ is_aot x = false /\ is_table x = false) \/
  (is_plain x = false /\ is_mixed x = true /\ is_aot x = false /\ is_table x = false) \/
  (is_plain x = false /\ is_mixed x = false /\ is_aot x = true /\ is_table x = false) \/
  (is_plain x = false /\ is_mixed x = false /\ is_aot x = false /\ is_table x = true).
Proof.
  unfold is_plain, is_line, is_mixed. destruct x as [t|l|m].
  - left. auto.
  - cbn [is_table negb andb]. destruct (is_aot (TArr l)) eqn:A.
    + right. right. left. rewrite andb_false_r. auto.
    + destruct (arr_any_table (TArr l)); cbn; [right; left; auto|left; auto].
  - right. right. right. auto.
Qed.

Definition order4 (m : list (bytes * tv)) : list (bytes * tv) :=
  filter (fun kv => is_plain (snd kv)) m ++ filter (fun kv => is_mixed (snd kv)) m ++
  filter (fun kv => is_aot (snd kv)) m ++ filter (fun kv => is_table (snd kv)) m.

Lemma order4_perm m : Permutation (order4 m) m.
Proof.
  unfold order4. induction m as [|[k x] r IH]; [constructor|]. cbn [filter snd].
  destruct (class_cases x) as [(A & B & C & D)|[(A & B & C & D)|[(A & B & C & D)|(A & B & C & D)]]];
    rewrite A, B, C, D.
  - cbn [app]. constructor. exact IH.
  - symmetry. apply Permutation_cons_app. symmetry. exact IH.
  - symmetry. rewrite app_assoc. apply Permutation_cons_app. rewrite <- app_assoc. symmetry. exact IH.
  - symmetry. rewrite !app_assoc. apply Permutation_cons_app. rewrite <- !app_assoc. symmetry. exact IH.
Qed.

Lemma filter_negb_perm {A} (f : A -> bool) l : Permutation (filter f l ++ filter (fun x => negb (f x)) l) l.
Proof.
  induction l as [|x r IH]; [constructor|]. cbn [filter]. destruct (f x); cbn [negb app].
  - constructor. exact IH.
  - symmetry. apply Permutation_cons_app. symmetry. exact IH.
Qed.

(* the entries of a table as the document lists them: the key/value lines, then the rest *)
Definition lines_e (three : bool) (m : list (bytes * tv)) : list (bytes * tv) :=
  if three then filter (fun kv => is_plain (snd kv)) m ++ filter (fun kv => is_mixed (snd kv)) m
  else filter (fun kv => is_line (snd kv)) m.
Definition subs_e (three : bool) (m : list (bytes * tv)) : list (bytes * tv) :=
  if three then filter (fun kv => is_aot (snd kv)) m ++ filter (fun kv => is_table (snd kv)) m
  else filter (fun kv => negb (is_line (snd kv))) m.
Definition doc_order (three : bool) (m : list (bytes * tv)) : list (bytes * tv) := lines_e three m ++ subs_e three m.

Lemma doc_order_perm three m : Permutation (doc_order three m) m.
Proof.
  unfold doc_order, lines_e, subs_e. destruct three.
  - rewrite <- app_assoc. apply order4_perm.
  - apply filter_negb_perm.
Qed.

Lemma doc_order_nodup three m : NoDup (map fst m) -> NoDup (map fst (doc_order three m)).
Proof. intro H. eapply Permutation_NoDup; [|exact H]. apply Permutation_map. symmetry. apply doc_order_perm. Qed.

Lemma Forall_lines_e {P : bytes * tv -> Prop} three m : Forall P m -> Forall P (lines_e three m).
Proof. intro H. unfold lines_e. destruct three; [apply Forall_app; split|]; apply Forall_filter; exact H. Qed.

Lemma not_line_cases x : negb (is_line x) = true -> is_aot x = true \/ is_table x = true.
Proof.
  unfold is_line. destruct (is_table x); [right; reflexivity|]. destruct (is_aot x); [left; reflexivity|discriminate].
Qed.

Lemma subs_e_cases three m kv : In kv (subs_e three m) -> In kv m /\ (is_aot (snd kv) = true \/ is_table (snd kv) = true).
Proof.
  unfold subs_e. destruct three.
  - rewrite in_app_iff. intros [H|H]; apply filter_In in H as [Hin F]; auto.
  - intro H. apply filter_In in H as [Hin F]. split; [exact Hin|]. apply not_line_cases. exact F.
Qed.

Lemma NoDup_app_inv {A} (l l' : list A) :
  NoDup (l ++ l') -> NoDup l /\ NoDup l' /\ forall x, In x l -> ~ In x l'.
Proof.
  induction l as [|a l IH]; cbn [app]; intro H.
  - repeat split; [constructor|exact H|intros x []].
  - inversion H as [|? ? Ha H']; subst. destruct (IH H') as (N1 & N2 & D). repeat split.
    + constructor; [|exact N1]. intro. apply Ha. apply in_or_app. left. assumption.
    + exact N2.
    + intros x [<-|Hx]; [|apply D; exact Hx]. intro. apply Ha. apply in_or_app. right. assumption.
Qed.

Lemma wf_tab m : wf_tv (TTab m) = true -> NoDup (map fst m) /\ Forall (fun kv => wf_tv (snd kv) = true) m.
Proof.
  cbn [wf_tv]. rewrite andb_true_iff. intros [D W]. split; [apply keys_distinct_spec; exact D|].
  induction m as [|[k x] r IH]; [constructor|]. apply andb_true_iff in W as [W1 W2].
  constructor; [exact W1|]. apply IH; [|exact W2].
  cbn [keys_distinct] in D. apply andb_true_iff in D as [_ D]. exact D.
Qed.

Lemma wf_arr l : wf_tv (TArr l) = true -> Forall (fun e => wf_tv e = true) l.
Proof. cbn [wf_tv]. rewrite forallb_forall. intro H. apply Forall_forall. exact H. Qed.

Lemma order3_perm m : Permutation (order3 m) m.
Proof.
  unfold order3. induction m as [|[k x] r IH]; [constructor|]. cbn [filter snd].
  destruct (pass_cases x) as [(A & B & C)|[(A & B & C)|(A & B & C)]]; rewrite A, B, C.
  - cbn [app]. constructor. exact IH.
  - symmetry. apply Permutation_cons_app. symmetry. exact IH.
  - symmetry. rewrite app_assoc. apply Permutation_cons_app. rewrite <- app_assoc. symmetry. exact IH.
Qed.

Lemma ordn_perm tn m : Permutation (ordn tn m) m.
Proof. destruct tn; [apply order3_perm|reflexivity]. Qed.

Lemma iv_ok_inl m :
  iv_ok (VInl m) = keys_distinct m && forallb (fun kv => iv_ok (snd kv)) m.
Proof.
  cbn [iv_ok]. f_equal. induction m as [|[k x] r IH]; [reflexivity|]. cbn [forallb snd]. rewrite IH. reflexivity.
Qed.

Lemma iv_ok_inline ml tn v : wf_tv v = true -> iv_ok (inline_of ml tn v) = true.
Proof.
  induction v as [t|l IH|m IH] using tv_ind'; intro W.
  - reflexivity.
  - cbn [inline_of iv_ok]. rewrite forallb_map. apply forallb_forall. intros e He.
    rewrite Forall_forall in IH. apply IH; [exact He|]. apply wf_arr in W. rewrite Forall_forall in W. apply W. exact He.
  - rewrite inline_of_tab, iv_ok_inl. apply wf_tab in W as [ND W]. apply andb_true_iff. split.
    + apply keys_distinct_spec. rewrite map_map. cbn [fst].
      eapply Permutation_NoDup; [|exact ND]. apply Permutation_map. symmetry. apply ordn_perm.
    + rewrite forallb_map. apply forallb_forall. intros kv Hin. cbn [snd].
      assert (Hm : In kv m) by (eapply Permutation_in; [apply ordn_perm|exact Hin]).
      rewrite Forall_forall in IH, W. apply IH; [exact Hm|]. apply W. exact Hm.
Qed.

(* ------------------------------------------------------------------------------------------ *)
(** * the tree a reader builds from the canonical document *)

Definition line_node (ml tn : bool) (kv : bytes * tv) : bytes * rnode :=
  (fst kv, RVal (value_of (inline_of ml tn (snd kv)))).
Definition vis_std (ml tn : bool) (m : list (bytes * tv)) : bool := own_visible KStd m (own_lines ml tn tn m).

Definition aot_of (es : list (list (bytes * rnode))) : rnode := RAot (removelast es) (last es []).

Fixpoint expect (ml tn : bool) (v : tv) : list (bytes * rnode) :=
  match v with
  | TTab m =>
    map (line_node ml tn) (lines_e tn m) ++
    (if tn
     then
       (fix aots (m : list (bytes * tv)) : list (bytes * rnode) :=
          match m with
          | [] => []
          | (k, x) :: r =>
            (if is_aot x
             then match x with
                  | TArr l => [(k, aot_of (map (expect ml tn) l))]
                  | _ => []
                  end
             else []) ++ aots r
          end) m ++
       (fix tabs (m : list (bytes * tv)) : list (bytes * rnode) :=
          match m with
          | [] => []
          | (k, x) :: r =>
            (match x with TTab m' => [(k, RTab (vis_std ml tn m') (expect ml tn x))] | _ => [] end) ++ tabs r
          end) m
     else
       (fix subs (m : list (bytes * tv)) : list (bytes * rnode) :=
          match m with
          | [] => []
          | (k, x) :: r =>
            (match x with
             | TTab m' => [(k, RTab (vis_std ml tn m') (expect ml tn x))]
             | TArr l => if is_aot x then [(k, aot_of (map (expect ml tn) l))] else []
             | TLeaf _ => []
             end) ++ subs r
          end) m)
  | _ => []
  end.

(* the node an entry that is not a key/value line becomes *)
Definition sub_rnode (ml tn : bool) (x : tv) : rnode :=
  match x with
  | TTab m' => RTab (vis_std ml tn m') (expect ml tn x)
  | TArr l => aot_of (map (expect ml tn) l)
  | TLeaf t => RVal (TLeaf t)
  end.
Definition sub_entry (ml tn : bool) (kv : bytes * tv) : bytes * rnode := (fst kv, sub_rnode ml tn (snd kv)).

Lemma expect_tab ml tn m :
  expect ml tn (TTab m) = map (line_node ml tn) (lines_e tn m) ++ map (sub_entry ml tn) (subs_e tn m).
Proof.
  cbn [expect]. f_equal. unfold subs_e. destruct tn.
  - rewrite map_app. f_equal.
    + induction m as [|[k x] r IH]; [reflexivity|]. rewrite IH. cbn [filter snd].
      destruct (is_aot x) eqn:A; [|reflexivity]. destruct x as [t|l|m']; try discriminate. reflexivity.
    + induction m as [|[k x] r IH]; [reflexivity|]. rewrite IH. cbn [filter snd].
      destruct x as [t|l|m']; reflexivity.
  - induction m as [|[k x] r IH]; [reflexivity|]. rewrite IH. cbn [filter snd]. unfold is_line.
    destruct x as [t|l|m']; try reflexivity.
    cbn [is_table negb andb]. destruct (is_aot (TArr l)); reflexivity.
Qed.

Definition expect_root (ml three tn : bool) (m : list (bytes * tv)) : list (bytes * rnode) :=
  map (line_node ml tn) (lines_e three m) ++ map (sub_entry ml tn) (subs_e three m).

(* ------------------------------------------------------------------------------------------ *)
(** * groups of sub-sections *)

(* the sections of an entry that is a table or an array of tables, relative to its own key *)
Definition sub_group (ml tn : bool) (x : tv) : list section :=
  match x with
  | TTab _ => sections_at ml tn tn x [] KStd
  | TArr l => flat_map (fun e => sections_at ml tn tn e [] KArr) l
  | TLeaf _ => []
  end.

Definition shifted_group (ml tn : bool) (kv : bytes * tv) : list section :=
  map (shift [fst kv]) (sub_group ml tn (snd kv)).

Lemma elem_secs_group ml tn k l : elem_secs ml tn [] k l = map (shift [k]) (sub_group ml tn (TArr l)).
Proof.
  unfold elem_secs. cbn [sub_group app]. rewrite map_flat_map. apply flat_map_ext. intro e.
  exact (sections_shift ml tn e tn [k] [] KArr).
Qed.

Lemma tab_secs_group ml tn k m' : tab_secs ml tn [] (k, TTab m') = shifted_group ml tn (k, TTab m').
Proof. unfold tab_secs, shifted_group. cbn [fst snd sub_group app]. exact (sections_shift ml tn (TTab m') tn [k] [] KStd). Qed.

Lemma flat_map_filter {A B} (p : A -> bool) (f g : A -> list B) l :
  (forall x, f x = if p x then g x else []) -> flat_map f l = flat_map g (filter p l).
Proof.
  intro H. induction l as [|x r IH]; [reflexivity|]. cbn [flat_map filter]. rewrite H.
  destruct (p x); cbn [flat_map app]; rewrite IH; reflexivity.
Qed.

Lemma aot_secs_groups ml tn m :
  flat_map (aot_secs ml tn []) m = flat_map (shifted_group ml tn) (filter (fun kv => is_aot (snd kv)) m).
Proof.
  apply flat_map_filter. intros [k x]. unfold aot_secs, shifted_group. cbn [fst snd].
  destruct (is_aot x) eqn:A; [|reflexivity]. destruct x as [t|l|m']; try discriminate. apply elem_secs_group.
Qed.

Lemma tab_secs_groups ml tn m :
  flat_map (tab_secs ml tn []) m = flat_map (shifted_group ml tn) (filter (fun kv => is_table (snd kv)) m).
Proof.
  apply flat_map_filter. intros [k x]. destruct x as [t|l|m']; try reflexivity. apply tab_secs_group.
Qed.

Lemma sub_secs_groups ml tn m :
  flat_map (sub_secs ml tn []) m = flat_map (shifted_group ml tn) (filter (fun kv => negb (is_line (snd kv))) m).
Proof.
  apply flat_map_filter. intros [k x]. unfold sub_secs, shifted_group, is_line. cbn [fst snd].
  destruct x as [t|l|m'].
  - reflexivity.
  - cbn [is_table negb andb]. destruct (is_aot (TArr l)) eqn:A; [|reflexivity]. cbn [negb]. apply elem_secs_group.
  - cbn [is_table negb andb]. exact (tab_secs_group ml tn k m').
Qed.

Lemma rest_groups ml three tn m : rest_secs ml three tn m [] = flat_map (shifted_group ml tn) (subs_e three m).
Proof.
  unfold rest_secs, subs_e. destruct three.
  - rewrite aot_secs_groups, tab_secs_groups, flat_map_app. reflexivity.
  - apply sub_secs_groups.
Qed.

Lemma shifted_nonroot ml tn kv : Forall nonroot (shifted_group ml tn kv).
Proof. unfold shifted_group. apply Forall_forall. intros s H. apply in_map_iff in H as (s' & <- & _). discriminate. Qed.

Lemma groups_nonroot ml tn l : Forall nonroot (flat_map (shifted_group ml tn) l).
Proof.
  induction l as [|kv r IH]; [constructor|]. cbn [flat_map]. apply Forall_app. split; [apply shifted_nonroot|exact IH].
Qed.

(* what must hold of an entry for its group to be read as the node sub_rnode *)
Definition sub_ok (ml tn : bool) (x : tv) : Prop :=
  sub_group ml tn x <> [] /\ fold_place None (sub_group ml tn x) = Some (Some (sub_rnode ml tn x)).

Lemma subs_fold ml tn subs : forall mm,
  Forall (fun kv => sub_ok ml tn (snd kv)) subs -> NoDup (map fst subs) ->
  (forall k, In k (map fst subs) -> ~ In k (map fst mm)) ->
  fold_in mm (flat_map (shifted_group ml tn) subs) = Some (mm ++ map (sub_entry ml tn) subs).
Proof.
  induction subs as [|[k x] r IH]; intros mm Ok ND Dis.
  - cbn. rewrite app_nil_r. reflexivity.
  - inversion Ok as [|? ? [NE Hx] Ok']; subst. cbn [map fst] in ND, Dis. inversion ND as [|? ? Hk ND']; subst.
    cbn [flat_map]. rewrite fold_in_app. unfold shifted_group at 1. cbn [fst snd] in *.
    rewrite (fold_in_group k (sub_group ml tn x) mm NE).
    rewrite (rlookup_none k mm) by (apply Dis; left; reflexivity). rewrite Hx.
    rewrite (rset_new k _ mm) by (apply Dis; left; reflexivity).
    rewrite (IH (mm ++ [(k, sub_rnode ml tn x)]) Ok' ND').
    + cbn [map]. rewrite <- app_assoc. reflexivity.
    + intros k' Hin. rewrite map_app, in_app_iff. cbn [map fst In]. intros [H|[H|[]]].
      * apply (Dis k'); [right; exact Hin|exact H].
      * subst. contradiction.
Qed.

(* ------------------------------------------------------------------------------------------ *)
(** * every table writes at least one section *)

Lemma own_lines_nil ml three tn k x r :
  own_lines ml three tn ((k, x) :: r) = [] -> is_aot x = true \/ is_table x = true.
Proof.
  unfold own_lines, lines_where. destruct three; cbn [filter snd]; intro H.
  - apply app_eq_nil in H as [H1 H2].
    destruct (class_cases x) as [(A & B & C & D)|[(A & B & C & D)|[(A & B & C & D)|(A & B & C & D)]]];
      rewrite ?A, ?B in *; try discriminate; auto.
  - apply not_line_cases. destruct (is_line x); [discriminate|reflexivity].
Qed.

Lemma sections_nonempty ml tn v : is_table v = true -> forall three p kind, sections_at ml three tn v p kind <> [].
Proof.
  induction v as [t|l IH|m IH] using tv_ind2; intro T; try discriminate. intros three p kind.
  rewrite sections_at_tab. unfold own_section.
  destruct (own_visible kind m (own_lines ml three tn m)) eqn:V; [discriminate|].
  cbn [app]. destruct kind; try discriminate. cbn [own_visible] in V. apply negb_false_iff in V.
  apply andb_true_iff in V as [Vm Vl]. apply negb_true_iff in Vl.
  destruct m as [|[k x] r]; [discriminate|].
  assert (L : own_lines ml three tn ((k, x) :: r) = []) by (destruct (own_lines ml three tn ((k, x) :: r)); [reflexivity|discriminate]).
  apply own_lines_nil in L.
  inversion IH as [|? ? [Hx Hl] _]; subst. cbn [snd] in *.
  assert (NE : sub_secs ml tn p (k, x) <> []).
  { unfold sub_secs. cbn [fst snd]. destruct L as [A|Tx].
    - destruct x as [t|l|m']; try discriminate. rewrite A. destruct l as [|e q]; [discriminate|].
      unfold elem_secs. cbn [flat_map]. specialize (Hl (e :: q) eq_refl). inversion Hl as [|? ? He _]; subst.
      cbn [is_aot forallb] in A. apply andb_true_iff in A as [Te _].
      intro H. apply app_eq_nil in H as [H _]. exact (He Te _ _ _ H).
    - destruct x as [t|l|m']; try discriminate. exact (Hx eq_refl _ _ _). }
  rewrite <- sub_secs_ordn. intro H.
  assert (Hin : In (k, x) (ordn three ((k, x) :: r))).
  { eapply Permutation_in; [symmetry; apply ordn_perm|left; reflexivity]. }
  apply NE. clear -H Hin. induction (ordn three ((k, x) :: r)) as [|y q IH]; [destruct Hin|].
  cbn [flat_map] in H. apply app_eq_nil in H as [H1 H2]. destruct Hin as [->|Hin]; [exact H1|apply IH; assumption].
Qed.

(* ------------------------------------------------------------------------------------------ *)
(** * one table: its lines, then the groups of its sub-entries *)

Lemma table_fold ml tn (le se : list (bytes * tv)) :
  NoDup (map fst (le ++ se)) ->
  Forall (fun kv => wf_tv (snd kv) = true) le ->
  Forall (fun kv => sub_ok ml tn (snd kv)) se ->
  add_lines (map (fun kv => (fst kv, inline_of ml tn (snd kv))) le) [] = Some (map (line_node ml tn) le) /\
  fold_in (map (line_node ml tn) le) (flat_map (shifted_group ml tn) se)
  = Some (map (line_node ml tn) le ++ map (sub_entry ml tn) se).
Proof.
  intros ND W Ok. rewrite map_app in ND. apply NoDup_app_inv in ND as (N1 & N2 & Dis). split.
  - rewrite add_lines_ok.
    + cbn [app]. rewrite map_map. reflexivity.
    + rewrite map_map. exact N1.
    + intros k _ [].
    + apply Forall_forall. intros kv Hin. apply in_map_iff in Hin as (kv' & <- & Hin'). cbn [snd].
      apply iv_ok_inline. rewrite Forall_forall in W. apply W. exact Hin'.
  - apply subs_fold; [exact Ok|exact N2|].
    intros k Hk Hin. rewrite map_map in Hin. cbn [fst] in Hin. exact (Dis k Hin Hk).
Qed.

Definition aot_start (n0 : option rnode) (done' : list (list (bytes * rnode))) : Prop :=
  (n0 = None /\ done' = []) \/ (exists done cur, n0 = Some (RAot done cur) /\ done' = done ++ [cur]).

Definition read_std (ml tn : bool) (m : list (bytes * tv)) : Prop :=
  fold_place None (sections_at ml tn tn (TTab m) [] KStd) = Some (Some (RTab (vis_std ml tn m) (expect ml tn (TTab m)))).
Definition read_arr (ml tn : bool) (m : list (bytes * tv)) : Prop :=
  forall n0 done', aot_start n0 done' ->
  fold_place n0 (sections_at ml tn tn (TTab m) [] KArr) = Some (Some (RAot done' (expect ml tn (TTab m)))).

Lemma own_lines_e ml three tn m : own_lines ml three tn m = map (fun kv => (fst kv, inline_of ml tn (snd kv))) (lines_e three m).
Proof. unfold own_lines, lines_where, lines_e. destruct three; [rewrite map_app|]; reflexivity. Qed.

(* the lines and the groups of one table, whoever ordered it *)
Lemma level_fold ml three tn m :
  NoDup (map fst m) -> Forall (fun kv => wf_tv (snd kv) = true) m ->
  Forall (fun kv => sub_ok ml tn (snd kv)) (subs_e three m) ->
  add_lines (own_lines ml three tn m) [] = Some (map (line_node ml tn) (lines_e three m)) /\
  fold_in (map (line_node ml tn) (lines_e three m)) (rest_secs ml three tn m [])
  = Some (expect_root ml three tn m).
Proof.
  intros ND W Ok.
  assert (ND4 : NoDup (map fst (lines_e three m ++ subs_e three m))) by (apply doc_order_nodup; exact ND).
  destruct (table_fold ml tn (lines_e three m) (subs_e three m) ND4 (Forall_lines_e three m W) Ok) as [HL HS].
  rewrite own_lines_e, rest_groups. split; [exact HL|exact HS].
Qed.

Lemma read_level ml tn m :
  NoDup (map fst m) -> Forall (fun kv => wf_tv (snd kv) = true) m ->
  Forall (fun kv => sub_ok ml tn (snd kv)) (subs_e tn m) ->
  read_std ml tn m /\ read_arr ml tn m.
Proof.
  intros ND W Ok. destruct (level_fold ml tn tn m ND W Ok) as [HL HS].
  assert (EX : expect_root ml tn tn m = expect ml tn (TTab m)) by (rewrite expect_tab; reflexivity).
  rewrite EX in HS. split.
  - unfold read_std. pose proof (sections_nonempty ml tn (TTab m) eq_refl tn [] KStd) as NE.
    rewrite sections_at_tab in NE |- *. unfold own_section in NE |- *.
    fold (vis_std ml tn m) in NE |- *. destruct (vis_std ml tn m) eqn:V.
    + cbn [app fold_place]. unfold place_sec. cbn [s_path s_kind s_lines place]. rewrite HL. cbn [optmap].
      rewrite fold_place_tab by (rewrite rest_groups; apply groups_nonroot). rewrite HS. reflexivity.
    + cbn [app] in NE |- *. rewrite fold_place_none; [|rewrite rest_groups; apply groups_nonroot|exact NE].
      assert (L0 : lines_e tn m = []).
      { unfold vis_std in V. cbn [own_visible] in V. apply negb_false_iff in V. apply andb_true_iff in V as [_ V].
        apply negb_true_iff in V. rewrite own_lines_e in V. destruct (lines_e tn m); [reflexivity|discriminate]. }
      rewrite L0 in HS. cbn [map] in HS. rewrite HS. reflexivity.
  - intros n0 done' St. rewrite sections_at_tab. unfold own_section. cbn [own_visible app fold_place].
    unfold place_sec. cbn [s_path s_kind s_lines].
    assert (P0 : place n0 [] KArr (own_lines ml tn tn m) = Some (RAot done' (map (line_node ml tn) (lines_e tn m)))).
    { destruct St as [[-> ->]|(done & cur & -> & ->)]; cbn [place]; rewrite HL; reflexivity. }
    rewrite P0. rewrite fold_place_aot by (rewrite rest_groups; apply groups_nonroot). rewrite HS. reflexivity.
Qed.

Lemma sub_ok_tab ml tn m' : read_std ml tn m' -> sub_ok ml tn (TTab m').
Proof. intro H. split; [apply (sections_nonempty ml tn (TTab m') eq_refl)|exact H]. Qed.

Lemma removelast_cons {A} (a : A) l : l <> [] -> removelast (a :: l) = a :: removelast l.
Proof. destruct l; [congruence|reflexivity]. Qed.

Lemma last_cons {A} (a : A) l d : l <> [] -> last (a :: l) d = last l d.
Proof. destruct l; [congruence|reflexivity]. Qed.

Definition elem_ok (ml tn : bool) (e : tv) : Prop := exists m', e = TTab m' /\ read_arr ml tn m'.

Lemma elems_fold ml tn l : forall n0 done', aot_start n0 done' -> l <> [] -> Forall (elem_ok ml tn) l ->
  fold_place n0 (flat_map (fun e => sections_at ml tn tn e [] KArr) l)
  = Some (Some (RAot (done' ++ removelast (map (expect ml tn) l)) (last (map (expect ml tn) l) []))).
Proof.
  induction l as [|e r IH]; intros n0 done' St NE Ok; [congruence|].
  inversion Ok as [|? ? (m' & -> & He) Ok']; subst. cbn [flat_map]. rewrite fold_place_app.
  rewrite (He n0 done' St). destruct r as [|e' r'].
  - cbn. rewrite app_nil_r. reflexivity.
  - rewrite (IH (Some (RAot done' (expect ml tn (TTab m')))) (done' ++ [expect ml tn (TTab m')])); [| |discriminate|exact Ok'].
    + cbn [map]. rewrite (removelast_cons (expect ml tn (TTab m')) (expect ml tn e' :: map (expect ml tn) r')) by discriminate.
      rewrite (last_cons (expect ml tn (TTab m')) (expect ml tn e' :: map (expect ml tn) r')) by discriminate.
      rewrite <- app_assoc. reflexivity.
    + right. exists done', (expect ml tn (TTab m')). split; reflexivity.
Qed.

Lemma sub_ok_aot ml tn l : l <> [] -> Forall (elem_ok ml tn) l -> sub_ok ml tn (TArr l).
Proof.
  intros NE Ok. split.
  - destruct l as [|e r]; [congruence|]. inversion Ok as [|? ? (m' & -> & _) _]; subst.
    cbn [sub_group flat_map]. intro H. apply app_eq_nil in H as [H _].
    exact (sections_nonempty ml tn (TTab m') eq_refl _ _ _ H).
  - cbn [sub_group sub_rnode]. rewrite (elems_fold ml tn l None []); [reflexivity|left; split; reflexivity|exact NE|exact Ok].
Qed.

(* ------------------------------------------------------------------------------------------ *)
(** * every table with distinct keys, at any depth *)

Definition read_ok (ml tn : bool) (v : tv) : Prop :=
  forall m, v = TTab m -> wf_tv v = true -> read_std ml tn m /\ read_arr ml tn m.

Lemma sub_ok_entry ml tn x :
  (read_ok ml tn x /\ forall l, x = TArr l -> Forall (read_ok ml tn) l) ->
  wf_tv x = true -> is_aot x = true \/ is_table x = true -> sub_ok ml tn x.
Proof.
  intros [Hx Hl] W [A|T].
  - destruct x as [t|l|m']; try discriminate. specialize (Hl l eq_refl).
    assert (NE : l <> []) by (destruct l; [discriminate|discriminate]).
    apply sub_ok_aot; [exact NE|].
    assert (Tl : forallb is_table l = true) by (destruct l; [discriminate|exact A]).
    apply wf_arr in W. clear A NE Hx. induction l as [|e r IH]; [constructor|].
    cbn [forallb] in Tl. apply andb_true_iff in Tl as [T1 T2].
    inversion Hl as [|? ? He Hr]; subst. inversion W as [|? ? We Wr]; subst.
    constructor; [|apply IH; assumption].
    destruct e as [t|l'|m']; try discriminate. exists m'. split; [reflexivity|]. exact (proj2 (He m' eq_refl We)).
  - destruct x as [t|l|m']; try discriminate. apply sub_ok_tab. exact (proj1 (Hx m' eq_refl W)).
Qed.

Lemma read_ok_all ml tn v : read_ok ml tn v.
Proof.
  induction v as [t|l IH|m IH] using tv_ind2; intros m0 E W; try discriminate.
  injection E as <-. apply wf_tab in W as [ND W]. apply read_level; [exact ND|exact W|].
  apply Forall_forall. intros kv Hin. apply subs_e_cases in Hin as [Hin C].
  rewrite Forall_forall in IH, W. apply sub_ok_entry; [apply IH; exact Hin|apply W; exact Hin|exact C].
Qed.

Lemma sub_ok_all ml tn x : wf_tv x = true -> is_aot x = true \/ is_table x = true -> sub_ok ml tn x.
Proof.
  intros W C. apply sub_ok_entry; [|exact W|exact C]. split; [apply read_ok_all|].
  intros l _. apply Forall_forall. intros e _. apply read_ok_all.
Qed.

(* ------------------------------------------------------------------------------------------ *)
(** * the whole document *)

Lemma place_all_fold_in d : forall mm, Forall nonroot d -> place_all mm d = fold_in mm d.
Proof.
  induction d as [|s r IH]; intros mm H; [reflexivity|]. inversion H as [|? ? Hs Hr]; subst.
  cbn [place_all fold_in]. unfold place_root, place_in. unfold nonroot in Hs.
  destruct (s_path s) as [|k p']; [congruence|].
  destruct (optmap (fun n' => rset k n' mm) (place (rlookup k mm) p' (s_kind s) (s_lines s))); [apply IH; exact Hr|reflexivity].
Qed.

Theorem place_all_canonical ml three tn m :
  wf_tv (TTab m) = true -> place_all [] (sections_of ml three tn m) = Some (expect_root ml three tn m).
Proof.
  intro W0. apply wf_tab in W0 as [ND W].
  assert (Ok : Forall (fun kv => sub_ok ml tn (snd kv)) (subs_e three m)).
  { apply Forall_forall. intros kv Hin. apply subs_e_cases in Hin as [Hin C].
    rewrite Forall_forall in W. apply sub_ok_all; [apply W; exact Hin|exact C]. }
  destruct (level_fold ml three tn m ND W Ok) as [HL HS].
  unfold sections_of. rewrite sections_at_tab. unfold own_section. cbn [own_visible app place_all].
  unfold place_root. cbn [s_path s_kind s_lines]. rewrite HL.
  rewrite place_all_fold_in by (rewrite rest_groups; apply groups_nonroot). exact HS.
Qed.
