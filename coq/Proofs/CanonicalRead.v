(* Proofs/CanonicalRead.v — reading the canonical document back (Spec/Canonical.v read_back):
   for a value with distinct keys the document is accepted, and the tree it builds is `expect`:
   every table holds its plain values, its mixed arrays, its arrays of tables and its sub-tables,
   in this order, each group in map order. *)
From TV Require Import Base.Prelude Spec.Ordered Model.TomlValue Spec.Canonical.
From TV Require Import Proofs.CanonicalBase Proofs.CanonicalEmit.

(* ------------------------------------------------------------------------------------------ *)
(** * keys *)

Lemma key_in_spec {A} k (m : list (bytes * A)) : key_in k m = true <-> In k (map fst m).
Proof.
  unfold key_in. rewrite existsb_exists. split.
  - intros (kv & Hin & E). apply bytes_eqb_eq in E. subst. apply in_map. exact Hin.
  - intro H. apply in_map_iff in H as (kv & E & Hin). exists kv. split; [exact Hin|]. apply bytes_eqb_eq. exact E.
Qed.

Lemma key_in_false {A} k (m : list (bytes * A)) : key_in k m = false <-> ~ In k (map fst m).
Proof. rewrite <- key_in_spec. destruct (key_in k m); split; congruence. Qed.

Lemma keys_distinct_spec {A} (m : list (bytes * A)) : keys_distinct m = true <-> NoDup (map fst m).
Proof.
  induction m as [|[k x] r IH]; cbn [keys_distinct map fst].
  - split; [constructor|reflexivity].
  - rewrite andb_true_iff, negb_true_iff, key_in_false, IH. split.
    + intros [A1 A2]. constructor; assumption.
    + intro H. inversion H; subst. split; assumption.
Qed.

Lemma find_key_none k (m : list (bytes * rnode)) :
  ~ In k (map fst m) -> find (fun kv => bytes_eqb (fst kv) k) m = None.
Proof.
  induction m as [|[k' x] r IH]; [reflexivity|]. cbn [map fst In find]. intro H.
  destruct (bytes_eqb k' k) eqn:E.
  - apply bytes_eqb_eq in E. subst. exfalso. apply H. left. reflexivity.
  - apply IH. intro. apply H. right. assumption.
Qed.

Lemma rlookup_none k m : ~ In k (map fst m) -> rlookup k m = None.
Proof. intro H. unfold rlookup. rewrite (find_key_none k m H). reflexivity. Qed.

Lemma rset_new k n m : ~ In k (map fst m) -> rset k n m = m ++ [(k, n)].
Proof. intro H. unfold rset. apply key_in_false in H. rewrite H. reflexivity. Qed.

Lemma rlookup_app_new k n m : ~ In k (map fst m) -> rlookup k (m ++ [(k, n)]) = Some n.
Proof.
  intro H. unfold rlookup. induction m as [|[k' x] r IH]; cbn [app find fst].
  - rewrite bytes_eqb_refl. reflexivity.
  - cbn [map fst In] in H. destruct (bytes_eqb k' k) eqn:E.
    + apply bytes_eqb_eq in E. subst. exfalso. apply H. left. reflexivity.
    + apply IH. intro. apply H. right. assumption.
Qed.

Lemma rlookup_rset k n m : rlookup k (rset k n m) = Some n.
Proof.
  unfold rset. destruct (key_in k m) eqn:E.
  - unfold rlookup. induction m as [|[k' x] r IH]; [discriminate|].
    cbn [key_in existsb fst] in E. cbn [map fst]. destruct (bytes_eqb k' k) eqn:F.
    + cbn [find fst]. rewrite F. reflexivity.
    + cbn [find fst]. rewrite F. apply IH. exact E.
  - apply rlookup_app_new. apply key_in_false. exact E.
Qed.

Lemma key_in_rset k n m : key_in k (rset k n m) = true.
Proof.
  unfold rset. destruct (key_in k m) eqn:E.
  - unfold key_in in *. induction m as [|[k' x] r IH]; [discriminate|].
    cbn [existsb fst map] in *. destruct (bytes_eqb k' k) eqn:F; cbn [fst]; rewrite F; [reflexivity|].
    apply IH. exact E.
  - unfold key_in. rewrite existsb_app. cbn [existsb fst]. rewrite bytes_eqb_refl. apply orb_true_r.
Qed.

Lemma rset_rset k n n' m : rset k n' (rset k n m) = rset k n' m.
Proof.
  unfold rset at 1. rewrite key_in_rset. unfold rset. destruct (key_in k m) eqn:E.
  - rewrite map_map. apply map_ext. intros [k' x]. cbn [fst].
    destruct (bytes_eqb k' k) eqn:F; cbn [fst]; rewrite F; reflexivity.
  - rewrite map_app. cbn [map fst]. rewrite bytes_eqb_refl. f_equal.
    apply key_in_false in E. induction m as [|[k' x] r IH]; [reflexivity|].
    cbn [map fst In] in *. destruct (bytes_eqb k' k) eqn:F.
    + apply bytes_eqb_eq in F. subst. exfalso. apply E. left. reflexivity.
    + f_equal. apply IH. intro. apply E. right. assumption.
Qed.

(* ------------------------------------------------------------------------------------------ *)
(** * key/value lines *)

Definition line_rnode (kv : bytes * iv) : bytes * rnode := (fst kv, RVal (value_of (snd kv))).

Lemma add_lines_ok lines : forall m,
  NoDup (map fst lines) -> (forall k, In k (map fst lines) -> ~ In k (map fst m)) ->
  Forall (fun kv => iv_ok (snd kv) = true) lines ->
  add_lines lines m = Some (m ++ map line_rnode lines).
Proof.
  induction lines as [|[k v] r IH]; intros m ND Dis Ok; cbn [add_lines map].
  - rewrite app_nil_r. reflexivity.
  - cbn [map fst] in ND, Dis. inversion ND as [|? ? Hk ND']; subst. inversion Ok as [|? ? Hv Ok']; subst.
    cbn [snd] in Hv. rewrite Hv.
    assert (E : key_in k m = false) by (apply key_in_false; apply Dis; left; reflexivity).
    rewrite E. cbn [orb negb].
    rewrite (IH (m ++ [(k, RVal (value_of v))]) ND').
    + rewrite <- app_assoc. reflexivity.
    + intros k' Hin. rewrite map_app, in_app_iff. cbn [map fst In]. intros [H|[H|[]]].
      * apply (Dis k'); [right; exact Hin|exact H].
      * subst. contradiction.
    + exact Ok'.
Qed.

(* ------------------------------------------------------------------------------------------ *)
(** * folding sections into a node / into the entries of a table *)

Definition place_sec (n : option rnode) (s : section) : option rnode :=
  place n (s_path s) (s_kind s) (s_lines s).

(* outer None = the document is refused *)
Fixpoint fold_place (n : option rnode) (d : list section) : option (option rnode) :=
  match d with
  | [] => Some n
  | s :: d' => match place_sec n s with Some n' => fold_place (Some n') d' | None => None end
  end.

Definition place_in (m : list (bytes * rnode)) (s : section) : option (list (bytes * rnode)) :=
  match s_path s with
  | k :: p' => optmap (fun n' => rset k n' m) (place (rlookup k m) p' (s_kind s) (s_lines s))
  | [] => None
  end.

Fixpoint fold_in (m : list (bytes * rnode)) (d : list section) : option (list (bytes * rnode)) :=
  match d with
  | [] => Some m
  | s :: d' => match place_in m s with Some m' => fold_in m' d' | None => None end
  end.

Definition shift (q : path) (s : section) : section := mkSec (q ++ s_path s) (s_kind s) (s_lines s).

Lemma fold_place_app n d d' :
  fold_place n (d ++ d') = match fold_place n d with Some n' => fold_place n' d' | None => None end.
Proof.
  revert n. induction d as [|s r IH]; intro n; [reflexivity|]. cbn [app fold_place].
  destruct (place_sec n s); [apply IH|reflexivity].
Qed.

Lemma fold_in_app m d d' :
  fold_in m (d ++ d') = match fold_in m d with Some m' => fold_in m' d' | None => None end.
Proof.
  revert m. induction d as [|s r IH]; intro m; [reflexivity|]. cbn [app fold_in].
  destruct (place_in m s); [apply IH|reflexivity].
Qed.

(* a run of sections below the key k is the business of the node at k *)
Lemma fold_in_group k G : forall m, G <> [] ->
  fold_in m (map (shift [k]) G) =
  match fold_place (rlookup k m) G with Some (Some n') => Some (rset k n' m) | _ => None end.
Proof.
  induction G as [|s r IH]; intros m NE; [congruence|]. cbn [map fold_in fold_place].
  unfold place_in at 1. cbn [shift s_path s_kind s_lines app]. unfold place_sec at 1.
  destruct (place (rlookup k m) (s_path s) (s_kind s) (s_lines s)) as [n1|]; [|reflexivity].
  cbn [optmap]. destruct r as [|s' r'].
  - reflexivity.
  - rewrite IH by discriminate. rewrite rlookup_rset.
    destruct (fold_place (Some n1) (s' :: r')) as [[n'|]|]; try reflexivity.
    rewrite rset_rset. reflexivity.
Qed.

Definition nonroot (s : section) : Prop := s_path s <> [].

Lemma fold_place_tab e m d : Forall nonroot d ->
  fold_place (Some (RTab e m)) d = optmap (fun m' => Some (RTab e m')) (fold_in m d).
Proof.
  revert m. induction d as [|s r IH]; intros m H; [reflexivity|]. inversion H as [|? ? Hs Hr]; subst.
  cbn [fold_place fold_in]. unfold place_sec, place_in. unfold nonroot in Hs.
  destruct (s_path s) as [|k p']; [congruence|]. cbn [place].
  destruct (place (rlookup k m) p' (s_kind s) (s_lines s)); [|reflexivity]. cbn [optmap]. apply IH. exact Hr.
Qed.

Lemma fold_place_aot done m d : Forall nonroot d ->
  fold_place (Some (RAot done m)) d = optmap (fun m' => Some (RAot done m')) (fold_in m d).
Proof.
  revert m. induction d as [|s r IH]; intros m H; [reflexivity|]. inversion H as [|? ? Hs Hr]; subst.
  cbn [fold_place fold_in]. unfold place_sec, place_in. unfold nonroot in Hs.
  destruct (s_path s) as [|k p']; [congruence|]. cbn [place].
  destruct (place (rlookup k m) p' (s_kind s) (s_lines s)); [|reflexivity]. cbn [optmap]. apply IH. exact Hr.
Qed.

(* a table that has no section of its own comes into being with its first sub-section *)
Lemma fold_place_none d : Forall nonroot d -> d <> [] ->
  fold_place None d = optmap (fun m' => Some (RTab false m')) (fold_in [] d).
Proof.
  intros H NE. destruct d as [|s r]; [congruence|]. inversion H as [|? ? Hs Hr]; subst.
  cbn [fold_place fold_in]. unfold place_sec, place_in. unfold nonroot in Hs.
  destruct (s_path s) as [|k p']; [congruence|]. cbn [place].
  destruct (place (rlookup k []) p' (s_kind s) (s_lines s)); [|reflexivity]. cbn [optmap].
  apply fold_place_tab. exact Hr.
Qed.

(* ------------------------------------------------------------------------------------------ *)
(** * the sections of a table at a longer path are the same sections, shifted *)

Lemma flat_map_ext_Forall2 {A B} (f g : A -> list B) l : Forall (fun x => f x = g x) l -> flat_map f l = flat_map g l.
Proof. apply flat_map_ext_Forall. Qed.

Lemma sections_shift ml v : forall three q p kind,
  sections_at ml three v (q ++ p) kind = map (shift q) (sections_at ml three v p kind).
Proof.
  induction v as [t|l IH|m IH] using tv_ind2; intros three q p kind; try reflexivity.
  rewrite !sections_at_tab, map_app. f_equal.
  - unfold own_section. destruct (own_visible kind m (own_lines ml three m)); reflexivity.
  - assert (Et : forall kv, In kv m -> tab_secs ml (q ++ p) kv = map (shift q) (tab_secs ml p kv)).
    { intros [k x] Hin. rewrite Forall_forall in IH. destruct (IH _ Hin) as [Hx _].
      unfold tab_secs. cbn [fst snd] in *. destruct x as [t|l|m']; try reflexivity.
      rewrite <- app_assoc. apply Hx. }
    assert (Ee : forall kv l, In kv m -> snd kv = TArr l ->
                 elem_secs ml (q ++ p) (fst kv) l = map (shift q) (elem_secs ml p (fst kv) l)).
    { intros [k x] l Hin E. rewrite Forall_forall in IH. destruct (IH _ Hin) as [_ Hl].
      cbn [fst snd] in *. specialize (Hl l E). unfold elem_secs. rewrite map_flat_map.
      apply flat_map_ext_Forall. eapply Forall_impl; [|exact Hl]. intros e He.
      rewrite <- app_assoc. apply He. }
    destruct three.
    + rewrite map_app, !map_flat_map. f_equal; apply flat_map_ext_Forall; apply Forall_forall; intros kv Hin.
      * unfold aot_secs. destruct (is_aot (snd kv)); [|reflexivity].
        destruct (snd kv) as [t|l|m'] eqn:E; try reflexivity. apply (Ee kv l Hin E).
      * apply Et. exact Hin.
    + rewrite map_flat_map. apply flat_map_ext_Forall. apply Forall_forall. intros kv Hin.
      unfold sub_secs. destruct (snd kv) as [t|l|m'] eqn:E; try reflexivity.
      * destruct (is_aot (TArr l)); [|reflexivity]. apply (Ee kv l Hin E).
      * specialize (Et kv Hin). unfold tab_secs in Et. rewrite E in Et. exact Et.
Qed.

(* ------------------------------------------------------------------------------------------ *)
(** * the four kinds of entries; distinct keys *)
From Coq Require Import Permutation.

Lemma class_cases x :
  (is_plain x = true /\ is_mixed x = false /\ is_aot x = false /\ is_table x = false) \/
  (is_plain x = false /\ is_mixed x = true /\ is_aot x = false /\ is_table x = false) \/
  (is_plain x = false /\ is_mixed x = false /\ is_aot x = true /\ is_table x = false) \/
  (is_plain x = false /\ is_mixed x = false /\ is_aot x = false /\ is_table x = true).
Proof.
  unfold is_plain, is_line, is_mixed. destruct x as [t|l|m].
  - left. auto.
  - cbn [is_table negb andb]. destruct (is_aot (TArr l)) eqn:A.
    + right. right. left. rewrite andb_false_r. auto.
    + destruct (arr_any_table (TArr l)); cbn; [right; left; auto|left; auto].
  - right. right. right. auto.
Qed.

Definition order4 (m : list (bytes * tv)) : list (bytes * tv) :=
  filter (fun kv => is_plain (snd kv)) m ++ filter (fun kv => is_mixed (snd kv)) m ++
  filter (fun kv => is_aot (snd kv)) m ++ filter (fun kv => is_table (snd kv)) m.

Lemma order4_perm m : Permutation (order4 m) m.
Proof.
  unfold order4. induction m as [|[k x] r IH]; [constructor|]. cbn [filter snd].
  destruct (class_cases x) as [(A & B & C & D)|[(A & B & C & D)|[(A & B & C & D)|(A & B & C & D)]]];
    rewrite A, B, C, D.
  - cbn [app]. constructor. exact IH.
  - symmetry. apply Permutation_cons_app. symmetry. exact IH.
  - symmetry. rewrite app_assoc. apply Permutation_cons_app. rewrite <- app_assoc. symmetry. exact IH.
  - symmetry. rewrite !app_assoc. apply Permutation_cons_app. rewrite <- !app_assoc. symmetry. exact IH.
Qed.

Lemma order4_nodup m : NoDup (map fst m) -> NoDup (map fst (order4 m)).
Proof. intro H. eapply Permutation_NoDup; [|exact H]. apply Permutation_map. symmetry. apply order4_perm. Qed.

Lemma NoDup_app_inv {A} (l l' : list A) :
  NoDup (l ++ l') -> NoDup l /\ NoDup l' /\ forall x, In x l -> ~ In x l'.
Proof.
  induction l as [|a l IH]; cbn [app]; intro H.
  - repeat split; [constructor|exact H|intros x []].
  - inversion H as [|? ? Ha H']; subst. destruct (IH H') as (N1 & N2 & D). repeat split.
    + constructor; [|exact N1]. intro. apply Ha. apply in_or_app. left. assumption.
    + exact N2.
    + intros x [<-|Hx]; [|apply D; exact Hx]. intro. apply Ha. apply in_or_app. right. assumption.
Qed.

Lemma wf_tab m : wf_tv (TTab m) = true -> NoDup (map fst m) /\ Forall (fun kv => wf_tv (snd kv) = true) m.
Proof.
  cbn [wf_tv]. rewrite andb_true_iff. intros [D W]. split; [apply keys_distinct_spec; exact D|].
  induction m as [|[k x] r IH]; [constructor|]. apply andb_true_iff in W as [W1 W2].
  constructor; [exact W1|]. apply IH; [|exact W2].
  cbn [keys_distinct] in D. apply andb_true_iff in D as [_ D]. exact D.
Qed.

Lemma wf_arr l : wf_tv (TArr l) = true -> Forall (fun e => wf_tv e = true) l.
Proof. cbn [wf_tv]. rewrite forallb_forall. intro H. apply Forall_forall. exact H. Qed.

Lemma order3_perm m : Permutation (order3 m) m.
Proof.
  unfold order3. induction m as [|[k x] r IH]; [constructor|]. cbn [filter snd].
  destruct (pass_cases x) as [(A & B & C)|[(A & B & C)|(A & B & C)]]; rewrite A, B, C.
  - cbn [app]. constructor. exact IH.
  - symmetry. apply Permutation_cons_app. symmetry. exact IH.
  - symmetry. rewrite app_assoc. apply Permutation_cons_app. rewrite <- app_assoc. symmetry. exact IH.
Qed.

Lemma iv_ok_inl m :
  iv_ok (VInl m) = keys_distinct m && forallb (fun kv => iv_ok (snd kv)) m.
Proof.
  cbn [iv_ok]. f_equal. induction m as [|[k x] r IH]; [reflexivity|]. cbn [forallb snd]. rewrite IH. reflexivity.
Qed.

Lemma iv_ok_inline ml v : wf_tv v = true -> iv_ok (inline_of ml v) = true.
Proof.
  induction v as [t|l IH|m IH] using tv_ind'; intro W.
  - reflexivity.
  - cbn [inline_of iv_ok]. rewrite forallb_map. apply forallb_forall. intros e He.
    rewrite Forall_forall in IH. apply IH; [exact He|]. apply wf_arr in W. rewrite Forall_forall in W. apply W. exact He.
  - rewrite inline_of_tab, iv_ok_inl. apply wf_tab in W as [ND W]. apply andb_true_iff. split.
    + apply keys_distinct_spec. rewrite map_map. cbn [fst].
      eapply Permutation_NoDup; [|exact ND]. apply Permutation_map. symmetry. apply order3_perm.
    + rewrite forallb_map. apply forallb_forall. intros kv Hin. cbn [snd].
      assert (Hm : In kv m) by (eapply Permutation_in; [apply order3_perm|exact Hin]).
      rewrite Forall_forall in IH, W. apply IH; [exact Hm|]. apply W. exact Hm.
Qed.

(* ------------------------------------------------------------------------------------------ *)
(** * the tree a reader builds from the canonical document *)

Definition line_node (ml : bool) (kv : bytes * tv) : bytes * rnode :=
  (fst kv, RVal (value_of (inline_of ml (snd kv)))).
Definition vis_std (ml : bool) (m : list (bytes * tv)) : bool := own_visible KStd m (own_lines ml true m).

Definition aot_of (es : list (list (bytes * rnode))) : rnode := RAot (removelast es) (last es []).

Fixpoint expect (ml : bool) (v : tv) : list (bytes * rnode) :=
  match v with
  | TTab m =>
    map (line_node ml) (filter (fun kv => is_plain (snd kv)) m ++ filter (fun kv => is_mixed (snd kv)) m) ++
    (fix aots (m : list (bytes * tv)) : list (bytes * rnode) :=
       match m with
       | [] => []
       | (k, x) :: r =>
         (if is_aot x
          then match x with
               | TArr l => [(k, aot_of (map (expect ml) l))]
               | _ => []
               end
          else []) ++ aots r
       end) m ++
    (fix tabs (m : list (bytes * tv)) : list (bytes * rnode) :=
       match m with
       | [] => []
       | (k, x) :: r =>
         (match x with TTab m' => [(k, RTab (vis_std ml m') (expect ml x))] | _ => [] end) ++ tabs r
       end) m
  | _ => []
  end.

(* the node an entry that is not a key/value line becomes *)
Definition sub_rnode (ml : bool) (x : tv) : rnode :=
  match x with
  | TTab m' => RTab (vis_std ml m') (expect ml x)
  | TArr l => aot_of (map (expect ml) l)
  | TLeaf t => RVal (TLeaf t)
  end.
Definition sub_entry (ml : bool) (kv : bytes * tv) : bytes * rnode := (fst kv, sub_rnode ml (snd kv)).

Lemma expect_tab ml m :
  expect ml (TTab m) =
  map (line_node ml) (filter (fun kv => is_plain (snd kv)) m ++ filter (fun kv => is_mixed (snd kv)) m) ++
  map (sub_entry ml) (filter (fun kv => is_aot (snd kv)) m) ++
  map (sub_entry ml) (filter (fun kv => is_table (snd kv)) m).
Proof.
  cbn [expect]. f_equal. f_equal.
  - induction m as [|[k x] r IH]; [reflexivity|]. rewrite IH. cbn [filter snd].
    destruct (is_aot x) eqn:A; [|reflexivity]. destruct x as [t|l|m']; try discriminate. reflexivity.
  - induction m as [|[k x] r IH]; [reflexivity|]. rewrite IH. cbn [filter snd].
    destruct x as [t|l|m']; reflexivity.
Qed.

Definition expect_root (ml three : bool) (m : list (bytes * tv)) : list (bytes * rnode) :=
  if three then expect ml (TTab m)
  else map (line_node ml) (filter (fun kv => is_line (snd kv)) m) ++
       map (sub_entry ml) (filter (fun kv => negb (is_line (snd kv))) m).

(* ------------------------------------------------------------------------------------------ *)
(** * groups of sub-sections *)

(* the sections of an entry that is a table or an array of tables, relative to its own key *)
Definition sub_group (ml : bool) (x : tv) : list section :=
  match x with
  | TTab _ => sections_at ml true x [] KStd
  | TArr l => flat_map (fun e => sections_at ml true e [] KArr) l
  | TLeaf _ => []
  end.

Definition shifted_group (ml : bool) (kv : bytes * tv) : list section :=
  map (shift [fst kv]) (sub_group ml (snd kv)).

Lemma elem_secs_group ml k l : elem_secs ml [] k l = map (shift [k]) (sub_group ml (TArr l)).
Proof.
  unfold elem_secs. cbn [sub_group app]. rewrite map_flat_map. apply flat_map_ext. intro e.
  exact (sections_shift ml e true [k] [] KArr).
Qed.

Lemma tab_secs_group ml k m' : tab_secs ml [] (k, TTab m') = shifted_group ml (k, TTab m').
Proof. unfold tab_secs, shifted_group. cbn [fst snd sub_group app]. exact (sections_shift ml (TTab m') true [k] [] KStd). Qed.

Lemma flat_map_filter {A B} (p : A -> bool) (f g : A -> list B) l :
  (forall x, f x = if p x then g x else []) -> flat_map f l = flat_map g (filter p l).
Proof.
  intro H. induction l as [|x r IH]; [reflexivity|]. cbn [flat_map filter]. rewrite H.
  destruct (p x); cbn [flat_map app]; rewrite IH; reflexivity.
Qed.

Lemma aot_secs_groups ml m :
  flat_map (aot_secs ml []) m = flat_map (shifted_group ml) (filter (fun kv => is_aot (snd kv)) m).
Proof.
  apply flat_map_filter. intros [k x]. unfold aot_secs, shifted_group. cbn [fst snd].
  destruct (is_aot x) eqn:A; [|reflexivity]. destruct x as [t|l|m']; try discriminate. apply elem_secs_group.
Qed.

Lemma tab_secs_groups ml m :
  flat_map (tab_secs ml []) m = flat_map (shifted_group ml) (filter (fun kv => is_table (snd kv)) m).
Proof.
  apply flat_map_filter. intros [k x]. destruct x as [t|l|m']; try reflexivity. apply tab_secs_group.
Qed.

Lemma sub_secs_groups ml m :
  flat_map (sub_secs ml []) m = flat_map (shifted_group ml) (filter (fun kv => negb (is_line (snd kv))) m).
Proof.
  apply flat_map_filter. intros [k x]. unfold sub_secs, shifted_group, is_line. cbn [fst snd].
  destruct x as [t|l|m'].
  - reflexivity.
  - cbn [is_table negb andb]. destruct (is_aot (TArr l)) eqn:A; [|reflexivity]. cbn [negb]. apply elem_secs_group.
  - cbn [is_table negb andb]. exact (tab_secs_group ml k m').
Qed.

Lemma shifted_nonroot ml kv : Forall nonroot (shifted_group ml kv).
Proof. unfold shifted_group. apply Forall_forall. intros s H. apply in_map_iff in H as (s' & <- & _). discriminate. Qed.

Lemma groups_nonroot ml l : Forall nonroot (flat_map (shifted_group ml) l).
Proof.
  induction l as [|kv r IH]; [constructor|]. cbn [flat_map]. apply Forall_app. split; [apply shifted_nonroot|exact IH].
Qed.

(* what must hold of an entry for its group to be read as the node sub_rnode *)
Definition sub_ok (ml : bool) (x : tv) : Prop :=
  sub_group ml x <> [] /\ fold_place None (sub_group ml x) = Some (Some (sub_rnode ml x)).

Lemma subs_fold ml subs : forall mm,
  Forall (fun kv => sub_ok ml (snd kv)) subs -> NoDup (map fst subs) ->
  (forall k, In k (map fst subs) -> ~ In k (map fst mm)) ->
  fold_in mm (flat_map (shifted_group ml) subs) = Some (mm ++ map (sub_entry ml) subs).
Proof.
  induction subs as [|[k x] r IH]; intros mm Ok ND Dis.
  - cbn. rewrite app_nil_r. reflexivity.
  - inversion Ok as [|? ? [NE Hx] Ok']; subst. cbn [map fst] in ND, Dis. inversion ND as [|? ? Hk ND']; subst.
    cbn [flat_map]. rewrite fold_in_app. unfold shifted_group at 1. cbn [fst snd] in *.
    rewrite (fold_in_group k (sub_group ml x) mm NE).
    rewrite (rlookup_none k mm) by (apply Dis; left; reflexivity). rewrite Hx.
    rewrite (rset_new k _ mm) by (apply Dis; left; reflexivity).
    rewrite (IH (mm ++ [(k, sub_rnode ml x)]) Ok' ND').
    + cbn [map]. rewrite <- app_assoc. reflexivity.
    + intros k' Hin. rewrite map_app, in_app_iff. cbn [map fst In]. intros [H|[H|[]]].
      * apply (Dis k'); [right; exact Hin|exact H].
      * subst. contradiction.
Qed.

(* ------------------------------------------------------------------------------------------ *)
(** * every table writes at least one section *)

Lemma own_lines_nil ml k x r :
  own_lines ml true ((k, x) :: r) = [] -> is_plain x = false /\ is_mixed x = false.
Proof.
  unfold own_lines, lines_where. cbn [filter snd]. intro H. apply app_eq_nil in H as [H1 H2].
  split.
  - destruct (is_plain x); [discriminate|reflexivity].
  - destruct (is_mixed x); [discriminate|reflexivity].
Qed.

Lemma sections_nonempty ml v : is_table v = true -> forall p kind, sections_at ml true v p kind <> [].
Proof.
  induction v as [t|l IH|m IH] using tv_ind2; intro T; try discriminate. intros p kind.
  rewrite sections_at_tab. unfold own_section.
  destruct (own_visible kind m (own_lines ml true m)) eqn:V; [discriminate|].
  cbn [app]. destruct kind; try discriminate. cbn [own_visible] in V. apply negb_false_iff in V.
  apply andb_true_iff in V as [Vm Vl]. apply negb_true_iff in Vl.
  destruct m as [|[k x] r]; [discriminate|].
  assert (L : own_lines ml true ((k, x) :: r) = []) by (destruct (own_lines ml true ((k, x) :: r)); [reflexivity|discriminate]).
  apply own_lines_nil in L as [L1 L2].
  inversion IH as [|? ? [Hx Hl] _]; subst. cbn [snd] in *.
  destruct (class_cases x) as [(A & B & C & D)|[(A & B & C & D)|[(A & B & C & D)|(A & B & C & D)]]]; try congruence.
  - (* an array of tables: its first element writes [[k]] *)
    destruct x as [t|l|m']; try discriminate. destruct l as [|e q]; [discriminate|].
    cbn [flat_map]. unfold aot_secs at 1. cbn [fst snd]. rewrite C. unfold elem_secs. cbn [flat_map].
    specialize (Hl (e :: q) eq_refl). inversion Hl as [|? ? He _]; subst.
    cbn [is_aot forallb] in C. apply andb_true_iff in C as [Te _].
    intro H. apply app_eq_nil in H as [H _]. apply app_eq_nil in H as [H _]. apply app_eq_nil in H as [H _].
    exact (He Te _ _ H).
  - destruct x as [t|l|m']; try discriminate.
    cbn [flat_map]. unfold tab_secs at 1. cbn [fst snd].
    intro H. apply app_eq_nil in H as [_ H]. apply app_eq_nil in H as [H _]. exact (Hx eq_refl _ _ H).
Qed.

(* ------------------------------------------------------------------------------------------ *)
(** * one table: its lines, then the groups of its sub-entries *)

Lemma table_fold ml (le se : list (bytes * tv)) :
  NoDup (map fst (le ++ se)) ->
  Forall (fun kv => wf_tv (snd kv) = true) le ->
  Forall (fun kv => sub_ok ml (snd kv)) se ->
  add_lines (map (fun kv => (fst kv, inline_of ml (snd kv))) le) [] = Some (map (line_node ml) le) /\
  fold_in (map (line_node ml) le) (flat_map (shifted_group ml) se)
  = Some (map (line_node ml) le ++ map (sub_entry ml) se).
Proof.
  intros ND W Ok. rewrite map_app in ND. apply NoDup_app_inv in ND as (N1 & N2 & Dis). split.
  - rewrite add_lines_ok.
    + cbn [app]. rewrite map_map. reflexivity.
    + rewrite map_map. exact N1.
    + intros k _ [].
    + apply Forall_forall. intros kv Hin. apply in_map_iff in Hin as (kv' & <- & Hin'). cbn [snd].
      apply iv_ok_inline. rewrite Forall_forall in W. apply W. exact Hin'.
  - apply subs_fold; [exact Ok|exact N2|].
    intros k Hk Hin. rewrite map_map in Hin. cbn [fst] in Hin. exact (Dis k Hin Hk).
Qed.

Definition aot_start (n0 : option rnode) (done' : list (list (bytes * rnode))) : Prop :=
  (n0 = None /\ done' = []) \/ (exists done cur, n0 = Some (RAot done cur) /\ done' = done ++ [cur]).

Definition read_std (ml : bool) (m : list (bytes * tv)) : Prop :=
  fold_place None (sections_at ml true (TTab m) [] KStd) = Some (Some (RTab (vis_std ml m) (expect ml (TTab m)))).
Definition read_arr (ml : bool) (m : list (bytes * tv)) : Prop :=
  forall n0 done', aot_start n0 done' ->
  fold_place n0 (sections_at ml true (TTab m) [] KArr) = Some (Some (RAot done' (expect ml (TTab m)))).

Definition lines_e (m : list (bytes * tv)) := filter (fun kv => is_plain (snd kv)) m ++ filter (fun kv => is_mixed (snd kv)) m.
Definition subs_e (m : list (bytes * tv)) := filter (fun kv => is_aot (snd kv)) m ++ filter (fun kv => is_table (snd kv)) m.

Lemma order4_split m : order4 m = lines_e m ++ subs_e m.
Proof. unfold order4, lines_e, subs_e. rewrite <- app_assoc. reflexivity. Qed.

Lemma own_lines_e ml m : own_lines ml true m = map (fun kv => (fst kv, inline_of ml (snd kv))) (lines_e m).
Proof. unfold own_lines, lines_where, lines_e. rewrite map_app. reflexivity. Qed.

Lemma expect_split ml m : expect ml (TTab m) = map (line_node ml) (lines_e m) ++ map (sub_entry ml) (subs_e m).
Proof. rewrite expect_tab. unfold lines_e, subs_e. rewrite !map_app. reflexivity. Qed.

Lemma rest_groups ml m :
  flat_map (aot_secs ml []) m ++ flat_map (tab_secs ml []) m = flat_map (shifted_group ml) (subs_e m).
Proof. rewrite aot_secs_groups, tab_secs_groups. unfold subs_e. rewrite flat_map_app. reflexivity. Qed.

Lemma Forall_filter_in {A} (P : A -> Prop) f l : Forall P l -> Forall P (filter f l).
Proof. apply Forall_filter. Qed.

Lemma read_level ml m :
  NoDup (map fst m) -> Forall (fun kv => wf_tv (snd kv) = true) m ->
  Forall (fun kv => sub_ok ml (snd kv)) (subs_e m) ->
  read_std ml m /\ read_arr ml m.
Proof.
  intros ND W Ok.
  assert (ND4 : NoDup (map fst (lines_e m ++ subs_e m))) by (rewrite <- order4_split; apply order4_nodup; exact ND).
  assert (Wl : Forall (fun kv => wf_tv (snd kv) = true) (lines_e m)).
  { unfold lines_e. apply Forall_app. split; apply Forall_filter; exact W. }
  destruct (table_fold ml (lines_e m) (subs_e m) ND4 Wl Ok) as [HL HS].
  rewrite <- own_lines_e in HL.
  split.
  - unfold read_std. pose proof (sections_nonempty ml (TTab m) eq_refl [] KStd) as NE.
    rewrite sections_at_tab in NE |- *. rewrite rest_groups in NE |- *. unfold own_section in NE |- *.
    fold (vis_std ml m) in NE |- *. destruct (vis_std ml m) eqn:V.
    + cbn [app fold_place]. unfold place_sec. cbn [s_path s_kind s_lines place]. rewrite HL. cbn [optmap].
      rewrite fold_place_tab by apply groups_nonroot. rewrite HS. cbn [optmap]. rewrite expect_split. reflexivity.
    + cbn [app] in NE |- *. rewrite fold_place_none; [|apply groups_nonroot|exact NE].
      assert (L0 : lines_e m = []).
      { unfold vis_std in V. cbn [own_visible] in V. apply negb_false_iff in V. apply andb_true_iff in V as [_ V].
        apply negb_true_iff in V. rewrite own_lines_e in V. destruct (lines_e m); [reflexivity|discriminate]. }
      rewrite L0 in HS. cbn [map] in HS. rewrite HS. cbn [optmap app]. rewrite expect_split, L0. reflexivity.
  - intros n0 done' St. rewrite sections_at_tab, rest_groups. unfold own_section. cbn [own_visible app fold_place].
    unfold place_sec. cbn [s_path s_kind s_lines].
    assert (P0 : place n0 [] KArr (own_lines ml true m) = Some (RAot done' (map (line_node ml) (lines_e m)))).
    { destruct St as [[-> ->]|(done & cur & -> & ->)]; cbn [place]; rewrite HL; reflexivity. }
    rewrite P0. rewrite fold_place_aot by apply groups_nonroot. rewrite HS. cbn [optmap]. rewrite expect_split. reflexivity.
Qed.

Lemma sub_ok_tab ml m' : read_std ml m' -> sub_ok ml (TTab m').
Proof. intro H. split; [apply (sections_nonempty ml (TTab m') eq_refl)|exact H]. Qed.

Lemma removelast_cons {A} (a : A) l : l <> [] -> removelast (a :: l) = a :: removelast l.
Proof. destruct l; [congruence|reflexivity]. Qed.

Lemma last_cons {A} (a : A) l d : l <> [] -> last (a :: l) d = last l d.
Proof. destruct l; [congruence|reflexivity]. Qed.

Definition elem_ok (ml : bool) (e : tv) : Prop := exists m', e = TTab m' /\ read_arr ml m'.

Lemma elems_fold ml l : forall n0 done', aot_start n0 done' -> l <> [] -> Forall (elem_ok ml) l ->
  fold_place n0 (flat_map (fun e => sections_at ml true e [] KArr) l)
  = Some (Some (RAot (done' ++ removelast (map (expect ml) l)) (last (map (expect ml) l) []))).
Proof.
  induction l as [|e r IH]; intros n0 done' St NE Ok; [congruence|].
  inversion Ok as [|? ? (m' & -> & He) Ok']; subst. cbn [flat_map]. rewrite fold_place_app.
  rewrite (He n0 done' St). destruct r as [|e' r'].
  - cbn. rewrite app_nil_r. reflexivity.
  - rewrite (IH (Some (RAot done' (expect ml (TTab m')))) (done' ++ [expect ml (TTab m')])); [| |discriminate|exact Ok'].
    + cbn [map]. rewrite (removelast_cons (expect ml (TTab m')) (expect ml e' :: map (expect ml) r')) by discriminate.
      rewrite (last_cons (expect ml (TTab m')) (expect ml e' :: map (expect ml) r')) by discriminate.
      rewrite <- app_assoc. reflexivity.
    + right. exists done', (expect ml (TTab m')). split; reflexivity.
Qed.

Lemma sub_ok_aot ml l : l <> [] -> Forall (elem_ok ml) l -> sub_ok ml (TArr l).
Proof.
  intros NE Ok. split.
  - destruct l as [|e r]; [congruence|]. inversion Ok as [|? ? (m' & -> & _) _]; subst.
    cbn [sub_group flat_map]. intro H. apply app_eq_nil in H as [H _].
    exact (sections_nonempty ml (TTab m') eq_refl _ _ H).
  - cbn [sub_group sub_rnode]. rewrite (elems_fold ml l None []); [reflexivity|left; split; reflexivity|exact NE|exact Ok].
Qed.

(* ------------------------------------------------------------------------------------------ *)
(** * every table with distinct keys, at any depth *)

Definition read_ok (ml : bool) (v : tv) : Prop :=
  forall m, v = TTab m -> wf_tv v = true -> read_std ml m /\ read_arr ml m.

Lemma sub_ok_entry ml x :
  (read_ok ml x /\ forall l, x = TArr l -> Forall (read_ok ml) l) ->
  wf_tv x = true -> is_aot x = true \/ is_table x = true -> sub_ok ml x.
Proof.
  intros [Hx Hl] W [A|T].
  - destruct x as [t|l|m']; try discriminate. specialize (Hl l eq_refl).
    assert (NE : l <> []) by (destruct l; [discriminate|discriminate]).
    apply sub_ok_aot; [exact NE|].
    assert (Tl : forallb is_table l = true) by (destruct l; [discriminate|exact A]).
    apply wf_arr in W. clear A NE Hx. induction l as [|e r IH]; [constructor|].
    cbn [forallb] in Tl. apply andb_true_iff in Tl as [T1 T2].
    inversion Hl as [|? ? He Hr]; subst. inversion W as [|? ? We Wr]; subst.
    constructor; [|apply IH; assumption].
    destruct e as [t|l'|m']; try discriminate. exists m'. split; [reflexivity|]. exact (proj2 (He m' eq_refl We)).
  - destruct x as [t|l|m']; try discriminate. apply sub_ok_tab. exact (proj1 (Hx m' eq_refl W)).
Qed.

Lemma read_ok_all ml v : read_ok ml v.
Proof.
  induction v as [t|l IH|m IH] using tv_ind2; intros m0 E W; try discriminate.
  injection E as <-. apply wf_tab in W as [ND W]. apply read_level; [exact ND|exact W|].
  unfold subs_e. apply Forall_app. split; apply Forall_forall; intros kv Hin; apply filter_In in Hin as [Hin F];
    rewrite Forall_forall in IH, W; (apply sub_ok_entry; [apply IH; exact Hin|apply W; exact Hin|]); [left|right]; exact F.
Qed.

Lemma sub_ok_all ml x : wf_tv x = true -> is_aot x = true \/ is_table x = true -> sub_ok ml x.
Proof.
  intros W C. apply sub_ok_entry; [|exact W|exact C]. split; [apply read_ok_all|].
  intros l _. apply Forall_forall. intros e _. apply read_ok_all.
Qed.

(* ------------------------------------------------------------------------------------------ *)
(** * the whole document *)

Lemma place_all_fold_in d : forall mm, Forall nonroot d -> place_all mm d = fold_in mm d.
Proof.
  induction d as [|s r IH]; intros mm H; [reflexivity|]. inversion H as [|? ? Hs Hr]; subst.
  cbn [place_all fold_in]. unfold place_root, place_in. unfold nonroot in Hs.
  destruct (s_path s) as [|k p']; [congruence|].
  destruct (optmap (fun n' => rset k n' mm) (place (rlookup k mm) p' (s_kind s) (s_lines s))); [apply IH; exact Hr|reflexivity].
Qed.

Lemma filter_negb_perm {A} (f : A -> bool) l : Permutation (filter f l ++ filter (fun x => negb (f x)) l) l.
Proof.
  induction l as [|x r IH]; [constructor|]. cbn [filter]. destruct (f x); cbn [negb app].
  - constructor. exact IH.
  - symmetry. apply Permutation_cons_app. symmetry. exact IH.
Qed.

Lemma not_line_cases x : negb (is_line x) = true -> is_aot x = true \/ is_table x = true.
Proof.
  unfold is_line. destruct (is_table x); [right; reflexivity|]. destruct (is_aot x); [left; reflexivity|discriminate].
Qed.

Theorem place_all_canonical ml three m :
  wf_tv (TTab m) = true -> place_all [] (sections_of ml three m) = Some (expect_root ml three m).
Proof.
  intro W0. pose proof W0 as W1. apply wf_tab in W1 as [ND W].
  unfold sections_of. rewrite sections_at_tab. unfold own_section. cbn [own_visible app place_all].
  unfold place_root. cbn [s_path s_kind s_lines]. destruct three.
  - assert (ND4 : NoDup (map fst (lines_e m ++ subs_e m))) by (rewrite <- order4_split; apply order4_nodup; exact ND).
    assert (Wl : Forall (fun kv => wf_tv (snd kv) = true) (lines_e m)).
    { unfold lines_e. apply Forall_app. split; apply Forall_filter; exact W. }
    assert (Ok : Forall (fun kv => sub_ok ml (snd kv)) (subs_e m)).
    { unfold subs_e. apply Forall_app. split; apply Forall_forall; intros kv Hin; apply filter_In in Hin as [Hin F];
        rewrite Forall_forall in W; (apply sub_ok_all; [apply W; exact Hin|]); [left|right]; exact F. }
    destruct (table_fold ml (lines_e m) (subs_e m) ND4 Wl Ok) as [HL HS].
    rewrite <- own_lines_e in HL. rewrite HL, rest_groups.
    rewrite place_all_fold_in by apply groups_nonroot. rewrite HS. cbn [expect_root]. rewrite expect_split. reflexivity.
  - set (le := filter (fun kv => is_line (snd kv)) m). set (se := filter (fun kv => negb (is_line (snd kv))) m).
    assert (ND2 : NoDup (map fst (le ++ se))).
    { eapply Permutation_NoDup; [|exact ND]. apply Permutation_map. symmetry. apply filter_negb_perm. }
    assert (Wl : Forall (fun kv => wf_tv (snd kv) = true) le) by (apply Forall_filter; exact W).
    assert (Ok : Forall (fun kv => sub_ok ml (snd kv)) se).
    { apply Forall_forall. intros kv Hin. apply filter_In in Hin as [Hin F]. rewrite Forall_forall in W.
      apply sub_ok_all; [apply W; exact Hin|]. apply not_line_cases. exact F. }
    destruct (table_fold ml le se ND2 Wl Ok) as [HL HS].
    unfold own_lines, lines_where. fold le. rewrite HL, sub_secs_groups. fold se.
    rewrite place_all_fold_in by apply groups_nonroot. rewrite HS. reflexivity.
Qed.
