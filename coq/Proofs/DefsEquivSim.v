(* Proofs/DefsEquivSim.v — C09: the simulation between the parse state machine (root plus the
   detached current table at st_path, implicit/dotted flags) and the spec state (one tree with
   kinds, current section addressed by its header path); one lemma per statement kind. *)
From TV Require Import Base.Prelude Base.Winnow Model.Tree Model.Parse Model.Document Spec.Defs.
From TV Require Import Proofs.DefsEquivBase Proofs.DefsEquivSpec Proofs.DefsEquivKv Proofs.DefsEquivWalk.

(* ---- small facts --------------------------------------------------------------------------- *)
Lemma pop_key_app pre k : pop_key (pre ++ [k]) = Some (pre, k).
Proof. unfold pop_key. rewrite rev_app_distr. cbn [rev app]. rewrite rev_involutive. reflexivity. Qed.

Lemma pop_key_none l : pop_key l = None -> l = [].
Proof.
  unfold pop_key. destruct (rev l) eqn:E; [|discriminate]. intros _.
  rewrite <- (rev_involutive l), E. reflexivity.
Qed.

Lemma pop_key_some l pre k : pop_key l = Some (pre, k) -> l = pre ++ [k].
Proof.
  unfold pop_key. destruct (rev l) as [|x r] eqn:E; [discriminate|]. intro H. inversion H; subst.
  rewrite <- (rev_involutive l), E. reflexivity.
Qed.

Lemma keys_app p q : keys (p ++ q) = keys p ++ keys q.
Proof. apply map_app. Qed.

Lemma abs_set_span t s : abs_tbl (t_set_span t s) = abs_tbl t.
Proof. rewrite !abs_tbl_eq. destruct t. reflexivity. Qed.
Lemma mok_set_span t s : mok_tbl (t_set_span t s) = mok_tbl t.
Proof. rewrite !mok_tbl_eq. destruct t. reflexivity. Qed.
Lemma implicit_set_span t s : t_implicit (t_set_span t s) = t_implicit t.
Proof. destruct t. reflexivity. Qed.
Lemma dotted_set_span t s : t_dotted (t_set_span t s) = t_dotted t.
Proof. destruct t. reflexivity. Qed.

Lemma at_path_swf p (f : stree value -> res (stree value)) T T' :
  swf_tree T = true ->
  (forall t t', swf_tree t = true -> f t = ROk t' -> swf_tree t' = true) ->
  at_path p f T = ROk T' -> swf_tree T' = true.
Proof.
  intros HT Hf H. rewrite at_path_lift in H.
  destruct (at_path_x p (lift f) T) as [[T1 []]| |] eqn:E; cbn [rbind fst] in H; inversion H; subst.
  refine (proj1 (at_path_x_swf (fun _ => True) p (lift f) T T' tt HT _ E)).
  intros t t' y Ht Hl. unfold lift in Hl. destruct (f t) as [r| |] eqn:Ef; cbn [rbind] in Hl; inversion Hl; subst.
  split; [eapply Hf; eassumption | exact I].
Qed.

Lemma def_table_swf k (t t' : stree value) : swf_tree t = true -> def_table k t = ROk t' -> swf_tree t' = true.
Proof.
  unfold def_table. intros Ht H. destruct (sget t k) as [[v|[| |] c|es]|] eqn:E; inversion H; subst.
  - destruct (swf_sremove t k Ht) as [H1 H2]. pose proof (swf_sget _ _ _ Ht E) as Hc.
    apply swf_spush; [exact H1 | rewrite swf_node_tab in *; exact Hc | exact H2].
  - apply swf_spush; [exact Ht | reflexivity | exact E].
Qed.

Lemma def_elem_swf k (t t' : stree value) : swf_tree t = true -> def_elem k t = ROk t' -> swf_tree t' = true.
Proof.
  unfold def_elem. intros Ht H. destruct (sget t k) as [[v|kd c|es]|] eqn:E; inversion H; subst.
  - pose proof (swf_sget _ _ _ Ht E) as Hc. rewrite swf_node_aot in Hc. apply andb_true_iff in Hc as [_ Hc].
    apply swf_sset; [exact Ht | apply swf_aot_snoc; [exact Hc | reflexivity]].
  - apply swf_spush; [exact Ht | reflexivity | exact E].
Qed.

(* ---- the invariant ------------------------------------------------------------------------- *)
Definition Inv (st : pstate) (S : sstate value) : Prop :=
  let '(T, cp) := S in
  cp = keys (st_path st) /\
  mok_tbl (st_root st) = true /\ mok_tbl (st_current st) = true /\
  t_implicit (st_current st) = false /\ t_dotted (st_current st) = false /\
  swf_tree T = true /\ swf_tree (abs_tbl (st_current st)) = true /\
  match pop_key (st_path st) with
  | None => t_items (st_root st) = [] /\ T = abs_tbl (st_current st)
  | Some (pre, k) =>
    at_path_x (keys pre) (plug (st_is_array st) (k_key k) (abs_tbl (st_current st))) (abs_tbl (st_root st))
    = ROk (T, tt)
  end.

Lemma Inv_init : Inv state_new sstate0.
Proof. cbv [Inv state_new sstate0]. repeat split; reflexivity. Qed.

(* ---- finalize_table re-attaches the section where the spec tree has it --------------------- *)
Definition finalized (st : pstate) (root' : tbl) : pstate :=
  mkState root' (st_trailing st) (st_position st) tbl_new (st_is_array st) [].

Definition faf (k : key) (table parent : tbl) : cres (tbl * unit) :=
  match kv_get (t_items parent) (k_key k) with
  | None => COk (t_set_items parent (kv_push (t_items parent) k (IAot [table] (union_span (t_span table) (t_span table)))), tt)
  | Some (_, IAot ts _) =>
    let ts' := ts ++ [table] in
    let sp := match ts' with
              | first :: _ => union_span (t_span first) (t_span table)
              | [] => None
              end in
    COk (t_set_items parent (kv_set (t_items parent) (k_key k) (IAot ts' sp)), tt)
  | Some _ => CErr DuplicateKey
  end.

Definition ftf (k : key) (table parent : tbl) : cres (tbl * unit) :=
  match kv_get (t_items parent) (k_key k) with
  | Some (_, ITable t) =>
    if t_implicit t then COk (t_set_items parent (kv_set (t_items parent) (k_key k) (ITable table)), tt)
    else CErr DuplicateKey
  | Some _ => CErr DuplicateKey
  | None => COk (t_set_items parent (kv_push (t_items parent) k (ITable table)), tt)
  end.

Lemma finalize_table_eq st :
  finalize_table st =
  match pop_key (st_path st) with
  | None => if tbl_is_empty (st_root st) then COk (finalized st (st_current st)) else CPanic P_root_not_empty
  | Some (ppath, k) =>
    match with_table_at (st_root st) ppath false ((if st_is_array st then faf else ftf) k (st_current st)) with
    | COk (root', _) => COk (finalized st root')
    | CErr c => CErr c
    | CPanic s => CPanic s
    end
  end.
Proof.
  unfold finalize_table, finalized. destruct (pop_key (st_path st)) as [[pp k]|]; [destruct (st_is_array st)|]; reflexivity.
Qed.

Lemma faf_ok k cur t0 T' y :
  mok_tbl cur = true -> t_dotted cur = false ->
  mok_tbl t0 = true -> plug true (k_key k) (abs_tbl cur) (abs_tbl t0) = ROk (T', y) ->
  okres (fun (_ _ : unit) => True) t0 (faf k cur t0) T' y.
Proof.
  intros Hmc Hcd Hm0 Hg. unfold plug in Hg. unfold faf. rewrite (abs_tbl_eq t0), abs_get in Hg. rewrite mok_tbl_eq in Hm0.
  destruct (kv_get (t_items t0) (k_key k)) as [[k' it]|] eqn:E; [|discriminate].
  pose proof (mok_get _ _ _ _ Hm0 E) as Hit.
  destruct it as [|v|sub|ts sp]; try discriminate.
  rewrite abs_item_aot in Hg. inversion Hg; subst. cbv zeta.
  eexists _, tt. split; [reflexivity|]. split.
  { rewrite abs_set_items, abs_set, abs_item_aot, map_app. reflexivity. }
  split; [exact I|]. split.
  { rewrite mok_set_items. apply mok_set; [exact Hm0|]. rewrite mok_item_aot in Hit.
    apply mok_aot_snoc; assumption. }
  split; [apply implicit_set_items | apply dotted_set_items].
Qed.

Lemma ftf_ok k cur t0 T' y :
  mok_tbl cur = true -> t_implicit cur = false ->
  mok_tbl t0 = true -> plug false (k_key k) (abs_tbl cur) (abs_tbl t0) = ROk (T', y) ->
  okres (fun (_ _ : unit) => True) t0 (ftf k cur t0) T' y.
Proof.
  intros Hmc Hci Hm0 Hg. unfold plug in Hg. unfold ftf. rewrite (abs_tbl_eq t0), abs_get in Hg. rewrite mok_tbl_eq in Hm0.
  destruct (kv_get (t_items t0) (k_key k)) as [[k' it]|] eqn:E; [discriminate|].
  inversion Hg; subst.
  eexists _, tt. split; [reflexivity|]. split.
  { rewrite abs_set_items, abs_push. cbn [abs_item]. unfold kind_of. rewrite Hci. reflexivity. }
  split; [exact I|]. split.
  { rewrite mok_set_items. apply mok_push; [exact Hm0 | exact Hmc]. }
  split; [apply implicit_set_items | apply dotted_set_items].
Qed.

Lemma finalize_sim st T cp :
  Inv st (T, cp) ->
  exists root', finalize_table st = COk (finalized st root') /\ abs_tbl root' = T /\ mok_tbl root' = true.
Proof.
  intros (Hcp & Hmr & Hmc & Hci & Hcd & HsT & HsC & Hplug).
  rewrite finalize_table_eq. destruct (pop_key (st_path st)) as [[pre k]|] eqn:Ep.
  - destruct (st_is_array st) eqn:Earr.
    + destruct (wta_ok (fun (_ _ : unit) => True) (faf k (st_current st)) (plug true (k_key k) (abs_tbl (st_current st)))
                  (fun t0 T' y => faf_ok k (st_current st) t0 T' y Hmc Hcd) pre (st_root st) T tt Hmr Hplug)
        as (root' & x & Hr & Ha & _ & Hm' & _).
      rewrite Hr. exists root'. auto.
    + destruct (wta_ok (fun (_ _ : unit) => True) (ftf k (st_current st)) (plug false (k_key k) (abs_tbl (st_current st)))
                  (fun t0 T' y => ftf_ok k (st_current st) t0 T' y Hmc Hci) pre (st_root st) T tt Hmr Hplug)
        as (root' & x & Hr & Ha & _ & Hm' & _).
      rewrite Hr. exists root'. auto.
  - destruct Hplug as [Hroot HT]. unfold tbl_is_empty. rewrite Hroot. cbn [forallb].
    exists (st_current st). subst T. auto.
Qed.

(* ---- [table] -------------------------------------------------------------------------------- *)
Definition stf (k : key) (parent : tbl) : cres (tbl * option tbl) :=
  match kv_get (t_items parent) (k_key k) with
  | None => COk (parent, None)
  | Some (_, ITable t) =>
    if t_implicit t && negb (t_dotted t)
    then COk (t_set_items parent (kv_remove (t_items parent) (k_key k)), Some t)
    else CErr DuplicateKey
  | Some _ => CErr DuplicateKey
  end.

Lemma start_table_eq st pre k dec sp :
  start_table st (pre ++ [k]) dec sp =
  if negb (tbl_is_empty (st_current st)) then CPanic (P_debug_assert 1)
  else match st_path st with
       | _ :: _ => CPanic (P_debug_assert 2)
       | [] =>
         match with_table_at (st_root st) pre false (stf k) with
         | COk (root', taken_) =>
           COk (open_table st root' (match taken_ with Some t => t | None => st_current st end) (pre ++ [k]) dec sp false)
         | CErr c => CErr c
         | CPanic s => CPanic s
         end
       end.
Proof. unfold start_table. rewrite pop_key_app. reflexivity. Qed.

Definition phi_take (x : option tbl) (y : option (stree value)) : Prop :=
  match x, y with
  | None, None => True
  | Some t, Some c => abs_tbl t = c /\ mok_tbl t = true
  | _, _ => False
  end.

Lemma stf_ok k t0 T' y :
  mok_tbl t0 = true -> take (k_key k) (abs_tbl t0) = ROk (T', y) -> okres phi_take t0 (stf k t0) T' y.
Proof.
  intros Hm0 Hg. unfold take in Hg. unfold stf. rewrite abs_tbl_eq, abs_get in Hg. rewrite mok_tbl_eq in Hm0.
  destruct (kv_get (t_items t0) (k_key k)) as [[k' it]|] eqn:E.
  - pose proof (mok_get _ _ _ _ Hm0 E) as Hit.
    destruct it as [|v|sub|ts sp]; try discriminate.
    + cbn [abs_item] in Hg. unfold kind_of in Hg.
      destruct (t_implicit sub); [|discriminate]. destruct (t_dotted sub); [discriminate|].
      inversion Hg; subst. cbn [andb negb].
      eexists _, _. split; [reflexivity|]. split; [rewrite abs_set_items, abs_remove; reflexivity|].
      split; [cbn [phi_take]; auto|]. split; [rewrite mok_set_items; apply mok_remove; exact Hm0|].
      split; [apply implicit_set_items | apply dotted_set_items].
  - inversion Hg; subst. eexists _, _. split; [reflexivity|]. split; [apply abs_tbl_eq|].
    split; [exact I|]. rewrite mok_tbl_eq. auto.
Qed.

Lemma stf_inv k t0 :
  mok_tbl t0 = true -> take (k_key k) (abs_tbl t0) = RInvalid -> exists c, stf k t0 = CErr c.
Proof.
  intros Hm0 Hg. unfold take in Hg. unfold stf. rewrite abs_tbl_eq, abs_get in Hg.
  destruct (kv_get (t_items t0) (k_key k)) as [[k' it]|] eqn:E; [|discriminate].
  destruct it as [|v|sub|ts sp]; try (eexists; reflexivity).
  cbn [abs_item] in Hg. unfold kind_of in Hg.
  destruct (t_implicit sub); [|eexists; reflexivity]. destruct (t_dotted sub); [eexists; reflexivity|discriminate].
Qed.

Lemma take_swf k (t t' : stree value) y :
  swf_tree t = true -> take k t = ROk (t', y) -> swf_tree t' = true /\ swf_tree (odflt y) = true.
Proof.
  unfold take. intros Ht H. destruct (sget t k) as [[v|[| |] c|es]|] eqn:E; inversion H; subst.
  - pose proof (swf_sget _ _ _ Ht E) as Hc. rewrite swf_node_tab in Hc.
    split; [apply (swf_sremove t k Ht) | exact Hc].
  - split; [exact Ht | reflexivity].
Qed.

Lemma start_table_sim st pre k dec sp T :
  st_path st = [] -> st_current st = tbl_new ->
  mok_tbl (st_root st) = true -> abs_tbl (st_root st) = T -> swf_tree T = true ->
  match at_path (keys pre) (def_table (k_key k)) T with
  | ROk T' => exists st', start_table st (pre ++ [k]) dec sp = COk st' /\ Inv st' (T', keys (pre ++ [k]))
  | RInvalid => exists c, start_table st (pre ++ [k]) dec sp = CErr c
  | RUndecided => True
  end.
Proof.
  intros Hp Hc Hmr Ha HsT. rewrite start_table_eq, Hp, Hc. cbn [tbl_is_empty tbl_new t_items forallb negb].
  rewrite at_path_lift.
  pose proof (at_path_x_status (fun t => swf_tree t = true) (keys pre) (take (k_key k)) (lift (def_table (k_key k))) T
                walk_closed_swf HsT (fun t _ => take_status (k_key k) t)) as Hst.
  destruct (at_path_x (keys pre) (take (k_key k)) T) as [[T2 oc]| |] eqn:Et; cbn [status] in Hst.
  - (* the header is accepted *)
    subst T.
    destruct (wta_ok phi_take (stf k) (take (k_key k)) (stf_ok k) pre (st_root st) T2 oc Hmr Et)
      as (root2 & taken & Hr & Ha2 & Hphi & Hm2 & _).
    rewrite Hr.
    pose proof (at_path_x_comp (keys pre) (take (k_key k)) (fun o => plug false (k_key k) (odflt o)) _ _ _ Et) as Hcomp.
    cbv beta in Hcomp.
    rewrite (at_path_x_ext (fun t => swf_tree t = true) (keys pre) _ (lift (def_table (k_key k))) _
               walk_closed_swf HsT (take_plug_def_table (k_key k))) in Hcomp.
    destruct (at_path_x (keys pre) (lift (def_table (k_key k))) (abs_tbl (st_root st))) as [[T' []]| |] eqn:Ed;
      cbn [status] in Hst; try discriminate.
    cbn [rbind fst]. eexists. split; [reflexivity|].
    destruct (at_path_x_swf (fun o => swf_tree (odflt o) = true) _ _ _ _ _ HsT (take_swf (k_key k)) Et) as [_ Hoc].
    assert (HsT' : swf_tree T' = true).
    { refine (proj1 (at_path_x_swf (fun _ => True) _ _ _ _ _ HsT _ Ed)).
      intros t t' y Ht Hl. unfold lift in Hl. destruct (def_table (k_key k) t) as [r| |] eqn:Ef; cbn [rbind] in Hl; inversion Hl; subst.
      split; [eapply def_table_swf; eassumption | exact I]. }
    assert (Hcur : abs_items (t_items (match taken with Some t => t | None => tbl_new end)) = odflt oc /\
                   mok_items (t_items (match taken with Some t => t | None => tbl_new end)) = true).
    { destruct taken as [tk|], oc as [c|]; cbn [phi_take] in Hphi; try contradiction.
      - destruct Hphi as [H1 H2]. rewrite <- abs_tbl_eq, <- mok_tbl_eq. auto.
      - split; reflexivity. }
    destruct Hcur as [Hcur1 Hcur2].
    unfold Inv, open_table.
    cbn [st_path st_root st_current st_is_array].
    rewrite pop_key_app.
    assert (Habs : forall d i dt p s, abs_tbl (Tbl (t_items (match taken with Some t => t | None => tbl_new end)) d i dt p s) = odflt oc).
    { intros. rewrite abs_tbl_eq. exact Hcur1. }
    rewrite !Habs.
    split; [reflexivity|]. split; [exact Hm2|]. split; [rewrite mok_tbl_eq; exact Hcur2|].
    split; [reflexivity|]. split; [reflexivity|]. split; [exact HsT'|]. split; [exact Hoc|].
    rewrite Ha2. exact Hcomp.
  - (* rejected *)
    destruct (at_path_x (keys pre) (lift (def_table (k_key k))) T) as [[T' []]| |] eqn:Ed;
      cbn [status] in Hst; try discriminate.
    cbn [rbind]. subst T.
    destruct (wta_inv (stf k) (take (k_key k)) (fun t0 Hm0 _ Hg => stf_inv k t0 Hm0 Hg) pre (st_root st) Hmr HsT Et) as [c Hc'].
    rewrite Hc'. eexists; reflexivity.
  - destruct (at_path_x (keys pre) (lift (def_table (k_key k))) T) as [[T' []]| |] eqn:Ed;
      cbn [status] in Hst; try discriminate.
    cbn [rbind]. exact I.
Qed.

(* ---- [[array of tables]] ------------------------------------------------------------------- *)
Definition saf (k : key) (parent : tbl) : cres (tbl * unit) :=
  match kv_get (t_items parent) (k_key k) with
  | None => COk (t_set_items parent (kv_push (t_items parent) k (IAot [] None)), tt)
  | Some (_, IAot _ _) => COk (parent, tt)
  | Some _ => CErr DuplicateKey
  end.

Lemma start_array_table_eq st pre k dec sp :
  start_array_table st (pre ++ [k]) dec sp =
  if negb (tbl_is_empty (st_current st)) then CPanic (P_debug_assert 1)
  else match st_path st with
       | _ :: _ => CPanic (P_debug_assert 2)
       | [] =>
         match with_table_at (st_root st) pre false (saf k) with
         | COk (root', _) => COk (open_table st root' (st_current st) (pre ++ [k]) dec sp true)
         | CErr c => CErr c
         | CPanic s => CPanic s
         end
       end.
Proof. unfold start_array_table. rewrite pop_key_app. reflexivity. Qed.

Lemma saf_ok k t0 T' y :
  mok_tbl t0 = true -> mk_aot (k_key k) (abs_tbl t0) = ROk (T', y) ->
  okres (fun (_ _ : unit) => True) t0 (saf k t0) T' y.
Proof.
  intros Hm0 Hg. unfold mk_aot in Hg. unfold saf. rewrite abs_tbl_eq, abs_get in Hg. rewrite mok_tbl_eq in Hm0.
  destruct (kv_get (t_items t0) (k_key k)) as [[k' it]|] eqn:E.
  - pose proof (mok_get _ _ _ _ Hm0 E) as Hit.
    destruct it as [|v|sub|ts sp]; try discriminate.
    rewrite abs_item_aot in Hg. inversion Hg; subst.
    eexists _, tt. split; [reflexivity|]. split; [apply abs_tbl_eq|]. split; [exact I|].
    rewrite mok_tbl_eq. auto.
  - inversion Hg; subst. eexists _, tt. split; [reflexivity|].
    split; [rewrite abs_set_items, abs_push; reflexivity|]. split; [exact I|].
    split; [rewrite mok_set_items; apply mok_push; [exact Hm0 | reflexivity]|].
    split; [apply implicit_set_items | apply dotted_set_items].
Qed.

Lemma saf_inv k t0 :
  mok_tbl t0 = true -> mk_aot (k_key k) (abs_tbl t0) = RInvalid -> exists c, saf k t0 = CErr c.
Proof.
  intros Hm0 Hg. unfold mk_aot in Hg. unfold saf. rewrite abs_tbl_eq, abs_get in Hg.
  destruct (kv_get (t_items t0) (k_key k)) as [[k' it]|] eqn:E; [|discriminate].
  destruct it as [|v|sub|ts sp]; try (eexists; reflexivity).
  rewrite abs_item_aot in Hg. discriminate.
Qed.

Lemma start_array_table_sim st pre k dec sp T :
  st_path st = [] -> st_current st = tbl_new ->
  mok_tbl (st_root st) = true -> abs_tbl (st_root st) = T -> swf_tree T = true ->
  match at_path (keys pre) (def_elem (k_key k)) T with
  | ROk T' => exists st', start_array_table st (pre ++ [k]) dec sp = COk st' /\ Inv st' (T', keys (pre ++ [k]))
  | RInvalid => exists c, start_array_table st (pre ++ [k]) dec sp = CErr c
  | RUndecided => True
  end.
Proof.
  intros Hp Hc Hmr Ha HsT. rewrite start_array_table_eq, Hp, Hc. cbn [tbl_is_empty tbl_new t_items forallb negb].
  rewrite at_path_lift.
  pose proof (at_path_x_status (fun _ => True) (keys pre) (mk_aot (k_key k)) (lift (def_elem (k_key k))) T
                walk_closed_true I (fun t _ => mk_aot_status (k_key k) t)) as Hst.
  destruct (at_path_x (keys pre) (mk_aot (k_key k)) T) as [[T2 []]| |] eqn:Et; cbn [status] in Hst.
  - subst T.
    destruct (wta_ok (fun (_ _ : unit) => True) (saf k) (mk_aot (k_key k)) (saf_ok k) pre (st_root st) T2 tt Hmr Et)
      as (root2 & x & Hr & Ha2 & _ & Hm2 & _).
    rewrite Hr.
    pose proof (at_path_x_comp (keys pre) (mk_aot (k_key k)) (fun _ => plug true (k_key k) []) _ _ _ Et) as Hcomp.
    cbv beta in Hcomp.
    rewrite (at_path_x_ext (fun _ => True) (keys pre) _ (lift (def_elem (k_key k))) _
               walk_closed_true I (fun t _ => mk_aot_plug_def_elem (k_key k) t)) in Hcomp.
    destruct (at_path_x (keys pre) (lift (def_elem (k_key k))) (abs_tbl (st_root st))) as [[T' []]| |] eqn:Ed;
      cbn [status] in Hst; try discriminate.
    cbn [rbind fst]. eexists. split; [reflexivity|].
    assert (HsT' : swf_tree T' = true).
    { refine (proj1 (at_path_x_swf (fun _ => True) _ _ _ _ _ HsT _ Ed)).
      intros t t' y Ht Hl. unfold lift in Hl. destruct (def_elem (k_key k) t) as [r| |] eqn:Ef; cbn [rbind] in Hl; inversion Hl; subst.
      split; [eapply def_elem_swf; eassumption | exact I]. }
    unfold Inv, open_table. cbn [st_path st_root st_current st_is_array].
    rewrite pop_key_app.
    split; [reflexivity|]. split; [exact Hm2|]. split; [reflexivity|].
    split; [reflexivity|]. split; [reflexivity|]. split; [exact HsT'|]. split; [reflexivity|].
    rewrite Ha2. exact Hcomp.
  - destruct (at_path_x (keys pre) (lift (def_elem (k_key k))) T) as [[T' []]| |] eqn:Ed;
      cbn [status] in Hst; try discriminate.
    cbn [rbind]. subst T.
    destruct (wta_inv (saf k) (mk_aot (k_key k)) (fun t0 Hm0 _ Hg => saf_inv k t0 Hm0 Hg) pre (st_root st) Hmr HsT Et) as [c Hc'].
    rewrite Hc'. eexists; reflexivity.
  - destruct (at_path_x (keys pre) (lift (def_elem (k_key k))) T) as [[T' []]| |] eqn:Ed;
      cbn [status] in Hst; try discriminate.
    cbn [rbind]. exact I.
Qed.
