(* Proofs/FrontEnds.v — the serde front ends (Model/FrontEnds.v) against the parser and the tree:
   acceptance (C01) and decoded value (C02). *)
From TV Require Import Base.Prelude Base.Utf8 Model.Datetime Model.DatetimeStd Model.Tree Model.Document Spec.DatetimeSpec Spec.SerdeData.
From TV Require Import Model.Ser Model.De Model.SerdeSpanned Model.SerdeRoutes Extract.SpannedTree Model.FrontEnds.
From TV Require Import Proofs.DatetimeEq Proofs.NoPanicTop Proofs.SerdeRTFmt.
From TV Require Import Extract.Show.
Require Import String.

(* ---- the value visitor on a tree of a parsed document ---- *)
Lemma mapM_ok {A C} (f : A -> result C) (g : A -> C) l :
  Forall (fun a => f a = Ok (g a)) l -> mapM f l = Ok (map g l).
Proof. induction 1 as [|a l H _ IH]; [reflexivity|]. cbn [mapM map]. rewrite H. cbn [rbind]. rewrite IH. reflexivity. Qed.

Lemma dt_roundtrip d : in_range d = true -> de_dt_str (display_datetime d) = Ok d.
Proof. intro H. unfold de_dt_str. rewrite (print_parse_std d H). reflexivity. Qed.

Definition ckx (kx : bytes * tomlval) : bytes * tomlval := (fst kx, canon_value true (snd kx)).

Lemma canon_tab es : canon_value true (VTab es) = VTab (btree_of_pairs (map ckx es)).
Proof. reflexivity. Qed.

Lemma entries_ok es :
  Forall (fun kx => tree_ready (snd kx) = true -> has_private_key (snd kx) = false ->
                    to_toml_value (snd kx) = Ok (canon_value true (snd kx))) es ->
  forallb (fun kx => tree_ready (snd kx)) es = true ->
  existsb (fun kx => has_private_key (snd kx)) es = false ->
  mapM (fun kx => rmap (fun y' => (fst kx, y')) (to_toml_value (snd kx))) es = Ok (map ckx es).
Proof.
  intros IH R P. apply mapM_ok. rewrite Forall_forall in IH |- *. intros kx Hin.
  rewrite forallb_forall in R. specialize (R kx Hin).
  assert (Pk : has_private_key (snd kx) = false).
  { destruct (has_private_key (snd kx)) eqn:E; [|reflexivity].
    assert (X : existsb (fun kx0 => has_private_key (snd kx0)) es = true) by (apply existsb_exists; exists kx; auto). congruence. }
  rewrite (IH kx Hin R Pk). reflexivity.
Qed.

Lemma existsb_or_false {A} (f g : A -> bool) l :
  existsb (fun a => f a || g a) l = false -> existsb f l = false /\ existsb g l = false.
Proof.
  induction l as [|a l IH]; [auto|]. cbn [existsb]. intro H. apply orb_false_iff in H as [H1 H2].
  apply orb_false_iff in H1 as [F G]. destruct (IH H2) as [I1 I2]. rewrite F, G, I1, I2. auto.
Qed.

Theorem value_visitor_ok x :
  tree_ready x = true -> has_private_key x = false -> to_toml_value x = Ok (canon_value true x).
Proof.
  induction x using tomlval_ind2; intros R P; try reflexivity.
  - cbn [to_toml_value]. cbn [tree_ready] in R. rewrite (dt_roundtrip d R). reflexivity.
  - cbn [to_toml_value canon_value]. cbn [tree_ready has_private_key] in R, P.
    rewrite (mapM_ok to_toml_value (canon_value true)); [reflexivity|].
    rewrite Forall_forall in H |- *. intros y Hin. rewrite forallb_forall in R.
    apply H; [exact Hin|apply R; exact Hin|].
    destruct (has_private_key y) eqn:E; [|reflexivity].
    assert (X : existsb has_private_key xs = true) by (apply existsb_exists; exists y; auto). congruence.
  - rewrite canon_tab. cbn [tree_ready has_private_key] in R, P. apply andb_true_iff in R as [ND R].
    apply existsb_or_false in P as [P1 P2].
    cbn [to_toml_value]. destruct es as [|[k y] es']; [reflexivity|].
    assert (Ek : bytes_eqb k DT_FIELD = false).
    { cbn [existsb fst] in P1. apply orb_false_iff in P1 as [E _]. exact E. }
    rewrite Ek. rewrite (entries_ok _ H R P2). cbn [rbind].
    replace (map fst (map ckx ((k, y) :: es'))) with (map fst ((k, y) :: es')) by (rewrite map_map; reflexivity).
    rewrite ND. reflexivity.
Qed.

Theorem table_visitor_ok es :
  tree_ready (VTab es) = true -> has_private_key_below_root (VTab es) = false ->
  to_toml_table (VTab es) = Ok (canon_value true (VTab es)).
Proof.
  intros R P. rewrite canon_tab. cbn [tree_ready has_private_key_below_root] in R, P. apply andb_true_iff in R as [_ R].
  cbn [to_toml_table]. rewrite (entries_ok es); [reflexivity| |exact R|exact P].
  apply Forall_forall. intros kx _. apply value_visitor_ok.
Qed.

(* the root of a document is a table *)
Lemma tree_of_doc_tab d x : tree_of_doc d = Some x -> exists es, x = VTab es.
Proof.
  unfold tree_of_doc. destruct (doc_root d) as [items dc im dt p sp]. cbn [st_tbl].
  destruct (opt_all _) as [es|]; [|discriminate]. cbn [optmap strip]. intro E. injection E as <-. eauto.
Qed.

(* ---- C01 ---- *)
Lemma from_slice_cases bs :
  from_slice_table bs = (if utf8_valid_b bs then toml_from_str_table bs else FUtf8Err).
Proof. reflexivity. Qed.

Lemma no_panic_front conv s : from_str_with conv s <> FPanic.
Proof.
  unfold from_str_with. destruct (parse_document s) as [d|e a|st] eqn:E.
  - destruct (tree_of_doc d); [destruct (conv t)|]; discriminate.
  - discriminate.
  - exfalso. exact (proj1 (entry_points_total s st) E).
Qed.

Theorem slice_front bs :
  (utf8_valid_b bs = false -> from_slice_table bs = FUtf8Err) /\
  (utf8_valid_b bs = true -> from_slice_table bs = toml_from_str_table bs) /\
  from_slice_table bs <> FPanic /\
  (accepts (from_slice_table bs) <-> utf8_valid_b bs = true /\ accepts (toml_from_str_table bs)).
Proof.
  unfold from_slice_table, edit_from_str_table, toml_from_str_table. destruct (utf8_valid_b bs).
  - split; [discriminate|]. split; [reflexivity|]. split; [apply no_panic_front|]. tauto.
  - split; [reflexivity|]. split; [discriminate|]. split; [discriminate|].
    split; [intros [a H]; discriminate|intros [H _]; discriminate].
Qed.

(* every front end runs the parser first: a refused document is refused everywhere, with a parse error *)
Theorem rejected_everywhere s e a :
  parse_document s = PErr e a ->
  toml_from_str_table s = FParseErr /\ toml_from_str_value s = FParseErr /\ edit_from_str_table s = FParseErr /\
  edit_parse s = FParseErr /\ (utf8_valid_b s = true -> from_slice_table s = FParseErr).
Proof.
  intro H. unfold toml_from_str_table, toml_from_str_value, edit_from_str_table, from_slice_table, edit_from_str_table,
             from_str_with, edit_parse. rewrite H. repeat split. intros ->. reflexivity.
Qed.

Theorem accepted_means_parsed conv s v : from_str_with conv s = FOk v -> exists d, parse_document s = POk d.
Proof. unfold from_str_with. destruct (parse_document s) as [d| |]; [eauto|discriminate|discriminate]. Qed.

(* an accepted document is accepted by the table front ends (and decoded to the canonical value) unless a
   table below the root spells the private key; by the value front end unless any table does *)
Theorem accepted_everywhere s d x :
  parse_document s = POk d -> tree_of_doc d = Some x -> tree_ready x = true ->
  (has_private_key_below_root x = false ->
     toml_from_str_table s = FOk (canon_value true x) /\ edit_from_str_table s = FOk (canon_value true x) /\
     (utf8_valid_b s = true -> from_slice_table s = FOk (canon_value true x))) /\
  (has_private_key x = false -> toml_from_str_value s = FOk (canon_value true x)).
Proof.
  intros Hp Ht R. destruct (tree_of_doc_tab d x Ht) as [es ->]. split.
  - intro P. unfold from_slice_table, edit_from_str_table, toml_from_str_table, from_str_with. rewrite Hp, Ht, (table_visitor_ok es R P).
    repeat split. intros ->. reflexivity.
  - intro P. unfold toml_from_str_value, from_str_with. rewrite Hp, Ht, (value_visitor_ok _ R P). reflexivity.
Qed.

(* the classifier is exact in this direction: on a ready tree only the private key makes a front end refuse *)
Theorem refusal_means_private_key s d x :
  parse_document s = POk d -> tree_of_doc d = Some x -> tree_ready x = true ->
  (toml_from_str_table s = FDeErr -> has_private_key_below_root x = true) /\
  (toml_from_str_value s = FDeErr -> has_private_key x = true).
Proof.
  intros Hp Ht R. destruct (accepted_everywhere s d x Hp Ht R) as [A B]. split; intro E.
  - destruct (has_private_key_below_root x); [reflexivity|]. destruct (A eq_refl) as [A1 _]. congruence.
  - destruct (has_private_key x); [reflexivity|]. rewrite (B eq_refl) in E. discriminate.
Qed.

(* ---- C02 ---- *)
Theorem serde_value s d x v :
  parse_document s = POk d -> tree_of_doc d = Some x -> tree_ready x = true -> has_private_key x = false ->
  toml_from_str_value s = FOk v -> v = canon_value true x.
Proof.
  intros Hp Ht R P E. destruct (accepted_everywhere s d x Hp Ht R) as [_ B]. rewrite (B P) in E. injection E as <-. reflexivity.
Qed.

Theorem serde_table s d x v :
  parse_document s = POk d -> tree_of_doc d = Some x -> tree_ready x = true -> has_private_key_below_root x = false ->
  toml_from_str_table s = FOk v -> v = canon_value true x.
Proof.
  intros Hp Ht R P E. destruct (accepted_everywhere s d x Hp Ht R) as [A _]. destruct (A P) as [A1 _]. rewrite A1 in E.
  injection E as <-. reflexivity.
Qed.

(* ---- witnesses of the private-key class (known finding private-datetime-key, F14) ---- *)
(* [t] / "$__toml_private_datetime" = "x" *)
Definition w_private_refused : bytes :=
  str "[t]" ++ [x0a] ++ str """$__toml_private_datetime"" = ""x""" ++ [x0a].
(* [t] / "$__toml_private_datetime" = "1979-05-27" / b = 1 *)
Definition w_private_misread : bytes :=
  str "[t]" ++ [x0a] ++ str """$__toml_private_datetime"" = ""1979-05-27""" ++ [x0a] ++ str "b = 1" ++ [x0a].

(* the witnesses are computed: the parsed document and its tree are closed terms *)
Definition dummy_doc : doc := mkDoc (Tbl [] decor_default false false None None) REmpty.
Definition doc_of (s : bytes) : doc := match parse_document s with POk d => d | _ => dummy_doc end.
Definition tree_of (s : bytes) : tomlval := match tree_of_doc (doc_of s) with Some x => x | None => VTab [] end.

Lemma private_key_refused :
  exists d x, parse_document w_private_refused = POk d /\ tree_of_doc d = Some x /\ tree_ready x = true /\
              has_private_key_below_root x = true /\
              toml_from_str_table w_private_refused = FDeErr /\ toml_from_str_value w_private_refused = FDeErr /\
              from_slice_table w_private_refused = FDeErr.
Proof.
  exists (doc_of w_private_refused), (tree_of w_private_refused).
  split; [vm_compute; reflexivity|]. split; [vm_compute; reflexivity|]. split; [vm_compute; reflexivity|].
  split; [vm_compute; reflexivity|]. split; [vm_compute; reflexivity|]. split; vm_compute; reflexivity.
Qed.

(* accepted, but the table t is taken for a date-time: the key b is lost *)
Definition misread_value : tomlval := VTab [(str "t", VDatetime (mkDT (Some (mkDate 1979 5 27)) None None))].

Lemma private_key_misread :
  exists d x v, parse_document w_private_misread = POk d /\ tree_of_doc d = Some x /\ tree_ready x = true /\
                toml_from_str_value w_private_misread = FOk v /\ v <> canon_value true x /\
                v = VTab [(str "t", VDatetime (mkDT (Some (mkDate 1979 5 27)) None None))].
Proof.
  exists (doc_of w_private_misread), (tree_of w_private_misread), misread_value.
  split; [vm_compute; reflexivity|]. split; [vm_compute; reflexivity|]. split; [vm_compute; reflexivity|].
  split; [vm_compute; reflexivity|]. split; [|reflexivity]. vm_compute. discriminate.
Qed.

(* z = 1 / [b] / y = 1979-05-27 / x = { q = [1, 2], p = "s" } / [[a]] / k = true *)
Definition ex_doc : bytes :=
  str "z = 1" ++ [x0a] ++ str "[b]" ++ [x0a] ++ str "y = 1979-05-27" ++ [x0a] ++ str "x = { q = [1, 2], p = ""s"" }" ++ [x0a]
  ++ str "[[a]]" ++ [x0a] ++ str "k = true" ++ [x0a].
Lemma serde_example :
  exists d x, parse_document ex_doc = POk d /\ tree_of_doc d = Some x /\ tree_ready x = true /\ has_private_key x = false /\
              toml_from_str_value ex_doc = FOk (canon_value true x) /\
              canon_value true x
              = VTab [(str "a", VArr [VTab [(str "k", VBool true)]]);
                      (str "b", VTab [(str "x", VTab [(str "p", VStr (str "s")); (str "q", VArr [VInt 1; VInt 2])]);
                                      (str "y", VDatetime (mkDT (Some (mkDate 1979 5 27)) None None))]);
                      (str "z", VInt 1)].
Proof.
  exists (doc_of ex_doc), (tree_of ex_doc).
  split; [vm_compute; reflexivity|]. split; [vm_compute; reflexivity|]. split; [vm_compute; reflexivity|].
  split; [vm_compute; reflexivity|]. split; vm_compute; reflexivity.
Qed.
