(* Proofs/SpansNodesDoc.v — C14, re-parsing at document level, part 2: for every key stored anywhere in a
   parsed document, slicing the source at the key's repr spells that key; for every value node written as a
   value (scalar, array, braces-delimited inline table), slicing the source at its span re-parses to a value
   with the same data. *)
From TV Require Import Base.Prelude Base.Utf8 Base.Winnow Gen.Consts Spec.Abnf Spec.Lex Spec.Defs Spec.Syntax.
From TV Require Import Model.Trivia Model.Strings Model.Datetime Model.Numbers Model.Tree Model.Parse Model.Document.
From TV Require Import Proofs.LexEquivBase Proofs.GrammarBase Proofs.GrammarValueBase Proofs.GrammarValueSound Proofs.GrammarValueComplete.
From TV Require Import Proofs.Eoi Proofs.ConstsOk Proofs.NoPanicBase Proofs.NoPanicLex Proofs.NoPanicValue Proofs.NoPanicState Proofs.NoPanicDoc.
From TV Require Import Proofs.SpansDefs Proofs.SpansBase Proofs.SpansLex Proofs.SpansValue Proofs.SpansState Proofs.SpansDoc
                       Proofs.SpansExact Proofs.SpansReparse Proofs.SpansUtf8 Proofs.SpansUtf8Lex Proofs.SpansBoundary
                       Proofs.SpansBd Proofs.SpansBdDoc Proofs.SpansNodes.
Require Import Lia ZifyBool ZifyN ZifyNat.

Section S.
  Variable s : bytes.

  (* the property of a node: its span slices the source to a text that re-parses to it *)
  Definition Pnode (n : nnode) : Prop :=
    match n with
    | NKey text (Some (RSpanned a b)) => parse_key (slice s a b) = POk (raw_with_span (0, b - a)%N, text)
    | NKey _ _ => False
    | NVal (Some (a, b)) d => exists v', parse_value_raw (slice s a b) = POk v' /\ absv v' = d
    | NVal None _ => False
    end.
  Notation FP := (Forall Pnode).

  Ltac at_next A E :=
    match type of E with
    | ?p ?i = Ok _ ?j => let H := fresh "A" in assert (H : at_ s j) by (eapply (at_step p); [np|up|exact A|exact E])
    end.

  Lemma at_cursor i : at_ s i -> cursor_of s i. Proof. intros (C & _). exact C. Qed.

  (* a sound value parser: the text it consumed re-parses, alone, to the same data *)
  Lemma sound_reparse (p : parser value) : vsound_at p -> forall i v i',
    cursor_of s i -> p i = Ok v i' ->
    exists v', parse_value_raw (slice s (pos i) (pos i')) = POk v' /\ absv v' = absv v.
  Proof.
    intros Hs i v i' C E. apply Hs in E as (t & a & Ht & [R A] & (Hd & Hok & Hwi & _)).
    assert (Pq : pos i' = (pos i + N.of_nat (length t))%N) by (subst i'; reflexivity).
    destruct (cursor_slice s i i' t C R Pq) as [-> _].
    destruct (value_complete t a (new_input t) [] Ht) as (v' & Cv & (Hd' & _)).
    - cbn [new_input rest]. symmetry. apply app_nil_r.
    - apply vfollow_nil.
    - exact Hok.
    - cbn [new_input depth]. eapply within_le; [|exact Hwi]. lia.
    - exists v'. split; [|congruence]. unfold parse_value_raw. rewrite parse_all_eoi_unfold, Cv, adv_all. reflexivity.
  Qed.

  (* ---- keys --------------------------------------------------------------------------------------------------------- *)
  Lemma key_part_n : gP s (fun k => Pnode (nk k)) key_part.
  Proof.
    intros i k i' At E. unfold key_part in E. apply SpansBase.bind_ok in E as (pre & j & E0 & E).
    apply SpansBase.bind_ok in E as ([r kk] & j0 & E1 & E). apply SpansBase.bind_ok in E as (suf & j1 & E2 & E). apply ret_ok in E as [-> ->].
    at_next At E0. destruct (key_reparse s j r kk j0 (at_cursor _ A) E1) as [-> K].
    unfold nk; cbn [k_key k_repr Pnode]. exact K.
  Qed.
  Lemma key_raw_n : gP s (fun l => FP (map nk l)) key_raw.
  Proof.
    intros i l i' At E. unfold key_raw in E. apply try_map_ok in E as (l0 & E & Gt). destruct (check_depth _); inversion Gt; subst l0.
    apply context_ok in E.
    assert (H : Forall (fun k => Pnode (nk k)) l).
    { eapply (gP_separated1 s (fun k => Pnode (nk k)) key_part (byte_ DOT_SEP)); [np|up|np|up|apply key_part_n|exact At|exact E]. }
    clear -H. induction H; cbn [map]; constructor; auto.
  Qed.
  Lemma key_n : gP s (fun l => FP (map nk l)) key_.
  Proof.
    intros i l i' At E. rewrite key_eq in E. apply SpansBase.bind_ok in E as (path & j & E1 & E).
    destruct (fix_key_path path) as [p|] eqn:F; [|discriminate]. apply ret_ok in E as [-> ->].
    rewrite (fix_key_path_nk _ _ F). eapply key_raw_n; eauto.
  Qed.

  (* ---- values --------------------------------------------------------------------------------------------------------- *)
  Definition body_n (v : value) : Prop := FP (sub_nodes v) /\ exempt v = false.

  Lemma sub_nodes_apply_raw v sp : sub_nodes (apply_raw v sp) = sub_nodes v.
  Proof. destruct v; reflexivity. Qed.
  Lemma exempt_apply_raw v sp : exempt (apply_raw v sp) = exempt v.
  Proof. destruct v; reflexivity. Qed.
  Lemma absv_apply_raw' v sp : absv (apply_raw v sp) = absv v.
  Proof. apply absv_apply_raw. Qed.

  Section Knot.
    Variable value_rec : parser value.
    Hypothesis Hm : mono value_rec.
    Hypothesis Hu : uP value_rec.
    Hypothesis Hs : vsound_at value_rec.
    Hypothesis Hn : gP s (fun v => FP (value_nodes v)) value_rec.

    Lemma array_value_n : gP s (fun it => FP (item_nodes it)) (array_value value_rec).
    Proof.
      intros i it i' At E. unfold array_value in E. apply SpansBase.bind_ok in E as (pre & j & E0 & E).
      apply SpansBase.bind_ok in E as (v & j0 & E1 & E). apply SpansBase.bind_ok in E as (suf & j1 & E2 & E). apply ret_ok in E as [-> ->].
      at_next At E0. rewrite item_nodes_value, value_nodes_decorate. exact (Hn _ _ _ A E1).
    Qed.
    Lemma array_values_n : gP s body_n (array_values value_rec).
    Proof.
      intros i v i' At E. unfold array_values in E. apply SpansBase.bind_ok in E as (c & j & E0 & E). destruct c as [c|].
      - apply ret_ok in E as [-> ->]. split; [constructor|reflexivity].
      - apply SpansBase.peek_ok in E0 as (-> & _). apply SpansBase.bind_ok in E as (vals & j0 & E1 & E).
        apply SpansBase.bind_ok in E as (comma & j1 & E2 & E). apply SpansBase.bind_ok in E as (tr & j2 & E3 & E). apply ret_ok in E as [-> ->].
        split; [|reflexivity]. cbn [sub_nodes]. apply Forall_flat_map.
        eapply (gP_separated0 s (fun it => FP (item_nodes it)) (array_value value_rec) (byte_ ARRAY_SEP));
          [apply array_value_mono, Hm|apply array_value_uP, Hu|np|up|apply array_value_n|exact At|exact E1].
    Qed.
    Lemma array_n : gP s body_n (array value_rec).
    Proof.
      intros i v i' At E. unfold array in E. apply SpansBase.bind_ok in E as (b & j & E0 & E). apply SpansBase.bind_ok in E as (a & j0 & E1 & E).
      apply SpansBase.bind_ok in E as (b2 & j1 & E2 & E). apply ret_ok in E as [-> ->]. apply cut_err_ok in E1.
      at_next At E0. exact (array_values_n _ _ _ A E1).
    Qed.

    Lemma inline_keyval_n : gP s (pair_n Pnode) (inline_keyval value_rec).
    Proof.
      intros i x i' At E. rewrite inline_keyval_eq in E. apply SpansBase.bind_ok in E as (kp & j & E0 & E).
      apply SpansBase.bind_ok in E as ([[pre v] suf] & j' & E1 & E).
      destruct (pop_key kp) as [[path k]|] eqn:Pk; [|discriminate]. apply ret_ok in E as [-> ->].
      pose proof (key_n _ _ _ At E0) as Hk. destruct (pop_key_n _ _ _ _ Hk Pk) as [Hpath Hkk].
      at_next At E0. unfold inline_kv_rhs in E1. apply cut_err_ok in E1.
      apply SpansBase.bind_ok in E1 as (x0 & j0 & F0 & E1). apply SpansBase.bind_ok in E1 as (x1 & j1 & F1 & E1).
      apply SpansBase.bind_ok in E1 as (x2 & j2 & F2 & E1). apply SpansBase.bind_ok in E1 as (x3 & j3 & F3 & E1).
      apply ret_ok in E1 as [X ->]. inversion X; subst x1 x2 x3. clear X.
      at_next A F0. at_next A0 F1.
      unfold pair_n; cbn [fst snd]. repeat split; auto.
      rewrite item_nodes_value, value_nodes_decorate. exact (Hn _ _ _ A1 F2).
    Qed.

    Lemma inline_body_n : gP s body_n (inline_body value_rec).
    Proof.
      intros i v i' At E. unfold inline_body in E. apply try_map_ok in E as ([kv p] & E & Gt).
      unfold inline_kvs in E. apply SpansBase.bind_ok in E as (kv0 & j & E0 & E). apply SpansBase.bind_ok in E as (p0 & j0 & E1 & E).
      apply ret_ok in E as [X ->]. inversion X; subst kv p. clear X.
      assert (Hp : Forall (pair_n Pnode) kv0).
      { eapply (gP_separated0 s (pair_n Pnode) (inline_keyval value_rec) (byte_ INLINE_TABLE_SEP));
          [apply inline_keyval_mono, Hm|apply inline_keyval_uP, Hu|np|up|apply inline_keyval_n|exact At|exact E0]. }
      destruct (table_from_pairs_n Pnode _ _ _ Hp Gt) as (H1 & H2 & _). split; assumption.
    Qed.
    Lemma inline_table_n : gP s body_n (inline_table value_rec).
    Proof.
      intros i v i' At E. rewrite inline_table_eq in E. apply SpansBase.bind_ok in E as (b & j & E0 & E). apply SpansBase.bind_ok in E as (a & j0 & E1 & E).
      apply SpansBase.bind_ok in E as (b2 & j1 & E2 & E). apply ret_ok in E as [-> ->]. apply cut_err_ok in E1.
      at_next At E0. exact (inline_body_n _ _ _ A E1).
    Qed.

    Lemma gP_scalar_n {A} (p : parser A) (f : A -> scalar) : gP s body_n (pmap (fun x => scalar_value (f x)) p).
    Proof. intros i v i' At E. apply SpansBase.pmap_ok in E as (a & _ & ->). split; [constructor|reflexivity]. Qed.

    Lemma value_body_n : gP s body_n (value_body value_rec).
    Proof.
      intros i v i' At E. unfold value_body in E. apply SpansBase.bind_ok in E as (b & j & E0 & E). apply context_ok, SpansBase.peek_ok in E0 as (-> & _).
      revert i v i' At E. change (gP s body_n
        (if byte_eqb b QUOTATION_MARK || byte_eqb b APOSTROPHE then pmap (fun s0 => scalar_value (SString s0)) string_
         else if byte_eqb b ARRAY_OPEN then check_recursion (array value_rec)
         else if byte_eqb b INLINE_TABLE_OPEN then check_recursion (inline_table value_rec)
         else if in_class VALUE_NUMBER_START b then
           pmap (fun d => scalar_value (SDatetime d)) date_time <|> pmap (fun f => scalar_value (SFloat f)) float
           <|> pmap (fun z => scalar_value (SInt z)) integer
         else if byte_eqb b x5f then context (pmap (fun z => scalar_value (SInt z)) integer)
         else if byte_eqb b x2e then context (pmap (fun f => scalar_value (SFloat f)) float)
         else if byte_eqb b x74 then context (pmap (fun v => scalar_value (SBool v)) true_)
         else if byte_eqb b x66 then context (pmap (fun v => scalar_value (SBool v)) false_)
         else if byte_eqb b x69 then context (pmap (fun f => scalar_value (SFloat f)) inf)
         else if byte_eqb b x6e then context (pmap (fun f => scalar_value (SFloat f)) nan)
         else context fail)).
      repeat match goal with |- gP _ _ (if ?c then _ else _) => destruct c end;
        repeat apply gP_context; repeat apply gP_alt; try apply gP_scalar_n; try apply gP_fail.
      - apply gP_check_recursion, array_n.
      - apply gP_check_recursion, inline_table_n.
    Qed.

    Lemma value_step_n : gP s (fun v => FP (value_nodes v)) (value_step value_rec).
    Proof.
      intros i v i' At E. pose proof E as E'. apply value_step_exact in E as (v0 & E & ->).
      destruct (value_body_n _ _ _ At E) as [Hsub Hex].
      pose proof (value_body_progress _ Hm _ _ _ E) as G. pose proof (value_body_mono _ Hm _ _ _ E) as (t & R & Pq & _).
      assert (Hlt : (pos i < pos i')%N).
      { destruct t as [|b t]; [rewrite R in G; cbn in G; lia|cbn [length] in Pq; lia]. }
      rewrite value_nodes_eq, sub_nodes_apply_raw. apply Forall_app. split; [|exact Hsub].
      unfold own_node. rewrite exempt_apply_raw, Hex. constructor; [|constructor].
      rewrite (value_span_apply_raw v0 _ _ Hlt). cbn [Pnode].
      exact (sound_reparse _ (value_step_sound _ Hs) _ _ _ (at_cursor _ At) E').
    Qed.
  End Knot.

  Lemma value_f_n n : gP s (fun v => FP (value_nodes v)) (value_f n).
  Proof.
    induction n as [|n IH]; [intros i v i' _ E; discriminate|].
    change (value_f (S n)) with (value_step (value_f n)).
    apply value_step_n; [apply value_f_all|apply value_f_uP|apply value_f_sound|exact IH].
  Qed.
  Lemma value_n : gP s (fun v => FP (value_nodes v)) value_.
  Proof. intros i v i' At E. eapply value_f_n; eauto. Qed.

  (* ---- document lines ---------------------------------------------------------------------------------------------------- *)
  Lemma parse_keyval_n : gP s (pair_n Pnode) parse_keyval.
  Proof.
    intros i x i' At E. rewrite parse_keyval_eq in E. apply SpansBase.bind_ok in E as (kp & j & E0 & E).
    apply SpansBase.bind_ok in E as ([[pre v] suf] & j' & E1 & E).
    destruct (pop_key kp) as [[path k]|] eqn:Pk; [|discriminate]. apply ret_ok in E as [-> ->].
    pose proof (key_n _ _ _ At E0) as Hk. destruct (pop_key_n _ _ _ _ Hk Pk) as [Hpath Hkk].
    at_next At E0. unfold kv_rhs in E1. apply cut_err_ok in E1.
    apply SpansBase.bind_ok in E1 as (x0 & j0 & F0 & E1). apply SpansBase.bind_ok in E1 as (x1 & j1 & F1 & E1).
    apply SpansBase.bind_ok in E1 as (x2 & j2 & F2 & E1). apply SpansBase.bind_ok in E1 as (x3 & j3 & F3 & E1).
    apply ret_ok in E1 as [X ->]. inversion X; subst x1 x2 x3. clear X.
    at_next A F0. at_next A0 F1.
    unfold pair_n; cbn [fst snd]. repeat split; auto.
    rewrite item_nodes_value, value_nodes_decorate. exact (value_n _ _ _ A1 F2).
  Qed.

  Definition stN (q : pstate -> parser pstate) : Prop :=
    forall st i st' i', at_ s i -> q st i = Ok st' i' -> st_n Pnode st -> st_n Pnode st'.

  Lemma keyval_stN : stN keyval.
  Proof.
    intros st i st' i' At E Hst. unfold keyval in E. apply try_map_ok in E as ([path [k v]] & E & Gt).
    apply lift_state_ok in Gt. destruct (parse_keyval_n _ _ _ At E) as (H1 & H2 & H3). cbn [fst snd] in *.
    eapply on_keyval_sp_n; eauto.
  Qed.
  Lemma header_stN ia : stN (header ia).
  Proof.
    intros st i st' i' At E Hst. rewrite header_eq in E. apply try_map_ok in E as ([[h sp] t] & E & Gt).
    apply lift_state_ok in Gt. unfold header_syntax in E. cbv zeta in E. unfold pair_ in E.
    apply SpansBase.bind_ok in E as (a & j & E0 & E). apply SpansBase.bind_ok in E as (a0 & j0 & E1 & E).
    apply ret_ok in E as [X ->]. inversion X; subst a a0. clear X.
    apply SpansBase.with_span_ok in E0 as (S & E0). cbn [fst snd] in *. subst sp.
    unfold delimited in E0. apply SpansBase.bind_ok in E0 as (o & k0 & F0 & E0). apply SpansBase.bind_ok in E0 as (b & k1 & F1 & E0).
    apply SpansBase.bind_ok in E0 as (c & k2 & F2 & E0). apply ret_ok in E0 as [-> ->]. apply cut_err_ok in F1.
    assert (Ak0 : at_ s k0) by (eapply (at_step _ s i _ k0); [| |exact At|exact F0]; destruct ia; [np|np|up|up]).
    pose proof (key_n _ _ _ Ak0 F1) as Hh.
    eapply on_header_n; [exact Hst|exact Hh|exact Gt].
  Qed.
  Lemma table_stN : stN table.
  Proof.
    intros st i st' i' At E Hst. unfold table in E. apply context_ok in E. apply SpansBase.bind_ok in E as (two & j & E0 & E).
    apply SpansBase.peek_ok in E0 as (-> & _). destruct (bytes_eqb _ _); eapply header_stN; eauto.
  Qed.
  Lemma on_ws_stN {A} (p : parser A) : stN (fun st => pmap (on_ws st) (span_ p)).
  Proof. intros st i st' i' At E Hst. apply SpansBase.pmap_ok in E as (sp & E & ->). apply st_n_on_ws, Hst. Qed.

  Lemma doc_item_stN b : stN (fun st => doc_item st b).
  Proof.
    intros st i st' i' At E Hst. unfold doc_item in E.
    destruct (byte_eqb b COMMENT_START_SYMBOL); [apply cut_err_ok in E; eapply (on_ws_stN (comment ;;; context line_ending)); eauto|].
    destruct (byte_eqb b STD_TABLE_OPEN); [apply cut_err_ok in E; eapply table_stN; eauto|].
    destruct (_ || _); [eapply (on_ws_stN newline); eauto|]. apply cut_err_ok in E. eapply keyval_stN; eauto.
  Qed.
  Lemma doc_line_stN : stN doc_line.
  Proof.
    intros st i st' i' At E Hst. rewrite doc_line_eq in E. apply SpansBase.bind_ok in E as (b & j & E0 & E).
    apply SpansBase.bind_ok in E as (st1 & j1 & E1 & E). apply SpansBase.peek_ok in E0 as (-> & _).
    assert (A1 : at_ s j1) by (eapply (at_step (doc_item st b)); [apply doc_item_mono|apply doc_item_uP|exact At|exact E1]).
    eapply (on_ws_stN ws); [exact A1|exact E|]. exact (doc_item_stN b st i st1 j1 At E1 Hst).
  Qed.
  Lemma doc_loop_n : forall fuel st i st' i', at_ s i -> doc_loop fuel st i = Ok st' i' -> st_n Pnode st -> st_n Pnode st'.
  Proof.
    induction fuel as [|f IH]; intros st i st' i' At H Hst; cbn [doc_loop] in H; [discriminate|].
    destruct (doc_line st i) as [s1 i1|? ?|? ?|?] eqn:E; try discriminate.
    - destruct (Nat.eqb _ _); [discriminate|].
      assert (A1 : at_ s i1) by (eapply (at_step (doc_line st)); [apply doc_line_mono|apply doc_line_uP|exact At|exact E]).
      eapply IH; [exact A1|exact H|]. exact (doc_line_stN st i s1 i1 At E Hst).
    - inversion H; subst. exact Hst.
  Qed.
  Lemma document_n st i' : utf8_valid_b s = true -> document (new_input s) = Ok st i' -> st_n Pnode st.
  Proof.
    intros V E. rewrite document_eq in E.
    apply SpansBase.bind_ok in E as (o & j0 & E0 & E). apply SpansBase.bind_ok in E as (st0 & j1 & E1 & E).
    apply SpansBase.bind_ok in E as (st1 & j2 & E2 & E). apply SpansBase.bind_ok in E as (u & j3 & E3 & E). apply ret_ok in E as [-> ->].
    pose proof (at_new s V) as A0.
    assert (A1 : at_ s j0) by (eapply (at_step (opt (lit bom))); [np|apply uP_opt, lit_bom_uP|exact A0|exact E0]).
    assert (A2 : at_ s j1) by (eapply (at_step (parse_ws state_new)); [apply parse_ws_mono|apply parse_ws_uP|exact A1|exact E1]).
    eapply doc_loop_n; [exact A2|exact E2|]. eapply (on_ws_stN ws); [exact A1|exact E1|]. apply st_n_new.
  Qed.
End S.

(* C14, re-parsing: every key of the document is spelled by the slice at its repr; every value node written as a
   value re-parses, from the slice at its span, to a value with the same data *)
Theorem reparse_all s d :
  utf8_valid_b s = true -> parse_document s = POk d -> Forall (Pnode s) (tbl_nodes (doc_root d)).
Proof.
  intros V H. unfold parse_document in H. destruct (parse_all document s) as [fin| |] eqn:E; try discriminate.
  apply parse_all_done_eof in E as (i & E & R). pose proof (document_n s fin i V E) as Hn.
  destruct (finalize_table fin) as [st'| |] eqn:F; try discriminate. inversion H; subst d. clear H.
  cbn [doc_root]. apply (finalize_n _ _ _ Hn F).
Qed.

(* an example document used by Props/C14spans.v:
   "'\u00e9' = '\u00fc' # \u00f6\n[t]\na.b = { x.y = 1, x.z = [ 2 ] }\n[[t.u]]\nk = 1\n[[t.u]]\n" *)
Definition c14_example : bytes :=
  [x27;xc3;xa9;x27;x20;x3d;x20;x27;xc3;xbc;x27;x20;x23;x20;xc3;xb6;x0a;
   x5b;x74;x5d;x0a;
   x61;x2e;x62;x20;x3d;x20;x7b;x20;x78;x2e;x79;x20;x3d;x20;x31;x2c;x20;x78;x2e;x7a;x20;x3d;x20;x5b;x20;x32;x20;x5d;x20;x7d;x0a;
   x5b;x5b;x74;x2e;x75;x5d;x5d;x0a; x6b;x20;x3d;x20;x31;x0a; x5b;x5b;x74;x2e;x75;x5d;x5d;x0a].
