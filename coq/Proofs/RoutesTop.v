(* Proofs/RoutesTop.v — C13 on serializer output: try_from against the parsed text, and every decoding
   route on the trees toml::to_string / toml::ser::ValueSerializer build. *)
From TV Require Import Base.Prelude Base.Utf8 Model.Datetime Model.DatetimeStd Model.SerNum
  Spec.DatetimeSpec Spec.SerdeData Model.Ser Model.De Model.SerdeRoutes
  Proofs.SerdeRTBase Proofs.SerdeRTEq Proofs.SerdeRTLeaf Proofs.SerdeRTLists Proofs.SerdeRT
  Proofs.SerdeRTErr Proofs.SerdeRTRoot Proofs.SerdeRTRefuse Proofs.SerdeRTBTree Proofs.SerdeRTTv Proofs.RoutesConv
  Extract.Show.
Require Import String.

(* the document toml::to_string writes is what ValueSerializer builds (a root struct's name is passed on since the
   repair of C06-root-datetime-printed-as-table, so this holds for every root) *)
Lemma toml_root_is_value' t v out : ser_toml_root t v = Ok out -> ser_value t v = Ok out.
Proof.
  intros H.
  assert (Hedit : ser_edit_root t v = Ok out -> ser_value t v = Ok out).
  { intro E. apply edit_root_is_table in E as (es & _ & E). exact E. }
  destruct t; try (apply Hedit; destruct v; exact H).
  - destruct v as [| | | | | | | | | | | | | |i p]; try (apply Hedit; exact H). simpl in H.
    match type of H with pick ?f ?d vs i = _ => destruct (pick_cases f d vs i) as [([vn var] & Hn & E)|[_ E]]; rewrite E in H end;
      [|discriminate H].
    simpl in H. destruct var; try discriminate H; try (apply Hedit; exact H).
    destruct p; try discriminate H. destruct (zipM ser_value ts vs0); discriminate H.
Qed.

(* the statement as it was before the repair (typing and tunnel-freeness are no longer needed) *)
Lemma toml_root_is_value t v out : has_type v t -> ser_toml_root t v = Ok out -> tunnel_free out = true ->
  ser_value t v = Ok out.
Proof. intros _ H _. exact (toml_root_is_value' t v out H). Qed.

Lemma toml_root_is_table t v out : ser_toml_root t v = Ok out -> exists es, out = VTab es.
Proof.
  intro H.
  assert (Hedit : ser_edit_root t v = Ok out -> exists es, out = VTab es).
  { intro E. apply edit_root_is_table in E as (es & -> & _). eauto. }
  destruct t; try (apply Hedit; destruct v; exact H).
  - destruct v as [| | | | | | | | | | | | | |i p]; try (apply Hedit; exact H). simpl in H.
    match type of H with pick ?f ?d vs i = _ => destruct (pick_cases f d vs i) as [([vn var] & Hn & E)|[_ E]]; rewrite E in H end;
      [|discriminate H].
    simpl in H. destruct var; try discriminate H; try (apply Hedit; exact H).
    destruct p; try discriminate H. destruct (zipM ser_value ts vs0); discriminate H.
Qed.

Lemma ttv_nodup es y : first_key_plain es = true -> to_toml_value (VTab es) = Ok y -> nodup_bytes (map fst es) = true.
Proof.
  intros Hf H. rewrite (ttv_tab_plain es Hf) in H. apply rbind_ok in H as (es' & E & H).
  destruct (conv_entries_inv es es' E) as [_ Hk]. rewrite <- Hk. destruct (nodup_bytes (map fst es')); [reflexivity|discriminate H].
Qed.

(* Value::try_from(v) and Table::try_from(v) give the tree the serialized text parses to *)
Theorem try_from_is_parsed_text t v out : has_type v t -> ser_toml_root t v = Ok out -> tunnel_free out = true ->
  exists y, to_toml_value out = Ok y /\ to_toml_table out = Ok y /\ tv_ser t v = Ok y
            /\ (forall y', tv_ser_table t v = Ok y' -> y' = y).
Proof.
  intros Hty H Hf. pose proof (toml_root_is_value' t v out H) as Hv.
  destruct (try_from_twin t v out Hty Hv Hf) as (y & C & T).
  exists y. split; [exact C|]. split; [|split; [exact T|]].
  - rewrite plain_root_same; [exact C|].
    destruct (toml_root_is_table t v out H) as (es & ->).
    destruct (tunnel_free_tab es Hf) as [Hfirst _]. unfold plain_root.
    rewrite (ttv_nodup es y Hfirst C). exact Hfirst.
  - intros y' Ht. destruct (tv_table_cases t v y' Hty Ht) as [E|(d & _ & E)]; [congruence|exfalso].
    (* the document root is a table, not a date-time *)
    destruct (toml_root_is_table t v out H) as (es & ->). destruct (tunnel_free_tab es Hf) as [Hfirst _].
    rewrite (ttv_tab_plain es Hfirst) in C. apply rbind_ok in C as (es' & _ & C).
    destruct (nodup_bytes (map fst es')); [|discriminate C]. injection C as <-.
    rewrite T in E. unfold ser_datetime in E. destruct (dt_field_str (display_datetime d)); discriminate E.
Qed.

(* ---- every decoding route on the document toml::to_string writes ---- *)
Definition edit_family (r : dec_route) : bool :=
  match r with R_tval | R_ttab | R_tvdval => false | _ => true end.

Lemma decode_edit r t x : edit_family r = true -> decode r t x = de_value t x.
Proof. destruct r; try discriminate; reflexivity. Qed.

Lemma ser_ok_supported t v x : has_type v t -> ser_value t v = Ok x -> supported t v.
Proof. intros Hty H. apply (ser_ok_iff_supported t v Hty). eauto. Qed.

Theorem on_serialized_doc t v out : has_type v t -> ser_toml_root t v = Ok out ->
  (forall r, edit_family r = true -> exists v', decode r t out = Ok v' /\ sval_eq v v')
  /\ (tunnel_free out = true ->
      forall r, r = R_tval \/ r = R_ttab -> exists v', decode r t out = Ok v' /\ sval_eq v v').
Proof.
  intros Hty H. split.
  - intros r Hr. rewrite (decode_edit r t out Hr). apply (toml_root_roundtrip t v out Hty H).
  - intros Hf r Hr.
    destruct (try_from_is_parsed_text t v out Hty H Hf) as (y & C1 & C2 & T & _).
    pose proof (toml_root_is_value' t v out H) as Hv.
    pose proof (tv_roundtrip_supported t v y Hty (ser_ok_supported t v out Hty Hv) T) as R.
    destruct Hr as [-> | ->]; simpl; [rewrite C1|rewrite C2]; exact R.
Qed.

(* ---- ... and on the text of a single value (toml::ser::ValueSerializer) ---- *)
Lemma value_text_is_value t v x : ser_value_text t v = Ok x -> ser_value t v = Ok x.
Proof.
  intros H. destruct t; try (destruct v; exact H).
  destruct v as [| | | | | | | | | | | | | |i p]; try exact H. simpl in H.
  match type of H with pick ?f ?d vs i = _ => destruct (pick_cases f d vs i) as [([vn var] & Hn & E)|[_ E]]; rewrite E in H end;
    [|discriminate H].
  simpl in H. destruct var; try discriminate H; exact H.
Qed.

Theorem on_serialized_value t v x : has_type v t -> ser_value_text t v = Ok x ->
  (forall r, r = R_tvd \/ r = R_evd -> exists v', decode r t x = Ok v' /\ sval_eq v v')
  /\ (tunnel_free x = true -> exists v', decode R_tvdval t x = Ok v' /\ sval_eq v v').
Proof.
  intros Hty H. pose proof (value_text_is_value t v x H) as Hv. split.
  - intros r Hr. assert (decode r t x = de_value t x) as -> by (destruct Hr as [-> | ->]; reflexivity).
    apply (roundtrip_value t v x Hty Hv).
  - intro Hf. destruct (try_from_twin t v x Hty Hv Hf) as (y & C & T). simpl. rewrite C. simpl.
    apply (tv_roundtrip_supported t v y Hty (ser_ok_supported t v x Hty Hv) T).
Qed.

(* the former witness of C13-valueser-root-tuple-variant (repaired): enum E { T(i32, i32) }, E::T(1, 2) is
   written as { T = [1, 2] } — what toml_edit's ValueSerializer writes — and reads back *)
Definition tvr_ty : ty := TEnum (str "E") [(str "T", VTuple [TInt TI32; TInt TI32])].
Definition tvr_val : sval := SVariant 0 (SSeq [SInt 1; SInt 2]).

Theorem on_serialized_value_tuple_variant :
  has_type tvr_val tvr_ty
  /\ ser_value_text tvr_ty tvr_val = Ok (VTab [(str "T", VArr [VInt 1; VInt 2])])
  /\ ser_value_text tvr_ty tvr_val = ser_value tvr_ty tvr_val
  /\ decode R_tvd tvr_ty (VTab [(str "T", VArr [VInt 1; VInt 2])]) = Ok tvr_val
  /\ decode R_evd tvr_ty (VTab [(str "T", VArr [VInt 1; VInt 2])]) = Ok tvr_val
  /\ decode R_tvdval tvr_ty (VTab [(str "T", VArr [VInt 1; VInt 2])]) = Ok tvr_val.
Proof. repeat split; vm_compute; reflexivity. Qed.

(* ---- the converse (since the repair of C07-tryfrom-nested-none-dropped): Value::try_from accepts nothing the
   value serializer of the text routes refuses, and Table::try_from nothing Value::try_from refuses — so try_from and
   serialize-then-parse give the same verdict, and on success the same tree.  doc_keys: map keys of type char /
   Option<_>, which SerializeMap::serialize_key accepts and a document cannot have. ---- *)
Theorem try_from_same_verdict t v : has_type v t -> doc_keys t = true ->
  ((exists y, tv_ser t v = Ok y) <-> (exists x, ser_value t v = Ok x)).
Proof. exact (tv_same_verdict t v). Qed.

Theorem try_from_accepts_only_serializable t v y : has_type v t -> doc_keys t = true -> tv_ser t v = Ok y ->
  exists x, ser_value t v = Ok x /\ (tunnel_free x = true -> to_toml_value x = Ok y).
Proof.
  intros Hty Hd H. destruct (proj1 (tv_same_verdict t v Hty Hd) (ex_intro _ y H)) as (x & Hx).
  exists x. split; [exact Hx|]. intro Hf.
  destruct (try_from_twin t v x Hty Hx Hf) as (y' & C & T). congruence.
Qed.

Theorem table_try_from_accepts_only_serializable t v y : has_type v t -> doc_keys t = true -> tv_ser_table t v = Ok y ->
  exists x, ser_value t v = Ok x.
Proof.
  intros Hty Hd H. apply (ser_ok_iff_supported t v Hty). apply (table_tryfrom_supported t v y Hty Hd H).
Qed.
