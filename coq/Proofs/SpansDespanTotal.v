(* Proofs/SpansDespanTotal.v — C14 / C04: `despan` (ImDocument::into_mut) of a parsed document never fails:
   every span lies in the source (Proofs/SpansDoc.v) on character boundaries (Proofs/SpansBdDoc.v), so every
   `str::get(range)` of RawString::despan succeeds — the model's panic site P_span_slice is unreachable after a
   successful parse of well-formed UTF-8. *)
From TV Require Import Base.Prelude Base.Utf8 Base.Winnow.
From TV Require Import Model.Datetime Model.DatetimeStd Model.Numbers Model.Tree Model.Parse Model.Document Model.Write Model.Encode.
From TV Require Import Proofs.SpansDefs Proofs.SpansBase Proofs.SpansDoc Proofs.SpansDespan Proofs.SpansBd Proofs.SpansBdDoc.
Require Import Lia ZifyBool ZifyN ZifyNat.

Section T.
  Variable s : bytes.
  Let HI := N.of_nat (length s).
  Let G := bd s.

  Definition good_sp (sp : N * N) : Prop := sp_in 0 HI sp = true /\ sp_g G sp = true.

  Lemma raw_despan_total r : raw_in 0 HI r = true -> raw_g G r = true -> exists r', raw_despan s r = Some r'.
  Proof.
    destruct r as [|t|a b]; cbn [raw_despan]; eauto. unfold raw_in, raw_g; cbn [raw_span osp_in osp_g]. intros H1 H2.
    unfold str_get. unfold sp_in in H1; cbn [fst snd] in H1. unfold sp_g, G, bd in H2; cbn [fst snd] in H2.
    apply andb_true_iff in H2 as [B1 B2]. rewrite B1, B2. subst HI.
    replace ((a <=? b)%N && (b <=? N.of_nat (length s))%N) with true by lia. cbn [andb]. eauto.
  Qed.
  Lemma oraw_despan_total o : oraw_in 0 HI o = true -> oraw_g G o = true -> exists o', oraw_despan s o = Some o'.
  Proof.
    destruct o as [r|]; cbn [oraw_despan oraw_in oraw_g]; [|eauto]. intros H1 H2.
    destruct (raw_despan_total r H1 H2) as (r' & ->). eauto.
  Qed.
  Lemma decor_despan_total d : decor_in 0 HI d = true -> decor_g G d = true -> exists d', decor_despan s d = Some d'.
  Proof.
    unfold decor_in, decor_g, decor_despan. intros H1 H2. apply andb_true_iff in H1 as [A1 A2]. apply andb_true_iff in H2 as [B1 B2].
    destruct (oraw_despan_total _ A1 B1) as (p & ->). destruct (oraw_despan_total _ A2 B2) as (q & ->). eauto.
  Qed.
  Lemma key_despan_total k : key_in 0 HI k = true -> key_g G k = true -> exists k', key_despan s k = Some k'.
  Proof.
    unfold key_in, key_g, key_despan. intros H1 H2. apply andb3 in H1 as (A1 & A2 & A3). apply andb3 in H2 as (B1 & B2 & B3).
    destruct (decor_despan_total _ A2 B2) as (l & ->). destruct (decor_despan_total _ A3 B3) as (d & ->).
    destruct (oraw_despan_total _ A1 B1) as (r & ->). eauto.
  Qed.

  Lemma omap_list_total {A B} (f : A -> option B) (P : A -> Prop) : forall l,
    Forall (fun a => P a -> exists b, f a = Some b) l -> Forall P l -> exists l', omap_list f l = Some l'.
  Proof.
    induction l as [|a l IH]; intros Hf Hp; [exists []; reflexivity|].
    inversion Hf as [|? ? Ha Hl]; subst. inversion Hp as [|? ? Pa Pl]; subst.
    destruct (Ha Pa) as (b & Eb). destruct (IH Hl Pl) as (l' & El). exists (b :: l').
    change (omap_list f (a :: l)) with (match f a, omap_list f l with Some b0, Some r => Some (b0 :: r) | _, _ => None end).
    rewrite Eb, El. reflexivity.
  Qed.

  Definition vgoodP (v : value) : Prop := value_in 0 HI v = true /\ value_g G v = true.
  Definition igoodP (it : item) : Prop := item_in 0 HI it = true /\ item_g G it = true.
  Definition tgoodP (t : tbl) : Prop := tbl_in 0 HI t = true /\ tbl_g G t = true.

  Lemma kvs_despan_total (items : list (key * item)) :
    Forall (fun kv => igoodP (snd kv) -> exists i', item_despan s (snd kv) = Some i') items ->
    forallb (fun kv => key_in 0 HI (fst kv) && item_in 0 HI (snd kv)) items = true ->
    forallb (fun kv => key_g G (fst kv) && item_g G (snd kv)) items = true ->
    exists items', omap_list (kv_despan s) items = Some items'.
  Proof.
    intros IH H1 H2. apply (omap_list_total (kv_despan s)
      (fun kv => (key_in 0 HI (fst kv) = true /\ item_in 0 HI (snd kv) = true) /\ (key_g G (fst kv) = true /\ item_g G (snd kv) = true))).
    - eapply Forall_impl; [|exact IH]. intros [k0 i0] Hi [[A1 A2] [B1 B2]]. cbn [fst snd kv_despan] in *.
      destruct (key_despan_total _ A1 B1) as (k' & ->). destruct (Hi (conj A2 B2)) as (i' & ->). eauto.
    - apply Forall_forall. intros kv Hin. rewrite forallb_forall in H1, H2. specialize (H1 _ Hin). specialize (H2 _ Hin).
      apply andb_true_iff in H1. apply andb_true_iff in H2. tauto.
  Qed.

  Lemma tree_despan_total :
    (forall v, vgoodP v -> exists v', value_despan s v = Some v')
    /\ (forall it, igoodP it -> exists it', item_despan s it = Some it')
    /\ (forall t, tgoodP t -> exists t', tbl_despan s t = Some t').
  Proof.
    apply tree_ind3.
    - intros x r d [H1 H2]. rewrite value_in_scalar in H1. rewrite value_g_scalar in H2.
      apply andb_true_iff in H1 as [A1 A2]. apply andb_true_iff in H2 as [B1 B2]. cbn [value_despan].
      destruct (oraw_despan_total _ A1 B1) as (r' & ->). destruct (decor_despan_total _ A2 B2) as (d' & ->). eauto.
    - intros vals tr c d sp IH [H1 H2]. rewrite value_in_array in H1. rewrite value_g_array in H2.
      apply andb4 in H1 as (A1 & A2 & A3 & _). apply andb4 in H2 as (B1 & B2 & B3 & _). rewrite value_despan_array.
      destruct (omap_list_total (item_despan s) igoodP vals IH) as (vals' & ->).
      { apply Forall_forall. intros it Hin. rewrite forallb_forall in A1, B1. split; auto. }
      destruct (raw_despan_total _ A2 B2) as (tr' & ->). destruct (decor_despan_total _ A3 B3) as (d' & ->). eauto.
    - intros items pre im dt d sp IH [H1 H2]. rewrite inline_in_items in H1. rewrite value_g_inline in H2.
      apply andb4 in H1 as (A1 & A2 & A3 & _). apply andb4 in H2 as (B1 & B2 & B3 & _). rewrite value_despan_inline.
      destruct (kvs_despan_total items IH A1 B1) as (items' & ->).
      destruct (raw_despan_total _ A2 B2) as (pre' & ->). destruct (decor_despan_total _ A3 B3) as (d' & ->). eauto.
    - intros _. exists INone. reflexivity.
    - intros v IH [H1 H2]. destruct (IH (conj H1 H2)) as (v' & E).
      change (item_despan s (IValue v)) with (optmap IValue (value_despan s v)). rewrite E. cbn. eauto.
    - intros t IH [H1 H2]. destruct (IH (conj H1 H2)) as (t' & E).
      change (item_despan s (ITable t)) with (optmap ITable (tbl_despan s t)). rewrite E. cbn. eauto.
    - intros ts sp IH [H1 H2]. rewrite item_in_aot in H1. rewrite item_g_aot in H2.
      apply andb_true_iff in H1 as [A1 _]. apply andb_true_iff in H2 as [B1 _]. rewrite item_despan_aot.
      destruct (omap_list_total (tbl_despan s) tgoodP ts IH) as (ts' & ->); [|cbn; eauto].
      apply Forall_forall. intros t Hin. rewrite forallb_forall in A1, B1. split; auto.
    - intros items d im dt p sp IH [H1 H2]. rewrite tbl_in_items in H1. rewrite tbl_g_items in H2.
      cbn [t_items t_decor t_span] in *. apply andb3 in H1 as (A1 & A2 & _). apply andb3 in H2 as (B1 & B2 & _).
      rewrite tbl_despan_eq. destruct (kvs_despan_total items IH A1 B1) as (items' & ->).
      destruct (decor_despan_total _ A2 B2) as (d' & ->). eauto.
  Qed.
End T.

Theorem despan_total s d :
  utf8_valid_b s = true -> parse_document s = POk d ->
  exists r t, tbl_despan s (doc_root d) = Some r /\ raw_despan s (doc_trailing d) = Some t.
Proof.
  intros V H. pose proof (parse_document_in s d H) as Hin. destruct (parse_document_g s d V H) as [G1 G2].
  unfold doc_in in Hin. apply andb_true_iff in Hin as [I1 I2].
  destruct (proj2 (proj2 (tree_despan_total s)) (doc_root d) (conj I1 G1)) as (r & Er).
  destruct (raw_despan_total s _ I2 G2) as (t & Et). eauto.
Qed.
