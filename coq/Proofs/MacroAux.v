(* Proofs/MacroAux.v — C19: the remaining states of toml_internal!: @path (key strings), @value (dispatch
   on the value token), @trailingcomma (appends a comma unless there is one), and the two header rules
   of @toplevel. *)
From TV Require Import Base.Prelude Base.Utf8 Model.Datetime Model.DatetimeStd Model.Numbers Model.Macro Spec.MacroSpec.
From TV Require Import Proofs.MacroMatch Proofs.MacroRules Proofs.MacroTails Proofs.MacroEval.

(* ------------------------------------------------------------------------------------------ *)
(* @path                                                                                      *)
(* ------------------------------------------------------------------------------------------ *)
Lemma path_rule_ident : forall s, ident_frag_ok s = true ->
  first_match rules [TPunct c_at; TIdent id_path; TIdent s] = Some (BPathIdent, [(Vident, BTT (TIdent s))]).
Proof.
  intros s H. rewrite rules_split4, first_match_app, skip_top_for_path.
  unfold rules_path_value. cbn [app first_match]. unfold match_rule, match_seq. cbn [r_head pstate app].
  rewrite seq_match_cons, match_punct_same. rewrite seq_match_cons, match_ident_same.
  rewrite seq_match_cons. cbn [match_pat]. rewrite H. reflexivity.
Qed.

Lemma path_rule_lit : forall l,
  first_match rules [TPunct c_at; TIdent id_path; TLit l] = Some (BPathQuoted, [(Vquoted, BTT (TLit l))]).
Proof. intro l. vm_compute. reflexivity. Qed.

Lemma path_str_ident : forall s, ident_frag_ok s = true -> path_str (TIdent s) = EOk s.
Proof. intros s H. unfold path_str. rewrite (path_rule_ident s H). reflexivity. Qed.

Lemma path_str_lit : forall l, path_str (TLit l) = match concat_piece (TLit l) with Some s => EOk s | None => ECompile end.
Proof. intro l. unfold path_str. rewrite path_rule_lit. reflexivity. Qed.

(* an all-digit literal has no radix prefix and no suffix *)
Lemma int_prefix_single : forall b, int_prefix [b] = (10%N, [b]).
Proof. intro b; destruct b; reflexivity. Qed.
Lemma int_prefix_digit2 : forall b1 b2 r, is_digit b2 = true -> int_prefix (b1 :: b2 :: r) = (10%N, b1 :: b2 :: r).
Proof. intros b1 b2 r H. destruct b1; try reflexivity. destruct b2; try reflexivity; discriminate H. Qed.

Lemma is_digit_not_us : forall b, is_digit b = true -> byte_eqb b x5f = false.
Proof. intro b; destruct b; intro H; try reflexivity; discriminate H. Qed.
Lemma radix10_digit : forall b, is_digit b = true -> radix_digit 10 b = Some (digit_val b).
Proof. intro b; destruct b; intro H; try discriminate H; reflexivity. Qed.

Lemma int_scan_digits : forall s acc seen, forallb is_digit s = true ->
  int_scan 10 acc seen s = (dec_value_acc acc s, seen || negb (match s with [] => true | _ => false end), []).
Proof.
  induction s as [|b s IH]; intros acc seen H.
  - cbn. rewrite orb_false_r. reflexivity.
  - cbn [forallb] in H. apply andb_true_iff in H as [Hb Hs].
    cbn [int_scan]. rewrite (is_digit_not_us b Hb), (radix10_digit b Hb). rewrite (IH _ true Hs).
    cbn [dec_value_acc orb negb]. rewrite orb_true_r. reflexivity.
Qed.

Lemma rust_int_lit_digits : forall s, s <> [] -> forallb is_digit s = true -> rust_int_lit s = Some (dec_value s, []).
Proof.
  intros s Hne H. unfold rust_int_lit.
  assert (Hp : int_prefix s = (10%N, s)).
  { destruct s as [|b1 [|b2 r]]; [contradiction|apply int_prefix_single|].
    apply int_prefix_digit2. cbn [forallb] in H. apply andb_true_iff in H as [_ H]. apply andb_true_iff in H as [H _]. exact H. }
  rewrite Hp. rewrite (int_scan_digits s 0%N false H). destruct s; [contradiction|]. reflexivity.
Qed.

Lemma path_str_part : forall p, part_ok p = true -> path_str (part_tok p) = EOk (part_text p).
Proof.
  intros [s|s] H; cbn [part_ok part_tok part_text] in *.
  - apply path_str_ident. unfold ident_ok in H. destruct s as [|b r]; [discriminate|].
    apply andb_true_iff in H as [_ H]. exact H.
  - rewrite path_str_lit. unfold int_key_ok in H. destruct s as [|b r] eqn:Es; [discriminate|]. rewrite <- Es in *.
    apply andb_true_iff in H as [Hd He]. cbn [concat_piece].
    rewrite (rust_int_lit_digits s); [|subst; discriminate|exact Hd].
    apply bytes_eqb_eq in He. rewrite He. reflexivity.
Qed.

(* the token trees of a key segment *)
Definition seg_parts (s : kseg) : list tt :=
  match s with KQuoted q => [TLit (LStr q)] | KBare ps => List.map part_tok ps end.

Lemma seg_toks_dash : forall s, seg_toks s = dash_join (seg_parts s).
Proof.
  intros [ps|q]; [|reflexivity]. unfold seg_toks, dash_join, seg_parts. rewrite map_map. reflexivity.
Qed.
Lemma key_toks_dot : forall p, key_toks p = dot_join (List.map seg_parts p).
Proof.
  intro p. unfold key_toks, dot_join. rewrite map_map. f_equal. apply map_ext. exact seg_toks_dash.
Qed.

Lemma emap_parts : forall ps, forallb part_ok ps = true ->
  emap path_str (List.map part_tok ps) = EOk (List.map part_text ps).
Proof.
  induction ps as [|p ps IH]; intro H; [reflexivity|].
  cbn [forallb] in H. apply andb_true_iff in H as [Hp Hps].
  cbn [List.map emap]. rewrite (path_str_part p Hp). cbn [ebind]. rewrite (IH Hps). reflexivity.
Qed.

Lemma seg_str_seg : forall s, seg_ok s = true -> seg_str (seg_parts s) = EOk (seg_string s).
Proof.
  intros [ps|q] H; cbn [seg_ok seg_parts seg_string] in *.
  - unfold seg_str. destruct ps as [|p ps]; [discriminate|]. rewrite (emap_parts (p :: ps) H). reflexivity.
  - unfold seg_str. cbn [emap]. rewrite path_str_lit. reflexivity.
Qed.

Lemma key_strs_path : forall p, forallb seg_ok p = true ->
  key_strs (List.map seg_parts p) = EOk (path_strings p).
Proof.
  unfold key_strs, path_strings.
  induction p as [|s p IH]; intro H; [reflexivity|].
  cbn [forallb] in H. apply andb_true_iff in H as [Hs Hp].
  cbn [List.map emap]. rewrite (seg_str_seg s Hs). cbn [ebind]. rewrite (IH Hp). reflexivity.
Qed.

Lemma seg_parts_nonempty : forall s, seg_ok s = true -> seg_parts s <> [].
Proof. intros [[|p ps]|q] H; cbn in *; discriminate. Qed.

Lemma path_segs_ok : forall p, path_ok p = true -> segs_ok (List.map seg_parts p) /\ forallb seg_ok p = true.
Proof.
  intros p H. unfold path_ok in H. destruct p as [|s p]; [discriminate|].
  apply andb_true_iff in H as [H _]. split; [|exact H]. split; [discriminate|].
  revert H. generalize (s :: p). intro l. induction l as [|a l IH]; intro H; [constructor|].
  cbn [forallb] in H. apply andb_true_iff in H as [Ha Hl]. cbn [List.map]. constructor; [apply seg_parts_nonempty; exact Ha|apply IH; exact Hl].
Qed.

Lemma path_strs_toks : forall strs, path_strs (List.map path_tok strs) = EOk strs.
Proof.
  unfold path_strs. induction strs as [|s strs IH]; [reflexivity|].
  cbn [List.map emap path_tok]. cbn [ebind]. rewrite IH. reflexivity.
Qed.

(* ------------------------------------------------------------------------------------------ *)
(* @value                                                                                     *)
(* ------------------------------------------------------------------------------------------ *)
Definition value_in (t : tt) : list tt := [TPunct c_at; TIdent id_value; t].

Lemma state_toks_value : forall t, state_toks id_value ++ [t] = value_in t.
Proof. reflexivity. Qed.

Lemma skip_path_for_value : forall X,
  first_match [mkRule (pstate id_path ++ [PVar Vident FIdent]) BPathIdent; mkRule (pstate id_path ++ [V Vquoted]) BPathQuoted]
              (TPunct c_at :: TIdent id_value :: X) = None.
Proof. intro X. vm_compute. reflexivity. Qed.

Lemma value_rule_brace : forall g,
  first_match rules (value_in (TGroup DBrace g)) = Some (BValTable q_table_inline, [(Vinline, tts_bnd g)]).
Proof.
  intro g. rewrite rules_split4, first_match_app. unfold value_in. rewrite skip_top_for_value.
  rewrite first_match_app.
  change rules_path_value with
    ([mkRule (pstate id_path ++ [PVar Vident FIdent]) BPathIdent; mkRule (pstate id_path ++ [V Vquoted]) BPathQuoted]
     ++ skipn 2 rules_path_value).
  rewrite first_match_app, skip_path_for_value. cbn [skipn rules_path_value first_match].
  unfold match_rule at 1, match_seq. cbn [r_head pstate app].
  rewrite seq_match_cons, match_punct_same. rewrite seq_match_cons, match_ident_same.
  rewrite seq_match_cons, match_group_star. reflexivity.
Qed.

Lemma value_rule_bracket : forall g,
  first_match rules (value_in (TGroup DBracket g)) = Some (BValArray q_array_inline, [(Vinline, tts_bnd g)]).
Proof.
  intro g. rewrite rules_split4, first_match_app. unfold value_in. rewrite skip_top_for_value.
  rewrite first_match_app.
  change rules_path_value with
    ([mkRule (pstate id_path ++ [PVar Vident FIdent]) BPathIdent; mkRule (pstate id_path ++ [V Vquoted]) BPathQuoted]
     ++ skipn 2 rules_path_value).
  rewrite first_match_app, skip_path_for_value. cbn [skipn rules_path_value first_match].
  unfold match_rule at 1, match_seq. cbn [r_head pstate app].
  rewrite seq_match_cons, match_punct_same. rewrite seq_match_cons, match_ident_same.
  rewrite seq_match_cons. cbn [match_pat delim_beq].
  unfold match_rule at 1, match_seq. cbn [r_head pstate app].
  rewrite seq_match_cons, match_punct_same. rewrite seq_match_cons, match_ident_same.
  rewrite seq_match_cons, match_group_star. reflexivity.
Qed.

Lemma value_rule_lit : forall l, first_match rules (value_in (TLit l)) = Some (BValOther, [(Vv, BTT (TLit l))]).
Proof. intro l. vm_compute. reflexivity. Qed.
Lemma value_rule_true : first_match rules (value_in (TIdent id_true)) = Some (BValOther, [(Vv, BTT (TIdent id_true))]).
Proof. vm_compute. reflexivity. Qed.
Lemma value_rule_false : first_match rules (value_in (TIdent id_false)) = Some (BValOther, [(Vv, BTT (TIdent id_false))]).
Proof. vm_compute. reflexivity. Qed.
Lemma value_rule_paren_lit : forall l,
  first_match rules (value_in (TGroup DParen [TLit l])) = Some (BValOther, [(Vv, BTT (TGroup DParen [TLit l]))]).
Proof. intro l. vm_compute. reflexivity. Qed.
Lemma value_rule_paren_neg_lit : forall l,
  first_match rules (value_in (TGroup DParen [TPunct c_minus; TLit l]))
  = Some (BValNeg, [(Vv, BTT (TLit l))]).
Proof. intro l. vm_compute. reflexivity. Qed.

(* the six spellings of the special floats *)
Lemma value_special : forall (neg paren nan : bool) cur,
  (neg = true -> paren = true) ->
  Ev cur (value_in (let id := TIdent (if nan then id_nan else id_inf) in
                    if paren then TGroup DParen ((if neg then [TPunct c_minus] else []) ++ [id]) else id))
     (EOk (MFloat (if nan then FNan neg else FInf neg))) 1.
Proof.
  intros neg paren nan cur H.
  destruct neg, paren, nan; try (exfalso; specialize (H eq_refl); discriminate H);
    (eapply Ev_valconst; vm_compute; reflexivity).
Qed.

(* ------------------------------------------------------------------------------------------ *)
(* @trailingcomma                                                                             *)
(* ------------------------------------------------------------------------------------------ *)
Definition tc_in (A X : list tt) : list tt := TPunct c_at :: TIdent id_trailingcomma :: TGroup DParen A :: X.

Lemma tc_prefix : forall A X,
  seq_match match_pat (pstate id_trailingcomma ++ [argsG]) (tc_in A X) = Some ([(Vargs, tts_bnd A)], X).
Proof.
  intros. unfold tc_in. cbn [pstate app].
  rewrite seq_match_cons, match_punct_same. rewrite seq_match_cons, match_ident_same.
  unfold argsG. rewrite seq_match_cons, match_group_star. reflexivity.
Qed.

Lemma tc_head : forall ps A X,
  match_seq (pstate id_trailingcomma ++ argsG :: ps) (tc_in A X) =
  match seq_match match_pat ps X with
  | Some (e, r) => Some ((Vargs, tts_bnd A) :: e, r)
  | None => None
  end.
Proof.
  intros. unfold match_seq.
  change (pstate id_trailingcomma ++ argsG :: ps) with ((pstate id_trailingcomma ++ [argsG]) ++ ps).
  rewrite seq_match_app, tc_prefix. destruct (seq_match match_pat ps X) as [[e r]|]; reflexivity.
Qed.

Lemma rules_tc_only : forall A X, first_match rules (tc_in A X) = first_match rules_trailingcomma (tc_in A X).
Proof.
  intros. rewrite rules_split4.
  rewrite (app_assoc rules_toplevel), (app_assoc (rules_toplevel ++ rules_path_value)),
          (app_assoc ((rules_toplevel ++ rules_path_value) ++ rules_table)).
  rewrite first_match_app. rewrite <- !app_assoc. unfold tc_in. rewrite skip_for_trailingcomma. reflexivity.
Qed.

Lemma tc_rule_nil : forall A, first_match rules (tc_in A []) = Some (BInvoke [starQ Vargs], [(Vargs, tts_bnd A)]).
Proof.
  intro A. rewrite rules_tc_only. unfold rules_trailingcomma. cbn [first_match]. unfold match_rule. cbn [r_head].
  change (pstate id_trailingcomma ++ [argsG]) with (pstate id_trailingcomma ++ argsG :: []).
  rewrite tc_head. reflexivity.
Qed.

Lemma tc_rule_comma : forall A,
  first_match rules (tc_in A [TPunct c_comma]) = Some (BInvoke [starQ Vargs; Q c_comma], [(Vargs, tts_bnd A)]).
Proof.
  intro A. rewrite rules_tc_only. unfold rules_trailingcomma. cbn [first_match]. unfold match_rule. cbn [r_head].
  change (pstate id_trailingcomma ++ [argsG]) with (pstate id_trailingcomma ++ argsG :: []).
  change (pstate id_trailingcomma ++ [argsG; P c_comma]) with (pstate id_trailingcomma ++ argsG :: [P c_comma]).
  rewrite !tc_head. reflexivity.
Qed.

Lemma tc_rule_last : forall A t, is_plain t = true ->
  first_match rules (tc_in A [t]) = Some (BInvoke [starQ Vargs; QVar Vlast; Q c_comma], [(Vargs, tts_bnd A); (Vlast, BTT t)]).
Proof.
  intros A t Ht. rewrite rules_tc_only. unfold rules_trailingcomma. cbn [first_match]. unfold match_rule. cbn [r_head].
  change (pstate id_trailingcomma ++ [argsG]) with (pstate id_trailingcomma ++ argsG :: []).
  change (pstate id_trailingcomma ++ [argsG; P c_comma]) with (pstate id_trailingcomma ++ argsG :: [P c_comma]).
  change (pstate id_trailingcomma ++ [argsG; V Vlast]) with (pstate id_trailingcomma ++ argsG :: [V Vlast]).
  rewrite !tc_head. destruct t as [s|l|c|d g]; try discriminate Ht; reflexivity.
Qed.

Lemma tc_rule_more : forall A t1 t2 X,
  first_match rules (tc_in A (t1 :: t2 :: X))
  = Some (BInvoke (qstate id_trailingcomma ++ [QGroup DParen [starQ Vargs; QVar Vfirst]; starQ Vrest]),
          [(Vargs, tts_bnd A); (Vfirst, BTT t1); (Vrest, tts_bnd (t2 :: X))]).
Proof.
  intros A t1 t2 X. rewrite rules_tc_only. unfold rules_trailingcomma. cbn [first_match]. unfold match_rule. cbn [r_head].
  change (pstate id_trailingcomma ++ [argsG]) with (pstate id_trailingcomma ++ argsG :: []).
  change (pstate id_trailingcomma ++ [argsG; P c_comma]) with (pstate id_trailingcomma ++ argsG :: [P c_comma]).
  change (pstate id_trailingcomma ++ [argsG; V Vlast]) with (pstate id_trailingcomma ++ argsG :: [V Vlast]).
  change (pstate id_trailingcomma ++ [argsG; V Vfirst; plusP Vrest]) with (pstate id_trailingcomma ++ argsG :: [V Vfirst; plusP Vrest]).
  rewrite !tc_head.
  assert (S1 : seq_match match_pat [] (t1 :: t2 :: X) = Some ([], t1 :: t2 :: X)) by reflexivity.
  assert (S2 : seq_match match_pat [P c_comma] (t1 :: t2 :: X) = None
               \/ seq_match match_pat [P c_comma] (t1 :: t2 :: X) = Some ([], t2 :: X)).
  { rewrite seq_match_cons. unfold P. cbn [match_pat]. destruct t1 as [s|l|c|d g]; auto.
    destruct (byte_eqb c_comma c); auto. }
  assert (S3 : seq_match match_pat [V Vlast] (t1 :: t2 :: X) = Some ([(Vlast, BTT t1)], t2 :: X)) by reflexivity.
  assert (S4 : seq_match match_pat [V Vfirst; plusP Vrest] (t1 :: t2 :: X)
               = Some ([(Vfirst, BTT t1); (Vrest, tts_bnd (t2 :: X))], [])).
  { rewrite seq_match_cons, match_tt. rewrite seq_match_cons, (match_plus Vrest (t2 :: X)) by discriminate. reflexivity. }
  rewrite S1, S3, S4. destruct S2 as [S2|S2]; rewrite S2; reflexivity.
Qed.

Lemma tr_star_args : forall e A, lookup Vargs e = Some (tts_bnd A) -> transcribe (starQ Vargs) e = A.
Proof. intros. apply transcribe_star. assumption. Qed.

Lemma Ev_tc_nil : forall cur A r n, Ev cur A r n -> Ev cur (tc_in A []) r (S n).
Proof.
  intros cur A r n H. eapply Ev_invoke; [apply tc_rule_nil|].
  unfold transcribe_seq. cbn [flat_map]. rewrite (transcribe_star Vargs [(Vargs, tts_bnd A)] A eq_refl), app_nil_r. exact H.
Qed.

Lemma Ev_tc_plain : forall cur X A t r n, is_plain t = true ->
  Ev cur (A ++ X ++ [t; TPunct c_comma]) r n -> Ev cur (tc_in A (X ++ [t])) r (S (List.length X) + n).
Proof.
  intros cur X. induction X as [|t1 X IH]; intros A t r n Ht H.
  - cbn [app List.length Nat.add]. eapply Ev_invoke; [apply (tc_rule_last A t Ht)|].
    unfold transcribe_seq. cbn [flat_map]. rewrite (transcribe_star Vargs [(Vargs, tts_bnd A); (Vlast, BTT t)] A eq_refl).
    cbn [transcribe lookup var_beq Q app]. exact H.
  - cbn [app List.length].
    assert (EX : exists t2 X2, X ++ [t] = t2 :: X2) by (destruct X; cbn [app]; eauto).
    destruct EX as [t2 [X2 EX]].
    replace (S (S (List.length X)) + n) with (S (S (List.length X) + n)) by lia.
    eapply Ev_invoke; [rewrite EX; apply tc_rule_more|].
    unfold transcribe_seq. cbn [qstate app flat_map]. cbn [transcribe Q flat_map].
    rewrite (transcribe_star Vargs [(Vargs, tts_bnd A); (Vfirst, BTT t1); (Vrest, tts_bnd (t2 :: X2))] A eq_refl).
    rewrite (transcribe_star Vrest [(Vargs, tts_bnd A); (Vfirst, BTT t1); (Vrest, tts_bnd (t2 :: X2))] (t2 :: X2) eq_refl).
    cbn [transcribe lookup var_beq app]. rewrite ?app_nil_r. rewrite <- EX.
    change (TPunct c_at :: TIdent id_trailingcomma :: TGroup DParen (A ++ [t1]) :: X ++ [t]) with (tc_in (A ++ [t1]) (X ++ [t])).
    apply IH; [exact Ht|]. rewrite <- app_assoc. exact H.
Qed.

Lemma Ev_tc_comma : forall cur X A r n,
  Ev cur (A ++ X ++ [TPunct c_comma]) r n -> Ev cur (tc_in A (X ++ [TPunct c_comma])) r (S (List.length X) + n).
Proof.
  intros cur X. induction X as [|t1 X IH]; intros A r n H.
  - cbn [app List.length Nat.add]. eapply Ev_invoke; [apply (tc_rule_comma A)|].
    unfold transcribe_seq. cbn [flat_map]. rewrite (transcribe_star Vargs [(Vargs, tts_bnd A)] A eq_refl). cbn [transcribe Q app].
    exact H.
  - cbn [app List.length].
    assert (EX : exists t2 X2, X ++ [TPunct c_comma] = t2 :: X2) by (destruct X; cbn [app]; eauto).
    destruct EX as [t2 [X2 EX]].
    replace (S (S (List.length X)) + n) with (S (S (List.length X) + n)) by lia.
    eapply Ev_invoke; [rewrite EX; apply tc_rule_more|].
    unfold transcribe_seq. cbn [qstate app flat_map]. cbn [transcribe Q flat_map].
    rewrite (transcribe_star Vargs [(Vargs, tts_bnd A); (Vfirst, BTT t1); (Vrest, tts_bnd (t2 :: X2))] A eq_refl).
    rewrite (transcribe_star Vrest [(Vargs, tts_bnd A); (Vfirst, BTT t1); (Vrest, tts_bnd (t2 :: X2))] (t2 :: X2) eq_refl).
    cbn [transcribe lookup var_beq app]. rewrite ?app_nil_r. rewrite <- EX.
    change (TPunct c_at :: TIdent id_trailingcomma :: TGroup DParen (A ++ [t1]) :: X ++ [TPunct c_comma]) with (tc_in (A ++ [t1]) (X ++ [TPunct c_comma])).
    apply IH. rewrite <- app_assoc. exact H.
Qed.

(* ------------------------------------------------------------------------------------------ *)
(* headers                                                                                    *)
(* ------------------------------------------------------------------------------------------ *)
(* every token of a key is an identifier or a literal *)
Definition key_tok (t : tt) : bool := match t with TIdent _ | TLit _ => true | _ => false end.

Definition E_hdr (r : bytes) (pt : list tt) (segs : list (list tt)) (R : list tt) : env :=
  [(Vroot, BTT (TIdent r)); (Voldpath, BTT (TGroup DBracket pt)); (Vpath, key_bnd segs); (Vrest, tts_bnd R)].

Lemma rest_ok_not_head : forall R c, rest_ok R = true -> not_head c R = true.
Proof. intros [|[s|l|c0|d g] R] c H; try reflexivity. discriminate H. Qed.

Lemma rest_ok_no_eq : forall R, rest_ok R = true -> match_pat (P c_eq) R = None.
Proof. intros [|[s|l|c0|d g] R] H; try reflexivity. discriminate H. Qed.

(* a `[..]` group where a key is expected: the key/value rules take the group as the key and then miss `=` *)
Lemma top_kv_rule_group : forall tl b r pt G R, rest_ok R = true ->
  match_rule (mkRule (top_kv tl) b) (top_in r pt (TGroup DBracket G :: R)) = None.
Proof.
  intros tl b r pt G R HR. unfold match_rule, match_seq, top_in. cbn [r_head].
  unfold top_kv, top_prefix, pstate. cbn [app].
  rewrite seq_match_cons, match_punct_same. rewrite seq_match_cons, match_ident_same.
  rewrite seq_match_cons. unfold rootP at 1. cbn [match_pat]. destruct (ident_frag_ok r); [|reflexivity].
  unfold pathG. rewrite seq_match_cons, match_group_star.
  rewrite seq_match_cons.
  change (TGroup DBracket G :: R) with (dot_join [[TGroup DBracket G]] ++ R).
  rewrite (match_key Vk [[TGroup DBracket G]] R); [|discriminate|repeat constructor; discriminate
                                                    |apply rest_ok_not_head; exact HR|apply rest_ok_not_head; exact HR].
  rewrite seq_match_cons, (rest_ok_no_eq R HR). reflexivity.
Qed.

Lemma top_kv_rules_group : forall tls r pt G R, rest_ok R = true ->
  first_match (List.map (fun tb => mkRule (top_kv (fst tb)) (snd tb)) tls) (top_in r pt (TGroup DBracket G :: R)) = None.
Proof.
  induction tls as [|[tl b] tls IH]; intros r pt G R HR; [reflexivity|].
  cbn [List.map first_match fst snd]. rewrite (top_kv_rule_group tl b r pt G R HR). apply IH. exact HR.
Qed.

Lemma hdr_prefix : forall r pt X, ident_frag_ok r = true ->
  seq_match match_pat (pstate id_toplevel ++ [rootP; V Voldpath]) (top_in r pt X)
  = Some ([(Vroot, BTT (TIdent r)); (Voldpath, BTT (TGroup DBracket pt))], X).
Proof.
  intros r pt X Hr. unfold top_in. cbn [pstate app].
  rewrite seq_match_cons, match_punct_same. rewrite seq_match_cons, match_ident_same.
  rewrite seq_match_cons, (match_root r _ Hr). rewrite seq_match_cons, match_tt. reflexivity.
Qed.

Lemma dot_join_not_group : forall segs, segs_ok segs -> Forall (Forall (fun t => key_tok t = true)) segs ->
  exists t X, dot_join segs = t :: X /\ key_tok t = true.
Proof.
  intros [|s segs] [Hne Hall] Hk; [contradiction|]. inversion Hall as [|? ? Hs _]; subst.
  inversion Hk as [|? ? Hks _]; subst.
  destruct s as [|t s]; [contradiction|]. inversion Hks as [|? ? Ht _]; subst.
  destruct (dash_join_head t s) as [X HX].
  destruct segs as [|s2 segs].
  - unfold dot_join. cbn [List.map join_tts]. rewrite HX. eauto.
  - rewrite dot_join_cons2, HX. cbn [app]. eauto.
Qed.

Lemma match_group : forall d ps inner R,
  match_pat (PGroup d ps) (TGroup d inner :: R) =
  match seq_match match_pat ps inner with Some (e, []) => Some (e, R) | _ => None end.
Proof. intros. cbn [match_pat]. replace (delim_beq d d) with true by (destruct d; reflexivity). reflexivity. Qed.

Lemma key_alone : forall x segs, segs_ok segs ->
  seq_match match_pat [keyP x] (dot_join segs) = Some ([(x, key_bnd segs)], []).
Proof.
  intros x segs [Hne Hall]. rewrite seq_match_cons. rewrite <- (app_nil_r (dot_join segs)).
  rewrite (match_key x segs [] Hne Hall eq_refl eq_refl). reflexivity.
Qed.

Theorem tabhdr_first_match : forall r pt segs R, ident_frag_ok r = true -> segs_ok segs ->
  Forall (Forall (fun t => key_tok t = true)) segs -> rest_ok R = true ->
  first_match rules (top_in r pt (TGroup DBracket (dot_join segs) :: R)) = Some (BTabHeader, E_hdr r pt segs R).
Proof.
  intros r pt segs R Hr Hs Hk HR.
  destruct (dot_join_not_group segs Hs Hk) as [t [X [HX Ht]]].
  assert (G1 : match_pat (PGroup DBracket [PGroup DBracket [keyP Vpath]]) (TGroup DBracket (dot_join segs) :: R) = None).
  { rewrite match_group, HX, seq_match_cons.
    destruct t as [s|l|c|d g]; try discriminate Ht; reflexivity. }
  assert (G2 : match_pat (PGroup DBracket [keyP Vpath]) (TGroup DBracket (dot_join segs) :: R) = Some ([(Vpath, key_bnd segs)], R)).
  { rewrite match_group, (key_alone Vpath segs Hs). reflexivity. }
  rewrite rules_split4, rules_toplevel_eq. rewrite <- !app_assoc. rewrite first_match_app.
  cbn [first_match]. rewrite top_base_rule_nonempty.
  rewrite first_match_app. unfold top_kv_rules. rewrite (top_kv_rules_group top_tails r pt _ R HR).
  cbn [app first_match].
  unfold rule_arrhdr at 1, match_rule at 1, match_seq. cbn [r_head].
  change (pstate id_toplevel ++ [rootP; V Voldpath; PGroup DBracket [PGroup DBracket [keyP Vpath]]; starP Vrest])
    with ((pstate id_toplevel ++ [rootP; V Voldpath]) ++ [PGroup DBracket [PGroup DBracket [keyP Vpath]]; starP Vrest]).
  rewrite seq_match_app, (hdr_prefix r pt _ Hr). rewrite seq_match_cons, G1.
  unfold rule_tabhdr at 1, match_rule at 1, match_seq. cbn [r_head].
  change (pstate id_toplevel ++ [rootP; V Voldpath; PGroup DBracket [keyP Vpath]; starP Vrest])
    with ((pstate id_toplevel ++ [rootP; V Voldpath]) ++ [PGroup DBracket [keyP Vpath]; starP Vrest]).
  rewrite seq_match_app, (hdr_prefix r pt _ Hr). rewrite seq_match_cons, G2.
  rewrite seq_match_cons, match_star. reflexivity.
Qed.

Theorem arrhdr_first_match : forall r pt segs R, ident_frag_ok r = true -> segs_ok segs -> rest_ok R = true ->
  first_match rules (top_in r pt (TGroup DBracket [TGroup DBracket (dot_join segs)] :: R)) = Some (BArrHeader, E_hdr r pt segs R).
Proof.
  intros r pt segs R Hr Hs HR.
  assert (G : match_pat (PGroup DBracket [PGroup DBracket [keyP Vpath]]) (TGroup DBracket [TGroup DBracket (dot_join segs)] :: R)
              = Some ([(Vpath, key_bnd segs)], R)).
  { rewrite match_group, seq_match_cons, match_group, (key_alone Vpath segs Hs). reflexivity. }
  rewrite rules_split4, rules_toplevel_eq. rewrite <- !app_assoc. rewrite first_match_app.
  cbn [first_match]. rewrite top_base_rule_nonempty.
  rewrite first_match_app. unfold top_kv_rules. rewrite (top_kv_rules_group top_tails r pt _ R HR).
  cbn [app first_match].
  unfold rule_arrhdr at 1, match_rule at 1, match_seq. cbn [r_head].
  change (pstate id_toplevel ++ [rootP; V Voldpath; PGroup DBracket [PGroup DBracket [keyP Vpath]]; starP Vrest])
    with ((pstate id_toplevel ++ [rootP; V Voldpath]) ++ [PGroup DBracket [PGroup DBracket [keyP Vpath]]; starP Vrest]).
  rewrite seq_match_app, (hdr_prefix r pt _ Hr). rewrite seq_match_cons, G.
  rewrite seq_match_cons, match_star. reflexivity.
Qed.
