(* Proofs/DepthLimit.v — lemmas behind Props/C05.v, part 5: the limit is enforced for EVERY nesting
   count, by induction (not a sweep), for the two constructs that recurse through
   `check_recursion`:
     `a=` followed by n >= LIMIT opening brackets            (arrays)
     `a=` followed by n >= LIMIT times `{k=`                  (inline tables)
   is rejected with the RecursionLimit error whatever follows. *)
From Coq Require Import List Bool Arith NArith ZArith Lia.
From Coq.Strings Require Import Byte.
From TV Require Import Base.Prelude Base.Utf8 Base.Winnow Gen.Consts.
From TV Require Import Model.Trivia Model.Strings Model.Datetime Model.Numbers Model.Tree Model.Parse Model.Document.
From TV Require Import Proofs.DepthBase Proofs.DepthLex Proofs.DepthValue.
Import ListNotations.

(* ---- rewriting a run through the combinators -------------------------------------------- *)
Lemma bind_ok_eq {A B} (p : parser A) (f : A -> parser B) i a i1 : p i = Ok a i1 -> bind p f i = f a i1.
Proof. intro H. unfold bind. rewrite H. reflexivity. Qed.
Lemma bind_cut_eq {A B} (p : parser A) (f : A -> parser B) i e i1 : p i = Cut e i1 -> bind p f i = Cut e i1.
Proof. intro H. unfold bind. rewrite H. reflexivity. Qed.

Lemma ws_stop i b r : rest i = b :: r -> in_class WSCHAR b = false -> ws i = Ok [] (advance 0 i).
Proof.
  intros H Hb. unfold ws, unchecked_utf8, take_while0, take_while_mn. rewrite H.
  cbn [span_while]. rewrite Hb. cbn [fst length Nat.ltb Nat.leb]. reflexivity.
Qed.

Lemma wcn_stop i b r : rest i = b :: r -> in_class WSCHAR b = false ->
  byte_eqb b x23 = false -> byte_eqb b x0a = false -> byte_eqb b x0d = false ->
  span_ ws_comment_newline i = Ok (pos i, (pos i + 0)%N) (advance 0 i).
Proof.
  intros H Hb H1 H2 H3. unfold span_, ws_comment_newline. rewrite H. cbn [length ws_comment_newline_f].
  rewrite (ws_stop i b r H Hb). cbn [advance rest skipn]. rewrite H, H1, H2, H3. reflexivity.
Qed.

Lemma value_step_bracket vr i r : rest i = x5b :: r ->
  value_step vr i = match check_recursion (array vr) i with
                    | Ok v i' => Ok (apply_raw v (pos i, pos i')) i'
                    | Bt e i' => Bt e i' | Cut e i' => Cut e i' | Panic s => Panic s end.
Proof.
  intro H. unfold value_step, pmap, with_span, value_body, bind, context, peek, any. rewrite H.
  change (byte_eqb "[" QUOTATION_MARK || byte_eqb "[" APOSTROPHE) with false.
  change (byte_eqb "[" ARRAY_OPEN) with true. cbv iota.
  destruct (check_recursion (array vr) i); reflexivity.
Qed.

Lemma byte_ok b i r : rest i = b :: r -> byte_ b i = Ok b (advance 1 i).
Proof. intro H. unfold byte_, one_of. rewrite H, byte_eqb_refl. reflexivity. Qed.

Lemma peek_close_bracket i r : rest i = x5b :: r -> peek (opt (byte_ ARRAY_CLOSE)) i = Ok None i.
Proof. intro H. unfold peek, opt, byte_, one_of. rewrite H. reflexivity. Qed.

Lemma arrays_limit : forall j fuel i m tl,
  depth i + j + 1 = LIMIT -> j < m -> j < fuel -> rest i = repeat x5b m ++ tl ->
  exists i', value_f fuel i = Cut (err_of RecursionLimit) i'.
Proof.
  induction j as [|j IH]; intros fuel i m tl Hd Hm Hf Hr.
  - destruct fuel as [|f]; [lia|]. destruct m as [|m]; [lia|]. cbn [repeat app] in Hr.
    cbn [value_f]. rewrite (value_step_bracket _ _ _ Hr).
    unfold check_recursion. cbn [set_depth depth].
    replace (Nat.leb LIMIT (S (depth i))) with true by (symmetry; apply Nat.leb_le; lia).
    eexists; reflexivity.
  - destruct fuel as [|f]; [lia|]. destruct m as [|m]; [lia|]. destruct m as [|m]; [lia|].
    cbn [repeat app] in Hr.
    cbn [value_f]. rewrite (value_step_bracket _ _ _ Hr).
    unfold check_recursion. cbn [set_depth depth].
    replace (Nat.leb LIMIT (S (depth i))) with false by (symmetry; apply Nat.leb_gt; lia).
    set (i1 := mkIn (rest i) (pos i) (S (depth i))).
    assert (H1 : rest i1 = x5b :: x5b :: repeat x5b m ++ tl) by exact Hr.
    set (i2 := advance 1 i1).
    assert (H2 : rest i2 = x5b :: repeat x5b m ++ tl) by (unfold i2; cbn [advance rest]; rewrite H1; reflexivity).
    set (i3 := advance 0 i2).
    assert (H3 : rest i3 = repeat x5b (S m) ++ tl) by (unfold i3; cbn [advance rest skipn]; exact H2).
    destruct (IH f i3 (S m) tl) as [i' Hi']; [cbn [i3 i2 i1 advance depth]; lia|lia|lia|exact H3|].
    assert (Hav : array_value (value_f f) i2 = Cut (err_of RecursionLimit) i').
    { unfold array_value.
      rewrite (bind_ok_eq _ _ _ _ _ (wcn_stop i2 _ _ H2 eq_refl eq_refl eq_refl eq_refl)).
      apply bind_cut_eq. exact Hi'. }
    assert (Havs : array_values (value_f f) i2 = Cut (err_of RecursionLimit) i').
    { unfold array_values. rewrite (bind_ok_eq _ _ _ _ _ (peek_close_bracket _ _ H2)).
      apply bind_cut_eq. unfold separated0. rewrite Hav. reflexivity. }
    assert (Ha : array (value_f f) i1 = Cut (err_of RecursionLimit) i').
    { unfold array. rewrite (bind_ok_eq _ _ _ _ _ (byte_ok ARRAY_OPEN i1 _ H1)).
      apply bind_cut_eq. unfold cut_err. fold i2. rewrite Havs. reflexivity. }
    change (set_depth (S (depth i)) i) with i1. rewrite Ha. eexists; reflexivity.
Qed.

Lemma value_arrays_limit i m tl : depth i = 0 -> LIMIT <= m -> rest i = repeat x5b m ++ tl ->
  exists i', value_ i = Cut (err_of RecursionLimit) i'.
Proof.
  intros Hd Hm Hr. unfold value_. pose proof LIMIT_ge2 as HL.
  apply (arrays_limit (LIMIT - 1) _ i m tl); [lia|lia| |exact Hr].
  rewrite Hr, app_length, repeat_length. lia.
Qed.


Lemma try_map_cut_eq {A B} (f : A -> tm B) p i e i1 : p i = Cut e i1 -> try_map f p i = Cut e i1.
Proof. intro H. unfold try_map. rewrite H. reflexivity. Qed.
Lemma cut_err_cut_eq {A} (p : parser A) i e i1 : p i = Cut e i1 -> cut_err p i = Cut e i1.
Proof. intro H. unfold cut_err. rewrite H. reflexivity. Qed.
Lemma context_cut_limit {A} (p : parser A) i i1 :
  p i = Cut (err_of RecursionLimit) i1 -> context p i = Cut (mkErr (Some RecursionLimit) true) i1.
Proof. intro H. unfold context. rewrite H. reflexivity. Qed.

(* the key `a` followed by `=` *)
Lemma key_a rs p d : exists kp i2,
  key_ (mkIn (x61 :: x3d :: rs) p d) = Ok kp i2 /\ rest i2 = x3d :: rs /\ depth i2 = d /\
  exists k, pop_key kp = Some ([], k).
Proof.
  eexists. eexists. split; [reflexivity|]. split; [reflexivity|]. split; [reflexivity|].
  eexists. reflexivity.
Qed.

(* ---- inline tables -------------------------------------------------------- *)
Definition braces (m : nat) : bytes := concat (repeat [x7b; x6b; x3d] m).

Lemma value_step_brace vr i r : rest i = x7b :: r ->
  value_step vr i = match check_recursion (inline_table vr) i with
                    | Ok v i' => Ok (apply_raw v (pos i, pos i')) i'
                    | Bt e i' => Bt e i' | Cut e i' => Cut e i' | Panic s => Panic s end.
Proof.
  intro H. unfold value_step, pmap, with_span, value_body, bind, context, peek, any. rewrite H.
  change (byte_eqb "{" QUOTATION_MARK || byte_eqb "{" APOSTROPHE) with false.
  change (byte_eqb "{" ARRAY_OPEN) with false.
  change (byte_eqb "{" INLINE_TABLE_OPEN) with true. cbv iota.
  destruct (check_recursion (inline_table vr) i); reflexivity.
Qed.

Lemma key_k rs p d : exists kp i2,
  key_ (mkIn (x6b :: x3d :: rs) p d) = Ok kp i2 /\ rest i2 = x3d :: rs /\ depth i2 = d /\
  exists k, pop_key kp = Some ([], k).
Proof.
  eexists. eexists. split; [reflexivity|]. split; [reflexivity|]. split; [reflexivity|].
  eexists. reflexivity.
Qed.

Lemma inlines_limit : forall j fuel i m tl,
  depth i + j + 1 = LIMIT -> j < m -> j < fuel -> rest i = braces m ++ tl ->
  exists i', value_f fuel i = Cut (err_of RecursionLimit) i'.
Proof.
  induction j as [|j IH]; intros fuel i m tl Hd Hm Hf Hr.
  - destruct fuel as [|f]; [lia|]. destruct m as [|m]; [lia|].
    unfold braces in Hr. cbn [repeat concat app] in Hr.
    cbn [value_f]. rewrite (value_step_brace _ _ _ Hr).
    unfold check_recursion. cbn [set_depth depth].
    replace (Nat.leb LIMIT (S (depth i))) with true by (symmetry; apply Nat.leb_le; lia).
    eexists; reflexivity.
  - destruct fuel as [|f]; [lia|]. destruct m as [|m]; [lia|]. destruct m as [|m]; [lia|].
    unfold braces in Hr. cbn [repeat concat app] in Hr. fold (braces m) in Hr.
    cbn [value_f]. rewrite (value_step_brace _ _ _ Hr).
    unfold check_recursion. cbn [set_depth depth].
    replace (Nat.leb LIMIT (S (depth i))) with false by (symmetry; apply Nat.leb_gt; lia).
    change (set_depth (S (depth i)) i) with (mkIn (rest i) (pos i) (S (depth i))).
    set (i1 := mkIn (rest i) (pos i) (S (depth i))).
    assert (H1 : rest i1 = x7b :: x6b :: x3d :: x7b :: x6b :: x3d :: braces m ++ tl) by exact Hr.
    set (i2 := advance 1 i1).
    assert (H2 : i2 = mkIn (x6b :: x3d :: x7b :: x6b :: x3d :: braces m ++ tl) (pos i2) (S (depth i))).
    { unfold i2, advance. cbn [rest pos depth]. rewrite H1. reflexivity. }
    destruct (key_k (x7b :: x6b :: x3d :: braces m ++ tl) (pos i2) (S (depth i)))
      as (kp & i3 & Hk & Hr3 & Hd3 & k & Hpop).
    rewrite <- H2 in Hk.
    set (i4 := advance 1 i3).
    assert (Hr4 : rest i4 = x7b :: x6b :: x3d :: braces m ++ tl)
      by (unfold i4; cbn [advance rest]; rewrite Hr3; reflexivity).
    set (i5 := advance 0 i4).
    assert (Hr5 : rest i5 = braces (S m) ++ tl) by (unfold i5; cbn [advance rest skipn]; exact Hr4).
    destruct (IH f i5 (S m) tl) as [i' Hi']; [cbn [i5 i4 advance depth]; lia|lia|lia|exact Hr5|].
    assert (Hkv : inline_keyval (value_f f) i2 = Cut (err_of RecursionLimit) i').
    { unfold inline_keyval. rewrite (bind_ok_eq _ _ _ _ _ Hk).
      apply bind_cut_eq. apply cut_err_cut_eq.
      assert (Hsep : context (byte_ KEYVAL_SEP) i3 = Ok x3d i4).
      { unfold context. rewrite (byte_ok KEYVAL_SEP i3 _ Hr3). reflexivity. }
      rewrite (bind_ok_eq _ _ _ _ _ Hsep).
      assert (Hws : span_ ws i4 = Ok (pos i4, (pos i4 + 0)%N) i5).
      { unfold span_. rewrite (ws_stop i4 _ _ Hr4 eq_refl). reflexivity. }
      rewrite (bind_ok_eq _ _ _ _ _ Hws). apply bind_cut_eq. exact Hi'. }
    assert (Ht : inline_table (value_f f) i1 = Cut (err_of RecursionLimit) i').
    { unfold inline_table. rewrite (bind_ok_eq _ _ _ _ _ (byte_ok INLINE_TABLE_OPEN i1 _ H1)).
      fold i2. apply bind_cut_eq. apply cut_err_cut_eq. apply try_map_cut_eq. apply bind_cut_eq.
      unfold separated0. rewrite Hkv. reflexivity. }
    rewrite Ht. eexists; reflexivity.
Qed.

(* ---- from the value to the document ------------------------------------------------------ *)
Section DocLimit.
  Variable vt : bytes.          (* the text of the value *)
  Variable b0 : byte.
  Variable r0 : bytes.
  Hypothesis Hvt : vt = b0 :: r0.
  Hypothesis Hb0 : in_class WSCHAR b0 = false.
  Hypothesis Hval : forall i, depth i = 0 -> rest i = vt ->
                      exists i', value_ i = Cut (err_of RecursionLimit) i'.

  Lemma parse_keyval_limit p :
    exists i', parse_keyval (mkIn (x61 :: x3d :: vt) p 0) = Cut (err_of RecursionLimit) i'.
  Proof.
    destruct (key_a vt p 0) as (kp & i2 & Hk & Hr2 & Hd2 & k & Hpop).
    unfold parse_keyval. rewrite (bind_ok_eq _ _ _ _ _ Hk).
    set (i3 := advance 1 i2).
    assert (Hr3 : rest i3 = b0 :: r0) by (unfold i3; cbn [advance rest]; rewrite Hr2, Hvt; reflexivity).
    set (i4 := advance 0 i3).
    destruct (Hval i4) as [i' Hv]; [exact Hd2|rewrite Hvt; exact Hr3|].
    exists i'. apply bind_cut_eq. apply cut_err_cut_eq.
    assert (Hsep : context (byte_ KEYVAL_SEP) i2 = Ok x3d i3).
    { unfold context. rewrite (byte_ok KEYVAL_SEP i2 _ Hr2). reflexivity. }
    rewrite (bind_ok_eq _ _ _ _ _ Hsep).
    assert (Hws : span_ ws i3 = Ok (pos i3, (pos i3 + 0)%N) i4).
    { unfold span_. rewrite (ws_stop i3 _ _ Hr3 Hb0). reflexivity. }
    rewrite (bind_ok_eq _ _ _ _ _ Hws). apply bind_cut_eq. exact Hv.
  Qed.

  Lemma doc_line_limit st p :
    exists i', doc_line st (mkIn (x61 :: x3d :: vt) p 0) = Cut (err_of RecursionLimit) i'.
  Proof.
    destruct (parse_keyval_limit p) as [i' H]. exists i'.
    unfold doc_line.
    set (i := mkIn (x61 :: x3d :: vt) p 0) in *.
    rewrite (bind_ok_eq (peek any) _ i x61 i eq_refl).
    apply bind_cut_eq.
    change (byte_eqb "a" COMMENT_START_SYMBOL) with false.
    change (byte_eqb "a" STD_TABLE_OPEN) with false.
    change (byte_eqb "a" LF || byte_eqb "a" CR) with false. cbv iota.
    apply cut_err_cut_eq. unfold keyval. apply try_map_cut_eq. exact H.
  Qed.

  Lemma document_limit :
    exists i', document (new_input ([x61; x3d] ++ vt)) = Cut (err_of RecursionLimit) i'.
  Proof.
    unfold document, new_input. cbn [app].
    set (i0 := mkIn (x61 :: x3d :: vt) 0%N 0).
    rewrite (bind_ok_eq (opt (lit bom)) _ i0 None i0 eq_refl).
    assert (Hws : parse_ws state_new i0 = Ok (on_ws state_new (pos i0, (pos i0 + 0)%N)) (advance 0 i0)).
    { unfold parse_ws, pmap, span_. rewrite (ws_stop i0 x61 _ eq_refl eq_refl). reflexivity. }
    rewrite (bind_ok_eq _ _ _ _ _ Hws).
    destruct (doc_line_limit (on_ws state_new (pos i0, (pos i0 + 0)%N)) (pos i0 + N.of_nat 0)%N) as [i' H].
    exists i'. apply bind_cut_eq. cbn [doc_loop].
    change (advance 0 i0) with (mkIn (x61 :: x3d :: vt) (pos i0 + N.of_nat 0)%N 0).
    rewrite H. reflexivity.
  Qed.

  Lemma doc_value_limit :
    exists at_, parse_document ([x61; x3d] ++ vt) = PErr (err_of RecursionLimit) (Some at_).
  Proof.
    destruct document_limit as [i' H].
    exists (pos i'). unfold parse_document, parse_all.
    rewrite (bind_cut_eq _ _ _ _ _ H). reflexivity.
  Qed.
End DocLimit.

Lemma value_inlines_limit i m tl : depth i = 0 -> LIMIT <= m -> rest i = braces m ++ tl ->
  exists i', value_ i = Cut (err_of RecursionLimit) i'.
Proof.
  intros Hd Hm Hr. unfold value_. pose proof LIMIT_ge2 as HL.
  apply (inlines_limit (LIMIT - 1) _ i m tl); [lia|lia| |exact Hr].
  rewrite Hr, app_length. unfold braces.
  assert (Hlen : forall k, k <= length (concat (repeat [x7b; x6b; x3d] k))).
  { induction k as [|k IHk]; [lia|]. cbn [repeat concat app length]. lia. }
  specialize (Hlen m). lia.
Qed.

(* `a=[[[[...` : at least LIMIT opening brackets, anything after them *)
Lemma doc_arrays_limit m tl : LIMIT <= m ->
  exists at_, parse_document ([x61; x3d] ++ repeat x5b m ++ tl) = PErr (err_of RecursionLimit) (Some at_).
Proof.
  intro Hm. destruct m as [|m]; [pose proof LIMIT_ge2; lia|].
  apply (doc_value_limit _ x5b (repeat x5b m ++ tl) eq_refl eq_refl).
  intros i Hd Hr. exact (value_arrays_limit i (S m) tl Hd Hm Hr).
Qed.

(* `a={k={k={k=...` : at least LIMIT times `{k=`, anything after them *)
Lemma doc_inlines_limit m tl : LIMIT <= m ->
  exists at_, parse_document ([x61; x3d] ++ braces m ++ tl) = PErr (err_of RecursionLimit) (Some at_).
Proof.
  intro Hm. destruct m as [|m]; [pose proof LIMIT_ge2; lia|].
  apply (doc_value_limit _ x7b ([x6b; x3d] ++ braces m ++ tl) eq_refl eq_refl).
  intros i Hd Hr. exact (value_inlines_limit i (S m) tl Hd Hm Hr).
Qed.
