(* Proofs/EditWF.v — property C08: no operation leaves an `Item::None` placeholder in the document.
   `no_none (abs t)` holds of every parsed document (decidable; checked in Props/C08.v on an example)
   and is kept by every applicable operation — so the side condition `snd e <> INone` of C08_verbatim
   and the `PNone` constructor of the plain tree never matter on documents reached from a parsed one. *)
From TV Require Import Base.Prelude Spec.Ordered Model.Datetime Model.Numbers Model.Tree.
From TV Require Import Spec.EditSpec Model.Edit Proofs.ContainersOrder Proofs.EditRefineBase Proofs.EditRefine.

Definition nn (x : plain) : Prop := no_none x = true.
Definition nnkv (kv : bytes * plain) : bool := match kv with (_, c) => no_none c end.
Definition nnl (l : entries) : Prop := forallb nnkv l = true.

Lemma plain_ind2 (P : plain -> Prop) :
  P PNone -> (forall s, P (PScalar s)) ->
  (forall a l, Forall P l -> P (PArr a l)) ->
  (forall il d l, Forall (fun kv => P (snd kv)) l -> P (PTab il d l)) ->
  forall x, P x.
Proof.
  intros Hn Hs Ha Ht.
  exact (fix rec (x : plain) : P x :=
           match x with
           | PNone => Hn
           | PScalar s => Hs s
           | PArr a l => Ha a l ((fix go (l : list plain) : Forall P l :=
                                    match l with
                                    | [] => Forall_nil _
                                    | y :: tl => Forall_cons y (rec y) (go tl)
                                    end) l)
           | PTab il d l => Ht il d l ((fix go (l : entries) : Forall (fun kv => P (snd kv)) l :=
                                          match l with
                                          | [] => Forall_nil _
                                          | kv :: tl =>
                                            Forall_cons kv (match kv as kv0 return P (snd kv0) with (k, c) => rec c end) (go tl)
                                          end) l)
           end).
Qed.

Lemma nn_tab il d l : nn (PTab il d l) <-> nnl l.
Proof. reflexivity. Qed.
Lemma nn_arr a l : nn (PArr a l) <-> forallb no_none l = true.
Proof. reflexivity. Qed.

Lemma nnl_app l1 l2 : nnl (l1 ++ l2) <-> nnl l1 /\ nnl l2.
Proof. unfold nnl. rewrite forallb_app, andb_true_iff. reflexivity. Qed.

Lemma nnl_r_upd k g l : (forall x, nn x -> nn (g x)) -> nnl l -> nnl (r_upd k g l).
Proof.
  intro Hg. unfold nnl. induction l as [|[k' v] l IH]; simpl; [auto|].
  intro H. apply andb_true_iff in H as [H1 H2].
  destruct (bytes_eqb k' k); simpl; apply andb_true_iff; split; auto. apply Hg. exact H1.
Qed.
Lemma nnl_r_del k l : nnl l -> nnl (r_del k l).
Proof.
  unfold nnl. induction l as [|[k' v] l IH]; simpl; [auto|].
  intro H. apply andb_true_iff in H as [H1 H2].
  destruct (bytes_eqb k' k); simpl; [exact H2|]. apply andb_true_iff; split; auto.
Qed.
Lemma nnl_forget k l : nnl l -> nnl (r_forget k l).
Proof. intro H. unfold r_forget. destruct (r_get k l) as [[| | |]|]; auto. apply nnl_r_del. exact H. Qed.
Lemma nnl_put k x l : nn x -> nnl l -> nnl (e_put k x l).
Proof.
  intros Hx Hl. rewrite e_put_rec. pose proof (nnl_forget k l Hl) as Hf. destruct (r_get k (r_forget k l)).
  - apply nnl_r_upd; auto.
  - apply nnl_app. split; [exact Hf|]. unfold nnl. simpl. rewrite Hx. reflexivity.
Qed.
Lemma nnl_get k l c : nnl l -> r_get k l = Some c -> nn c.
Proof.
  unfold nnl. induction l as [|[k' v] l IH]; simpl; [discriminate|].
  intros H G. apply andb_true_iff in H as [H1 H2].
  destruct (bytes_eqb k' k); [injection G as <-; exact H1|auto].
Qed.
Lemma nnl_sort l : nnl l -> nnl (e_sort l).
Proof.
  unfold nnl. rewrite !forallb_forall. intros H x Hx. apply H.
  eapply Permutation.Permutation_in; [apply (stable_sort_perm (fun a b : bytes * plain => key_leb (fst a) (fst b)) l)|exact Hx].
Qed.
Lemma nnl_of_list l : nnl l -> nnl (e_of_list l).
Proof.
  unfold e_of_list. assert (G : forall acc, nnl acc -> nnl l -> nnl (fold_left (fun a kv => e_put (fst kv) (snd kv) a) l acc)).
  { induction l as [|[k c] l IH]; intros acc Ha Hl; simpl; [exact Ha|].
    unfold nnl in Hl. simpl in Hl. apply andb_true_iff in Hl as [H1 H2].
    apply IH; [apply nnl_put; assumption|exact H2]. }
  apply G. reflexivity.
Qed.

Lemma nn_rv_upd n g (l : list plain) :
  (forall x, nn x -> nn (g x)) -> forallb no_none l = true -> forallb no_none (rv_upd n g l) = true.
Proof.
  intro Hg. revert n. induction l as [|x l IH]; intros [|n] H; simpl in *; auto;
    apply andb_true_iff in H as [H1 H2]; apply andb_true_iff; split; auto. apply Hg. exact H1.
Qed.
Lemma nn_rv_del n (l : list plain) : forallb no_none l = true -> forallb no_none (rv_del n l) = true.
Proof.
  revert n. induction l as [|x l IH]; intros [|n] H; simpl in *; auto;
    apply andb_true_iff in H as [H1 H2]; [exact H2|]. apply andb_true_iff; split; auto.
Qed.
Lemma nn_v_ins n x (l : list plain) : nn x -> forallb no_none l = true -> forallb no_none (v_ins n x l) = true.
Proof.
  intros Hx Hl. unfold v_ins. rewrite forallb_app. simpl. rewrite Hx.
  rewrite <- (firstn_skipn n l), forallb_app in Hl. apply andb_true_iff in Hl as [H1 H2].
  rewrite H1, H2. reflexivity.
Qed.

Lemma nn_pv v : nn (pv_plain v).
Proof.
  induction v as [z|s|b|l IH|l IH] using pv_ind2; try reflexivity.
  - simpl. apply nn_arr. rewrite forallb_forall. intros x Hx. apply in_map_iff in Hx as (y & <- & Hy).
    rewrite Forall_forall in IH. apply IH. exact Hy.
  - simpl. apply nn_tab. apply nnl_of_list. unfold nnl. rewrite forallb_forall.
    intros x Hx. apply in_map_iff in Hx as ([k y] & <- & Hy).
    rewrite Forall_forall in IH. apply (IH (k, y) Hy).
Qed.

Lemma nn_make_value x : nn x -> nn (spec_make_value x).
Proof.
  induction x as [|s|a l IH|il d l IH] using plain_ind2; intro H; try exact H.
  - destruct a; [|exact H]. simpl. apply nn_arr. apply nn_arr in H.
    rewrite forallb_forall in *. intros y Hy. apply in_map_iff in Hy as (z & <- & Hz).
    rewrite Forall_forall in IH. apply IH; [exact Hz|]. apply H. exact Hz.
  - destruct il; [exact H|]. simpl. apply nn_tab. apply nn_tab in H. unfold nnl in *.
    rewrite forallb_forall in *. intros y Hy. apply in_map_iff in Hy as ([k z] & <- & Hz).
    rewrite Forall_forall in IH. apply (IH (k, z) Hz). apply (H (k, z) Hz).
Qed.
Lemma nn_into_table x : nn x -> nn (spec_into_table x).
Proof. destruct x as [| | |[|] d l]; auto. Qed.
Lemma nn_into_aot x : nn x -> nn (spec_into_aot x).
Proof.
  destruct x as [| |[|] l|]; auto. intro H. simpl. destruct l as [|y l]; [exact H|].
  destruct (forallb is_inline_tab (y :: l)); [|exact H].
  apply nn_arr. apply nn_arr in H. rewrite forallb_forall in *. intros z Hz.
  apply in_map_iff in Hz as (w & <- & Hw). apply nn_into_table. apply H. exact Hw.
Qed.

Lemma nn_sort x : nn x -> nn (spec_sort x).
Proof.
  induction x as [|s|a l IH|il d l IH] using plain_ind2; intro H; try exact H.
  rewrite spec_sort_tab. apply nn_tab. apply nn_tab in H. apply nnl_sort. unfold nnl in *.
  rewrite forallb_forall in *. intros y Hy. apply in_map_iff in Hy as ([k z] & <- & Hz).
  rewrite Forall_forall in IH. specialize (IH (k, z) Hz). specialize (H (k, z) Hz). simpl in *.
  destruct z as [| | |il' [|] l']; try exact H.
  destruct (Bool.eqb il il'); [apply IH; exact H|exact H].
Qed.

Lemma nn_sort_by cm x : nn x -> nn (spec_sort_by cm x).
Proof.
  induction x as [|s|a l IH|il d l IH] using plain_ind2; intro H; try exact H.
  rewrite spec_sort_by_tab. apply nn_tab. apply nn_tab in H. unfold nnl in *.
  rewrite forallb_forall in *. intros y0 Hy0.
  apply (Permutation.Permutation_in _ (stable_sort_perm (scmp_le cm il) _)) in Hy0.
  apply in_map_iff in Hy0 as ([k z] & <- & Hz).
  rewrite Forall_forall in IH. specialize (IH (k, z) Hz). specialize (H (k, z) Hz). simpl in *.
  destruct z as [| | |il' [|] l']; try exact H.
  destruct (Bool.eqb il il'); [apply IH; exact H|exact H].
Qed.

Lemma nn_spec_at p g : (forall x, nn x -> nn (g x)) -> forall t, nn t -> nn (spec_at p g t).
Proof.
  intro Hg. induction p as [|s p IH]; intros t H; [apply Hg; exact H|].
  destruct s as [k|n]; simpl.
  - destruct t as [| | |il d l]; try exact H. apply nn_tab. rewrite e_upd_rec. apply nnl_r_upd; auto.
  - destruct t as [| |a l|]; try exact H. apply nn_arr. rewrite v_upd_rec. apply nn_rv_upd; auto.
Qed.

Lemma nn_on_tab g : (forall l, nnl l -> nnl (g l)) -> forall x, nn x -> nn (on_tab g x).
Proof. intros Hg [| | |il d l] H; try exact H. apply nn_tab. apply Hg. exact H. Qed.
Lemma nn_on_std_tab g : (forall l, nnl l -> nnl (g l)) -> forall x, nn x -> nn (on_std_tab g x).
Proof. intros Hg [| | |[|] d l] H; try exact H. apply nn_tab. apply Hg. exact H. Qed.
Lemma nn_on_arr a g : (forall l, forallb no_none l = true -> forallb no_none (g l) = true) ->
  forall x, nn x -> nn (on_arr a g x).
Proof. intros Hg [| |b l|] H; try exact H. simpl. destruct (Bool.eqb b a); [|exact H]. apply nn_arr. apply Hg. exact H. Qed.

Lemma nn_iset ks x : nn x -> forall t, nn t \/ t = PNone -> nn (spec_iset ks x t).
Proof.
  intro Hx. induction ks as [|k ks IH]; intros t Ht; [exact Hx|].
  simpl. destruct t as [|s|a l|il d l].
  - unfold nn. simpl. rewrite andb_true_r. apply IH. right. reflexivity.
  - destruct Ht as [H|H]; [exact H|discriminate].
  - destruct Ht as [H|H]; [exact H|discriminate].
  - destruct Ht as [H|H]; [|discriminate]. apply nn_tab. apply nnl_put; [|exact H].
    apply IH. rewrite e_get_rec, e_forget_rec.
    destruct (r_get k (r_forget k l)) as [c|] eqn:G; [left|right; reflexivity].
    eapply nnl_get; [apply nnl_forget; exact H|exact G].
Qed.

Theorem spec_apply_no_none o x : nn x -> nn (spec_apply o x).
Proof.
  intro H. destruct o as [q k v|q k|q k|q k|q v|q i v|q i v|q i|q|q i|q|q|q k|q k|q k|ks y|q cm]; simpl.
  - apply nn_spec_at; [|exact H]. apply nn_on_tab. intros l Hl. apply nnl_put; [apply nn_pv|exact Hl].
  - apply nn_spec_at; [|exact H]. apply nn_on_std_tab. intros l Hl. apply nnl_put; [reflexivity|exact Hl].
  - apply nn_spec_at; [|exact H]. apply nn_on_std_tab. intros l Hl. apply nnl_put; [reflexivity|exact Hl].
  - apply nn_spec_at; [|exact H]. apply nn_on_tab. intros l Hl. rewrite e_del_rec. apply nnl_r_del. exact Hl.
  - apply nn_spec_at; [|exact H]. apply nn_on_arr. intros l Hl. rewrite forallb_app, Hl. simpl. rewrite (nn_pv v). reflexivity.
  - apply nn_spec_at; [|exact H]. apply nn_on_arr. intros l Hl. apply nn_v_ins; [apply nn_pv|exact Hl].
  - apply nn_spec_at; [|exact H]. apply nn_on_arr. intros l Hl. rewrite v_upd_rec. apply nn_rv_upd; [|exact Hl]. intros; apply nn_pv.
  - apply nn_spec_at; [|exact H]. apply nn_on_arr. intros l Hl. rewrite v_del_rec. apply nn_rv_del. exact Hl.
  - apply nn_spec_at; [|exact H]. apply nn_on_arr. intros l Hl. rewrite forallb_app, Hl. reflexivity.
  - apply nn_spec_at; [|exact H]. apply nn_on_arr. intros l Hl. rewrite v_del_rec. apply nn_rv_del. exact Hl.
  - apply nn_spec_at; [|exact H]. apply nn_sort.
  - exact H.
  - apply nn_spec_at; [|exact H]. apply nn_on_std_tab. intros l Hl. rewrite e_upd_rec. apply nnl_r_upd; [apply nn_make_value|exact Hl].
  - apply nn_spec_at; [|exact H]. apply nn_on_std_tab. intros l Hl. rewrite e_upd_rec. apply nnl_r_upd; [apply nn_into_table|exact Hl].
  - apply nn_spec_at; [|exact H]. apply nn_on_std_tab. intros l Hl. rewrite e_upd_rec. apply nnl_r_upd; [apply nn_into_aot|exact Hl].
  - apply nn_iset; [|left; exact H]. destruct y; [apply nn_pv|reflexivity].
  - apply nn_spec_at; [|exact H]. apply nn_sort_by.
Qed.

Theorem step_no_none : forall t o t', apply o t = Some t' -> no_none (abs t) = true -> no_none (abs t') = true.
Proof. intros t o t' H Hn. rewrite (step_content _ _ _ H). apply spec_apply_no_none. exact Hn. Qed.

Theorem history_no_none : forall ops t, no_none (abs t) = true -> no_none (abs (apply_all ops t)) = true.
Proof.
  induction ops as [|o ops IH]; intros t H; [exact H|].
  unfold apply_all in *. simpl. apply IH. unfold apply_skip.
  destruct (apply o t) as [t'|] eqn:E; [eapply step_no_none; eauto|exact H].
Qed.
