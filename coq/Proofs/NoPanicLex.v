(* Proofs/NoPanicLex.v — C04, part 2: the lexical parsers (trivia, strings, date-times, numbers,
   keys) are mono, make progress where a loop needs it, and are safe on EVERY input (no
   hypothesis, not even UTF-8 validity).  Discharges the panic sites
     P_out_of_fuel / P_repeat_no_progress   in every lexical loop,
     P_unchecked_utf8 1 2 3 10-17 20 30     (the bytes handed to from_utf8_unchecked are ASCII; the
                                             byte classes are identified with the ABNF ones through
                                             Proofs/ConstsOk.v, so widening a class in the source
                                             breaks these proofs),
     P_expect_digits, P_unreachable_sign, P_other 1, P_key_path_empty (key.rs). *)
From TV Require Import Base.Prelude Base.Utf8 Base.Winnow Gen.Consts Spec.Abnf.
From TV Require Import Model.Trivia Model.Strings Model.Datetime Model.Numbers Model.Tree Model.Parse.
From TV Require Import Proofs.ConstsOk Proofs.NoPanicBase.
Require Import Lia ZifyBool ZifyN ZifyNat.

(* ---- parsers that never succeed ------------------------------------------------------------------ *)
Lemma monoC_const_cut C {A} e j : monoC C (fun _ : input => @Cut A e j).
Proof. intros i a i' H. discriminate. Qed.
Lemma progress_const_cut {A} e j : progress (fun _ : input => @Cut A e j).
Proof. intros i a i' H. discriminate. Qed.
Lemma safe_const_cut P {A} e j : safe_on P (fun _ : input => @Cut A e j).
Proof. intros i _. exact I. Qed.
Lemma valP_const_cut {A} (V : A -> Prop) e j : valP V (fun _ : input => @Cut A e j).
Proof. intros i a i' H. discriminate. Qed.
Lemma monoC_const_panic C {A} s : monoC C (fun _ : input => @Panic A s).
Proof. intros i a i' H. discriminate. Qed.
Lemma progress_const_panic {A} s : progress (fun _ : input => @Panic A s).
Proof. intros i a i' H. discriminate. Qed.
Lemma valP_const_panic {A} (V : A -> Prop) s : valP V (fun _ : input => @Panic A s).
Proof. intros i a i' H. discriminate. Qed.
#[export] Hint Resolve monoC_const_cut progress_const_cut safe_const_cut monoC_const_panic progress_const_panic : np.

(* ---- the byte classes handed to from_utf8_unchecked are ASCII -------------------------------------- *)
Lemma WSCHAR_ascii b : in_class WSCHAR b = true -> ascii b = true.
Proof. rewrite WSCHAR_ok. unfold wschar, rng, ascii. lia. Qed.
Lemma HEXDIG_ascii b : in_class HEXDIG b = true -> ascii b = true.
Proof. rewrite HEXDIG_ok. unfold Abnf.hexdig, rng, ascii. lia. Qed.
Lemma DIGIT_ascii b : in_class DIGIT b = true -> ascii b = true.
Proof. rewrite DIGIT_ok. unfold Abnf.digit, rng, ascii. lia. Qed.
Lemma DT_DIGIT_ascii b : in_class DT_DIGIT b = true -> ascii b = true.
Proof. rewrite DT_DIGIT_ok. unfold Abnf.digit, rng, ascii. lia. Qed.
Lemma DIGIT1_9_ascii b : in_class DIGIT1_9 b = true -> ascii b = true.
Proof. rewrite DIGIT1_9_ok. unfold Abnf.digit1_9, rng, ascii. lia. Qed.
Lemma DIGIT0_7_ascii b : in_class DIGIT0_7 b = true -> ascii b = true.
Proof. rewrite DIGIT0_7_ok. unfold Abnf.digit0_7, rng, ascii. lia. Qed.
Lemma DIGIT0_1_ascii b : in_class DIGIT0_1 b = true -> ascii b = true.
Proof. rewrite DIGIT0_1_ok. unfold Abnf.digit0_1, rng, ascii. lia. Qed.
Lemma UNQUOTED_CHAR_ascii b : in_class UNQUOTED_CHAR b = true -> ascii b = true.
Proof. rewrite UNQUOTED_CHAR_ok. unfold unquoted_key_char, rng, ascii. lia. Qed.
Lemma DT_DIGIT_is_digit b : in_class DT_DIGIT b = is_digit b.
Proof. rewrite DT_DIGIT_ok. reflexivity. Qed.

Lemma byte_eqb_sym_true a b : byte_eqb a b = true -> a = b.
Proof. apply byte_eqb_eq. Qed.

Definition is_sign (b : byte) : bool := byte_eqb b plus || byte_eqb b dash.
Lemma sign_ascii b : is_sign b = true -> ascii b = true.
Proof.
  unfold is_sign. intro H. apply orb_true_iff in H as [H|H]; apply byte_eqb_eq in H; subst; reflexivity.
Qed.
Lemma e_ascii b : byte_eqb b x65 || byte_eqb b x45 = true -> ascii b = true.
Proof. intro H. apply orb_true_iff in H as [H|H]; apply byte_eqb_eq in H; subst; reflexivity. Qed.

Lemma forallb_imp {A} (f g : A -> bool) l : (forall x, f x = true -> g x = true) -> forallb f l = true -> forallb g l = true.
Proof. intros H. rewrite !forallb_forall. auto. Qed.

(* class-aware primitives (C = ascii) *)
#[export] Hint Resolve monoC_one_of monoC_byte_ monoC_lit monoC_take_while
  WSCHAR_ascii HEXDIG_ascii DIGIT_ascii DT_DIGIT_ascii DIGIT1_9_ascii DIGIT0_7_ascii DIGIT0_1_ascii
  UNQUOTED_CHAR_ascii sign_ascii e_ascii : np.
#[export] Hint Extern 1 (ascii _ = true) => reflexivity : np.
#[export] Hint Extern 1 (anyb _ = true) => reflexivity : np.
#[export] Hint Extern 1 (forallb _ _ = true) => reflexivity : np.

(* ============================== trivia.rs ============================================================ *)
Lemma ws_mono : mono ws. Proof. unfold ws. np. Qed.
Lemma ws_safe : safe ws.
Proof.
  unfold ws. apply safe_unchecked; [np|].
  eapply valP_weaken; [|apply valP_take_while]. intros a (H & _). eapply forallb_imp; [|exact H]. np.
Qed.
Lemma comment_mono : mono comment. Proof. unfold comment. np. Qed.
Lemma comment_safe : safe comment. Proof. unfold comment. np. Qed.
Lemma comment_progress : progress comment. Proof. unfold comment. np. Qed.
Lemma newline_mono : mono newline. Proof. unfold newline. np. Qed.
Lemma newline_safe : safe newline. Proof. unfold newline. np. Qed.
Lemma newline_progress : progress newline. Proof. unfold newline. np. Qed.
#[export] Hint Resolve ws_mono ws_safe comment_mono comment_safe comment_progress
  newline_mono newline_safe newline_progress : np.

Lemma ws_newline_mono : mono ws_newline. Proof. unfold ws_newline. np. Qed.
Lemma ws_newline_safe : safe ws_newline. Proof. unfold ws_newline. np. Qed.
#[export] Hint Resolve ws_newline_mono ws_newline_safe : np.
Lemma ws_newlines_mono : mono ws_newlines. Proof. unfold ws_newlines. np. Qed.
Lemma ws_newlines_safe : safe ws_newlines. Proof. unfold ws_newlines. np. Qed.
Lemma ws_newlines_progress : progress ws_newlines. Proof. unfold ws_newlines. np. Qed.
#[export] Hint Resolve ws_newlines_mono ws_newlines_safe ws_newlines_progress : np.

(* the hand-written loop of ws_comment_newline *)
Definition wscn_step1 : parser unit := comment ;;; context newline.
Lemma wscn_step1_mono : mono wscn_step1. Proof. unfold wscn_step1. np. Qed.
Lemma wscn_step1_safe : safe wscn_step1. Proof. unfold wscn_step1. np. Qed.
Lemma wscn_step1_progress : progress wscn_step1. Proof. unfold wscn_step1. np. Qed.

Lemma wscn_f_mono : forall fuel start i a i', ws_comment_newline_f fuel start i = Ok a i' -> ext anyb i i'.
Proof.
  induction fuel as [|f IH]; intros start i a i' H; [discriminate|]. cbn [ws_comment_newline_f] in H.
  destruct (ws i) as [w i1|? ?|? ?|?] eqn:E; try discriminate. apply ws_mono in E.
  assert (St : forall p : parser unit, mono p ->
            match p i1 with
            | Ok _ i2 => if (pos i2 =? start)%N then Ok tt i2 else ws_comment_newline_f f (pos i2) i2
            | Bt e i' => Bt e i' | Cut e i' => Cut e i' | Panic s => Panic s
            end = Ok a i' -> ext anyb i i').
  { intros p Hp H1. destruct (p i1) as [u i2|? ?|? ?|?] eqn:E1; try discriminate. apply Hp in E1.
    eapply ext_trans; [exact E|]. eapply ext_trans; [exact E1|].
    destruct (pos i2 =? start)%N; [inversion H1; subst; apply ext_refl | eapply IH, H1]. }
  destruct (rest i1) as [|b r] eqn:R.
  - inversion H; subst. exact E.
  - destruct (byte_eqb b x23); [apply (St _ wscn_step1_mono H)|].
    destruct (byte_eqb b x0a); [apply (St _ newline_mono H)|].
    destruct (byte_eqb b x0d); [apply (St _ newline_mono H)|].
    inversion H; subst. exact E.
Qed.

(* termination of the loop: every iteration that continues has consumed the `#`, LF or CR *)
Lemma wscn_f_safe : forall fuel start i, length (rest i) < fuel -> nopanic (ws_comment_newline_f fuel start i).
Proof.
  induction fuel as [|f IH]; intros start i L; [lia|]. cbn [ws_comment_newline_f].
  pose proof (ws_safe i I) as S0. destruct (ws i) as [w i1|? ?|? ?|?] eqn:E; auto.
  apply ws_mono, ext_len in E.
  assert (St : forall p : parser unit, safe p -> progress p ->
            nopanic match p i1 with
            | Ok _ i2 => if (pos i2 =? start)%N then Ok tt i2 else ws_comment_newline_f f (pos i2) i2
            | Bt e i' => Bt e i' | Cut e i' => Cut e i' | Panic s => Panic s
            end).
  { intros p Hs Hg. pose proof (Hs i1 I) as S1. destruct (p i1) as [u i2|? ?|? ?|?] eqn:E1; auto.
    apply Hg in E1. destruct (pos i2 =? start)%N; [exact I|]. apply IH. lia. }
  destruct (rest i1) as [|b r] eqn:R; [exact I|].
  destruct (byte_eqb b x23); [apply (St _ wscn_step1_safe wscn_step1_progress)|].
  destruct (byte_eqb b x0a); [apply (St _ newline_safe newline_progress)|].
  destruct (byte_eqb b x0d); [apply (St _ newline_safe newline_progress)|]. exact I.
Qed.

Lemma ws_comment_newline_mono : mono ws_comment_newline.
Proof. intros i a i' H. eapply wscn_f_mono, H. Qed.
Lemma ws_comment_newline_safe : safe ws_comment_newline.
Proof. intros i _. unfold ws_comment_newline. apply wscn_f_safe. lia. Qed.
#[export] Hint Resolve ws_comment_newline_mono ws_comment_newline_safe : np.

Lemma line_ending_mono : mono line_ending. Proof. unfold line_ending. np. Qed.
Lemma line_ending_safe : safe line_ending. Proof. unfold line_ending. np. Qed.
#[export] Hint Resolve line_ending_mono line_ending_safe : np.
Lemma line_trailing_mono : mono line_trailing. Proof. unfold line_trailing. np. Qed.
Lemma line_trailing_safe : safe line_trailing. Proof. unfold line_trailing. np. Qed.
#[export] Hint Resolve line_trailing_mono line_trailing_safe : np.

(* ============================== strings.rs =========================================================== *)
Section FromUtf8.
  Variable C : byte -> bool.
  Variable P : input -> Prop.
  Lemma monoC_from_utf8 p : monoC C p -> monoC C (from_utf8 p).
  Proof. unfold from_utf8. np. Qed.
  Lemma progress_from_utf8 p : progress p -> progress (from_utf8 p).
  Proof. unfold from_utf8. np. Qed.
  Lemma safe_from_utf8 p : safe_on P p -> safe_on P (from_utf8 p).
  Proof.
    intro H. unfold from_utf8. apply safe_try_map_total; [exact H|].
    intros a s. destruct (utf8_valid_b a); discriminate.
  Qed.
End FromUtf8.
#[export] Hint Resolve monoC_from_utf8 progress_from_utf8 safe_from_utf8 : np.

Lemma hexescape_mono n : mono (hexescape n). Proof. unfold hexescape. np. Qed.
Lemma hexescape_safe n : safe (hexescape n).
Proof.
  unfold hexescape. apply safe_try_map_total; [|intros a s; destruct (is_scalar a); discriminate].
  apply safe_verify_map. apply safe_unchecked; [np|].
  eapply valP_weaken; [|apply valP_verify, valP_take_while]. intros a ((H & _) & _).
  eapply forallb_imp; [|exact H]. np.
Qed.
#[export] Hint Resolve hexescape_mono hexescape_safe : np.

Lemma escape_seq_char_mono : mono escape_seq_char. Proof. unfold escape_seq_char. np. Qed.
Lemma escape_seq_char_safe : safe escape_seq_char. Proof. unfold escape_seq_char. np. Qed.
#[export] Hint Resolve escape_seq_char_mono escape_seq_char_safe : np.
Lemma escaped_mono : mono escaped. Proof. unfold escaped. np. Qed.
Lemma escaped_safe : safe escaped. Proof. unfold escaped. np. Qed.
Lemma escaped_progress : progress escaped. Proof. unfold escaped. np. Qed.
#[export] Hint Resolve escaped_mono escaped_safe escaped_progress : np.
Lemma basic_chars_mono : mono basic_chars. Proof. unfold basic_chars. np. Qed.
Lemma basic_chars_safe : safe basic_chars. Proof. unfold basic_chars. np. Qed.
Lemma basic_chars_progress : progress basic_chars. Proof. unfold basic_chars. np. Qed.
#[export] Hint Resolve basic_chars_mono basic_chars_safe basic_chars_progress : np.

(* the `while let Some(c) = opt(p)` loops *)
Lemma chunks_f_mono C (p : parser bytes) : monoC C p ->
  forall fuel acc i l i', chunks_f fuel p acc i = Ok l i' -> ext C i i'.
Proof.
  intros Hp. induction fuel as [|f IH]; intros acc i l i' H; cbn [chunks_f] in H; [discriminate|].
  destruct (p i) as [c i1|? ?|? ?|?] eqn:E; try discriminate.
  - destruct (Nat.eqb _ _); [discriminate|]. eapply ext_trans; [eapply Hp, E|eapply IH, H].
  - inversion H; subst. apply ext_refl.
Qed.
Lemma chunks_f_safe P (p : parser bytes) : closed P -> mono p -> progress p -> safe_on P p ->
  forall fuel acc i, P i -> length (rest i) < fuel -> nopanic (chunks_f fuel p acc i).
Proof.
  intros Pc Hm Hg Hs. induction fuel as [|f IH]; intros acc i Hi Hl; [lia|]. cbn [chunks_f].
  specialize (Hs i Hi). destruct (p i) as [c i1|? ?|? ?|?] eqn:E; auto. pose proof (Hg _ _ _ E) as L.
  destruct (Nat.eqb _ _) eqn:Q; [apply Nat.eqb_eq in Q; lia|].
  apply IH; [eapply Pc; eauto; lia | lia].
Qed.
Lemma monoC_chunks C p : monoC C p -> monoC C (chunks p).
Proof. intros Hp i l i' H. eapply (chunks_f_mono C p Hp), H. Qed.
Lemma safe_chunks P p : closed P -> mono p -> progress p -> safe_on P p -> safe_on P (chunks p).
Proof. intros Pc Hm Hg Hs i Hi. unfold chunks. apply (chunks_f_safe P); auto. Qed.
#[export] Hint Resolve monoC_chunks safe_chunks : np.

Lemma basic_string_mono : mono basic_string. Proof. unfold basic_string. np. Qed.
Lemma basic_string_safe : safe basic_string. Proof. unfold basic_string. np. Qed.
Lemma basic_string_progress : progress basic_string. Proof. unfold basic_string. np. Qed.
#[export] Hint Resolve basic_string_mono basic_string_safe basic_string_progress : np.

Lemma mlb_escaped_nl_mono : mono mlb_escaped_nl. Proof. unfold mlb_escaped_nl. np. Qed.
Lemma mlb_escaped_nl_safe : safe mlb_escaped_nl. Proof. unfold mlb_escaped_nl. np. Qed.
Lemma mlb_escaped_nl_progress : progress mlb_escaped_nl. Proof. unfold mlb_escaped_nl. np. Qed.
#[export] Hint Resolve mlb_escaped_nl_mono mlb_escaped_nl_safe mlb_escaped_nl_progress : np.
Lemma mlb_content_mono : mono mlb_content. Proof. unfold mlb_content. np. Qed.
Lemma mlb_content_safe : safe mlb_content. Proof. unfold mlb_content. np. Qed.
Lemma mlb_content_progress : progress mlb_content. Proof. unfold mlb_content. np. Qed.
#[export] Hint Resolve mlb_content_mono mlb_content_safe mlb_content_progress : np.

(* quotes2 is an `alt` of the two-quote and the one-quote reading *)
Lemma quotes2_alt q term :
  quotes2 q term = alt (unchecked_utf8 3 (terminated (lit [q; q]) (peek term)))
                       (unchecked_utf8 3 (terminated (lit [q]) (peek term))).
Proof. reflexivity. Qed.
Lemma quotes2_mono q term : mono (quotes2 q term).
Proof. rewrite quotes2_alt. np. Qed.
Lemma quotes2_progress q term : progress (quotes2 q term).
Proof. rewrite quotes2_alt. apply progress_alt; apply progress_unchecked, progress_terminated; np; apply progress_lit; discriminate. Qed.
Lemma quotes2_safe q term : ascii q = true -> safe term -> safe (quotes2 q term).
Proof.
  intros Hq Ht. rewrite quotes2_alt.
  apply safe_alt; (apply safe_unchecked; [np|]);
    (eapply valP_weaken; [|apply valP_terminated, valP_lit]); intros a ->; cbn [forallb]; rewrite Hq; reflexivity.
Qed.
#[export] Hint Resolve quotes2_mono quotes2_progress quotes2_safe : np.

Lemma opt_some_progress {A} (p : parser A) i a i' :
  progress p -> opt p i = Ok (Some a) i' -> length (rest i') < length (rest i).
Proof.
  intros Hg H. unfold opt in H. destruct (p i) as [x i1|? ?|? ?|?] eqn:E; try discriminate.
  inversion H; subst. eapply Hg, E.
Qed.

Definition mlb_q : parser bytes := quotes2 x22 (pvoid (none_of (byte_eqb x22))).
Lemma mlb_q_mono : mono mlb_q. Proof. unfold mlb_q. np. Qed.
Lemma mlb_q_safe : safe mlb_q. Proof. unfold mlb_q. np. Qed.
Lemma mlb_q_progress : progress mlb_q. Proof. unfold mlb_q. np. Qed.

Lemma mlb_quote_loop_mono : forall fuel acc i l i', mlb_quote_loop fuel acc i = Ok l i' -> ext anyb i i'.
Proof.
  induction fuel as [|f IH]; intros acc i l i' H; [discriminate|]. cbn [mlb_quote_loop] in H. fold mlb_q in H.
  destruct (opt mlb_q i) as [[qi|] i1|? ?|? ?|?] eqn:E1; try discriminate.
  - apply (monoC_opt anyb _ mlb_q_mono) in E1.
    destruct (opt mlb_content i1) as [[ci|] i2|? ?|? ?|?] eqn:E2; try discriminate.
    + apply (monoC_opt anyb _ mlb_content_mono) in E2.
      destruct (chunks mlb_content i2) as [more i3|? ?|? ?|?] eqn:E3; try discriminate.
      apply (monoC_chunks anyb _ mlb_content_mono) in E3. apply IH in H.
      eapply ext_trans; [exact E1|]. eapply ext_trans; [exact E2|]. eapply ext_trans; [exact E3|exact H].
    + apply (monoC_opt anyb _ mlb_content_mono) in E2. inversion H; subst.
      eapply ext_trans; [exact E1|exact E2].
  - apply (monoC_opt anyb _ mlb_q_mono) in E1. inversion H; subst. exact E1.
Qed.

(* termination: every iteration that continues has consumed one or two quotes *)
Lemma mlb_quote_loop_safe : forall fuel acc i, length (rest i) < fuel -> nopanic (mlb_quote_loop fuel acc i).
Proof.
  induction fuel as [|f IH]; intros acc i L; [lia|]. cbn [mlb_quote_loop]. fold mlb_q.
  pose proof (safe_opt anyi _ mlb_q_safe i I) as S1.
  destruct (opt mlb_q i) as [[qi|] i1|? ?|? ?|?] eqn:E1; auto.
  apply (opt_some_progress _ _ _ _ mlb_q_progress) in E1.
  pose proof (safe_opt anyi _ mlb_content_safe i1 I) as S2.
  destruct (opt mlb_content i1) as [[ci|] i2|? ?|? ?|?] eqn:E2; auto.
  apply (monoC_opt anyb _ mlb_content_mono), ext_len in E2.
  assert (S3 : nopanic (chunks mlb_content i2)) by (apply (safe_chunks anyi); np; exact I).
  destruct (chunks mlb_content i2) as [more i3|? ?|? ?|?] eqn:E3; auto.
  apply (monoC_chunks anyb _ mlb_content_mono), ext_len in E3. apply IH. lia.
Qed.

Definition mlb_quote_p (c : bytes) : parser bytes := fun j => mlb_quote_loop (S (length (rest j))) c j.
Lemma mlb_quote_p_mono c : mono (mlb_quote_p c).
Proof. intros i a i' H. eapply mlb_quote_loop_mono, H. Qed.
Lemma mlb_quote_p_safe c : safe (mlb_quote_p c).
Proof. intros i _. apply mlb_quote_loop_safe. lia. Qed.
#[export] Hint Resolve mlb_quote_p_mono mlb_quote_p_safe : np.

Lemma ml_basic_body_eq :
  ml_basic_body = (c <- chunks mlb_content ;;
                   c2 <- mlb_quote_p c ;;
                   q <- opt (quotes2 x22 (pvoid (lit ML_BASIC_STRING_DELIM))) ;;
                   ret (c2 ++ match q with Some qi => qi | None => [] end)).
Proof. reflexivity. Qed.
Lemma ml_basic_body_mono : mono ml_basic_body. Proof. rewrite ml_basic_body_eq. np. Qed.
Lemma ml_basic_body_safe : safe ml_basic_body. Proof. rewrite ml_basic_body_eq. np. Qed.
#[export] Hint Resolve ml_basic_body_mono ml_basic_body_safe : np.

Lemma delim_ne_b : ML_BASIC_STRING_DELIM <> []. Proof. discriminate. Qed.
Lemma delim_ne_l : ML_LITERAL_STRING_DELIM <> []. Proof. discriminate. Qed.
#[export] Hint Resolve progress_lit delim_ne_b delim_ne_l : np.

Lemma ml_basic_string_mono : mono ml_basic_string. Proof. unfold ml_basic_string. np. Qed.
Lemma ml_basic_string_safe : safe ml_basic_string. Proof. unfold ml_basic_string. np. Qed.
Lemma ml_basic_string_progress : progress ml_basic_string. Proof. unfold ml_basic_string. np. Qed.
#[export] Hint Resolve ml_basic_string_mono ml_basic_string_safe ml_basic_string_progress : np.

Lemma literal_string_mono : mono literal_string. Proof. unfold literal_string. np. Qed.
Lemma literal_string_safe : safe literal_string. Proof. unfold literal_string. np. Qed.
Lemma literal_string_progress : progress literal_string. Proof. unfold literal_string. np. Qed.
#[export] Hint Resolve literal_string_mono literal_string_safe literal_string_progress : np.

Lemma mll_content_mono : mono mll_content. Proof. unfold mll_content. np. Qed.
Lemma mll_content_safe : safe mll_content. Proof. unfold mll_content. np. Qed.
Lemma mll_content_progress : progress mll_content. Proof. unfold mll_content. np. Qed.
#[export] Hint Resolve mll_content_mono mll_content_safe mll_content_progress : np.

Lemma ml_literal_body_mono : mono ml_literal_body. Proof. unfold ml_literal_body. np. Qed.
Lemma ml_literal_body_safe : safe ml_literal_body. Proof. unfold ml_literal_body. np. Qed.
#[export] Hint Resolve ml_literal_body_mono ml_literal_body_safe : np.

Lemma ml_literal_string_mono : mono ml_literal_string. Proof. unfold ml_literal_string. np. Qed.
Lemma ml_literal_string_safe : safe ml_literal_string. Proof. unfold ml_literal_string. np. Qed.
Lemma ml_literal_string_progress : progress ml_literal_string. Proof. unfold ml_literal_string. np. Qed.
#[export] Hint Resolve ml_literal_string_mono ml_literal_string_safe ml_literal_string_progress : np.

Lemma string_mono : mono string_. Proof. unfold string_. np. Qed.
Lemma string_safe : safe string_. Proof. unfold string_. np. Qed.
Lemma string_progress : progress string_. Proof. unfold string_. np. Qed.
#[export] Hint Resolve string_mono string_safe string_progress : np.

(* ============================== datetime.rs ========================================================== *)
Lemma unsigned_digits_mono m n : mono (unsigned_digits m n). Proof. unfold unsigned_digits. np. Qed.
Lemma unsigned_digits_val m n :
  valP (fun a => forallb is_digit a = true /\ m <= length a /\ match n with Some n' => length a <= n' | None => True end)
       (unsigned_digits m n).
Proof.
  unfold unsigned_digits. apply valP_unchecked. eapply valP_weaken; [|apply valP_take_while].
  intros a (H & R). split; [|exact R]. eapply forallb_imp; [|exact H]. intros b Hb. rewrite <- DT_DIGIT_is_digit. exact Hb.
Qed.
Lemma is_digit_ascii b : is_digit b = true -> ascii b = true.
Proof. unfold is_digit, ascii. lia. Qed.
Lemma unsigned_digits_safe m n : safe (unsigned_digits m n).
Proof.
  unfold unsigned_digits. apply safe_unchecked; [np|].
  eapply valP_weaken; [|apply valP_take_while]. intros a (H & _). eapply forallb_imp; [|exact H]. np.
Qed.
Lemma unsigned_digits_progress m n : 1 <= m -> progress (unsigned_digits m n).
Proof. intro H. unfold unsigned_digits. apply progress_unchecked, progress_take_while, H. Qed.
#[export] Hint Resolve unsigned_digits_mono unsigned_digits_safe unsigned_digits_progress : np.

Lemma digit_val_le b : is_digit b = true -> (digit_val b <= 9)%N.
Proof. unfold is_digit, digit_val. lia. Qed.

(* "4DIGIT should match u8/u16": the `expect`s in datetime.rs *)
Lemma parse_unsigned_4 s : forallb is_digit s = true -> length s = 4 -> parse_unsigned 16 s <> None.
Proof.
  intros H L. destruct s as [|a [|b [|c [|d [|]]]]]; try discriminate L.
  unfold parse_unsigned. rewrite H. cbn [forallb] in H.
  repeat (apply andb_true_iff in H as [?Hd H]); apply digit_val_le in Hd, Hd0, Hd1, Hd2.
  unfold dec_value; cbn [dec_value_acc]. change (2 ^ 16)%N with 65536%N.
  destruct (_ <? _)%N eqn:Q; [discriminate|]. lia.
Qed.
Lemma parse_unsigned_2 s : forallb is_digit s = true -> length s = 2 -> parse_unsigned 8 s <> None.
Proof.
  intros H L. destruct s as [|a [|b [|]]]; try discriminate L.
  unfold parse_unsigned. rewrite H. cbn [forallb] in H.
  repeat (apply andb_true_iff in H as [?Hd H]); apply digit_val_le in Hd, Hd0.
  unfold dec_value; cbn [dec_value_acc]. change (2 ^ 8)%N with 256%N.
  destruct (_ <? _)%N eqn:Q; [discriminate|]. lia.
Qed.

Lemma date_fullyear_mono : mono date_fullyear. Proof. unfold date_fullyear. np. Qed.
Lemma date_fullyear_progress : progress date_fullyear. Proof. unfold date_fullyear. np. Qed.
Lemma date_fullyear_safe : safe date_fullyear.
Proof.
  unfold date_fullyear. eapply safe_try_map; [np|apply unsigned_digits_val|].
  intros a (H & L1 & L2) s. pose proof (parse_unsigned_4 a H ltac:(lia)) as N.
  destruct (parse_unsigned 16 a); [discriminate|congruence].
Qed.
Lemma two_digit_field_mono lo hi : mono (two_digit_field lo hi). Proof. unfold two_digit_field. np. Qed.
Lemma two_digit_field_progress lo hi : progress (two_digit_field lo hi). Proof. unfold two_digit_field. np. Qed.
Lemma two_digit_field_safe lo hi : safe (two_digit_field lo hi).
Proof.
  unfold two_digit_field. eapply safe_try_map; [np|apply unsigned_digits_val|].
  intros a (H & L1 & L2) s. pose proof (parse_unsigned_2 a H ltac:(lia)) as N.
  destruct (parse_unsigned 8 a); [|congruence]. destruct (_ && _); discriminate.
Qed.
#[export] Hint Resolve date_fullyear_mono date_fullyear_progress date_fullyear_safe
  two_digit_field_mono two_digit_field_progress two_digit_field_safe : np.
#[export] Hint Unfold date_month date_mday time_hour time_minute time_second : np.

Definition full_date_day (y m : N) : parser date :=
  fun day_start =>
    (d <- cut_err date_mday ;;
     if (max_days DT_MAXDAYS m (is_leap_year y) <? d)%N
     then (fun _ => Cut (err_of OutOfRange) day_start)
     else ret (mkDate y m d)) day_start.
Definition full_date_tail (y : N) : parser date :=
  byte_ dash ;;; m <- cut_err date_month ;; cut_err (byte_ dash) ;;; full_date_day y m.
Lemma full_date_eq : full_date = (y <- date_fullyear ;; full_date_tail y).
Proof. reflexivity. Qed.
Lemma full_date_day_mono y m : mono (full_date_day y m).
Proof. unfold full_date_day, date_mday. refine (monoC_diag _ (fun j => _) _). intro j. np. Qed.
Lemma full_date_day_safe y m : safe (full_date_day y m).
Proof. unfold full_date_day, date_mday. refine (safe_diag _ (fun j => _) _). intro j. np. Qed.
#[export] Hint Resolve full_date_day_mono full_date_day_safe : np.
Lemma full_date_tail_mono y : mono (full_date_tail y).
Proof. unfold full_date_tail, date_month. np. Qed.
Lemma full_date_tail_safe y : safe (full_date_tail y).
Proof. unfold full_date_tail, date_month. np. Qed.
#[export] Hint Resolve full_date_tail_mono full_date_tail_safe : np.
Lemma full_date_mono : mono full_date. Proof. rewrite full_date_eq. np. Qed.
Lemma full_date_safe : safe full_date. Proof. rewrite full_date_eq. np. Qed.
Lemma full_date_progress : progress full_date. Proof. rewrite full_date_eq. np. Qed.
#[export] Hint Resolve full_date_mono full_date_safe full_date_progress : np.

Lemma secfrac_value_total repr s : secfrac_value repr <> TmPanic s.
Proof.
  unfold secfrac_value. destruct (parse_unsigned 32 _); [|discriminate].
  destruct (nth_error DT_SCALE _); [|discriminate]. destruct (_ <? _)%N; discriminate.
Qed.
Lemma time_secfrac_mono : mono time_secfrac. Proof. unfold time_secfrac. np. Qed.
Lemma time_secfrac_safe : safe time_secfrac.
Proof. unfold time_secfrac. apply safe_try_map_total; [np|]. intros a s. apply secfrac_value_total. Qed.
#[export] Hint Resolve time_secfrac_mono time_secfrac_safe : np.

Lemma partial_time_mono : mono partial_time. Proof. unfold partial_time, time_hour, time_minute, time_second. np. Qed.
Lemma partial_time_safe : safe partial_time. Proof. unfold partial_time, time_hour, time_minute, time_second. np. Qed.
Lemma partial_time_progress : progress partial_time. Proof. unfold partial_time, time_hour, time_minute, time_second. np. Qed.
#[export] Hint Resolve partial_time_mono partial_time_safe partial_time_progress : np.

(* time_offset: the sign byte came from one_of((b'+', b'-')), so `_ => unreachable!()` is unreachable *)
Lemma time_offset_mono : mono time_offset. Proof. unfold time_offset, time_hour, time_minute. np. Qed.
Lemma time_offset_safe : safe time_offset.
Proof.
  unfold time_offset, time_hour, time_minute. apply safe_context, safe_alt; [np|]. apply safe_pmap, safe_verify.
  eapply safe_bind_val; [np|np|np|apply valP_one_of|]. intros sign Hs. cbv beta in Hs.
  apply safe_bind; [np|np|np|]. intros [h mi].
  destruct (byte_eqb sign plus) eqn:E1; [np|]. destruct (byte_eqb sign dash) eqn:E2; [np|]. discriminate Hs.
Qed.
#[export] Hint Resolve time_offset_mono time_offset_safe : np.

Lemma time_delim_mono : mono time_delim. Proof. unfold time_delim. np. Qed.
Lemma time_delim_safe : safe time_delim. Proof. unfold time_delim. np. Qed.
#[export] Hint Resolve time_delim_mono time_delim_safe : np.

Lemma date_time_mono : mono date_time. Proof. unfold date_time. np. Qed.
Lemma date_time_safe : safe date_time. Proof. unfold date_time. np. Qed.
Lemma date_time_progress : progress date_time. Proof. unfold date_time. np. Qed.
#[export] Hint Resolve date_time_mono date_time_safe date_time_progress : np.

(* ============================== numbers.rs =========================================================== *)
(* TRUE[0] / FALSE[0]: the constants are non-empty *)
Lemma bool_lit_mono l v : mono (bool_lit l v).
Proof. destruct l as [|c l]; unfold bool_lit; np. Qed.
Lemma bool_lit_safe l v : l <> [] -> safe (bool_lit l v).
Proof. intro H. destruct l as [|c l]; [congruence|]. unfold bool_lit. np. Qed.
Lemma true_mono : mono true_. Proof. apply bool_lit_mono. Qed.
Lemma false_mono : mono false_. Proof. apply bool_lit_mono. Qed.
Lemma true_safe : safe true_. Proof. apply bool_lit_safe. discriminate. Qed.
Lemma false_safe : safe false_. Proof. apply bool_lit_safe. discriminate. Qed.
#[export] Hint Resolve true_mono false_mono true_safe false_safe : np.

Lemma digit_monoC : monoC ascii digit. Proof. unfold digit. np. Qed.
Lemma digit_mono : mono digit. Proof. unfold digit. np. Qed.
Lemma digit_safe : safe digit. Proof. unfold digit. np. Qed.
Lemma digit_progress : progress digit. Proof. unfold digit. np. Qed.
Lemma hexdig_monoC : monoC ascii hexdig. Proof. unfold hexdig. np. Qed.
Lemma hexdig_mono : mono hexdig. Proof. unfold hexdig. np. Qed.
Lemma hexdig_safe : safe hexdig. Proof. unfold hexdig. np. Qed.
Lemma hexdig_progress : progress hexdig. Proof. unfold hexdig. np. Qed.
#[export] Hint Resolve digit_monoC digit_mono digit_safe digit_progress
  hexdig_monoC hexdig_mono hexdig_safe hexdig_progress : np.

Section DigitsUs.
  Variable C : byte -> bool.
  Variables first d : parser byte.
  Lemma digits_us_monoC : C underscore = true -> monoC C first -> monoC C d -> monoC C (digits_us first d).
  Proof. intros. unfold digits_us. np. Qed.
  Lemma digits_us_progress : progress first -> mono d -> progress (digits_us first d).
  Proof. intros. unfold digits_us. np. Qed.
  Lemma digits_us_safe : mono first -> mono d -> progress d -> safe first -> safe d -> safe (digits_us first d).
  Proof. intros. unfold digits_us. np. Qed.
End DigitsUs.
Lemma digits_us_mono first d : mono first -> mono d -> mono (digits_us first d).
Proof. apply digits_us_monoC. reflexivity. Qed.
#[export] Hint Resolve digits_us_monoC digits_us_mono digits_us_progress digits_us_safe : np.

(* the text recognised by dec_int is ASCII *)
Definition dec_int_body : parser unit :=
  opt (one_of (fun b => byte_eqb b plus || byte_eqb b dash)) ;;;
  (digits_us (one_of (in_class DIGIT1_9)) digit <|> pvoid digit).
Lemma dec_int_body_monoC : monoC ascii dec_int_body.
Proof. unfold dec_int_body. apply monoC_bind; [apply monoC_opt, monoC_one_of, sign_ascii|]. intros _. np. Qed.
Lemma dec_int_body_safe : safe dec_int_body. Proof. unfold dec_int_body. np. Qed.
Lemma dec_int_eq : dec_int = context (unchecked_utf8 10 (taken dec_int_body)).
Proof. reflexivity. Qed.
Lemma dec_int_monoC : monoC ascii dec_int.
Proof. rewrite dec_int_eq. apply monoC_context, monoC_unchecked, monoC_taken, dec_int_body_monoC. Qed.
Lemma dec_int_mono : mono dec_int. Proof. eapply monoC_mono, dec_int_monoC. Qed.
Lemma dec_int_safe : safe dec_int.
Proof.
  rewrite dec_int_eq. apply safe_context, safe_unchecked; [apply safe_taken, dec_int_body_safe|].
  apply valP_taken, dec_int_body_monoC.
Qed.
#[export] Hint Resolve dec_int_monoC dec_int_mono dec_int_safe : np.

Lemma prefixed_int_mono w prefix d : mono d -> mono (prefixed_int w prefix d).
Proof. intros. unfold prefixed_int. np. Qed.
Lemma prefixed_int_safe w prefix d :
  monoC ascii d -> progress d -> safe d -> safe (prefixed_int w prefix d).
Proof.
  intros Hc Hg Hs. pose proof (monoC_mono _ _ Hc) as Hm. unfold prefixed_int.
  apply safe_context, safe_unchecked; [np|]. apply valP_preceded, valP_taken. np.
Qed.
Lemma hex_int_mono : mono hex_int. Proof. apply prefixed_int_mono. np. Qed.
Lemma oct_int_mono : mono oct_int. Proof. apply prefixed_int_mono. np. Qed.
Lemma bin_int_mono : mono bin_int. Proof. apply prefixed_int_mono. np. Qed.
Lemma hex_int_safe : safe hex_int. Proof. apply prefixed_int_safe; np. Qed.
Lemma oct_int_safe : safe oct_int. Proof. apply prefixed_int_safe; np. Qed.
Lemma bin_int_safe : safe bin_int. Proof. apply prefixed_int_safe; np. Qed.
#[export] Hint Resolve hex_int_mono oct_int_mono bin_int_mono hex_int_safe oct_int_safe bin_int_safe : np.

Lemma int_of_total r s st : int_of r s <> TmPanic st.
Proof. unfold int_of. destruct (i64_from_str_radix r (remove_us s)); discriminate. Qed.

Definition dec_sub (s : bytes) : sub Z :=
  match int_of 10 s with TmOk z => SubOk z | TmErr c => SubCut (err_of c) | TmPanic st => SubPanic st end.
Lemma dec_sub_total s st : dec_sub s <> SubPanic st.
Proof. unfold dec_sub. pose proof (int_of_total 10 s) as H. destruct (int_of 10 s); try discriminate. exfalso. eapply H. reflexivity. Qed.

Lemma integer_cases i :
  integer i = cut_err (try_map (int_of 16) hex_int) i \/ integer i = cut_err (try_map (int_of 8) oct_int) i
  \/ integer i = cut_err (try_map (int_of 2) bin_int) i \/ integer i = and_then dec_int dec_sub i.
Proof.
  unfold integer. destruct (bytes_eqb _ _); [auto|]. destruct (bytes_eqb _ _); [auto|].
  destruct (bytes_eqb _ _); auto.
Qed.
Lemma integer_mono : mono integer.
Proof.
  intros i a i' H. destruct (integer_cases i) as [E|[E|[E|E]]]; rewrite E in H; revert H;
    match goal with |- ?p i = _ -> _ => assert (M : mono p) by np; apply M end.
Qed.
Lemma int_radix_safe r p : safe p -> safe (cut_err (try_map (int_of r) p)).
Proof. intro H. apply safe_cut_err, safe_try_map_total; [exact H|apply int_of_total]. Qed.
Lemma integer_safe : safe integer.
Proof.
  intros i _. destruct (integer_cases i) as [E|[E|[E|E]]]; rewrite E.
  - apply (int_radix_safe 16 _ hex_int_safe i I).
  - apply (int_radix_safe 8 _ oct_int_safe i I).
  - apply (int_radix_safe 2 _ bin_int_safe i I).
  - apply (safe_and_then anyi _ _ dec_int_safe dec_sub_total i I).
Qed.
#[export] Hint Resolve integer_mono integer_safe : np.

Lemma us_ascii : ascii underscore = true. Proof. reflexivity. Qed.
#[export] Hint Resolve us_ascii : np.

Lemma zpi_eq : zero_prefixable_int = unchecked_utf8 14 (taken (digits_us digit digit)). Proof. reflexivity. Qed.
Lemma zpi_monoC : monoC ascii zero_prefixable_int. Proof. rewrite zpi_eq. np. Qed.
Lemma zpi_mono : mono zero_prefixable_int. Proof. eapply monoC_mono, zpi_monoC. Qed.
Lemma zpi_safe : safe zero_prefixable_int.
Proof. rewrite zpi_eq. apply safe_unchecked; [np|]. apply valP_taken. np. Qed.
#[export] Hint Resolve zpi_monoC zpi_mono zpi_safe : np.

Definition frac_body : parser bytes := byte_ dot ;;; context (cut_err zero_prefixable_int).
Lemma frac_body_monoC : monoC ascii frac_body. Proof. unfold frac_body. np. Qed.
Lemma frac_eq : frac = unchecked_utf8 15 (taken frac_body). Proof. reflexivity. Qed.
Lemma frac_monoC : monoC ascii frac. Proof. rewrite frac_eq. apply monoC_unchecked, monoC_taken, frac_body_monoC. Qed.
Lemma frac_mono : mono frac. Proof. eapply monoC_mono, frac_monoC. Qed.
Lemma frac_safe : safe frac.
Proof. rewrite frac_eq. apply safe_unchecked; [unfold frac_body; np|]. apply valP_taken, frac_body_monoC. Qed.
#[export] Hint Resolve frac_monoC frac_mono frac_safe : np.

Definition exp_body : parser bytes :=
  one_of (fun b => byte_eqb b x65 || byte_eqb b x45) ;;;
  opt (one_of (fun b => byte_eqb b plus || byte_eqb b dash)) ;;;
  cut_err zero_prefixable_int.
Lemma exp_body_monoC : monoC ascii exp_body.
Proof.
  unfold exp_body. apply monoC_bind; [apply monoC_one_of, e_ascii|]. intros _.
  apply monoC_bind; [apply monoC_opt, monoC_one_of, sign_ascii|]. intros _. np.
Qed.
Lemma exp_eq : exp = unchecked_utf8 16 (taken exp_body). Proof. reflexivity. Qed.
Lemma exp_monoC : monoC ascii exp. Proof. rewrite exp_eq. apply monoC_unchecked, monoC_taken, exp_body_monoC. Qed.
Lemma exp_mono : mono exp. Proof. eapply monoC_mono, exp_monoC. Qed.
Lemma exp_safe : safe exp.
Proof. rewrite exp_eq. apply safe_unchecked; [unfold exp_body; np|]. apply valP_taken, exp_body_monoC. Qed.
#[export] Hint Resolve exp_monoC exp_mono exp_safe : np.

Definition float_body : parser unit := dec_int ;;; (pvoid exp <|> (frac ;;; pvoid (opt exp))).
Lemma float_body_monoC : monoC ascii float_body. Proof. unfold float_body. np. Qed.
Lemma float_eq_ : float_ = unchecked_utf8 17 (taken float_body). Proof. reflexivity. Qed.
Lemma float__mono : mono float_. Proof. rewrite float_eq_. unfold float_body. np. Qed.
Lemma float__safe : safe float_.
Proof. rewrite float_eq_. apply safe_unchecked; [unfold float_body; np|]. apply valP_taken, float_body_monoC. Qed.
#[export] Hint Resolve float__mono float__safe : np.

Lemma float_of_total s st : float_of s <> SubPanic st.
Proof.
  unfold float_of. destruct (fdec_of_text (remove_us s)); try discriminate.
  destruct (_ && _); [discriminate|]. destruct (overflows m e); discriminate.
Qed.

Lemma inf_mono : mono inf. Proof. unfold inf. np. Qed.
Lemma inf_safe : safe inf. Proof. unfold inf. np. Qed.
Lemma nan_mono : mono nan. Proof. unfold nan. np. Qed.
Lemma nan_safe : safe nan. Proof. unfold nan. np. Qed.
#[export] Hint Resolve inf_mono inf_safe nan_mono nan_safe : np.

(* special_float: the sign byte came from one_of((b'+', b'-')) *)
Lemma special_float_mono : mono special_float. Proof. unfold special_float. np. Qed.
Lemma special_float_safe : safe special_float.
Proof.
  unfold special_float. eapply safe_bind_val; [np|np|np|apply valP_opt, valP_one_of|].
  intros [sign|] Hs; cbv beta in Hs; [|np].
  apply safe_bind; [np|np|np|]. intro f.
  destruct (byte_eqb sign plus) eqn:E1; [np|]. destruct (byte_eqb sign dash) eqn:E2; [np|]. discriminate Hs.
Qed.
#[export] Hint Resolve special_float_mono special_float_safe : np.

Lemma float_mono : mono float. Proof. unfold float. np. Qed.
Lemma float_safe : safe float.
Proof.
  unfold float. apply safe_context, safe_alt; [|np]. apply safe_and_then; [np|]. intros. apply float_of_total.
Qed.
#[export] Hint Resolve float_mono float_safe : np.

(* ============================== key.rs ================================================================ *)
Lemma unquoted_key_mono : mono unquoted_key. Proof. unfold unquoted_key. np. Qed.
Lemma unquoted_key_progress : progress unquoted_key. Proof. unfold unquoted_key. np. Qed.
Lemma unquoted_key_safe : safe unquoted_key.
Proof.
  unfold unquoted_key. apply safe_unchecked; [np|].
  eapply valP_weaken; [|apply valP_take_while]. intros a (H & _). eapply forallb_imp; [|exact H]. np.
Qed.
#[export] Hint Resolve unquoted_key_mono unquoted_key_progress unquoted_key_safe : np.

Lemma simple_key_mono : mono simple_key. Proof. unfold simple_key. np. Qed.
Lemma simple_key_progress : progress simple_key. Proof. unfold simple_key. np. Qed.
Lemma simple_key_safe : safe simple_key. Proof. unfold simple_key. np. Qed.
#[export] Hint Resolve simple_key_mono simple_key_progress simple_key_safe : np.

Lemma key_part_mono : mono key_part. Proof. unfold key_part. np. Qed.
Lemma key_part_progress : progress key_part. Proof. unfold key_part. np. Qed.
Lemma key_part_safe : safe key_part. Proof. unfold key_part. np. Qed.
#[export] Hint Resolve key_part_mono key_part_progress key_part_safe : np.

(* key.rs: `path.first_mut().expect(..)` / `path.last_mut().expect(..)`: separated(1.., ..) is non-empty *)
Lemma fix_key_path_some path : path <> [] -> exists p, fix_key_path path = Some p /\ p <> [].
Proof.
  intro H. destruct path as [|first tl]; [congruence|]. unfold fix_key_path.
  match goal with |- context [rev (?x :: tl)] => destruct (rev (x :: tl)) as [|last rinit] eqn:R end.
  - apply (f_equal (@length key)) in R. rewrite rev_length in R. discriminate.
  - eexists. split; [reflexivity|]. cbn [rev]. intro E. apply app_eq_nil in E as [_ E]. discriminate.
Qed.

Definition key_raw : parser (list key) :=
  try_map (fun k : list key => if check_depth (length k) then TmErr RecursionLimit else TmOk k)
          (context (separated1 key_part (byte_ DOT_SEP))).
Lemma key_raw_mono : mono key_raw. Proof. unfold key_raw. np. Qed.
Lemma key_raw_progress : progress key_raw. Proof. unfold key_raw. np. Qed.
Lemma key_raw_safe : safe key_raw.
Proof. unfold key_raw. apply safe_try_map_total; [np|]. intros a s. destruct (check_depth _); discriminate. Qed.
Lemma key_raw_val : valP (fun l => l <> []) key_raw.
Proof.
  unfold key_raw. eapply valP_try_map; [apply valP_context, valP_separated1_nonempty|].
  intros a b Ha E. destruct (check_depth _); inversion E; subst. exact Ha.
Qed.
Lemma key_eq : key_ = (path <- key_raw ;; match fix_key_path path with Some p => ret p | None => fun _ => Panic P_key_path_empty end).
Proof. reflexivity. Qed.
Lemma key_mono : mono key_. Proof. rewrite key_eq. pose proof key_raw_mono. np. Qed.
Lemma key_progress : progress key_. Proof. rewrite key_eq. pose proof key_raw_progress. np. Qed.
Lemma key_safe : safe key_.
Proof.
  rewrite key_eq. eapply safe_bind_val; [np|apply key_raw_mono|apply key_raw_safe|apply key_raw_val|].
  intros path Hp. destruct (fix_key_path_some path Hp) as (p & -> & _). np.
Qed.
Lemma key_val : valP (fun l => l <> []) key_.
Proof.
  rewrite key_eq. eapply valP_bind_val; [apply key_raw_val|]. intros path Hp.
  destruct (fix_key_path_some path Hp) as (p & -> & Hne). apply valP_ret, Hne.
Qed.
#[export] Hint Resolve key_mono key_progress key_safe : np.

(* ============================== the lexical layer is total =========================================== *)
Theorem lexical_total :
  safe ws /\ safe comment /\ safe newline /\ safe ws_newline /\ safe ws_newlines /\ safe ws_comment_newline
  /\ safe line_ending /\ safe line_trailing
  /\ safe basic_string /\ safe ml_basic_string /\ safe literal_string /\ safe ml_literal_string /\ safe string_
  /\ safe integer /\ safe float /\ safe true_ /\ safe false_ /\ safe date_time
  /\ safe simple_key /\ safe key_.
Proof. repeat apply conj; np. Qed.

(* every from_utf8_unchecked site of the lexical parsers, by name: the parser that contains the
   site never returns `Panic (P_unchecked_utf8 _)` (nor any other panic) *)
Theorem unchecked_sites_ok :
  safe ws (* 1 *) /\ (forall n, safe (hexescape n)) (* 2 *)
  /\ (forall q term, ascii q = true -> safe term -> safe (quotes2 q term)) (* 3 *)
  /\ safe dec_int (* 10 *) /\ safe hex_int (* 11 *) /\ safe oct_int (* 12 *) /\ safe bin_int (* 13 *)
  /\ safe zero_prefixable_int (* 14 *) /\ safe frac (* 15 *) /\ safe exp (* 16 *) /\ safe float_ (* 17 *)
  /\ (forall m n, safe (unsigned_digits m n)) (* 20 *) /\ safe unquoted_key (* 30 *).
Proof. repeat apply conj; np. Qed.
