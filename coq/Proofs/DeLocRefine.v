(* Proofs/DeLocRefine.v — erasing the locations, the located deserializer (Model/DeLoc.v de_loc) is
   eng-c07's value-level deserializer (Model/De.v de_value) on the stripped tree: it succeeds exactly
   when de_value does, with the same value.  (Which ERROR is reported is not compared: De.v collapses
   them, and visits struct fields in field order where de_loc follows the table order.)
   Assumptions on the tree: leaves hold scalars and the keys of a table are distinct (`tree_ok`; both
   hold of every tree toml_edit builds); no struct is deny_unknown_fields (De.v has no such flag). *)
From TV Require Import Base.Prelude Base.Utf8 Model.Datetime Model.DatetimeStd Model.SerNum Spec.SerdeData Model.De Model.SerdeSpanned.
From TV Require Import Model.DeLoc Proofs.DeLocBase.

Definition lval {A} (r : lres A) : option A := match r with LOk a => Some a | LErr _ => None end.
Definition rval {A} (r : result A) : option A := match r with Ok a => Some a | Err _ => None end.

Fixpoint tree_ok (s : stree) : bool :=
  match s with
  | NLeaf _ x => is_leaf x
  | NArr _ xs => forallb tree_ok xs
  | NTab _ es => nodup_bytes (map (fun e : bytes * ospan * stree => fst (fst e)) es)
                 && forallb (fun e : bytes * ospan * stree => tree_ok (snd e)) es
  end.

Definition nodeny (c : cfg) : Prop := forall n, deny c n = false.

(* ---- plumbing does not change the value ---- *)
Lemma lval_map_err {A} g (r : lres A) : lval (map_err g r) = lval r.
Proof. destruct r; reflexivity. Qed.
Lemma lval_wrap {A} sp (r : lres A) : lval (wrap sp r) = lval r.
Proof. apply lval_map_err. Qed.
Lemma lval_wrap_always {A} sp (r : lres A) : lval (wrap_always sp r) = lval r.
Proof. apply lval_map_err. Qed.
Lemma lval_under {A} st (r : lres A) : lval (under st r) = lval r.
Proof. apply lval_map_err. Qed.
Lemma lval_on_key {A} (r : lres A) : lval (on_key r) = lval r.
Proof. apply lval_map_err. Qed.
Lemma lval_addkey {A} k (r : lres A) : lval (addkey k r) = lval r.
Proof. apply lval_map_err. Qed.
Lemma lval_value_of_entry {A} i e (r : lres A) : lval (value_of_entry i e r) = lval r.
Proof. unfold value_of_entry. rewrite lval_under, lval_addkey, lval_wrap. reflexivity. Qed.
Lemma lval_key_of_entry {A} i e (r : lres A) : lval (key_of_entry i e r) = lval r.
Proof. unfold key_of_entry. rewrite lval_under, lval_on_key, lval_wrap. reflexivity. Qed.

Definition obind {A B} (o : option A) (f : A -> option B) : option B := match o with Some a => f a | None => None end.
Lemma lval_lbind {A B} (r : lres A) (f : A -> lres B) : lval (lbind r f) = obind (lval r) (fun a => lval (f a)).
Proof. destruct r; reflexivity. Qed.
Lemma lval_lmap {A B} (g : A -> B) (r : lres A) : lval (lmap g r) = option_map g (lval r).
Proof. destruct r; reflexivity. Qed.
Lemma rval_rbind {A B} (r : result A) (f : A -> result B) : rval (rbind r f) = obind (rval r) (fun a => rval (f a)).
Proof. destruct r; reflexivity. Qed.
Lemma rval_rmap {A B} (g : A -> B) (r : result A) : rval (rmap g r) = option_map g (rval r).
Proof. destruct r; reflexivity. Qed.
Lemma lval_raise {A} k : lval (@raise A k) = None.
Proof. reflexivity. Qed.
Lemma lval_raise_at {A} k sp : lval (@raise_at A k sp) = None.
Proof. reflexivity. Qed.

(* ---- leaves and keys ---- *)
Lemma lval_de_char s : lval (de_char_l s) = rval (de_char s).
Proof. unfold de_char_l. destruct (de_char s); reflexivity. Qed.
Lemma lval_de_dt s : lval (de_dt_str_l s) = rval (de_dt_str s).
Proof. unfold de_dt_str_l, de_dt_str. destruct (std_from_str s); reflexivity. Qed.

Definition scalar_ty (t : ty) : bool :=
  match t with TBool | TInt _ | TFloat _ | TChar | TStr | TUnit | TUnitStruct _ => true | _ => false end.

Lemma lval_visit_scalar t s : scalar_ty t = true -> tree_ok s = true ->
  lval (visit_scalar t s) = rval (de_value t (strip s)).
Proof.
  intros St Ok. destruct s as [sp x|sp xs|sp es]; cbn [strip visit_scalar].
  - cbn [tree_ok] in Ok. destruct t; try discriminate; destruct x; try discriminate; cbn [de_value];
      try reflexivity; try (destruct w; reflexivity); try apply lval_de_char.
    destruct (de_int w z); reflexivity.
  - destruct t; try discriminate; try reflexivity; destruct w; reflexivity.
  - destruct t; try discriminate; try reflexivity; destruct w; reflexivity.
Qed.

Lemma find_name_agree {A R1 R2} (v1 : R1 -> option sval) (v2 : R2 -> option sval)
      (f : nat -> A -> R1) (g : nat -> A -> R2) d1 d2 k l : forall i,
  v1 d1 = v2 d2 -> (forall j a, In (k, a) l -> v1 (f j a) = v2 (g j a)) ->
  v1 (find_name f d1 k l i) = v2 (find_name g d2 k l i).
Proof.
  induction l as [|[n a] l IH]; intros i Hd Hf; [exact Hd|]. cbn [find_name].
  destruct (bytes_eqb n k) eqn:E.
  - apply bytes_eqb_eq in E. subst. apply Hf. left. reflexivity.
  - apply IH; [exact Hd|]. intros j a' Hin. apply Hf. right. exact Hin.
Qed.

Lemma lval_de_key t k : lval (de_key_l t k) = rval (de_key t k).
Proof.
  induction t; cbn [de_key_l de_key]; try reflexivity.
  - apply lval_de_char.
  - destruct (private_name name); reflexivity.
  - rewrite lval_lmap, rval_rmap, IHt. reflexivity.
  - apply (find_name_agree lval rval); [reflexivity|]. intros j a _. destruct a; reflexivity.
Qed.

(* ---- children ---- *)
Definition strip_entry (e : bytes * ospan * stree) : bytes * tomlval := (fst (fst e), strip (snd e)).

Lemma strip_tab sp es : strip (NTab sp es) = VTab (map strip_entry es).
Proof. reflexivity. Qed.

Lemma tree_ok_arr sp xs : tree_ok (NArr sp xs) = true -> Forall (fun x => tree_ok x = true) xs.
Proof. cbn [tree_ok]. intro H. apply Forall_forall. apply forallb_forall. exact H. Qed.
Lemma tree_ok_tab sp es : tree_ok (NTab sp es) = true ->
  nodup_bytes (map en_key es) = true /\ Forall (fun e => tree_ok (en_val e) = true) es.
Proof.
  cbn [tree_ok]. rewrite andb_true_iff. intros [H1 H2]. split; [exact H1|].
  apply Forall_forall. intros e Hin. rewrite forallb_forall in H2. apply H2. exact Hin.
Qed.

Definition agrees (de : ty -> stree -> lres sval) (t : ty) : Prop :=
  forall x, tree_ok x = true -> lval (de t x) = rval (de_value t (strip x)).

Section Visitors.
  Variable de : ty -> stree -> lres sval.

  Lemma lval_seq_elems t xs : agrees de t -> Forall (fun x => tree_ok x = true) xs -> forall i,
    lval (seq_elems de t xs i) = rval (mapM (de_value t) (map strip xs)).
  Proof.
    intros Hde F. induction F as [|x xs Hx _ IH]; intro i; [reflexivity|]. cbn [seq_elems map mapM].
    rewrite lval_lbind, rval_rbind, lval_under, lval_wrap, (Hde x Hx). destruct (rval (de_value t (strip x))); [|reflexivity]. cbn [obind].
    rewrite lval_lbind, rval_rbind, IH. destruct (rval (mapM (de_value t) (map strip xs))); reflexivity.
  Qed.

  Lemma lval_pos_elems {A} (proj : A -> ty) l : Forall (fun a => agrees de (proj a)) l -> forall xs i,
    Forall (fun x => tree_ok x = true) xs ->
    lval (pos_elems de proj l xs i) = option_map fst (rval (de_pos de_value proj l (map strip xs))).
  Proof.
    induction l as [|a l IH]; intros Fl xs i F; [reflexivity|]. inversion Fl; subst. cbn [pos_elems de_pos].
    destruct xs as [|x xs]; [reflexivity|]. inversion F; subst. cbn [map].
    rewrite lval_lbind, rval_rbind, lval_under, lval_wrap, (H1 x H3). destruct (rval (de_value (proj a) (strip x))); [|reflexivity]. cbn [obind].
    rewrite lval_lbind, rval_rbind, (IH H2 xs (S i) H4). destruct (rval (de_pos de_value proj l (map strip xs))) as [[vs rest]|]; reflexivity.
  Qed.

  Lemma lval_map_entries kt vt es : agrees de vt -> Forall (fun e => tree_ok (en_val e) = true) es -> forall i,
    lval (map_entries de kt vt es i)
    = rval (mapM (fun kx => rbind (de_key kt (fst kx)) (fun k => rmap (fun v => (k, v)) (de_value vt (snd kx))))
                 (map strip_entry es)).
  Proof.
    intros Hde F. induction F as [|e es He _ IH]; intro i; [reflexivity|]. cbn [map_entries map mapM].
    rewrite lval_lbind, rval_rbind, lval_key_of_entry, lval_de_key, rval_rbind.
    cbn [strip_entry fst snd]. change (fst (fst e)) with (en_key e).
    destruct (rval (de_key kt (en_key e))) as [k|]; [|reflexivity]. cbn [obind].
    rewrite lval_lbind, lval_value_of_entry, rval_rmap, (Hde _ He). change (snd e) with (en_val e).
    destruct (rval (de_value vt (strip (en_val e)))) as [v|]; [|reflexivity]. cbn [obind option_map].
    rewrite lval_lbind, rval_rbind, IH. destruct (rval (mapM _ (map strip_entry es))); reflexivity.
  Qed.
End Visitors.

(* ---- structs: entries in table order (de_loc) against fields in field order (de_value) -------- *)

(* the field a key selects: the first one of that name *)
Definition sel_from (fs : list (bytes * ty)) (k : bytes) (i : nat) : option (nat * ty) :=
  find_name (fun j t => Some (j, t)) None k fs i.
Definition sel (fs : list (bytes * ty)) (k : bytes) : option (nat * ty) := sel_from fs k 0.

Lemma find_name_sel {R} (f : nat -> ty -> R) d k l : forall i,
  find_name f d k l i = match sel_from l k i with Some (j, t) => f j t | None => d end.
Proof.
  unfold sel_from. induction l as [|[n a] l IH]; intro i; [reflexivity|]. cbn [find_name].
  destruct (bytes_eqb n k); [reflexivity|apply IH].
Qed.

Lemma sel_from_some l k : forall i j t,
  sel_from l k i = Some (j, t) ->
  exists m, j = i + m /\ nth_error l m = Some (k, t) /\ mem_bytes k (map fst (firstn m l)) = false.
Proof.
  unfold sel_from. induction l as [|[n a] l IH]; intros i j t H; [discriminate|]. cbn [find_name] in H.
  destruct (bytes_eqb n k) eqn:E.
  - injection H as <- <-. apply bytes_eqb_eq in E. subst. exists 0. rewrite Nat.add_0_r. repeat split.
  - destruct (IH (S i) j t H) as (m & -> & Hn & Hm). exists (S m). split; [lia|]. split; [exact Hn|].
    cbn [firstn map fst mem_bytes]. rewrite Hm. rewrite orb_false_r.
    destruct (bytes_eqb k n) eqn:E2; [|reflexivity]. apply bytes_eqb_eq in E2. subst. rewrite bytes_eqb_refl in E. discriminate.
Qed.

Lemma sel_from_first l k : forall i m t,
  nth_error l m = Some (k, t) -> mem_bytes k (map fst (firstn m l)) = false -> sel_from l k i = Some (i + m, t).
Proof.
  unfold sel_from. induction l as [|[n a] l IH]; intros i m t Hn Hm; [destruct m; discriminate|].
  destruct m as [|m]; cbn [nth_error] in Hn.
  - injection Hn as -> ->. cbn [find_name]. rewrite bytes_eqb_refl, Nat.add_0_r. reflexivity.
  - cbn [firstn map fst mem_bytes] in Hm. apply orb_false_iff in Hm as [Hk Hm]. cbn [find_name].
    destruct (bytes_eqb n k) eqn:E.
    + apply bytes_eqb_eq in E. subst. rewrite bytes_eqb_refl in Hk. discriminate.
    + rewrite (IH (S i) m t Hn Hm). f_equal. f_equal. lia.
Qed.

Lemma sel_from_none l k : forall i, sel_from l k i = None <-> mem_bytes k (map fst l) = false.
Proof.
  unfold sel_from. induction l as [|[n a] l IH]; intro i; [split; reflexivity|]. cbn [find_name map fst mem_bytes].
  destruct (bytes_eqb n k) eqn:E.
  - apply bytes_eqb_eq in E. subst. rewrite bytes_eqb_refl. split; discriminate.
  - rewrite IH. destruct (bytes_eqb k n) eqn:E2; [|reflexivity].
    apply bytes_eqb_eq in E2. subst. rewrite bytes_eqb_refl in E. discriminate.
Qed.

Section StructAgree.
  Variable de : ty -> stree -> lres sval.
  Variable fs : list (bytes * ty).
  Hypothesis Hde : Forall (fun ft => agrees de (snd ft)) fs.

  (* the scan without the duplicate check *)
  Fixpoint scan_pure (es : list entry) : option (list (nat * sval)) :=
    match es with
    | [] => Some []
    | e :: es' =>
      match sel fs (en_key e) with
      | None => scan_pure es'
      | Some (j, t) => obind (lval (de t (en_val e))) (fun v => option_map (cons (j, v)) (scan_pure es'))
      end
    end.

  Lemma mem_bytes_in k l : mem_bytes k l = true <-> In k l.
  Proof.
    induction l as [|x l IH]; cbn [mem_bytes In]; [split; [discriminate|tauto]|].
    rewrite orb_true_iff, IH, bytes_eqb_eq. split; intros [H|H]; auto.
  Qed.

  Lemma nodup_cons k l : nodup_bytes (k :: l) = true -> ~ In k l /\ nodup_bytes l = true.
  Proof.
    cbn [nodup_bytes]. rewrite andb_true_iff, negb_true_iff. intros [H1 H2]. split; [|exact H2].
    intro Hin. apply mem_bytes_in in Hin. congruence.
  Qed.

  Lemma scan_eq es : forall i seen,
    nodup_bytes (map en_key es) = true ->
    (forall j e t, In j seen -> In e es -> sel fs (en_key e) <> Some (j, t)) ->
    lval (struct_scan de fs false es i seen) = scan_pure es.
  Proof.
    induction es as [|e es IH]; intros i seen ND Hs; [reflexivity|]. cbn [struct_scan scan_pure].
    cbn [map] in ND. apply nodup_cons in ND as [Hk ND].
    rewrite find_name_sel. fold (sel fs (en_key e)).
    destruct (sel fs (en_key e)) as [[j t]|] eqn:S.
    - assert (Hj : existsb (Nat.eqb j) seen = false).
      { destruct (existsb (Nat.eqb j) seen) eqn:Ex; [|reflexivity]. apply existsb_exists in Ex as (j' & Hin & Ej).
        apply Nat.eqb_eq in Ej. subst j'. exfalso. exact (Hs j e t Hin (or_introl eq_refl) S). }
      rewrite Hj, lval_lbind, lval_value_of_entry. destruct (lval (de t (en_val e))) as [v|]; [|reflexivity]. cbn [obind].
      rewrite lval_lbind, IH; [destruct (scan_pure es); reflexivity|exact ND|].
      intros j' e' t' [<-|Hin] He' S'.
      + (* e' selects the field e selected: same key *)
        apply sel_from_some in S as (m & Em & Hn & _). apply sel_from_some in S' as (m' & Em' & Hn' & _).
        simpl in Em, Em'. subst j. subst m'. rewrite Hn in Hn'. injection Hn' as Ek _. apply Hk. rewrite Ek. apply in_map. exact He'.
      + exact (Hs j' e' t' Hin (or_intror He') S').
    - apply IH; [exact ND|]. intros j' e' t' Hin He'. exact (Hs j' e' t' Hin (or_intror He')).
  Qed.

  (* what the scan found for field j: the value of the first entry selecting j *)
  Definition selects (j : nat) (e : entry) : bool :=
    match sel fs (en_key e) with Some (j', _) => Nat.eqb j' j | None => false end.

  Lemma scan_assoc es : forall got j, scan_pure es = Some got ->
    assoc_nat j got = match find (selects j) es with
                      | Some e => match sel fs (en_key e) with Some (_, t) => lval (de t (en_val e)) | None => None end
                      | None => None
                      end.
  Proof.
    induction es as [|e es IH]; intros got j H; [injection H as <-; reflexivity|]. cbn [scan_pure] in H. cbn [find].
    unfold selects at 1. destruct (sel fs (en_key e)) as [[j' t]|] eqn:S; [|apply IH; exact H].
    destruct (lval (de t (en_val e))) as [v|] eqn:V; [|discriminate]. cbn [obind] in H.
    destruct (scan_pure es) as [got'|]; [|discriminate]. injection H as <-. cbn [assoc_nat].
    destruct (Nat.eqb j' j); [rewrite S; symmetry; exact V|apply IH; reflexivity].
  Qed.

  Lemma scan_none es : scan_pure es = None ->
    exists e j t, In e es /\ sel fs (en_key e) = Some (j, t) /\ lval (de t (en_val e)) = None.
  Proof.
    induction es as [|e es IH]; intro H; [discriminate|]. cbn [scan_pure] in H.
    destruct (sel fs (en_key e)) as [[j t]|] eqn:S.
    - destruct (lval (de t (en_val e))) as [v|] eqn:V.
      + cbn [obind] in H. destruct (scan_pure es); [discriminate|].
        destruct (IH eq_refl) as (e' & j' & t' & Hin & S' & V'). exists e', j', t'. split; [right; exact Hin|split; assumption].
      + exists e, j, t. split; [left; reflexivity|split; assumption].
    - destruct (IH H) as (e' & j' & t' & Hin & S' & V'). exists e', j', t'. split; [right; exact Hin|split; assumption].
  Qed.
  Lemma scan_all_ok es : forall got, scan_pure es = Some got ->
    forall e j t, In e es -> sel fs (en_key e) = Some (j, t) -> exists v, lval (de t (en_val e)) = Some v.
  Proof.
    induction es as [|e0 es IH]; intros got H e j t Hin S; [destruct Hin|]. cbn [scan_pure] in H.
    destruct Hin as [->|Hin].
    - rewrite S in H. destruct (lval (de t (en_val e))) as [v|]; [eauto|discriminate].
    - destruct (sel fs (en_key e0)) as [[j0 t0]|]; [|exact (IH got H e j t Hin S)].
      destruct (lval (de t0 (en_val e0))); [|discriminate]. cbn [obind] in H.
      destruct (scan_pure es) as [got'|]; [|discriminate]. exact (IH got' eq_refl e j t Hin S).
  Qed.
End StructAgree.

Lemma mem_bytes_app k l l' : mem_bytes k (l ++ l') = mem_bytes k l || mem_bytes k l'.
Proof. induction l as [|x l IH]; [reflexivity|]. cbn [app mem_bytes]. rewrite IH, orb_assoc. reflexivity. Qed.

Lemma nodup_filter p l : nodup_bytes l = true -> nodup_bytes (filter p l) = true.
Proof.
  induction l as [|x l IH]; [reflexivity|]. cbn [nodup_bytes filter]. rewrite andb_true_iff, negb_true_iff. intros [H1 H2].
  destruct (p x); [|apply IH; exact H2]. cbn [nodup_bytes]. rewrite (IH H2), andb_true_r. apply negb_true_iff.
  destruct (mem_bytes x (filter p l)) eqn:E; [|reflexivity].
  assert (Hin : mem_bytes x l = true).
  { clear -E. induction l as [|y l IH]; [discriminate|]. cbn [filter] in E. cbn [mem_bytes].
    destruct (p y); [cbn [mem_bytes] in E; apply orb_true_iff in E as [E|E]; [rewrite E; reflexivity|rewrite (IH E); apply orb_true_r]
                    |rewrite (IH E); apply orb_true_r]. }
  congruence.
Qed.

Lemma map_key_strip es : map fst (map strip_entry es) = map en_key es.
Proof. rewrite map_map. reflexivity. Qed.

Lemma dup_field_hit_false names es :
  nodup_bytes (map en_key es) = true -> dup_field_hit names (map strip_entry es) = false.
Proof.
  intro H. unfold dup_field_hit. rewrite map_key_strip. rewrite nodup_filter; [reflexivity|exact H].
Qed.

Lemma tab_get_strip f es :
  tab_get f (map strip_entry es) = option_map (fun e => strip (en_val e)) (find (fun e => bytes_eqb (en_key e) f) es).
Proof.
  induction es as [|e es IH]; [reflexivity|]. cbn [map tab_get find]. unfold strip_entry at 1.
  change (fst (fst e)) with (en_key e). destruct (bytes_eqb (en_key e) f); [reflexivity|exact IH].
Qed.

Lemma find_ext' {A} (p q : A -> bool) l : (forall x, p x = q x) -> find p l = find q l.
Proof. intro H. induction l as [|x l IH]; [reflexivity|]. cbn [find]. rewrite H, IH. reflexivity. Qed.

Lemma find_none_all {A} (p : A -> bool) l : (forall x, p x = false) -> find p l = None.
Proof. intro H. induction l as [|x l IH]; [reflexivity|]. cbn [find]. rewrite H. exact IH. Qed.

Lemma find_unique es e : nodup_bytes (map en_key es) = true -> In e es ->
  find (fun e' => bytes_eqb (en_key e') (en_key e)) es = Some e.
Proof.
  induction es as [|x es IH]; intros ND Hin; [destruct Hin|]. cbn [map] in ND. cbn [find].
  pose proof (nodup_cons _ _ ND) as NDc.
  destruct NDc as [Hk ND']. destruct Hin as [->|Hin]; [rewrite bytes_eqb_refl; reflexivity|].
  destruct (bytes_eqb (en_key x) (en_key e)) eqn:E; [|apply IH; assumption].
  apply bytes_eqb_eq in E. exfalso. apply Hk. rewrite E. apply in_map. exact Hin.
Qed.

Section StructAgree2.
  Variable de : ty -> stree -> lres sval.
  Variable fs : list (bytes * ty).
  Hypothesis Hde : Forall (fun ft => agrees de (snd ft)) fs.

  Lemma selects_first j f t (e : entry) :
    nth_error fs j = Some (f, t) -> mem_bytes f (map fst (firstn j fs)) = false ->
    selects fs j e = bytes_eqb (en_key e) f.
  Proof.
    intros Hn Hm. unfold selects. destruct (bytes_eqb (en_key e) f) eqn:E.
    - apply bytes_eqb_eq in E. rewrite E. unfold sel. rewrite (sel_from_first fs f 0 j t Hn Hm). cbn [plus]. apply Nat.eqb_refl.
    - destruct (sel fs (en_key e)) as [[j' t']|] eqn:S; [|reflexivity].
      destruct (Nat.eqb j' j) eqn:Ej; [|reflexivity]. apply Nat.eqb_eq in Ej. subst j'.
      apply sel_from_some in S as (m & Em & Hn' & _). simpl in Em. subst m. rewrite Hn in Hn'. injection Hn' as Ek _.
      rewrite Ek, bytes_eqb_refl in E. discriminate.
  Qed.

  Lemma selects_nonfirst j f t (e : entry) :
    nth_error fs j = Some (f, t) -> mem_bytes f (map fst (firstn j fs)) = true -> selects fs j e = false.
  Proof.
    intros Hn Hm. unfold selects. destruct (sel fs (en_key e)) as [[j' t']|] eqn:S; [|reflexivity].
    destruct (Nat.eqb j' j) eqn:Ej; [|reflexivity]. apply Nat.eqb_eq in Ej. subst j'.
    apply sel_from_some in S as (m & Em & Hn' & Hm'). simpl in Em. subst m. rewrite Hn in Hn'. injection Hn' as Ek _.
    rewrite Ek in Hm. congruence.
  Qed.

  Lemma firstn_pre {A} (pre suf : list A) : firstn (length pre) (pre ++ suf) = pre.
  Proof. induction pre; cbn; [destruct suf; reflexivity|]. f_equal. assumption. Qed.
  Lemma nth_pre' {A} (pre : list A) x suf : nth_error (pre ++ x :: suf) (length pre) = Some x.
  Proof. induction pre; cbn; auto. Qed.

  Definition missing_l (f : bytes) (t : ty) : lres sval := match t with TOpt _ => LOk SNone | _ => raise (KMissing f) end.
  Lemma lval_missing f t : lval (missing_l f t) = rval (missing_field t).
  Proof. destruct t; reflexivity. Qed.

  Lemma finish_agree es got : scan_pure de fs es = Some got -> Forall (fun e => tree_ok (en_val e) = true) es ->
    forall suf pre seen, fs = pre ++ suf -> (forall f, mem_bytes f seen = mem_bytes f (map fst pre)) ->
    lval (struct_finish suf (length pre) got) = rval (de_fields_map de_value (map strip_entry es) seen suf).
  Proof.
    intros Hs Fok. induction suf as [|[f t] suf IH]; intros pre seen Efs Hseen; [reflexivity|].
    cbn [struct_finish de_fields_map]. rewrite lval_lbind, rval_rbind.
    assert (Hn : nth_error fs (length pre) = Some (f, t)) by (rewrite Efs; apply nth_pre').
    assert (Hfirst : firstn (length pre) fs = pre) by (rewrite Efs; apply firstn_pre).
    assert (Hhead : lval (match assoc_nat (length pre) got with Some v => LOk v | None => missing_l f t end)
                    = rval (if mem_bytes f seen then missing_field t
                            else match tab_get f (map strip_entry es) with Some x => de_value t x | None => missing_field t end)).
    { rewrite (scan_assoc de fs es got (length pre) Hs), Hseen.
      destruct (mem_bytes f (map fst pre)) eqn:M.
      - rewrite find_none_all; [apply lval_missing|]. intro e. apply (selects_nonfirst _ f t e Hn). rewrite Hfirst. exact M.
      - rewrite (find_ext' (selects fs (length pre)) (fun e => bytes_eqb (en_key e) f));
          [|intro e; apply (selects_first _ f t e Hn); rewrite Hfirst; exact M].
        rewrite tab_get_strip. destruct (find (fun e => bytes_eqb (en_key e) f) es) as [e|] eqn:Fd; [|apply lval_missing].
        cbn [option_map]. apply find_some in Fd as [Hin Ek]. apply bytes_eqb_eq in Ek.
        assert (S : sel fs (en_key e) = Some (length pre, t)).
        { rewrite Ek. unfold sel. rewrite (sel_from_first fs f 0 (length pre) t Hn); [reflexivity|rewrite Hfirst; exact M]. }
        destruct (scan_all_ok de fs es got Hs e _ _ Hin S) as [v V]. rewrite S, V. cbn [lval].
        rewrite Forall_forall in Hde. specialize (Hde (f, t) (nth_error_In _ _ Hn)). cbn [snd] in Hde.
        rewrite Forall_forall in Fok. rewrite <- (Hde (en_val e) (Fok e Hin)). symmetry. exact V. }
    unfold missing_l in Hhead. rewrite Hhead.
    destruct (rval (if mem_bytes f seen then missing_field t else _)) as [v|]; [|reflexivity]. cbn [obind].
    rewrite lval_lbind, rval_rbind.
    specialize (IH (pre ++ [(f, t)]) (f :: seen)). rewrite app_length, Nat.add_1_r in IH. rewrite IH.
    - destruct (rval (de_fields_map de_value (map strip_entry es) (f :: seen) suf)); reflexivity.
    - rewrite <- app_assoc. exact Efs.
    - intro f'. cbn [mem_bytes]. rewrite map_app, mem_bytes_app, Hseen. cbn [map fst mem_bytes]. rewrite orb_false_r, orb_comm. reflexivity.
  Qed.

  Lemma fields_fail es' : forall suf pre seen, fs = pre ++ suf -> (forall f, mem_bytes f seen = mem_bytes f (map fst pre)) ->
    (exists m f t x, nth_error suf m = Some (f, t) /\ mem_bytes f (map fst (firstn (length pre + m) fs)) = false /\
                     tab_get f es' = Some x /\ rval (de_value t x) = None) ->
    rval (de_fields_map de_value es' seen suf) = None.
  Proof.
    induction suf as [|[f0 t0] suf IH]; intros pre seen Efs Hseen (m & f & t & x & Hn & Hm & Hg & Hv); [destruct m; discriminate|].
    cbn [de_fields_map]. rewrite rval_rbind. destruct m as [|m].
    - cbn [nth_error] in Hn. injection Hn as -> ->. rewrite Nat.add_0_r, Efs, firstn_pre in Hm.
      rewrite Hseen, Hm, Hg, Hv. reflexivity.
    - destruct (rval (if mem_bytes f0 seen then missing_field t0 else _)) as [v|]; [|reflexivity]. cbn [obind].
      rewrite rval_rbind. rewrite (IH (pre ++ [(f0, t0)]) (f0 :: seen)); [reflexivity| | |].
      + rewrite <- app_assoc. exact Efs.
      + intro f'. cbn [mem_bytes]. rewrite map_app, mem_bytes_app, Hseen. cbn [map fst mem_bytes]. rewrite orb_false_r, orb_comm. reflexivity.
      + exists m, f, t, x. cbn [nth_error] in Hn.
        replace (length (pre ++ [(f0, t0)]) + m) with (length pre + S m) by (rewrite app_length; cbn [length]; lia).
        repeat split; assumption.
  Qed.

  Theorem struct_agree es :
    nodup_bytes (map en_key es) = true -> Forall (fun e => tree_ok (en_val e) = true) es ->
    lval (struct_from_table de fs false es) = rval (de_struct_map de_value fs (map strip_entry es)).
  Proof.
    intros ND Fok. unfold struct_from_table, de_struct_map. rewrite (dup_field_hit_false _ _ ND).
    rewrite lval_lbind, (scan_eq de fs es 0 [] ND); [|intros j e t []].
    destruct (scan_pure de fs es) as [got|] eqn:Sc; cbn [obind].
    - exact (finish_agree es got Sc Fok fs [] [] eq_refl (fun _ => eq_refl)).
    - symmetry. apply scan_none in Sc as (e & j & t & Hin & S & V).
      apply sel_from_some in S as (m & Em & Hn & Hm). simpl in Em. subst m.
      apply (fields_fail (map strip_entry es) fs [] [] eq_refl (fun _ => eq_refl)).
      exists j, (en_key e), t, (strip (en_val e)). cbn [length plus]. repeat split; [exact Hn|exact Hm| |].
      + rewrite tab_get_strip, (find_unique es e ND Hin). reflexivity.
      + rewrite Forall_forall in Hde. specialize (Hde (en_key e, t) (nth_error_In _ _ Hn)). cbn [snd] in Hde.
        rewrite Forall_forall in Fok. rewrite <- (Hde (en_val e) (Fok e Hin)). exact V.
  Qed.
End StructAgree2.

(* ---- the remaining pieces ---- *)
Lemma first_extra_none names es : forall i,
  (first_extra_key names es i = None -> struct_keys_ok names (map strip_entry es) = true) /\
  (forall x, first_extra_key names es i = Some x -> struct_keys_ok names (map strip_entry es) = false).
Proof.
  induction es as [|e es IH]; intro i; [split; [reflexivity|discriminate]|].
  cbn [first_extra_key map struct_keys_ok forallb]. unfold strip_entry at 1 3. cbn [fst]. change (fst (fst e)) with (en_key e).
  destruct (mem_bytes (en_key e) names); cbn [andb]; [apply IH|]. split; [discriminate|reflexivity].
Qed.

Lemma index_agree es : forall i n,
  option_map (map (fun ie : nat * entry => strip (en_val (snd ie)))) (lval (index_entries i n es))
  = index_keys n (map strip_entry es).
Proof.
  induction es as [|e es IH]; intros i n; [reflexivity|]. cbn [index_entries map index_keys].
  unfold strip_entry at 1. change (fst (fst e)) with (en_key e).
  destruct (parse_usize (en_key e)) as [j|]; [|reflexivity]. destruct (j =? n)%N; [|reflexivity].
  rewrite lval_lmap, <- (IH (S i) (n + 1)%N). destruct (lval (index_entries (S i) (n + 1) es)); reflexivity.
Qed.

Lemma lval_pos_entries de ts : Forall (agrees de) ts -> forall xs,
  Forall (fun ie : nat * entry => tree_ok (en_val (snd ie)) = true) xs ->
  lval (pos_entries de ts xs)
  = option_map fst (rval (de_pos de_value (fun t' => t') ts (map (fun ie : nat * entry => strip (en_val (snd ie))) xs))).
Proof.
  induction ts as [|t ts IH]; intros Ft xs F; [reflexivity|]. inversion Ft; subst. cbn [pos_entries de_pos].
  destruct xs as [|[i e] xs]; [reflexivity|]. inversion F; subst. cbn [map snd] in *.
  rewrite lval_lbind, rval_rbind, lval_under, lval_wrap, (H1 _ H3). destruct (rval (de_value t (strip (en_val e)))); [|reflexivity]. cbn [obind].
  rewrite lval_lbind, rval_rbind, (IH H2 xs H4). destruct (rval (de_pos de_value _ ts _)) as [[vs rest]|]; reflexivity.
Qed.

Lemma index_entries_ok es : forall i n xs, index_entries i n es = LOk xs ->
  Forall (fun e => tree_ok (en_val e) = true) es -> Forall (fun ie : nat * entry => tree_ok (en_val (snd ie)) = true) xs.
Proof.
  induction es as [|e es IH]; intros i n xs H F; [injection H as <-; constructor|]. inversion F; subst.
  cbn [index_entries] in H. destruct (parse_usize (en_key e)) as [j|]; [|discriminate]. destruct (j =? n)%N; [|discriminate].
  destruct (index_entries (S i) (n + 1) es) as [ys|] eqn:E; [|discriminate]. injection H as <-.
  constructor; [assumption|exact (IH _ _ _ E H3)].
Qed.

Lemma empty_agree y : tree_ok y = true -> sempty_container y = empty_container (strip y).
Proof.
  destruct y as [sp x|sp xs|sp es]; cbn [tree_ok strip sempty_container empty_container]; intro H.
  - destruct x; try discriminate; reflexivity.
  - destruct xs; reflexivity.
  - destruct es; reflexivity.
Qed.

Lemma lval_de_datetime s : tree_ok s = true -> lval (de_datetime_l s) = rval (de_datetime (strip s)).
Proof.
  intro Ok. destruct s as [sp x|sp xs|sp es]; cbn [de_datetime_l strip].
  - cbn [tree_ok] in Ok. destruct x; try discriminate; cbn [de_datetime]; rewrite lval_wrap; try reflexivity. apply lval_de_dt.
  - rewrite lval_wrap. reflexivity.
  - destruct es as [|e es]; [rewrite lval_wrap; reflexivity|]. cbn [map de_datetime].
    change (fst (fst e)) with (en_key e). rewrite lval_wrap, lval_lbind, lval_key_of_entry.
    destruct (bytes_eqb (en_key e) DT_FIELD); [|reflexivity]. cbn [lval obind].
    rewrite lval_value_of_entry, lval_wrap. change (snd e) with (en_val e).
    apply tree_ok_tab in Ok as [_ F]. inversion F; subst.
    destruct (en_val e) as [sp' x'|sp' xs'|sp' es']; cbn [strip]; try reflexivity.
    destruct x'; try reflexivity. apply lval_de_dt.
Qed.

(* ---- the deserializer ---- *)
Ltac rw_pos H F :=
  match goal with
  | |- context [lval (pos_elems ?d ?p ?l ?x 0)] =>
    replace (lval (pos_elems d p l x 0)) with (option_map fst (rval (de_pos de_value p l (map strip x))))
      by (symmetry; exact (lval_pos_elems _ p l H x 0 F))
  end.

Theorem de_loc_refines c : nodeny c -> forall t s, tree_ok s = true ->
  lval (de_loc c t s) = rval (de_value t (strip s)).
Proof.
  intro ND.
  induction t using ty_ind2 with
      (Q := fun var => forall y, tree_ok y = true -> lval (de_payload c var y) = rval (De.de_payload var (strip y)));
    intros s Ok;
    try (cbn [de_loc]; rewrite lval_wrap; apply lval_visit_scalar; [reflexivity|exact Ok]).
  - (* datetime *)
    cbn [de_loc de_value]. rewrite lval_lbind, rval_rbind, (lval_de_datetime s Ok).
    destruct (rval (de_datetime (strip s))) as [d|]; [|reflexivity]. cbn [obind]. unfold dt_kind_check.
    destruct (dt_kind_ok k d); reflexivity.
  - (* option *)
    cbn [de_loc de_value]. destruct (opt_overwrite c); [rewrite lval_wrap_always|rewrite lval_wrap];
      rewrite lval_lmap, rval_rmap, (IHt s Ok); reflexivity.
  - (* seq *)
    cbn [de_loc de_value]. rewrite lval_wrap. destruct s as [sp x|sp xs|sp es].
    + cbn [tree_ok] in Ok. cbn [strip]. destruct x; try discriminate; reflexivity.
    + cbn [strip]. rewrite lval_lmap, rval_rmap. f_equal. apply lval_seq_elems; [exact IHt|apply (tree_ok_arr sp); exact Ok].
    + reflexivity.
  - (* tuple *)
    cbn [de_loc de_value]. rewrite lval_wrap. destruct s as [sp x|sp xs|sp es].
    + cbn [tree_ok] in Ok. cbn [strip]. destruct x; try discriminate; reflexivity.
    + cbn [strip]. rewrite lval_lmap, rval_rmap, (lval_pos_elems (de_loc c) (fun t' => t') ts H xs 0 (tree_ok_arr sp xs Ok)).
      destruct (rval (de_pos de_value (fun t' => t') ts (map strip xs))) as [[vs rest]|]; reflexivity.
    + reflexivity.
  - (* map *)
    cbn [de_loc de_value]. rewrite lval_wrap. destruct s as [sp x|sp xs|sp es].
    + cbn [tree_ok] in Ok. cbn [strip]. destruct x; try discriminate; reflexivity.
    + reflexivity.
    + rewrite strip_tab, lval_lmap, rval_rmap. f_equal.
      apply lval_map_entries; [exact IHt2|apply (tree_ok_tab sp es Ok)].
  - (* struct *)
    cbn [de_loc de_value]. destruct (private_name n); [reflexivity|]. rewrite lval_wrap. destruct s as [sp x|sp xs|sp es].
    + cbn [tree_ok] in Ok. cbn [strip]. destruct x; try discriminate; reflexivity.
    + cbn [strip]. rewrite lval_lmap, rval_rmap, (lval_pos_elems (de_loc c) (fun ft => snd ft) fs H xs 0 (tree_ok_arr sp xs Ok)).
      destruct (rval (de_pos de_value (fun ft => snd ft) fs (map strip xs))) as [[vs rest]|]; reflexivity.
    + rewrite strip_tab, lval_lmap, rval_rmap, ND. f_equal. destruct (tree_ok_tab sp es Ok) as [N F].
      apply struct_agree; assumption.
  - (* newtype *)
    cbn [de_loc de_value]. rewrite lval_wrap, lval_lmap, rval_rmap, (IHt s Ok). reflexivity.
  - (* tuple struct *)
    cbn [de_loc de_value]. rewrite lval_wrap. destruct s as [sp x|sp xs|sp es].
    + cbn [tree_ok] in Ok. cbn [strip]. destruct x; try discriminate; reflexivity.
    + cbn [strip]. rewrite lval_lmap, rval_rmap, (lval_pos_elems (de_loc c) (fun t' => t') ts H xs 0 (tree_ok_arr sp xs Ok)).
      destruct (rval (de_pos de_value (fun t' => t') ts (map strip xs))) as [[vs rest]|]; reflexivity.
    + reflexivity.
  - (* enum *)
    cbn [de_loc de_value]. rewrite lval_wrap. destruct s as [sp x|sp xs|sp es].
    + cbn [tree_ok] in Ok. cbn [strip]. destruct x; try discriminate; try reflexivity.
      apply (find_name_agree lval rval); [reflexivity|]. intros j a _. destruct a; reflexivity.
    + reflexivity.
    + rewrite strip_tab. destruct es as [|e [|e' es]]; try reflexivity. cbn [map]. unfold strip_entry at 1.
      change (fst (fst e)) with (en_key e). change (snd e) with (en_val e).
      destruct (tree_ok_tab sp [e] Ok) as [_ F]. inversion F; subst.
      apply (find_name_agree lval rval); [reflexivity|]. intros j var Hin.
      rewrite lval_lmap, rval_rmap, lval_under. f_equal.
      rewrite Forall_forall in H. exact (H (en_key e, var) Hin (en_val e) H2).
  - (* unit variant *)
    cbn [de_payload De.de_payload]. rewrite (empty_agree s Ok). destruct (empty_container (strip s)); reflexivity.
  - (* newtype variant *)
    cbn [de_payload De.de_payload]. rewrite lval_wrap. apply IHt. exact Ok.
  - (* tuple variant *)
    cbn [de_payload De.de_payload]. destruct s as [sp x|sp xs|sp es].
    + cbn [tree_ok] in Ok. cbn [strip]. destruct x; try discriminate; reflexivity.
    + cbn [strip]. rewrite map_length. destruct (Nat.eqb (length xs) (length ts)); [|reflexivity].
      rewrite lval_lmap, rval_rmap. rw_pos H (tree_ok_arr sp xs Ok).
      destruct (rval (de_pos de_value (fun t' => t') ts (map strip xs))) as [[vs rest]|]; reflexivity.
    + rewrite strip_tab. destruct (tree_ok_tab sp es Ok) as [_ F]. rewrite lval_lbind.
      pose proof (index_agree es 0 0%N) as IA. destruct (index_entries 0 0 es) as [xs|] eqn:IE; cbn [lval option_map obind] in *.
      * rewrite <- IA. rewrite map_length. destruct (Nat.eqb (length xs) (length ts)); [|reflexivity].
        rewrite lval_lmap, rval_rmap.
        match goal with
        | |- context [lval (pos_entries ?d ts xs)] =>
          replace (lval (pos_entries d ts xs))
            with (option_map fst (rval (de_pos de_value (fun t' => t') ts (map (fun ie : nat * entry => strip (en_val (snd ie))) xs))))
            by (symmetry; exact (lval_pos_entries _ ts H xs (index_entries_ok es 0 0%N xs IE F)))
        end.
        destruct (rval (de_pos de_value (fun t' => t') ts _)) as [[vs rest]|]; reflexivity.
      * rewrite <- IA. reflexivity.
  - (* struct variant *)
    cbn [de_payload De.de_payload]. destruct s as [sp x|sp xs|sp es].
    + cbn [tree_ok] in Ok. cbn [strip]. destruct x; try discriminate; try reflexivity; rewrite lval_wrap; reflexivity.
    + cbn [strip]. rewrite lval_wrap, lval_lmap, rval_rmap. rw_pos H (tree_ok_arr sp xs Ok).
      destruct (rval (de_pos de_value (fun ft => snd ft) fs (map strip xs))) as [[vs rest]|]; reflexivity.
    + rewrite strip_tab. destruct (tree_ok_tab sp es Ok) as [N F].
      destruct (first_extra_none (map fst fs) es 0) as [E1 E2].
      destruct (first_extra_key (map fst fs) es 0) as [[i e]|].
      * rewrite (E2 _ eq_refl), lval_wrap. reflexivity.
      * rewrite (E1 eq_refl), lval_wrap, lval_lmap, rval_rmap. f_equal. apply struct_agree; assumption.
Qed.
