(* Proofs/StringsRTBasic.v — single-line tokens: basic strings (escaping writer), literal strings
   and bare keys are read back exactly. *)
From TV Require Import Base.Prelude Base.Utf8 Base.Winnow Gen.Consts.
From TV Require Import Model.Trivia Model.Strings Model.Tree Model.Parse Model.Write.
From TV Require Import Proofs.StringsRTDefs Proofs.StringsRTBase Proofs.StringsRTWrite Proofs.StringsRTEsc.
Require Import Lia ZifyBool ZifyN ZifyNat.

(* ---- basic_chars is a content parser ----------------------------------------------------------- *)
Lemma basic_chars_plain c X p d : c <> [] -> forallb plain c = true -> utf8_valid_b c = true -> hstop X ->
  basic_chars (mkIn (c ++ X) p d) = Ok c (after c X p d).
Proof.
  intros Hne Hc Hu HX. unfold basic_chars. apply alt_ok. unfold from_utf8, try_map, take_while1.
  rewrite take_while_yes.
  - rewrite Hu. reflexivity.
  - apply (forallb_impl plain); [apply plain_basic|exact Hc].
  - apply hstop_basic. exact HX.
  - destruct c; [congruence|cbn; lia].
Qed.

Lemma basic_chars_backslash X p d : 
  basic_chars (mkIn (x5c :: X) p d) = escaped (mkIn (x5c :: X) p d).
Proof.
  unfold basic_chars. eapply alt_bt. unfold from_utf8, try_map.
  rewrite take_while1_no; [reflexivity|]. reflexivity.
Qed.

Lemma basic_chars_simple c v X p d : assoc_byte ESCAPE_SIMPLE c = Some v -> esc_letter c ->
  basic_chars (mkIn (x5c :: c :: X) p d) = Ok (utf8_encode v) (after [x5c; c] X p d).
Proof. intros H _. rewrite basic_chars_backslash. apply escaped_simple. exact H. Qed.

Lemma basic_chars_hex b X p d : is_ctrl b = true ->
  basic_chars (mkIn (u_escape b ++ X) p d) = Ok [b] (after (u_escape b) X p d).
Proof.
  intro H. rewrite <- (escaped_hex b X p d H). unfold u_escape. cbn [app]. apply basic_chars_backslash.
Qed.

Lemma basic_chars_quote r p d : exists e i', basic_chars (mkIn (x22 :: r) p d) = Bt e i'.
Proof.
  unfold basic_chars, alt, from_utf8, try_map. rewrite take_while1_no by reflexivity.
  unfold escaped, preceded, ESCAPE. erewrite bind_bt; [eauto|]. apply byte_no. reflexivity.
Qed.

(* ---- basic_string ---------------------------------------------------------------------------- *)
Definition basic_token (s : bytes) : bytes := x22 :: enc false 0 s ++ [x22].

Lemma basic_string_rt s r p d : utf8_valid_b s = true ->
  basic_string (mkIn (basic_token s ++ r) p d) = Ok s (after (basic_token s) r p d).
Proof.
  intro Hu. unfold basic_token. cbn [app]. rewrite <- app_assoc. cbn [app].
  unfold basic_string, QUOTATION_MARK.
  rewrite (bind_ok _ _ _ _ _ (byte_yes x22 _ p d)).
  assert (Hc : chunks basic_chars (mkIn (enc false 0 s ++ x22 :: r) (p + 1) d)
               = Ok s (after (enc false 0 s) (x22 :: r) (p + 1) d)).
  { unfold chunks. cbn [rest].
    rewrite (content_run false basic_chars basic_chars_plain basic_chars_simple basic_chars_hex
               (fun H => False_ind _ (Bool.diff_false_true H)) (length s) s (x22 :: r) [] (p + 1)%N d); auto.
    - discriminate.
    - cbn. auto.
    - intros. apply basic_chars_quote. }
  rewrite (bind_ok _ _ _ _ _ Hc). unfold after at 1.
  rewrite (bind_ok _ _ _ _ _ (context_ok _ _ _ _ (cut_err_ok _ _ _ _ (byte_yes x22 r _ d)))).
  unfold ret. apply ok_inp; [reflexivity|]. unfold after. apply mkIn_eq; [reflexivity|].
  cbn [length]. rewrite app_length. cbn [length]. lia.
Qed.

(* ---- literal_string -------------------------------------------------------------------------- *)
Definition literal_token (s : bytes) : bytes := x27 :: s ++ [x27].

Lemma literal_string_rt s r p d :
  forallb (in_class LITERAL_CHAR) s = true -> utf8_valid_b s = true ->
  literal_string (mkIn (literal_token s ++ r) p d) = Ok s (after (literal_token s) r p d).
Proof.
  intros Hc Hu. unfold literal_token. cbn [app]. rewrite <- app_assoc. cbn [app].
  unfold literal_string, APOSTROPHE. apply context_ok. unfold from_utf8, try_map.
  rewrite (bind_ok _ _ _ _ _ (byte_yes x27 _ p d)).
  assert (Ht : cut_err (take_while0 (in_class LITERAL_CHAR)) (mkIn (s ++ x27 :: r) (p + 1) d)
               = Ok s (after s (x27 :: r) (p + 1) d)).
  { apply cut_err_ok. unfold take_while0. apply take_while_yes; [exact Hc|reflexivity|lia]. }
  rewrite (bind_ok _ _ _ _ _ Ht). unfold after at 1.
  rewrite (bind_ok _ _ _ _ _ (cut_err_ok _ _ _ _ (byte_yes x27 r _ d))).
  unfold ret. rewrite Hu. apply ok_inp; [reflexivity|]. unfold after. apply mkIn_eq; [reflexivity|].
  cbn [length]. rewrite app_length. cbn [length]. lia.
Qed.

(* ---- bare keys --------------------------------------------------------------------------------- *)
Lemma unquoted_key_rt s r p d : s <> [] -> forallb (in_class UNQUOTED_CHAR) s = true ->
  utf8_valid_b s = true -> stops (in_class UNQUOTED_CHAR) r ->
  unquoted_key (mkIn (s ++ r) p d) = Ok s (after s r p d).
Proof.
  intros Hne Hc Hu Hr. unfold unquoted_key, unchecked_utf8, take_while1.
  rewrite take_while_yes; [rewrite Hu; reflexivity|exact Hc|exact Hr|].
  destruct s; [congruence|cbn; lia].
Qed.

(* ---- simple_key: dispatch on the first byte, with the span of the token ------------------------- *)
Definition key_result (t s : bytes) (p : N) : raw * bytes :=
  (raw_with_span (p, (p + N.of_nat (length t))%N), s).

Lemma simple_key_dispatch (inner : parser bytes) b t' s r p d :
  (if byte_eqb b QUOTATION_MARK then basic_string
   else if byte_eqb b APOSTROPHE then literal_string else unquoted_key) = inner ->
  inner (mkIn ((b :: t') ++ r) p d) = Ok s (after (b :: t') r p d) ->
  simple_key (mkIn ((b :: t') ++ r) p d) = Ok (key_result (b :: t') s p) (after (b :: t') r p d).
Proof.
  intros Hd Hi. unfold simple_key, pmap, with_span, context.
  assert (Hp : peek any (mkIn ((b :: t') ++ r) p d) = Ok b (mkIn ((b :: t') ++ r) p d)).
  { cbn [app]. eapply peek_ok. apply any_cons. }
  rewrite (bind_ok _ _ _ _ _ Hp). rewrite Hd, Hi. reflexivity.
Qed.

Lemma simple_key_basic s r p d : utf8_valid_b s = true ->
  simple_key (mkIn (basic_token s ++ r) p d) = Ok (key_result (basic_token s) s p) (after (basic_token s) r p d).
Proof.
  intro Hu. unfold basic_token. apply (simple_key_dispatch basic_string); [reflexivity|].
  apply (basic_string_rt s r p d Hu).
Qed.

Lemma simple_key_literal s r p d :
  forallb (in_class LITERAL_CHAR) s = true -> utf8_valid_b s = true ->
  simple_key (mkIn (literal_token s ++ r) p d) = Ok (key_result (literal_token s) s p) (after (literal_token s) r p d).
Proof.
  intros Hc Hu. unfold literal_token. apply (simple_key_dispatch literal_string); [reflexivity|].
  apply (literal_string_rt s r p d Hc Hu).
Qed.

Lemma simple_key_unquoted s r p d : s <> [] -> forallb (in_class UNQUOTED_CHAR) s = true ->
  utf8_valid_b s = true -> stops (in_class UNQUOTED_CHAR) r ->
  simple_key (mkIn (s ++ r) p d) = Ok (key_result s s p) (after s r p d).
Proof.
  intros Hne Hc Hu Hr. destruct s as [|b t']; [congruence|].
  apply (simple_key_dispatch unquoted_key).
  - cbn [forallb] in Hc. apply andb_true_iff in Hc as [Hb _]. rewrite <- unquoted_class in Hb.
    destruct (unquoted_not_quote b Hb) as [H1 H2]. unfold QUOTATION_MARK, APOSTROPHE. rewrite H1, H2. reflexivity.
  - apply unquoted_key_rt; assumption.
Qed.
