(* Proofs/SpansHeader.v — C14: a table that has a header of its own has a span, and the span starts at that header.

   For EVERY accepted document, every table of the parsed tree that is not implicit — the root, every table given a
   `[header]`, every element of an array of tables — has a span, and the span starts where a header starts: at a `[`
   of the source text (the root's at offset 0).  This holds wherever the header stands relative to the headers of the
   table's sub-tables: `[a.b]` first makes `a` an implicit table without a span, `[a]` later re-opens THAT table
   (ParseState::start_table takes it out of the tree) and the header's span is set on what was re-opened
   (`start_table_span`); the same when the sub-table is an array of tables (`[[a.b]]` ... `[a]`).  Implicit tables (made
   by longer headers only, or by dotted keys) are the known finding C14-implicit-table-span / have spans by C14_nested.

   Along the parse: the invariant `hsp` over the tree, through descend_path (eng-c01's relational view dctx_rel),
   finalize_table, start_table, start_array_table, on_keyval (+ the span bookkeeping of dotted tables). *)
From TV Require Import Base.Prelude Base.Utf8 Base.Winnow Gen.Consts Spec.Abnf Spec.Lex Spec.Defs Spec.DatetimeSpec Spec.Syntax Spec.WF.
From TV Require Import Model.Trivia Model.Strings Model.Datetime Model.Numbers Model.Tree Model.Parse Model.Document Model.Write Model.Encode.
From TV Require Import Proofs.ConstsOk Proofs.NoPanicBase Proofs.NoPanicLex Proofs.NoPanicValue.
From TV Require Import Proofs.LexEquivBase Proofs.LexEquivTrivia Proofs.LexEquivStrings Proofs.LexEquivKey Proofs.GrammarSep
                       Proofs.GrammarValueSound Proofs.GrammarDocLine Proofs.GrammarDoc
                       Proofs.DefsEquivSim Proofs.PrintBackBase Proofs.PrintBackEnc Proofs.PrintBackSecs Proofs.PrintBackDAll.
From TV Require Proofs.SpansNestState.
From TV Require Import Proofs.WFTree Proofs.WFParseBase Proofs.WFParseValue Proofs.WFParseState Proofs.WFParseDoc.
Require Import Lia NArith.

Section H.
  Variable s : bytes.

  (* a header starts here (the root table "starts" at 0) *)
  Definition hstart (a : N) : Prop := a = 0%N \/ nth_error s (N.to_nat a) = Some x5b.

  (* the table's own flags and span *)
  Definition hflag (t : tbl) : Prop :=
    (t_dotted t = true -> t_implicit t = true)
    /\ (t_implicit t = false -> exists a, span_start t = Some a /\ hstart a).

  (* ... for every table below t *)
  Fixpoint hsp (t : tbl) {struct t} : Prop :=
    match t with
    | Tbl items _ _ _ _ _ =>
      all_P (fun kv => match snd kv with
                       | ITable sub => hflag sub /\ hsp sub
                       | IAot ts _ => all_P (fun e => t_implicit e = false /\ hflag e /\ hsp e) ts
                       | _ => True
                       end) items
    end.
  Definition hentry (kv : key * item) : Prop :=
    match snd kv with
    | ITable sub => hflag sub /\ hsp sub
    | IAot ts _ => all_P (fun e => t_implicit e = false /\ hflag e /\ hsp e) ts
    | _ => True
    end.
  Lemma hsp_eq t : hsp t <-> all_P hentry (t_items t).
  Proof. destruct t; reflexivity. Qed.

  Lemma hflag_frame t t' : hframe t t' -> hflag t -> hflag t'.
  Proof. intros (_ & Hi & Hd & _ & Hs) [H1 H2]. unfold hflag. rewrite Hi, Hd, Hs. split; assumption. Qed.
  Lemma hflag_implicitd d : hflag (implicitd d).
  Proof. split; [reflexivity|discriminate]. Qed.
  Lemma hsp_set_items t m : all_P hentry m -> hsp (t_set_items t m).
  Proof. intro H. destruct t. exact H. Qed.
  Lemma hsp_set_span t sp : hsp (t_set_span t sp) <-> hsp t.
  Proof. destruct t; reflexivity. Qed.

  (* ---- descend_path ---------------------------------------------------------------------------------------------------- *)
  Lemma dctx_hsp d p r r' par par' : dctx_rel d p r r' par par' -> hsp r -> hsp par /\ (hsp par' -> hframe par par' -> hsp r').
  Proof.
    induction 1 as [t t'|t k p sub par par' G Hc IH|t k p k0 sub sub' par par' G Hc IH|t k p k0 ts sp last rinit last' par par' G Er Hc IH]; intro Hr.
    - auto.
    - destruct IH as [H1 H2]; [exact I|]. split; [exact H1|]. intros Hp Hf. apply hsp_set_items. apply hsp_eq in Hr.
      apply all_P_push; [exact Hr|]. split; [apply (hflag_frame _ _ (dctx_hframe _ _ _ _ _ _ Hc Hf)), hflag_implicitd|apply H2; assumption].
    - apply hsp_eq in Hr. pose proof (all_P_get _ _ _ _ _ Hr G) as [Hfl Hs]. cbn [snd] in Hfl, Hs. destruct (IH Hs) as [H1 H2]. split; [exact H1|].
      intros Hp Hf. apply hsp_set_items. apply (all_P_set _ _ _ k0 _ _ Hr G).
      split; [apply (hflag_frame _ _ (dctx_hframe _ _ _ _ _ _ Hc Hf)), Hfl|apply H2; assumption].
    - apply hsp_eq in Hr. pose proof (all_P_get _ _ _ _ _ Hr G) as Hts. unfold hentry in Hts. cbn [snd] in Hts.
      assert (Ets : ts = rev rinit ++ [last]) by (rewrite <- (rev_involutive ts), Er; reflexivity).
      rewrite Ets in Hts. apply all_P_app in Hts as [Hinit [(Hli & Hlf & Hls) _]]. destruct (IH Hls) as [H1 H2]. split; [exact H1|].
      intros Hp Hf. apply hsp_set_items. apply (all_P_set _ _ _ k0 _ _ Hr G). unfold hentry. cbn [snd rev]. apply all_P_app.
      split; [exact Hinit|]. split; [|exact I]. pose proof (dctx_hframe _ _ _ _ _ _ Hc Hf) as Hfr.
      split; [destruct Hfr as (_ & Hi & _); congruence|]. split; [apply (hflag_frame _ _ Hfr), Hlf|apply H2; assumption].
  Qed.

  (* ---- the header's span is the span of what it opens, re-used implicit table or not ------------------------------------ *)
  Lemma start_table_span st path dec sp st' : start_table st path dec sp = COk st' ->
    t_span (st_current st') = Some sp /\ t_implicit (st_current st') = false /\ t_dotted (st_current st') = false.
  Proof.
    unfold start_table. intro H. destruct (negb (tbl_is_empty (st_current st))); [discriminate|]. destruct (st_path st); [|discriminate].
    destruct (pop_key path) as [[ppath k]|]; [|discriminate].
    match type of H with match ?W with _ => _ end = _ => destruct W as [[root' taken_]| |] end; try discriminate.
    injection H as <-. repeat split.
  Qed.
  Lemma start_array_table_span st path dec sp st' : start_array_table st path dec sp = COk st' ->
    t_span (st_current st') = Some sp /\ t_implicit (st_current st') = false /\ t_dotted (st_current st') = false.
  Proof.
    unfold start_array_table. intro H. destruct (negb (tbl_is_empty (st_current st))); [discriminate|]. destruct (st_path st); [|discriminate].
    destruct (pop_key path) as [[ppath k]|]; [|discriminate].
    match type of H with match ?W with _ => _ end = _ => destruct W as [[root' u]| |] end; try discriminate.
    injection H as <-. repeat split.
  Qed.
  Lemma on_header_span arr st path tr sp st' : on_header arr st path tr sp = COk st' ->
    t_span (st_current st') = Some sp /\ t_implicit (st_current st') = false /\ t_dotted (st_current st') = false.
  Proof.
    unfold on_header. intro H. destruct path; [discriminate|]. destruct (finalize_table st) as [st1| |]; try discriminate.
    unfold take_trailing in H. cbv zeta in H. destruct arr; [apply (start_array_table_span _ _ _ _ _ H)|apply (start_table_span _ _ _ _ _ H)].
  Qed.

  (* ---- the state ----------------------------------------------------------------------------------------------------------- *)
  Definition cur_h (cur : tbl) : Prop := t_implicit cur = false /\ hflag cur /\ hsp cur.
  Definition hinv (st : pstate) : Prop :=
    cur_h (st_current st) /\ hsp (st_root st) /\ (st_path st <> [] -> hflag (st_root st)).

  Lemma hflag0 t : t_implicit t = false -> t_dotted t = false -> span_start t = Some 0%N -> hflag t.
  Proof. intros Hi Hd Hs. split; [congruence|]. intros _. exists 0%N. split; [exact Hs|left; reflexivity]. Qed.

  Lemma hinv_new : hinv state_new.
  Proof.
    split; [|split; [exact I|intro H; contradiction]]. split; [reflexivity|]. split; [apply hflag0; reflexivity|exact I].
  Qed.
  Lemma hinv_on_ws st sp : hinv st -> hinv (on_ws st sp).
  Proof. exact (fun H => H). Qed.

  (* finalize_table: the open table goes back into the tree *)
  Lemma finalize_hinv st st' : finalize_table st = COk st' -> hinv st ->
    hsp (st_root st') /\ hflag (st_root st') /\ t_items (st_current st') = [] /\ st_path st' = [].
  Proof.
    intros Hf ((Hci & Hcf & Hcs) & Hr & Hrf). rewrite finalize_table_eq in Hf. destruct (pop_key (st_path st)) as [[ppath k]|] eqn:Ep.
    - assert (Hne : st_path st <> []) by (intro X; rewrite X in Ep; discriminate).
      destruct (with_table_at (st_root st) ppath false ((if st_is_array st then faf else ftf) k (st_current st))) as [[root' u]| |] eqn:E; try discriminate.
      injection Hf as <-. cbn [finalized st_root st_current st_path]. destruct (wta_dctx false _ _ _ _ _ E) as (par & par' & Hfp & Hc).
      destruct (dctx_hsp _ _ _ _ _ _ Hc Hr) as [Hp Hback]. apply hsp_eq in Hp.
      assert (G : hsp par' /\ hframe par par').
      { destruct (st_is_array st).
        - unfold faf in Hfp. destruct (kv_get (t_items par) (k_key k)) as [[k0 it]|] eqn:G.
          + destruct it as [|v|sub|ts sp]; try discriminate. injection Hfp as <-. split; [|apply hframe_set_items]. apply hsp_set_items.
            pose proof (all_P_get _ _ _ _ _ Hp G) as Hts. unfold hentry in Hts. cbn [snd] in Hts.
            apply (all_P_set _ _ _ k0 _ _ Hp G). unfold hentry. cbn [snd]. apply all_P_app. split; [exact Hts|]. split; [auto|exact I].
          + injection Hfp as <-. split; [|apply hframe_set_items]. apply hsp_set_items. apply all_P_push; [exact Hp|]. unfold hentry. cbn [snd all_P]. auto.
        - unfold ftf in Hfp. destruct (kv_get (t_items par) (k_key k)) as [[k0 it]|] eqn:G.
          + destruct it as [|v|sub|ts sp]; try discriminate. destruct (t_implicit sub); [|discriminate]. injection Hfp as <-.
            split; [|apply hframe_set_items]. apply hsp_set_items. apply (all_P_set _ _ _ k0 _ _ Hp G). split; assumption.
          + injection Hfp as <-. split; [|apply hframe_set_items]. apply hsp_set_items. apply all_P_push; [exact Hp|]. split; assumption. }
      destruct G as [Hp' Hfr]. split; [apply Hback; assumption|]. split; [|split; reflexivity].
      apply (hflag_frame _ _ (dctx_hframe _ _ _ _ _ _ Hc Hfr)), Hrf, Hne.
    - destruct (tbl_is_empty (st_root st)); [|discriminate]. injection Hf as <-. cbn [finalized st_root st_current st_path].
      split; [exact Hcs|]. split; [exact Hcf|split; reflexivity].
  Qed.

  Lemma hflag_opened T dec pos sp : hstart (fst sp) -> hflag (Tbl T dec false false pos (Some sp)).
  Proof. intro H. split; [discriminate|]. intros _. exists (fst sp). split; [reflexivity|exact H]. Qed.

  Lemma start_table_hinv st path dec sp st' :
    start_table st path dec sp = COk st' -> hsp (st_root st) -> hflag (st_root st) -> hsp (st_current st) -> hstart (fst sp) -> hinv st'.
  Proof.
    intros H Hr Hrf Hcur Hsp. unfold start_table in H. destruct (negb (tbl_is_empty (st_current st))); [discriminate|].
    destruct (st_path st); [|discriminate]. destruct (pop_key path) as [[ppath k]|]; [|discriminate].
    match type of H with match with_table_at _ _ _ ?f with _ => _ end = _ => set (F := f) in * end.
    destruct (with_table_at (st_root st) ppath false F) as [[root' taken_]| |] eqn:E; try discriminate. injection H as <-.
    destruct (wta_dctx false _ _ _ _ _ E) as (par & par' & Hfp & Hc). destruct (dctx_hsp _ _ _ _ _ _ Hc Hr) as [Hp Hback]. unfold F in Hfp.
    unfold hinv, open_table, cur_h. cbn [st_root st_current st_path t_implicit].
    assert (G : hsp par' /\ hframe par par' /\ hsp (match taken_ with Some t => t | None => st_current st end)).
    { destruct (kv_get (t_items par) (k_key k)) as [[k0 it]|] eqn:G.
      - destruct it as [|v|t|ts asp]; try discriminate. destruct (t_implicit t && negb (t_dotted t)); [|discriminate]. injection Hfp as <- <-.
        apply hsp_eq in Hp. pose proof (all_P_get _ _ _ _ _ Hp G) as [_ Ht]. cbn [snd] in Ht.
        split; [apply hsp_set_items, all_P_remove, Hp|]. split; [apply hframe_set_items|exact Ht].
      - injection Hfp as <- <-. split; [exact Hp|]. split; [apply hframe_refl|exact Hcur]. }
    destruct G as (Hp' & Hfr & Htk). split; [split; [reflexivity|split; [apply hflag_opened, Hsp|]]|split; [apply Hback; assumption|]].
    - apply hsp_eq. cbn [t_items]. apply hsp_eq, Htk.
    - intros _. apply (hflag_frame _ _ (dctx_hframe _ _ _ _ _ _ Hc Hfr)), Hrf.
  Qed.

  Lemma start_array_table_hinv st path dec sp st' :
    start_array_table st path dec sp = COk st' -> hsp (st_root st) -> hflag (st_root st) -> hsp (st_current st) -> hstart (fst sp) -> hinv st'.
  Proof.
    intros H Hr Hrf Hcur Hsp. unfold start_array_table in H. destruct (negb (tbl_is_empty (st_current st))); [discriminate|].
    destruct (st_path st); [|discriminate]. destruct (pop_key path) as [[ppath k]|]; [|discriminate].
    match type of H with match with_table_at _ _ _ ?f with _ => _ end = _ => set (F := f) in * end.
    destruct (with_table_at (st_root st) ppath false F) as [[root' u]| |] eqn:E; try discriminate. injection H as <-.
    destruct (wta_dctx false _ _ _ _ _ E) as (par & par' & Hfp & Hc). destruct (dctx_hsp _ _ _ _ _ _ Hc Hr) as [Hp Hback]. unfold F in Hfp.
    unfold hinv, open_table, cur_h. cbn [st_root st_current st_path t_implicit].
    assert (G : hsp par' /\ hframe par par').
    { destruct (kv_get (t_items par) (k_key k)) as [[k0 it]|] eqn:G.
      - destruct it as [|v|t|ts asp]; try discriminate. injection Hfp as <-. split; [exact Hp|apply hframe_refl].
      - injection Hfp as <-. split; [|apply hframe_set_items]. apply hsp_set_items. apply hsp_eq in Hp. apply all_P_push; [exact Hp|exact I]. }
    destruct G as (Hp' & Hfr). split; [split; [reflexivity|split; [apply hflag_opened, Hsp|]]|split; [apply Hback; assumption|]].
    - apply hsp_eq. cbn [t_items]. apply hsp_eq, Hcur.
    - intros _. apply (hflag_frame _ _ (dctx_hframe _ _ _ _ _ _ Hc Hfr)), Hrf.
  Qed.

  Lemma on_header_hinv arr st path tr sp st' : on_header arr st path tr sp = COk st' -> hinv st -> hstart (fst sp) -> hinv st'.
  Proof.
    intros H Hi Hsp. unfold on_header in H. destruct path as [|k1 p1]; [discriminate|]. destruct (finalize_table st) as [st1| |] eqn:Ef; try discriminate.
    destruct (finalize_hinv st st1 Ef Hi) as (Hr1 & Hrf1 & Hc1 & _). unfold take_trailing in H. cbv zeta in H.
    assert (Hcur1 : hsp (st_current st1)) by (apply hsp_eq; rewrite Hc1; exact I).
    destruct arr; [apply (start_array_table_hinv _ _ _ _ _ H)|apply (start_table_hinv _ _ _ _ _ H)]; assumption.
  Qed.

  (* ---- key/value lines ------------------------------------------------------------------------------------------------------ *)
  Lemma sds_hsp : forall path t e, hsp t -> hsp (set_dotted_spans t path e).
  Proof.
    induction path as [|k ptl IH]; intros t e Ht; [exact Ht|]. cbn [set_dotted_spans].
    destruct (kv_get (t_items t) (k_key k)) as [[k0 it]|] eqn:G; [|exact Ht]. destruct it as [|v0|sub|ts asp]; try exact Ht.
    apply hsp_eq in Ht. pose proof (all_P_get _ _ _ _ _ Ht G) as [[Hd Hs] Hsub]. cbn [snd] in Hd, Hs, Hsub.
    apply hsp_set_items. apply (all_P_set _ _ _ k0 _ _ Ht G). unfold hentry. cbn [snd].
    match goal with |- context [set_dotted_spans ?S1 ptl e] => set (sub1 := S1) end.
    assert (Hfl : hflag sub) by (split; assumption).
    assert (F : hflag sub1 /\ hsp sub1).
    { subst sub1. destruct (t_dotted sub) eqn:Ed; [|split; [exact Hfl|exact Hsub]].
      destruct (key_span k); [|split; [exact Hfl|exact Hsub]]. destruct e; [|split; [exact Hfl|exact Hsub]].
      split; [|apply hsp_set_span, Hsub]. pose proof (Hd eq_refl) as Hi. destruct sub as [m d0 im dt q ssp]. cbn in *. subst. split; [reflexivity|discriminate]. }
    destruct F as [[F1 F2] F3]. destruct (SpansNestState.sds_props ptl sub1 e) as (P1 & P2 & P3).
    split; [|apply IH, F3]. unfold hflag, span_start. rewrite P1, P2, P3. split; assumption.
  Qed.

  Lemma hframe_trans a b c : hframe a b -> hframe b c -> hframe a c.
  Proof. intros (A1 & A2 & A3 & A4 & A5) (B1 & B2 & B3 & B4 & B5). repeat split; congruence. Qed.

  Lemma on_keyval_hsp st path k v st' : on_keyval st path k (IValue v) = COk st' -> hsp (st_current st) ->
    hsp (st_current st') /\ hframe (st_current st) (st_current st') /\ st_root st' = st_root st /\ st_path st' = st_path st.
  Proof.
    unfold on_keyval. cbv zeta. intros H Hc.
    match type of H with context [kv_push _ ?K (IValue v)] => set (k' := K) in * end.
    match type of H with context [with_table_at ?c path true ?F] => set (cur0 := c) in *; set (f := F) in * end.
    assert (Hc0 : hsp cur0 /\ hframe (st_current st) cur0).
    { subst cur0. destruct (t_span (st_current st)) as [e|] eqn:Es; [|split; [exact Hc|apply hframe_refl]].
      destruct (item_span (IValue v)) as [vs|]; [|split; [exact Hc|apply hframe_refl]]. split; [apply hsp_set_span, Hc|].
      unfold hframe, span_start. rewrite Es. destruct (st_current st); repeat split. }
    destruct Hc0 as [Hc0 Hf0].
    destruct (with_table_at cur0 path true f) as [[cur' u]| |] eqn:E; try discriminate. injection H as <-. cbn [st_current st_root st_path].
    destruct (wta_dctx true _ _ _ _ _ E) as (par & par' & Hfp & Hctx). destruct (dctx_hsp _ _ _ _ _ _ Hctx Hc0) as [Hp Hback].
    subst f. cbv beta in Hfp. destruct (Bool.eqb (t_dotted par) _); [discriminate|]. destruct (kv_get (t_items par) (k_key k')); [discriminate|].
    injection Hfp as <- _. split; [|split; [|split; reflexivity]].
    - apply Hback; [|apply hframe_set_items]. apply hsp_set_items. apply hsp_eq in Hp. apply all_P_push; [exact Hp|exact I].
    - apply (hframe_trans _ _ _ Hf0). apply (dctx_hframe _ _ _ _ _ _ Hctx), hframe_set_items.
  Qed.

  Lemma on_keyval_sp_hinv st path k v st' : on_keyval_sp st path k (IValue v) = COk st' -> hinv st -> hinv st'.
  Proof.
    intros H ((Hci & Hcf & Hcs) & Hr & Hrf).
    unfold on_keyval_sp in H. destruct (on_keyval st path k (IValue v)) as [st0| |] eqn:Eo; try discriminate. injection H as <-.
    destruct (on_keyval_hsp st path k v st0 Eo Hcs) as (Hs0 & Hfr & E1 & E2). unfold hinv, cur_h. cbn [st_root st_current st_path].
    destruct (SpansNestState.sds_props path (st_current st0) (item_end (IValue v))) as (P1 & P2 & P3).
    split; [|split; [rewrite E1; exact Hr|rewrite E1, E2; exact Hrf]].
    split; [rewrite P3; destruct Hfr as (_ & Hi & _); congruence|]. split; [|apply sds_hsp, Hs0].
    pose proof (hflag_frame _ _ Hfr Hcf) as [F1 F2]. unfold hflag, span_start. rewrite P1, P2, P3. split; assumption.
  Qed.

  (* ---- the document loop ---------------------------------------------------------------------------------------------------- *)
  Lemma isrc_head i b r : isrc s i -> rest i = b :: r -> nth_error s (N.to_nat (pos i)) = Some b.
  Proof.
    intros (p & Es & Ep) R. rewrite Es, R, Ep, Nnat.Nat2N.id. rewrite nth_error_app2 by lia. rewrite Nat.sub_diag. reflexivity.
  Qed.

  Lemma keyval_h st i st1 i1 : keyval st i = Ok st1 i1 -> hinv st -> hinv st1.
  Proof.
    unfold keyval. intros H Hh. apply try_map_inv in H as ([path [k it]] & H & Hst).
    rewrite GrammarDocLine.parse_keyval_unfold in H. apply bind_inv in H as (kp & j1 & _ & H).
    apply bind_inv in H as ([[pre v] suf] & j2 & _ & H).
    destruct (pop_key kp) as [[pth kk0]|]; [|discriminate]. apply ret_inv in H as [E _]. injection E as <- <- ->.
    destruct (on_keyval_sp st path k _) as [st'| |] eqn:Eo; try discriminate. cbn [lift_state] in Hst. injection Hst as <-.
    apply (on_keyval_sp_hinv _ _ _ _ _ Eo Hh).
  Qed.

  Lemma header_h arr st i st1 i1 : header arr st i = Ok st1 i1 -> isrc s i -> hinv st -> hinv st1.
  Proof.
    rewrite header_unfold. intros H Hi Hh. apply try_map_inv in H as ([[kp sp] tr] & H & Hst).
    unfold header_text, pair_ in H. apply bind_inv in H as ([kp0 sp0] & j1 & H1 & H).
    apply bind_inv in H as (tr0 & j2 & _ & H). apply ret_inv in H as [E ->]. injection E as <- <- <-.
    apply with_span_inv in H1 as (kp1 & H1 & E). injection E as <- ->.
    unfold delimited in H1. apply bind_inv in H1 as (u & k1 & Eo & _). apply open_p_inv in Eo. destruct Eo as [R _].
    destruct (on_header arr st kp tr (pos i, pos j1)) as [st'| |] eqn:Eh; try discriminate. cbn [lift_state] in Hst. injection Hst as <-.
    apply (on_header_hinv arr st kp tr _ st' Eh Hh). cbn [fst]. right.
    apply (isrc_head i x5b (tl (topen arr) ++ rest k1) Hi). rewrite R. destruct arr; reflexivity.
  Qed.

  Lemma line_p_h st b i st1 i1 : line_p st b i = Ok st1 i1 -> isrc s i -> hinv st -> hinv st1.
  Proof.
    unfold line_p. intros H Hi Hh.
    destruct (byte_eqb b COMMENT_START_SYMBOL).
    { apply cut_err_inv in H. unfold parse_comment in H. apply pmap_inv in H as (sp & _ & ->). apply hinv_on_ws, Hh. }
    destruct (byte_eqb b STD_TABLE_OPEN).
    { apply cut_err_inv, table_inv in H as (arr & H). apply (header_h _ _ _ _ _ H Hi Hh). }
    destruct (byte_eqb b LF || byte_eqb b CR).
    { unfold parse_newline in H. apply pmap_inv in H as (sp & _ & ->). apply hinv_on_ws, Hh. }
    apply cut_err_inv in H. apply (keyval_h _ _ _ _ H Hh).
  Qed.

  Lemma doc_line_h st i st1 i1 : doc_line st i = Ok st1 i1 -> isrc s i -> hinv st -> hinv st1.
  Proof.
    rewrite doc_line_unfold. intros H Hi Hh. apply bind_inv in H as (b & j & H1 & H). apply peek_inv in H1 as [-> _].
    apply bind_inv in H as (st0 & j1 & H2 & H3). unfold parse_ws in H3. apply pmap_inv in H3 as (sp & _ & ->).
    apply hinv_on_ws, (line_p_h _ _ _ _ _ H2 Hi Hh).
  Qed.

  Lemma doc_loop_h : forall fuel st i st' i', doc_loop fuel st i = Ok st' i' -> pinv s st i -> hinv st -> hinv st'.
  Proof.
    induction fuel as [|f IH]; intros st i st' i' H HP Hh; [discriminate|]. cbn [doc_loop] in H.
    destruct (doc_line st i) as [st1 i1|e j|e j|x] eqn:E; try discriminate.
    - destruct (Nat.eqb (length (rest i1)) (length (rest i))); [discriminate|].
      apply (IH _ _ _ _ H (doc_line_pinv s st i st1 i1 E HP)). destruct HP as (_ & Hi & _). apply (doc_line_h _ _ _ _ E Hi Hh).
    - injection H as <- <-. exact Hh.
  Qed.

  (* every table of the document that is not implicit has a span starting at a header *)
  Definition header_spans (root : tbl) : Prop := hflag root /\ hsp root.

  Theorem parsed_header_spans d : parse_document s = POk d -> header_spans (doc_root d).
  Proof.
    unfold parse_document, parse_all. intro H.
    destruct ((a <- document ;; eof ;;; ret a) (new_input s)) as [st i|e j|e j|x] eqn:E; try discriminate.
    destruct (finalize_table st) as [st'| |] eqn:Ef; try discriminate. injection H as <-. cbn [doc_root].
    apply bind_inv in E as (st0 & i0 & E & E'). apply bind_inv in E' as (u0 & i0' & _ & E'). apply ret_inv in E' as [-> _].
    rewrite document_unfold in E.
    apply bind_inv in E as (o & i1 & Eb & E). apply bind_inv in E as (stw & i2 & Ew & E).
    apply bind_inv in E as (stl & i3 & El & E). apply bind_inv in E as (u & i4 & _ & E). apply ret_inv in E as [-> _].
    assert (Hi1 : isrc s i1 /\ depth i1 = 0).
    { apply opt_inv in Eb as [(x & _ & Eb) | (_ & -> & _)]; [|split; [apply isrc_new|reflexivity]].
      apply lit_inv in Eb as [_ Sb]. split; [apply (isrc_splits s _ _ _ (isrc_new s) Sb)|rewrite (WFParseValue.splits_depth _ _ _ Sb); reflexivity]. }
    destruct Hi1 as [Hi1 D1].
    assert (HP2 : pinv s stw i2 /\ hinv stw).
    { unfold parse_ws in Ew. apply pmap_inv in Ew as (sp & Ew & ->). split; [|apply hinv_on_ws, hinv_new].
      pose proof Ew as Ew'. apply span_inv in Ew' as (uu & _ & Esp).
      apply span_ws_inv in Ew as (w & Hw & Sw & _). destruct (isrc_splits s i1 _ i2 Hi1 Sw) as [Hi2 _].
      split; [apply sinv_on_ws, sinv_new|]. split; [exact Hi2|]. split; [rewrite (WFParseValue.splits_depth _ _ _ Sw); exact D1|].
      apply (trail_on_ws s state_new i1 sp w i2 (trail_none s state_new i1 Hi1 eq_refl) Sw Esp). intros _ t Ht. left. apply tr_ws; assumption. }
    destruct HP2 as [HP2 Hh2]. pose proof (doc_loop_h _ _ _ _ _ El HP2 Hh2) as Hhl.
    destruct (finalize_hinv stl st' Ef Hhl) as (Hr & Hrf & _). split; assumption.
  Qed.
End H.

(* ---- read off: any non-implicit table anywhere in the tree ------------------------------------------------------------------ *)
Inductive in_tree : tbl -> tbl -> Prop :=
| it_here t : in_tree t t
| it_table t k sub u : In (k, ITable sub) (t_items t) -> in_tree sub u -> in_tree t u
| it_aot t k ts sp e u : In (k, IAot ts sp) (t_items t) -> In e ts -> in_tree e u -> in_tree t u.

Lemma header_spans_in s root : header_spans s root -> forall u, in_tree root u -> hflag s u /\ hsp s u.
Proof.
  intros H u Hin. induction Hin as [t|t k sub u Hk _ IH|t k ts sp e u Hk He _ IH]; [exact H|apply IH|apply IH].
  - destruct H as [_ H]. apply hsp_eq in H. exact (all_P_In _ _ _ H Hk).
  - destruct H as [_ H]. apply hsp_eq in H. pose proof (all_P_In _ _ _ H Hk) as Hts. unfold hentry in Hts. cbn [snd] in Hts.
    destruct (all_P_In _ _ _ Hts He) as (_ & H1 & H2). split; assumption.
Qed.

(* THE statement: in every accepted document, a table that is not implicit — it has a header of its own, is an element of an
   array of tables, or is the root — has a span, and the span starts at a `[` of the text (the root's at 0) *)
Theorem explicit_table_span s d u : parse_document s = POk d -> in_tree (doc_root d) u -> t_implicit u = false ->
  exists a b, t_span u = Some (a, b) /\ (a = 0%N \/ nth_error s (N.to_nat a) = Some x5b).
Proof.
  intros Hp Hin Hi. destruct (header_spans_in s _ (parsed_header_spans s d Hp) u Hin) as [[_ Hf] _].
  destruct (Hf Hi) as (a & Hs & Ha). unfold span_start in Hs. destruct (t_span u) as [[a0 b0]|]; [|discriminate]. injection Hs as <-.
  exists a0, b0. split; [reflexivity|exact Ha].
Qed.

(* elements of arrays of tables are never implicit *)
Theorem aot_element_span s d t k ts sp e : parse_document s = POk d -> in_tree (doc_root d) t -> In (k, IAot ts sp) (t_items t) -> In e ts ->
  t_implicit e = false /\ exists a b, t_span e = Some (a, b) /\ (a = 0%N \/ nth_error s (N.to_nat a) = Some x5b).
Proof.
  intros Hp Hin Hk He. destruct (header_spans_in s _ (parsed_header_spans s d Hp) t Hin) as [_ Ht]. apply hsp_eq in Ht.
  pose proof (all_P_In _ _ _ Ht Hk) as Hts. unfold hentry in Hts. cbn [snd] in Hts. destruct (all_P_In _ _ _ Hts He) as (Hi & [_ Hf] & _).
  split; [exact Hi|]. destruct (Hf Hi) as (a & Hs & Ha). unfold span_start in Hs. destruct (t_span e) as [[a0 b0]|]; [|discriminate]. injection Hs as <-.
  exists a0, b0. split; [reflexivity|exact Ha].
Qed.
