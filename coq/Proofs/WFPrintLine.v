(* Proofs/WFPrintLine.v — WF backbone: the lines Display writes are expressions of the grammar.
     tail_tok t l     t is a TOML text making the statements l, also after more blanks in front of it (what can
                      follow a line break);
   a `key = value` line and a `[header]` / `[[header]]` line of a well-formed tree, each with the comment and blank
   lines its decor carries in front of it, put in front of such a text give such a text; the document's trailing
   text is one.  No such text starts with a byte-order mark. *)
From TV Require Import Base.Prelude Base.Utf8 Base.Winnow Gen.Consts Spec.Abnf Spec.Lex Spec.Defs Spec.DatetimeSpec Spec.Syntax Spec.WF.
From TV Require Import Model.Datetime Model.Numbers Model.Tree Model.Parse Model.Write Model.Encode.
From TV Require Import Proofs.LexEquivBase Proofs.LexEquivKey Proofs.GrammarBase Proofs.SpansBase.
From TV Require Import Proofs.WFTok Proofs.WFPrintKey Proofs.WFPrintFlat Proofs.WFPrintValue.
Require Import Lia.

Definition tail_tok (t : bytes) (l : list astmt) : Prop := forall w, ws_tok w -> toml_tok (w ++ t) l.

Lemma tail_toml t l : tail_tok t l -> toml_tok t l.
Proof. intro H. exact (H [] ws_nil). Qed.

Lemma tail_doc_trail d : doc_trail_tok d -> tail_tok d [].
Proof.
  induction 1 as [t (w' & c & -> & Hw' & Hc)|w' c t Hw' Hc Ht IH]; intros w Hw.
  - rewrite app_assoc. apply toml_one. apply ex_blank; [apply ws_app; assumption|exact Hc].
  - replace (w ++ w' ++ c ++ [x0a] ++ t) with (((w ++ w') ++ c) ++ [x0a] ++ t) by (rewrite <- !app_assoc; reflexivity).
    change (@nil astmt) with (@nil astmt ++ []). apply toml_more; [apply ex_blank; [apply ws_app; assumption|exact Hc]|left; reflexivity|].
    exact (IH [] ws_nil).
Qed.

Lemma tail_lines L t l : lines_tok L -> tail_tok t l -> tail_tok (L ++ t) l.
Proof.
  intros HL Ht. induction HL as [w' Hw'|w' c rest Hw' Hc Hrest IH]; intros w Hw.
  - rewrite app_assoc. apply Ht. apply ws_app; assumption.
  - replace (w ++ (w' ++ c ++ [x0a] ++ rest) ++ t) with (((w ++ w') ++ c) ++ [x0a] ++ (rest ++ t)) by (rewrite <- !app_assoc; reflexivity).
    change l with ([] ++ l). apply toml_more; [apply ex_blank; [apply ws_app; assumption|exact Hc]|left; reflexivity|].
    exact (IH [] ws_nil).
Qed.

Lemma tail_stmt e s t l : (forall w, ws_tok w -> expression_tok (w ++ e) [s]) -> tail_tok t l -> tail_tok (e ++ [x0a] ++ t) (s :: l).
Proof.
  intros He Ht w Hw. rewrite app_assoc. change (s :: l) with ([s] ++ l). apply toml_more; [apply He, Hw|left; reflexivity|].
  exact (Ht [] ws_nil).
Qed.

(* ---- a key/value line ------------------------------------------------------------------------------------------------- *)
Definition entry_text (kp : list key) (v : value) : bytes :=
  encode_key_path kp DEFAULT_KEY_DECOR ++ [x3d] ++ encode_value (S (value_size v)) v DEFAULT_VALUE_DECOR ++ [x0a].

(* what holds of every line of a well-formed section *)
Definition line_ok (kp : list key) (v : value) : Prop :=
  kp <> [] /\ Forall (key_wf true) kp /\ value_wf CLine v /\ value_lim 0 v /\ length kp < LIMIT.

Lemma key_wf_mids line ks : Forall (key_wf line) ks -> Forall key_mid ks.
Proof. intro H. eapply Forall_impl; [|exact H]. intros k Hk. exact (key_wf_mid line k Hk). Qed.

Lemma entry_tail kp v rest l :
  line_ok kp v -> tail_tok rest l ->
  exists a, tail_tok (entry_text kp v ++ rest) (SKeyVal (ktexts kp) a :: l)
            /\ den a = absv v /\ aval_ok a = true /\ within 0 a = true.
Proof.
  intros (Hne & Hks & Hv & Hl & Hlen) Hrest.
  destruct (encode_key_path_shape kp DEFAULT_KEY_DECOR Hne (key_wf_mids _ _ Hks)) as (last & K & Hin & _ & _ & EK & TK).
  destruct (value_derivation v CLine 0 DEFAULT_VALUE_DECOR Hv Hl dflt_value) as (p & t & s & a & EV & Hp & Hs & Tv & Hd & Ha & Hw).
  exists a. split; [|auto]. rewrite Forall_forall in Hks. destruct (Hks last Hin) as (_ & _ & [Hlp Hls]).
  cbn [pre_slot suf_slot slot_ok] in Hp, Hs. destruct Hs as (w2 & c & -> & Hw2 & Hc).
  unfold entry_text. rewrite EK, EV.
  replace (((decor_prefix (k_leaf last) (fst DEFAULT_KEY_DECOR) ++ K ++ decor_suffix (k_leaf last) (snd DEFAULT_KEY_DECOR))
           ++ [x3d] ++ (p ++ t ++ w2 ++ c) ++ [x0a]) ++ rest)
    with (decor_prefix (k_leaf last) (fst DEFAULT_KEY_DECOR)
          ++ ((K ++ decor_suffix (k_leaf last) (snd DEFAULT_KEY_DECOR) ++ [x3d] ++ p ++ t) ++ w2 ++ c) ++ [x0a] ++ rest)
    by (rewrite <- !app_assoc; reflexivity).
  apply tail_lines; [apply (decor_prefix_ok SLines); [exact Hlp|apply ln_last; reflexivity]|].
  apply tail_stmt; [|exact Hrest]. intros w Hw0. apply ex_keyval; [exact Hw0| |exact Hw2|exact Hc].
  exists K, (decor_suffix (k_leaf last) (snd DEFAULT_KEY_DECOR)), p, t. split; [reflexivity|]. split; [exact TK|].
  split; [apply (decor_suffix_ok SWs); [exact Hls|reflexivity]|]. split; [exact Hp|exact Tv].
Qed.

(* the lines of a section *)
Lemma entries_tail : forall L rest l,
  Forall (fun pv => line_ok (fst pv) (snd pv)) L -> tail_tok rest l ->
  exists ls, tail_tok (flat_map (fun pv => entry_text (fst pv) (snd pv)) L ++ rest) (ls ++ l)
             /\ map stmt_den ls = map (fun pv => SKeyVal (ktexts (fst pv)) (absv (snd pv))) L
             /\ forallb stmt_ok ls = true /\ within_limits ls = true.
Proof.
  induction L as [|[kp v] L IH]; intros rest l HL Hrest.
  - exists []. repeat split; auto.
  - inversion HL as [|? ? H1 H2]; subst. destruct (IH rest l H2 Hrest) as (ls & Hls & Eden & Hok & Hlim).
    cbn [fst snd] in H1. destruct (entry_tail kp v _ _ H1 Hls) as (a & Ha & Hd & Hao & Hw).
    exists (SKeyVal (ktexts kp) a :: ls). cbn [flat_map fst snd map app stmt_den]. rewrite <- app_assoc. split; [exact Ha|].
    split; [rewrite Hd, Eden; reflexivity|]. split; [cbn [forallb stmt_ok]; rewrite Hao, Hok; reflexivity|].
    unfold within_limits in *. cbn [forallb stmt_within]. rewrite Hw, Hlim.
    destruct H1 as (_ & _ & _ & _ & Hlen). unfold ktexts. rewrite map_length. apply Nat.ltb_lt in Hlen. rewrite Hlen. reflexivity.
Qed.

(* ---- a header line ----------------------------------------------------------------------------------------------------- *)
Definition header_text (hp : list key) (d : decor) (arr first : bool) : bytes :=
  let default := if first then ([], snd DEFAULT_TABLE_DECOR) else DEFAULT_TABLE_DECOR in
  decor_prefix d (fst default) ++ encode_key_comments hp ++ (if arr then [x5b; x5b] else [x5b])
  ++ encode_header_key_path hp DEFAULT_KEY_PATH_DECOR ++ (if arr then [x5d; x5d] else [x5d])
  ++ decor_suffix d (snd default) ++ [x0a].

Lemma oraw_ok_plain sl o : oraw_ok sl o -> match o with Some (RSpanned _ _) => False | _ => True end.
Proof. destruct o as [[| |]|]; cbn; auto. Qed.

Lemma header_tail hp d arr first rest l :
  hp <> [] -> Forall (key_wf true) hp -> decor_ok SLines SLineTrail d -> length hp < LIMIT ->
  tail_tok rest l ->
  tail_tok (header_text hp d arr first ++ rest) ((if arr then SArrHeader (ktexts hp) else SHeader (ktexts hp)) :: l).
Proof.
  intros Hne Hks [Hdp Hds] Hlen Hrest.
  destruct (encode_header_key_path_shape hp DEFAULT_KEY_PATH_DECOR Hne (key_wf_mids _ _ Hks)) as (last & K & Hlast & EK & TK).
  assert (Hin : In last hp).
  { apply in_rev. destruct (rev hp) as [|x tl]; [discriminate|]. cbn in Hlast. inversion Hlast; subst. left; reflexivity. }
  rewrite Forall_forall in Hks. destruct (Hks last Hin) as (_ & _ & [Hlp Hls]).
  set (dflt := if first then ([], snd DEFAULT_TABLE_DECOR) else DEFAULT_TABLE_DECOR).
  assert (Hpre : lines_tok (decor_prefix d (fst dflt))).
  { apply (decor_prefix_ok SLines); [exact Hdp|]. subst dflt. destruct first; cbn [fst DEFAULT_TABLE_DECOR].
    - apply ln_last; reflexivity.
    - apply (ln_more [] [] []); [reflexivity|left; reflexivity|apply ln_last; reflexivity]. }
  assert (Hsuf : line_trail_tok (decor_suffix d (snd dflt))).
  { apply (decor_suffix_ok SLineTrail); [exact Hds|]. subst dflt. destruct first; cbn [snd DEFAULT_TABLE_DECOR]; apply ws_line_trail; reflexivity. }
  destruct Hsuf as (w2 & c & Es & Hw2 & Hc).
  pose (open_ := if arr then [x5b; x5b] else [x5b]). pose (close_ := if arr then [x5d; x5d] else [x5d]).
  pose (kc := if raw_blank (d_prefix (k_leaf last)) then [] else decor_prefix (k_leaf last) []).
  pose (w1 := if raw_blank (d_prefix (k_leaf last)) then decor_prefix (k_leaf last) (fst DEFAULT_KEY_PATH_DECOR) else fst DEFAULT_KEY_PATH_DECOR).
  pose (ws2 := decor_suffix (k_leaf last) (snd DEFAULT_KEY_PATH_DECOR)).
  assert (E : header_text hp d arr first ++ rest
              = decor_prefix d (fst dflt) ++ kc ++ ((open_ ++ w1 ++ K ++ ws2 ++ close_) ++ w2 ++ c) ++ [x0a] ++ rest).
  { unfold header_text. cbv zeta. unfold encode_key_comments. destruct (rev hp) as [|last' tl] eqn:R; [discriminate|].
    cbn in Hlast. inversion Hlast; subst last'. rewrite EK. fold dflt. rewrite Es. subst open_ close_ kc w1 ws2.
    rewrite <- !app_assoc. reflexivity. }
  rewrite E. clear E.
  assert (Hw1 : ws_tok w1).
  { subst w1. destruct (raw_blank (d_prefix (k_leaf last))) eqn:B; [|reflexivity].
    apply blank_prefix_ws; [exact B|reflexivity|apply (oraw_ok_plain SLines), Hlp]. }
  assert (Hws2 : ws_tok ws2) by (apply (decor_suffix_ok SWs); [exact Hls|reflexivity]).
  assert (Hkc : lines_tok kc).
  { subst kc. destruct (raw_blank (d_prefix (k_leaf last))); [apply ln_last; reflexivity|].
    apply (decor_prefix_ok SLines); [exact Hlp|apply ln_last; reflexivity]. }
  apply tail_lines; [exact Hpre|]. apply tail_lines; [exact Hkc|]. apply tail_stmt; [|exact Hrest].
  intros w Hw0. subst open_ close_. destruct arr.
  - apply ex_array_table; [exact Hw0| |exact Hw2|exact Hc]. exists w1, K, ws2. rewrite <- ?app_assoc. auto.
  - apply ex_std_table; [exact Hw0| |exact Hw2|exact Hc]. exists w1, K, ws2. rewrite <- ?app_assoc. auto.
Qed.

(* ---- no byte-order mark -------------------------------------------------------------------------------------------------- *)
Definition head_ne (t : bytes) : Prop := match t with b :: _ => b <> xef | [] => True end.
Lemma head_ne_app a b : head_ne a -> (a = [] -> head_ne b) -> head_ne (a ++ b).
Proof. destruct a; cbn; auto. Qed.
Lemma ws_head w : ws_tok w -> head_ne w.
Proof.
  destruct w as [|b w]; [exact (fun _ => I)|]. unfold ws_tok, all. cbn [forallb head_ne]. intros H ->. discriminate.
Qed.
Lemma opt_comment_head c : opt_comment c -> head_ne c.
Proof. intros [->|(u & -> & _)]; cbn; [exact I|discriminate]. Qed.
Lemma simple_key_head t k : simple_key_tok t k -> t <> [] /\ head_ne t.
Proof.
  intros [(_ & body & -> & _) | [(_ & body & -> & _) | [[Hne Ha] _]]].
  - split; cbn; discriminate.
  - split; cbn; discriminate.
  - split; [exact Hne|]. destruct t as [|b t']; [exact I|]. unfold all in Ha. cbn [forallb] in Ha. apply andb_true_iff in Ha as [Hb _].
    cbn. intros ->. discriminate.
Qed.
Lemma key_head t ks : key_tok t ks -> t <> [] /\ head_ne t.
Proof.
  intros [t0 k H | t0 k w1 w2 u ks0 H _ _ _]; destruct (simple_key_head _ _ H) as [Hne Hh]; [auto|].
  split; [destruct t0; [congruence|discriminate]|apply head_ne_app; [exact Hh|congruence]].
Qed.
Lemma expression_head e l : expression_tok e l -> head_ne e.
Proof.
  intros [w c Hw Hc|w t p a w2 c Hw (k & w1 & w3 & v & -> & Hk & _) _ _|w t p w2 c Hw (w1 & k & w3 & -> & _) _ _|w t p w2 c Hw (w1 & k & w3 & -> & _) _ _].
  - apply head_ne_app; [apply ws_head, Hw|intros _; apply opt_comment_head, Hc].
  - apply head_ne_app; [apply ws_head, Hw|intros _]. destruct (key_head _ _ Hk) as [Hne Hh]. rewrite <- !app_assoc.
    apply head_ne_app; [exact Hh|congruence].
  - apply head_ne_app; [apply ws_head, Hw|intros _]. cbn. discriminate.
  - apply head_ne_app; [apply ws_head, Hw|intros _]. cbn. discriminate.
Qed.
Lemma toml_head t l : toml_tok t l -> head_ne t.
Proof.
  intros [e l0 He|e l0 nl t0 l' He Hnl _]; [apply (expression_head _ _ He)|].
  apply head_ne_app; [apply (expression_head _ _ He)|intros _]. destruct Hnl as [->| ->]; cbn; discriminate.
Qed.
Lemma toml_no_bom t l : toml_tok t l -> toml_text t l.
Proof.
  intro H. unfold toml_text. pose proof (toml_head t l H) as Hh. unfold strip_bom.
  destruct t as [|b0 [|b1 [|b2 r]]]; try exact H. cbn in Hh. destruct (byte_eqb b0 xef) eqn:E; [|exact H].
  apply byte_eqb_eq in E. contradiction.
Qed.
