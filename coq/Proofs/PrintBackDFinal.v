(* Proofs/PrintBackDFinal.v — C03, class (d): the sequence of headers and key/value lines that Display
   prints (`S_print`), as a multiset, is the multiset of print items of the tree; if their source
   positions increase along the print sequence, it is the sequence in which they were read. *)
From TV Require Import Base.Prelude Base.Utf8 Base.Winnow Gen.Consts Spec.Abnf Spec.Lex Spec.Syntax.
From TV Require Import Model.Datetime Model.Numbers Model.Tree Model.Parse Model.Document Model.Write Model.Encode.
From TV Require Import Proofs.SpansDefs Proofs.LexEquivBase Proofs.PrintBackBase Proofs.PrintBackEnc Proofs.PrintBackValue Proofs.PrintBackDoc Proofs.PrintBackSort
                       Proofs.PrintBackEnts Proofs.PrintBackDisplay Proofs.PrintBackSecs Proofs.PrintBackHKey Proofs.PrintBackFinal
                       Proofs.PrintBackDVals Proofs.PrintBackDDisplay Proofs.PrintBackDAll Proofs.PrintBackDKey Proofs.PrintBackDItems.
Require Import Lia ZifyBool ZifyN ZifyNat Sorting.Sorted Sorting.Permutation.

Definition kdummy : key := mkKey [] None decor_default decor_default.

(* what is printed, with the key paths: a header, or a key/value line *)
Inductive witem : Type := WH (e : entry) | WL (kp : list key) (v : value).
Definition wline (kv : list key * value) : witem := WL (fst kv) (snd kv).
Definition pit (e : entry) : list witem :=
  let '(t, p, a) := e in (match p with [] => [] | _ => [WH e] end) ++ map wline (tv t []).
Definition pfw (w : witem) : pitem :=
  match w with
  | WH (t, p, a) => PH (span_start t) (t_position t) a (t_decor t)
  | WL kp v => PL (last kp kdummy) v
  end.
Definition plw (kv : list key * value) : pitem := PL (last (fst kv) kdummy) (snd kv).
Definition wtext (s : bytes) (w : witem) : bytes :=
  match w with
  | WH (t, p, a) =>
    raw_encode (traw s (match d_prefix (t_decor t) with Some r => r | None => REmpty end)) []
    ++ hdr_text s p a ++ raw_encode (traw s (match d_suffix (t_decor t) with Some r => r | None => REmpty end)) [] ++ [x0a]
  | WL kp v => dline s (kp, v)
  end.

Lemma detxt_pit s e : detxt s e = concat (map (wtext s) (pit e)).
Proof.
  destruct e as [[t p] a]. cbn [detxt pit]. unfold dtext.
  assert (E : flat_map (dline s) (tv t []) = concat (map (wtext s) (map wline (tv t [])))).
  { rewrite flat_map_concat_map, map_map. reflexivity. }
  destruct p as [|k0 p0]; cbn [app]; [exact E|]. cbn [map concat wtext]. rewrite E, <- !app_assoc. reflexivity.
Qed.

(* ---- the tables below a table, through the tables made by dotted keys ----------------------------------------------- *)
Fixpoint TBt (t : tbl) {struct t} : list pitem :=
  match t with
  | Tbl items _ _ _ _ _ =>
    (fix go (l : list (key * item)) : list pitem := match l with [] => [] | (k, it) :: tl => TBit k it ++ go tl end) items
  end
with TBit (k : key) (it : item) {struct it} : list pitem :=
  match it with
  | ITable sub => if t_dotted sub then TBt sub else ALL sub false
  | IAot ts sp => ALLit k (IAot ts sp)
  | _ => []
  end.
Definition TBI (items : list (key * item)) : list pitem := flat_map (fun kv => TBit (fst kv) (snd kv)) items.
Lemma TBt_eq t : TBt t = TBI (t_items t).
Proof.
  destruct t as [items d im dt pos sp]. cbn [TBt t_items]. unfold TBI.
  induction items as [|[k it] tl IH]; [reflexivity|]. cbn [flat_map fst snd]. rewrite <- IH. reflexivity.
Qed.

Lemma perm_flat_map_app {A B} (f g : A -> list B) l : Permutation (flat_map f l ++ flat_map g l) (flat_map (fun x => f x ++ g x) l).
Proof.
  induction l as [|x l IH]; [reflexivity|]. cbn [flat_map]. rewrite <- !app_assoc. apply Permutation_app_head.
  rewrite (app_assoc (flat_map f l)). rewrite (Permutation_app_comm (flat_map f l) (g x)). rewrite <- app_assoc. apply Permutation_app_head, IH.
Qed.

Lemma perm_flat_map_ext {A B} (f g : A -> list B) l : Forall (fun x => Permutation (f x) (g x)) l -> Permutation (flat_map f l) (flat_map g l).
Proof. induction 1 as [|x l Hx _ IH]; [reflexivity|]. cbn [flat_map]. apply Permutation_app; assumption. Qed.

Lemma last_snoc {A} (l : list A) x d : last (l ++ [x]) d = x.
Proof. apply last_last. Qed.

(* L1: the items of a table = its lines (through dotted tables) + the tables below *)
Lemma all_lines :
  (forall v : value, True)
  /\ (forall it, forall k p, Permutation (map plw (tvit it (p ++ [k])) ++ TBit k it) (ALLit k it))
  /\ (forall t, forall p, Permutation (map plw (tv t p) ++ TBt t) (ALLI (t_items t))).
Proof.
  apply tree_ind3; try (intros; exact I).
  - intros; reflexivity.
  - intros v _ k p. cbn [tvit map TBit ALLit app]. unfold plw. cbn [fst snd]. rewrite last_snoc. reflexivity.
  - intros t IH k p. cbn [tvit TBit ALLit]. destruct (t_dotted t) eqn:Ed.
    + rewrite ALL_eq. unfold hdr. rewrite Ed. cbn [orb app]. apply IH.
    + reflexivity.
  - intros ts sp IH k p. reflexivity.
  - intros items d im dt pos sp IH p. rewrite tv_eq, TBt_eq. cbn [t_items]. unfold tvi, TBI, ALLI.
    assert (E : map plw (flat_map (fun kv : key * item => tvit (snd kv) (p ++ [fst kv])) items)
                = flat_map (fun kv => map plw (tvit (snd kv) (p ++ [fst kv]))) items).
    { rewrite !flat_map_concat_map, concat_map, map_map. reflexivity. }
    rewrite E. rewrite perm_flat_map_app. apply perm_flat_map_ext. eapply Forall_impl; [|exact IH]. intros [k it] H. cbn [fst snd] in *. apply H.
Qed.

(* ---- L2: what the entries below a table print -------------------------------------------------------------------------- *)
(* a table that exists only as a super-table holds no lines *)
Definition f2 (e : entry) : bool := negb (t_implicit (etbl e)) || no_tv (etbl e).

Lemma filter_flat_map' {A B} (p : B -> bool) (f : A -> list B) l : filter p (flat_map f l) = flat_map (fun x => filter p (f x)) l.
Proof. induction l as [|x l IH]; [reflexivity|]. cbn [flat_map]. rewrite filter_app, IH. reflexivity. Qed.
Lemma flat_map_flat_map' {A B C} (g : B -> list C) (f : A -> list B) l : flat_map g (flat_map f l) = flat_map (fun x => flat_map g (f x)) l.
Proof. induction l as [|x l IH]; [reflexivity|]. cbn [flat_map]. rewrite flat_map_app, IH. reflexivity. Qed.
Lemma map_flat_map' {A B C} (g : B -> C) (f : A -> list B) l : map g (flat_map f l) = flat_map (fun x => map g (f x)) l.
Proof. induction l as [|x l IH]; [reflexivity|]. cbn [flat_map]. rewrite map_app, IH. reflexivity. Qed.

Lemma pfw_lines l : map pfw (map wline l) = map plw l.
Proof. rewrite map_map. reflexivity. Qed.

Definition printed (l : list entry) : list pitem := map pfw (flat_map pit (filter dvis l)).

Lemma printed_app a b : printed (a ++ b) = printed a ++ printed b.
Proof. unfold printed. rewrite filter_app, flat_map_app, map_app. reflexivity. Qed.
Lemma printed_flat_map {A} (f : A -> list entry) l : printed (flat_map f l) = flat_map (fun x => printed (f x)) l.
Proof. unfold printed. rewrite filter_flat_map', flat_map_flat_map', map_flat_map'. reflexivity. Qed.

