(* Proofs/PrintBackDFinal.v — C03, class (d): the sequence of headers and key/value lines that Display
   prints (`S_print`), as a multiset, is the multiset of print items of the tree; if their source
   positions increase along the print sequence, it is the sequence in which they were read. *)
From TV Require Import Base.Prelude Base.Utf8 Base.Winnow Gen.Consts Spec.Abnf Spec.Lex Spec.Syntax.
From TV Require Import Model.Datetime Model.Numbers Model.Tree Model.Parse Model.Document Model.Write Model.Encode.
From TV Require Import Proofs.SpansDefs Proofs.LexEquivBase Proofs.PrintBackBase Proofs.PrintBackEnc Proofs.PrintBackValue Proofs.PrintBackDoc Proofs.PrintBackSort
                       Proofs.PrintBackEnts Proofs.PrintBackDisplay Proofs.PrintBackSecs Proofs.PrintBackHKey Proofs.PrintBackFinal
                       Proofs.PrintBackDVals Proofs.PrintBackDDisplay Proofs.PrintBackDAll Proofs.PrintBackDKey Proofs.PrintBackIValue Proofs.PrintBackDItems.
Require Import Lia ZifyBool ZifyN ZifyNat Sorting.Sorted Sorting.Permutation.

Definition kdummy : key := mkKey [] None decor_default decor_default.

(* what is printed, with the key paths: a header, or a key/value line *)
Inductive witem : Type := WH (e : entry) | WL (kp : list key) (v : value).
Definition wline (kv : list key * value) : witem := WL (fst kv) (snd kv).
Definition pit (e : entry) : list witem :=
  let '(t, p, a) := e in (match p with [] => [] | _ => [WH e] end) ++ map wline (tv t []).
Definition pfw (w : witem) : pitem :=
  match w with
  | WH (t, p, a) => PH (span_start t) (t_position t) a (t_decor t)
  | WL kp v => PL (last kp kdummy) v
  end.
Definition plw (kv : list key * value) : pitem := PL (last (fst kv) kdummy) (snd kv).
Definition wtext (s : bytes) (w : witem) : bytes :=
  match w with
  | WH (t, p, a) =>
    raw_encode (traw s (match d_prefix (t_decor t) with Some r => r | None => REmpty end)) []
    ++ hdr_text s p a ++ raw_encode (traw s (match d_suffix (t_decor t) with Some r => r | None => REmpty end)) [] ++ [x0a]
  | WL kp v => dline s (kp, v)
  end.

Lemma detxt_pit s e : detxt s e = concat (map (wtext s) (pit e)).
Proof.
  destruct e as [[t p] a]. cbn [detxt pit]. unfold dtext.
  assert (E : flat_map (dline s) (tv t []) = concat (map (wtext s) (map wline (tv t [])))).
  { rewrite flat_map_concat_map, map_map. reflexivity. }
  destruct p as [|k0 p0]; cbn [app]; [exact E|]. cbn [map concat wtext]. rewrite E, <- !app_assoc. reflexivity.
Qed.

(* ---- the tables below a table, through the tables made by dotted keys ----------------------------------------------- *)
Fixpoint TBt (t : tbl) {struct t} : list pitem :=
  match t with
  | Tbl items _ _ _ _ _ =>
    (fix go (l : list (key * item)) : list pitem := match l with [] => [] | (k, it) :: tl => TBit k it ++ go tl end) items
  end
with TBit (k : key) (it : item) {struct it} : list pitem :=
  match it with
  | ITable sub => if t_dotted sub then TBt sub else ALL sub false
  | IAot ts sp => ALLit k (IAot ts sp)
  | _ => []
  end.
Definition TBI (items : list (key * item)) : list pitem := flat_map (fun kv => TBit (fst kv) (snd kv)) items.
Lemma TBt_eq t : TBt t = TBI (t_items t).
Proof.
  destruct t as [items d im dt pos sp]. cbn [TBt t_items]. unfold TBI.
  induction items as [|[k it] tl IH]; [reflexivity|]. cbn [flat_map fst snd]. rewrite <- IH. reflexivity.
Qed.

Lemma perm_flat_map_app {A B} (f g : A -> list B) l : Permutation (flat_map f l ++ flat_map g l) (flat_map (fun x => f x ++ g x) l).
Proof.
  induction l as [|x l IH]; [reflexivity|]. cbn [flat_map]. rewrite <- !app_assoc. apply Permutation_app_head.
  rewrite (app_assoc (flat_map f l)). rewrite (Permutation_app_comm (flat_map f l) (g x)). rewrite <- app_assoc. apply Permutation_app_head, IH.
Qed.

Lemma perm_flat_map_ext {A B} (f g : A -> list B) l : Forall (fun x => Permutation (f x) (g x)) l -> Permutation (flat_map f l) (flat_map g l).
Proof. induction 1 as [|x l Hx _ IH]; [reflexivity|]. cbn [flat_map]. apply Permutation_app; assumption. Qed.

Lemma last_snoc {A} (l : list A) x d : last (l ++ [x]) d = x.
Proof. apply last_last. Qed.

(* L1: the items of a table = its lines (through dotted tables) + the tables below *)
Lemma all_lines :
  (forall v : value, True)
  /\ (forall it, forall k p, Permutation (map plw (tvit it (p ++ [k])) ++ TBit k it) (ALLit k it))
  /\ (forall t, forall p, Permutation (map plw (tv t p) ++ TBt t) (ALLI (t_items t))).
Proof.
  apply tree_ind3; try (intros; exact I).
  - intros; reflexivity.
  - intros v _ k p. cbn [tvit map TBit ALLit app]. unfold plw. cbn [fst snd]. rewrite last_snoc. reflexivity.
  - intros t IH k p. cbn [tvit TBit ALLit]. destruct (t_dotted t) eqn:Ed.
    + rewrite ALL_eq. unfold hdr. rewrite Ed. cbn [orb app]. apply IH.
    + reflexivity.
  - intros ts sp IH k p. reflexivity.
  - intros items d im dt pos sp IH p. rewrite tv_eq, TBt_eq. cbn [t_items]. unfold tvi, TBI, ALLI.
    assert (E : map plw (flat_map (fun kv : key * item => tvit (snd kv) (p ++ [fst kv])) items)
                = flat_map (fun kv => map plw (tvit (snd kv) (p ++ [fst kv]))) items).
    { rewrite !flat_map_concat_map, concat_map, map_map. reflexivity. }
    rewrite E. rewrite perm_flat_map_app. apply perm_flat_map_ext. eapply Forall_impl; [|exact IH]. intros [k it] H. cbn [fst snd] in *. apply H.
Qed.

(* ---- L2: what the entries below a table print -------------------------------------------------------------------------- *)
(* a table that exists only as a super-table holds no lines *)
Definition f2 (e : entry) : bool := negb (t_implicit (etbl e)) || no_tv (etbl e).

Lemma filter_flat_map' {A B} (p : B -> bool) (f : A -> list B) l : filter p (flat_map f l) = flat_map (fun x => filter p (f x)) l.
Proof. induction l as [|x l IH]; [reflexivity|]. cbn [flat_map]. rewrite filter_app, IH. reflexivity. Qed.
Lemma flat_map_flat_map' {A B C} (g : B -> list C) (f : A -> list B) l : flat_map g (flat_map f l) = flat_map (fun x => flat_map g (f x)) l.
Proof. induction l as [|x l IH]; [reflexivity|]. cbn [flat_map]. rewrite flat_map_app, IH. reflexivity. Qed.
Lemma map_flat_map' {A B C} (g : B -> C) (f : A -> list B) l : map g (flat_map f l) = flat_map (fun x => map g (f x)) l.
Proof. induction l as [|x l IH]; [reflexivity|]. cbn [flat_map]. rewrite map_app, IH. reflexivity. Qed.

Lemma pfw_lines l : map pfw (map wline l) = map plw l.
Proof. rewrite map_map. reflexivity. Qed.

Definition printed (l : list entry) : list pitem := map pfw (flat_map pit (filter dvis l)).

Lemma printed_app a b : printed (a ++ b) = printed a ++ printed b.
Proof. unfold printed. rewrite filter_app, flat_map_app, map_app. reflexivity. Qed.
Lemma printed_flat_map {A} (f : A -> list entry) l : printed (flat_map f l) = flat_map (fun x => printed (f x)) l.
Proof. unfold printed. rewrite filter_flat_map', flat_map_flat_map', map_flat_map'. reflexivity. Qed.

Lemma print_items (Pv : value -> bool) :
  (forall v : value, True)
  /\ (forall it, forall k p, dsh_item Pv it = true -> p <> [] -> (forall e, In e (ients it p) -> f2 e = true) ->
                 Permutation (printed (ients it p)) (TBit k it))
  /\ (forall t, forall p a, dsh_tbl Pv t = true -> p <> [] -> (forall e, In e (ents t p a) -> f2 e = true) ->
                Permutation (printed (ents t p a)) (if t_dotted t then TBt t else ALL t a)).
Proof.
  apply tree_ind3; try (intros; exact I).
  - intros; reflexivity.
  - intros; reflexivity.
  - intros t IH k p Hs Hp Hf. rewrite ients_table in *. cbn [TBit]. apply IH; assumption.
  - intros ts sp IH k p Hs Hp Hf. rewrite ients_aot in *. cbn [TBit]. rewrite ALLit_aot, printed_flat_map. apply perm_flat_map_ext.
    rewrite dsh_item_aot in Hs. rewrite forallb_forall in Hs. rewrite Forall_forall in *. intros t Ht.
    pose proof (Hs t Ht) as Hst. apply andb_true_iff in Hst as [Hd Hst]. apply negb_true_iff in Hd.
    specialize (IH t Ht p true Hst Hp). rewrite Hd in IH. apply IH. intros e He. apply Hf, in_flat_map. exists t. auto.
  - intros items d im dt pos sp IH p a Hs Hp Hf. rewrite ents_eq in *. rewrite printed_app. rewrite dsh_tbl_eq in Hs. cbn [t_dotted t_items] in *.
    rewrite forallb_forall in Hs.
    (* the entries below *)
    assert (Hsub : Permutation (printed (sub_ents items p)) (TBI items)).
    { unfold sub_ents, TBI. rewrite printed_flat_map. apply perm_flat_map_ext. rewrite Forall_forall in *. intros [k it] Hk. cbn [fst snd].
      apply (IH (k, it) Hk k (p ++ [k]) (Hs _ Hk)); [destruct p; discriminate|]. intros e He. apply Hf, in_or_app. right.
      unfold sub_ents. apply in_flat_map. exists (k, it). auto. }
    set (t := Tbl items d im dt pos sp) in *.
    destruct dt.
    + cbn [app printed filter flat_map map]. rewrite Hsub, TBt_eq. reflexivity.
    + pose proof (Hf (t, p, a) (or_introl eq_refl)) as Hown. unfold f2, etbl in Hown. cbn [fst] in Hown.
      pose proof (proj2 (proj2 all_lines) t []) as HL1. rewrite TBt_eq in HL1. cbn [t_items t] in HL1. fold t in HL1.
      rewrite ALL_eq. cbn [t_items t]. fold t. unfold printed at 1. cbn [filter]. destruct (dvis (t, p, a)) eqn:Ev.
      * (* it prints: header, lines *)
        cbn [flat_map pit]. rewrite app_nil_r. destruct p as [|k0 p0]; [congruence|]. cbn [app map pfw]. rewrite pfw_lines.
        assert (Hh : hdr t a = [PH (span_start t) (t_position t) a (t_decor t)]).
        { unfold hdr. cbn [t t_dotted orb]. cbn [dvis] in Ev. destruct a; [rewrite andb_false_r; reflexivity|]. cbn [orb negb andb] in *.
          destruct (t_implicit t) eqn:Ei; [|reflexivity]. cbn [negb orb andb] in *. rewrite Hown in Ev. discriminate. }
        rewrite Hh. cbn [app]. apply perm_skip. rewrite Hsub. exact HL1.
      * (* it does not print: a super-table without lines *)
        cbn [flat_map map app]. cbn [dvis] in Ev. apply orb_false_iff in Ev as [-> Ev]. apply negb_false_iff, andb_true_iff in Ev as [Ei En].
        assert (Hh : hdr t false = []) by (unfold hdr; rewrite Ei; cbn [negb andb]; rewrite orb_true_r; reflexivity). rewrite Hh. cbn [app].
        unfold no_tv in En. destruct (tv t []) eqn:Etv; [|discriminate]. cbn [map app] in HL1. rewrite Hsub. exact HL1.
Qed.

(* Claim A: what is printed is, as a multiset, the items of the tree *)
Theorem printed_all (Pv : value -> bool) r : dsh_tbl Pv r = true -> (forall e, In e (sub_ents (t_items r) []) -> f2 e = true) ->
  Permutation (map pfw (flat_map pit ((r, [], false) :: filter dvis (sub_ents (t_items r) [])))) (ALLI (t_items r)).
Proof.
  intros Hs Hf. cbn [flat_map pit app]. rewrite map_app, pfw_lines. fold (printed (sub_ents (t_items r) [])).
  pose proof (proj2 (proj2 all_lines) r []) as HL1. rewrite <- HL1. apply Permutation_app_head. rewrite TBt_eq.
  rewrite dsh_tbl_eq in Hs. rewrite forallb_forall in Hs. unfold sub_ents, TBI. rewrite printed_flat_map. apply perm_flat_map_ext.
  rewrite Forall_forall. intros [k it] Hk. cbn [fst snd app].
  apply (proj1 (proj2 (print_items Pv)) it k [k] (Hs _ Hk)); [discriminate|]. intros e He. apply Hf. unfold sub_ents. apply in_flat_map. exists (k, it). auto.
Qed.

(* ---- the print sequence and the checks on it ----------------------------------------------------------------------------- *)
Definition vis_entries (r : tbl) : list entry := (r, [], false) :: filter dvis (sub_ents (t_items r) []).
Definition sorted_entries (r : tbl) : list entry := map snd (stable_sort (map (fun e => (epos e, e)) (vis_entries r))).
Definition S_print (r : tbl) : list witem := flat_map pit (sorted_entries r).

Fixpoint sorted_ltb (l : list N) : bool :=
  match l with [] => true | x :: tl => forallb (fun y => (x <? y)%N) tl && sorted_ltb tl end.
Lemma sorted_ltb_ok l : sorted_ltb l = true -> StronglySorted N.lt l.
Proof.
  induction l as [|x l IH]; [constructor|]. cbn [sorted_ltb]. intro H. apply andb_true_iff in H as [H1 H2].
  constructor; [apply IH, H2|]. rewrite forallb_forall in H1. apply Forall_forall. intros y Hy. specialize (H1 y Hy). lia.
Qed.

(* a header / a line is spelled in the source as it prints *)
Definition wok (s : bytes) (w : witem) : bool :=
  match w with
  | WH (t, p, a) => match span_start t with Some st => starts_with (hdr_text s p a) (skipn (N.to_nat st) s) | None => false end
  | WL kp v => kline_ok s (removelast kp) (last kp kdummy)
  end.

(* supers hold no lines; the source positions of what is printed increase; everything is spelled as it prints *)
Definition laid_out (s : bytes) (r : tbl) : bool :=
  forallb f2 (sub_ents (t_items r) [])
  && sorted_ltb (map (fun w => ppos (pfw w)) (S_print r))
  && forallb (wok s) (S_print r).

(* ---- keys of tables along paths ----------------------------------------------------------------------------------------- *)
Lemma ents_paths2 (K : key -> Prop) :
  (forall v : value, True)
  /\ (forall it, forall p, uki2 K it -> Forall K p -> Forall (fun e => Forall K (epath e) /\ uk2 K (etbl e)) (ients it p))
  /\ (forall t, forall p a, uk2 K t -> Forall K p -> Forall (fun e => Forall K (epath e) /\ uk2 K (etbl e)) (ents t p a)).
Proof.
  apply tree_ind3; try (intros; exact I).
  - intros; constructor.
  - intros; constructor.
  - intros t IH p Hu Hp. rewrite ients_table. apply IH; assumption.
  - intros ts sp IH p Hu Hp. rewrite ients_aot. apply uki2_aot in Hu. rewrite Forall_forall in IH, Hu. apply Forall_forall. intros e He.
    apply in_flat_map in He as (t & Ht & He). specialize (IH t Ht p true (Hu t Ht) Hp). rewrite Forall_forall in IH. apply IH, He.
  - intros items d im dt pos sp IH p a Hu Hp. rewrite ents_eq. pose proof Hu as Hu0. apply uk2_eq in Hu as (_ & Hs). cbn [t_dotted t_items] in *.
    apply Forall_app. split; [destruct dt; constructor; [split; [exact Hp|exact Hu0]|constructor]|].
    unfold sub_ents, uks2 in *. rewrite Forall_forall in IH, Hs. apply Forall_forall. intros e He. apply in_flat_map in He as ([k it] & Hk & He). cbn [fst snd] in He.
    destruct (Hs _ Hk) as [HK Hi]. cbn [fst snd] in *. destruct it as [|v|sub|ts asp]; [destruct He|destruct He| |].
    + specialize (IH _ Hk (p ++ [k]) Hi). cbn [snd] in IH. assert (Hpk : Forall K (p ++ [k])).
      { apply Forall_app. split; [exact Hp|constructor; [apply HK; reflexivity|constructor]]. }
      specialize (IH Hpk). rewrite Forall_forall in IH. apply IH, He.
    + specialize (IH _ Hk (p ++ [k]) Hi). cbn [snd] in IH. assert (Hpk : Forall K (p ++ [k])).
      { apply Forall_app. split; [exact Hp|constructor; [apply HK; reflexivity|constructor]]. }
      specialize (IH Hpk). rewrite Forall_forall in IH. apply IH, He.
Qed.

Lemma removelast_snoc {A} (l : list A) x : removelast (l ++ [x]) = l.
Proof. apply removelast_last. Qed.

Lemma tv_paths2 (K : key -> Prop) :
  (forall v : value, True)
  /\ (forall it, forall k p, (is_tab it = true -> K k) -> uki2 K it -> Forall K p ->
                 Forall (fun kv : list key * value => fst kv <> [] /\ Forall K (removelast (fst kv))) (tvit it (p ++ [k])))
  /\ (forall t, forall p, uk2 K t -> Forall K p ->
                Forall (fun kv : list key * value => fst kv <> [] /\ Forall K (removelast (fst kv))) (tv t p)).
Proof.
  apply tree_ind3; try (intros; exact I).
  - intros; constructor.
  - intros v _ k p _ _ Hp. constructor; [|constructor]. cbn [fst]. split; [destruct p; discriminate|]. rewrite removelast_snoc. exact Hp.
  - intros t IH k p Hk Hu Hp. cbn [tvit]. destruct (t_dotted t); [|constructor]. apply IH; [exact Hu|].
    apply Forall_app. split; [exact Hp|constructor; [apply Hk; reflexivity|constructor]].
  - intros; constructor.
  - intros items d im dt pos sp IH p Hu Hp. rewrite tv_eq. apply uk2_eq in Hu as (_ & Hs). cbn [t_items] in *. unfold tvi, uks2 in *.
    rewrite Forall_forall in IH, Hs. apply Forall_forall. intros x Hx. apply in_flat_map in Hx as ([k it] & Hk & Hx). cbn [fst snd] in Hx.
    destruct (Hs _ Hk) as [HK Hi]. cbn [fst snd] in *. specialize (IH _ Hk k p HK Hi Hp). cbn [snd] in IH. rewrite Forall_forall in IH. apply IH, Hx.
Qed.

(* ---- the theorem ------------------------------------------------------------------------------------------------------- *)
Lemma in_S_print r w : In w (S_print r) -> exists e, In e (vis_entries r) /\ In w (pit e).
Proof.
  unfold S_print. intro H. apply in_flat_map in H as (e & He & Hw). exists e. split; [|exact Hw].
  unfold sorted_entries in He. apply in_map_iff in He as ([q e0] & <- & He). apply (Permutation_in _ (stable_sort_perm _)) in He.
  apply in_map_iff in He as (e1 & E1 & He). injection E1 as _ <-. exact He.
Qed.

Lemma S_print_perm r : Permutation (S_print r) (flat_map pit (vis_entries r)).
Proof.
  unfold S_print. apply Permutation_flat_map. unfold sorted_entries.
  transitivity (map snd (map (fun e => (epos e, e)) (vis_entries r))); [apply Permutation_map, stable_sort_perm|].
  rewrite map_map. cbn [snd]. rewrite map_id. reflexivity.
Qed.

Lemma concat_flat_map {A B} (f : A -> list B) l : concat (map f l) = flat_map f l.
Proof. symmetry. apply flat_map_concat_map. Qed.

Lemma sorted_tag_lt {A} (f : A -> N) (l : list A) : StronglySorted N.lt (map f l) -> StronglySorted klt (map (fun x => (f x, x)) l).
Proof.
  induction l as [|x l IH]; [constructor|]. cbn [map]. intro H. inversion H as [|? ? H1 H2]; subst. constructor; [apply IH, H1|].
  rewrite Forall_map in *. eapply Forall_impl; [|exact H2]. intros a Ha. unfold klt. cbn [fst]. exact Ha.
Qed.
Lemma sorted_tag_le {A} (f : A -> N) (l : list A) : StronglySorted N.lt (map f l) -> StronglySorted kle (map (fun x => (f x, x)) l).
Proof.
  induction l as [|x l IH]; [constructor|]. cbn [map]. intro H. inversion H as [|? ? H1 H2]; subst. constructor; [apply IH, H1|].
  rewrite Forall_map in *. eapply Forall_impl; [|exact H2]. intros a Ha. unfold kle. cbn [fst]. cbn beta in Ha. lia.
Qed.

Lemma tag_inj {A} (f : A -> N) : forall l1 l2 : list A, map (fun x => (f x, x)) l1 = map (fun x => (f x, x)) l2 -> l1 = l2.
Proof. induction l1 as [|a l1 IH]; intros [|b l2] E; try discriminate; [reflexivity|]. cbn [map] in E. injection E as _ -> E. f_equal. apply IH, E. Qed.

Theorem dsections_render s r tr (items : list sitem) :
  dsh_tbl (vok s) r = true -> t_dotted r = false -> t_decor r = decor_default -> t_position r = None -> uk2 (hkey s) r ->
  Permutation (ALLI (t_items r)) (map fst items) -> Forall (sitem_ok s) items ->
  StronglySorted N.lt (map (fun it : sitem => ppos (fst it)) items) -> laid_out s r = true ->
  display_document (ttbl s r) tr = concat (map snd items) ++ raw_encode tr [].
Proof.
  intros Hs Hnd Hd Hp Hu Hperm Hok Hsort Hlay. unfold laid_out in Hlay.
  apply andb_true_iff in Hlay as [Hlay Hwok]. apply andb_true_iff in Hlay as [Hf2 Hso].
  rewrite forallb_forall in Hf2, Hwok. apply sorted_ltb_ok in Hso.
  set (rest := sub_ents (t_items r) []) in *.
  pose proof (sub_ents_dsh (vok s) r Hs) as Hrest. fold rest in Hrest. rewrite Forall_forall in Hrest.
  pose proof (proj2 (proj2 (ents_paths2 (hkey s))) r [] false Hu (Forall_nil _)) as Hpaths. rewrite ents_eq, Hnd in Hpaths. fold rest in Hpaths.
  cbn [app] in Hpaths. inversion Hpaths as [|? ? _ Hpaths']; subst. clear Hpaths. rewrite Forall_forall in Hpaths'.
  (* what is printed is what was read, as multisets *)
  pose proof (printed_all (vok s) r Hs Hf2) as PA.
  assert (PS : Permutation (map pfw (S_print r)) (map fst items)).
  { eapply Permutation_trans; [apply Permutation_map, S_print_perm|]. eapply Permutation_trans; [exact PA|exact Hperm]. }
  (* and in the same order *)
  assert (ES : map pfw (S_print r) = map fst items).
  { assert (E : map (fun x => (ppos x, x)) (map pfw (S_print r)) = map (fun x => (ppos x, x)) (map fst items)).
    { apply sorted_perm_unique.
      - apply sorted_tag_lt. rewrite map_map. exact Hsort.
      - apply sorted_tag_le. rewrite map_map. exact Hso.
      - apply Permutation_map, PS. }
    apply (tag_inj ppos _ _ E). }
  (* every visible table below the root was opened by a header: position, decor *)
  assert (Hw : Forall (fun e => dvis e = true -> t_position (etbl e) <> None /\ decor_some (t_decor (etbl e))) rest).
  { apply Forall_forall. intros e He Hv. destruct (Hrest e He) as [_ Hpe]. destruct e as [[t p] a]. unfold epath, etbl in *. cbn [fst snd] in *.
    assert (Hin : In (pfw (WH (t, p, a))) (map fst items)).
    { apply (Permutation_in _ Hperm), (Permutation_in _ PA), in_map, in_flat_map. exists (t, p, a).
      split; [right; apply filter_In; auto|]. cbn [pit]. destruct p; [congruence|]. left. reflexivity. }
    apply in_map_iff in Hin as ([x txt] & Ex & Hit). cbn [fst pfw] in Ex. rewrite Forall_forall in Hok. specialize (Hok _ Hit). subst x. cbn [sitem_ok] in Hok.
    destruct Hok as (start & q0 & lead & trail & Y & _ & Eq & Edec & _). rewrite Eq, Edec. split; [discriminate|split; discriminate]. }
  rewrite (display_dsections (vok s) s r tr Hs Hnd Hd Hp Hw). f_equal. unfold rest.
  change ((r, @nil key, false) :: filter dvis (sub_ents (t_items r) [])) with (vis_entries r).
  (* the text, item by item *)
  transitivity (concat (map (wtext s) (S_print r))).
  { assert (E : map (fun e => (epos e, detxt s e)) (vis_entries r) = map (on_snd (detxt s)) (map (fun e => (epos e, e)) (vis_entries r)))
      by (rewrite map_map; reflexivity).
    rewrite E, <- stable_sort_map, map_map. cbn [on_snd snd]. unfold S_print, sorted_entries.
    generalize (stable_sort (map (fun e : entry => (epos e, e)) (vis_entries r))). intro L.
    induction L as [|x L IH]; [reflexivity|]. cbn [map concat flat_map]. rewrite map_app, concat_app, <- IH, detxt_pit. reflexivity. }
  f_equal. apply (map_pair_ext pfw fst (wtext s) snd _ _ ES). intros w [x txt] Hw0 Hit Ex. cbn [fst snd] in *.
  destruct (in_S_print r w Hw0) as (e & He & Hwe). rewrite Forall_forall in Hok. specialize (Hok _ Hit). specialize (Hwok _ Hw0).
  assert (Hedsh : dsh_tbl (vok s) (etbl e) = true /\ uk2 (hkey s) (etbl e)).
  { destruct He as [<- | He]; [split; assumption|]. apply filter_In in He as [He _]. split; [apply (Hrest e He)|apply (Hpaths' e He)]. }
  destruct Hedsh as [Hes Heu]. destruct e as [[t p] a]. unfold etbl in *. cbn [fst] in *. cbn [pit] in Hwe. apply in_app_iff in Hwe as [Hwe | Hwe].
  - (* a header *)
    destruct p as [|k0 p0]; [destruct Hwe|]. destruct Hwe as [<- | []]. cbn [pfw] in Ex. subst x. cbn [sitem_ok] in Hok.
    destruct Hok as (start & q0 & lead & trail & Y & Est & Eq & Edec & Hat & ->).
    destruct He as [E0 | He]; [discriminate E0|]. apply filter_In in He as [He _].
    cbn [wok] in Hwok. rewrite Est in Hwok. destruct (Hpaths' _ He) as [Hpk _]. unfold epath in Hpk. cbn [fst snd] in Hpk.
    pose proof (hdr_unique s (k0 :: p0) a start Y Hpk ltac:(discriminate) Hat Hwok) as Eh.
    cbn [wtext]. rewrite Eh, Edec. cbn [decor_new d_prefix d_suffix]. rewrite <- !app_assoc. reflexivity.
  - (* a key/value line *)
    apply in_map_iff in Hwe as ([kp v] & <- & Hkv). cbn [wline fst snd pfw] in *. subst x. cbn [sitem_ok] in Hok.
    destruct Hok as (j0 & i0 & ja & jb & po & LS & r0 & Hj0 & Rj & ELS & HLS & Erepr & Eja & Hne & Epre & Hls & Hpo & Hk' & Hprom).
    pose proof (proj2 (proj2 (tv_paths2 (hkey s))) t [] Heu (Forall_nil _)) as Htp. rewrite Forall_forall in Htp. destruct (Htp _ Hkv) as [Hkne Hks]. cbn [fst] in *.
    pose proof (proj2 (proj2 (dsh_tv (vok s))) t [] Hes) as Hpv. unfold pvals in Hpv. rewrite Forall_forall in Hpv. destruct (Hpv _ Hkv) as [Hv _]. cbn [snd] in Hv.
    cbn [wok] in Hwok.
    pose proof (kline_unique s j0 i0 ja jb (removelast kp) po (last kp kdummy) LS r0 Hj0 Rj ELS HLS Erepr Eja Hne Epre Hls Hpo Hks Hk' Hwok) as Eu.
    cbn [wtext]. rewrite <- (Hprom (removelast kp) Eu Hv). rewrite <- (app_removelast_last kdummy Hkne). reflexivity.
Qed.

(* ---- without the order and spelling checks: the same items, as a multiset ------------------------------------------------ *)
Theorem dsections_struct s r tr (items : list sitem) :
  dsh_tbl (vok s) r = true -> t_dotted r = false -> t_decor r = decor_default -> t_position r = None ->
  Permutation (ALLI (t_items r)) (map fst items) -> Forall (sitem_ok s) items ->
  forallb f2 (sub_ents (t_items r) []) = true ->
  display_document (ttbl s r) tr = concat (map (wtext s) (S_print r)) ++ raw_encode tr []
  /\ Permutation (map pfw (S_print r)) (map fst items).
Proof.
  intros Hs Hnd Hd Hp Hperm Hok Hf2. rewrite forallb_forall in Hf2.
  set (rest := sub_ents (t_items r) []) in *.
  pose proof (sub_ents_dsh (vok s) r Hs) as Hrest. fold rest in Hrest. rewrite Forall_forall in Hrest.
  pose proof (printed_all (vok s) r Hs Hf2) as PA.
  assert (PS : Permutation (map pfw (S_print r)) (map fst items)).
  { eapply Permutation_trans; [apply Permutation_map, S_print_perm|]. eapply Permutation_trans; [exact PA|exact Hperm]. }
  split; [|exact PS].
  assert (Hw : Forall (fun e => dvis e = true -> t_position (etbl e) <> None /\ decor_some (t_decor (etbl e))) rest).
  { apply Forall_forall. intros e He Hv. destruct (Hrest e He) as [_ Hpe]. destruct e as [[t p] a]. unfold epath, etbl in *. cbn [fst snd] in *.
    assert (Hin : In (pfw (WH (t, p, a))) (map fst items)).
    { apply (Permutation_in _ Hperm), (Permutation_in _ PA), in_map, in_flat_map. exists (t, p, a).
      split; [right; apply filter_In; auto|]. cbn [pit]. destruct p; [congruence|]. left. reflexivity. }
    apply in_map_iff in Hin as ([x txt] & Ex & Hit). cbn [fst pfw] in Ex. rewrite Forall_forall in Hok. specialize (Hok _ Hit). subst x. cbn [sitem_ok] in Hok.
    destruct Hok as (start & q0 & lead & trail & Y & _ & Eq & Edec & _). rewrite Eq, Edec. split; [discriminate|split; discriminate]. }
  rewrite (display_dsections (vok s) s r tr Hs Hnd Hd Hp Hw). f_equal. unfold rest.
  change ((r, @nil key, false) :: filter dvis (sub_ents (t_items r) [])) with (vis_entries r).
  assert (E : map (fun e => (epos e, detxt s e)) (vis_entries r) = map (on_snd (detxt s)) (map (fun e => (epos e, e)) (vis_entries r)))
    by (rewrite map_map; reflexivity).
  rewrite E, <- stable_sort_map, map_map. cbn [on_snd snd]. unfold S_print, sorted_entries.
  generalize (stable_sort (map (fun e : entry => (epos e, e)) (vis_entries r))). intro L.
  induction L as [|x L IH]; [reflexivity|]. cbn [map concat flat_map]. rewrite map_app, concat_app, <- IH, detxt_pit. reflexivity.
Qed.

Lemma tv_nonempty :
  (forall v : value, True)
  /\ (forall it, forall q, q <> [] -> Forall (fun kv : list key * value => fst kv <> []) (tvit it q))
  /\ (forall t, forall p, Forall (fun kv : list key * value => fst kv <> []) (tv t p)).
Proof.
  apply tree_ind3; try (intros; exact I).
  - intros; constructor.
  - intros v _ q Hq. constructor; [exact Hq|constructor].
  - intros t IH q Hq. cbn [tvit]. destruct (t_dotted t); [apply IH|constructor].
  - intros; constructor.
  - intros items d im dt pos sp IH p. rewrite tv_eq. cbn [t_items]. unfold tvi. rewrite Forall_forall in IH. apply Forall_forall. intros x Hx.
    apply in_flat_map in Hx as ([k it] & Hk & Hx). cbn [fst snd] in Hx. specialize (IH _ Hk (p ++ [k])). cbn [snd] in IH.
    assert (Hq : p ++ [k] <> []) by (destruct p; discriminate). specialize (IH Hq). rewrite Forall_forall in IH. apply IH, Hx.
Qed.

(* a printed item and the item read: the same text around the key path *)
Definition same_around (t1 t2 : bytes) : Prop := exists A X Y B, t1 = A ++ X ++ B /\ t2 = A ++ Y ++ B.

Lemma item_same s r w (it : sitem) : dsh_tbl (vok s) r = true -> In w (S_print r) -> sitem_ok s it -> pfw w = fst it ->
  same_around (wtext s w) (snd it).
Proof.
  intros Hs Hw Hok Ex. destruct it as [x txt]. cbn [fst snd] in *. destruct (in_S_print r w Hw) as (e & He & Hwe).
  pose proof (sub_ents_dsh (vok s) r Hs) as Hrest. rewrite Forall_forall in Hrest.
  assert (Hes : dsh_tbl (vok s) (etbl e) = true).
  { destruct He as [<- | He]; [exact Hs|]. apply filter_In in He as [He _]. apply (Hrest e He). }
  destruct e as [[t p] a]. unfold etbl in *. cbn [fst] in *. cbn [pit] in Hwe. apply in_app_iff in Hwe as [Hwe | Hwe].
  - destruct p as [|k0 p0]; [destruct Hwe|]. destruct Hwe as [<- | []]. cbn [pfw] in Ex. subst x. cbn [sitem_ok] in Hok.
    destruct Hok as (start & q0 & lead & trail & Y & Est & Eq & Edec & Hat & ->).
    exists (raw_encode (traw s lead) []), (hdr_text s (k0 :: p0) a), (hdr_open a ++ Y ++ hdr_close a), (raw_encode (traw s trail) [] ++ [x0a]).
    cbn [wtext]. rewrite Edec. cbn [decor_new d_prefix d_suffix]. split; rewrite <- ?app_assoc; reflexivity.
  - apply in_map_iff in Hwe as ([kp v] & <- & Hkv). cbn [wline fst snd pfw] in *. subst x. cbn [sitem_ok] in Hok.
    destruct Hok as (j0 & i0 & ja & jb & po & LS & r0 & _ & _ & _ & _ & _ & _ & _ & _ & _ & _ & _ & Hprom).
    pose proof (proj2 (proj2 (dsh_tv (vok s))) t [] Hes) as Hpv. unfold pvals in Hpv. rewrite Forall_forall in Hpv. destruct (Hpv _ Hkv) as [Hv _]. cbn [snd] in Hv.
    assert (Hkne : kp <> []).
    { pose proof (proj2 (proj2 tv_nonempty) t []) as Htp. rewrite Forall_forall in Htp. apply (Htp _ Hkv). }
    set (k' := last kp kdummy) in *. set (ks := removelast kp).
    assert (Ekp : kp = ks ++ [k']) by (apply app_removelast_last, Hkne).
    pose proof (Hprom po eq_refl Hv) as Et. rewrite <- Et. rewrite Ekp. unfold wline. cbn [wtext fst snd]. unfold dline. cbn [fst snd]. rewrite !enc_split.
    exists (decor_prefix (k_leaf (tkey s k')) (fst DEFAULT_KEY_DECOR)), (pre_text s ks k'), (pre_text s po k'),
           (krepr s k' ++ decor_suffix (k_leaf (tkey s k')) (snd DEFAULT_KEY_DECOR) ++ [x3d]
            ++ encode_value (S (value_size (tvalue s v))) (tvalue s v) DEFAULT_VALUE_DECOR ++ [x0a]).
    split; rewrite <- ?app_assoc; reflexivity.
Qed.
