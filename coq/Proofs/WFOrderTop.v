(* Proofs/WFOrderTop.v — C03, general clause, UNCONDITIONALLY for every accepted document whose key/value lines have
   undotted keys (`nodot`: the parsed tree holds no table made of dotted keys; header paths of any length, dotted keys
   inside inline tables, sections in ANY order are all allowed): the text the document prints is accepted again and
   decodes to the same data, kinds included (`reparse_nodot`).
   Proofs/WFOrderDoc.v gives the semantic half on the parsed tree; despanning changes neither the sections nor their
   statements (`replay_stmts_t`); Proofs/WFParseTop.v `parse_WF` and Proofs/WFReplay.v give the rest. *)
From TV Require Import Base.Prelude Base.Utf8 Base.Winnow Gen.Consts Spec.Abnf Spec.Lex Spec.Defs Spec.DatetimeSpec Spec.Syntax Spec.WF.
From TV Require Import Model.Datetime Model.Numbers Model.Tree Model.Parse Model.Document Model.Write Model.Encode.
From TV Require Import Proofs.GrammarBase Proofs.SpansDefs Proofs.PrintBackBase Proofs.PrintBackSort Proofs.PrintBackDespan.
From TV Require Import Proofs.WFSem Proofs.WFSemDoc Proofs.WFPrintKey Proofs.WFPrintFlat Proofs.WFTree Proofs.WFPrintDoc Proofs.WFParseBase Proofs.WFParseTop
                       Proofs.WFReplay Proofs.WFOrderBase Proofs.WFOrderDoc.
Require Import Lia NArith.

Local Notation section := (tbl * list key * bool)%type.

Section T.
  Variable s : bytes.

  (* despanning keeps the data *)
  Lemma absv_t : forall v, absv (tvalue s v) = absv v.
  Proof.
    refine (proj1 (tree_ind3 (fun v => absv (tvalue s v) = absv v)
                     (fun it => absi (titem s it) = absi it) (fun _ => True) _ _ _ _ _ _ _ _)); auto.
    - intros vals tr c d sp IH. rewrite tvalue_array, !absv_array, map_map. f_equal. apply map_ext_Forall. exact IH.
    - intros items pre im dt d sp IH. rewrite tvalue_inline, !absv_inline, map_map. f_equal. apply map_ext_Forall.
      eapply Forall_impl; [|exact IH]. intros [k it] H. unfold absi_kv, tkv. cbn [fst snd] in *. rewrite H. reflexivity.
  Qed.

  Lemma dn_item_t : forall it, dn_item (titem s it) = dn_item it.
  Proof.
    induction it as [it IH] using item_dotted_ind. destruct it as [|v|t|ts asp]; try reflexivity.
    change (titem s (IValue v)) with (IValue (tvalue s v)).
    destruct v as [x r d|vals tr c d sp|sub pre im dt d sp].
    - reflexivity.
    - rewrite tvalue_array. cbn [dn_item]. f_equal. rewrite <- (tvalue_array s vals tr c d sp). apply absv_t.
    - rewrite tvalue_inline. destruct dt.
      + cbn [dn_item]. f_equal. rewrite map_map. specialize (IH sub pre im d sp eq_refl). apply map_ext_Forall. eapply Forall_impl; [|exact IH].
        intros [k it] H. unfold tkv. cbn [fst snd] in *. rewrite H. reflexivity.
      + cbn [dn_item]. f_equal. rewrite <- (tvalue_inline s sub pre im false d sp). apply absv_t.
  Qed.

  Lemma sb_tbl_t : forall t, sb_tbl (ttbl s t) = sb_tbl t.
  Proof.
    induction t as [items d im dt p sp IH] using tbl_sub_ind. rewrite ttbl_eq, !sb_tbl_eq. cbn [t_items]. rewrite map_map. apply map_ext_Forall.
    eapply Forall_impl; [|exact IH]. intros [k it] H. unfold tkv. cbn [fst snd tkey k_key] in *. f_equal.
    destruct it as [|v|sub|ts asp]; try reflexivity.
    - change (titem s (IValue v)) with (IValue (tvalue s v)). unfold sn_item. f_equal. apply (dn_item_t (IValue v)).
    - change (titem s (ITable sub)) with (ITable (ttbl s sub)). unfold sn_item. rewrite (proj1 (t_flags_t s sub)), shown_t, has_line_t, H. reflexivity.
    - rewrite titem_aot. unfold sn_item. f_equal. rewrite map_map. apply map_ext_Forall. exact H.
  Qed.

  Lemma tflat_nil_t : forall t p, (tflat (map (tkey s) p) (ttbl s t) = []) <-> (tflat p t = []).
  Proof.
    intros t p. pose proof (has_line_t s t). (* through the forest: both are empty iff the body has no line *)
    assert (G : forall u q, (tflat q u = []) <-> dflat dval (dpart dval (sb_tbl u)) = []).
    { intros u q. rewrite <- (map_id (dflat dval (dpart dval (sb_tbl u)))). pose proof (tflat_dflat u q) as E.
      split; intro Hx.
      - rewrite Hx in E. cbn [map] in E. symmetry in E. apply map_eq_nil in E. rewrite E. reflexivity.
      - rewrite map_id in Hx. rewrite Hx in E. cbn [map] in E. apply map_eq_nil in E. exact E. }
    rewrite (G (ttbl s t)), (G t), sb_tbl_t. reflexivity.
  Qed.
  Lemma no_lines_t t : no_lines (ttbl s t) = no_lines t.
  Proof.
    unfold no_lines. pose proof (tflat_nil_t t []) as [H1 H2]. cbn [map] in *.
    destruct (tflat [] t) eqn:E; [rewrite (H2 eq_refl); reflexivity|]. destruct (tflat [] (ttbl s t)) eqn:E'; [specialize (H1 eq_refl); discriminate|reflexivity].
  Qed.

  Definition tent (x : section) : section := (ttbl s (fst (fst x)), map (tkey s) (snd (fst x)), snd x).
  Lemma ktexts_t p : ktexts (map (tkey s) p) = ktexts p.
  Proof. unfold ktexts. rewrite map_map. reflexivity. Qed.
  Lemma own_abs_t x : own_abs (tent x) = own_abs x.
  Proof.
    destruct x as [[t p] a]. unfold own_abs, own_hdr, hdr_printed, tent. cbn [fst snd]. rewrite sb_tbl_t, ktexts_t, no_lines_t, (proj2 (t_flags_t s t)).
    destruct p; reflexivity.
  Qed.

  Lemma sections_t : forall t p a, sections (ttbl s t) (map (tkey s) p) a = map tent (sections t p a).
  Proof.
    induction t as [items d im dt pos sp IH] using tbl_sub_ind. intros p a. rewrite (sections_eq (ttbl s _)), (sections_eq (Tbl _ _ _ _ _ _)), map_app.
    rewrite (proj1 (t_flags_t s _)), t_items_t. cbn [t_dotted t_items]. f_equal; [destruct dt; reflexivity|].
    induction items as [|[k it] items IHi]; [reflexivity|]. inversion IH as [|? ? H1 H2]; subst. cbn [map flat_map]. rewrite map_app, (IHi H2). f_equal.
    unfold sub_sections, tkv. cbn [fst snd] in *. replace (map (tkey s) p ++ [tkey s k]) with (map (tkey s) (p ++ [k])) by (rewrite map_app; reflexivity).
    destruct it as [|v|sub|ts asp]; try reflexivity.
    - change (titem s (ITable sub)) with (ITable (ttbl s sub)). cbv beta iota. apply H1.
    - rewrite titem_aot. cbv beta iota. clear -H1. induction ts as [|e ts IHt]; [reflexivity|]. inversion H1; subst. cbn [map flat_map]. rewrite (map_app tent), H2, (IHt H3). reflexivity.
  Qed.

  Lemma assign_positions_t : forall (l : list section) n, assign_positions n (map tent l) = map (on_snd tent) (assign_positions n l).
  Proof.
    induction l as [|[[t p] a] l IH]; intro n; [reflexivity|]. cbn [map tent fst snd assign_positions].
    assert (Ep : t_position (ttbl s t) = t_position t) by (destruct t; rewrite ttbl_eq; reflexivity). rewrite Ep, IH. reflexivity.
  Qed.

  Theorem replay_stmts_t r : replay_stmts (ttbl s r) = replay_stmts r.
  Proof.
    unfold replay_stmts, display_order. change (@nil key) with (map (tkey s) []) at 1. rewrite sections_t, assign_positions_t, <- stable_sort_map.
    generalize (stable_sort (assign_positions 0 (sections r [] false))). intro l.
    induction l as [|[q x] l IH]; [reflexivity|]. cbn [map flat_map on_snd fst snd]. rewrite own_abs_t, IH. reflexivity.
  Qed.
End T.

(* ---- THE theorem ------------------------------------------------------------------------------------------------------------ *)
Theorem reparse_nodot s d o :
  parse_document s = POk d -> nodot (doc_root d) = true -> print_doc s d = Some o ->
  exists d', parse_document o = POk d' /\ abs_doc d' = abs_doc d.
Proof.
  intros Hp Hn Ho. unfold print_doc in Ho.
  destruct (tbl_despan s (doc_root d)) as [r|] eqn:Er; [|discriminate]. destruct (raw_despan s (doc_trailing d)) as [t|] eqn:Et; [|discriminate].
  injection Ho as <-. destruct (parse_WF s d r t Hp Er Et) as [Hs Htr].
  apply (WF_print_parse_replay r t (abs_doc d) Hs Htr). destruct (tree_despan_t s) as (_ & _ & Ht). rewrite (Ht _ _ Er), replay_stmts_t.
  apply (nodot_replay s d Hp Hn).
Qed.
